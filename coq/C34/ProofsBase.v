(* C34: generic facts — ranges, permutations from injective maps, removal of the wrap-around. *)
From PV Require Import Lib.GoInt Lib.GoIntFacts C34.Generated C34.Model.
From Coq Require Import Lia ZifyBool Permutation.
Open Scope Z_scope.
Ltac Zify.zify_post_hook ::= Z.to_euclidean_division_equations.

(* ---- zrange *)
Lemma zrange_in n x : In x (zrange n) <-> 0 <= x < n.
Proof.
  unfold zrange. rewrite in_map_iff. split.
  - intros (k & Hk & Hin). apply in_seq in Hin. lia.
  - intros Hx. exists (Z.to_nat x). split; [lia|]. apply in_seq. lia.
Qed.

Lemma zrange_nodup n : NoDup (zrange n).
Proof. unfold zrange. apply FinFun.Injective_map_NoDup; [intros a b Hab; lia|apply seq_NoDup]. Qed.

Lemma zrange_length n : length (zrange n) = Z.to_nat n.
Proof. unfold zrange. rewrite map_length, seq_length. reflexivity. Qed.

Lemma seq_shift_Z (A : nat) (m st : nat) :
  map Z.of_nat (seq (st + A) m) = map (fun x => Z.of_nat A + x) (map Z.of_nat (seq st m)).
Proof.
  revert st. induction m as [|m IH]; intros st; cbn [seq map]; [reflexivity|].
  f_equal; [lia|]. apply (IH (S st)).
Qed.

Lemma zrange_app a b : 0 <= a -> 0 <= b -> zrange (a + b) = zrange a ++ map (fun x => a + x) (zrange b).
Proof.
  intros Ha Hb. unfold zrange. rewrite Z2Nat.inj_add by lia. rewrite seq_app, map_app. f_equal.
  rewrite (seq_shift_Z (Z.to_nat a) (Z.to_nat b) 0). rewrite Z2Nat.id by lia. reflexivity.
Qed.

(* ---- an injective self-map of [0,n) permutes it *)
Lemma inj_perm (n : Z) (p : Z -> Z) :
  (forall i, 0 <= i < n -> 0 <= p i < n) ->
  (forall i j, 0 <= i < n -> 0 <= j < n -> p i = p j -> i = j) ->
  Permutation (map p (zrange n)) (zrange n).
Proof.
  intros Hr Hinj. apply NoDup_Permutation_bis.
  - assert (Hgen : forall l, NoDup l -> (forall x, In x l -> 0 <= x < n) -> NoDup (map p l)).
    { induction 1 as [|x l Hx Hl IH]; intros Hin; cbn [map]; constructor.
      - intros Hc. apply in_map_iff in Hc. destruct Hc as (y & Hy & Iy).
        assert (y = x) by (apply Hinj; [apply Hin; right; exact Iy | apply Hin; left; reflexivity | exact Hy]).
        subst y. contradiction.
      - apply IH. intros y Hy. apply Hin. right. exact Hy. }
    apply Hgen; [apply zrange_nodup | intros x; apply zrange_in].
  - rewrite map_length. lia.
  - intros x Hx. apply in_map_iff in Hx. destruct Hx as (y & Hy & Iy). subst x.
    apply zrange_in. apply Hr. apply zrange_in. exact Iy.
Qed.

(* ---- reading a page list through getPageNumber at 0..n-1 gives the pages, then blanks *)
Definition getPage (pages : list Z) (j : Z) : Z :=
  if j >=? slice_len pages then 0 else slice_at pages j.

Lemma getPageNumber_getPage IW pages j bt ls nn tf : getPageNumber IW pages j bt ls nn tf = getPage pages j.
Proof. reflexivity. Qed.

Lemma getPage_cons x pages j : 0 <= j -> getPage (x :: pages) (1 + j) = getPage pages j.
Proof.
  intros Hj. unfold getPage, slice_len, slice_at. cbn [length].
  rewrite Nat2Z.inj_succ.
  destruct (Z.geb_spec (1 + j) (Z.succ (Z.of_nat (length pages)))) as [H1|H1];
  destruct (Z.geb_spec j (Z.of_nat (length pages))) as [H2|H2]; try lia; try reflexivity.
  destruct (Z.ltb_spec (1 + j) 0) as [H3|H3]; [lia|]. destruct (Z.ltb_spec j 0) as [H4|H4]; [lia|].
  replace (Z.to_nat (1 + j)) with (S (Z.to_nat j)) by lia. reflexivity.
Qed.

Lemma getPage_zrange pages n : slice_len pages <= n ->
  map (getPage pages) (zrange n) = pages ++ repeat 0 (Z.to_nat (n - slice_len pages)).
Proof.
  revert n. induction pages as [|x pages IH]; intros n Hn.
  - unfold slice_len in *. cbn [length Z.of_nat app] in *. rewrite Z.sub_0_r.
    assert (Hall : forall l, map (getPage []) l = repeat 0 (length l)).
    { induction l as [|y l IHl]; cbn [map repeat length]; [reflexivity|]. rewrite IHl. f_equal.
      unfold getPage, slice_len, slice_at. cbn [length Z.of_nat].
      destruct (Z.geb_spec y 0); [reflexivity|]. destruct (Z.ltb_spec y 0); [reflexivity|]. destruct (Z.to_nat y); reflexivity. }
    rewrite Hall, zrange_length. reflexivity.
  - unfold slice_len in Hn. cbn [length] in Hn. rewrite Nat2Z.inj_succ in Hn.
    replace n with (1 + (n - 1)) by lia. rewrite zrange_app by lia.
    rewrite map_app. change (zrange 1) with [0]. rewrite <- app_comm_cons. cbn [map app].
    assert (H0 : getPage (x :: pages) 0 = x).
    { unfold getPage, slice_len, slice_at. cbn [length]. rewrite Nat2Z.inj_succ.
      destruct (Z.geb_spec 0 (Z.succ (Z.of_nat (length pages)))); [lia|]. reflexivity. }
    rewrite H0. f_equal.
    rewrite map_map.
    rewrite (map_ext_in _ (getPage pages)).
    + rewrite IH by (unfold slice_len; lia). f_equal. f_equal. unfold slice_len. cbn [length]. lia.
    + intros j Hj. apply zrange_in in Hj. apply getPage_cons. lia.
Qed.

Lemma placed_perm pages n (p : Z -> Z) :
  slice_len pages <= n ->
  (forall i, 0 <= i < n -> 0 <= p i < n) ->
  (forall i j, 0 <= i < n -> 0 <= j < n -> p i = p j -> i = j) ->
  Permutation (map (fun i => getPage pages (p i)) (zrange n)) (pages ++ repeat 0 (Z.to_nat (n - slice_len pages))).
Proof.
  intros Hlen Hr Hinj. rewrite <- (getPage_zrange pages n Hlen).
  rewrite <- (map_map p (getPage pages)). apply Permutation_map. apply inj_perm; assumption.
Qed.

(* ---- removing the wrap-around of the generated arithmetic *)
Definition fits (IW n : Z) : Prop := 2 <= IW /\ 0 <= n /\ 4 * n + 256 <= maxS IW.

Lemma minS_maxS w : minS w = - maxS w - 1.
Proof. unfold minS, maxS. lia. Qed.

Ltac unwrap IW :=
  unfold saddw, ssubw, smulw, squow, sremw;
  repeat match goal with
  | |- context[wrapS IW ?x] =>
      lazymatch x with
      | context[wrapS] => fail
      | _ => rewrite (wrapS_id IW x) by (unfold inS; lia)
      end
  end.

Ltac dcond c :=
  lazymatch c with
  | (?a =? ?b) => destruct (Z.eqb_spec a b)
  | (?a <? ?b) => destruct (Z.ltb_spec a b)
  | (?a <=? ?b) => destruct (Z.leb_spec a b)
  | (?a >? ?b) => rewrite (Z.gtb_ltb a b); destruct (Z.ltb_spec b a)
  | (?a >=? ?b) => rewrite (Z.geb_leb a b); destruct (Z.leb_spec b a)
  | (?a || ?b) => dcond a
  | (?a && ?b) => dcond a
  | negb ?a => dcond a
  | _ => destruct c
  end.

Ltac split_ifs :=
  repeat (match goal with |- context[if ?c then _ else _] => dcond c end;
          cbn [orb andb negb fst snd]; try (exfalso; lia)).

Lemma fst_if (A B : Type) (c : bool) (x y : A * B) : fst (if c then x else y) = if c then fst x else fst y.
Proof. destruct c; reflexivity. Qed.
