// genc01 regenerates coq/C01/Generated.v (the table of file-writing functions) from the
// pdfcpu source, using go/ast only (no type checking, no pdfcpu import).
//
//	genc01 -repo /repo -out <file.v>
//
// It reads the non-test .go files of <repo>/pkg/api (skipping *_test.go and verif_export*.go)
// and <repo>/pkg/pdfcpu/write.go, <repo>/pkg/pdfcpu/io.go, and classifies
//
//   - every exported top-level pkg/api function whose name ends in "File",
//   - api.writeCutOutputWith,
//   - the form multi-fill transaction (multifill.go): api.multiFillFormJSONWith / multiFillFormCSVWith
//     and their record writer api.writeMultiFillOutputWith,
//   - attachment extraction (attach.go): api.writeAttachments (reservations) and api.writeAttachmentToPath,
//   - pdfcpu.WriteContext, pdfcpu.WriteReader, pdfcpu.CopyFile, pdfcpu.Write
//
// into a row `FRow pkg name helper key via`. It understands exactly the shapes described
// next to each classifier below and exits 1 with a message naming the function on anything
// else: it never guesses.
package main

import (
	"flag"
	"fmt"
	"go/ast"
	"go/parser"
	"go/token"
	"os"
	"path/filepath"
	"sort"
	"strings"
)

// ---------------------------------------------------------------------------------------
// explicit lists (rule 3)

var multiOutput = set(
	"SplitFile", "SplitByPageNrFile", "CutFile", "NDownFile", "PosterFile",
	"ExtractImagesFile", "ExtractFontsFile", "ExtractPagesFile", "ExtractContentFile",
	"ExtractMetadataFile", "ExtractAttachmentsFile", "MultiFillFormFile",
)

var readOnly = set(
	"ReadContextFile", "ValidateFile", "ValidateSignaturesFile", "GetPermissionsFile",
	"ListBookmarksFile", "ListBoxesFile", "ListPageLayoutFile", "ListPageModeFile",
	"ListViewerPreferencesFile", "PageLayoutFile", "PageModeFile", "ViewerPreferencesFile",
	"HasWatermarksFile", "PageCountFile", "PageDimsFile",
)

var inPlace = set("PatchFile")

func set(names ...string) map[string]bool {
	m := map[string]bool{}
	for _, n := range names {
		m[n] = true
	}
	return m
}

// ---------------------------------------------------------------------------------------

type row struct{ pkg, name, helper, key, via string }

// class is the classification of a pkg/api function; nil means "not staged, not listed".
type class struct{ helper, key, via string }

type gen struct {
	fset *token.FileSet
	api  map[string]*ast.FuncDecl // top-level functions (no receiver) of pkg/api
	pdf  map[string]*ast.FuncDecl // top-level functions of pkg/pdfcpu/{write,io}.go

	memo   map[string]*class
	done   map[string]bool
	inprog map[string]bool

	shadowAsDErr bool

	// package-level `var x = errors.New(...)` / `fmt.Errorf(...)` of the parsed files: non-nil error values
	errVars map[string]bool

	ambiguous []ambiguity
}

// ambiguity: in function fn the identifier at id names both a local and the pkg/api function callee.
type ambiguity struct {
	fn, callee string
	id         *ast.Ident
}

func fail(fn, format string, args ...any) {
	fmt.Fprintf(os.Stderr, "genc01: %s: %s\n", fn, fmt.Sprintf(format, args...))
	os.Exit(1)
}

func (g *gen) at(n ast.Node) string {
	p := g.fset.Position(n.Pos())
	return fmt.Sprintf("%s:%d", filepath.Base(p.Filename), p.Line)
}

func (g *gen) parseFile(path string, into map[string]*ast.FuncDecl) {
	f, err := parser.ParseFile(g.fset, path, nil, parser.SkipObjectResolution)
	if err != nil {
		fail(path, "parse error: %v", err)
	}
	for _, d := range f.Decls {
		if gd, ok := d.(*ast.GenDecl); ok && gd.Tok == token.VAR {
			for _, sp := range gd.Specs {
				vs, ok := sp.(*ast.ValueSpec)
				if !ok || len(vs.Names) != 1 || len(vs.Values) != 1 {
					continue
				}
				if c, ok := vs.Values[0].(*ast.CallExpr); ok {
					if n := calleeName(c); n == "errors.New" || n == "fmt.Errorf" || n == "New" || n == "Errorf" {
						if g.errVars == nil {
							g.errVars = map[string]bool{}
						}
						g.errVars[vs.Names[0].Name] = true
					}
				}
			}
			continue
		}
		fd, ok := d.(*ast.FuncDecl)
		if !ok || fd.Recv != nil {
			continue
		}
		if fd.Body == nil {
			fail(fd.Name.Name, "function without a body in %s", path)
		}
		if fd.Name.Name == "init" || fd.Name.Name == "_" {
			continue
		}
		if prev, dup := into[fd.Name.Name]; dup {
			fail(fd.Name.Name, "declared twice (%s and %s)", g.at(prev), g.at(fd))
		}
		into[fd.Name.Name] = fd
	}
}

// ---------------------------------------------------------------------------------------
// small AST helpers

func unparen(e ast.Expr) ast.Expr {
	for {
		p, ok := e.(*ast.ParenExpr)
		if !ok {
			return e
		}
		e = p.X
	}
}

func isIdent(e ast.Expr, name string) bool {
	id, ok := unparen(e).(*ast.Ident)
	return ok && id.Name == name
}

// identCall reports the callee name of a call `name(...)`, or "".
func identCall(c *ast.CallExpr) string {
	if id, ok := unparen(c.Fun).(*ast.Ident); ok {
		return id.Name
	}
	return ""
}

// selCall reports whether c is `recv.name(...)` with recv a plain identifier.
func selCall(c *ast.CallExpr, recv, name string) bool {
	s, ok := unparen(c.Fun).(*ast.SelectorExpr)
	return ok && s.Sel.Name == name && isIdent(s.X, recv)
}

// calleeName is the last identifier of the callee (`f` for f(...), `m` for x.y.m(...)).
func calleeName(c *ast.CallExpr) string {
	switch f := unparen(c.Fun).(type) {
	case *ast.Ident:
		return f.Name
	case *ast.SelectorExpr:
		return f.Sel.Name
	}
	return ""
}

// calls collects the call expressions below n (nested function literals included) that
// satisfy pred. With skipDefers the subtrees of defer statements are not visited.
func calls(n ast.Node, skipDefers bool, pred func(*ast.CallExpr) bool) []*ast.CallExpr {
	var out []*ast.CallExpr
	ast.Inspect(n, func(m ast.Node) bool {
		if _, ok := m.(*ast.DeferStmt); ok && skipDefers {
			return false
		}
		if c, ok := m.(*ast.CallExpr); ok && pred(c) {
			out = append(out, c)
		}
		return true
	})
	return out
}

func hasCall(n ast.Node, pred func(*ast.CallExpr) bool) bool { return len(calls(n, false, pred)) > 0 }

func isStagedCleanup(c *ast.CallExpr) bool { return selCall(c, "staged", "cleanup") }
func isStagedCommit(c *ast.CallExpr) bool  { return selCall(c, "staged", "commit") && len(c.Args) == 0 }
func callsIdent(name string) func(*ast.CallExpr) bool {
	return func(c *ast.CallExpr) bool { return identCall(c) == name }
}

// bareReturn: `return` or `return nil`.
func bareReturn(s ast.Stmt) bool {
	r, ok := s.(*ast.ReturnStmt)
	if !ok {
		return false
	}
	return len(r.Results) == 0 || (len(r.Results) == 1 && isIdent(r.Results[0], "nil"))
}

// notIdent: `!x` -> x.
func notIdent(e ast.Expr) (string, bool) {
	u, ok := unparen(e).(*ast.UnaryExpr)
	if !ok || u.Op != token.NOT {
		return "", false
	}
	id, ok := unparen(u.X).(*ast.Ident)
	if !ok {
		return "", false
	}
	return id.Name, true
}

// errNotNil: `err != nil`.
func errNotNil(e ast.Expr) bool {
	b, ok := unparen(e).(*ast.BinaryExpr)
	return ok && b.Op == token.NEQ && isIdent(b.X, "err") && isIdent(b.Y, "nil")
}

func exprString(fset *token.FileSet, e ast.Node) string {
	var sb strings.Builder
	p, q := fset.Position(e.Pos()), fset.Position(e.End())
	src, err := os.ReadFile(p.Filename)
	if err != nil || q.Offset > len(src) {
		return "?"
	}
	sb.Write(src[p.Offset:q.Offset])
	return sb.String()
}

// plainDeferredFuncLit: `defer func() { ... }()`.
func plainDeferredFuncLit(d *ast.DeferStmt) *ast.FuncLit {
	lit, ok := d.Call.Fun.(*ast.FuncLit)
	if !ok || len(d.Call.Args) != 0 {
		return nil
	}
	if lit.Type.Params != nil && len(lit.Type.Params.List) != 0 {
		return nil
	}
	if lit.Type.Results != nil && len(lit.Type.Results.List) != 0 {
		return nil
	}
	return lit
}

// hasNamedErrResult: the function declares a result `err error`.
func hasNamedErrResult(fn *ast.FuncDecl) bool {
	if fn.Type.Results == nil {
		return false
	}
	for _, f := range fn.Type.Results.List {
		for _, n := range f.Names {
			if n.Name == "err" && isIdent(f.Type, "error") {
				return true
			}
		}
	}
	return false
}

// declares reports whether statement s declares name (x := ..., var x ...).
func declares(s ast.Stmt, name string) bool {
	switch s := s.(type) {
	case *ast.AssignStmt:
		if s.Tok == token.DEFINE {
			for _, l := range s.Lhs {
				if isIdent(l, name) {
					return true
				}
			}
		}
	case *ast.DeclStmt:
		if gd, ok := s.Decl.(*ast.GenDecl); ok {
			for _, sp := range gd.Specs {
				if vs, ok := sp.(*ast.ValueSpec); ok {
					for _, n := range vs.Names {
						if n.Name == name {
							return true
						}
					}
				}
			}
		}
	case *ast.RangeStmt:
		if s.Tok == token.DEFINE && (s.Key != nil && isIdent(s.Key, name) || s.Value != nil && isIdent(s.Value, name)) {
			return true
		}
	}
	return false
}

// pathTo returns the chain of nodes from root down to target (both included), or nil.
func pathTo(root, target ast.Node) []ast.Node {
	var stack, found []ast.Node
	ast.Inspect(root, func(n ast.Node) bool {
		if found != nil {
			return false
		}
		if n == nil {
			stack = stack[:len(stack)-1]
			return true
		}
		stack = append(stack, n)
		if n == target {
			found = append([]ast.Node(nil), stack...)
			return false
		}
		return true
	})
	return found
}

// shadowedAt reports where an inner scope between the function block of fn and the
// statement target declares `name` before target (so that `name` at target does not denote
// the function's parameter/result of that name). The function block itself is skipped:
// a `:=` there re-uses the result variable. Returns nil when not shadowed.
func shadowedAt(fn *ast.FuncDecl, target ast.Node, name string) ast.Node {
	path := pathTo(fn.Body, target)
	if path == nil {
		return fn // cannot happen; treated as "shadowed" so that the caller fails
	}
	before := func(list []ast.Stmt) ast.Node {
		for _, s := range list {
			if s.Pos() >= target.Pos() {
				break
			}
			if declares(s, name) {
				return s
			}
		}
		return nil
	}
	for _, n := range path[1:] {
		if n == target {
			break
		}
		var hit ast.Node
		init := func(s ast.Stmt) {
			if s != nil && hit == nil && declares(s, name) {
				hit = s
			}
		}
		switch n := n.(type) {
		case *ast.BlockStmt:
			hit = before(n.List)
		case *ast.CaseClause:
			hit = before(n.Body)
		case *ast.CommClause:
			init(n.Comm)
			if hit == nil {
				hit = before(n.Body)
			}
		case *ast.IfStmt:
			init(n.Init)
		case *ast.ForStmt:
			init(n.Init)
		case *ast.SwitchStmt:
			init(n.Init)
		case *ast.TypeSwitchStmt:
			init(n.Init)
			init(n.Assign)
		case *ast.RangeStmt:
			init(n)
		case *ast.FuncLit:
			for _, fl := range []*ast.FieldList{n.Type.Params, n.Type.Results} {
				if fl == nil {
					continue
				}
				for _, f := range fl.List {
					for _, id := range f.Names {
						if id.Name == name {
							hit = f
						}
					}
				}
			}
		}
		if hit != nil {
			return hit
		}
	}
	return nil
}

// ---------------------------------------------------------------------------------------
// flag discipline (shared by rule 1a, the cut helper and the pdfcpu DFlag shape)
//
// In the top-level statement list of fn the flag is declared exactly once as
// `x := false`, `var x bool`, `var x = false` or `var x bool = false`; the only other write
// to an identifier of that name anywhere in fn (nested function literals included) is one
// top-level statement `x = true`, which is the last statement or is followed only by one
// `return` / `return nil`. Any other assignment, := / var / range / parameter declaration,
// ++/--, or &x of that name anywhere in fn is rejected.
// flagGuardedFinish recognises
//
//	w := err
//	if !flag && w == nil { w = errX }      // errX: package-level errors.New / fmt.Errorf value
//	err = finishX(..., w, ...)             // w at the helper's error-parameter position
//
// where err is the (unshadowed) named result and flag obeys the flag discipline.
func (g *gen) flagGuardedFinish(fn *ast.FuncDecl, d *ast.DeferStmt, stmts []ast.Stmt, isFinish func(*ast.CallExpr) bool) string {
	name := fn.Name.Name
	def, ok := stmts[0].(*ast.AssignStmt)
	if !ok || def.Tok != token.DEFINE || len(def.Lhs) != 1 || len(def.Rhs) != 1 || !isIdent(def.Rhs[0], "err") {
		return ""
	}
	wid, ok := def.Lhs[0].(*ast.Ident)
	if !ok || wid.Name == "err" || wid.Name == "_" {
		return ""
	}
	w := wid.Name
	ifs, ok := stmts[1].(*ast.IfStmt)
	if !ok || ifs.Init != nil || ifs.Else != nil || len(ifs.Body.List) != 1 {
		return ""
	}
	cond, ok := unparen(ifs.Cond).(*ast.BinaryExpr)
	if !ok || cond.Op != token.LAND {
		return ""
	}
	flagName, ok := notIdent(cond.X)
	if !ok {
		return ""
	}
	eq, ok := unparen(cond.Y).(*ast.BinaryExpr)
	if !ok || eq.Op != token.EQL || !isIdent(eq.X, w) || !isIdent(eq.Y, "nil") {
		return ""
	}
	set, ok := ifs.Body.List[0].(*ast.AssignStmt)
	if !ok || set.Tok != token.ASSIGN || len(set.Lhs) != 1 || len(set.Rhs) != 1 || !isIdent(set.Lhs[0], w) {
		return ""
	}
	ev, ok := set.Rhs[0].(*ast.Ident)
	if !ok || !g.errVars[ev.Name] {
		fail(name, "deferred function at %s: `%s` is assigned `%s`, which is not a package-level errors.New / fmt.Errorf value of write.go / io.go",
			g.at(d), w, exprString(g.fset, set.Rhs[0]))
	}
	as, ok := stmts[2].(*ast.AssignStmt)
	if !ok || as.Tok != token.ASSIGN || len(as.Lhs) != 1 || len(as.Rhs) != 1 || !isIdent(as.Lhs[0], "err") {
		return ""
	}
	c, ok := as.Rhs[0].(*ast.CallExpr)
	if !ok || !isFinish(c) {
		return ""
	}
	helper := g.pdf[identCall(c)]
	if helper == nil {
		fail(name, "%s is not declared in write.go / io.go", identCall(c))
	}
	eidx, _, nparams := g.errParamIndex(helper)
	if len(c.Args) != nparams || !isIdent(c.Args[eidx], w) {
		fail(name, "deferred function at %s: the error argument of %s is not `%s`", g.at(d), identCall(c), w)
	}
	if k := g.requireResultErr(fn, d); k != "DErr" {
		fail(name, "deferred function at %s reads a shadowed err", g.at(d))
	}
	g.flagDiscipline(fn, flagName)
	return "DFlag"
}

func (g *gen) flagDiscipline(fn *ast.FuncDecl, flagName string) {
	name := fn.Name.Name
	body := fn.Body.List

	isDecl := func(s ast.Stmt) bool {
		switch s := s.(type) {
		case *ast.AssignStmt:
			return s.Tok == token.DEFINE && len(s.Lhs) == 1 && len(s.Rhs) == 1 &&
				isIdent(s.Lhs[0], flagName) && isIdent(s.Rhs[0], "false")
		case *ast.DeclStmt:
			gd, ok := s.Decl.(*ast.GenDecl)
			if !ok || gd.Tok != token.VAR || len(gd.Specs) != 1 {
				return false
			}
			vs, ok := gd.Specs[0].(*ast.ValueSpec)
			if !ok || len(vs.Names) != 1 || vs.Names[0].Name != flagName {
				return false
			}
			if vs.Type != nil && !isIdent(vs.Type, "bool") {
				return false
			}
			switch len(vs.Values) {
			case 0:
				return vs.Type != nil
			case 1:
				return isIdent(vs.Values[0], "false")
			}
		}
		return false
	}
	isSetTrue := func(s ast.Stmt) bool {
		a, ok := s.(*ast.AssignStmt)
		return ok && a.Tok == token.ASSIGN && len(a.Lhs) == 1 && len(a.Rhs) == 1 &&
			isIdent(a.Lhs[0], flagName) && isIdent(a.Rhs[0], "true")
	}

	var decl, setTrue ast.Stmt
	setIdx := -1
	for i, s := range body {
		if isDecl(s) {
			if decl != nil {
				fail(name, "completion flag %q is declared twice (%s, %s)", flagName, g.at(decl), g.at(s))
			}
			decl = s
		}
		if isSetTrue(s) {
			if setTrue != nil {
				fail(name, "completion flag %q is assigned true more than once (%s, %s)", flagName, g.at(setTrue), g.at(s))
			}
			setTrue, setIdx = s, i
		}
	}
	if decl == nil {
		fail(name, "completion flag %q is not declared as a top-level `%s := false` / `var %s bool`", flagName, flagName, flagName)
	}

	// every other write / declaration / address-of of the name is rejected
	ast.Inspect(fn, func(n ast.Node) bool {
		bad := func(at ast.Node, what string) {
			fail(name, "completion flag %q: %s at %s (only the top-level declaration and one final top-level `%s = true` are understood)",
				flagName, what, g.at(at), flagName)
		}
		switch s := n.(type) {
		case *ast.AssignStmt:
			if ast.Stmt(s) == decl || ast.Stmt(s) == setTrue {
				return true
			}
			for _, l := range s.Lhs {
				if isIdent(l, flagName) {
					if s.Tok == token.DEFINE {
						bad(s, "redeclared / reassigned by :=")
					}
					if len(s.Lhs) == 1 && len(s.Rhs) == 1 && isIdent(s.Rhs[0], "true") {
						bad(s, "assigned true in a nested statement or a second time")
					}
					bad(s, "assigned")
				}
			}
		case *ast.IncDecStmt:
			if isIdent(s.X, flagName) {
				bad(s, "modified")
			}
		case *ast.UnaryExpr:
			if s.Op == token.AND && isIdent(s.X, flagName) {
				bad(s, "address taken")
			}
		case *ast.ValueSpec:
			for _, id := range s.Names {
				if id.Name == flagName {
					if ds, ok := decl.(*ast.DeclStmt); ok && ds.Decl.(*ast.GenDecl).Specs[0] == ast.Spec(s) {
						continue
					}
					bad(s, "redeclared by var")
				}
			}
		case *ast.RangeStmt:
			if s.Key != nil && isIdent(s.Key, flagName) || s.Value != nil && isIdent(s.Value, flagName) {
				bad(s, "used as range variable")
			}
		case *ast.Field:
			for _, id := range s.Names {
				if id.Name == flagName {
					bad(s, "also a parameter/result name")
				}
			}
		}
		return true
	})

	if setTrue == nil {
		fail(name, "completion flag %q is never assigned true by a top-level statement", flagName)
	}
	if decl.Pos() > setTrue.Pos() {
		fail(name, "completion flag %q is assigned true before its declaration", flagName)
	}
	rest := body[setIdx+1:]
	switch {
	case len(rest) == 0:
	case len(rest) == 1 && bareReturn(rest[0]):
	default:
		fail(name, "`%s = true` at %s is followed by statements other than a single final `return` / `return nil` (next: %s); the flag must be set after the last fallible step",
			flagName, g.at(setTrue), g.at(rest[0]))
	}
}

// requireResultErr: the identifier err inside the deferred function at d denotes the
// function's named result `err error`.
func (g *gen) requireResultErr(fn *ast.FuncDecl, d *ast.DeferStmt) string {
	name := fn.Name.Name
	if !hasNamedErrResult(fn) {
		fail(name, "the deferred decision at %s reads `err` but the function has no named result `err error`", g.at(d))
	}
	if sh := shadowedAt(fn, d, "err"); sh != nil {
		// the deferred function reads a local err that shadows the named result and is nil whenever
		// the defer was registered: the decision always takes the commit branch (DShadowedErr)
		fmt.Fprintf(os.Stderr, "genc01: note: %s: the deferred function at %s reads/assigns the local `err` declared at %s (`%s`), which shadows the named result: DShadowedErr\n",
			name, g.at(d), g.at(sh), firstLine(exprString(g.fset, sh)))
		return "DShadowedErr"
	}
	return "DErr"
}

func firstLine(s string) string {
	if i := strings.IndexByte(s, '\n'); i >= 0 {
		return s[:i] + " ..."
	}
	return s
}

// ---------------------------------------------------------------------------------------
// pkg/api, rule 1: the function itself calls openStagedOutput

// topLevelDefers returns the defer statements of the top-level statement list of fn that
// satisfy pred and fails if a defer satisfying pred exists anywhere else in fn.
func (g *gen) topLevelDefers(fn *ast.FuncDecl, what string, pred func(*ast.DeferStmt) bool) []*ast.DeferStmt {
	var top []*ast.DeferStmt
	isTop := map[*ast.DeferStmt]bool{}
	for _, s := range fn.Body.List {
		if d, ok := s.(*ast.DeferStmt); ok && pred(d) {
			top = append(top, d)
			isTop[d] = true
		}
	}
	ast.Inspect(fn.Body, func(n ast.Node) bool {
		if d, ok := n.(*ast.DeferStmt); ok && pred(d) && !isTop[d] {
			fail(fn.Name.Name, "defer with %s at %s is nested inside another statement or function literal", what, g.at(d))
		}
		return true
	})
	return top
}

func (g *gen) classifyDirect(fn *ast.FuncDecl) *class {
	name := fn.Name.Name

	// any defer that mentions staged.cleanup or staged.commit
	mentions := g.topLevelDefers(fn, "staged.cleanup/staged.commit", func(d *ast.DeferStmt) bool {
		return hasCall(d, isStagedCleanup) || hasCall(d, isStagedCommit)
	})
	var both []*ast.DeferStmt
	for _, d := range mentions {
		lit, ok := d.Call.Fun.(*ast.FuncLit)
		if ok && hasCall(lit.Body, isStagedCleanup) && hasCall(lit.Body, isStagedCommit) {
			both = append(both, d)
			continue
		}
		fail(name, "defer at %s mentions staged.cleanup or staged.commit but is not `defer func() {...}()` containing both", g.at(d))
	}
	if len(both) > 1 {
		fail(name, "%d deferred functions contain staged.cleanup and staged.commit (%s, %s)", len(both), g.at(both[0]), g.at(both[1]))
	}

	outsideCleanup := calls(fn.Body, true, isStagedCleanup)
	outsideCommit := calls(fn.Body, true, isStagedCommit)

	if len(both) == 0 {
		if len(outsideCleanup) > 0 && len(outsideCommit) > 0 {
			return &class{"HStaged", "DNoDefer", ""}
		}
		fail(name, "calls openStagedOutput but has neither a deferred staged.cleanup/staged.commit decision nor both calls outside a defer")
	}

	d := both[0]
	if len(outsideCleanup) > 0 || len(outsideCommit) > 0 {
		fail(name, "staged.cleanup/staged.commit is called both in the deferred function at %s and outside it", g.at(d))
	}
	lit := plainDeferredFuncLit(d)
	if lit == nil {
		fail(name, "deferred function at %s is not of the form `defer func() {...}()`", g.at(d))
	}
	stmts := lit.Body.List
	if len(stmts) < 2 {
		fail(name, "deferred function at %s: expected `if <cond> { ...staged.cleanup...; return }` followed by staged.commit", g.at(d))
	}
	ifs, ok := stmts[0].(*ast.IfStmt)
	if !ok || ifs.Init != nil || ifs.Else != nil {
		fail(name, "deferred function at %s: first statement is not a plain `if` (no init, no else)", g.at(d))
	}
	if !hasCall(ifs.Body, isStagedCleanup) {
		fail(name, "deferred function at %s: the leading `if` does not contain staged.cleanup", g.at(d))
	}
	if hasCall(ifs.Body, isStagedCommit) || hasCall(ifs.Cond, isStagedCommit) || hasCall(ifs.Cond, isStagedCleanup) {
		fail(name, "deferred function at %s: staged.commit inside the cleanup branch / calls in the condition", g.at(d))
	}
	if n := len(ifs.Body.List); n == 0 {
		fail(name, "deferred function at %s: empty cleanup branch", g.at(d))
	} else if r, ok := ifs.Body.List[n-1].(*ast.ReturnStmt); !ok || len(r.Results) != 0 {
		fail(name, "deferred function at %s: the cleanup branch does not end with `return`", g.at(d))
	}
	rest := &ast.BlockStmt{List: stmts[1:]}
	if hasCall(rest, isStagedCleanup) || !hasCall(rest, isStagedCommit) {
		fail(name, "deferred function at %s: after the cleanup branch expected staged.commit and no staged.cleanup", g.at(d))
	}

	if flagName, ok := notIdent(ifs.Cond); ok {
		g.flagDiscipline(fn, flagName)
		return &class{"HStaged", "DFlag", ""}
	}
	if errNotNil(ifs.Cond) {
		return &class{"HStaged", g.requireResultErr(fn, d), ""}
	}
	fail(name, "deferred function at %s: condition `%s` is neither `!<flag>` nor `err != nil`", g.at(d), exprString(g.fset, ifs.Cond))
	return nil
}

// ---------------------------------------------------------------------------------------
// pkg/api, rules 1-3 with memoisation

// localNames: every identifier declared inside fn (parameters, results, :=, var, range,
// function literal parameters).
func localNames(fn *ast.FuncDecl) map[string]bool {
	m := map[string]bool{}
	ast.Inspect(fn, func(n ast.Node) bool {
		switch s := n.(type) {
		case *ast.Field:
			for _, id := range s.Names {
				m[id.Name] = true
			}
		case *ast.AssignStmt:
			if s.Tok == token.DEFINE {
				for _, l := range s.Lhs {
					if id, ok := l.(*ast.Ident); ok {
						m[id.Name] = true
					}
				}
			}
		case *ast.ValueSpec:
			for _, id := range s.Names {
				m[id.Name] = true
			}
		case *ast.RangeStmt:
			if s.Tok == token.DEFINE {
				for _, e := range []ast.Expr{s.Key, s.Value} {
					if id, ok := e.(*ast.Ident); ok {
						m[id.Name] = true
					}
				}
			}
		}
		return true
	})
	return m
}

type ref struct {
	id     *ast.Ident
	called bool
}

// references collects the identifiers used in expression position in body (selector field
// names, struct-literal keys, labels and declared parameter names are not references),
// recording whether each is the callee of a call.
func references(body *ast.BlockStmt) []ref {
	callee := map[*ast.Ident]bool{}
	ast.Inspect(body, func(n ast.Node) bool {
		if c, ok := n.(*ast.CallExpr); ok {
			if id, ok := unparen(c.Fun).(*ast.Ident); ok {
				callee[id] = true
			}
		}
		return true
	})
	var out []ref
	var visit func(n ast.Node) bool
	visit = func(n ast.Node) bool {
		switch s := n.(type) {
		case *ast.SelectorExpr:
			ast.Inspect(s.X, visit)
			return false
		case *ast.KeyValueExpr:
			if _, ok := s.Key.(*ast.Ident); !ok {
				ast.Inspect(s.Key, visit)
			}
			ast.Inspect(s.Value, visit)
			return false
		case *ast.Field:
			if s.Type != nil {
				ast.Inspect(s.Type, visit)
			}
			return false
		case *ast.BranchStmt:
			return false
		case *ast.LabeledStmt:
			ast.Inspect(s.Stmt, visit)
			return false
		case *ast.Ident:
			out = append(out, ref{s, callee[s]})
		}
		return true
	}
	ast.Inspect(body, visit)
	return out
}

// classify returns the classification of the pkg/api function name:
//
//	rule 1  it calls openStagedOutput                      -> classifyDirect
//	list    name is in the multi-output list               -> HMulti DNA (rule 2 not applied:
//	        a multi-output driver writes each part through a staged helper)
//	rule 2  it references exactly one other pkg/api function that is (recursively) HStaged
//	        -> that function's helper/key, via = the final direct function
//	rule 3  name is in the read-only / in-place list       -> HReadOnly DNA / HInPlace DNoDefer
//	else    nil (not a file-producing function as far as this translator can see)
func (g *gen) classify(name string) *class {
	if g.done[name] {
		return g.memo[name]
	}
	if g.inprog[name] {
		fail(name, "call cycle through this function while looking for staged helpers (not understood)")
	}
	g.inprog[name] = true
	fn := g.api[name]
	listed := multiOutput[name] || readOnly[name] || inPlace[name]

	var res *class
	switch {
	case hasCall(fn.Body, callsIdent("openStagedOutput")):
		if listed {
			fail(name, "is in an explicit multi-output/read-only/in-place list but calls openStagedOutput itself (list out of date)")
		}
		res = g.classifyDirect(fn)

	case multiOutput[name]:
		res = &class{"HMulti", "DNA", ""}

	default:
		locals := localNames(fn)
		type hit struct {
			c  *class
			at *ast.Ident
		}
		staged := map[string]hit{}
		for _, r := range references(fn.Body) {
			callee := r.id.Name
			if callee == name {
				continue // self recursion adds nothing
			}
			if _, isFunc := g.api[callee]; !isFunc {
				continue
			}
			if locals[callee] {
				// The name is also a parameter/local of this function (e.g. the parameter
				// selectedPages vs. func selectedPages): taken to denote the local, which is
				// only acceptable if the package-level function is not staged; that is
				// verified after all rows are classified (see main), not here, so that the
				// local use does not create a spurious call-graph edge.
				g.ambiguous = append(g.ambiguous, ambiguity{name, callee, r.id})
				continue
			}
			c := g.classify(callee)
			if c == nil || c.helper != "HStaged" {
				continue
			}
			if !r.called {
				fail(name, "staged function %s is used as a value (not called) at %s", callee, g.at(r.id))
			}
			if _, seen := staged[callee]; !seen {
				staged[callee] = hit{c, r.id}
			}
		}
		switch len(staged) {
		case 0:
			switch {
			case readOnly[name]:
				res = &class{"HReadOnly", "DNA", ""}
			case inPlace[name]:
				res = &class{"HInPlace", "DNoDefer", ""}
			}
		case 1:
			for callee, h := range staged {
				if listed {
					fail(name, "is in an explicit read-only/in-place list but reaches the staged function %s at %s (list out of date)", callee, g.at(h.at))
				}
				via := h.c.via
				if via == "" {
					via = callee
				}
				res = &class{h.c.helper, h.c.key, via}
			}
		default:
			var names []string
			for callee := range staged {
				names = append(names, callee)
			}
			sort.Strings(names)
			fail(name, "calls %d different staged functions (%s); only a single delegate is understood", len(names), strings.Join(names, ", "))
		}
	}

	delete(g.inprog, name)
	g.done[name] = true
	g.memo[name] = res
	return res
}

// ---------------------------------------------------------------------------------------
// api.writeCutOutputWith

func (g *gen) classifyCut() row {
	const name = "writeCutOutputWith"
	fn := g.api[name]
	if fn == nil {
		fail(name, "not found in pkg/api")
	}
	isRemove := func(c *ast.CallExpr) bool { return strings.Contains(calleeName(c), "removeCutTemporaryOutput") }
	ds := g.topLevelDefers(fn, "removeCutTemporaryOutput", func(d *ast.DeferStmt) bool { return hasCall(d, isRemove) })
	if len(ds) != 1 {
		fail(name, "expected exactly one deferred function calling removeCutTemporaryOutput, found %d", len(ds))
	}
	d := ds[0]
	if len(calls(fn.Body, true, isRemove)) != 0 {
		fail(name, "removeCutTemporaryOutput is also called outside the deferred function")
	}
	lit := plainDeferredFuncLit(d)
	if lit == nil {
		fail(name, "deferred function at %s is not of the form `defer func() {...}()`", g.at(d))
	}
	var guard *ast.IfStmt
	for _, s := range lit.Body.List {
		if !hasCall(s, isRemove) {
			continue
		}
		ifs, ok := s.(*ast.IfStmt)
		if !ok || guard != nil {
			fail(name, "deferred function at %s: removeCutTemporaryOutput is not inside exactly one top-level `if`", g.at(d))
		}
		guard = ifs
	}
	if guard == nil {
		fail(name, "deferred function at %s: removeCutTemporaryOutput is not inside a top-level `if`", g.at(d))
	}
	if guard.Init != nil || guard.Else != nil || !hasCall(guard.Body, isRemove) || hasCall(guard.Cond, isRemove) {
		fail(name, "deferred function at %s: the `if` guarding removeCutTemporaryOutput must have no init, no else and the call in its body", g.at(d))
	}
	if flagName, ok := notIdent(guard.Cond); ok {
		g.flagDiscipline(fn, flagName)
		return row{"api", name, "HCut", "DFlag", ""}
	}
	if errNotNil(guard.Cond) {
		return row{"api", name, "HCut", g.requireResultErr(fn, d), ""}
	}
	fail(name, "deferred function at %s: condition `%s` is neither `!<flag>` nor `err != nil`", g.at(d), exprString(g.fset, guard.Cond))
	return row{}
}

// ---------------------------------------------------------------------------------------
// pkg/pdfcpu

// errParamIndex: position of the single parameter of type `error` of fn, and its name.
func (g *gen) errParamIndex(fn *ast.FuncDecl) (int, string, int) {
	idx, pname, i := -1, "", 0
	for _, f := range fn.Type.Params.List {
		n := len(f.Names)
		if n == 0 {
			n = 1
		}
		for k := 0; k < n; k++ {
			if isIdent(f.Type, "error") {
				if idx >= 0 {
					fail(fn.Name.Name, "has more than one parameter of type error")
				}
				idx = i
				if len(f.Names) > 0 {
					pname = f.Names[k].Name
				}
			}
			i++
		}
	}
	if idx < 0 || pname == "" || pname == "_" {
		fail(fn.Name.Name, "has no named parameter of type error")
	}
	return idx, pname, i
}

// checkFinishers verifies that the decision inside the finishing helpers is keyed on their
// error parameter:
//
//	finishStagedFile(path, w, writeErr error, ...): a top-level
//	    if err := errors.Join(..., writeErr, ...); err != nil { ... removeStagedFile(...) ...; return ... }
//	precedes the first top-level statement that calls the parameter `replace`;
//	finishWriteFile(file, fileName, writeErr error) is exactly
//	    return finishStagedFile(..., writeErr, ...) with writeErr at finishStagedFile's error position.
func (g *gen) checkFinishers() {
	fs := g.pdf["finishStagedFile"]
	if fs == nil {
		fail("finishStagedFile", "not found in pkg/pdfcpu/io.go")
	}
	eidx, ename, _ := g.errParamIndex(fs)
	guardSeen := false
	replaced := false
	for _, s := range fs.Body.List {
		if hasCall(s, callsIdent("replace")) {
			if !guardSeen {
				fail("finishStagedFile", "calls replace at %s before checking `%s` (expected `if err := errors.Join(..%s..); err != nil { ..removeStagedFile..; return }` first)", g.at(s), ename, ename)
			}
			replaced = true
			break
		}
		ifs, ok := s.(*ast.IfStmt)
		if !ok || ifs.Else != nil || !errNotNil(ifs.Cond) {
			continue
		}
		as, ok := ifs.Init.(*ast.AssignStmt)
		if !ok || as.Tok != token.DEFINE || len(as.Lhs) != 1 || !isIdent(as.Lhs[0], "err") || len(as.Rhs) != 1 {
			continue
		}
		join, ok := as.Rhs[0].(*ast.CallExpr)
		if !ok {
			continue
		}
		if sel, ok := join.Fun.(*ast.SelectorExpr); !ok || !isIdent(sel.X, "errors") || sel.Sel.Name != "Join" {
			continue
		}
		joined := false
		for _, a := range join.Args {
			if isIdent(a, ename) {
				joined = true
			}
		}
		n := len(ifs.Body.List)
		if !joined || n == 0 || !hasCall(ifs.Body, callsIdent("removeStagedFile")) {
			continue
		}
		if _, ok := ifs.Body.List[n-1].(*ast.ReturnStmt); !ok {
			continue
		}
		guardSeen = true
	}
	if !replaced {
		fail("finishStagedFile", "no top-level statement calls the parameter `replace`")
	}
	// the error parameter must not be reassigned before the guard
	ast.Inspect(fs.Body, func(n ast.Node) bool {
		if as, ok := n.(*ast.AssignStmt); ok {
			for _, l := range as.Lhs {
				if isIdent(l, ename) {
					fail("finishStagedFile", "assigns its error parameter %s at %s", ename, g.at(as))
				}
			}
		}
		return true
	})

	fw := g.pdf["finishWriteFile"]
	if fw == nil {
		return // only needed when somebody calls it; classifyFinish fails then
	}
	_, wname, _ := g.errParamIndex(fw)
	if len(fw.Body.List) != 1 {
		fail("finishWriteFile", "expected the single statement `return finishStagedFile(...)`")
	}
	r, ok := fw.Body.List[0].(*ast.ReturnStmt)
	if !ok || len(r.Results) != 1 {
		fail("finishWriteFile", "expected the single statement `return finishStagedFile(...)`")
	}
	c, ok := r.Results[0].(*ast.CallExpr)
	if !ok || identCall(c) != "finishStagedFile" || len(c.Args) <= eidx || !isIdent(c.Args[eidx], wname) {
		fail("finishWriteFile", "expected `return finishStagedFile(...)` passing %s as argument %d", wname, eidx+1)
	}
}

// classifyFinish returns the decision key of a pkg/pdfcpu function that itself calls one
// of the finishing helpers (finishWriteFile / finishStagedFile):
//
//	not inside any defer                                        -> DNoDefer
//	defer func() { err = finishX(..., err, ...) }()             -> DErr  (err at the helper's
//	        error-parameter position; err must be the named result, not a shadowing local)
//	defer func() { if !flag { <no finishX>; return }; ...finishX... }()  -> DFlag (flag discipline)
func (g *gen) classifyFinish(fn *ast.FuncDecl) string {
	name := fn.Name.Name
	isFinish := func(c *ast.CallExpr) bool {
		n := identCall(c)
		return n == "finishWriteFile" || n == "finishStagedFile"
	}
	all := calls(fn.Body, false, isFinish)
	if len(all) == 0 {
		fail(name, "does not call finishWriteFile / finishStagedFile")
	}
	var defers []*ast.DeferStmt
	ast.Inspect(fn.Body, func(n ast.Node) bool {
		if d, ok := n.(*ast.DeferStmt); ok && hasCall(d, isFinish) {
			defers = append(defers, d)
			return false
		}
		return true
	})
	outside := calls(fn.Body, true, isFinish)
	if len(defers) == 0 {
		if len(all) != 1 {
			fail(name, "calls finishWriteFile / finishStagedFile %d times outside a defer; exactly one call is understood", len(all))
		}
		return "DNoDefer"
	}
	if len(defers) > 1 || len(outside) > 0 {
		fail(name, "finishWriteFile / finishStagedFile is called in %d defers and %d times outside a defer; exactly one site is understood", len(defers), len(outside))
	}
	d := defers[0]
	// the defer must belong to fn itself, not to a nested function literal
	for _, n := range pathTo(fn.Body, d) {
		if _, ok := n.(*ast.FuncLit); ok {
			fail(name, "the defer at %s is inside a nested function literal", g.at(d))
		}
	}
	lit := plainDeferredFuncLit(d)
	if lit == nil {
		fail(name, "deferred call at %s is not of the form `defer func() {...}()`", g.at(d))
	}
	if len(calls(lit.Body, false, isFinish)) != 1 {
		fail(name, "deferred function at %s calls finishWriteFile / finishStagedFile more than once", g.at(d))
	}
	stmts := lit.Body.List

	if len(stmts) == 1 {
		as, ok := stmts[0].(*ast.AssignStmt)
		if !ok || as.Tok != token.ASSIGN || len(as.Lhs) != 1 || len(as.Rhs) != 1 || !isIdent(as.Lhs[0], "err") {
			fail(name, "deferred function at %s: expected the single statement `err = finishWriteFile(..., err)`", g.at(d))
		}
		c, ok := as.Rhs[0].(*ast.CallExpr)
		if !ok || !isFinish(c) {
			fail(name, "deferred function at %s: expected the single statement `err = finishWriteFile(..., err)`", g.at(d))
		}
		helper := g.pdf[identCall(c)]
		if helper == nil {
			fail(name, "%s is not declared in write.go / io.go", identCall(c))
		}
		eidx, _, nparams := g.errParamIndex(helper)
		if len(c.Args) != nparams {
			fail(name, "deferred function at %s: %s is called with %d arguments, declared with %d", g.at(d), identCall(c), len(c.Args), nparams)
		}
		if !isIdent(c.Args[eidx], "err") {
			fail(name, "deferred function at %s: argument %d of %s (its error parameter) is `%s`, not the identifier err",
				g.at(d), eidx+1, identCall(c), exprString(g.fset, c.Args[eidx]))
		}
		return g.requireResultErr(fn, d)
	}

	if len(stmts) >= 2 {
		if ifs, ok := stmts[0].(*ast.IfStmt); ok && ifs.Init == nil && ifs.Else == nil {
			if flagName, ok := notIdent(ifs.Cond); ok {
				n := len(ifs.Body.List)
				if n == 0 || hasCall(ifs.Body, isFinish) {
					fail(name, "deferred function at %s: the `if !%s` branch must be a cleanup path without finishWriteFile / finishStagedFile", g.at(d), flagName)
				}
				if r, ok := ifs.Body.List[n-1].(*ast.ReturnStmt); !ok || len(r.Results) != 0 {
					fail(name, "deferred function at %s: the `if !%s` branch does not end with `return`", g.at(d), flagName)
				}
				g.flagDiscipline(fn, flagName)
				return "DFlag"
			}
		}
	}
	// defer func() { w := err; if !flag && w == nil { w = <non-nil error var> }; err = finishX(..., w) }()
	// finishX sees a nil error only when the body returned nil AND the flag is set: DFlag.
	if len(stmts) == 3 {
		if k := g.flagGuardedFinish(fn, d, stmts, isFinish); k != "" {
			return k
		}
	}
	fail(name, "deferred function at %s has a shape that is not understood (neither `err = finishX(..., err)` nor `if !flag {cleanup; return}; ...finishX...`)", g.at(d))
	return ""
}

func (g *gen) pdfRows() []row {
	g.checkFinishers()
	need := func(name string) *ast.FuncDecl {
		fn := g.pdf[name]
		if fn == nil {
			fail(name, "not found in pkg/pdfcpu/write.go / io.go")
		}
		return fn
	}
	var rows []row

	rows = append(rows, row{"pdfcpu", "WriteContext", "HPdfStaged", g.classifyFinish(need("WriteContext")), ""})

	isFinishStaged := callsIdent("finishStagedFile")
	for _, name := range []string{"WriteReader", "CopyFile"} {
		fn := need(name)
		if hasCall(fn.Body, isFinishStaged) {
			rows = append(rows, row{"pdfcpu", name, "HPdfStaged", g.classifyFinish(fn), ""})
			continue
		}
		// exactly one call to a function of write.go / io.go that itself calls finishStagedFile
		var sites []*ast.CallExpr
		for _, c := range calls(fn.Body, false, func(c *ast.CallExpr) bool {
			callee := g.pdf[identCall(c)]
			return callee != nil && callee != fn && hasCall(callee.Body, isFinishStaged)
		}) {
			sites = append(sites, c)
		}
		if len(sites) != 1 {
			fail(name, "expected finishStagedFile to be reached directly or through exactly one call; found %d candidate calls", len(sites))
		}
		via := identCall(sites[0])
		if localNames(fn)[via] {
			fail(name, "identifier %s is also a local name", via)
		}
		for _, n := range pathTo(fn.Body, sites[0]) {
			if _, ok := n.(*ast.DeferStmt); ok {
				fail(name, "the call to %s at %s is deferred (not understood)", via, g.at(sites[0]))
			}
		}
		rows = append(rows, row{"pdfcpu", name, "HPdfStaged", g.classifyFinish(g.pdf[via]), via})
	}

	// Write: overwrite=false goes through writeNewFile (O_EXCL create, remove on error)
	w := need("Write")
	if !hasCall(w.Body, callsIdent("writeNewFile")) || localNames(w)["writeNewFile"] {
		fail("Write", "does not call writeNewFile")
	}
	nf := need("writeNewFile")
	isOS := func(fn string) func(*ast.CallExpr) bool {
		return func(c *ast.CallExpr) bool { return selCall(c, "os", fn) }
	}
	if !hasCall(nf.Body, isOS("OpenFile")) {
		fail("writeNewFile", "does not call os.OpenFile")
	}
	if !hasCall(nf.Body, isOS("Remove")) {
		fail("writeNewFile", "does not call os.Remove")
	}
	if localNames(nf)["os"] {
		fail("writeNewFile", "declares a local named os")
	}
	ast.Inspect(nf.Body, func(n ast.Node) bool {
		if d, ok := n.(*ast.DeferStmt); ok {
			fail("writeNewFile", "contains a defer at %s (expected a straight-line DNoDefer shape)", g.at(d))
		}
		return true
	})
	rows = append(rows, row{"pdfcpu", "Write", "HNewFile", "DNoDefer", "writeNewFile"})
	return rows
}

// ---------------------------------------------------------------------------------------

func main() {
	repo := flag.String("repo", "/repo", "pdfcpu source tree")
	out := flag.String("out", "", "Coq file to write (required)")
	shadow := flag.Bool("shadowed-err-as-derr", false,
		"do not fail when a deferred `err` decision reads a local err that shadows the named result: warn on stderr and emit DErr")
	flag.Parse()
	if *out == "" || flag.NArg() != 0 {
		fmt.Fprintln(os.Stderr, "usage: genc01 [-repo /repo] -out <file.v>")
		os.Exit(2)
	}

	g := &gen{
		fset: token.NewFileSet(), api: map[string]*ast.FuncDecl{}, pdf: map[string]*ast.FuncDecl{},
		memo: map[string]*class{}, done: map[string]bool{}, inprog: map[string]bool{},
		shadowAsDErr: *shadow,
	}

	apiDir := filepath.Join(*repo, "pkg", "api")
	ents, err := os.ReadDir(apiDir)
	if err != nil {
		fail(apiDir, "%v", err)
	}
	nfiles := 0
	for _, e := range ents {
		n := e.Name()
		if e.IsDir() || !strings.HasSuffix(n, ".go") || strings.HasSuffix(n, "_test.go") || strings.HasPrefix(n, "verif_export") {
			continue
		}
		g.parseFile(filepath.Join(apiDir, n), g.api)
		nfiles++
	}
	if nfiles == 0 {
		fail(apiDir, "no .go files")
	}
	for _, n := range []string{"write.go", "io.go"} {
		g.parseFile(filepath.Join(*repo, "pkg", "pdfcpu", n), g.pdf)
	}
	if g.api["openStagedOutput"] == nil {
		fail("openStagedOutput", "not declared in pkg/api")
	}

	var rows []row
	var names []string
	for n, fn := range g.api {
		if ast.IsExported(n) && strings.HasSuffix(n, "File") && fn.Recv == nil {
			names = append(names, n)
		}
	}
	sort.Strings(names)
	for _, n := range names {
		c := g.classify(n)
		if c == nil {
			fail(n, "unclassified file function (neither staged, nor a delegate of a staged function, nor in an explicit list)")
		}
		rows = append(rows, row{"api", n, c.helper, c.key, c.via})
	}
	for i := 0; i < len(g.ambiguous); i++ { // classify may append further entries
		a := g.ambiguous[i]
		if c := g.classify(a.callee); c != nil && c.helper == "HStaged" {
			fail(a.fn, "identifier %s at %s is both a staged pkg/api function and a local name of this function", a.callee, g.at(a.id))
		}
	}
	rows = append(rows, g.classifyCut())
	rows = append(rows, g.pdfRows()...)
	rows = append(rows, g.multiFillRows()...)
	rows = append(rows, g.attachRows()...)
	rows = append(rows, g.stagedFileRow())

	sort.Slice(rows, func(i, j int) bool {
		if rows[i].pkg != rows[j].pkg {
			return rows[i].pkg < rows[j].pkg
		}
		return rows[i].name < rows[j].name
	})
	for i := 1; i < len(rows); i++ {
		if rows[i].pkg == rows[i-1].pkg && rows[i].name == rows[i-1].name {
			fail(rows[i].name, "duplicate row")
		}
	}

	var sb strings.Builder
	sb.WriteString("(* GENERATED by go/cmd/genc01 from pkg/api/*.go, pkg/pdfcpu/write.go, pkg/pdfcpu/io.go — do not edit *)\n")
	sb.WriteString("From Coq Require Import String List.\n")
	sb.WriteString("From PV Require Import C01.Table.\n")
	sb.WriteString("Import ListNotations.\n")
	sb.WriteString("Open Scope string_scope.\n")
	sb.WriteString("Definition table : list frow := [\n")
	for i, r := range rows {
		sep := ";"
		if i == len(rows)-1 {
			sep = ""
		}
		fmt.Fprintf(&sb, "  FRow %q %q %s %s %q%s\n", r.pkg, r.name, r.helper, r.key, r.via, sep)
	}
	sb.WriteString("].\n")
	if err := os.WriteFile(*out, []byte(sb.String()), 0o644); err != nil {
		fail(*out, "%v", err)
	}
}
