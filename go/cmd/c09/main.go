// Harness for C09: resource limits.
//
//	K: boundary grids on the real limit functions (hooks pkg/{filter,pdfcpu,pdfcpu/model}/verif_export_c09.go
//	   + exported model.ObjectStreamDictWithLimits) against the extracted Coq model.
//	O: the property evaluated on the implementation: sizes handed back never exceed the limit in force;
//	   decompression bombs (Flate, LZW, RunLength, ASCIIHex, ASCII85, two-stage pipelines) through
//	   filter.NewFilter(...).Decode and StreamDict.DecodeWithLimit under tiny..default limits must fail with
//	   ErrDecodeLimitExceeded or stay within the limit; a page-content bomb read+validated+optimized with
//	   conf.Limits.MaxDecodeBytes = 64 KiB must not leave a decoded stream larger than the limit in the
//	   context (known defect: class decode-site-ignores-configured-limit).
package main

import (
	"bytes"
	"compress/zlib"
	"encoding/json"
	"errors"
	"fmt"
	"io"
	"math"
	"os"
	"os/exec"
	"path/filepath"
	"runtime"
	"strings"
	"time"

	"github.com/pdfcpu/pdfcpu/pkg/api"
	"github.com/pdfcpu/pdfcpu/pkg/filter"
	"github.com/pdfcpu/pdfcpu/pkg/pdfcpu"
	"github.com/pdfcpu/pdfcpu/pkg/pdfcpu/model"
	"github.com/pdfcpu/pdfcpu/pkg/pdfcpu/types"
	"verif/vh"
)

// zeroReader produces n zero bytes without holding them.
type zeroReader struct{ n int64 }

func (z *zeroReader) Read(p []byte) (int, error) {
	if z.n <= 0 {
		return 0, io.EOF
	}
	m := int64(len(p))
	if m > z.n {
		m = z.n
	}
	for i := int64(0); i < m; i++ {
		p[i] = 0
	}
	z.n -= m
	return int(m), nil
}

var failCount = map[string]int{}

// failSome reports the first 25 failures of a class from an exhaustive grid and counts the rest
// (vh keeps at most 2000 oracle records per run; the grids must not crowd out the bombs).
func failSome(r *vh.Run, class string, in any, detail string) {
	failCount[class]++
	if failCount[class] <= 25 {
		r.OracleFail(class, in, detail)
	} else {
		r.Count("oracle-fail-not-recorded:" + class)
	}
}

func guard(r *vh.Run, what string, in any, f func()) {
	defer func() {
		if p := recover(); p != nil {
			r.OracleFail("panic:"+what, in, fmt.Sprint(p))
		}
	}()
	f()
}

func main() {
	if spec := os.Getenv("C09_CHILD"); spec != "" {
		child(spec)
		return
	}
	r := vh.Start("C09")
	defer r.Finish()
	api.DisableConfigDir()

	mx := int64(math.MaxInt64)
	// ---- copyDecoded / decodeLimit ----
	limits := []int64{0, 1, 2, 100, 4096, 65536, 1 << 20, -1, -100, math.MinInt64, mx, mx - 1}
	avails := []int64{0, 1, 2, 99, 100, 101, 4095, 4096, 4097, 65535, 65536, 65537, 1 << 20, 1<<20 + 1, 3 << 20}
	maxLens := []int64{-1, -7, 0, 1, 100, 4096, 65537, 1 << 22}
	for i := 0; i < r.Pick(20, 200); i++ {
		avails = append(avails, r.Rand.Int63n(2<<20))
		limits = append(limits, r.Rand.Int63n(1<<21))
	}
	for _, mdb := range limits {
		for _, ml := range maxLens {
			r.Case("decodeLimit", []string{vh.Int(mdb), vh.Int(ml)}, vh.Int(filter.VerifC09DecodeLimit(mdb, ml)))
		}
		for _, av := range avails {
			for _, ml := range maxLens {
				if !r.Thorough() && r.Rand.Intn(3) != 0 && ml > 0 {
					continue
				}
				in := map[string]any{"fn": "copyDecoded", "maxDecodeBytes": mdb, "avail": av, "maxLen": ml}
				guard(r, "copyDecoded", in, func() {
					n, err := filter.VerifC09CopyDecoded(mdb, &zeroReader{av}, ml)
					var res string
					switch {
					case err == nil:
						res = "ok:" + vh.Int(int64(n))
					case errors.Is(err, filter.ErrDecodeLimitExceeded):
						res = "limit"
					case errors.Is(err, io.EOF):
						res = "eof:" + vh.Int(int64(n))
					default:
						res = "other"
					}
					r.Case("copyDecoded", []string{vh.Int(mdb), vh.Int(av), vh.Int(ml)}, res)
					// oracle: what is handed back respects the limit in force
					eff := int64(-1)
					switch {
					case ml >= 0:
						eff = ml
					case mdb > 0 && mdb < mx:
						eff = mdb
					case mdb == 0:
						eff = filter.DefaultMaxDecodeBytes
					}
					if err == nil && eff >= 0 && int64(n) > eff {
						r.OracleFail("decoded-exceeds-limit", in, fmt.Sprintf("%d bytes buffered, limit %d", n, eff))
					} else if ml < 0 && eff >= 0 && av > eff && !errors.Is(err, filter.ErrDecodeLimitExceeded) {
						r.OracleFail("bomb-not-rejected", in, fmt.Sprintf("err=%v", err))
					} else {
						r.OracleOK()
					}
					r.Count("class:copyDecoded:" + strings.SplitN(res, ":", 2)[0])
				})
			}
		}
	}

	// ---- readStreamContent ----
	for _, l := range []int{1, 2, 100, 65536, 65537, 1 << 20, 1 << 40, math.MaxInt64} {
		for _, m := range []int64{0, -1, 1, 99, 100, 65536, 1 << 20, 1<<20 + 1, mx, math.MinInt64} {
			if int64(l) <= m && l > 2<<20 {
				continue // would be a legitimate huge allocation
			}
			in := map[string]any{"fn": "readStreamContent", "streamLength": l, "maxStreamBytes": m}
			guard(r, "readStreamContent", in, func() {
				var ms0, ms1 runtime.MemStats
				runtime.ReadMemStats(&ms0)
				b, err := pdfcpu.VerifReadStreamContent(&zeroReader{int64(l)}, l, m)
				runtime.ReadMemStats(&ms1)
				res := "err"
				if err == nil {
					res = "ok:" + vh.Int(int64(len(b)))
				}
				r.Case("streamAlloc", []string{vh.Int(int64(l)), vh.Int(m)}, res)
				grown := int64(ms1.TotalAlloc - ms0.TotalAlloc)
				if err == nil && int64(len(b)) > m {
					r.OracleFail("encoded-exceeds-stream-limit", in, fmt.Sprintf("%d bytes, limit %d", len(b), m))
				} else if err != nil && int64(l) > m && grown > 1<<20 {
					r.OracleFail("rejected-length-still-allocates", in, fmt.Sprintf("%d bytes allocated", grown))
				} else {
					r.OracleOK()
				}
			})
		}
	}

	// ---- xref stream Size / Index expansion ----
	type lim struct{ moc, mxe int }
	lims := []lim{{100, 100}, {100, 5}, {5, 100}, {1, 1}, {0, 0}, {-1, 10}, {10, -1}, {math.MinInt64, 10}, {10, math.MinInt64},
		{math.MaxInt64, 50}, {50, math.MaxInt64}, {math.MaxInt64, math.MaxInt64}, {100000, 100000}}
	sizes := []int{0, -1, 1, 2, 5, 6, 50, 51, 100, 101, 1000, math.MaxInt64, math.MinInt64}
	idxs := [][]int{nil, {}, {0, 1}, {0, 5}, {0, 6}, {3, 3}, {0, 3, 8, 2}, {0, 4, 8, 2}, {0, 100}, {1, 100}, {99, 1}, {100, 0}, {101, 0},
		{-1, 2}, {2, -1}, {math.MaxInt64, 1}, {1, math.MaxInt64}, {math.MaxInt64, math.MaxInt64}, {0, 0, 0, 0, 0, 1}, {5, 1, 0, 1}, {40, 20}, {0, 50, 50, 50, 100, 1}}
	for i := 0; i < r.Pick(30, 300); i++ {
		var ix []int
		for j := 0; j < 1+r.Rand.Intn(3); j++ {
			ix = append(ix, r.Rand.Intn(120)-5, r.Rand.Intn(60)-3)
		}
		idxs = append(idxs, ix)
	}
	for _, l := range lims {
		for _, sz := range sizes {
			for _, ix := range idxs {
				for _, relaxed := range []bool{false, true} {
					big := l.moc > 1<<22 || l.mxe > 1<<22
					if big && (sz > 1<<20 || tooBig(ix)) {
						continue // a legitimately huge expansion under a huge limit
					}
					d := types.NewDict()
					d["Size"] = types.Integer(sz)
					ixs := "-"
					if ix != nil {
						a := types.Array{}
						var ps []string
						for j := 0; j+1 < len(ix); j += 2 {
							a = append(a, types.Integer(ix[j]), types.Integer(ix[j+1]))
							ps = append(ps, vh.Int(int64(ix[j]))+":"+vh.Int(int64(ix[j+1])))
						}
						d["Index"] = a
						ixs = strings.Join(ps, ",")
					}
					sd := types.NewStreamDict(d, 0, nil, nil, nil)
					lm := model.DefaultResourceLimits()
					lm.MaxObjectCount, lm.MaxXRefEntries = l.moc, l.mxe
					in := map[string]any{"fn": "xrefObjects", "Size": sz, "Index": ix, "MaxObjectCount": l.moc, "MaxXRefEntries": l.mxe, "relaxed": relaxed}
					guard(r, "xRefStreamObjects", in, func() {
						n, c, s2, err := model.VerifXRefObjects(&sd, lm, relaxed)
						res := "err"
						if err == nil {
							res = fmt.Sprintf("ok:%s:%s:%s", vh.Int(int64(n)), vh.Int(int64(c)), vh.Int(int64(s2)))
						}
						// make(.., 0, size) may be grown by append: compare the requested capacity
						if err == nil && c > sz {
							res = fmt.Sprintf("ok:%s:%s:%s", vh.Int(int64(n)), vh.Int(int64(sz)), vh.Int(int64(s2)))
						}
						r.Case("xrefObjects", []string{vh.Int(int64(sz)), ixs, vh.Int(int64(l.moc)), vh.Int(int64(l.mxe)), vh.Bool(relaxed)}, res)
						if err == nil && (n > l.mxe && n > 0 || sz > l.moc || s2 > l.moc) {
							r.OracleFail("xref-expansion-exceeds-limit", in, fmt.Sprintf("entries=%d size=%d", n, s2))
						} else {
							r.OracleOK()
						}
						r.Count("class:xref:" + res[:2])
					})
				}
			}
		}
	}

	// ---- object stream N / First ----
	for _, n := range []int{0, -1, 1, 2, 100, 101, 1000000, 1000001, math.MaxInt64, math.MinInt64} {
		for _, f := range []int{0, -1, 1, 100, 101, 16 << 20, 16<<20 + 1, math.MaxInt64, math.MinInt64} {
			for _, l := range [][2]int64{{100, 100}, {0, 0}, {-1, -1}, {1000000, 16 << 20}, {mx, mx}, {math.MinInt64, 5}, {5, math.MinInt64}} {
				d := types.NewDict()
				d["N"] = types.Integer(n)
				d["First"] = types.Integer(f)
				sd := types.NewStreamDict(d, 0, nil, nil, nil)
				lm := model.DefaultResourceLimits()
				lm.MaxObjectStreamCount, lm.MaxObjectStreamFirst = int(l[0]), l[1]
				_, err := model.ObjectStreamDictWithLimits(&sd, lm)
				r.Case("objStreamOK", []string{vh.Int(int64(n)), vh.Int(int64(f)), vh.Int(l[0]), vh.Int(l[1])}, vh.Bool(err == nil))
				if err == nil && (int64(n) > l[0] || int64(f) > l[1] || n <= 0 || f < 0) {
					r.OracleFail("objstm-exceeds-limit", map[string]any{"N": n, "First": f, "limits": l}, "accepted")
				} else {
					r.OracleOK()
				}
			}
		}
	}

	// ---- image limits ----
	dims := []int{0, -1, 1, 2, 1000, 10000, 10001, 46340, 46341, 65536, 1 << 31, 3037000499, 3037000500, 1 << 40, math.MaxInt64, math.MinInt64}
	for _, w := range dims {
		for _, h := range dims {
			for _, l := range [][2]int64{{100_000_000, 512 << 20}, {0, 0}, {-1, -1}, {1, 4}, {1, 3}, {mx, mx}, {mx, 1 << 30}, {1 << 20, mx}, {100_000_000, 399_999_999}} {
				conf := model.NewDefaultConfiguration()
				conf.Limits.MaxImagePixels, conf.Limits.MaxImageBytes = l[0], l[1]
				xt := &model.XRefTable{Conf: conf}
				err := model.VerifValidateImageResourceLimits(xt, w, h)
				res := "err"
				if err == nil {
					px := int64(w) * int64(h)
					res = fmt.Sprintf("ok:%s:%s", vh.Int(px), vh.Int(px*4))
					if px > l[0] || px*4 > l[1] || px <= 0 || px/int64(w) != int64(h) {
						r.OracleFail("image-exceeds-limit", map[string]any{"w": w, "h": h, "limits": l}, "accepted")
					} else {
						r.OracleOK()
					}
				} else {
					r.OracleOK()
				}
				r.Case("imageOK", []string{vh.Int(int64(w)), vh.Int(int64(h)), vh.Int(l[0]), vh.Int(l[1])}, res)
			}
		}
	}

	t0 := time.Now()
	lap := func(what string) {
		if os.Getenv("C09_DEBUG") != "" {
			fmt.Fprintf(os.Stderr, "%s: %v\n", what, time.Since(t0))
		}
		t0 = time.Now()
	}
	lap("grids")
	objStreamLimit(r)
	lap("objStreamLimit")
	rowGuard(r)
	lap("rowGuard")
	rowBombs(r)
	lap("rowBombs")
	runLengthK(r)
	runLengthBombs(r)
	lap("runLength")
	bombs(r)
	lap("bombs")
	readerBomb(r)
	lap("readerBomb")
	structureBombs(r)
	lap("structureBombs")
}

// objStreamLimit: K on the decode limit stored by model.ObjectStreamDictWithLimits and on the lazy full
// decode of the object stream content (LazyObjectStreamObject.GetData) under that stored limit.
func objStreamLimit(r *vh.Run) {
	mx := int64(math.MaxInt64)
	mdbs := []int64{0, 1, 100, 4096, 65536, 1 << 20, -1, math.MinInt64, mx, mx - 1}
	for _, mdb := range mdbs {
		for _, nf := range [][2]int{{1, 4}, {0, 4}, {3, 0}, {101, 4}, {1, 101}, {1, -1}} {
			d := types.NewDict()
			d["N"] = types.Integer(nf[0])
			d["First"] = types.Integer(nf[1])
			sd := types.NewStreamDict(d, 0, nil, nil, nil)
			lm := model.DefaultResourceLimits()
			lm.MaxObjectStreamCount, lm.MaxObjectStreamFirst, lm.MaxDecodeBytes = 100, 100, mdb
			osd, err := model.ObjectStreamDictWithLimits(&sd, lm)
			res := "err"
			if err == nil {
				res = "ok:" + vh.Int(osd.MaxDecodeBytes)
				if osd.MaxDecodeBytes != mdb {
					r.OracleFail("objstm-decode-limit-not-configured", map[string]any{"N": nf[0], "First": nf[1], "MaxDecodeBytes": mdb},
						fmt.Sprintf("ObjectStreamDict.MaxDecodeBytes = %d, configured %d", osd.MaxDecodeBytes, mdb))
				} else {
					r.OracleOK()
				}
			}
			r.Case("objStreamLimit", []string{vh.Int(int64(nf[0])), vh.Int(int64(nf[1])), vh.Int(100), vh.Int(100), vh.Int(mdb)}, res)
		}
		// full decode of a real Flate object stream of `avail` decoded bytes
		for _, avail := range []int64{10, 99, 100, 101, 4095, 4096, 4097, 65535, 65536, 65537, 1 << 20, 1<<20 + 1, 3 << 20} {
			if (mdb < 0 || mdb >= mx-1 || mdb == 0) && avail > 1<<20 {
				continue
			}
			in := map[string]any{"fn": "LazyObjectStreamObject.GetData", "decoded_size": avail, "MaxDecodeBytes": mdb}
			guard(r, "GetData", in, func() {
				content := append([]byte("7 0 "), bytes.Repeat([]byte{' '}, int(avail)-4)...)
				var z bytes.Buffer
				zw := zlib.NewWriter(&z)
				zw.Write(content)
				zw.Close()
				d := types.NewDict()
				d["Type"] = types.Name("ObjStm")
				d["N"] = types.Integer(1)
				d["First"] = types.Integer(4)
				sd := types.NewStreamDict(d, 0, nil, nil, []types.PDFFilter{{Name: filter.Flate}})
				sd.Raw = z.Bytes()
				lm := model.DefaultResourceLimits()
				lm.MaxDecodeBytes = mdb
				osd, err := model.ObjectStreamDictWithLimits(&sd, lm)
				if err != nil {
					r.OracleFail("objstm-rejected", in, err.Error())
					return
				}
				lo := types.NewLazyObjectStreamObject(osd, 0, -1, nil).(types.LazyObjectStreamObject)
				data, err := lo.GetData()
				var res string
				switch {
				case err == nil:
					res = "ok:" + vh.Int(int64(len(data)))
				case errors.Is(err, filter.ErrDecodeLimitExceeded):
					res = "limit"
				default:
					res = "other:" + vh.Hex([]byte(err.Error()))
				}
				r.Case("osdFullDecode", []string{vh.Int(1), vh.Int(4), vh.Int(1000000), vh.Int(16 << 20), vh.Int(mdb), vh.Int(avail)}, res)
				if mdb > 0 && mdb < mx && err == nil && int64(len(data)) > mdb {
					r.OracleFail("objstm-decoded-exceeds-limit", in, fmt.Sprintf("%d bytes decoded", len(data)))
				} else {
					r.OracleOK()
				}
			})
		}
	}
}

// rowGuard: K on the predictor row pre-check of flate.decodePostProcess, per (predictor, colors, bpc, columns,
// limit, maxLen) on small numbers; "-" = entry absent from /DecodeParms.
func rowGuard(r *vh.Run) {
	opt := func(v int) string {
		if v == absent {
			return "-"
		}
		return vh.Int(int64(v))
	}
	preds := []int{absent, 0, 1, 2, 3, 9, 10, 11, 12, 13, 14, 15, 16}
	cols := []int{absent, 0, -1, 1, 2, 7, 8, 9, 100, 101}
	colorsL := []int{absent, 0, 1, 3, 4}
	bpcs := []int{absent, 1, 2, 4, 8, 16, 3}
	lims := []int64{0, 1, 2, 5, 9, 10, 13, 100, 101, -1}
	maxLens := []int64{-1, 0, 1, 5, 100}
	for _, p := range preds {
		for _, col := range cols {
			for _, c := range colorsL {
				for _, b := range bpcs {
					for _, lim := range lims {
						for _, ml := range maxLens {
							if r.Rand.Intn(r.Pick(14, 2)) != 0 {
								continue
							}
							parms := map[string]int{}
							set := func(k string, v int) {
								if v != absent {
									parms[k] = v
								}
							}
							set("Predictor", p)
							set("Columns", col)
							set("Colors", c)
							set("BitsPerComponent", b)
							in := map[string]any{"fn": "flate.decodePostProcess", "parms": parms, "MaxDecodeBytes": lim, "maxLen": ml}
							guard(r, "decodePostProcess", in, func() {
								// effective parameters, as flate.parameters defaults them
								ec, eb, ecol := c, b, col
								if ec == absent {
									ec = 1
								}
								if eb == absent {
									eb = 8
								}
								if ecol == absent {
									ecol = 1
								}
								rs, rl, _, perr := filter.VerifC09PredictorRowParams(p, ec, eb, ecol)
								passthru := p == absent || p == 1
								feed := int64(0)
								switch {
								case passthru && ml > 0:
									feed = ml
								case !passthru && perr == nil && rl > 0 && rl < 1<<20:
									feed = int64(rl) // exactly one row
								}
								n, err := filter.VerifC09FlatePostProcess(parms, lim, &zeroReader{feed}, ml)
								var res string
								switch {
								case errors.Is(err, filter.ErrDecodeLimitExceeded):
									res = "limit"
								case err != nil:
									res = "err"
								case passthru:
									res = "passthru"
								default:
									res = "alloc:" + vh.Int(int64(rs)) + ":" + vh.Int(int64(rl))
								}
								r.Case("rowGuard", []string{vh.Int(lim), opt(p), opt(c), opt(b), opt(col), vh.Int(ml)}, res)
								eff := lim
								if lim == 0 {
									eff = filter.DefaultMaxDecodeBytes
								}
								if err == nil && !passthru && eff >= 0 && int64(rl) > eff {
									failSome(r, "predictor-row-exceeds-limit", in, fmt.Sprintf("row buffers of %d bytes allocated under limit %d (%d bytes produced)", rl, eff, n))
								} else {
									r.OracleOK()
								}
							})
						}
					}
				}
			}
		}
	}
}

const absent = math.MinInt32

var rowCache = map[int64][]byte{}

// flateZeros returns the zlib encoding of n zero bytes (streamed, cached).
func flateZeros(n int64) []byte {
	if b, ok := rowCache[n]; ok {
		return b
	}
	var z bytes.Buffer
	zw := zlib.NewWriter(&z)
	io.Copy(zw, &zeroReader{n})
	zw.Close()
	rowCache[n] = z.Bytes()
	return z.Bytes()
}

// rowBombs: FlateDecode streams whose predictor ROW — not whose output — exceeds the decode limit, through
// filter.DecodeLength and StreamDict.DecodeLengthWithLimit in both decode modes (full: maxLen -1, partial:
// maxLen >= 0).  Expected: the limit error, and never more than c*limit + slack bytes allocated.
func rowBombs(r *vh.Run) {
	type variant struct{ colors, bpc int }
	allVariants := []variant{{1, 8}, {3, 8}, {1, 16}, {4, 1}}
	for _, lim := range []int64{64 << 10, 1 << 20} {
		variants := allVariants
		preds := []int{2, 10, 11, 12, 13, 14, 15}
		if !r.Thorough() {
			preds = []int{2, 12, 15, 10 + r.Rand.Intn(5)}
			variants = []variant{{1, 8}, allVariants[1+r.Rand.Intn(3)]}
		}
		for _, pred := range preds {
			for vi, v := range variants {
				bytesPerCol := func(cols int64) int64 { return (cols*int64(v.colors)*int64(v.bpc) + 7) / 8 }
				colsFor := func(rowBytes int64) int64 { return rowBytes * 8 / int64(v.colors*v.bpc) }
				colsL := []int64{colsFor(lim / 2), colsFor(lim - 1), colsFor(lim), colsFor(lim + 1)}
				if vi == 0 && (pred == 12 || pred == 2 || r.Thorough()) {
					colsL = append(colsL, 64<<20)
				}
				for _, cols := range colsL {
					rowSize := bytesPerCol(cols)
					rowLen := rowSize
					if pred != 2 {
						rowLen++
					}
					enc := flateZeros(rowLen) // one row, PNG row filter byte 0 / TIFF zero deltas
					for _, ml := range []int64{-1, 0, 16, lim} {
						parms := map[string]int{"Predictor": pred, "Columns": int(cols), "Colors": v.colors, "BitsPerComponent": v.bpc}
						for _, via := range []string{"filter.DecodeLength", "StreamDict.DecodeLengthWithLimit"} {
							in := map[string]any{"via": via, "parms": parms, "row_bytes": rowLen, "MaxDecodeBytes": lim, "maxLen": ml, "encoded_bytes": len(enc)}
							guard(r, "row-bomb", in, func() {
								var ms0, ms1 runtime.MemStats
								runtime.ReadMemStats(&ms0)
								var err error
								var got int
								if via == "filter.DecodeLength" {
									f, ferr := filter.NewFilter(filter.Flate, parms, lim)
									if ferr != nil {
										return
									}
									var rd io.Reader
									rd, err = f.DecodeLength(bytes.NewReader(enc), ml)
									if err == nil && rd != nil {
										n, _ := io.Copy(io.Discard, rd)
										got = int(n)
									}
								} else {
									d := types.NewDict()
									dp := types.NewDict()
									for k, val := range parms {
										dp[k] = types.Integer(val)
									}
									sd := types.NewStreamDict(d, 0, nil, nil, []types.PDFFilter{{Name: filter.Flate, DecodeParms: dp}})
									sd.Raw = enc
									var b []byte
									b, err = sd.DecodeLengthWithLimit(ml, lim)
									got = len(b)
								}
								runtime.ReadMemStats(&ms1)
								grown := int64(ms1.TotalAlloc - ms0.TotalAlloc)
								in["allocated"] = grown
								mode := "full"
								if ml >= 0 {
									mode = "partial"
								}
								switch {
								case rowLen > lim && !errors.Is(err, filter.ErrDecodeLimitExceeded):
									r.OracleFail("row-bomb-not-rejected:"+mode, in, fmt.Sprintf("row of %d bytes under limit %d: err=%v, %d bytes produced, %d bytes allocated", rowLen, lim, err, got, grown))
								case grown > 8*lim+(2<<20):
									r.OracleFail("row-bomb-allocates:"+mode, in, fmt.Sprintf("%d bytes allocated under limit %d (row %d bytes), err=%v", grown, lim, rowLen, err))
								case rowLen <= lim && errors.Is(err, filter.ErrDecodeLimitExceeded) && !(ml < 0 && rowSize > lim):
									r.OracleFail("row-rejected-below-limit:"+mode, in, fmt.Sprintf("row of %d bytes under limit %d: %v", rowLen, lim, err))
								default:
									r.OracleOK()
								}
								r.Count("row-bomb:" + mode)
							})
						}
					}
				}
			}
		}
	}
}

// ---- RunLengthDecode: its own limit counter ----

type rlRun struct {
	rep bool
	n   int // literal: 1..128 bytes, repeat: 2..128 copies
}

// rlEncode encodes a run list (literal bytes count up from seed, repeat runs repeat one byte).
func rlEncode(runs []rlRun, seed byte, eod bool) ([]byte, int64) {
	var b []byte
	var total int64
	v := seed
	for _, ru := range runs {
		if ru.rep {
			b = append(b, byte(257-ru.n), v)
			v++
		} else {
			b = append(b, byte(ru.n-1))
			for i := 0; i < ru.n; i++ {
				b = append(b, v)
				v++
			}
		}
		total += int64(ru.n)
	}
	if eod {
		b = append(b, 0x80)
	}
	return b, total
}

// runLengthK: exhaustive small instances of runLengthDecode.decode against the model:
// every run list of up to 3 runs (literal 1..6 / repeat 2..6), limits -1, 0, 1..12, maxLen -1, 0, 3, 7, 12,
// with and without EOD and with the last byte cut off; plus the ASCIIHex length gate.
func runLengthK(r *vh.Run) {
	var opts []rlRun
	for n := 1; n <= 6; n++ {
		opts = append(opts, rlRun{false, n})
	}
	for n := 2; n <= 6; n++ {
		opts = append(opts, rlRun{true, n})
	}
	var lists [][]rlRun
	lists = append(lists, nil)
	for _, a := range opts {
		lists = append(lists, []rlRun{a})
		for _, b := range opts {
			lists = append(lists, []rlRun{a, b})
			for _, c := range opts {
				lists = append(lists, []rlRun{a, b, c})
			}
		}
	}
	mdbs := []int64{-1, 0, 1, 2, 3, 4, 5, 6, 7, 8, 9, 10, 11, 12}
	maxLens := []int64{-1, 0, 3, 7, 12}
	for li, l := range lists {
		for variant := 0; variant < 3; variant++ {
			if variant > 0 && !r.Thorough() && li%5 != 0 {
				continue
			}
			src, total := rlEncode(l, 0x41, variant == 1)
			if variant == 2 {
				if len(src) == 0 {
					continue
				}
				src = src[:len(src)-1]
			}
			for _, mdb := range mdbs {
				for _, ml := range maxLens {
					if !r.Thorough() && len(l) == 3 && r.Rand.Intn(3) != 0 {
						continue
					}
					in := map[string]any{"fn": "runLengthDecode.decode", "src": vh.Hex(src), "MaxDecodeBytes": mdb, "maxLen": ml}
					guard(r, "runLengthDecode.decode", in, func() {
						out, err := filter.VerifC09RunLengthDecode(mdb, src, ml)
						var res string
						switch {
						case err == nil:
							res = "ok:" + vh.Hex(out)
						case errors.Is(err, filter.ErrDecodeLimitExceeded):
							res = "limit:" + vh.Hex(out)
						case errors.Is(err, io.ErrUnexpectedEOF):
							res = "eof:" + vh.Hex(out)
						default:
							res = "other"
						}
						r.Case("rlDecode", []string{vh.Int(mdb), vh.Int(ml), vh.Hex(src)}, res)
						lim := ml
						if ml < 0 {
							lim = mdb
							if mdb == 0 {
								lim = filter.DefaultMaxDecodeBytes
							}
						}
						switch {
						case lim >= 0 && int64(len(out)) > lim:
							failSome(r, "runlength-exceeds-limit", in, fmt.Sprintf("%d bytes written under limit %d", len(out), lim))
						case variant != 2 && ml < 0 && lim >= 0 && total > lim && !errors.Is(err, filter.ErrDecodeLimitExceeded):
							failSome(r, "runlength-bomb-not-rejected", in, fmt.Sprintf("stream decodes to %d bytes, limit %d, err=%v", total, lim, err))
						default:
							r.OracleOK()
						}
					})
				}
			}
		}
	}
	// ASCIIHex length gate through the public filter
	for d := 0; d <= 26; d++ {
		for _, mdb := range []int64{-1, 0, 1, 2, 5, 6, 7, 12, 13} {
			for _, ml := range []int64{-1, 0, 1, 5, 6, 7, 12, 13, 14} {
				f, _ := filter.NewFilter(filter.ASCIIHex, nil, mdb)
				rd, err := f.DecodeLength(bytes.NewReader(bytes.Repeat([]byte{'4'}, d)), ml)
				var res string
				switch {
				case err == nil:
					b, _ := io.ReadAll(rd)
					res = "alloc:" + vh.Int(int64(len(b)))
				case errors.Is(err, filter.ErrDecodeLimitExceeded):
					res = "limit"
				case errors.Is(err, io.ErrUnexpectedEOF):
					res = "eof"
				default:
					res = "overflow"
				}
				r.Case("ahxGate", []string{vh.Int(mdb), vh.Int(int64(d + d%2)), vh.Int(ml)}, res)
			}
		}
	}
}

// rlBombRuns: a literal head of 1..128 bytes, repeat runs of 2..128 (random), arranged so that one run
// boundary falls exactly at limit+delta, then more runs up to `total` decoded bytes.
func rlBombRuns(r *vh.Run, limit int64, delta int, total int64) []rlRun {
	runs := []rlRun{{false, 1 + r.Rand.Intn(128)}}
	cum := int64(runs[0].n)
	target := limit + int64(delta)
	for cum < target-256 {
		n := 2 + r.Rand.Intn(127)
		runs = append(runs, rlRun{true, n})
		cum += int64(n)
	}
	for cum < target { // land a boundary exactly on target
		n := target - cum
		if n > 128 {
			n = 2 + int64(r.Rand.Intn(100))
		}
		if n == 1 {
			runs = append(runs, rlRun{false, 1})
		} else {
			runs = append(runs, rlRun{r.Rand.Intn(4) != 0, int(n)})
		}
		cum += n
	}
	for cum < total {
		n := 2 + r.Rand.Intn(127)
		runs = append(runs, rlRun{true, n})
		cum += int64(n)
	}
	return runs
}

// runLengthBombs: RunLength bombs whose run boundaries cross the limit at every phase, limits that are not
// powers of two, RunLength alone and as first/middle/last stage of pipelines, full and partial decodes.
func runLengthBombs(r *vh.Run) {
	enc := func(name string, b []byte) []byte {
		f, _ := filter.NewFilter(name, nil)
		rd, _ := f.Encode(bytes.NewReader(b))
		o, _ := io.ReadAll(rd)
		return o
	}
	type pipe struct {
		name    string
		filters []string
		wrap    func(rl []byte) []byte
	}
	pipes := []pipe{
		{"[RL]", []string{filter.RunLength}, func(b []byte) []byte { return b }},
		{"[Flate RL]", []string{filter.Flate, filter.RunLength}, func(b []byte) []byte { return enc(filter.Flate, b) }},
		{"[AHx RL]", []string{filter.ASCIIHex, filter.RunLength}, func(b []byte) []byte { return enc(filter.ASCIIHex, b) }},
		{"[RL RL]", []string{filter.RunLength, filter.RunLength}, func(b []byte) []byte { return enc(filter.RunLength, b) }},
	}
	step := r.Pick(4, 1)
	for _, lim := range []int64{1000, 70001, 1<<20 + 13} {
		for delta := -127; delta <= 127; delta += step {
			if lim > 100000 && !r.Thorough() && delta%3 != 0 {
				continue
			}
			total := 6*lim + 12345
			if r.Rand.Intn(8) == 0 {
				total = lim + int64(delta) // a stream that ends exactly at the phase: legal iff delta <= 0
			}
			runs := rlBombRuns(r, lim, delta, total)
			rl, decoded := rlEncode(runs, byte(r.Rand.Intn(256)), r.Rand.Intn(2) == 0)
			p := pipes[r.Rand.Intn(len(pipes))]
			if delta%2 == 0 {
				p = pipes[0]
			}
			raw := p.wrap(rl)
			for _, ml := range []int64{-1, 10, lim / 2} {
				in := map[string]any{"pipeline": p.name, "decoded_bytes": decoded, "MaxDecodeBytes": lim, "maxLen": ml, "boundary_at_limit_plus": delta,
					"encoded_bytes": len(raw), "runs": len(runs), "seed": r.Seed}
				guard(r, "runlength-bomb", in, func() {
					var pl []types.PDFFilter
					for _, n := range p.filters {
						pl = append(pl, types.PDFFilter{Name: n})
					}
					sd := types.NewStreamDict(types.NewDict(), 0, nil, nil, pl)
					sd.Raw = raw
					var ms0, ms1 runtime.MemStats
					runtime.ReadMemStats(&ms0)
					b, err := sd.DecodeLengthWithLimit(ml, lim)
					runtime.ReadMemStats(&ms1)
					grown := int64(ms1.TotalAlloc - ms0.TotalAlloc)
					in["allocated"] = grown
					mode := "full"
					if ml >= 0 {
						mode = "partial"
					}
					switch {
					case ml < 0 && decoded > lim && !errors.Is(err, filter.ErrDecodeLimitExceeded):
						r.OracleFail("runlength-bomb-not-rejected", in, fmt.Sprintf("%s: %d decoded bytes under limit %d: err=%v, %d bytes returned, %d allocated", p.name, decoded, lim, err, len(b), grown))
					case ml < 0 && decoded <= lim && (err != nil || int64(len(b)) != decoded):
						r.OracleFail("runlength-rejected-below-limit", in, fmt.Sprintf("%s: %d decoded bytes under limit %d: err=%v, %d bytes returned", p.name, decoded, lim, err, len(b)))
					case ml >= 0 && decoded >= ml && (err != nil || int64(len(b)) < ml || int64(len(b)) > lim):
						r.OracleFail("runlength-partial-decode-wrong", in, fmt.Sprintf("%s: maxLen %d: err=%v, %d bytes returned", p.name, ml, err, len(b)))
					case grown > 10*lim+int64(8*len(raw))+(2<<20):
						r.OracleFail("runlength-bomb-allocates:"+mode, in, fmt.Sprintf("%s: %d bytes allocated under limit %d", p.name, grown, lim))
					default:
						r.OracleOK()
					}
					r.Count("runlength-bomb:" + p.name + ":" + mode)
				})
			}
		}
	}
}

// ---- structure bombs through the real reader, each in a child process ----

type childReport struct {
	Err        string `json:"err"`
	LimitErr   bool   `json:"limit_err"`
	TotalAlloc uint64 `json:"total_alloc"`
	PeakHeap   uint64 `json:"peak_heap"`
	Panic      string `json:"panic"`
}

// child: C09_CHILD = "<file>|<MaxDecodeBytes>": read+validate+optimize the file under the limit and print a report.
func child(spec string) {
	api.DisableConfigDir()
	i := strings.LastIndex(spec, "|")
	var limit int64
	fmt.Sscan(spec[i+1:], &limit)
	b, err := os.ReadFile(spec[:i])
	if err != nil {
		fmt.Println(`{"err":"cannot read input"}`)
		return
	}
	conf := model.NewDefaultConfiguration()
	conf.Limits.MaxDecodeBytes = limit
	var rep childReport
	stop := make(chan struct{})
	done := make(chan uint64)
	go func() {
		var peak uint64
		var ms runtime.MemStats
		for {
			select {
			case <-stop:
				done <- peak
				return
			default:
			}
			runtime.ReadMemStats(&ms)
			if ms.HeapAlloc > peak {
				peak = ms.HeapAlloc
			}
			time.Sleep(200 * time.Microsecond)
		}
	}()
	var ms0, ms1 runtime.MemStats
	runtime.ReadMemStats(&ms0)
	func() {
		defer func() {
			if p := recover(); p != nil {
				rep.Panic = fmt.Sprint(p)
			}
		}()
		_, err = api.ReadValidateAndOptimize(bytes.NewReader(b), conf)
	}()
	runtime.ReadMemStats(&ms1)
	close(stop)
	rep.PeakHeap = <-done
	rep.TotalAlloc = ms1.TotalAlloc - ms0.TotalAlloc
	if err != nil {
		rep.Err = err.Error()
		rep.LimitErr = errors.Is(err, filter.ErrDecodeLimitExceeded)
	}
	out, _ := json.Marshal(rep)
	fmt.Println(string(out))
}

func flate(b []byte) []byte {
	var z bytes.Buffer
	zw := zlib.NewWriter(&z)
	zw.Write(b)
	zw.Close()
	return z.Bytes()
}

// genStructureBomb: catalog, pages and page live in a Flate object stream (obj 1) whose decoded content is
// padded to objPad bytes; the Flate xref stream (obj 2) is padded with xrefPad zero bytes.
func genStructureBomb(objPad, xrefPad int) []byte {
	o3 := "<</Type/Catalog/Pages 4 0 R>> "
	o4 := "<</Type/Pages/Kids[5 0 R]/Count 1>> "
	o5 := "<</Type/Page/Parent 4 0 R/MediaBox[0 0 10 10]>>"
	prolog := fmt.Sprintf("3 0 4 %d 5 %d ", len(o3), len(o3)+len(o4))
	content := prolog + o3 + o4 + o5
	if objPad > len(content) {
		content += strings.Repeat(" ", objPad-len(content))
	}
	zc := flate([]byte(content))
	var w bytes.Buffer
	w.WriteString("%PDF-1.7\n%\xe2\xe3\xcf\xd3\n")
	off1 := w.Len()
	fmt.Fprintf(&w, "1 0 obj\n<</Type/ObjStm/N 3/First %d/Length %d/Filter/FlateDecode>>\nstream\n", len(prolog), len(zc))
	w.Write(zc)
	w.WriteString("\nendstream\nendobj\n")
	off2 := w.Len()
	be := func(t byte, a int, b int) []byte {
		return []byte{t, byte(a >> 24), byte(a >> 16), byte(a >> 8), byte(a), byte(b >> 8), byte(b)}
	}
	var data []byte
	data = append(data, be(0, 0, 0xffff)...)
	data = append(data, be(1, off1, 0)...)
	data = append(data, be(1, off2, 0)...)
	data = append(data, be(2, 1, 0)...)
	data = append(data, be(2, 1, 1)...)
	data = append(data, be(2, 1, 2)...)
	data = append(data, make([]byte, xrefPad/7*7)...) // whole (free) entries beyond /Size: ignored by the reader
	zx := flate(data)
	fmt.Fprintf(&w, "2 0 obj\n<</Type/XRef/Size 6/W[1 4 2]/Root 3 0 R/Length %d/Filter/FlateDecode>>\nstream\n", len(zx))
	w.Write(zx)
	fmt.Fprintf(&w, "\nendstream\nendobj\nstartxref\n%d\n%%%%EOF\n", off2)
	return w.Bytes()
}

// genRowObjStm: like genStructureBomb, but the object stream declares /DecodeParms << /Predictor pred
// /Columns columns >> and its content is ONE predictor row (PNG row filter byte 0, then the prolog and the
// three objects padded with blanks to `columns` bytes): small decoded output per row count, huge ROW.
func genRowObjStm(pred, columns int) []byte {
	o3 := "<</Type/Catalog/Pages 4 0 R>> "
	o4 := "<</Type/Pages/Kids[5 0 R]/Count 1>> "
	o5 := "<</Type/Page/Parent 4 0 R/MediaBox[0 0 10 10]>>"
	prolog := fmt.Sprintf("3 0 4 %d 5 %d ", len(o3), len(o3)+len(o4))
	content := prolog + o3 + o4 + o5
	var z bytes.Buffer
	zw := zlib.NewWriter(&z)
	if pred != 2 {
		zw.Write([]byte{0})
	}
	zw.Write([]byte(content))
	blanks := bytes.Repeat([]byte{' '}, 1<<16)
	for left := columns - len(content); left > 0; {
		n := len(blanks)
		if left < n {
			n = left
		}
		zw.Write(blanks[:n])
		left -= n
	}
	zw.Close()
	zc := z.Bytes()
	var w bytes.Buffer
	w.WriteString("%PDF-1.7\n%\xe2\xe3\xcf\xd3\n")
	off1 := w.Len()
	fmt.Fprintf(&w, "1 0 obj\n<</Type/ObjStm/N 3/First %d/Length %d/Filter/FlateDecode/DecodeParms<</Predictor %d/Columns %d>>>>\nstream\n", len(prolog), len(zc), pred, columns)
	w.Write(zc)
	w.WriteString("\nendstream\nendobj\n")
	off2 := w.Len()
	be := func(t byte, a int, b int) []byte {
		return []byte{t, byte(a >> 24), byte(a >> 16), byte(a >> 8), byte(a), byte(b >> 8), byte(b)}
	}
	var data []byte
	data = append(data, be(0, 0, 0xffff)...)
	data = append(data, be(1, off1, 0)...)
	data = append(data, be(1, off2, 0)...)
	data = append(data, be(2, 1, 0)...)
	data = append(data, be(2, 1, 1)...)
	data = append(data, be(2, 1, 2)...)
	zx := flate(data)
	fmt.Fprintf(&w, "2 0 obj\n<</Type/XRef/Size 6/W[1 4 2]/Root 3 0 R/Length %d/Filter/FlateDecode>>\nstream\n", len(zx))
	w.Write(zx)
	fmt.Fprintf(&w, "\nendstream\nendobj\nstartxref\n%d\n%%%%EOF\n", off2)
	return w.Bytes()
}

func structureBombs(r *vh.Run) {
	exe, err := os.Executable()
	if err != nil {
		r.Count("structure-bombs:no-executable")
		return
	}
	type bomb struct {
		name            string
		objPad, xrefPad int
	}
	big := r.Pick(6<<20, 48<<20)
	// "none" runs first: its allocation under each limit is the baseline for "was the bomb materialised?"
	bombsL := []bomb{{"none", 0, 0}, {"objstm", big, 0}, {"xrefstm", 0, big}, {"objstm", 200 << 10, 0}, {"xrefstm", 0, 200 << 10},
		// predictor ROW bombs in an object stream reached through type-2 xref entries: objPad = /Columns
		{"objstm-row-12", 64 << 20, 0}, {"objstm-row-12", 1<<20 - 1, 0}, {"objstm-row-12", 1 << 20, 0}, {"objstm-row-15", 8 << 20, 0}, {"objstm-row-2", r.Pick(8, 64) << 20, 0}}
	base := map[int64]int64{}
	limits := []int64{16 << 10, 64 << 10, 1 << 20, 512 << 20}
	for _, bm := range bombsL {
		doc := genStructureBomb(bm.objPad, bm.xrefPad)
		rowBomb := strings.HasPrefix(bm.name, "objstm-row-")
		if rowBomb {
			var pred int
			fmt.Sscanf(bm.name, "objstm-row-%d", &pred)
			doc = genRowObjStm(pred, bm.objPad)
		}
		path := filepath.Join(r.Dir, fmt.Sprintf("bomb-%s-%d.pdf", bm.name, bm.objPad+bm.xrefPad))
		if err := os.WriteFile(path, doc, 0o644); err != nil {
			continue
		}
		decoded := int64(bm.objPad + bm.xrefPad)
		for _, lim := range limits {
			if rowBomb && !r.Thorough() && (lim == 16<<10 || lim == 512<<20) {
				continue // quick tier: row bombs under 64 KiB and 1 MiB only
			}
			in := map[string]any{"bomb": bm.name, "decoded_bytes": decoded, "file_bytes": len(doc), "MaxDecodeBytes": lim, "file": path,
				"op": "api.ReadValidateAndOptimize in a child process"}
			cmd := exec.Command(exe)
			cmd.Env = append(os.Environ(), fmt.Sprintf("C09_CHILD=%s|%d", path, lim), "GOMEMLIMIT=2GiB")
			var out bytes.Buffer
			cmd.Stdout = &out
			done := make(chan error, 1)
			if err := cmd.Start(); err != nil {
				r.Count("structure-bombs:child-start-failed")
				continue
			}
			go func() { done <- cmd.Wait() }()
			var werr error
			select {
			case werr = <-done:
			case <-time.After(120 * time.Second):
				cmd.Process.Kill()
				r.OracleFail(bm.name+"-bomb-timeout", in, "child did not finish within 120 s")
				continue
			}
			var rep childReport
			if werr != nil || json.Unmarshal(bytes.TrimSpace(out.Bytes()), &rep) != nil {
				r.OracleFail(bm.name+"-bomb-child-died", in, fmt.Sprintf("%v: %s", werr, out.String()))
				continue
			}
			in["total_alloc"], in["peak_heap"] = rep.TotalAlloc, rep.PeakHeap
			r.Count("structure-bomb:" + bm.name)
			if bm.name == "none" {
				base[lim] = int64(rep.TotalAlloc)
			}
			// the whole decoded stream was buffered (bytes.Buffer growth allocates at least its final size)
			// (conclusive only for bombs well above the limit and the bookkeeping noise); this document cannot
			// be repaired (its objects live in the object stream), so a successful read also means the xref
			// stream was accepted in full
			materialised := decoded >= 4<<20 && decoded > 8*lim && int64(rep.TotalAlloc) >= base[lim]+decoded
			if bm.name == "xrefstm" && decoded > lim && rep.Err == "" {
				materialised = true
			}
			if rowBomb {
				rowLen := int64(bm.objPad)
				if bm.name != "objstm-row-2" {
					rowLen++
				}
				in["row_bytes"] = rowLen
				switch {
				case rep.Panic != "":
					r.OracleFail("panic:structure-bomb", in, rep.Panic)
				case rowLen > lim && !rep.LimitErr:
					r.OracleFail("objstm-row-bomb-not-rejected", in, fmt.Sprintf("object stream with a predictor row of %d bytes read under MaxDecodeBytes = %d: err=%q, %d bytes allocated", rowLen, lim, rep.Err, rep.TotalAlloc))
				case int64(rep.TotalAlloc) > base[lim]+8*lim+(4<<20) && rowLen > lim:
					r.OracleFail("objstm-row-bomb-allocates", in, fmt.Sprintf("%d bytes allocated (baseline %d) under MaxDecodeBytes = %d, row %d bytes", rep.TotalAlloc, base[lim], lim, rowLen))
				case rowLen <= lim/2 && rep.Err != "" && bm.name != "objstm-row-2": // (the TIFF document's content is not delta-encoded)
					r.OracleFail("objstm-row-rejected-below-limit", in, rep.Err)
				default:
					r.OracleOK()
				}
				continue
			}
			switch {
			case rep.Panic != "":
				r.OracleFail("panic:structure-bomb", in, rep.Panic)
			case bm.name == "xrefstm" && decoded > lim && materialised:
				// defect fixed in pdfcpu dd3ad7ed: xRefStreamDict decoded with saveDecodedStreamContent(nil, ...) -> default limit
				r.OracleFail("xrefstm-decode-ignores-configured-limit", in, fmt.Sprintf("the xref stream (%d decoded bytes) was decoded in full under MaxDecodeBytes = %d: %d bytes allocated (baseline %d), err=%q", decoded, lim, rep.TotalAlloc, base[lim], rep.Err))
			case bm.name == "xrefstm" && decoded > lim:
				// rejected; the limit error of the xref stream starts the xref repair (parseXRefStreamOrRepair),
				// so the final result is the repair's (here: its own error, the objects live in an object stream)
				if rep.LimitErr {
					r.Count("xrefstm-bomb:limit-error")
				} else {
					r.Count("xrefstm-bomb:limit-error-masked-by-xref-repair")
				}
				r.OracleOK()
			case decoded > lim && rep.Err == "":
				r.OracleFail(bm.name+"-bomb-not-rejected", in, fmt.Sprintf("read succeeded although the %s stream decodes to %d bytes under MaxDecodeBytes = %d", bm.name, decoded, lim))
			case decoded > lim && !rep.LimitErr:
				r.OracleFail(bm.name+"-bomb-wrong-error", in, rep.Err)
			case decoded >= 4<<20 && decoded > 8*lim && int64(rep.TotalAlloc) >= decoded:
				r.OracleFail(bm.name+"-bomb-allocates", in, fmt.Sprintf("rejected, but %d bytes were allocated (bomb %d, limit %d)", rep.TotalAlloc, decoded, lim))
			case decoded <= lim/2 && rep.Err != "":
				r.OracleFail(bm.name+"-rejected-below-limit", in, rep.Err)
			default:
				r.OracleOK()
			}
		}
		os.Remove(path)
	}
}

func tooBig(ix []int) bool {
	for _, v := range ix {
		if v > 1<<20 {
			return true
		}
	}
	return false
}

// bombs: encoded payloads that decode to `size` bytes, through the real filters under a decode limit.
func bombs(r *vh.Run) {
	lims := []int64{1 << 10, 64 << 10, 1 << 20}
	if r.Thorough() {
		lims = append(lims, 16<<20)
	}
	names := []string{filter.Flate, filter.LZW, filter.RunLength, filter.ASCIIHex, filter.ASCII85}
	for _, lim := range lims {
		for _, size := range []int64{lim - 1, lim, lim + 1, 2 * lim, 10*lim + 3, int64(r.Pick(4<<20, 64<<20))} {
			plain := bytes.Repeat([]byte{'A'}, int(size))
			for _, name := range names {
				in := map[string]any{"filter": name, "decoded_size": size, "limit": lim}
				guard(r, "filter:"+name, in, func() {
					enc, err := filter.NewFilter(name, nil)
					if err != nil {
						return
					}
					er, err := enc.Encode(bytes.NewReader(plain))
					if err != nil {
						r.Count("bomb:encode-failed:" + name)
						return
					}
					eb, _ := io.ReadAll(er)
					mid := int64(0) // size of the intermediate stage of the pipeline (each stage is bounded)
					check := func(stage string, got int64, err error) {
						switch {
						case err != nil && errors.Is(err, filter.ErrDecodeLimitExceeded) && mid > lim:
							r.OracleOK()
						case err == nil && got > lim:
							r.OracleFail("decoded-exceeds-limit", in, fmt.Sprintf("%s: %d bytes decoded under limit %d", stage, got, lim))
						case err == nil && got != size:
							r.OracleFail("decode-truncated-silently", in, fmt.Sprintf("%s: %d bytes, want %d", stage, got, size))
						case err != nil && size <= lim:
							r.OracleFail("limit-error-below-limit", in, fmt.Sprintf("%s: %v", stage, err))
						case err != nil && !errors.Is(err, filter.ErrDecodeLimitExceeded):
							r.OracleFail("bomb-wrong-error", in, fmt.Sprintf("%s: %v", stage, err))
						default:
							r.OracleOK()
						}
					}
					// 1. the filter alone
					dec, _ := filter.NewFilter(name, nil, lim)
					dr, err := dec.Decode(bytes.NewReader(eb))
					var got int64
					if err == nil {
						b, _ := io.ReadAll(dr)
						got = int64(len(b))
					}
					check("filter", got, err)
					// 2. StreamDict with a two-stage pipeline ASCIIHex(name(plain))
					hx, _ := filter.NewFilter(filter.ASCIIHex, nil)
					hr, _ := hx.Encode(bytes.NewReader(eb))
					hb, _ := io.ReadAll(hr)
					sd := types.NewStreamDict(types.NewDict(), 0, nil, nil,
						[]types.PDFFilter{{Name: filter.ASCIIHex}, {Name: name}})
					sd.Raw = hb
					mid = int64(len(eb))
					err = sd.DecodeWithLimit(lim)
					check("pipeline", int64(len(sd.Content)), err)
					r.Count("bomb:" + name)
				})
			}
		}
	}
}

// readerBomb: a 1-page PDF whose content stream inflates to 8 MiB, read + validated + optimized with
// conf.Limits.MaxDecodeBytes = 64 KiB.
func readerBomb(r *vh.Run) {
	const decoded = 8 << 20
	const limit = 64 << 10
	var z bytes.Buffer
	zw := zlib.NewWriter(&z)
	zw.Write(bytes.Repeat([]byte("q Q \n"), decoded/5))
	zw.Close()
	var w bytes.Buffer
	w.WriteString("%PDF-1.7\n")
	var offs []int
	obj := func(s string) {
		offs = append(offs, w.Len())
		fmt.Fprintf(&w, "%d 0 obj\n%s\nendobj\n", len(offs), s)
	}
	obj("<</Type/Catalog/Pages 2 0 R>>")
	obj("<</Type/Pages/Kids[3 0 R]/Count 1>>")
	obj("<</Type/Page/Parent 2 0 R/MediaBox[0 0 200 200]/Contents 4 0 R/Resources<<>>>>")
	obj(fmt.Sprintf("<</Length %d/Filter/FlateDecode>>\nstream\n%s\nendstream", z.Len(), z.String()))
	x := w.Len()
	fmt.Fprintf(&w, "xref\n0 %d\n0000000000 65535 f \n", len(offs)+1)
	for _, o := range offs {
		fmt.Fprintf(&w, "%010d 00000 n \n", o)
	}
	fmt.Fprintf(&w, "trailer\n<</Size %d/Root 1 0 R>>\nstartxref\n%d\n%%%%EOF\n", len(offs)+1, x)
	in := map[string]any{"doc": "1 page, /Contents FlateDecode inflating to 8 MiB", "file_bytes": w.Len(), "MaxDecodeBytes": limit, "op": "api.ReadValidateAndOptimize"}
	guard(r, "ReadValidateAndOptimize", in, func() {
		conf := model.NewDefaultConfiguration()
		conf.Limits.MaxDecodeBytes = limit
		var ms0, ms1 runtime.MemStats
		runtime.ReadMemStats(&ms0)
		ctx, err := api.ReadValidateAndOptimize(bytes.NewReader(w.Bytes()), conf)
		runtime.ReadMemStats(&ms1)
		in["total_alloc_bytes"] = ms1.TotalAlloc - ms0.TotalAlloc
		if err != nil {
			if errors.Is(err, filter.ErrDecodeLimitExceeded) {
				r.OracleOK()
				r.Count("readerbomb:rejected")
			} else {
				r.OracleFail("bomb-wrong-error", in, err.Error())
			}
			return
		}
		if os.Getenv("C09_DEBUG") != "" {
			fmt.Fprintln(os.Stderr, "readerBomb: err", err, "alloc", ms1.TotalAlloc-ms0.TotalAlloc)
		}
		worst := 0
		for _, e := range ctx.Table {
			if e == nil || e.Object == nil {
				continue
			}
			if sd, ok := e.Object.(types.StreamDict); ok && len(sd.Content) > worst {
				worst = len(sd.Content)
			}
		}
		grown := ms1.TotalAlloc - ms0.TotalAlloc
		if worst > limit || grown >= decoded {
			r.OracleFail("decode-site-ignores-configured-limit", in,
				fmt.Sprintf("no error although conf.Limits.MaxDecodeBytes = %d: the %d-byte file made the run allocate %d bytes (largest decoded stream kept in the context: %d bytes); optimize.go removeEmptyContentStreams calls StreamDict.Decode(), which uses filter.DefaultMaxDecodeBytes", limit, w.Len(), grown, worst))
		} else {
			r.OracleOK()
		}
	})
}
