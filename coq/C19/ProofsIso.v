(* C19 — what a reader finds after the write is the emitted graph, up to the renumbering:
   exact table equality, equality of all unfoldings (the numbering-free view), the explicit
   isomorphism of the reachable parts, page list and info dict as corollaries.
   The byte level is a Section: printer/parser (C11), layout/xref (C18), encryption (C22). *)
From Coq Require Import List ZArith NArith Bool Lia.
From PV Require Import C19.Generated C19.Model C19.ProofsClosed.
Import ListNotations.

Lemma rfind_in : forall s n o, rfind s n = Some o -> exists md, In (n, (md, o)) s.
Proof.
  induction s as [|[m [md x]] s IH]; intros n o H; simpl in H; [discriminate|].
  destruct (N.eqb m n) eqn:E.
  - apply N.eqb_eq in E. inversion H; subst. exists md. left. reflexivity.
  - destruct (IH n o H) as [md' Hin]. exists md'. right. exact Hin.
Qed.

Lemma rfind_dom : forall s n, In n (dom s) -> exists o, rfind s n = Some o.
Proof.
  induction s as [|[m [md x]] s IH]; intros n H; simpl in *; [destruct H|].
  destruct (N.eqb m n) eqn:E; [exists x; reflexivity|].
  destruct H as [H|H]; [subst; rewrite N.eqb_refl in E; discriminate|]. exact (IH n H).
Qed.

Lemma rfind_none : forall s n, ~ In n (dom s) -> rfind s n = None.
Proof.
  induction s as [|[m [md x]] s IH]; intros n H; simpl in *; [reflexivity|].
  destruct (N.eqb m n) eqn:E.
  - apply N.eqb_eq in E. exfalso. apply H. left. exact E.
  - apply IH. intros Hn. apply H. right. exact Hn.
Qed.

Section Iso.
  (* the renumbering (pdfcpu: the identity) *)
  Variable phi : N -> N.
  Hypothesis phi_inj : forall a b, phi a = phi b -> a = b.

  (* C11: the object printer and parser; wf = the objects on which C11 proves the round trip *)
  Variable print : obj -> bytes.
  Variable parse : bytes -> option obj.
  Variable wf : obj -> Prop.
  Hypothesis parse_print : forall o, wf o -> parse (print o) = Some o.

  (* C22: per-object encryption and decryption (identity when the file is not encrypted) *)
  Variable enc dec : N -> obj -> obj.
  Hypothesis dec_enc : forall n o, dec n (enc n o) = o.

  (* C18: the file layout under any configuration (xref table / stream, object streams, EOL):
     every number locates the bytes written last under it; other numbers locate nothing *)
  Variable file : Type.
  Variable layout : list (N * bytes) -> file.
  Variable locate : file -> N -> option bytes.
  Fixpoint assoc (l : list (N * bytes)) (n : N) : option bytes :=
    match l with
    | [] => None
    | (m, b) :: r => if N.eqb m n then Some b else assoc r n
    end.
  Hypothesis locate_layout : forall recs n, locate (layout recs) n = assoc recs n.

  Definition out_rec (r : rcd) : N * bytes :=
    (phi (fst r), print (enc (phi (fst r)) (rename phi (snd (snd r))))).
  Definition write_file (s : st) : file := layout (map out_rec s).
  Definition read_file (f : file) (n : N) : option obj :=
    match locate f n with
    | Some b => match parse b with Some o => Some (dec n o) | None => None end
    | None => None
    end.

  Definition wf_out (s : st) : Prop :=
    forall n md o, In (n, (md, o)) s -> wf (enc (phi n) (rename phi o)).

  Lemma read_write_exact : forall s, wf_out s ->
    forall n, read_file (write_file s) (phi n) = option_map (rename phi) (rfind s n).
  Proof.
    intros s Hwf n. unfold read_file, write_file. rewrite locate_layout.
    induction s as [|[m [md o]] s IH]; simpl; [reflexivity|].
    destruct (N.eqb m n) eqn:E.
    - apply N.eqb_eq in E. subst m. rewrite N.eqb_refl.
      rewrite parse_print by (apply (Hwf n md o); left; reflexivity).
      rewrite dec_enc. reflexivity.
    - destruct (N.eqb (phi m) (phi n)) eqn:E2.
      + apply N.eqb_eq in E2. apply phi_inj in E2. subst. rewrite N.eqb_refl in E. discriminate.
      + apply IH. intros n' md' o' Hin. apply (Hwf n' md' o'). right. exact Hin.
  Qed.

  Lemma read_write_none : forall s m, (forall n, In n (dom s) -> phi n <> m) ->
    read_file (write_file s) m = None.
  Proof.
    intros s m H. unfold read_file, write_file. rewrite locate_layout.
    induction s as [|[k [md o]] s IH]; simpl; [reflexivity|].
    destruct (N.eqb (phi k) m) eqn:E.
    - apply N.eqb_eq in E. exfalso. apply (H k); [simpl; left; reflexivity|exact E].
    - apply IH. intros n Hn. apply H. simpl. right. exact Hn.
  Qed.

  (* ---------- unfoldings ---------- *)
  Lemma unfold_rename : forall (t t' : N -> option obj),
    (forall n, t' (phi n) = option_map (rename phi) (t n)) ->
    forall d o, unfold t' d (rename phi o) = unfold t d o.
  Proof.
    intros t t' Ht. induction d as [|d IH]; intros o; simpl; [reflexivity|].
    destruct o as [|tg v|z|nm|n|l|dd|dd x]; simpl; try reflexivity.
    - unfold deref1. rewrite Ht. destruct (t n) as [o|]; simpl; [apply IH|].
      rewrite <- (IH ONull). reflexivity.
    - f_equal. rewrite map_map. apply map_ext. intros a. apply IH.
    - f_equal. rewrite map_map. apply map_ext. intros a. simpl. rewrite IH. reflexivity.
    - f_equal. rewrite map_map. apply map_ext. intros a. simpl. rewrite IH. reflexivity.
  Qed.

  Theorem read_write_unfold : forall s, wf_out s ->
    forall d o, unfold (read_file (write_file s)) d (rename phi o) = unfold (rfind s) d o.
  Proof. intros s Hwf. apply unfold_rename. apply read_write_exact, Hwf. Qed.

  (* page sequence with inherited attributes, and any other view computed from the unfolding *)
  Corollary read_write_pages : forall s, wf_out s -> forall root d d',
    doc_pages d' (unfold (read_file (write_file s)) d (ORef (phi root))) =
    doc_pages d' (unfold (rfind s) d (ORef root)).
  Proof. intros s Hwf root d d'. rewrite <- (read_write_unfold s Hwf d (ORef root)). reflexivity. Qed.

  (* ---------- the explicit isomorphism of the reachable parts ---------- *)
  Inductive reach (t : N -> option obj) (a : N) : N -> Prop :=
  | reach_refl : reach t a a
  | reach_step : forall b c o, reach t a b -> t b = Some o -> In c (refs o) -> reach t a c.

  Lemma refs_rename : forall o, refs (rename phi o) = map phi (refs o).
  Proof.
    induction o as [|tg v|z|nm|n|l IH|d IH|d x IH] using obj_ind'; simpl; try reflexivity.
    - induction l as [|a l IHl]; simpl; [reflexivity|]. inversion IH; subst.
      rewrite map_app. f_equal; [assumption|apply IHl; assumption].
    - induction d as [|a d IHd]; simpl; [reflexivity|]. inversion IH; subst.
      rewrite map_app. f_equal; [assumption|apply IHd; assumption].
    - induction d as [|a d IHd]; simpl; [reflexivity|]. inversion IH; subst.
      rewrite map_app. f_equal; [assumption|apply IHd; assumption].
  Qed.

  Theorem reach_iso : forall s, wf_out s -> forall a,
    (forall n, reach (rfind s) a n -> reach (read_file (write_file s)) (phi a) (phi n)) /\
    (forall m, reach (read_file (write_file s)) (phi a) m -> exists n, m = phi n /\ reach (rfind s) a n).
  Proof.
    intros s Hwf a. split.
    - intros n H. induction H as [|b c o Hab IH Hb Hc]; [apply reach_refl|].
      apply reach_step with (b := phi b) (o := rename phi o); [exact IH| |].
      + rewrite read_write_exact by exact Hwf. rewrite Hb. reflexivity.
      + rewrite refs_rename. apply in_map. exact Hc.
    - intros m H. induction H as [|b c o Hab IH Hb Hc]; [exists a; split; [reflexivity|apply reach_refl]|].
      destruct IH as [n [-> Hn]]. rewrite read_write_exact in Hb by exact Hwf.
      destruct (rfind s n) as [o'|] eqn:E; simpl in Hb; [|discriminate].
      inversion Hb; subst o. rewrite refs_rename in Hc. apply in_map_iff in Hc.
      destruct Hc as [k [<- Hk]]. exists k. split; [reflexivity|].
      apply reach_step with (b := n) (o := o'); assumption.
  Qed.
End Iso.

(* ---------- the emitted graph against the original one ---------- *)
Section Orig.
  Variable g : graph.
  Variable delv : bool.

  Definition gobj (n : N) : obj := match lookup g n with Some (_, o) => o | None => ONull end.
  Definition is_null (o : obj) : bool := match o with ONull => true | _ => false end.

  (* what is emitted for a number is the object of the table, except for the documented
     normalisations: catalog without /Version; page tree nodes with /Kids without null entries
     and a recomputed /Count *)
  Inductive norm_of : mode -> N -> obj -> Prop :=
  | NGen : forall wp dest n, norm_of (MGen wp dest) n (gobj n)
  | NPage : forall n d, gobj n = ODict d -> norm_of MPage n (ODict d)
  | NRoot : forall n d0, gobj n = ODict d0 ->
      norm_of MRoot n (ODict (if delv then ddel kVersion d0 else d0))
  | NPages : forall n d cnt, gobj n = ODict d ->
      norm_of MPages n (ODict (dset kCount (OInt cnt)
                               (dset kKids (OArr (filter (fun o => negb (is_null o)) (kids_of d))) d))).

  Definition good (s : st) : Prop := forall n md o, In (n, (md, o)) s -> norm_of md n o.

  Lemma good_cons : forall s n md o, good s -> norm_of md n o -> good ((n, (md, o)) :: s).
  Proof. intros s n md o Hg Hn n' md' o' [H|H]; [inversion H; subst; exact Hn|exact (Hg _ _ _ H)]. Qed.

  Lemma seqm_good : forall (A : Type) (f : A -> st -> wres) (l : list A),
    (forall x s s', In x l -> good s -> f x s = WOk s' -> good s') ->
    forall s s', good s -> seqm f l s = WOk s' -> good s'.
  Proof.
    intros A f l. induction l as [|x l IH]; intros Hf s s' Hg H; simpl in H.
    - inversion H; subst. exact Hg.
    - destruct (f x s) as [s1| |] eqn:E; try discriminate.
      apply (IH (fun y a b Hy => Hf y a b (or_intror Hy)) s1 s'); [|exact H].
      exact (Hf x s s1 (or_introl eq_refl) Hg E).
  Qed.

  Section DeepGood.
    Variable visit : bool -> bool -> N -> st -> wres.
    Hypothesis Hvisit : forall wp dest n s s', good s -> visit wp dest n s = WOk s' -> good s'.

    Lemma deep_good : forall o wp dest s s', good s -> deep visit wp dest o s = WOk s' -> good s'.
    Proof.
      induction o as [|tg v|z|nm|n|l IH|d IH|d x IH] using obj_ind'; intros wp dest s s' Hg H; simpl in H;
        try (inversion H; subst; exact Hg).
      - exact (Hvisit _ _ _ _ _ Hg H).
      - destruct l as [|x r]; [inversion H; subst; exact Hg|].
        rewrite Forall_forall in IH. destruct dest.
        + apply (seqm_good _ (deep visit wp true) r) with (s := s); [|exact Hg|exact H].
          intros y a b Hy Ha Hd. exact (IH y (or_intror Hy) wp true a b Ha Hd).
        + apply (seqm_good _ (deep visit wp false) (x :: r)) with (s := s); [|exact Hg|exact H].
          intros y a b Hy Ha Hd. exact (IH y Hy wp false a b Ha Hd).
      - rewrite Forall_forall in IH.
        apply (seqm_good _ (fun kv => deep visit wp (wp && is_dest_key (fst kv)) (snd kv)) d) with (s := s);
          [|exact Hg|exact H].
        intros y a b Hy Ha Hd. exact (IH y Hy _ _ a b Ha Hd).
    Qed.

    Lemma deep_values_good : forall o wp dest s s', good s -> deep_values visit wp dest o s = WOk s' -> good s'.
    Proof.
      intros o wp dest s s' Hg H. destruct o as [|tg v|z|nm|n|l|d|d x]; simpl in H;
        try (inversion H; subst; exact Hg).
      - exact (deep_good (OArr l) wp dest s s' Hg H).
      - exact (deep_good (ODict d) wp dest s s' Hg H).
      - apply (seqm_good _ (fun kv => deep visit wp dest (snd kv)) d) with (s := s); [|exact Hg|exact H].
        intros y a b _ Ha Hd. exact (deep_good (snd y) wp dest a b Ha Hd).
    Qed.
  End DeepGood.

  Local Opaque deep_values.
  Lemma visit_good : forall fuel wp dest n s s', good s -> visit g fuel wp dest n s = WOk s' -> good s'.
  Proof.
    induction fuel as [|f IH]; intros wp dest n s s' Hg H; simpl in H.
    - destruct (written s n); [inversion H; subst; exact Hg|discriminate].
    - destruct (written s n); [inversion H; subst; exact Hg|].
      assert (Hgen : forall fl o, lookup g n = Some (fl, o) ->
                deep_values (visit g f) wp dest o ((n, (MGen wp dest, o)) :: s) = WOk s' -> good s').
      { intros fl o L Hd. apply (deep_values_good (visit g f) IH o wp dest ((n, (MGen wp dest, o)) :: s) s'); [|exact Hd].
        apply good_cons; [exact Hg|]. replace o with (gobj n) by (unfold gobj; rewrite L; reflexivity).
        constructor. }
      destruct (lookup g n) as [[fl o]|] eqn:L.
      + destruct fl.
        * destruct o as [|tg v|z|nm|k|l|d|d x]; try (exact (Hgen _ _ eq_refl H)); try discriminate.
          destruct (is_page d && false) eqn:Pg; [rewrite andb_false_r in Pg; discriminate|].
          exact (Hgen _ _ eq_refl H).
        * destruct o as [|tg v|z|nm|k|l|d|d x]; try (exact (Hgen _ _ eq_refl H)); try discriminate.
          destruct (is_page d); simpl in H; [inversion H; subst; exact Hg|exact (Hgen _ _ eq_refl H)].
      + inversion H; subst. apply good_cons; [exact Hg|].
        replace ONull with (gobj n) by (unfold gobj; rewrite L; reflexivity). constructor.
  Qed.
  Local Transparent deep_values.

  Lemma entries_good : forall fuel wp d keys s s', good s -> entries g fuel wp d keys s = WOk s' -> good s'.
  Proof.
    intros fuel wp d keys s s' Hg H. unfold entries in H.
    apply (seqm_good _ _ keys) with (s := s) in H; [exact H| |exact Hg].
    intros k a b _ Ha Hk. destruct (dfind k d) as [o|].
    - destruct o; try (exact (deep_good (visit g fuel) (visit_good fuel) _ wp false a b Ha Hk)).
      inversion Hk; subst. exact Ha.
    - inversion Hk; subst. exact Ha.
  Qed.

  Lemma page_dict_good : forall fuel n d s s', lookup g n = Some (fst (match lookup g n with Some e => e | None => (FValid, ONull) end), ODict d) ->
    good s -> page_dict g fuel n d s = WOk s' -> good s'.
  Proof.
    intros fuel n d s s' L Hg H. unfold page_dict in H. destruct (written s n); [inversion H; subst; exact Hg|].
    destruct (dfind kParent d) as [[]|]; try discriminate.
    apply (entries_good _ _ _ _ _ _) in H; [exact H|]. apply good_cons; [exact Hg|].
    constructor. unfold gobj. rewrite L. reflexivity.
  Qed.

  Section KidsGood.
    Variable node : N -> st -> list N -> pres.
    Variable fuel : nat.
    Hypothesis Hnode : forall k s seen s' seen' c, good s -> node k s seen = POk s' seen' c -> good s'.

    Lemma wkids_good : forall a s seen acc cnt s' seen' kids' cnt',
      good s -> wkids g node fuel a s seen acc cnt = KOk s' seen' kids' cnt' ->
      good s' /\ kids' = rev acc ++ filter (fun o => negb (is_null o)) a.
    Proof.
      induction a as [|o a IH]; intros s seen acc cnt s' seen' kids' cnt' Hg H; simpl in H.
      - inversion H; subst. split; [exact Hg|rewrite app_nil_r; reflexivity].
      - destruct o as [|tg v|z|nm|k|l|d|d x]; try discriminate.
        + simpl. exact (IH _ _ _ _ _ _ _ _ Hg H).
        + destruct (lookup g k) as [[fl [| | | | | |kd|]]|] eqn:L; try discriminate.
          destruct (dtype kd) as [t|]; try discriminate.
          destruct (beqb t kPages).
          * destruct (node k s seen) as [s1 seen1 c| |] eqn:En; try discriminate.
            destruct (IH _ _ _ _ _ _ _ _ (Hnode _ _ _ _ _ _ Hg En) H) as [G K]. split; [exact G|].
            rewrite K. simpl. rewrite <- app_assoc. reflexivity.
          * destruct (beqb t kPage); try discriminate.
            destruct (page_dict g fuel k kd s) as [s1| |] eqn:Ep; try discriminate.
            assert (G1 : good s1).
            { apply (page_dict_good fuel k kd s s1); [rewrite L; reflexivity|exact Hg|exact Ep]. }
            destruct (IH _ _ _ _ _ _ _ _ G1 H) as [G K]. split; [exact G|].
            rewrite K. simpl. rewrite <- app_assoc. reflexivity.
    Qed.
  End KidsGood.

  Local Opaque entries.
  Lemma pages_node_good : forall depth fuel n s seen s' seen' c,
    good s -> pages_node g depth fuel n s seen = POk s' seen' c -> good s'.
  Proof.
    induction depth as [|dp IH]; intros fuel n s seen s' seen' c Hg H; simpl in H; [discriminate|].
    destruct (memn n seen); [discriminate|].
    destruct (lookup g n) as [[fl [| | | | | |d|]]|] eqn:L; try discriminate.
    destruct (wkids g (pages_node g dp fuel) fuel (kids_of d) s (n :: seen) [] 0%Z) as [s1 seen1 kidsNew cnt| |] eqn:Ek;
      try discriminate.
    destruct (wkids_good (pages_node g dp fuel) fuel (IH fuel) _ _ _ _ _ _ _ _ _ Hg Ek) as [G1 K1].
    simpl in K1. subst kidsNew.
    match type of H with context [entries g fuel false ?dd pages_keys ?ss] =>
      destruct (entries g fuel false dd pages_keys ss) as [s2| |] eqn:Ee; try discriminate end.
    injection H as Hs Hseen Hc. subst s'.
    apply entries_good in Ee; [exact Ee|]. apply good_cons; [exact G1|].
    constructor. unfold gobj. rewrite L. reflexivity.
  Qed.
  Local Transparent entries.

  Theorem write_model_good : forall maxd fuel root info s,
    write_model g maxd fuel delv root info = WOk s -> good s.
  Proof.
    intros maxd fuel root info s H. unfold write_model in H.
    destruct (write_root g maxd fuel delv root) as [s1| |] eqn:E1; try discriminate.
    assert (G1 : good s1).
    { unfold write_root in E1.
      destruct (lookup g root) as [[fl [| | | | | |d0|]]|] eqn:L; try discriminate.
      match type of E1 with context [entries g fuel false ?dd root_keys_pre ?ss] =>
        destruct (entries g fuel false dd root_keys_pre ss) as [sa| |] eqn:Ea; try discriminate end.
      apply entries_good in Ea.
      - match type of E1 with context [dfind kPages ?dd] => destruct (dfind kPages dd) as [[| | | |p| | |]|]; try discriminate end.
        destruct (pages_node g maxd fuel p sa []) as [sb seenb cb| |] eqn:Eb; try discriminate.
        apply pages_node_good in Eb; [|exact Ea]. exact (entries_good _ _ _ _ _ _ Eb E1).
      - intros n md o [Hin|[]]. inversion Hin; subst. constructor. unfold gobj. rewrite L. reflexivity. }
    unfold write_info in H. destruct info as [i|]; [|inversion H; subst; exact G1].
    destruct (lookup g i) as [[fl o]|] eqn:L; [|inversion H; subst; exact G1].
    destruct o as [|tg v|z|nm|k|l|d|d x]; try discriminate; try (inversion H; subst; exact G1).
    destruct (written s1 i); [inversion H; subst; exact G1|].
    destruct (is_page d && _); [inversion H; subst; exact G1|].
    apply (deep_values_good (visit g fuel) (visit_good fuel)) in H; [exact H|].
    apply good_cons; [exact G1|]. replace (ODict d) with (gobj i) by (unfold gobj; rewrite L; reflexivity).
    constructor.
  Qed.

  (* ---------- nothing reachable is lost when every reference was followed ---------- *)
  (* the original table with the emitted (normalised) objects in place of the originals *)
  Definition ntbl (s : st) (n : N) : option obj :=
    match rfind s n with
    | Some o => Some o
    | None => match lookup g n with Some (_, o) => Some o | None => None end
    end.

  Definition closed (s : st) : Prop :=
    forall n md o, In (n, (md, o)) s -> forall m, In m (refs o) -> In m (dom s).

  Theorem closed_unfold : forall s, closed s ->
    forall d o, incl (refs o) (dom s) -> unfold (rfind s) d o = unfold (ntbl s) d o.
  Proof.
    intros s Hc. induction d as [|d IH]; intros o Ho; simpl; [reflexivity|].
    destruct o as [|tg v|z|nm|n|l|dd|dd x]; simpl; try reflexivity.
    - assert (Hn : In n (dom s)) by (apply Ho; simpl; left; reflexivity).
      destruct (rfind_dom s n Hn) as [x Hx]. unfold deref1, ntbl. rewrite Hx. apply IH.
      destruct (rfind_in s n x Hx) as [md Hin]. intros m Hm. exact (Hc n md x Hin m Hm).
    - f_equal. apply map_ext_in. intros a Ha. apply IH. intros m Hm. apply Ho. simpl.
      apply in_flat_map. exists a. split; assumption.
    - f_equal. apply map_ext_in. intros a Ha. f_equal. apply IH. intros m Hm. apply Ho. simpl.
      apply in_flat_map. exists a. split; assumption.
    - f_equal. apply map_ext_in. intros a Ha. f_equal. apply IH. intros m Hm. apply Ho. simpl.
      apply in_flat_map. exists a. split; assumption.
  Qed.

  (* if the writer followed every reference of every emitted object and refused no page,
     the emitted graph is closed *)
  Theorem followed_all_closed : forall maxd fuel root info s,
    write_model g maxd fuel delv root info = WOk s ->
    (forall n r, In (n, r) s -> incl (refs (snd r)) (followed r)) ->
    (forall m, ~ refused g m) ->
    closed s.
  Proof.
    intros maxd fuel root info s H Hall Href n md o Hin m Hm.
    destruct (write_model_closed g _ _ _ _ _ _ H n (md, o) Hin m (Hall n (md, o) Hin m Hm)) as [Hd|Hr];
      [exact Hd|exfalso; exact (Href m Hr)].
  Qed.

  (* only the records written under page writing or as one of the three special dictionaries
     can hold a reference the writer did not follow *)
  Theorem special_followed_closed : forall maxd fuel root info s,
    write_model g maxd fuel delv root info = WOk s ->
    (forall n o, In (n, (MGen false false, o)) s -> wfobj o = true) ->
    (forall n md o, In (n, (md, o)) s -> md <> MGen false false -> incl (refs o) (followed (md, o))) ->
    (forall m, ~ refused g m) ->
    closed s.
  Proof.
    intros maxd fuel root info s H Hwf Hsp Href.
    apply (followed_all_closed maxd fuel root info s H); [|exact Href].
    intros n [md o] Hin. simpl snd.
    destruct md as [[|] [|]| | |]; try (apply (Hsp n _ o Hin); discriminate).
    change (followed (MGen false false, o)) with (wrefs_values false false o).
    rewrite (wrefs_values_nopages_all o (Hwf n o Hin)). apply incl_refl.
  Qed.
End Orig.
