// genc19 regenerates coq/C19/Generated.v from the pdfcpu source (go/ast only, no pdfcpu
// import). It extracts WHICH dictionary entries the writer follows:
//
//	-write <pkg/pdfcpu/write.go>
//	    func writeRootObject: the calls, in source order, of
//	        writeRootEntry(ctx, d, dictName, "<Key>", ...)            -> key
//	        writeRootEntryToObjStream(ctx, d, dictName, "<Key>", ...) -> key
//	        writePages(ctx, d)                                        -> the page tree marker
//	        writeRootAttrsBatch1 / writeRootAttrsBatch2(ctx, d, dictName) -> the keys of the
//	            composite literal `[]struct{entryName string; statsAttr int}{{"Key", ...}, ...}`
//	            ranged over in that function, whose loop body calls writeRootEntry
//	    -> root_keys_pre (before the page tree), root_keys_post (after it)
//	-pages <pkg/pdfcpu/writePages.go>
//	    func writePageDict / writePageEntries: the keys of the ranged composite literal, whose
//	    loop body calls writePageEntry  -> page_keys, pages_keys
//
// Exactly one such range statement per function is accepted; every other call of a function
// whose name starts with "write" inside writeRootObject except writeDictObject makes the tool
// FAIL (exit 1), as does any key that is not a plain string literal.
package main

import (
	"flag"
	"fmt"
	"go/ast"
	"go/parser"
	"go/token"
	"os"
	"path/filepath"
	"strconv"
	"strings"
)

func die(format string, a ...any) {
	fmt.Fprintf(os.Stderr, "genc19: "+format+"\n", a...)
	os.Exit(1)
}

var fset = token.NewFileSet()

func parse(path string) *ast.File {
	f, err := parser.ParseFile(fset, path, nil, 0)
	if err != nil {
		die("parse %s: %v", path, err)
	}
	return f
}

func pos(n ast.Node) string {
	p := fset.Position(n.Pos())
	return fmt.Sprintf("%s:%d", filepath.Base(p.Filename), p.Line)
}

func fn(f *ast.File, name string) *ast.FuncDecl {
	for _, d := range f.Decls {
		if fd, ok := d.(*ast.FuncDecl); ok && fd.Recv == nil && fd.Name.Name == name {
			return fd
		}
	}
	die("function %s not found", name)
	return nil
}

func strLit(e ast.Expr) string {
	bl, ok := e.(*ast.BasicLit)
	if !ok || bl.Kind != token.STRING {
		die("%s: expected a string literal", pos(e))
	}
	s, err := strconv.Unquote(bl.Value)
	if err != nil {
		die("%s: %v", pos(e), err)
	}
	return s
}

func callName(c *ast.CallExpr) string {
	if id, ok := c.Fun.(*ast.Ident); ok {
		return id.Name
	}
	return ""
}

// rangedKeys: the function must contain exactly one `for _, e := range []struct{...}{ {"K", x}, ... } { ... }`
// whose body calls `callee(..., e.entryName, ...)`.
func rangedKeys(fd *ast.FuncDecl, callee string) []string {
	var keys []string
	found := 0
	ast.Inspect(fd.Body, func(n ast.Node) bool {
		rs, ok := n.(*ast.RangeStmt)
		if !ok {
			return true
		}
		cl, ok := rs.X.(*ast.CompositeLit)
		if !ok {
			die("%s: range over something that is not a composite literal", pos(rs))
		}
		found++
		for _, el := range cl.Elts {
			ecl, ok := el.(*ast.CompositeLit)
			if !ok || len(ecl.Elts) < 1 {
				die("%s: unexpected element", pos(el))
			}
			first := ecl.Elts[0]
			if kv, ok := first.(*ast.KeyValueExpr); ok {
				if id, ok := kv.Key.(*ast.Ident); !ok || id.Name != "entryName" {
					die("%s: first field is not entryName", pos(first))
				}
				first = kv.Value
			}
			keys = append(keys, strLit(first))
		}
		calls := 0
		ast.Inspect(rs.Body, func(m ast.Node) bool {
			if c, ok := m.(*ast.CallExpr); ok && callName(c) == callee {
				calls++
				okArg := false
				for _, a := range c.Args {
					if se, ok := a.(*ast.SelectorExpr); ok && se.Sel.Name == "entryName" {
						okArg = true
					}
				}
				if !okArg {
					die("%s: %s is not called with e.entryName", pos(c), callee)
				}
			}
			return true
		})
		if calls != 1 {
			die("%s: loop body of %s must call %s exactly once", pos(rs), fd.Name.Name, callee)
		}
		return false
	})
	if found != 1 {
		die("%s: expected exactly one key loop, found %d", fd.Name.Name, found)
	}
	return keys
}

func gallinaList(name string, keys []string) string {
	var b strings.Builder
	fmt.Fprintf(&b, "Definition %s : list (list N) := [\n", name)
	for i, k := range keys {
		var cs []string
		for _, c := range []byte(k) {
			cs = append(cs, strconv.Itoa(int(c)))
		}
		sep := ";"
		if i == len(keys)-1 {
			sep = ""
		}
		fmt.Fprintf(&b, "  [%s]%%N%s  (* %s *)\n", strings.Join(cs, ";"), sep, k)
	}
	b.WriteString("].\n")
	return b.String()
}

func main() {
	writeGo := flag.String("write", "", "pkg/pdfcpu/write.go")
	pagesGo := flag.String("pages", "", "pkg/pdfcpu/writePages.go")
	out := flag.String("out", "", "output .v")
	flag.Parse()
	if *writeGo == "" || *pagesGo == "" || *out == "" {
		die("usage: genc19 -write write.go -pages writePages.go -out Generated.v")
	}
	wf := parse(*writeGo)
	pf := parse(*pagesGo)

	batch := map[string][]string{
		"writeRootAttrsBatch1": rangedKeys(fn(wf, "writeRootAttrsBatch1"), "writeRootEntry"),
		"writeRootAttrsBatch2": rangedKeys(fn(wf, "writeRootAttrsBatch2"), "writeRootEntry"),
	}
	var pre, post []string
	seenPages := false
	add := func(k string) {
		if seenPages {
			post = append(post, k)
		} else {
			pre = append(pre, k)
		}
	}
	root := fn(wf, "writeRootObject")
	ast.Inspect(root.Body, func(n ast.Node) bool {
		c, ok := n.(*ast.CallExpr)
		if !ok {
			return true
		}
		name := callName(c)
		switch name {
		case "writeRootEntry", "writeRootEntryToObjStream":
			if len(c.Args) != 5 {
				die("%s: %s: expected 5 arguments", pos(c), name)
			}
			add(strLit(c.Args[3]))
		case "writePages":
			if seenPages {
				die("%s: writePages called twice", pos(c))
			}
			seenPages = true
		case "writeRootAttrsBatch1", "writeRootAttrsBatch2":
			for _, k := range batch[name] {
				add(k)
			}
			delete(batch, name)
		case "writeDictObject":
		default:
			if strings.HasPrefix(name, "write") {
				die("%s: call of %s in writeRootObject is not understood", pos(c), name)
			}
		}
		return true
	})
	if !seenPages {
		die("writeRootObject does not call writePages")
	}
	if len(batch) != 0 {
		die("writeRootObject does not call both writeRootAttrsBatch1 and writeRootAttrsBatch2")
	}
	pageKeys := rangedKeys(fn(pf, "writePageDict"), "writePageEntry")
	pagesKeys := rangedKeys(fn(pf, "writePageEntries"), "writePageEntry")

	var b strings.Builder
	b.WriteString("(* GENERATED by go/cmd/genc19 from pkg/pdfcpu/write.go and writePages.go — do not edit.\n")
	b.WriteString("   The dictionary entries the writer follows (writeEntry) for the catalog, a page tree\n")
	b.WriteString("   node and a page, in source order. *)\n")
	b.WriteString("From Coq Require Import List NArith.\nImport ListNotations.\n\n")
	b.WriteString(gallinaList("root_keys_pre", pre))
	b.WriteString(gallinaList("root_keys_post", post))
	b.WriteString(gallinaList("pages_keys", pagesKeys))
	b.WriteString(gallinaList("page_keys", pageKeys))
	if err := os.WriteFile(*out, []byte(b.String()), 0o644); err != nil {
		die("%v", err)
	}
}
