(* C40 — concurrent use of the pdfcpu API: executable model of the package-level shared
   state and of the lock-protected (atomic) sections that touch it.  NO proofs here.

   Shared state modelled (all of the package-level mutable state that the API touches
   while operations run with the configuration directory disabled):

     pkg/font/metrics.go
        userFontMetrics      map[string]TTFLight        guarded by userFontMetricsLock (RWMutex)
        loadUserFontsOnce    sync.Once                  guarded by loadUserFontsMutex  (Mutex)
        loadUserFontsErr     error                      guarded by loadUserFontsMutex
     pkg/pdfcpu/model/configuration.go
        ConfigPath           string                     written by api.DisableConfigDir under
                                                        mutexDisableConfigDir, read by NewDefaultConfiguration
     pkg/pdfcpu/certificate.go
        trustedCertificatePool {dir, loaded, pool, storeRevision}   guarded by its embedded RWMutex

   What is on disk (font directory, certificate directory, store revision) is the
   environment [env]; it is constant during the concurrent phase ("independent inputs":
   nobody installs fonts or certificates while the operations run).

   A font is abstracted to an N (the harness uses the glyph count), a font name to an N,
   a certificate pool to an N (number of certificates), an error to "an error" (RErr).

   Granularity: one [sec] = one critical section of the code, executed atomically.  That
   critical sections are atomic is what sync.Mutex / sync.RWMutex / sync.Once provide
   (trusted: Go runtime + memory model) PROVIDED every access to the variable is inside
   the extent of its lock; that proviso is the lock-discipline table (Generated.v) and the
   race detector in the harness.  LoadUserFonts holds loadUserFontsMutex for its whole
   body and, inside it, doLoadUserFonts replaces the table in ONE write-locked section;
   readers only take the RWMutex, so the whole of LoadUserFonts is atomic for them at the
   point of that inner section, and atomic for other loaders because of the outer mutex. *)
From Coq Require Import NArith List Bool.
Import ListNotations.
Open Scope N_scope.

Definition table := list (N * N).           (* font name -> font *)

Record env := mkEnv {
  e_fonts   : option table;   (* Some t: UserFontDir holds exactly t ("" dir = Some []); None: os.ReadDir / gob decode fails *)
  e_certdir : N;              (* model.TrustedCertDir *)
  e_rev     : N;              (* model.CertificateStoreRevision() *)
  e_pool    : option N        (* buildCurrentCertificatePool: Some pool / None = error *)
}.

Record state := mkState {
  s_fonts  : table;           (* userFontMetrics *)
  s_once   : bool;            (* loadUserFontsOnce has fired *)
  s_err    : bool;            (* loadUserFontsErr != nil *)
  s_cfg    : bool;            (* model.ConfigPath == "disable" *)
  s_loaded : bool;            (* trustedCertificatePool.loaded *)
  s_dir    : N;               (* trustedCertificatePool.dir *)
  s_rev    : N;               (* trustedCertificatePool.storeRevision *)
  s_pool   : option N         (* trustedCertificatePool.pool (None = nil) *)
}.

(* the state of a freshly started process *)
Definition init_state : state := mkState [] false false false false 0 0 None.

Inductive result :=
| RUnit                       (* nil error / no value *)
| RErr                        (* a non-nil error *)
| RFont (o : option N)        (* map lookup: value, ok *)
| RNames (l : list N)         (* key set of the map (the harness sorts; the model keeps directory order) *)
| RCfg (disabled : bool)
| RPool (o : option N).

Definition is_err (r : result) : bool := match r with RErr => true | _ => false end.

Inductive sec :=
| SLoad            (* font.LoadUserFonts *)
| SReload          (* font.ReloadUserFonts *)
| SLookup (n : N)  (* RLock; userFontMetrics[n]; RUnlock         (tail of IsUserFont / userFont) *)
| SNames           (* RLock; range userFontMetrics; RUnlock      (tail of UserFontNames[Verbose]) *)
| SDisable         (* api.DisableConfigDir *)
| SReadCfg         (* model.NewDefaultConfiguration: ConfigPath != "disable" *)
| SLoadCerts       (* pdfcpu.LoadCertificates *)
| SInvalidate      (* pdfcpu.InvalidateCertificatePool *)
| SGetPool.        (* pdfcpu.userCertificatePool *)

Fixpoint lookup (n : N) (t : table) : option N :=
  match t with
  | [] => None
  | (k, v) :: t' => if N.eqb k n then Some v else lookup n t'
  end.

Definition set_fonts (st : state) (t : table) (once err : bool) : state :=
  mkState t once err (s_cfg st) (s_loaded st) (s_dir st) (s_rev st) (s_pool st).

(* font.doLoadUserFonts: on a read/decode error the map is left untouched and the error
   returned; otherwise the map is cleared and refilled in one write-locked section. *)
Definition do_load (e : env) (st : state) : table * bool :=
  match e_fonts e with
  | None => (s_fonts st, true)
  | Some t => (t, false)
  end.

Definition err_result (b : bool) : result := if b then RErr else RUnit.

Definition step (e : env) (s : sec) (st : state) : state * result :=
  match s with
  | SLoad =>
      (* loadUserFontsMutex.Lock; loadUserFontsOnce.Do(func(){ loadUserFontsErr = doLoadUserFonts() }); return loadUserFontsErr *)
      if s_once st then (st, err_result (s_err st))
      else let (t, er) := do_load e st in (set_fonts st t true er, err_result er)
  | SReload =>
      (* loadUserFontsErr = doLoadUserFonts(); loadUserFontsOnce.Do(func(){}); return loadUserFontsErr *)
      let (t, er) := do_load e st in (set_fonts st t true er, err_result er)
  | SLookup n => (st, RFont (lookup n (s_fonts st)))
  | SNames => (st, RNames (map fst (s_fonts st)))
  | SDisable =>
      (mkState (s_fonts st) (s_once st) (s_err st) true (s_loaded st) (s_dir st) (s_rev st) (s_pool st), RUnit)
  | SReadCfg => (st, RCfg (s_cfg st))
  | SLoadCerts =>
      (* cache hit: loaded && dir == TrustedCertDir && storeRevision == CertificateStoreRevision() *)
      if s_loaded st && N.eqb (s_dir st) (e_certdir e) && N.eqb (s_rev st) (e_rev e) then (st, RUnit)
      else match e_pool e with
           | None => (st, RErr)                         (* failed loads are not cached *)
           | Some p => (mkState (s_fonts st) (s_once st) (s_err st) (s_cfg st) true (e_certdir e) (e_rev e) (Some p), RUnit)
           end
  | SInvalidate =>
      (mkState (s_fonts st) (s_once st) (s_err st) (s_cfg st) false (s_dir st) (s_rev st) (s_pool st), RUnit)
  | SGetPool => (st, RPool (s_pool st))
  end.

(* An API operation = its critical sections in program order; it returns at the first
   section that yields an error (`if err := LoadUserFonts(); err != nil { return ..., err }`)
   and otherwise returns the result of its last section. *)
Definition op := list sec.

Definition null {A} (l : list A) : bool := match l with [] => true | _ => false end.

(* the operation run by itself (sequentially) from state st *)
Fixpoint run_op (e : env) (st : state) (ss : list sec) : result :=
  match ss with
  | [] => RUnit
  | s :: ss' => let (st', r) := step e s st in
                if is_err r || null ss' then r else run_op e st' ss'
  end.

(* Threads.  A thread's program = its operations, each paired with the sections of it that
   are still to be executed (so that an emitted event can name the whole operation). *)
Definition prog := list (op * list sec).
Definition event := (nat * op * result)%type.       (* thread id, operation, its result *)

Definition init_prog (ops : list op) : prog := map (fun o => (o, o)) ops.

(* thread t executes its next critical section *)
Definition tstep (e : env) (t : nat) (p : prog) (st : state) : state * prog * list event :=
  match p with
  | [] => (st, [], [])
  | (o, []) :: rest => (st, rest, [(t, o, RUnit)])
  | (o, s :: ss) :: rest =>
      let (st', r) := step e s st in
      if is_err r || null ss then (st', rest, [(t, o, r)])
      else (st', (o, ss) :: rest, [])
  end.

Fixpoint update {A} (i : nat) (x : A) (l : list A) : list A :=
  match l, i with
  | [], _ => []
  | _ :: l', O => x :: l'
  | y :: l', S i' => y :: update i' x l'
  end.

(* Interleaving semantics: the schedule names, step by step, the thread whose next
   critical section runs.  EVERY list of thread ids is a schedule (ids of finished or
   non-existent threads are no-ops), so quantifying over schedules covers every merge
   of the threads' section lists, complete or not. *)
Fixpoint run (e : env) (sched : list nat) (ps : list prog) (st : state) : state * list event :=
  match sched with
  | [] => (st, [])
  | t :: sch =>
      match nth_error ps t with
      | None => run e sch ps st
      | Some p =>
          let '(st', p', ev) := tstep e t p st in
          let (stf, evs) := run e sch (update t p' ps) st' in
          (stf, ev ++ evs)
      end
  end.

(* ---- lock-discipline table (shape of the entries that genc40 writes into Generated.v) ---- *)
Inductive lockmode := LNone | LRead | LWrite.
Inductive acckind := ARead | AWrite.

Record access := mkAccess {
  a_var   : N;          (* index into Generated.var_names *)
  a_func  : N;          (* index into Generated.func_names *)
  a_kind  : acckind;
  a_lock  : lockmode;   (* strongest mode in which the variable's guarding lock is held at the access *)
  a_line  : N
}.

(* reads need the lock in read or write mode, writes need it in write mode *)
Definition guarded (a : access) : bool :=
  match a_kind a, a_lock a with
  | ARead, LRead | ARead, LWrite | AWrite, LWrite => true
  | _, _ => false
  end.

(* ---- helpers for the correspondence stream (sequentialised schedules) ---- *)
Fixpoint run_secs (e : env) (st : state) (ss : list sec) : state * list result :=
  match ss with
  | [] => (st, [])
  | s :: ss' => let (st', r) := step e s st in
                let (stf, rs) := run_secs e st' ss' in (stf, r :: rs)
  end.

(* ---- specification vocabulary used by the theorems (definitions only) ---- *)

(* The shared state agrees with what is on disk wherever it claims to be loaded, and the
   configuration directory is disabled (the precondition of the property).  Holds for
   init_state after DisableConfigDir, and after any sequential warm-up. *)
Definition coherent (e : env) (st : state) : Prop :=
  s_cfg st = true /\
  (s_once st = true ->
     match e_fonts e with
     | None => s_err st = true
     | Some t => s_err st = false /\ s_fonts st = t
     end) /\
  (s_loaded st = true -> s_dir st = e_certdir e -> s_rev st = e_rev e ->
     exists p, e_pool e = Some p /\ s_pool st = Some p).

(* "user fonts have been loaded successfully" / "a trust pool has been loaded successfully" *)
Definition fonts_loaded (e : env) (st : state) : Prop := s_once st = true /\ e_fonts e <> None.
Definition pool_loaded (e : env) (st : state) : Prop := exists p, e_pool e = Some p /\ s_pool st = Some p.

(* Well-formed operation: a section that reads the font table is preceded, in the same
   operation, by SLoad/SReload (k1), a section that reads the pool by SLoadCerts (k2) —
   unless that knowledge (k1/k2) is available before the operation starts. *)
Definition needs (k1 k2 : bool) (s : sec) : bool :=
  match s with SLookup _ | SNames => k1 | SGetPool => k2 | _ => true end.
Definition gives1 (s : sec) : bool := match s with SLoad | SReload => true | _ => false end.
Definition gives2 (s : sec) : bool := match s with SLoadCerts => true | _ => false end.
Fixpoint wf_secs (k1 k2 : bool) (ss : list sec) : bool :=
  match ss with
  | [] => true
  | s :: ss' => needs k1 k2 s && wf_secs (k1 || gives1 s) (k2 || gives2 s) ss'
  end.
Definition wf_op (o : op) : bool := wf_secs false false o.
Definition wf_threads (k1 k2 : bool) (ths : list (list op)) : Prop :=
  Forall (Forall (fun o => wf_secs k1 k2 o = true)) ths.
