(* C18 glue.
   layout   vmaj vmin eol objs frees size tpre -> hex of the file bytes
            eol: 0 LF, 1 CR, 2 CRLF;  objs: "nr:gen:xgen:hexbody;..." (gen: object header, xgen: xref table entry) ; frees: "nr:next:gen;..." (hex ints)
   check    hexfile -> stage number (0 = accepted)
   xstream  hexfile size w0 w1 w2 index("start:count;..") hexdata -> strict decode of the inflated rows + check_rows
   w2width  size offset -> /W[1] as writeXRefStream computes it
   xcontent size offset rows("t:a:b;..") -> hex of the row bytes
   entry    eol a b free -> hex of the 20-byte line
   i64buf   i byteCount -> hex
   dec      n -> hex of the decimal text
   evfl     h frees -> "ok:<sorted free numbers>" if the repaired list is one chain (+ dead entries), else "broken"
   undelete frees nr -> frees after UndeleteObject (input order, revived entry removed) + new generation
   freeobj  frees nr gen -> "nr:next:gen;..." after FreeObject, and whether the chain is still ok *)
open Model
open Common

let eol_of s = match s with "0" -> LF | "1" -> CR | "2" -> CRLF | _ -> failwith "eol"
let split c s = if s = "" then [] else String.split_on_char c s
let obj_of s = match String.split_on_char ':' s with
  | [a; b; x; c] -> { o_nr = n_of_hex a; o_gen = n_of_hex b; o_xgen = n_of_hex x; o_body = bytes_of_hex c }
  | _ -> failwith "obj"
let free_of s = match String.split_on_char ':' s with
  | [a; b; c] -> { e_nr = n_of_hex a; e_a = n_of_hex b; e_b = n_of_hex c; e_free = true }
  | _ -> failwith "free"
let str_free e = hex_of_n e.e_nr ^ ":" ^ hex_of_n e.e_a ^ ":" ^ hex_of_n e.e_b

let dispatch fn args = match fn, args with
  | "layout", [vmaj; vmin; eol; objs; frees; size; tpre] ->
      let i = { i_vmaj = n_of_hex vmaj; i_vmin = n_of_hex vmin; i_eol = eol_of eol;
                i_objs = List.map obj_of (split ';' objs); i_frees = List.map free_of (split ';' frees);
                i_size = n_of_hex size; i_tpre = bytes_of_hex tpre } in
      hex_of_bytes (layout i)
  | "check", [f] -> hex_of_n (check_stage (bytes_of_hex f))
  | "checkrows", [f; size; maxc; rows] ->
      let row s = match String.split_on_char ':' s with
        | [a; b; c; d] -> { e_nr = n_of_hex a; e_a = n_of_hex b; e_b = n_of_hex c; e_free = bool_of_str d }
        | _ -> failwith "row" in
      str_of_bool (check_rows (bytes_of_hex f) (n_of_hex size) (n_of_hex maxc) (List.map row (split ';' rows)))
  | "xstream", [f; size; w0; w1; w2; index; data] ->
      let pair s = match String.split_on_char ':' s with
        | [a; b] -> (n_of_hex a, n_of_hex b) | _ -> failwith "index" in
      let nat s = nat_of_int (int_of_string s) in
      str_of_bool (check_xref_stream (bytes_of_hex f) (n_of_hex size) (nat w0) (nat w1) (nat w2)
                     (List.map pair (split ';' index)) (bytes_of_hex data))
  | "w2width", [size; off] -> string_of_int (int_of_nat (w2_width (n_of_hex size) (n_of_hex off)))
  | "xcontent", [size; off; rows] ->
      let row s = match String.split_on_char ':' s with
        | [a; b; c] -> { x_typ = n_of_hex a; x_a = n_of_hex b; x_b = n_of_hex c } | _ -> failwith "xrow" in
      hex_of_bytes (xref_stream_content (n_of_hex size) (n_of_hex off) (List.map row (split ';' rows)))
  | "entry", [eol; a; b; fr] ->
      hex_of_bytes (entry_line (eol_of eol) { e_nr = N0; e_a = n_of_hex a; e_b = n_of_hex b; e_free = bool_of_str fr })
  | "i64buf", [i; bc] -> hex_of_bytes (int64ToBuf (n_of_hex i) (nat_of_int (int_of_string bc)))
  | "dec", [n] -> hex_of_bytes (dec (n_of_hex n))
  | "freeobj", [frees; nr; gen] ->
      let l = free_object (List.map free_of (split ';' frees)) (n_of_hex nr) (n_of_hex gen) in
      String.concat ";" (List.map str_free l) ^ " " ^ str_of_bool (chain_ok l)
  | "objhdr", [eol; nr; gen] -> hex_of_bytes (obj_header (eol_of eol) (n_of_hex nr) (n_of_hex gen))
  | "evfl", [h; frees] ->
      (* canonical (Go map order is arbitrary): well-formedness of the result + the set of free entries *)
      let fl = List.map free_of (split ';' frees) in
      let ((h', c), d) = ensure_valid_free_list (n_of_hex h) fl in
      let nrs = List.sort compare (List.map (fun e -> int_of_n e.e_nr) (c @ d)) in
      let dead_ok = List.for_all (fun e -> int_of_n e.e_b = 65535 && int_of_n e.e_a = 0) d in
      if pathb h' c N0 && dead_ok then "ok:" ^ String.concat "," (List.map string_of_int nrs) else "broken"
  | "undelete", [frees; nr] ->
      (match undelete_object (List.map free_of (split ';' frees)) (n_of_hex nr) with
       | None -> "err"
       | Some (l, None) -> String.concat ";" (List.map str_free l) ^ " notfound"
       | Some (l, Some g) -> String.concat ";" (List.map str_free l) ^ " gen=" ^ hex_of_n g)
  | _ -> failwith ("unknown function " ^ fn)
let () = main dispatch
