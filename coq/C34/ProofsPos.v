(* C34: the translated position functions read the page list at an index ("clean" index functions
   p2, p4side, ... below, plain Z arithmetic), and each index function is an injective self-map of
   [0,n) whenever n is a whole number of sheets. *)
From PV Require Import Lib.GoInt Lib.GoIntFacts C34.Generated C34.Model C34.ProofsBase.
From Coq Require Import Lia ZifyBool Permutation.
Open Scope Z_scope.
Ltac Zify.zify_post_hook ::= Z.to_euclidean_division_equations.

Ltac start_idx IW Hf :=
  let Hw := fresh "Hw" in let Hn := fresh "Hn" in let Hb := fresh "Hb" in
  destruct Hf as (Hw & Hn & Hb); pose proof (minS_maxS IW) as Hm.

(* ---- 2-up *)
Definition p2 (n i : Z) : Z := if i mod 2 =? 0 then n - 1 - i / 2 else (i - 1) / 2.

Lemma nup2_idx IW i n pages bt ls nn tf : fits IW n -> 0 <= i < n ->
  fst (nup2OutputPageNr IW i n pages bt ls nn tf) = getPage pages (p2 n i).
Proof.
  intros Hf Hi. start_idx IW Hf.
  unfold nup2OutputPageNr. cbv beta zeta. rewrite !getPageNumber_getPage.
  unwrap IW. unfold p2. rewrite !fst_if. cbn [fst].
  split_ifs; try reflexivity; f_equal; lia.
Qed.

Lemma p2_range n i : n mod 4 = 0 -> 0 <= i < n -> 0 <= p2 n i < n.
Proof. intros Hn Hi. unfold p2. split_ifs; lia. Qed.

Lemma p2_inj n i j : n mod 4 = 0 -> 0 <= i < n -> 0 <= j < n -> p2 n i = p2 n j -> i = j.
Proof. intros Hn Hi Hj. unfold p2. split_ifs; lia. Qed.

(* ---- 4-up *)
Definition g4 (ls : bool) (i : Z) : Z := if ls then 3 - i mod 4 else i mod 4.

Lemma get4upPos_g4 IW i ls bt l2 nn tf : fits IW i -> get4upPos IW i ls bt l2 nn tf = g4 ls i.
Proof.
  intros Hf. start_idx IW Hf.
  unfold get4upPos, g4. unwrap IW. destruct ls; split_ifs; lia.
Qed.

Definition p4side (ls : bool) (n i : Z) : Z :=
  let b := i / 8 in
  if (i / 4) mod 2 =? 0 then
    (if i mod 4 =? 0 then n - 4 * b - 1 else if i mod 4 =? 1 then 4 * b else if i mod 4 =? 2 then 4 * b + 2 else n - 3 - 4 * b)
  else
    (if g4 ls i =? 0 then 4 * b + 1 else if g4 ls i =? 1 then n - 2 - 4 * b else if g4 ls i =? 2 then n - 4 - 4 * b else 4 * b + 3).

Lemma nup4side_idx IW i n pages bt ls nn tf : fits IW n -> 0 <= i < n ->
  fst (nup4BasicSideFoldOutputPageNr IW i n pages bt ls nn tf) = getPage pages (p4side ls n i).
Proof.
  intros Hf Hi. start_idx IW Hf.
  unfold nup4BasicSideFoldOutputPageNr. cbv beta zeta. rewrite !getPageNumber_getPage.
  rewrite !(get4upPos_g4 IW i ls) by (unfold fits; lia).
  unwrap IW. unfold p4side. cbv zeta. rewrite !fst_if. cbn [fst].
  assert (Hg : 0 <= g4 ls i <= 3) by (unfold g4; destruct ls; lia).
  split_ifs; try reflexivity; f_equal; lia.
Qed.

Lemma p4side_range ls n i : n mod 8 = 0 -> 0 <= i < n -> 0 <= p4side ls n i < n.
Proof. intros Hn Hi. unfold p4side, g4. destruct ls; split_ifs; lia. Qed.

Lemma p4side_inj ls n i j : n mod 8 = 0 -> 0 <= i < n -> 0 <= j < n -> p4side ls n i = p4side ls n j -> i = j.
Proof. intros Hn Hi Hj. unfold p4side, g4. destruct ls; split_ifs; lia. Qed.

Definition p4top (ls : bool) (n i : Z) : Z :=
  let b := i / 8 in
  if (i / 4) mod 2 =? 0 then
    (if i mod 4 =? 0 then n - 4 * b - 1 else if i mod 4 =? 1 then 4 * b + 2 else if i mod 4 =? 2 then 4 * b else n - 3 - 4 * b)
  else
    (if g4 ls i =? 0 then 4 * b + 3 else if g4 ls i =? 1 then n - 2 - 4 * b else if g4 ls i =? 2 then n - 4 - 4 * b else 4 * b + 1).

Lemma nup4top_idx IW i n pages bt ls nn tf : fits IW n -> 0 <= i < n ->
  fst (nup4BasicTopFoldOutputPageNr IW i n pages bt ls nn tf) = getPage pages (p4top ls n i).
Proof.
  intros Hf Hi. start_idx IW Hf.
  unfold nup4BasicTopFoldOutputPageNr. cbv beta zeta. rewrite !getPageNumber_getPage.
  rewrite !(get4upPos_g4 IW i ls) by (unfold fits; lia).
  unwrap IW. unfold p4top. cbv zeta. rewrite !fst_if. cbn [fst].
  assert (Hg : 0 <= g4 ls i <= 3) by (unfold g4; destruct ls; lia).
  split_ifs; try reflexivity; f_equal; lia.
Qed.

Lemma p4top_range ls n i : n mod 8 = 0 -> 0 <= i < n -> 0 <= p4top ls n i < n.
Proof. intros Hn Hi. unfold p4top, g4. destruct ls; split_ifs; lia. Qed.

Lemma p4top_inj ls n i j : n mod 8 = 0 -> 0 <= i < n -> 0 <= j < n -> p4top ls n i = p4top ls n j -> i = j.
Proof. intros Hn Hi Hj. unfold p4top, g4. destruct ls; split_ifs; lia. Qed.

Definition p4adv (ls : bool) (n i : Z) : Z :=
  let b := i / 4 in
  if b mod 2 =? 0 then
    (if i mod 4 =? 0 then n - 1 - b else if i mod 4 =? 1 then b else if i mod 4 =? 2 then n / 2 + b else n / 2 - 1 - b)
  else
    (if g4 ls i =? 0 then b else if g4 ls i =? 1 then n - 1 - b else if g4 ls i =? 2 then n / 2 - 1 - b else n / 2 + b).

Lemma nup4adv_idx IW i n pages bt ls nn tf : fits IW n -> 0 <= i < n ->
  fst (nup4AdvancedSideFoldOutputPageNr IW i n pages bt ls nn tf) = getPage pages (p4adv ls n i).
Proof.
  intros Hf Hi. start_idx IW Hf.
  unfold nup4AdvancedSideFoldOutputPageNr. cbv beta zeta. rewrite !getPageNumber_getPage.
  rewrite !(get4upPos_g4 IW i ls) by (unfold fits; lia).
  unwrap IW. unfold p4adv. cbv zeta. rewrite !fst_if. cbn [fst].
  assert (Hg : 0 <= g4 ls i <= 3) by (unfold g4; destruct ls; lia).
  split_ifs; try reflexivity; f_equal; lia.
Qed.

Lemma p4adv_range ls n i : n mod 8 = 0 -> 0 <= i < n -> 0 <= p4adv ls n i < n.
Proof. intros Hn Hi. unfold p4adv, g4. destruct ls; split_ifs; lia. Qed.

Lemma p4adv_inj ls n i j : n mod 8 = 0 -> 0 <= i < n -> 0 <= j < n -> p4adv ls n i = p4adv ls n j -> i = j.
Proof. intros Hn Hi Hj. unfold p4adv, g4. destruct ls; split_ifs; lia. Qed.

(* nup4OutputPageNr: the dispatch on type and fold *)
Definition p4 (bt : Z) (ls tf : bool) (n i : Z) : Z :=
  if bt =? 0 then (if tf then p4top ls n i else p4side ls n i) else p4adv ls n i.

Lemma nup4_idx IW i n pages bt ls nn tf : fits IW n -> 0 <= i < n -> bt = 0 \/ bt = 1 ->
  fst (nup4OutputPageNr IW i n pages bt ls nn tf) = getPage pages (p4 bt ls tf n i).
Proof.
  intros Hf Hi Hbt. unfold nup4OutputPageNr, p4.
  destruct Hbt as [-> | ->]; cbn [Z.eqb Pos.eqb].
  - destruct tf; [apply nup4top_idx | apply nup4side_idx]; assumption.
  - apply nup4adv_idx; assumption.
Qed.

Lemma p4_range bt ls tf n i : n mod 8 = 0 -> 0 <= i < n -> 0 <= p4 bt ls tf n i < n.
Proof.
  intros Hn Hi. unfold p4. destruct (bt =? 0); [destruct tf|];
  [apply p4top_range | apply p4side_range | apply p4adv_range]; assumption.
Qed.

Lemma p4_inj bt ls tf n i j : n mod 8 = 0 -> 0 <= i < n -> 0 <= j < n -> p4 bt ls tf n i = p4 bt ls tf n j -> i = j.
Proof.
  intros Hn Hi Hj. unfold p4. destruct (bt =? 0); [destruct tf|];
  [apply p4top_inj | apply p4side_inj | apply p4adv_inj]; assumption.
Qed.

(* ---- left-to-right, top-to-bottom (6-up; 8-up short edge) *)
Definition pLRTB (N n i : Z) : Z :=
  let s := i / (2 * N) in
  if (i / N) mod 2 =? 0 then
    (if i mod 2 =? 0 then n - N * s - i mod N - 1 else N * s + i mod N - 1)
  else
    (if i mod 2 =? 0 then 2 + N * s + i mod N - 1 else n - N * s - i mod N - 1).

Lemma nupLRTB_idx IW i n pages bt ls nn tf : fits IW n -> 0 <= i < n -> nn = 6 \/ nn = 8 ->
  fst (nupLRTBOutputPageNr IW i n pages bt ls nn tf) = getPage pages (pLRTB nn n i).
Proof.
  intros Hf Hi HN. start_idx IW Hf.
  unfold nupLRTBOutputPageNr. cbv beta zeta. rewrite !getPageNumber_getPage.
  destruct HN as [-> | ->]; unwrap IW; unfold pLRTB; cbv zeta; rewrite ?fst_if; cbn [fst];
  split_ifs; try reflexivity; f_equal; lia.
Qed.

Lemma pLRTB6_range n i : n mod 12 = 0 -> 0 <= i < n -> 0 <= pLRTB 6 n i < n.
Proof. intros Hn Hi. unfold pLRTB. cbv zeta. split_ifs; lia. Qed.
Lemma pLRTB6_inj n i j : n mod 12 = 0 -> 0 <= i < n -> 0 <= j < n -> pLRTB 6 n i = pLRTB 6 n j -> i = j.
Proof. intros Hn Hi Hj. unfold pLRTB. cbv zeta. split_ifs; lia. Qed.
Lemma pLRTB8_range n i : n mod 16 = 0 -> 0 <= i < n -> 0 <= pLRTB 8 n i < n.
Proof. intros Hn Hi. unfold pLRTB. cbv zeta. split_ifs; lia. Qed.
Lemma pLRTB8_inj n i j : n mod 16 = 0 -> 0 <= i < n -> 0 <= j < n -> pLRTB 8 n i = pLRTB 8 n j -> i = j.
Proof. intros Hn Hi Hj. unfold pLRTB. cbv zeta. split_ifs; lia. Qed.
