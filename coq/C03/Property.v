(* C03 — Successful operations publish exactly and only the result.
   Property theorems only; each is closed by an exact lemma and followed by Print Assumptions.

   Model (C03/Model.v): directory entries bound to inodes; a path string = (entry, spelling); hard links =
   two entries with one inode; symbolic links = entry -> entry, followed by open/stat, not by rename/O_EXCL.
   `api_i rd inF outF body s` is the success path of the *File skeleton of pkg/api (open the input `rd`,
   openStagedOutput(inFile, outFile), body = any interleaving of reads from the input descriptor and writes
   to the output descriptor, commit).  fresh_ent / fresh_ino: any supplies of unused entry names / inode
   numbers.  `api_dest inF outF` is the path string the result is published under. *)
From stdpp Require Import gmap.
From Coq Require Import NArith List.
From Coq Require Import String.
From PV Require Import C01.FS C03.Model C03.Generated C03.Proofs C03.ProofsTable.
Open Scope list_scope.

Section Statements.
Variable fresh_ent : gmap positive dent -> positive.
Variable fresh_ino : gmap positive file -> positive.
(* the process umask: files are created with perm &^ umask (create_mode); explicit chmods ignore it *)
Variable umask : N.
Hypothesis Hfe : forall d, d !! fresh_ent d = None.
Hypothesis Hfi : forall m, m !! fresh_ino m = None.
Notation api_i := (api_i fresh_ent fresh_ino umask).

(* success_publishes: on Ok the destination name is bound to an inode that holds exactly the output;
   its mode is the mode the destination had before (through symlinks) if the name existed — WHATEVER the
   umask —, else 0666 &^ umask;
   every other name is bound as before — in particular no staging name remains *)
Theorem success_publishes : forall rd inF outF b s0 s',
  api_i rd inF outF b s0 = ROk tt s' ->
  exists d md inew, api_dest inF outF = Some d /\ mode_rule umask s0 d md /\
    idir s' !! sp_ent d = Some (DFile inew) /\ inos s' !! inew = Some (File (output_of b) md) /\
    (forall e, e <> sp_ent d -> idir s' !! e = idir s0 !! e).
Proof. exact (success_publishes_proof fresh_ent fresh_ino umask Hfe Hfi). Qed.

(* preexisting_inodes_never_written: every write/chmod of the run hits an inode that did not exist
   before, and every pre-existing inode keeps its bytes and mode *)
Theorem preexisting_inodes_never_written : forall rd inF outF b s0 s',
  wlog s0 = [] ->
  api_i rd inF outF b s0 = ROk tt s' ->
  (forall i, In i (wlog s') -> inos s0 !! i = None) /\
  (forall i f, inos s0 !! i = Some f -> inos s' !! i = Some f).
Proof. exact (preexisting_inodes_never_written_proof fresh_ent fresh_ino umask Hfe Hfi). Qed.

(* distinct_input_unchanged: an input (regular file) named differently from the destination — also when
   the destination is a hard link or a symlink to it — is bound to the same inode with the same bytes and mode *)
Theorem distinct_input_unchanged : forall x inF outF b s0 s' d i f,
  wlog s0 = [] ->
  api_i (Some x) inF outF b s0 = ROk tt s' ->
  api_dest inF outF = Some d -> sp_ent x <> sp_ent d ->
  idir s0 !! sp_ent x = Some (DFile i) -> inos s0 !! i = Some f ->
  idir s' !! sp_ent x = Some (DFile i) /\ inos s' !! i = Some f.
Proof. exact (distinct_input_unchanged_proof fresh_ent fresh_ino umask Hfe Hfi). Qed.

(* alias_never_corrupts_read: whatever the relation between input and output paths, everything the body
   reads through the input descriptor, at any moment of the run, is the original content of the input *)
Theorem alias_never_corrupts_read : forall x inF outF b s0 s',
  reads s0 = [] ->
  api_i (Some x) inF outF b s0 = ROk tt s' ->
  exists i fin, resolve (idir s0) (sp_ent x) = Some i /\ inos s0 !! i = Some fin /\
    forall r, In r (reads s') -> r = Some (fdata fin).
Proof. exact (alias_never_corrupts_read_proof fresh_ent fresh_ino umask Hfe Hfi). Qed.

(* alias_is_inplace: when the output is another name of the input's inode (another spelling, a hard link,
   a symlink), the run IS the in-place update of the output name: same result, same final filesystem, same reads *)
Theorem alias_is_inplace : forall x o b s i,
  resolve (idir s) (sp_ent x) = Some i -> resolve (idir s) (sp_ent o) = Some i ->
  api_i (Some x) (Some x) (Some o) b s = api_i (Some o) (Some o) None b s.
Proof. exact (alias_is_inplace_proof fresh_ent fresh_ino umask). Qed.

(* … and for another spelling of the same entry ("./x", absolute vs relative) it is the in-place update of the input *)
Theorem alias_spelling_is_inplace : forall x o b s i,
  sp_ent o = sp_ent x -> resolve (idir s) (sp_ent x) = Some i ->
  api_i (Some x) (Some x) (Some o) b s = api_i (Some x) (Some x) None b s.
Proof. exact (alias_spelling_is_inplace_proof fresh_ent fresh_ino umask). Qed.

(* CopyFile onto another name of the same file changes nothing *)
Theorem copy_same_file_noop : forall src dst s i f,
  resolve (idir s) (sp_ent src) = Some i -> resolve (idir s) (sp_ent dst) = Some i -> inos s !! i = Some f ->
  copy_file_i fresh_ent fresh_ino umask src dst s = ROk tt s.
Proof. exact (copy_same_file_noop_proof fresh_ent fresh_ino umask). Qed.

(* the pkg/pdfcpu write path (createStagedFile + finishStagedFile: WriteReader, WriteContext's file path —
   split / extract / …): on Ok the name is bound to a new inode holding exactly the output; an existing
   regular destination keeps its mode whatever the umask (the staging file is created with 0666 &^ umask and
   then chmod-ed to the destination's mode), a new destination gets 0666 &^ umask *)
Theorem write_reader_publishes : forall path b s0 s',
  sp_ent path <> fresh_ent (idir s0) ->
  write_reader_i fresh_ent fresh_ino umask path b s0 = ROk tt s' ->
  exists md, idir s' = <[sp_ent path := DFile (fresh_ino (inos s0))]> (idir s0) /\
    inos s' = <[fresh_ino (inos s0) := File (output_of b) md]> (inos s0) /\
    (forall i f, idir s0 !! sp_ent path = Some (DFile i) -> inos s0 !! i = Some f -> md = fmode f) /\
    (idir s0 !! sp_ent path = None -> md = perm_new umask).
Proof. exact (write_reader_publishes_proof fresh_ent fresh_ino umask Hfe Hfi). Qed.

(* incremental writing (AddAnnotationsFile / AddAnnotationsMapFile / RemoveAnnotationsFile with incr = true):
   with a distinctly spelled output the run is the ordinary staged-output run (incr is ignored by the code): the
   output is published and the distinctly named input is untouched … *)
Theorem incr_distinct_input_unchanged : forall x o b s0 s' i f,
  wlog s0 = [] -> sp_ent x <> sp_ent o ->
  incr_api_i fresh_ent fresh_ino umask x (Some o) b s0 = ROk tt s' ->
  idir s0 !! sp_ent x = Some (DFile i) -> inos s0 !! i = Some f ->
  (idir s' !! sp_ent x = Some (DFile i) /\ inos s' !! i = Some f) /\
  exists md inew, idir s' !! sp_ent o = Some (DFile inew) /\ inos s' !! inew = Some (File (output_of b) md).
Proof. exact (incr_distinct_input_unchanged_proof fresh_ent fresh_ino umask Hfe Hfi). Qed.

(* … and with outFile "" or the same string the increment is appended to the input's own inode *)
Theorem incr_inplace_appends : forall x outF b s0 s',
  (outF = None \/ outF = Some x) ->
  incr_api_i fresh_ent fresh_ino umask x outF b s0 = ROk tt s' ->
  exists i f, resolve (idir s0) (sp_ent x) = Some i /\ inos s0 !! i = Some f /\
    idir s' = idir s0 /\ inos s' = <[i := File (fdata f ++ output_of b) (fmode f)]> (inos s0).
Proof. exact (incr_inplace_appends_proof fresh_ent fresh_ino umask). Qed.

(* several inputs (image mode of grid / n-up / booklet, import images): a refused alias changes nothing … *)
Theorem multi_alias_refused : forall ins o b s,
  reject_alias ins o s = true ->
  multi_image_i fresh_ent fresh_ino umask ins o b s = RErr EEXIST s /\
  import_images_i fresh_ent fresh_ino umask ins o b s = RErr EEXIST s.
Proof. exact (multi_alias_refused_proof fresh_ent fresh_ino umask). Qed.

(* … and a run that is not refused and succeeds leaves the input at EVERY position unchanged *)
Theorem multi_inputs_unchanged : forall ins o b s0 s',
  wlog s0 = [] ->
  (multi_image_i fresh_ent fresh_ino umask ins o b s0 = ROk tt s' \/
   import_images_i fresh_ent fresh_ino umask ins o b s0 = ROk tt s') ->
  forall x i f, In x ins -> idir s0 !! sp_ent x = Some (DFile i) -> inos s0 !! i = Some f ->
  idir s' !! sp_ent x = Some (DFile i) /\ inos s' !! i = Some f.
Proof. exact (multi_inputs_unchanged_proof fresh_ent fresh_ino umask Hfe Hfi). Qed.
End Statements.

(* the alias check over the list of inputs refuses exactly when SOME input (at any position) is the same entry
   as the output or resolves to the same inode *)
Theorem reject_alias_spec : forall ins o s,
  reject_alias ins o s = true <->
  exists x, In x ins /\
    (sp_ent x = sp_ent o \/
     exists i fi fo, resolve (idir s) (sp_ent x) = Some i /\ resolve (idir s) (sp_ent o) = Some i /\
                     inos s !! i = Some fi /\ inos s !! i = Some fo).
Proof. exact reject_alias_spec_proof. Qed.

(* the alias loops of the sources (table regenerated on every run): each `for _, v := range files` loop that
   calls an …AliasesInput function passes its loop variable v as the input and never as the output *)
Theorem alias_loops_use_loop_variable :
  forallb (fun r => snd r) alias_loops = true /\
  (forall f, In f ["rejectGridImageOutputAlias"; "rejectNUpImageOutputAlias"; "rejectBookletImageOutputAlias";
                   "validateImportImagesOutput"]%string -> In f (map fst alias_loops)).
Proof. exact alias_loops_proof. Qed.

(* outputAliasesInput is exact: true iff same entry after Abs, or both exist and resolve to one inode *)
Theorem output_aliases_input_spec : forall x o s,
  output_aliases_input x o s = true <->
  (sp_ent x = sp_ent o \/
   exists i fi fo, resolve (idir s) (sp_ent x) = Some i /\ resolve (idir s) (sp_ent o) = Some i /\
                   inos s !! i = Some fi /\ inos s !! i = Some fo).
Proof. exact output_aliases_input_spec_proof. Qed.

Print Assumptions success_publishes.
Print Assumptions preexisting_inodes_never_written.
Print Assumptions distinct_input_unchanged.
Print Assumptions alias_never_corrupts_read.
Print Assumptions alias_is_inplace.
Print Assumptions alias_spelling_is_inplace.
Print Assumptions copy_same_file_noop.
Print Assumptions write_reader_publishes.
Print Assumptions incr_distinct_input_unchanged.
Print Assumptions incr_inplace_appends.
Print Assumptions multi_alias_refused.
Print Assumptions multi_inputs_unchanged.
Print Assumptions reject_alias_spec.
Print Assumptions alias_loops_use_loop_variable.
Print Assumptions output_aliases_input_spec.

(* non-vacuity: entry 2 = in.pdf (inode 10, bytes 7 7, mode 0640), entry 3 = symlink -> 2, entry 4 = hard
   link of inode 10.  Output through the symlink: the run succeeds, entry 3 becomes a regular file with the
   output and the input's mode, entry 2 and inode 10 are untouched, both reads saw 7 7.  Output "./in.pdf":
   entry 2 is re-bound.  The supplies used for extraction satisfy the hypotheses. *)
Definition ex_s : ist :=
  mk_state [(2%positive, DFile 10); (3%positive, DLink 2); (4%positive, DFile 10)] [(10%positive, File [7%N; 7%N] 416)].
Definition ex_body := [BRead; BWrite [1%N]; BRead; BWrite [2%N]].
Definition ex_look (r : rr unit) (e : positive) : option dent * option file :=
  match r with
  | ROk _ s => (idir s !! e, match idir s !! e with Some (DFile i) => inos s !! i | _ => None end)
  | RErr _ _ => (None, None)
  end.
Definition ex_reads (r : rr unit) : list (option bytes) := match r with ROk _ s => reads s | RErr _ _ => [] end.
Example C03_nonvacuous :
  (forall d, d !! fresh_ent_hi d = None) /\ (forall m, m !! fresh_ino_hi m = None) /\
  let r := run_api_i 18 (Some (Sp 2 0)) (Some (Sp 2 0)) (Some (Sp 3 0)) ex_body ex_s in
  ex_look r 3 = (Some (DFile 64), Some (File [1%N; 2%N] 416)) /\
  ex_look r 2 = (Some (DFile 10), Some (File [7%N; 7%N] 416)) /\
  ex_look r 4 = (Some (DFile 10), Some (File [7%N; 7%N] 416)) /\
  ex_look r 64 = (None, None) /\
  ex_reads r = [Some [7%N; 7%N]; Some [7%N; 7%N]] /\
  let r2 := run_api_i 63 (Some (Sp 2 0)) (Some (Sp 2 0)) (Some (Sp 2 1)) ex_body ex_s in
  ex_look r2 2 = (Some (DFile 64), Some (File [1%N; 2%N] 416)) /\
  ex_look r2 4 = (Some (DFile 10), Some (File [7%N; 7%N] 416)) /\
  output_aliases_input (Sp 2 0) (Sp 3 0) ex_s = true /\ output_aliases_input (Sp 2 0) (Sp 4 0) ex_s = true /\
  output_aliases_input (Sp 2 0) (Sp 5 0) ex_s = false /\
  (* an output that is another spelling of the SECOND input is refused; a fresh one is not *)
  reject_alias [Sp 5 0; Sp 2 0] (Sp 2 1) ex_s = true /\ reject_alias [Sp 5 0; Sp 2 0] (Sp 4 0) ex_s = true /\
  reject_alias [Sp 5 0; Sp 2 0] (Sp 6 0) ex_s = false /\
  (* a group/other-writable destination (0664) keeps its mode under umask 022 and 077; a new one gets 0666 &^ umask *)
  (let s664 := mk_state [(2%positive, DFile 10)] [(10%positive, File [7%N] 436)] in
   ex_look (run_write_reader_i 18 (Sp 2 0) [BWrite [1%N]] s664) 2 = (Some (DFile 64), Some (File [1%N] 436)) /\
   ex_look (run_write_reader_i 63 (Sp 2 0) [BWrite [1%N]] s664) 2 = (Some (DFile 64), Some (File [1%N] 436)) /\
   ex_look (run_api_i 63 None None (Some (Sp 2 0)) [BWrite [1%N]] s664) 2 = (Some (DFile 64), Some (File [1%N] 436)) /\
   ex_look (run_write_reader_i 18 (Sp 3 0) [BWrite [1%N]] s664) 3 = (Some (DFile 64), Some (File [1%N] 420)) /\
   ex_look (run_write_reader_i 63 (Sp 3 0) [BWrite [1%N]] s664) 3 = (Some (DFile 64), Some (File [1%N] 384))).
Proof.
  split; [exact fresh_ent_hi_spec|]. split; [exact fresh_ino_hi_spec|].
  repeat split; vm_compute; reflexivity.
Qed.
