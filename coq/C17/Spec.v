(* C17 — the specification, written from the standards and independently of the code.

   PNG (RFC 2083, section 6 "Filter Algorithms"):
     - filtering works on BYTES, whatever the bit depth; bpp is "the number of bytes per
       complete pixel, rounding up" (at least one);
     - x ranges over the bytes of a scanline, Raw(x) is the reconstructed byte, Prior(x)
       the reconstructed byte at the same position of the previous scanline;
       "for all x < 0, assume Raw(x) = 0" and Prior(x) = 0; "on the first scanline of an
       image, assume Prior(x) = 0 for all x";
     - type 0 None    Raw(x) = Filt(x)
       type 1 Sub     Raw(x) = Filt(x) + Raw(x-bpp)
       type 2 Up      Raw(x) = Filt(x) + Prior(x)
       type 3 Average Raw(x) = Filt(x) + floor((Raw(x-bpp) + Prior(x)) / 2)   (sum without overflow)
       type 4 Paeth   Raw(x) = Filt(x) + PaethPredictor(Raw(x-bpp), Prior(x), Prior(x-bpp))
       all "unsigned arithmetic modulo 256";
     - any other filter type is invalid.
   TIFF 6.0, section 14 "Differencing Predictor" (Predictor = 2): horizontal differencing of
   SAMPLES: each sample of BitsPerSample bits has had the sample of the same component of the
   pixel to its left subtracted; decoding adds it back, modulo 2^BitsPerSample. Samples are
   packed most significant bit first, every row starts on a byte boundary.
   No proofs in this file. *)
From Coq Require Import ZArith NArith List Bool.
Import ListNotations.

(* ---------- RFC 2083 6.6: the Paeth predictor, verbatim ---------- *)
Definition PaethPredictor (a b c : N) : N :=
  let p := (Z.of_N a + Z.of_N b - Z.of_N c)%Z in      (* initial estimate *)
  let pa := Z.abs (p - Z.of_N a) in                   (* distances to a, b, c *)
  let pb := Z.abs (p - Z.of_N b) in
  let pc := Z.abs (p - Z.of_N c) in
  (* return nearest of a,b,c, breaking ties in order a,b,c *)
  if ((pa <=? pb) && (pa <=? pc))%Z then a
  else if (pb <=? pc)%Z then b
  else c.

(* the predicted value for filter type ft from a = Raw(x-bpp), b = Prior(x), c = Prior(x-bpp) *)
Definition predict (ft a b c : N) : N :=
  match ft with
  | 0 => 0
  | 1 => a
  | 2 => b
  | 3 => (a + b) / 2
  | 4 => PaethPredictor a b c
  | _ => 0
  end%N.

(* l(x-bpp), 0 for x-bpp < 0 *)
Definition before (l : list N) (x bpp : nat) : N :=
  if (x <? bpp)%nat then 0%N else nth (x - bpp) l 0%N.

(* Raw(x) of a scanline with filter type ft; Raw(x) refers to Raw(x-bpp): recursion on x
   (fuel > x is enough since bpp >= 1) *)
Fixpoint raw_at (ft : N) (bpp : nat) (filt prior : list N) (fuel x : nat) : N :=
  match fuel with
  | O => 0%N
  | S f =>
    let a := if (x <? bpp)%nat then 0%N else raw_at ft bpp filt prior f (x - bpp) in
    ((nth x filt 0 + predict ft a (nth x prior 0) (before prior x bpp)) mod 256)%N
  end.

Definition unfilter_row (ft : N) (bpp : nat) (filt prior : list N) : list N :=
  map (fun x => raw_at ft bpp filt prior (S x) x) (seq 0 (length filt)).

(* a sequence of scanlines, each  filter-type byte :: filtered bytes ; None = invalid filter type *)
Fixpoint unfilter_rows (bpp : nat) (prior : list N) (rows : list (list N)) : option (list N) :=
  match rows with
  | [] => Some []
  | [] :: _ => None
  | (ft :: filt) :: rest =>
    if (ft <=? 4)%N then
      let raw := unfilter_row ft bpp filt prior in
      match unfilter_rows bpp raw rest with
      | Some out => Some (raw ++ out)
      | None => None
      end
    else None
  end.

(* smallest k with 8*k >= bits *)
Definition ceil8 (bits : Z) : Z := (if bits mod 8 =? 0 then bits / 8 else bits / 8 + 1)%Z.
(* bytes per complete pixel, rounding up *)
Definition spec_bpp (colors bpc : Z) : Z := ceil8 (colors * bpc).
(* bytes per scanline: rows start on byte boundaries *)
Definition spec_rowbytes (colors bpc columns : Z) : Z := ceil8 (colors * bpc * columns).

Definition spec_png (colors bpc columns : Z) (rows : list (list N)) : option (list N) :=
  unfilter_rows (Z.to_nat (spec_bpp colors bpc)) (repeat 0%N (Z.to_nat (spec_rowbytes colors bpc columns))) rows.

(* ---------- TIFF 6.0 section 14 ---------- *)
(* w bits of v, most significant first *)
Fixpoint bits_of (w : nat) (v : N) : list bool :=
  match w with
  | O => []
  | S w' => N.testbit v (N.of_nat w') :: bits_of w' v
  end.
Definition val_of (bs : list bool) : N :=
  fold_left (fun acc (b : bool) => (2 * acc + (if b then 1 else 0))%N) bs 0%N.
(* the first n groups of w bits as numbers *)
Fixpoint take_samples (n w : nat) (bs : list bool) : list N :=
  match n with
  | O => []
  | S n' => val_of (firstn w bs) :: take_samples n' w (skipn w bs)
  end.

(* decoded sample x = (stored sample x + decoded sample x-colors) mod M, the first pixel is stored as is *)
Fixpoint undiff_at (M : N) (colors : nat) (s : list N) (fuel x : nat) : N :=
  match fuel with
  | O => 0%N
  | S f =>
    let left := if (x <? colors)%nat then 0%N else undiff_at M colors s f (x - colors) in
    ((nth x s 0 + left) mod M)%N
  end.

(* one row: unpack columns*colors samples of bpc bits, undo the differencing, repack;
   padding bits at the end of the row are kept *)
Definition tiff_row (colors bpc columns : nat) (row : list N) : list N :=
  let bits := flat_map (bits_of 8) row in
  let n := (columns * colors)%nat in
  let s := take_samples n bpc bits in
  let pad := skipn (n * bpc) bits in
  let s' := map (fun x => undiff_at (2 ^ N.of_nat bpc) colors s (S x) x) (seq 0 n) in
  take_samples (length row) 8 (flat_map (bits_of bpc) s' ++ pad).

Definition spec_tiff (colors bpc columns : Z) (rows : list (list N)) : list N :=
  concat (map (tiff_row (Z.to_nat colors) (Z.to_nat bpc) (Z.to_nat columns)) rows).
