// Harness for C30: pdfcpu's outbound fetch policy (revocation CRL/OCSP fetches and remote images)
// against the Coq model, plus the direct oracle "no dialled address is loopback, private,
// link-local, multicast or unspecified unless the host is allow-listed".
//
// No real network is used: the revocation dial context gets a fake resolver and a recording
// dialer; the image-box dial context (which hard-wires net.DefaultResolver and *net.Dialer) is
// driven with IP-literal hosts only (resolved by the Go resolver without DNS) and a net.Dialer
// whose Control hook records the address and refuses before connect(2); the end-to-end redirect
// chains run the real *http.Client over in-memory pipes.
package main

import (
	"bufio"
	"context"
	"encoding/hex"
	"errors"
	"fmt"
	"io"
	"math/big"
	"net"
	"net/http"
	"net/netip"
	"net/url"
	"strings"
	"sync"
	"syscall"
	"time"

	"github.com/pdfcpu/pdfcpu/pkg/pdfcpu/primitives"
	"github.com/pdfcpu/pdfcpu/pkg/pdfcpu/sign"
	"verif/vh"
)

var r *vh.Run

// ---------------------------------------------------------------- independent oracle spec
// (net/netip prefixes; shares nothing with net.IP's Is* methods nor with pdfcpu)

var specPrefixes = func() []netip.Prefix {
	var l []netip.Prefix
	for _, s := range []string{
		"127.0.0.0/8", "10.0.0.0/8", "172.16.0.0/12", "192.168.0.0/16", "169.254.0.0/16", "224.0.0.0/4", "0.0.0.0/32",
		"::1/128", "::/128", "fc00::/7", "fe80::/10", "ff00::/8"} {
		l = append(l, netip.MustParsePrefix(s))
	}
	return l
}()

func goSpec(ip []byte) bool {
	a, ok := netip.AddrFromSlice(ip)
	if !ok {
		return false
	}
	if a.Is4In6() {
		a = a.Unmap()
	}
	for _, p := range specPrefixes {
		if p.Contains(a) {
			return true
		}
	}
	return false
}

// what a dialer that parses the target text again sees
func canonTarget(ip []byte) []byte {
	a, ok := netip.AddrFromSlice(ip)
	if !ok {
		return ip
	}
	return a.Unmap().AsSlice()
}

func parseTargetHost(h string) ([]byte, bool) {
	if h == "<nil>" {
		return []byte{}, true
	}
	if strings.HasPrefix(h, "?") {
		b, err := hex.DecodeString(h[1:])
		return b, err == nil
	}
	a, err := netip.ParseAddr(h)
	if err != nil {
		return nil, false
	}
	return a.Unmap().AsSlice(), true
}

// independent host canonicalisation (byte loops; no strings.ToLower/TrimSpace/TrimSuffix)
func canonHost(s string) string {
	b := []byte(s)
	sp := func(c byte) bool { return c == ' ' || (c >= 9 && c <= 13) }
	for len(b) > 0 && sp(b[0]) {
		b = b[1:]
	}
	for len(b) > 0 && sp(b[len(b)-1]) {
		b = b[:len(b)-1]
	}
	if len(b) > 0 && b[len(b)-1] == '.' {
		b = b[:len(b)-1]
	}
	o := make([]byte, len(b))
	for i, c := range b {
		if c >= 'A' && c <= 'Z' {
			c += 'a' - 'A'
		}
		o[i] = c
	}
	return string(o)
}

func hostAllowed(hosts []string, host string) bool {
	h := canonHost(host)
	if h == "" {
		return false
	}
	for _, x := range hosts {
		if canonHost(x) == h {
			return true
		}
	}
	return false
}

// ---------------------------------------------------------------- wire helpers

func ipList(l [][]byte) string {
	s := make([]string, len(l))
	for i, a := range l {
		s[i] = "x" + vh.Hex(a)
	}
	return strings.Join(s, ",")
}
func hostList(l []string) string {
	s := make([]string, len(l))
	for i, a := range l {
		s[i] = "h" + vh.Hex([]byte(a))
	}
	return strings.Join(s, ",")
}
func answerArg(ips [][]byte, fail bool) string {
	if fail {
		return "E"
	}
	return "A" + ipList(ips)
}
func scriptArg(sc []bool) string {
	b := make([]byte, len(sc))
	for i, v := range sc {
		b[i] = '0'
		if v {
			b[i] = '1'
		}
	}
	return string(b)
}
func addrs(l [][]byte) []net.IPAddr {
	o := make([]net.IPAddr, len(l))
	for i, a := range l {
		o[i] = net.IPAddr{IP: net.IP(a)}
		if len(a) == 16 && r.Rand.Intn(8) == 0 {
			o[i].Zone = "eth0"
		}
	}
	return o
}

// ---------------------------------------------------------------- address generators

func be(v *big.Int, n int) []byte {
	b := v.Bytes()
	o := make([]byte, n)
	if len(b) > n {
		b = b[len(b)-n:]
	}
	copy(o[n-len(b):], b)
	return o
}

func mapped(v4 []byte) []byte {
	o := make([]byte, 16)
	o[10], o[11] = 0xff, 0xff
	copy(o[12:], v4)
	return o
}

// first, last, first-1, last+1 of every block the property names, and of neighbouring
// special-purpose blocks
func boundaryAddrs() [][]byte {
	var out [][]byte
	blocks := []string{"127.0.0.0/8", "10.0.0.0/8", "172.16.0.0/12", "192.168.0.0/16", "169.254.0.0/16", "224.0.0.0/4",
		"224.0.0.0/24", "0.0.0.0/32", "0.0.0.0/8", "100.64.0.0/10", "240.0.0.0/4", "255.255.255.255/32", "192.0.0.0/24", "198.18.0.0/15",
		"::1/128", "::/128", "fc00::/7", "fd00::/8", "fe80::/10", "fec0::/10", "ff00::/8", "ff01::/16", "ff02::/16", "ff0e::/16",
		"::ffff:0:0/96", "64:ff9b::/96", "2002::/16", "2001:db8::/32", "::/96"}
	for _, s := range blocks {
		p := netip.MustParsePrefix(s)
		n := len(p.Addr().AsSlice())
		first := new(big.Int).SetBytes(p.Addr().AsSlice())
		size := new(big.Int).Lsh(big.NewInt(1), uint(n*8-p.Bits()))
		last := new(big.Int).Sub(new(big.Int).Add(first, size), big.NewInt(1))
		mod := new(big.Int).Lsh(big.NewInt(1), uint(n*8))
		for _, v := range []*big.Int{first, last, new(big.Int).Sub(first, big.NewInt(1)), new(big.Int).Add(last, big.NewInt(1)),
			new(big.Int).Add(first, big.NewInt(1)), new(big.Int).Sub(last, big.NewInt(1))} {
			w := new(big.Int).Mod(v, mod)
			a := be(w, n)
			out = append(out, a)
			if n == 4 {
				out = append(out, mapped(a))
				for _, pre := range []string{"64:ff9b::", "::", "2002::"} { // NAT64, IPv4-compatible, (pseudo) 6to4 tail
					e := netip.MustParseAddr(pre).AsSlice()
					copy(e[12:], a)
					out = append(out, e)
				}
				six := netip.MustParseAddr("2002::").AsSlice() // real 6to4: 2002:AABB:CCDD::
				copy(six[2:6], a)
				out = append(out, six)
			}
		}
	}
	return out
}

var v4Interesting = []byte{0, 1, 9, 10, 11, 100, 126, 127, 128, 168, 169, 170, 171, 172, 173, 191, 192, 193, 198, 223, 224, 225, 239, 240, 254, 255}
var b2Interesting = []byte{0, 1, 15, 16, 17, 31, 32, 63, 64, 127, 128, 167, 168, 169, 253, 254, 255}

func randV4() []byte {
	a := make([]byte, 4)
	r.Rand.Read(a)
	if r.Rand.Intn(3) > 0 {
		a[0] = v4Interesting[r.Rand.Intn(len(v4Interesting))]
	}
	if r.Rand.Intn(3) == 0 {
		a[1] = b2Interesting[r.Rand.Intn(len(b2Interesting))]
	}
	if r.Rand.Intn(6) == 0 {
		a[2] = 0
	}
	if r.Rand.Intn(6) == 0 {
		a[3] = byte(r.Rand.Intn(2))
	}
	return a
}

func randV6() []byte {
	a := make([]byte, 16)
	r.Rand.Read(a)
	switch r.Rand.Intn(10) {
	case 0:
		a[0] = []byte{0xfb, 0xfc, 0xfd, 0xfe, 0xff, 0x00, 0x20}[r.Rand.Intn(7)]
	case 1:
		a[0] = 0xfe
		a[1] = byte(r.Rand.Intn(256))
	case 2:
		a[0] = 0xff
		a[1] = byte(r.Rand.Intn(16))
	case 3: // almost mapped: one byte of the prefix off
		copy(a, mapped(randV4()))
		a[r.Rand.Intn(12)] ^= byte(1 << uint(r.Rand.Intn(8)))
	case 4: // sparse
		for i := 0; i < 15; i++ {
			a[i] = 0
		}
		a[15] = byte(r.Rand.Intn(3))
		if r.Rand.Intn(2) == 0 {
			a[r.Rand.Intn(16)] = byte(r.Rand.Intn(256))
		}
	case 5:
		return mapped(randV4())
	}
	return a
}

func randPublic() []byte {
	for {
		var a []byte
		switch r.Rand.Intn(3) {
		case 0:
			a = randV4()
		case 1:
			a = randV6()
		default:
			a = mapped(randV4())
		}
		if !goSpec(a) {
			return a
		}
	}
}

func randPrivate(pool [][]byte) []byte {
	for {
		var a []byte
		if r.Rand.Intn(2) == 0 {
			a = pool[r.Rand.Intn(len(pool))]
		} else if r.Rand.Intn(2) == 0 {
			a = randV4()
			if r.Rand.Intn(2) == 0 {
				a = mapped(a)
			}
		} else {
			a = randV6()
		}
		if goSpec(a) {
			return a
		}
	}
}

func randAny(pool [][]byte) []byte {
	switch r.Rand.Intn(8) {
	case 0:
		return pool[r.Rand.Intn(len(pool))]
	case 1: // not an IP address length
		n := []int{0, 1, 3, 5, 12, 15, 17, 32}[r.Rand.Intn(8)]
		a := make([]byte, n)
		r.Rand.Read(a)
		return a
	case 2, 3:
		return randV4()
	case 4:
		return mapped(randV4())
	default:
		return randV6()
	}
}

// answer sets: all public / one private somewhere / mostly private / empty / arbitrary
func randAnswer(pool [][]byte) ([][]byte, string) {
	n := 1 + r.Rand.Intn(5)
	if r.Rand.Intn(25) == 0 {
		n = 8 + r.Rand.Intn(40)
	}
	var l [][]byte
	kind := ""
	switch r.Rand.Intn(10) {
	case 0:
		return nil, "empty"
	case 1, 2, 3, 4:
		kind = "all-public"
		for i := 0; i < n; i++ {
			l = append(l, randPublic())
		}
	case 5, 6, 7:
		kind = "one-private"
		for i := 0; i < n; i++ {
			l = append(l, randPublic())
		}
		l[r.Rand.Intn(n)] = randPrivate(pool)
	case 8:
		kind = "all-private"
		for i := 0; i < n; i++ {
			l = append(l, randPrivate(pool))
		}
	default:
		kind = "arbitrary"
		for i := 0; i < n; i++ {
			l = append(l, randAny(pool))
		}
	}
	return l, kind
}

// ---------------------------------------------------------------- host names

var baseHosts = []string{"crl.example.com", "ocsp.ca.test", "a", "intranet", "pki.corp.local", "x.y.z.example.org"}

func variant(h string) string {
	b := []byte(h)
	switch r.Rand.Intn(9) {
	case 0:
		for i := range b {
			if r.Rand.Intn(2) == 0 && b[i] >= 'a' && b[i] <= 'z' {
				b[i] -= 32
			}
		}
	case 1:
		b = append(b, '.')
	case 2:
		b = append(b, '.', '.')
	case 3:
		b = append([]byte(" \t"), b...)
		b = append(b, ' ')
	case 4:
		b = append(b, '.', ' ')
	case 5:
		b = append(b, ' ', '.')
	case 6:
		b = []byte(strings.ToUpper(string(b)) + ".")
	case 7:
		if len(b) > 1 {
			b = b[:len(b)-1] // a different name
		}
	}
	return string(b)
}

func randAllowList() []string {
	n := r.Rand.Intn(4)
	var l []string
	for i := 0; i < n; i++ {
		switch r.Rand.Intn(8) {
		case 0:
			l = append(l, "")
		case 1:
			l = append(l, " . ")
		case 2:
			l = append(l, ".")
		default:
			l = append(l, variant(baseHosts[r.Rand.Intn(len(baseHosts))]))
		}
	}
	return l
}

func randHost() string {
	switch r.Rand.Intn(12) {
	case 0:
		return ""
	case 1:
		return "."
	default:
		return variant(baseHosts[r.Rand.Intn(len(baseHosts))])
	}
}

// ---------------------------------------------------------------- fakes

var errResolve = errors.New("fake resolver: no such host")
var errDial = errors.New("fake dialer: connection refused")

type fakeResolver struct {
	mu      sync.Mutex
	table   map[string][]net.IPAddr   // nil entry = error
	seq     map[string][][]net.IPAddr // scripted: answer to the 1st, 2nd ... lookup (the last one repeats); nil = error
	nseq    map[string]int
	lookups []string
}

func (f *fakeResolver) LookupIPAddr(_ context.Context, host string) ([]net.IPAddr, error) {
	f.mu.Lock()
	defer f.mu.Unlock()
	f.lookups = append(f.lookups, host)
	if sets, ok := f.seq[host]; ok && len(sets) > 0 {
		if f.nseq == nil {
			f.nseq = map[string]int{}
		}
		i := f.nseq[host]
		f.nseq[host]++
		if i >= len(sets) {
			i = len(sets) - 1
		}
		if sets[i] == nil {
			return nil, errResolve
		}
		return sets[i], nil
	}
	ips, ok := f.table[host]
	if !ok || ips == nil {
		return nil, errResolve
	}
	return ips, nil
}

type dialRec struct {
	network, target string
}

type recDialer struct {
	mu     sync.Mutex
	script []bool
	calls  []dialRec
	accept func(net.Conn) // server side of a successful dial (nil: discard)
}

func (d *recDialer) dial(_ context.Context, network, target string) (net.Conn, error) {
	d.mu.Lock()
	i := len(d.calls)
	d.calls = append(d.calls, dialRec{network, target})
	ok := i < len(d.script) && d.script[i]
	d.mu.Unlock()
	if !ok {
		return nil, errDial
	}
	c, s := net.Pipe()
	if d.accept != nil {
		d.accept(s)
	} else {
		s.Close()
	}
	return c, nil
}

func guard(class string, input any, f func()) {
	defer func() {
		if e := recover(); e != nil {
			r.OracleFail("panic-"+class, input, fmt.Sprint(e))
		}
	}()
	f()
}

// decode the recorded dial targets; returns canonical addresses and ports
func decodeCalls(calls []dialRec) (targets [][]byte, ports []string, bad string) {
	for _, c := range calls {
		h, p, err := net.SplitHostPort(c.target)
		if err != nil {
			return nil, nil, "unsplittable target " + c.target
		}
		a, ok := parseTargetHost(h)
		if !ok {
			return nil, nil, "non-IP target " + c.target
		}
		targets = append(targets, a)
		ports = append(ports, p)
	}
	return
}

func contains(set [][]byte, a []byte) bool {
	for _, x := range set {
		if string(canonTarget(x)) == string(a) {
			return true
		}
	}
	return false
}

// the property itself, on one dial-context run
func dialOracle(who string, input map[string]any, allowed bool, answer [][]byte, targets [][]byte, ports []string, port string, networks []dialRec) {
	okAll := true
	fail := func(class, detail string) {
		okAll = false
		r.OracleFail(who+"-"+class, input, detail)
	}
	anyPrivate := false
	for _, a := range answer {
		if goSpec(a) {
			anyPrivate = true
		}
	}
	for i, t := range targets {
		if !contains(answer, t) {
			fail("dialled-unresolved-address", "target "+vh.Hex(t)+" is not in the resolver answer")
		}
		if !allowed && goSpec(t) {
			fail("dialled-private", "target "+vh.Hex(t)+" is loopback/private/link-local/multicast/unspecified and the host is not allow-listed")
		}
		if ports[i] != port {
			fail("port-changed", "dialled port "+ports[i]+" != "+port)
		}
		if networks[i].network != "tcp" {
			fail("network-changed", networks[i].network)
		}
	}
	if !allowed && anyPrivate && len(targets) > 0 {
		fail("dial-after-private-answer", "the answer contains a private/local address, yet something was dialled")
	}
	if okAll {
		r.OracleOK()
	}
}

// ---------------------------------------------------------------- streams

func classifyImpl(a []byte) string {
	ip := net.IP(a)
	b := vh.Bool
	to4 := "nil"
	if v := ip.To4(); v != nil {
		to4 = vh.Hex(v)
	}
	// the address as the dialer sees it: through the text form, as the dial contexts do
	tgt := "unparsable"
	if t, ok := parseTargetHost(ip.String()); ok {
		tgt = vh.Hex(t)
	}
	return strings.Join([]string{
		"rev=" + b(sign.VerifRevocationBlockedIP(ip)), "img=" + b(primitives.VerifImageBoxBlockedIP(ip)), "spec=" + b(goSpec(a)),
		"lo=" + b(ip.IsLoopback()), "pr=" + b(ip.IsPrivate()), "llu=" + b(ip.IsLinkLocalUnicast()),
		"llm=" + b(ip.IsLinkLocalMulticast()), "ilm=" + b(ip.IsInterfaceLocalMulticast()),
		"mc=" + b(ip.IsMulticast()), "un=" + b(ip.IsUnspecified()), "to4=" + to4, "target=" + tgt}, ",")
}

func classifyStream(pool [][]byte) {
	one := func(a []byte) {
		in := map[string]any{"fn": "classify", "ip": vh.Hex(a)}
		guard("classify", in, func() {
			r.Case("classify", []string{vh.Hex(a)}, classifyImpl(a))
			spec := goSpec(a)
			rev := sign.VerifRevocationBlockedIP(net.IP(a))
			img := primitives.VerifImageBoxBlockedIP(net.IP(a))
			switch {
			case spec && !rev:
				r.OracleFail("revocation-private-address-not-blocked", in, "spec says private/local, revocationBlockedIP says false")
			case spec && !img:
				r.OracleFail("imagebox-private-address-not-blocked", in, "spec says private/local, imageBoxBlockedIP says false")
			default:
				r.OracleOK()
			}
			switch {
			case len(a) != 4 && len(a) != 16:
				r.Count("class:addr-bad-length")
			case spec:
				r.Count("class:addr-private-or-local")
			default:
				r.Count("class:addr-public")
			}
		})
	}
	for _, a := range pool {
		one(a)
	}
	n := r.Pick(6000, 120000)
	for i := 0; i < n; i++ {
		one(randAny(pool))
	}
	// exhaustive small sub-domains: first two bytes of IPv4 (65536) in thorough, first byte x some second bytes in quick
	for a0 := 0; a0 < 256; a0++ {
		for a1 := 0; a1 < 256; a1++ {
			if !r.Thorough() && !(a1 < 2 || a1 > 253 || (a1 >= 15 && a1 <= 32) || a1 == 63 || a1 == 64 || a1 == 127 || a1 == 128 || (a1 >= 167 && a1 <= 169)) {
				continue
			}
			v4 := []byte{byte(a0), byte(a1), byte(r.Rand.Intn(2) * r.Rand.Intn(256)), byte(r.Rand.Intn(256))}
			if r.Rand.Intn(2) == 0 {
				one(v4)
			} else {
				one(mapped(v4))
			}
			// first two bytes of IPv6
			if r.Thorough() || a0 >= 0xf0 || a0 == 0 {
				v6 := make([]byte, 16)
				r.Rand.Read(v6)
				v6[0], v6[1] = byte(a0), byte(a1)
				one(v6)
			}
		}
	}
}

func hostStream() {
	n := r.Pick(1500, 20000)
	for i := 0; i < n; i++ {
		hosts := randAllowList()
		host := randHost()
		in := map[string]any{"fn": "allowed", "hosts": hosts, "host": host}
		guard("host", in, func() {
			r.Case("normalize", []string{vh.Hex([]byte(host))}, vh.Hex([]byte(sign.VerifNormalizeRevocationHost(host))))
			got := sign.VerifAllowedRevocationHostSet(hosts)[sign.VerifNormalizeRevocationHost(host)]
			r.Case("allowed", []string{hostList(hosts), vh.Hex([]byte(host))}, vh.Bool(got))
			want := hostAllowed(hosts, host)
			if got && !want {
				r.OracleFail("revocation-host-exempt-without-allowlist-entry", in, "host treated as allow-listed but no entry equals it up to case/space/one trailing dot")
			} else {
				r.OracleOK()
			}
			if got {
				r.Count("class:host-allowlisted")
			} else {
				r.Count("class:host-not-allowlisted")
			}
		})
	}
}

func revocationDialStream(pool [][]byte) {
	n := r.Pick(2500, 60000)
	for i := 0; i < n; i++ {
		hosts := randAllowList()
		host := randHost()
		if strings.ContainsAny(host, ":") {
			continue
		}
		answer, kind := randAnswer(pool)
		fail := r.Rand.Intn(20) == 0
		script := make([]bool, r.Rand.Intn(len(answer)+2))
		for j := range script {
			script[j] = r.Rand.Intn(3) == 0
		}
		port := []string{"80", "443", "8080"}[r.Rand.Intn(3)]
		in := map[string]any{"fn": "revdial", "allow": hosts, "host": host, "answer": ipList(answer), "resolver_error": fail, "script": scriptArg(script), "port": port}
		guard("revocation-dial", in, func() {
			// validateRevocationIPs alone
			verr := sign.VerifValidateRevocationIPs(host, addrs(answer), sign.VerifAllowedRevocationHostSet(hosts))
			r.Case("validateIPs", []string{hostList(hosts), vh.Hex([]byte(host)), ipList(answer)}, vh.Bool(verr == nil))

			res := &fakeResolver{table: map[string][]net.IPAddr{}}
			if !fail {
				res.table[host] = addrs(answer)
				if res.table[host] == nil {
					res.table[host] = []net.IPAddr{}
				}
			}
			rec := &recDialer{script: script}
			dc := sign.VerifRevocationDialContext(res, rec.dial, sign.VerifAllowedRevocationHostSet(hosts))
			conn, err := dc(context.Background(), "tcp", net.JoinHostPort(host, port))
			if conn != nil {
				conn.Close()
			}
			targets, ports, bad := decodeCalls(rec.calls)
			var impl string
			switch {
			case bad != "":
				impl = "bad:" + bad
			case len(rec.calls) == 0 && errors.Is(err, errResolve):
				impl = "resolveerr"
			case len(rec.calls) == 0 && err != nil:
				impl = "rejected"
			case len(rec.calls) == 0:
				impl = "no-dial-no-error"
			default:
				impl = "dialled:" + ipList(targets) + ":" + vh.Bool(conn != nil && err == nil)
			}
			r.Case("revdial", []string{hostList(hosts), vh.Hex([]byte(host)), answerArg(answer, fail), scriptArg(script)}, impl)
			if bad != "" {
				r.OracleFail("revocation-dialled-non-address", in, bad)
			}
			allowed := hostAllowed(hosts, host)
			if fail && len(rec.calls) > 0 {
				r.OracleFail("revocation-dialled-unresolved-address", in, "resolver failed but something was dialled")
			}
			if len(res.lookups) != 1 || res.lookups[0] != host {
				r.OracleFail("revocation-resolver-misuse", in, fmt.Sprint("lookups: ", res.lookups))
			}
			dialOracle("revocation", in, allowed, answer, targets, ports, port, rec.calls)
			r.Count("class:revdial-answer-" + kind)
			if allowed {
				r.Count("class:revdial-host-allowlisted")
			}
		})
	}
}

func imageBoxStream(pool [][]byte) {
	// rejectImageBoxIPs on arbitrary answer sets
	n := r.Pick(3000, 40000)
	for i := 0; i < n; i++ {
		answer, kind := randAnswer(pool)
		in := map[string]any{"fn": "imgreject", "answer": ipList(answer)}
		guard("imagebox-reject", in, func() {
			err := primitives.VerifRejectImageBoxIPs("img.example.com", addrs(answer))
			r.Case("imgreject", []string{ipList(answer)}, vh.Bool(err == nil))
			bad := false
			for _, a := range answer {
				if goSpec(a) {
					bad = true
				}
			}
			if err == nil && (bad || len(answer) == 0) {
				r.OracleFail("imagebox-private-answer-accepted", in, "rejectImageBoxIPs accepted an answer set with a private/local address (or an empty one)")
			} else {
				r.OracleOK()
			}
			r.Count("class:imgreject-answer-" + kind)
		})
	}
	// the dial context itself, IP-literal hosts, recording Control hook (refuses before connect)
	n = r.Pick(1500, 20000)
	for i := 0; i < n; i++ {
		var a []byte
		switch r.Rand.Intn(3) {
		case 0:
			a = randPublic()
		case 1:
			a = randPrivate(pool)
		default:
			a = randAny(pool)
		}
		if len(a) != 4 && len(a) != 16 {
			continue
		}
		literal := net.IP(a).String()
		if len(a) == 16 && r.Rand.Intn(4) == 0 {
			literal = netip.AddrFrom16([16]byte(a)).String() // keeps ::ffff:a.b.c.d text
		}
		port := []string{"80", "443"}[r.Rand.Intn(2)]
		in := map[string]any{"fn": "imgdial", "literal": literal, "port": port}
		guard("imagebox-dial", in, func() {
			// what the Go resolver answers for a literal (no DNS involved)
			ans, err := net.DefaultResolver.LookupIPAddr(context.Background(), literal)
			if err != nil || len(ans) != 1 {
				r.Count("class:imgdial-literal-skipped")
				return
			}
			answer := [][]byte{[]byte(ans[0].IP)}
			var mu sync.Mutex
			var calls []dialRec
			d := &net.Dialer{Timeout: 2 * time.Second, Control: func(network, address string, _ syscall.RawConn) error {
				mu.Lock()
				calls = append(calls, dialRec{"tcp", address})
				mu.Unlock()
				return errDial
			}}
			dc := primitives.VerifImageBoxDialContext(d)
			conn, derr := dc(context.Background(), "tcp", net.JoinHostPort(literal, port))
			if conn != nil {
				conn.Close()
			}
			targets, ports, bad := decodeCalls(calls)
			var impl string
			switch {
			case bad != "":
				impl = "bad:" + bad
			case len(calls) == 0 && derr != nil:
				impl = "rejected"
			case len(calls) == 0:
				impl = "no-dial-no-error"
			default:
				impl = "dialled:" + ipList(targets) + ":" + vh.Bool(conn != nil)
			}
			r.Case("imgdial", []string{answerArg(answer, false), "0"}, impl)
			if bad != "" {
				r.OracleFail("imagebox-dialled-non-address", in, bad)
			}
			dialOracle("imagebox", in, false, answer, targets, ports, port, calls)
			if goSpec(a) {
				r.Count("class:imgdial-literal-private")
			} else {
				r.Count("class:imgdial-literal-public")
			}
		})
	}
}

// ---------------------------------------------------------------- URL / redirect rules

func randURL(pool [][]byte) string {
	scheme := []string{"http", "https", "HTTP", "Https", "ftp", "file", "", "gopher", "javascript", "ws", "httpx", "http+unix"}[r.Rand.Intn(12)]
	if r.Rand.Intn(2) == 0 {
		scheme = []string{"http", "https"}[r.Rand.Intn(2)]
	}
	user := ""
	if r.Rand.Intn(4) == 0 {
		user = []string{"u@", "u:p@", ":@", "@", "a%40b:c@"}[r.Rand.Intn(5)]
	}
	var host string
	switch r.Rand.Intn(8) {
	case 0:
		host = ""
	case 1, 2:
		a := randAny(pool)
		if len(a) == 4 {
			host = net.IP(a).String()
		} else if len(a) == 16 {
			host = "[" + netip.AddrFrom16([16]byte(a)).String() + "]"
		} else {
			host = "h.example"
		}
	case 3:
		a := randPrivate(pool)
		if len(a) == 4 {
			host = net.IP(a).String()
		} else {
			host = "[" + netip.AddrFrom16([16]byte(a)).String() + "]"
		}
	default:
		host = strings.TrimSpace(strings.ReplaceAll(variant(baseHosts[r.Rand.Intn(len(baseHosts))]), "\t", ""))
		host = strings.ReplaceAll(host, " ", "")
	}
	port := []string{"", "", ":80", ":8443", ":"}[r.Rand.Intn(5)]
	path := []string{"", "/", "/a/b.crl", "/x?y=1#f", "//evil@h/"}[r.Rand.Intn(5)]
	sep := "://"
	if r.Rand.Intn(25) == 0 {
		sep = ":"
	}
	if scheme == "" {
		sep = []string{"//", ""}[r.Rand.Intn(2)]
	}
	return scheme + sep + user + host + port + path
}

func urlFields(s string) (*url.URL, []string) {
	u, err := url.Parse(s)
	if err != nil {
		return nil, []string{"nil"}
	}
	hostIP := "nil"
	if ip := net.ParseIP(u.Hostname()); ip != nil {
		hostIP = vh.Hex(ip)
	}
	return u, []string{vh.Hex([]byte(u.Scheme)), vh.Bool(u.User != nil), vh.Hex([]byte(u.Hostname())), hostIP}
}

// independent reading of a URL string: scheme and whether the authority carries userinfo
func rawSchemeAndCreds(s string) (scheme string, creds bool) {
	rest := s
	if i := strings.Index(s, ":"); i > 0 {
		isScheme := true
		for k := 0; k < i; k++ {
			c := s[k]
			letter := (c >= 'a' && c <= 'z') || (c >= 'A' && c <= 'Z')
			if !(letter || (k > 0 && ((c >= '0' && c <= '9') || c == '+' || c == '-' || c == '.'))) {
				isScheme = false
			}
		}
		if isScheme {
			scheme = strings.ToLower(s[:i])
			rest = s[i+1:]
		}
	}
	if !strings.HasPrefix(rest, "//") {
		return scheme, false
	}
	rest = rest[2:]
	if j := strings.IndexAny(rest, "/?#"); j >= 0 {
		rest = rest[:j]
	}
	return scheme, strings.Contains(rest, "@")
}

func urlStream(pool [][]byte) {
	revClient := sign.VerifRevocationHTTPClient(time.Second, nil)
	imgClient := primitives.VerifImageBoxHTTPClient(1)
	for who, c := range map[string]*http.Client{"revocation": revClient, "imagebox": imgClient} {
		tr, ok := c.Transport.(*http.Transport)
		if !ok || tr.Proxy != nil {
			r.OracleFail(who+"-proxy-enabled", map[string]any{"client": who}, "the client's transport has a proxy function (or is not *http.Transport)")
		} else if c.CheckRedirect == nil {
			r.OracleFail(who+"-redirects-unchecked", map[string]any{"client": who}, "CheckRedirect is nil")
		} else if tr.DialContext == nil || tr.DialTLSContext != nil || tr.Dial != nil || tr.DialTLS != nil {
			r.OracleFail(who+"-dial-context-bypassed", map[string]any{"client": who}, "transport does not dial exclusively through DialContext")
		} else {
			r.OracleOK()
		}
	}
	// the wiring of the real transports: a loopback literal must be refused by the transport's own
	// DialContext before any dial (on the unchanged code nothing touches the network here: literals
	// need no DNS and validation fails first)
	for who, c := range map[string]*http.Client{"revocation": revClient, "imagebox": imgClient} {
		tr, ok := c.Transport.(*http.Transport)
		if !ok || tr.DialContext == nil {
			continue
		}
		for _, lit := range []string{"127.0.0.1:9", "[::1]:9", "[::ffff:127.0.0.1]:9"} {
			in := map[string]any{"fn": "transport-dial", "client": who, "addr": lit}
			guard("transport-dial", in, func() {
				ctx, cancel := context.WithTimeout(context.Background(), 500*time.Millisecond)
				defer cancel()
				conn, err := tr.DialContext(ctx, "tcp", lit)
				if conn != nil {
					conn.Close()
				}
				var op *net.OpError
				if err == nil || errors.As(err, &op) {
					r.OracleFail(who+"-client-dials-unchecked", in, fmt.Sprint("the transport of the real client dialled a loopback literal: ", err))
				} else {
					r.OracleOK()
				}
			})
		}
	}
	n := r.Pick(3000, 40000)
	for i := 0; i < n; i++ {
		s := randURL(pool)
		in := map[string]any{"fn": "url", "url": s}
		guard("url", in, func() {
			u, f := urlFields(s)
			rawScheme, rawCreds := rawSchemeAndCreds(s)
			// revocation: first URL
			ok := sign.VerifValidateRevocationURLString(s) == nil
			r.Case("revurl", f, vh.Bool(ok))
			if ok && (rawCreds || (rawScheme != "http" && rawScheme != "https")) {
				r.OracleFail("revocation-url-accepted-bad-scheme-or-credentials", in, "accepted")
			} else {
				r.OracleOK()
			}
			// image box: first URL
			_, remote, ierr := primitives.VerifImageBoxRemoteURL(s)
			r.Case("imgurl", f, "remote="+vh.Bool(remote)+",ok="+vh.Bool(ierr == nil))
			if remote && ierr == nil {
				bad := rawCreds || (rawScheme != "http" && rawScheme != "https")
				if u != nil {
					if a, e := netip.ParseAddr(u.Hostname()); e == nil && goSpec(a.AsSlice()) {
						bad = true
					}
				}
				if bad {
					r.OracleFail("imagebox-url-accepted-bad-scheme-credentials-or-private-literal", in, "accepted")
				} else {
					r.OracleOK()
				}
			}
			if u == nil {
				r.Count("class:url-unparsable")
				return
			}
			// redirects, through the CheckRedirect of the real clients
			nvia := r.Rand.Intn(13)
			via := make([]*http.Request, nvia)
			for j := range via {
				via[j] = &http.Request{URL: &url.URL{Scheme: "http", Host: "prev.example"}}
			}
			if nvia > 0 && r.Rand.Intn(2) == 0 {
				// the redirect answers a request to the very same origin
				via[nvia-1] = &http.Request{URL: &url.URL{Scheme: u.Scheme, Host: u.Host, Path: "/previous"}}
			}
			req := &http.Request{URL: u}
			rok := revClient.CheckRedirect(req, via) == nil
			r.Case("revredirect", append([]string{vh.Int(int64(nvia))}, f...), vh.Bool(rok))
			if rok && (nvia >= 10 || rawCreds || (rawScheme != "http" && rawScheme != "https")) {
				r.OracleFail("revocation-redirect-accepted-against-url-rules", in, fmt.Sprint("via=", nvia))
			} else {
				r.OracleOK()
			}
			iok := imgClient.CheckRedirect(req, via) == nil
			r.Case("imgredirect", f, vh.Bool(iok))
			if iok {
				bad := rawCreds
				if a, e := netip.ParseAddr(u.Hostname()); e == nil && goSpec(a.AsSlice()) {
					bad = true
				}
				if bad {
					r.OracleFail("imagebox-redirect-accepted-credentials-or-private-literal", in, "accepted")
				} else {
					r.OracleOK()
				}
			}
			if ok {
				r.Count("class:url-accepted")
			} else {
				r.Count("class:url-rejected")
			}
		})
	}
}

// ---------------------------------------------------------------- end to end: real http.Client, redirect chains, in-memory pipes

type chanListener struct {
	ch   chan net.Conn
	done chan struct{}
}

func (l *chanListener) Accept() (net.Conn, error) {
	select {
	case c := <-l.ch:
		return c, nil
	case <-l.done:
		return nil, errors.New("closed")
	}
}
func (l *chanListener) Close() error   { return nil }
func (l *chanListener) Addr() net.Addr { return &net.TCPAddr{IP: net.IPv4(192, 0, 2, 1), Port: 80} }

type hop struct {
	host    string
	answer  [][]byte
	kind    string // ok | private | creds | scheme | unresolvable
	allowed bool
}

func e2eStream(pool [][]byte) {
	n := r.Pick(60, 600)
	for i := 0; i < n; i++ {
		// build a chain
		length := 1 + r.Rand.Intn(5)
		if r.Rand.Intn(6) == 0 {
			length = 11 + r.Rand.Intn(3)
		}
		var hops []hop
		var allow []string
		used := map[string]bool{}
		for j := 0; j < length; j++ {
			h := hop{host: fmt.Sprintf("h%d.chain%d.test", j, i), kind: "ok"}
			if j > 0 || r.Rand.Intn(4) == 0 {
				switch r.Rand.Intn(9) {
				case 0, 1:
					h.kind = "private"
				case 2:
					h.kind = "creds"
				case 3:
					h.kind = "scheme"
				case 4:
					h.kind = "unresolvable"
				case 5:
					h.kind = "private"
					h.allowed = true
					allow = append(allow, variant(h.host))
					if !hostAllowed(allow, h.host) { // the variant was a different name
						allow[len(allow)-1] = strings.ToUpper(h.host) + "."
					}
				}
			}
			// addresses are unique within a chain so that a dial can be attributed to its hop
			fresh := func(gen func() []byte) []byte {
				for {
					a := gen()
					key := string(canonTarget(a))
					if !used[key] {
						used[key] = true
						return a
					}
				}
			}
			k := 1 + r.Rand.Intn(3)
			for x := 0; x < k; x++ {
				h.answer = append(h.answer, fresh(randPublic))
			}
			if h.kind == "private" {
				h.answer[r.Rand.Intn(k)] = fresh(func() []byte { return randPrivate(pool) })
			}
			hops = append(hops, h)
		}
		urlOf := func(j int) string {
			h := hops[j]
			switch h.kind {
			case "creds":
				return "http://user:pw@" + h.host + "/next"
			case "scheme":
				return []string{"ftp://", "file://", "gopher://"}[r.Rand.Intn(3)] + h.host + "/next"
			}
			return "http://" + h.host + "/next"
		}
		urls := make([]string, length)
		for j := range urls {
			urls[j] = urlOf(j)
		}
		in := map[string]any{"fn": "e2e", "chain": urls, "allow": allow}
		descr := []string{}
		for _, h := range hops {
			descr = append(descr, h.kind+"/"+ipList(h.answer))
		}
		in["hops"] = descr
		guard("e2e", in, func() {
			res := &fakeResolver{table: map[string][]net.IPAddr{}}
			res.seq = map[string][][]net.IPAddr{}
			for _, h := range hops {
				if h.kind != "unresolvable" {
					// a rebinding resolver: every lookup after the first answers loopback
					res.seq[h.host] = [][]net.IPAddr{addrs(h.answer), {{IP: net.IPv4(127, 0, 0, 1)}}}
				}
			}
			ln := &chanListener{ch: make(chan net.Conn, 64), done: make(chan struct{})}
			next := map[string]string{}
			for j := 0; j+1 < length; j++ {
				next[hops[j].host] = urls[j+1]
			}
			srv := &http.Server{Handler: http.HandlerFunc(func(w http.ResponseWriter, q *http.Request) {
				if loc, ok := next[q.Host]; ok {
					w.Header().Set("Location", loc)
					w.WriteHeader(http.StatusFound)
					return
				}
				w.Write([]byte("final"))
			})}
			go srv.Serve(ln)
			script := make([]bool, 256)
			for j := range script {
				script[j] = true
			}
			rec := &recDialer{script: script, accept: func(c net.Conn) { ln.ch <- c }}
			client := sign.VerifRevocationHTTPClient(3*time.Second, allow)
			tr := client.Transport.(*http.Transport)
			tr.DialContext = sign.VerifRevocationDialContext(res, rec.dial, sign.VerifAllowedRevocationHostSet(allow))
			var status string
			if err := sign.VerifValidateRevocationURLString(urls[0]); err != nil {
				status = "first-url-rejected"
			} else {
				resp, err := client.Get(urls[0])
				if err != nil {
					status = "error"
				} else {
					rd := bufio.NewReader(resp.Body)
					body, _ := rd.ReadString(0)
					resp.Body.Close()
					status = fmt.Sprintf("%d:%s", resp.StatusCode, body)
				}
			}
			tr.CloseIdleConnections()
			close(ln.done)
			srv.Close()

			// expectation from the scenario
			reach := 0 // hops actually connected to
			for reach < length {
				h := hops[reach]
				if h.kind == "creds" || h.kind == "scheme" || h.kind == "unresolvable" || (h.kind == "private" && !h.allowed) || reach >= 10 {
					break
				}
				reach++
			}
			want := "error"
			if reach == length {
				want = "200:final"
			}
			if reach == 0 && (hops[0].kind == "creds" || hops[0].kind == "scheme") {
				want = "first-url-rejected"
			}
			good := true
			if status != want {
				good = false
				r.OracleFail("revocation-e2e-chain-outcome", in, "got "+status+" want "+want)
			}
			// property: every connection went to an address of the resolver answer of a hop that may be
			// connected to; none is private/local unless that hop's host is allow-listed
			targets, _, bad := decodeCalls(rec.calls)
			if bad != "" {
				good = false
				r.OracleFail("revocation-e2e-bad-target", in, bad)
			}
			for _, t := range targets {
				found := false
				for j, h := range hops {
					if contains(h.answer, t) {
						found = true
						if j >= reach {
							good = false
							r.OracleFail("revocation-e2e-connected-past-forbidden-hop", in, "target "+vh.Hex(t)+" belongs to hop "+fmt.Sprint(j))
						}
						if goSpec(t) && !h.allowed {
							good = false
							r.OracleFail("revocation-e2e-dialled-private", in, "target "+vh.Hex(t))
						}
					}
				}
				if !found {
					good = false
					r.OracleFail("revocation-e2e-dialled-unresolved-address", in, "target "+vh.Hex(t))
				}
			}
			perHost := map[string]int{}
			for _, l := range res.lookups {
				perHost[l]++
				if perHost[l] == 2 {
					good = false
					r.OracleFail("revocation-e2e-resolved-again", in, "host "+l+" was resolved more than once for one connection (check-then-use)")
				}
			}
			for _, c := range rec.calls {
				h, _, _ := net.SplitHostPort(c.target)
				if _, e := netip.ParseAddr(h); e != nil {
					good = false
					r.OracleFail("revocation-e2e-dialled-non-literal", in, "dial target "+c.target+" is not an IP literal")
				}
			}
			for _, l := range res.lookups {
				for j, h := range hops {
					if l == h.host && (h.kind == "creds" || h.kind == "scheme") {
						good = false
						r.OracleFail("revocation-e2e-resolved-forbidden-url", in, fmt.Sprint("hop ", j, " ", urls[j]))
					}
				}
			}
			if good {
				r.OracleOK()
			}
			r.Count("class:e2e-" + want)
		})
	}
}

// ---------------------------------------------------------------- sequences: one dial context / client instance, several dials
//
// The model is stateless: each attempt of a sequence is sent to the model on its own. Any state
// kept by the real dial context between dials (a cache of answers, a "seen" set, ...) therefore
// shows up as a disagreement on a later attempt, and the oracle judges every attempt by itself.

func revocationSequenceStream(pool [][]byte) {
	n := r.Pick(1200, 15000)
	for i := 0; i < n; i++ {
		hosts := randAllowList()
		res := &fakeResolver{table: map[string][]net.IPAddr{}}
		rec := &recDialer{}
		dc := sign.VerifRevocationDialContext(res, rec.dial, sign.VerifAllowedRevocationHostSet(hosts))
		hostA, hostB := randHost(), randHost()
		steps := 2 + r.Rand.Intn(3)
		var prevAnswer [][]byte
		prevKind := ""
		var trail []string
		for k := 0; k < steps; k++ {
			host := hostA
			if k > 0 && r.Rand.Intn(3) == 0 {
				host = hostB
			}
			// the resolver's answer for this attempt: changed, flipped between public and private, or kept
			var answer [][]byte
			var kind string
			switch {
			case k == 0 || r.Rand.Intn(4) == 0:
				answer, kind = randAnswer(pool)
			case r.Rand.Intn(3) == 0:
				answer, kind = prevAnswer, prevKind
			case prevKind == "all-public":
				answer = append([][]byte{}, prevAnswer...)
				answer[r.Rand.Intn(len(answer))] = randPrivate(pool)
				kind = "one-private"
			default:
				kind = "all-public"
				for x := 0; x < 1+r.Rand.Intn(3); x++ {
					answer = append(answer, randPublic())
				}
			}
			fail := r.Rand.Intn(25) == 0
			script := make([]bool, r.Rand.Intn(len(answer)+2))
			for j := range script {
				script[j] = r.Rand.Intn(2) == 0
			}
			port := []string{"80", "443", "8080"}[r.Rand.Intn(3)]
			trail = append(trail, fmt.Sprintf("%q:%s %s fail=%v script=%s", host, port, ipList(answer), fail, scriptArg(script)))
			in := map[string]any{"fn": "revdial-sequence", "allow": hosts, "attempt": k, "attempts": append([]string{}, trail...)}
			guard("revocation-sequence", in, func() {
				delete(res.table, hostA)
				delete(res.table, hostB)
				if !fail {
					res.table[host] = addrs(answer)
				}
				res.lookups = nil
				rec.mu.Lock()
				rec.calls = nil
				rec.script = script
				rec.mu.Unlock()
				conn, err := dc(context.Background(), "tcp", net.JoinHostPort(host, port))
				if conn != nil {
					conn.Close()
				}
				targets, ports, bad := decodeCalls(rec.calls)
				var impl string
				switch {
				case bad != "":
					impl = "bad:" + bad
				case len(rec.calls) == 0 && errors.Is(err, errResolve):
					impl = "resolveerr"
				case len(rec.calls) == 0 && err != nil:
					impl = "rejected"
				case len(rec.calls) == 0:
					impl = "no-dial-no-error"
				default:
					impl = "dialled:" + ipList(targets) + ":" + vh.Bool(conn != nil && err == nil)
				}
				r.Case("revdial", []string{hostList(hosts), vh.Hex([]byte(host)), answerArg(answer, fail), scriptArg(script)}, impl)
				if bad != "" {
					r.OracleFail("revocation-dialled-non-address", in, bad)
				}
				cur := answer
				if fail {
					cur = nil
					if len(rec.calls) > 0 {
						r.OracleFail("revocation-sequence-dialled-unresolved-address", in, "resolver failed on this attempt but something was dialled")
					}
				}
				if len(res.lookups) != 1 || res.lookups[0] != host {
					r.OracleFail("revocation-sequence-not-resolved-afresh", in, fmt.Sprint("every dial must resolve the host again; lookups on this attempt: ", res.lookups))
				}
				dialOracle("revocation-sequence", in, hostAllowed(hosts, host), cur, targets, ports, port, rec.calls)
			})
			prevAnswer, prevKind = answer, kind
		}
		r.Count(fmt.Sprintf("class:revseq-%d-attempts", steps))
	}
}

func imageBoxSequenceStream(pool [][]byte) {
	n := r.Pick(400, 5000)
	for i := 0; i < n; i++ {
		var mu sync.Mutex
		var calls []dialRec
		d := &net.Dialer{Timeout: 2 * time.Second, Control: func(network, address string, _ syscall.RawConn) error {
			mu.Lock()
			calls = append(calls, dialRec{"tcp", address})
			mu.Unlock()
			return errDial
		}}
		dc := primitives.VerifImageBoxDialContext(d)
		pick := func() []byte {
			for {
				var a []byte
				if r.Rand.Intn(2) == 0 {
					a = randPublic()
				} else {
					a = randPrivate(pool)
				}
				if len(a) == 4 || len(a) == 16 {
					return a
				}
			}
		}
		litA, litB := pick(), pick()
		steps := 2 + r.Rand.Intn(3)
		var trail []string
		for k := 0; k < steps; k++ {
			a := litA
			if k%2 == 1 && r.Rand.Intn(2) == 0 {
				a = litB
			}
			literal := net.IP(a).String()
			port := []string{"80", "443", "8080"}[r.Rand.Intn(3)]
			trail = append(trail, literal+":"+port)
			in := map[string]any{"fn": "imgdial-sequence", "attempt": k, "attempts": append([]string{}, trail...)}
			guard("imagebox-sequence", in, func() {
				ans, err := net.DefaultResolver.LookupIPAddr(context.Background(), literal)
				if err != nil || len(ans) != 1 {
					return
				}
				answer := [][]byte{[]byte(ans[0].IP)}
				mu.Lock()
				calls = nil
				mu.Unlock()
				conn, derr := dc(context.Background(), "tcp", net.JoinHostPort(literal, port))
				if conn != nil {
					conn.Close()
				}
				targets, ports, bad := decodeCalls(calls)
				var impl string
				switch {
				case bad != "":
					impl = "bad:" + bad
				case len(calls) == 0 && derr != nil:
					impl = "rejected"
				case len(calls) == 0:
					impl = "no-dial-no-error"
				default:
					impl = "dialled:" + ipList(targets) + ":" + vh.Bool(conn != nil)
				}
				r.Case("imgdial", []string{answerArg(answer, false), "0"}, impl)
				if bad != "" {
					r.OracleFail("imagebox-dialled-non-address", in, bad)
				}
				dialOracle("imagebox-sequence", in, false, answer, targets, ports, port, calls)
			})
		}
		r.Count(fmt.Sprintf("class:imgseq-%d-attempts", steps))
	}
}

// one real revocation *http.Client, several fetches: a host first served while public and then
// re-resolved as private (and the reverse), another port of the same host, a second host in between
func clientSequenceStream(pool [][]byte) {
	n := r.Pick(40, 400)
	for i := 0; i < n; i++ {
		hostA := fmt.Sprintf("a.seq%d.test", i)
		hostB := fmt.Sprintf("b.seq%d.test", i)
		res := &fakeResolver{table: map[string][]net.IPAddr{}}
		ln := &chanListener{ch: make(chan net.Conn, 64), done: make(chan struct{})}
		srv := &http.Server{Handler: http.HandlerFunc(func(w http.ResponseWriter, q *http.Request) { w.Write([]byte("final")) })}
		go srv.Serve(ln)
		script := make([]bool, 256)
		for j := range script {
			script[j] = true
		}
		rec := &recDialer{script: script, accept: func(c net.Conn) { ln.ch <- c }}
		client := sign.VerifRevocationHTTPClient(3*time.Second, nil)
		tr := client.Transport.(*http.Transport)
		tr.DialContext = sign.VerifRevocationDialContext(res, rec.dial, sign.VerifAllowedRevocationHostSet(nil))
		steps := 2 + r.Rand.Intn(3)
		private := r.Rand.Intn(2) == 0
		var trail []string
		for k := 0; k < steps; k++ {
			host := hostA
			if k > 0 && r.Rand.Intn(4) == 0 {
				host = hostB
			}
			if k > 0 {
				private = !private || r.Rand.Intn(3) == 0
			}
			answer := [][]byte{randPublic()}
			if r.Rand.Intn(2) == 0 {
				answer = append(answer, randPublic())
			}
			if private {
				answer[r.Rand.Intn(len(answer))] = randPrivate(pool)
			}
			port := []string{"", ":8080", ":8443"}[r.Rand.Intn(3)]
			u := "http://" + host + port + "/crl" + fmt.Sprint(k)
			trail = append(trail, fmt.Sprintf("%s -> %s", u, ipList(answer)))
			in := map[string]any{"fn": "client-sequence", "attempt": k, "attempts": append([]string{}, trail...)}
			guard("client-sequence", in, func() {
				res.mu.Lock()
				res.table = map[string][]net.IPAddr{host: addrs(answer)}
				res.mu.Unlock()
				rec.mu.Lock()
				rec.calls = nil
				rec.mu.Unlock()
				// a new connection attempt per fetch (otherwise an idle keep-alive connection is reused
				// without any dial, which is no new connection in the sense of the property)
				tr.CloseIdleConnections()
				status := "error"
				if resp, err := client.Get(u); err == nil {
					resp.Body.Close()
					status = fmt.Sprint(resp.StatusCode)
				}
				want := "200"
				if private {
					want = "error"
				}
				good := true
				if status != want {
					good = false
					r.OracleFail("revocation-client-sequence-outcome", in, "got "+status+" want "+want)
				}
				rec.mu.Lock()
				calls := append([]dialRec{}, rec.calls...)
				rec.mu.Unlock()
				targets, _, bad := decodeCalls(calls)
				if bad != "" {
					good = false
					r.OracleFail("revocation-dialled-non-address", in, bad)
				}
				for _, t := range targets {
					if !contains(answer, t) {
						good = false
						r.OracleFail("revocation-client-sequence-dialled-unresolved-address", in, "target "+vh.Hex(t)+" is not in this attempt's answer")
					}
					if goSpec(t) || private {
						good = false
						r.OracleFail("revocation-client-sequence-dialled-private", in, "target "+vh.Hex(t)+" dialled although this attempt's answer is "+ipList(answer))
					}
				}
				if good {
					r.OracleOK()
				}
			})
		}
		tr.CloseIdleConnections()
		close(ln.done)
		srv.Close()
		r.Count(fmt.Sprintf("class:clientseq-%d-fetches", steps))
	}
}

// ---------------------------------------------------------------- check-then-use (DNS rebinding)
//
// A scripted resolver answers the 1st, 2nd, 3rd lookup of a name differently (public first, then
// loopback / private / link-local / metadata). One connection must resolve ONCE, vet that answer and
// dial an IP literal taken from it. The image-box dial context hard-wires net.DefaultResolver, so the
// harness replaces that variable by a pure-Go resolver whose "DNS server" is an in-process goroutine
// behind net.Pipe (no packet leaves the process); its dialer is a net.Dialer whose Control hook
// records the address actually dialled and lets the connect(2) proceed only towards the canary
// listener on 127.0.0.1.

type dnsScript struct {
	mu   sync.Mutex
	sets map[string][][][]byte // first label -> answer set per lookup (last repeats)
	nq   map[string]map[uint16]int
}

func (d *dnsScript) lookups(key string) int {
	d.mu.Lock()
	defer d.mu.Unlock()
	n := 0
	for _, c := range d.nq[key] {
		if c > n {
			n = c
		}
	}
	return n
}

func (d *dnsScript) respond(msg []byte) []byte {
	if len(msg) < 17 {
		return nil
	}
	off := 12
	first := ""
	for off < len(msg) && msg[off] != 0 {
		l := int(msg[off])
		if off+1+l > len(msg) {
			return nil
		}
		if first == "" {
			first = strings.ToLower(string(msg[off+1 : off+1+l]))
		}
		off += 1 + l
	}
	if off+5 > len(msg) {
		return nil
	}
	qtype := uint16(msg[off+1])<<8 | uint16(msg[off+2])
	qend := off + 5
	d.mu.Lock()
	if d.nq[first] == nil {
		d.nq[first] = map[uint16]int{}
	}
	i := d.nq[first][qtype]
	d.nq[first][qtype]++
	sets := d.sets[first]
	var set [][]byte
	if len(sets) > 0 {
		if i >= len(sets) {
			i = len(sets) - 1
		}
		set = sets[i]
	}
	d.mu.Unlock()
	var recs [][]byte
	for _, a := range set {
		if (qtype == 1 && len(a) == 4) || (qtype == 28 && len(a) == 16) {
			recs = append(recs, a)
		}
	}
	resp := []byte{msg[0], msg[1], 0x80 | (msg[2] & 1), 0x80, 0, 1, 0, byte(len(recs)), 0, 0, 0, 0}
	resp = append(resp, msg[12:qend]...)
	for _, a := range recs {
		resp = append(resp, 0xc0, 0x0c, byte(qtype>>8), byte(qtype), 0, 1, 0, 0, 0, 0, 0, byte(len(a)))
		resp = append(resp, a...)
	}
	return resp
}

func (d *dnsScript) serve(c net.Conn) {
	defer c.Close()
	rd := bufio.NewReader(c)
	for {
		var l [2]byte
		if _, err := io.ReadFull(rd, l[:]); err != nil {
			return
		}
		msg := make([]byte, int(l[0])<<8|int(l[1]))
		if _, err := io.ReadFull(rd, msg); err != nil {
			return
		}
		resp := d.respond(msg)
		if resp == nil {
			return
		}
		out := append([]byte{byte(len(resp) >> 8), byte(len(resp))}, resp...)
		if _, err := c.Write(out); err != nil {
			return
		}
	}
}

func (d *dnsScript) resolver() *net.Resolver {
	return &net.Resolver{PreferGo: true, Dial: func(context.Context, string, string) (net.Conn, error) {
		c, srv := net.Pipe()
		go d.serve(srv)
		return c, nil
	}}
}

var poisons = [][]byte{
	{127, 0, 0, 1}, {127, 0, 0, 1}, {10, 0, 0, 7}, {169, 254, 169, 254}, {192, 168, 1, 1}, {0, 0, 0, 0},
	netip.MustParseAddr("::1").AsSlice(), netip.MustParseAddr("fe80::1").AsSlice(), netip.MustParseAddr("fd00::1").AsSlice(),
	netip.MustParseAddr("::ffff:127.0.0.1").AsSlice(), // AAAA record carrying an IPv4-mapped loopback
}

func randPublicLen(n int) []byte {
	for {
		a := randPublic()
		if len(a) == n && !(n == 16 && netip.AddrFrom16([16]byte(a)).Is4In6()) {
			return a
		}
	}
}

// answer sets per lookup: the first is what gets vetted, the later ones are what a second
// resolution would see
func rebindScript(pool [][]byte) (sets [][][]byte, kind string) {
	k := 1 + r.Rand.Intn(3)
	fam := r.Rand.Intn(3) // 0: A only, 1: AAAA only, 2: mixed
	var first [][]byte
	for x := 0; x < k; x++ {
		n := 4
		if fam == 1 || (fam == 2 && r.Rand.Intn(2) == 0) {
			n = 16
		}
		first = append(first, randPublicLen(n))
	}
	kind = fmt.Sprintf("%d-answers-public-then-poison", k)
	switch r.Rand.Intn(10) {
	case 0:
		first = nil
		kind = "no-answer"
	case 1, 2:
		p := randPrivate(pool)
		if len(p) == 4 || len(p) == 16 {
			first[r.Rand.Intn(len(first))] = p
			kind = fmt.Sprintf("%d-answers-first-set-private", k)
		}
	}
	sets = append(sets, first)
	for x := 0; x < 2; x++ {
		var later [][]byte
		for y := 0; y < 1+r.Rand.Intn(2); y++ {
			later = append(later, poisons[r.Rand.Intn(len(poisons))])
		}
		sets = append(sets, later)
	}
	return
}

func lookupsArg(sets [][][]byte, firstFail bool) string {
	var parts []string
	for i, set := range sets {
		parts = append(parts, answerArg(set, i == 0 && firstFail))
	}
	return strings.Join(parts, "|")
}

func imageBoxRebindStream(pool [][]byte) {
	dns := &dnsScript{sets: map[string][][][]byte{}, nq: map[string]map[uint16]int{}}
	saved := net.DefaultResolver
	net.DefaultResolver = dns.resolver()
	defer func() { net.DefaultResolver = saved }()

	// canary on loopback: nothing may ever connect to it
	canaryPort := "9"
	var canaryHits []string
	var cmu sync.Mutex
	if ln, err := net.Listen("tcp4", "127.0.0.1:0"); err == nil {
		defer ln.Close()
		_, canaryPort, _ = net.SplitHostPort(ln.Addr().String())
		go func() {
			for {
				c, err := ln.Accept()
				if err != nil {
					return
				}
				cmu.Lock()
				canaryHits = append(canaryHits, c.RemoteAddr().String())
				cmu.Unlock()
				c.Close()
			}
		}()
		r.Count("class:rebind-canary-listening")
	} else {
		r.Count("class:rebind-canary-unavailable")
	}
	canaryAddr := net.JoinHostPort("127.0.0.1", canaryPort)

	n := r.Pick(250, 3000)
	for i := 0; i < n; i++ {
		sets, kind := rebindScript(pool)
		key, probe := fmt.Sprintf("n%d", i), fmt.Sprintf("p%d", i)
		name := key + ".c30.test." // rooted: no search-list expansion
		dns.mu.Lock()
		dns.sets[key] = sets
		dns.sets[probe] = sets[:1]
		dns.mu.Unlock()
		in := map[string]any{"fn": "imgconn", "name": name, "port": canaryPort, "kind": kind}
		var descr []string
		for _, set := range sets {
			descr = append(descr, ipList(set))
		}
		in["answers_per_lookup"] = descr
		guard("imagebox-rebind", in, func() {
			// the order in which Go's resolver hands out the first answer set (RFC 6724 sorting), learnt
			// from a twin name with the same records
			var answer0 [][]byte
			firstFail := false
			pans, perr := net.DefaultResolver.LookupIPAddr(context.Background(), probe+".c30.test.")
			if perr != nil {
				firstFail = true
			} else {
				for _, a := range pans {
					answer0 = append(answer0, []byte(a.IP))
				}
			}
			var mu sync.Mutex
			var calls []dialRec
			d := &net.Dialer{Timeout: 2 * time.Second, Control: func(network, address string, _ syscall.RawConn) error {
				mu.Lock()
				calls = append(calls, dialRec{"tcp", address})
				mu.Unlock()
				if address == canaryAddr {
					return nil // let a connection to the canary really happen
				}
				return errDial
			}}
			dc := primitives.VerifImageBoxDialContext(d)
			cmu.Lock()
			hits0 := len(canaryHits)
			cmu.Unlock()
			conn, derr := dc(context.Background(), "tcp", net.JoinHostPort(name, canaryPort))
			if conn != nil {
				conn.Close()
			}
			time.Sleep(0)
			nlook := dns.lookups(key)
			targets, ports, bad := decodeCalls(calls)
			// mixed A/AAAA answers are merged by arrival order inside the resolver: take the dialled
			// member as the head of the vetted list for the model (membership itself is the oracle's job)
			has4, has16 := false, false
			for _, a := range answer0 {
				has4 = has4 || len(a) == 4 || netip.AddrFrom16([16]byte(net.IP(a).To16())).Is4In6()
				has16 = has16 || !(len(a) == 4 || netip.AddrFrom16([16]byte(net.IP(a).To16())).Is4In6())
			}
			if has4 && has16 && len(targets) == 1 {
				for j, a := range answer0 {
					if string(canonTarget(a)) == string(targets[0]) {
						answer0[0], answer0[j] = answer0[j], answer0[0]
						break
					}
				}
			}
			decision := "none"
			if len(targets) > 0 {
				decision = "foreign"
				for _, a := range answer0 {
					if string(canonTarget(a)) == string(targets[0]) {
						decision = vh.Hex(a)
						break
					}
				}
			}
			var dnsErr *net.DNSError
			var impl string
			switch {
			case bad != "":
				impl = "bad:" + bad
			case len(calls) == 0 && errors.As(derr, &dnsErr):
				impl = "resolveerr"
			case len(calls) == 0 && derr != nil:
				impl = "rejected"
			case len(calls) == 0:
				impl = "no-dial-no-error"
			default:
				impl = "dialled:" + ipList(targets) + ":" + vh.Bool(conn != nil)
			}
			impl += fmt.Sprintf(";lookups=%x;unconsumed=%d;decision=%s", nlook, len(sets)-min(nlook, len(sets)), decision)
			msets := append([][][]byte{answer0}, sets[1:]...)
			r.Case("imgconn", []string{lookupsArg(msets, firstFail), "0"}, impl)

			// oracle: what was really dialled
			good := true
			fail := func(class, detail string) {
				good = false
				r.OracleFail("imagebox-rebind-"+class, in, detail)
			}
			if nlook != 1 {
				fail("resolved-again", fmt.Sprintf("one connection made %d lookups of the host; the second answer was never vetted", nlook))
			}
			anyPrivate := false
			for _, a := range answer0 {
				anyPrivate = anyPrivate || goSpec(a)
			}
			for _, c := range calls {
				h, _, err := net.SplitHostPort(c.target)
				lit, perr := netip.ParseAddr(h)
				if err != nil || perr != nil {
					fail("dialled-non-literal", "dialled "+c.target)
					continue
				}
				t := lit.Unmap().AsSlice()
				if !contains(answer0, t) {
					fail("dialled-unvetted-address", "dialled "+c.target+", not a member of the vetted answer "+ipList(answer0))
				}
				if goSpec(t) {
					fail("dialled-private", "dialled "+c.target)
				}
			}
			if anyPrivate && len(calls) > 0 {
				fail("dial-after-private-answer", "the vetted answer contains a private/local address, yet something was dialled")
			}
			for _, p := range ports {
				if p != canaryPort {
					fail("port-changed", p)
				}
			}
			cmu.Lock()
			hits := len(canaryHits) - hits0
			cmu.Unlock()
			if hits > 0 || conn != nil {
				fail("canary-reached", "a TCP connection to the loopback canary "+canaryAddr+" was established")
			}
			if good {
				r.OracleOK()
			}
			r.Count("class:imgrebind-" + kind)
		})
	}
}

func revocationRebindStream(pool [][]byte) {
	n := r.Pick(600, 8000)
	for i := 0; i < n; i++ {
		hosts := randAllowList()
		host := randHost()
		sets, kind := rebindScript(pool)
		firstFail := sets[0] == nil
		res := &fakeResolver{seq: map[string][][]net.IPAddr{}}
		var seq [][]net.IPAddr
		for j, set := range sets {
			if j == 0 && firstFail {
				seq = append(seq, nil)
			} else {
				seq = append(seq, addrs(set))
			}
		}
		res.seq[host] = seq
		script := make([]bool, r.Rand.Intn(len(sets[0])+2))
		for j := range script {
			script[j] = r.Rand.Intn(2) == 0
		}
		port := []string{"80", "443"}[r.Rand.Intn(2)]
		in := map[string]any{"fn": "revconn", "allow": hosts, "host": host, "port": port, "kind": kind, "script": scriptArg(script)}
		var descr []string
		for _, set := range sets {
			descr = append(descr, ipList(set))
		}
		in["answers_per_lookup"] = descr
		guard("revocation-rebind", in, func() {
			rec := &recDialer{script: script}
			dc := sign.VerifRevocationDialContext(res, rec.dial, sign.VerifAllowedRevocationHostSet(hosts))
			conn, err := dc(context.Background(), "tcp", net.JoinHostPort(host, port))
			if conn != nil {
				conn.Close()
			}
			nlook := len(res.lookups)
			targets, ports, bad := decodeCalls(rec.calls)
			allowed := hostAllowed(hosts, host)
			var impl string
			switch {
			case bad != "":
				impl = "bad:" + bad
			case len(rec.calls) == 0 && errors.Is(err, errResolve):
				impl = "resolveerr"
			case len(rec.calls) == 0 && err != nil:
				impl = "rejected"
			case len(rec.calls) == 0:
				impl = "no-dial-no-error"
			default:
				impl = "dialled:" + ipList(targets) + ":" + vh.Bool(conn != nil && err == nil)
			}
			// candidates = the vetted list the loop may walk (observable: a dialer that always fails sees all of it)
			cand := ""
			if !firstFail && len(sets[0]) > 0 && (len(rec.calls) > 0) {
				cand = ipList(sets[0])
			}
			impl += fmt.Sprintf(";lookups=%x;unconsumed=%d;candidates=%s", nlook, len(sets)-min(nlook, len(sets)), cand)
			r.Case("revconn", []string{hostList(hosts), vh.Hex([]byte(host)), lookupsArg(sets, firstFail), scriptArg(script)}, impl)
			good := true
			if nlook != 1 {
				good = false
				r.OracleFail("revocation-rebind-resolved-again", in, fmt.Sprintf("one connection made %d lookups of the host", nlook))
			}
			for _, c := range rec.calls {
				h, _, _ := net.SplitHostPort(c.target)
				if _, e := netip.ParseAddr(h); e != nil {
					good = false
					r.OracleFail("revocation-rebind-dialled-non-literal", in, "dialled "+c.target)
				}
			}
			if good {
				r.OracleOK()
			}
			var vetted [][]byte
			if !firstFail {
				vetted = sets[0]
			}
			dialOracle("revocation-rebind", in, allowed, vetted, targets, ports, port, rec.calls)
			r.Count("class:revrebind-" + kind)
		})
	}
}

// ---------------------------------------------------------------- redirect chains whose hops differ in ONE component
//
// Hop k+1 differs from hop k only in userinfo / path / query / fragment / port / scheme / host case
// (or not at all), so that most redirects stay on the origin of the request they answer. The real
// CheckRedirect of each client decides, wrapped only to log (len(via), target, verdict) for the
// per-pair correspondence; the in-memory responder records every request with its headers.

type urlParts struct{ scheme, user, host, port, path, query, frag string }

func (u urlParts) String() string {
	s := u.scheme + "://" + u.user + u.host + u.port + u.path
	if u.query != "" {
		s += "?" + u.query
	}
	if u.frag != "" {
		s += "#" + u.frag
	}
	return s
}

type anyResolver struct{ ips []net.IPAddr }

func (a anyResolver) LookupIPAddr(context.Context, string) ([]net.IPAddr, error) { return a.ips, nil }

type servedReq struct {
	n          int
	host, uri  string
	auth       []string
	viaCookies int
}

func chainArg(urls []string) string {
	var parts []string
	for _, s := range urls {
		_, f := urlFields(s)
		parts = append(parts, strings.Join(f, ";"))
	}
	return strings.Join(parts, "|")
}

func redirectChainStream(pool [][]byte) {
	imgPolicy := primitives.VerifImageBoxHTTPClient(1).CheckRedirect
	n := r.Pick(160, 2000)
	for i := 0; i < n; i++ {
		who := []string{"revocation", "imagebox"}[i%2]
		cur := urlParts{scheme: "http", host: fmt.Sprintf("o%d.redir.test", i), port: []string{"", ":8080"}[r.Rand.Intn(2)], path: "/pki/a.crl", query: "x=1"}
		if r.Rand.Intn(14) == 0 {
			cur.user = "user:pw@" // credentials already in the first URL
		}
		length := 2 + r.Rand.Intn(4)
		if r.Rand.Intn(10) == 0 {
			length = 12 // beyond the revocation limit, every hop on the same origin
		}
		credsAt := 0
		if r.Rand.Intn(5) < 3 {
			credsAt = 1 + r.Rand.Intn(3) // userinfo appears at hop 1..3
		}
		urls := []string{cur.String()}
		differs := []string{"initial"}
		for k := 1; k < length; k++ {
			what := []string{"path", "query", "fragment", "port", "host-case", "nothing", "scheme"}[r.Rand.Intn(7)]
			if k == credsAt {
				what = "userinfo"
			}
			switch what {
			case "userinfo":
				cur.user = []string{"user:pw@", "crl@", ":secret@"}[r.Rand.Intn(3)]
			case "path":
				cur.path = fmt.Sprintf("/pki/hop%d.crl", k)
			case "query":
				cur.query = fmt.Sprintf("x=%d", k+1)
			case "fragment":
				cur.frag = fmt.Sprintf("f%d", k)
			case "port":
				cur.port = []string{":8080", ":8081", ""}[k%3]
			case "host-case":
				if cur.host == strings.ToLower(cur.host) {
					cur.host = strings.ToUpper(cur.host)
				} else {
					cur.host = strings.ToLower(cur.host)
				}
			case "scheme":
				cur.scheme = "https" // the in-memory responder speaks plain HTTP: the chain ends here
			}
			urls = append(urls, cur.String())
			differs = append(differs, what)
			if what == "scheme" {
				break
			}
		}
		in := map[string]any{"fn": "redirect-chain", "client": who, "chain": urls, "differs": differs}
		guard("redirect-chain", in, func() {
			var mu sync.Mutex
			var served []servedReq
			ln := &chanListener{ch: make(chan net.Conn, 64), done: make(chan struct{})}
			srv := &http.Server{Handler: http.HandlerFunc(func(w http.ResponseWriter, q *http.Request) {
				mu.Lock()
				k := len(served)
				served = append(served, servedReq{n: k, host: q.Host, uri: q.RequestURI, auth: q.Header.Values("Authorization")})
				mu.Unlock()
				if k+1 < len(urls) {
					w.Header().Set("Location", urls[k+1])
					w.WriteHeader(http.StatusFound)
					return
				}
				w.Write([]byte("final"))
			})}
			go srv.Serve(ln)
			pipeDial := func(context.Context, string, string) (net.Conn, error) {
				c, sc := net.Pipe()
				ln.ch <- sc
				return c, nil
			}
			type decision struct {
				nvia   int
				target string
				ok     bool
			}
			var decisions []decision
			var client *http.Client
			var policy func(*http.Request, []*http.Request) error
			var tr *http.Transport
			firstOK := false
			if who == "revocation" {
				client = sign.VerifRevocationHTTPClient(3*time.Second, nil)
				tr = client.Transport.(*http.Transport)
				script := make([]bool, 64)
				for j := range script {
					script[j] = true
				}
				rec := &recDialer{script: script, accept: func(c net.Conn) { ln.ch <- c }}
				tr.DialContext = sign.VerifRevocationDialContext(anyResolver{addrs([][]byte{randPublic()})}, rec.dial, sign.VerifAllowedRevocationHostSet(nil))
				policy = client.CheckRedirect
				firstOK = sign.VerifValidateRevocationURLString(urls[0]) == nil
			} else {
				tr = &http.Transport{DialContext: pipeDial}
				client = &http.Client{Transport: tr, Timeout: 3 * time.Second}
				policy = imgPolicy
				_, remote, err := primitives.VerifImageBoxRemoteURL(urls[0])
				firstOK = remote && err == nil
			}
			client.CheckRedirect = func(req *http.Request, via []*http.Request) error {
				err := policy(req, via)
				mu.Lock()
				decisions = append(decisions, decision{len(via), req.URL.String(), err == nil})
				mu.Unlock()
				return err
			}
			if firstOK {
				if resp, err := client.Get(urls[0]); err == nil {
					resp.Body.Close()
				}
			}
			tr.CloseIdleConnections()
			close(ln.done)
			srv.Close()

			// K: every (len(via), target) decision made by the real client, and the number of URLs requested
			requested := 0
			if firstOK {
				requested = 1
			}
			for _, d := range decisions {
				_, f := urlFields(d.target)
				if who == "revocation" {
					r.Case("revredirect", append([]string{vh.Int(int64(d.nvia))}, f...), vh.Bool(d.ok))
				} else {
					r.Case("imgredirect", f, vh.Bool(d.ok))
				}
				if d.ok {
					requested++
				}
			}
			if who == "revocation" {
				r.Case("revchain", []string{chainArg(urls)}, fmt.Sprint(requested))
			} else {
				r.Case("imgchain", []string{chainArg(urls)}, fmt.Sprint(requested))
			}

			// O: no request with credentials, every requested hop passes the policy of an initial URL
			good := true
			bad := func(u string) bool {
				sc, creds := rawSchemeAndCreds(u)
				return creds || (sc != "http" && sc != "https")
			}
			for _, q := range served {
				if len(q.auth) > 0 {
					good = false
					r.OracleFail(who+"-redirect-with-credentials-followed", in, fmt.Sprintf("request #%d to %s%s carried Authorization: %s", q.n, q.host, q.uri, strings.Join(q.auth, ",")))
				}
				if q.n < len(urls) && bad(urls[q.n]) {
					good = false
					r.OracleFail(who+"-redirect-target-not-validated:"+differs[q.n], in, fmt.Sprintf("hop %d (%s) was requested although it does not pass the policy of an initial URL", q.n, urls[q.n]))
				}
			}
			for _, d := range decisions {
				if d.ok && bad(d.target) {
					good = false
					k := d.nvia
					what := "?"
					if k < len(differs) {
						what = differs[k]
					}
					r.OracleFail(who+"-redirect-target-not-validated:"+what, in, fmt.Sprintf("CheckRedirect accepted %s after %d request(s)", d.target, d.nvia))
				}
				if d.ok && who == "revocation" && d.nvia >= 10 {
					good = false
					r.OracleFail("revocation-redirect-limit-exceeded", in, fmt.Sprint("accepted with len(via)=", d.nvia))
				}
			}
			if good {
				r.OracleOK()
			}
			for _, w := range differs[1:] {
				r.Count("class:redirect-hop-differs-in-" + w)
			}
		})
	}
}

func main() {
	r = vh.Start("C30")
	defer r.Finish()
	pool := boundaryAddrs()
	classifyStream(pool)
	hostStream()
	revocationDialStream(pool)
	imageBoxStream(pool)
	urlStream(pool)
	e2eStream(pool)
	revocationSequenceStream(pool)
	imageBoxSequenceStream(pool)
	clientSequenceStream(pool)
	revocationRebindStream(pool)
	imageBoxRebindStream(pool)
	redirectChainStream(pool)
}
