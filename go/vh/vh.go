// Package vh is the shared part of the correspondence harnesses.
//
// A harness generates inputs from one seeded PRNG, runs the implementation on
// them and records, per case, the model request (cases.tsv) and the
// implementation's canonical result (impl.tsv). The check script pipes
// cases.tsv through the extracted model (modelrun) and diffs the replies.
// Direct property-oracle failures on the implementation go to oracle.jsonl.
package vh

import (
	"bufio"
	"encoding/hex"
	"encoding/json"
	"flag"
	"fmt"
	"math/big"
	"math/rand"
	"os"
	"path/filepath"
	"sort"
	"strconv"
	"strings"
)

type Run struct {
	Prop    string
	Seed    int64
	Tier    string
	Dir     string
	Rand    *rand.Rand
	cases   *bufio.Writer
	impl    *bufio.Writer
	oracle  *bufio.Writer
	files   []*os.File
	n       int
	counts  map[string]int
	samples []any
	distinct map[string]struct{}
	nOracle int
	oracleChecks int
}

func Start(prop string) *Run {
	seed := flag.Int64("seed", 1, "PRNG seed")
	tier := flag.String("tier", "quick", "quick|thorough")
	out := flag.String("out", "", "output directory")
	flag.Parse()
	if *out == "" {
		fmt.Fprintln(os.Stderr, "--out required")
		os.Exit(2)
	}
	if err := os.MkdirAll(*out, 0o755); err != nil {
		panic(err)
	}
	r := &Run{Prop: prop, Seed: *seed, Tier: *tier, Dir: *out, Rand: rand.New(rand.NewSource(*seed)),
		counts: map[string]int{}, distinct: map[string]struct{}{}}
	open := func(name string) *bufio.Writer {
		f, err := os.Create(filepath.Join(*out, name))
		if err != nil {
			panic(err)
		}
		r.files = append(r.files, f)
		return bufio.NewWriterSize(f, 1<<20)
	}
	r.cases = open("cases.tsv")
	r.impl = open("impl.tsv")
	r.oracle = open("oracle.jsonl")
	return r
}

func (r *Run) Thorough() bool { return r.Tier == "thorough" }

// Pick returns q in the quick tier and t in the thorough tier.
func (r *Run) Pick(q, t int) int {
	if r.Thorough() {
		return t
	}
	return q
}

// Case records one correspondence case: model function, its arguments, and the
// implementation's canonical result for the same input.
func (r *Run) Case(fn string, args []string, implResult string) {
	r.n++
	id := strconv.Itoa(r.n)
	r.cases.WriteString(id)
	r.cases.WriteByte('\t')
	r.cases.WriteString(fn)
	for _, a := range args {
		r.cases.WriteByte('\t')
		r.cases.WriteString(a)
	}
	r.cases.WriteByte('\n')
	r.impl.WriteString(id)
	r.impl.WriteByte('\t')
	r.impl.WriteString(clean(implResult))
	r.impl.WriteByte('\n')
	r.counts["fn:"+fn]++
	key := fn + "\x00" + strings.Join(args, "\x00")
	if len(key) > 200 {
		key = key[:200] + strconv.Itoa(len(key)) + strconv.FormatUint(fnv(key), 16)
	}
	r.distinct[key] = struct{}{}
	if len(r.samples) < 6 || (len(r.samples) < 12 && r.Rand.Intn(50) == 0) {
		r.samples = append(r.samples, map[string]any{"fn": fn, "args": trunc(args), "impl": truncs(implResult)})
	}
}

func fnv(s string) uint64 {
	h := uint64(14695981039346656037)
	for i := 0; i < len(s); i++ {
		h ^= uint64(s[i])
		h *= 1099511628211
	}
	return h
}

func truncs(s string) string {
	if len(s) > 160 {
		return s[:160] + fmt.Sprintf("...(%d)", len(s))
	}
	return s
}
func trunc(a []string) []string {
	o := make([]string, len(a))
	for i, s := range a {
		o[i] = truncs(s)
	}
	return o
}

func clean(s string) string {
	s = strings.ReplaceAll(s, "\t", " ")
	s = strings.ReplaceAll(s, "\n", " ")
	return s
}

// Count adds to a named counter of the input distribution (written to stats.json).
func (r *Run) Count(key string) { r.counts[key]++ }
func (r *Run) CountN(key string, n int) { r.counts[key] += n }

// OracleOK records that the direct property oracle was evaluated on the
// implementation for one input and held.
func (r *Run) OracleOK() { r.oracleChecks++ }

// OracleFail records a concrete input on which the implementation itself
// violates the property. class identifies the narrow failure class (matched
// against known_findings.json); input must allow a replay.
func (r *Run) OracleFail(class string, input any, detail string) {
	r.oracleChecks++
	r.nOracle++
	if r.nOracle > 2000 {
		return
	}
	b, _ := json.Marshal(map[string]any{"class": class, "input": input, "detail": detail})
	r.oracle.Write(b)
	r.oracle.WriteByte('\n')
}

// Sample adds an explicit sample to the evidence.
func (r *Run) Sample(x any) {
	if len(r.samples) < 24 {
		r.samples = append(r.samples, x)
	}
}

func (r *Run) Finish() {
	r.cases.Flush()
	r.impl.Flush()
	r.oracle.Flush()
	for _, f := range r.files {
		f.Close()
	}
	keys := make([]string, 0, len(r.counts))
	for k := range r.counts {
		keys = append(keys, k)
	}
	sort.Strings(keys)
	st := map[string]any{
		"cases": r.n, "distinct": len(r.distinct), "oracle_checks": r.oracleChecks, "oracle_failures": r.nOracle,
		"distribution": r.counts, "samples": r.samples, "seed": r.Seed, "tier": r.Tier,
	}
	b, _ := json.MarshalIndent(st, "", " ")
	os.WriteFile(filepath.Join(r.Dir, "stats.json"), b, 0o644)
}

// ---- encoding helpers (must match ocaml/common.ml) ----

func Hex(b []byte) string { return hex.EncodeToString(b) }
func Int(i int64) string {
	if i < 0 {
		// avoid overflow on MinInt64
		return "-" + new(big.Int).Neg(big.NewInt(i)).Text(16)
	}
	return strconv.FormatInt(i, 16)
}
func Uint(u uint64) string   { return strconv.FormatUint(u, 16) }
func Big(b *big.Int) string  { return b.Text(16) }
func Bool(b bool) string {
	if b {
		return "true"
	}
	return "false"
}
func Ints(l []int) string {
	s := make([]string, len(l))
	for i, v := range l {
		s[i] = Int(int64(v))
	}
	return strings.Join(s, ",")
}
func ResInt(v int64, err error) string {
	if err != nil {
		return "err"
	}
	return "ok:" + Int(v)
}
