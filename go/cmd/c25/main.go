package main

import (
	"bytes"
	"fmt"
	"strings"

	"github.com/pdfcpu/pdfcpu/pkg/api"
	"github.com/pdfcpu/pdfcpu/pkg/pdfcpu"
	"github.com/pdfcpu/pdfcpu/pkg/pdfcpu/model"
)

func minimalPDF(v20 bool) []byte {
	var b bytes.Buffer
	hdr := "%PDF-1.7\n"
	if v20 {
		hdr = "%PDF-2.0\n"
	}
	b.WriteString(hdr)
	offs := []int{}
	obj := func(s string) {
		offs = append(offs, b.Len())
		fmt.Fprintf(&b, "%d 0 obj\n%s\nendobj\n", len(offs), s)
	}
	obj("<< /Type /Catalog /Pages 2 0 R >>")
	obj("<< /Type /Pages /Kids [3 0 R] /Count 1 >>")
	obj("<< /Type /Page /Parent 2 0 R /MediaBox [0 0 200 200] /Contents 4 0 R /Resources << >> >>")
	content := "0 0 m 100 100 l S % verif-c25-marker"
	obj(fmt.Sprintf("<< /Length %d >>\nstream\n%s\nendstream", len(content), content))
	obj("<< /Title (verif c25 secret title) /Producer (x) >>")
	xref := b.Len()
	fmt.Fprintf(&b, "xref\n0 %d\n0000000000 65535 f \n", len(offs)+1)
	for _, o := range offs {
		fmt.Fprintf(&b, "%010d 00000 n \n", o)
	}
	info := " /Info 5 0 R"
	fmt.Fprintf(&b, "trailer\n<< /Size %d /Root 1 0 R%s /ID [<0123456789abcdef0123456789abcdef> <0123456789abcdef0123456789abcdef>] >>\nstartxref\n%d\n%%%%EOF\n", len(offs)+1, info, xref)
	return b.Bytes()
}

func guard(f func() error) (err error) {
	defer func() {
		if x := recover(); x != nil {
			err = fmt.Errorf("PANIC: %v", x)
		}
	}()
	return f()
}

func cls(err error) string {
	c := pdfcpu.VerifC24ErrClass(err)
	if c == "other" {
		return "other:" + err.Error()
	}
	return c
}

func main() {
	api.DisableConfigDir()
	for _, v20 := range []bool{false, true} {
		doc := minimalPDF(v20)
		for _, a := range []struct {
			aes bool
			l   int
		}{{false, 40}, {false, 128}, {true, 128}, {true, 256}} {
			for _, pw := range [][2]string{{"own", "usr"}, {"own", ""}, {"same", "same"}, {"my pass", "u"}, {"o", "my pass"}, {"o", "ª"}, {"o", strings.Repeat("x", 130)}, {strings.Repeat("y", 130), "u"}, {"o", strings.Repeat("z", 40)}} {
				var c *model.Configuration
				if a.aes {
					c = model.NewAESConfiguration(pw[1], pw[0], a.l)
				} else {
					c = model.NewRC4Configuration(pw[1], pw[0], a.l)
				}
				var out bytes.Buffer
				err := guard(func() error { return api.Encrypt(bytes.NewReader(doc), &out, c) })
				fmt.Printf("v20=%v aes=%v l=%d opw=%.10q upw=%.10q encrypt: %s\n", v20, a.aes, a.l, pw[0], pw[1], cls(err))
				if err != nil {
					continue
				}
				enc := out.Bytes()
				for _, try := range [][2]string{{pw[0], ""}, {"", pw[1]}, {"bad", ""}, {"", "bad"}, {"", pw[0]}, {pw[1], ""}, {"", ""}} {
					c2 := model.NewDefaultConfiguration()
					c2.OwnerPW, c2.UserPW = try[0], try[1]
					var ctx *model.Context
					err := guard(func() error {
						var e error
						ctx, e = api.ReadValidateAndOptimize(bytes.NewReader(enc), c2)
						return e
					})
					r := 0
					if ctx != nil && ctx.E != nil {
						r = ctx.E.R
					}
					fmt.Printf("    open o=%.10q u=%.10q: %s ctxnil=%v R=%d\n", try[0], try[1], cls(err), ctx == nil, r)
				}
			}
		}
	}
}
