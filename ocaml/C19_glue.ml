(* C19 glue: object graphs on the wire (same as go/cmd/c19/graph.go).
   obj   := n | T | F | i<hex> | r<hexbytes> | /<hexbytes> | s<hexbytes> | R<hexnr>
          | [ obj* ] | < (k<hexbytes> obj)* > | S < ... > =<hexbytes>
   graph := (#<hexnr> (v|i|l) obj)*        v = entry valid, i = not valid, l = undecoded object stream member (decoded by the writer, never validated: as i)
   tokens are separated by single spaces.
   "write" graph root info delv maxdepth  ->  ok:<table>|dangling=<list>  |  fail  |  fuel
   where <table> is nr:obj; for every surviving number in ascending order (most recent record). *)
open Model
open Common

let rest s = String.sub s 1 (String.length s - 1)

let rec parse_obj (toks : string list) : obj * string list =
  match toks with
  | [] -> failwith "eof"
  | t :: r ->
    if t = "n" then (ONull, r)
    else if t = "T" then (OAtom (n_of_int 1, [n_of_int 1]), r)
    else if t = "F" then (OAtom (n_of_int 1, [n_of_int 0]), r)
    else if t = "[" then parse_arr r []
    else if t = "<" then (let (d, r') = parse_dict r [] in (ODict d, r'))
    else if t = "S" then
      (match r with
       | "<" :: r1 ->
         let (d, r2) = parse_dict r1 [] in
         (match r2 with
          | raw :: r3 when String.length raw > 0 && raw.[0] = '=' -> (OStream (d, bytes_of_hex (rest raw)), r3)
          | _ -> failwith "stream raw")
       | _ -> failwith "stream")
    else match t.[0] with
      | 'i' -> (OInt (z_of_hex (rest t)), r)
      | 'r' -> (OAtom (n_of_int 2, bytes_of_hex (rest t)), r)
      | '/' -> (OName (bytes_of_hex (rest t)), r)
      | 's' -> (OAtom (n_of_int 3, bytes_of_hex (rest t)), r)
      | 'R' -> (ORef (n_of_hex (rest t)), r)
      | _ -> failwith ("bad token " ^ t)
and parse_arr toks acc =
  match toks with
  | "]" :: r -> (OArr (List.rev acc), r)
  | _ -> let (o, r) = parse_obj toks in parse_arr r (o :: acc)
and parse_dict toks acc =
  match toks with
  | ">" :: r -> (List.rev acc, r)
  | k :: r when String.length k > 0 && k.[0] = 'k' ->
    let (o, r') = parse_obj r in parse_dict r' ((bytes_of_hex (rest k), o) :: acc)
  | _ -> failwith "dict"

let toks s = List.filter (fun x -> x <> "") (String.split_on_char ' ' s)

let graph_of_string s =
  let rec go ts acc = match ts with
    | [] -> List.rev acc
    | t :: fl :: r when String.length t > 0 && t.[0] = '#' ->
      let (o, r') = parse_obj r in
      let f = (match fl with "v" -> FValid | "i" | "l" -> FInvalid | _ -> failwith "flag") in
      go r' ((n_of_hex (rest t), (f, o)) :: acc)
    | _ -> failwith "graph" in
  go (toks s) []

let rec ser (b : Buffer.t) (o : obj) : unit =
  match o with
  | ONull -> Buffer.add_string b "n"
  | OAtom (tag, v) ->
    (match int_of_n tag with
     | 1 -> Buffer.add_string b (if v = [n_of_int 1] then "T" else "F")
     | 2 -> Buffer.add_string b ("r" ^ hex_of_bytes v)
     | _ -> Buffer.add_string b ("s" ^ hex_of_bytes v))
  | OInt z -> Buffer.add_string b ("i" ^ hex_of_z z)
  | OName s -> Buffer.add_string b ("/" ^ hex_of_bytes s)
  | ORef n -> Buffer.add_string b ("R" ^ hex_of_n n)
  | OArr l ->
    Buffer.add_string b "[";
    List.iter (fun x -> Buffer.add_char b ' '; ser b x) l;
    Buffer.add_string b " ]"
  | ODict d -> ser_dict b d
  | OStream (d, data) ->
    (* /Length is left out, as in the harness *)
    let d = List.filter (fun (k, _) -> hex_of_bytes k <> "4c656e677468") d in
    Buffer.add_string b "S "; ser_dict b d; Buffer.add_string b (" =" ^ hex_of_bytes data)
and ser_dict b d =
  (* keys sorted bytewise, as the harness does *)
  let d' = List.map (fun (k, v) -> (hex_of_bytes k, v)) d in
  let d' = List.sort (fun (a, _) (b, _) -> compare a b) d' in
  Buffer.add_string b "<";
  List.iter (fun (k, v) -> Buffer.add_string b (" k" ^ k ^ " "); ser b v) d';
  Buffer.add_string b " >"

let digest s =
  if String.length s <= 4000 || Sys.getenv_opt "C19_FULL" <> None then s
  else Printf.sprintf "md5:%s:%d" (Digest.to_hex (Digest.string s)) (String.length s)

let dispatch fn args = match fn, args with
  | "write", [g; root; info; delv; maxd] ->
    let gr = graph_of_string g in
    let inf = if info = "-" then None else Some (n_of_hex info) in
    let md = nat_of_int (int_of_z (z_of_hex maxd) + 1) in
    (match run_write gr md (bool_of_str delv) (n_of_hex root) inf with
     | WFail -> "fail"
     | WFuel -> "fuel"
     | WOk s ->
       (* most recent record per number, ascending *)
       let tbl = Hashtbl.create 64 in
       List.iter (fun (n, (_, o)) ->
           let k = int_of_n n in
           if not (Hashtbl.mem tbl k) then Hashtbl.add tbl k o) s;
       let nrs = List.sort compare (Hashtbl.fold (fun k _ acc -> k :: acc) tbl []) in
       let b = Buffer.create 1024 in
       List.iter (fun k ->
           Buffer.add_string b (Printf.sprintf "%x:" k);
           ser b (Hashtbl.find tbl k);
           Buffer.add_char b ';') nrs;
       (* dangling references of the most recent records *)
       let dang = Hashtbl.create 16 in
       Hashtbl.iter (fun _ o ->
           List.iter (fun m -> let k = int_of_n m in
                       if not (Hashtbl.mem tbl k) then Hashtbl.replace dang k ()) (refs o)) tbl;
       let dl = List.sort compare (Hashtbl.fold (fun k _ acc -> k :: acc) dang []) in
       let text = Buffer.contents b ^ "|dangling=" ^ String.concat "," (List.map (Printf.sprintf "%x") dl) in
       "ok:" ^ digest text)
  | _ -> failwith ("unknown function " ^ fn)
let () = main dispatch
