From Coq Require Import Extraction ExtrOcamlBasic.
From PV Require Import Lib.ExtBase C19.Generated C19.Model.
Extraction "model.ml" ext_base_z ext_base_n ext_base_nat ext_base_res ext_base_list
  run_write refs written rfind unfold rename doc_pages dangling.
