(* C34: from the selected-page map (types.IntSet with false entries for deselected pages) to the
   sorted page list, and the top statements over the map. *)
From PV Require Import Lib.GoInt C34.Generated C34.Model C34.ProofsBase C34.ProofsOrder C34.ProofsNup.
From Coq Require Import Lia Permutation Sorted.
Open Scope Z_scope.

Lemma insertZ_perm x l : Permutation (insertZ x l) (x :: l).
Proof.
  induction l as [|y t IH]; cbn [insertZ]; [reflexivity|].
  destruct (x <=? y); [reflexivity|]. rewrite IH. apply perm_swap.
Qed.

Lemma isortZ_perm l : Permutation (isortZ l) l.
Proof. induction l as [|x t IH]; cbn [isortZ]; [reflexivity|]. rewrite insertZ_perm, IH. reflexivity. Qed.

Lemma insertZ_hd x a l : HdRel Z.le a l -> a <= x -> HdRel Z.le a (insertZ x l).
Proof.
  intros Hl Hax. destruct l as [|y t]; cbn [insertZ]; [constructor; exact Hax|].
  destruct (Z.leb_spec x y); constructor; [exact Hax|]. inversion Hl; assumption.
Qed.

Lemma insertZ_sorted x l : Sorted Z.le l -> Sorted Z.le (insertZ x l).
Proof.
  induction l as [|y t IH]; intros Hs; cbn [insertZ]; [repeat constructor|].
  inversion Hs as [|y' t' Hst Hhd]; subst.
  destruct (Z.leb_spec x y).
  - constructor; [exact Hs|]. constructor. assumption.
  - constructor; [apply IH; exact Hst|]. apply insertZ_hd; [exact Hhd|lia].
Qed.

Lemma isortZ_sorted l : Sorted Z.le (isortZ l).
Proof. induction l as [|x t IH]; cbn [isortZ]; [constructor|]. apply insertZ_sorted. exact IH. Qed.

Lemma selected_keys_in (m : list (Z * bool)) p : In p (map fst (filter snd m)) <-> In (p, true) m.
Proof.
  rewrite in_map_iff. split.
  - intros ((q, b) & Hq & Hin). apply filter_In in Hin. destruct Hin as (Hin & Hb). cbn in Hq, Hb. subst. exact Hin.
  - intros Hin. exists (p, true). split; [reflexivity|]. apply filter_In. split; [exact Hin|reflexivity].
Qed.

Lemma selected_keys_nodup (m : list (Z * bool)) : NoDup (map fst m) -> NoDup (map fst (filter snd m)).
Proof.
  induction m as [|(q, b) t IH]; intros Hnd; cbn [filter map]; [constructor|].
  cbn [map fst] in Hnd. inversion Hnd as [|q' t' Hq Ht]; subst.
  destruct b; cbn [snd map fst]; [|apply IH; exact Ht].
  constructor; [|apply IH; exact Ht].
  intros Hc. apply Hq. apply in_map_iff in Hc. destruct Hc as (y & Hy & Hin).
  apply filter_In in Hin. apply in_map_iff. exists y. split; [exact Hy|apply Hin].
Qed.

Lemma sortSelectedPages_in m p : In p (sortSelectedPages m) <-> In (p, true) m.
Proof.
  unfold sortSelectedPages. rewrite <- selected_keys_in. split; intros H.
  - eapply Permutation_in; [apply isortZ_perm|exact H].
  - eapply Permutation_in; [apply Permutation_sym, isortZ_perm|exact H].
Qed.

Lemma sortSelectedPages_nodup (m : list (Z * bool)) : NoDup (map fst m) -> NoDup (sortSelectedPages m).
Proof.
  intros H. unfold sortSelectedPages.
  eapply Permutation_NoDup; [apply Permutation_sym, isortZ_perm|]. apply selected_keys_nodup. exact H.
Qed.

Lemma sortSelectedPages_spec_lemma : forall m,
  Sorted Z.le (sortSelectedPages m) /\
  (forall p, In p (sortSelectedPages m) <-> In (p, true) m) /\
  (NoDup (map fst m) -> NoDup (sortSelectedPages m)) /\
  (NoDup (map fst m) -> forall p, In (p, false) m -> ~ In p (sortSelectedPages m)).
Proof.
  intros m. split; [apply isortZ_sorted|]. split; [apply sortSelectedPages_in|]. split; [exact (sortSelectedPages_nodup m)|].
  intros Hnd p Hf Hin. apply sortSelectedPages_in in Hin.
  (* two entries with the same key *)
  clear -Hnd Hf Hin. induction m as [|(q, b) t IH]; [contradiction|].
  cbn [map fst] in Hnd. inversion Hnd as [|q' t' Hq Ht]; subst.
  destruct Hf as [Hf|Hf]; destruct Hin as [Hin|Hin].
  - congruence.
  - inversion Hf; subst. apply Hq. apply in_map_iff. exists (p, true). split; [reflexivity|exact Hin].
  - inversion Hin; subst. apply Hq. apply in_map_iff. exists (p, false). split; [reflexivity|exact Hf].
  - apply IH; assumption.
Qed.

(* a deselected key is not a selected one (distinct keys) *)
Lemma deselected_not_selected (m : list (Z * bool)) p : NoDup (map fst m) -> In (p, false) m -> ~ In (p, true) m.
Proof.
  intros Hnd Hf Ht. destruct (sortSelectedPages_spec_lemma m) as (_ & Hin & _ & Hdes).
  apply (Hdes Hnd p Hf). apply Hin. exact Ht.
Qed.

(* counting facts over the map from a permutation statement over the sorted list *)
Lemma map_once (m : list (Z * bool)) (slots : list Z) (b : nat) :
  Permutation slots (sortSelectedPages m ++ repeat 0 b) -> NoDup (map fst m) -> ~ In (0, true) m ->
  (forall p, In (p, true) m -> count_occ Z.eq_dec slots p = 1%nat) /\
  (forall p, p <> 0 -> ~ In (p, true) m -> count_occ Z.eq_dec slots p = 0%nat) /\
  (forall p, p <> 0 -> In (p, false) m -> count_occ Z.eq_dec slots p = 0%nat) /\
  count_occ Z.eq_dec slots 0 = b.
Proof.
  intros Hperm Hnd H0.
  destruct (once_each slots (sortSelectedPages m) b Hperm (sortSelectedPages_nodup m Hnd)
              ltac:(rewrite sortSelectedPages_in; exact H0)) as (H1 & H2 & H3).
  split; [intros p Hp; apply H1; apply sortSelectedPages_in; exact Hp|].
  assert (Hno : forall p, p <> 0 -> ~ In (p, true) m -> count_occ Z.eq_dec slots p = 0%nat).
  { intros p Hp Hn. apply H3; [exact Hp|]. rewrite sortSelectedPages_in. exact Hn. }
  split; [exact Hno|]. split; [|exact H2].
  intros p Hp Hf. apply Hno; [exact Hp|]. apply deselected_not_selected; assumption.
Qed.

Definition selectedCount (m : list (Z * bool)) : Z := slice_len (sortSelectedPages m).

Lemma map_booklet_lemma : forall IW N bt bd ls tf folio m,
  accepted N bt -> fits IW (selectedCount m + 2 * N) -> NoDup (map fst m) -> ~ In (0, true) m ->
  exists slots, getBookletOrderingOfMap IW N bt bd ls tf false folio m = Ok slots /\
    (forall p, In (p, true) m -> count_occ Z.eq_dec (map fst slots) p = 1%nat) /\
    (forall p, p <> 0 -> ~ In (p, true) m -> count_occ Z.eq_dec (map fst slots) p = 0%nat) /\
    (forall p, p <> 0 -> In (p, false) m -> count_occ Z.eq_dec (map fst slots) p = 0%nat) /\
    Z.of_nat (count_occ Z.eq_dec (map fst slots) 0) = Z.of_nat (length slots) - selectedCount m /\
    Z.of_nat (length slots) mod (2 * N) = 0 /\ 0 <= Z.of_nat (length slots) - selectedCount m < 2 * N.
Proof.
  intros IW N bt bd ls tf folio m Ha Hf Hnd H0. unfold getBookletOrderingOfMap, selectedCount in *.
  destruct (ordering_plain IW N bt bd ls tf folio (sortSelectedPages m) Ha Hf) as (slots & E & Hlen & Hperm).
  exists slots. split; [exact E|].
  destruct (map_once m _ _ Hperm Hnd H0) as (H1 & H2 & H3 & H4).
  destruct Ha as (HN & _).
  destruct (padTo_spec (slice_len (sortSelectedPages m)) (2 * N) (slice_len_nonneg _) ltac:(lia)) as (Hm & Hr).
  repeat split; try assumption; rewrite ?H4, ?Hlen; first [lia | exact Hm].
Qed.

Lemma map_multifolio_partial_lemma : forall IW N bt bd ls tf folio m,
  accepted N bt -> 1 <= folio -> (4 * folio) mod (2 * N) = 0 -> 1 <= selectedCount m ->
  fits IW (selectedCount m + 2 * N) -> NoDup (map fst m) -> ~ In (0, true) m ->
  exists slots, getBookletOrderingOfMap IW N bt bd ls tf true folio m = Ok slots /\
    (forall p, In (p, true) m -> count_occ Z.eq_dec (map fst slots) p = 1%nat) /\
    (forall p, p <> 0 -> ~ In (p, true) m -> count_occ Z.eq_dec (map fst slots) p = 0%nat) /\
    (forall p, p <> 0 -> In (p, false) m -> count_occ Z.eq_dec (map fst slots) p = 0%nat) /\
    Z.of_nat (count_occ Z.eq_dec (map fst slots) 0) = Z.of_nat (length slots) - selectedCount m /\
    Z.of_nat (length slots) mod (2 * N) = 0 /\ 0 <= Z.of_nat (length slots) - selectedCount m < 2 * N.
Proof.
  intros IW N bt bd ls tf folio m Ha Hfo Hg Hk Hf Hnd H0. unfold getBookletOrderingOfMap, selectedCount in *.
  destruct (ordering_multifolio IW N bt bd ls tf folio (sortSelectedPages m) Ha Hfo Hg Hk Hf) as (slots & E & Hlen & Hperm).
  exists slots. split; [exact E|].
  destruct (map_once m _ _ Hperm Hnd H0) as (H1 & H2 & H3 & H4).
  destruct Ha as (HN & _).
  destruct (padTo_spec (slice_len (sortSelectedPages m)) (2 * N) (slice_len_nonneg _) ltac:(lia)) as (Hm & Hr).
  repeat split; try assumption; rewrite ?H4, ?Hlen; first [lia | exact Hm].
Qed.

Lemma map_nup_lemma : forall IW N m, 0 < N ->
  exists blanks, nupSlotsOfMap IW N m = sortSelectedPages m ++ repeat 0 (Z.to_nat blanks) /\
    0 <= blanks < N /\ (selectedCount m + blanks) mod N = 0 /\
    (1 <= selectedCount m -> nupOutputPagesOfMap N m = (selectedCount m + N - 1) / N).
Proof.
  intros IW N m HN. unfold nupSlotsOfMap, nupOutputPagesOfMap, selectedCount.
  exists (padTo (slice_len (sortSelectedPages m)) N - slice_len (sortSelectedPages m)).
  split; [apply nupSlots_spec; exact HN|].
  destruct (padTo_spec (slice_len (sortSelectedPages m)) N (slice_len_nonneg _) HN) as (Hm & Hr).
  split; [lia|]. split.
  - replace (slice_len (sortSelectedPages m) + (padTo (slice_len (sortSelectedPages m)) N - slice_len (sortSelectedPages m)))
      with (padTo (slice_len (sortSelectedPages m)) N) by lia. exact Hm.
  - intros Hk. apply nupOutputPages_spec; assumption.
Qed.
