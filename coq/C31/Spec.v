(* C31 — the selection syntax and its meaning, written independently of the handlers (no proofs).
   Syntax: a non-empty comma separated list of terms; a term is even, odd, or an optionally negated
   ('!' or 'n') range term of one of eleven forms over decimal numbers (non-empty digit strings). *)
From Coq Require Import ZArith NArith Bool List.
From PV Require Import Lib.GoInt C31.Model.
Import ListNotations.
Open Scope Z_scope.

Inductive rterm :=
| RNum (a : str)            (* #      *)
| RUpTo (a : str)           (* -#     *)
| RFrom (a : str)           (* #-     *)
| RRange (a b : str)        (* #-#    *)
| RL                        (* l      *)
| RLm (a : str)             (* l-#    *)
| RLmTo (a : str)           (* l-#-   *)
| RUpToL                    (* -l     *)
| RUpToLm (a : str)         (* -l-#   *)
| RFromL (a : str)          (* #-l    *)
| RFromLm (a b : str).      (* #-l-#  *)

Inductive negk := NoNeg | Bang | En.
Inductive term := TEven | TOdd | TR (k : negk) (r : rterm).

Definition is_num (a : str) : bool := match a with [] => false | _ :: _ => forallb is_digit a end.

Definition wf_r (r : rterm) : bool :=
  match r with
  | RNum a | RUpTo a | RFrom a | RLm a | RLmTo a | RUpToLm a | RFromL a => is_num a
  | RRange a b | RFromLm a b => is_num a && is_num b
  | RL | RUpToL => true
  end.
Definition wf (t : term) : bool := match t with TR _ r => wf_r r | _ => true end.

Definition render_r (r : rterm) : str :=
  match r with
  | RNum a => a
  | RUpTo a => cMinus :: a
  | RFrom a => a ++ [cMinus]
  | RRange a b => a ++ cMinus :: b
  | RL => [cL]
  | RLm a => cL :: cMinus :: a
  | RLmTo a => cL :: cMinus :: a ++ [cMinus]
  | RUpToL => [cMinus; cL]
  | RUpToLm a => cMinus :: cL :: cMinus :: a
  | RFromL a => a ++ [cMinus; cL]
  | RFromLm a b => a ++ cMinus :: cL :: cMinus :: b
  end.
Definition render_term (t : term) : str :=
  match t with
  | TEven => sEven
  | TOdd => sOdd
  | TR NoNeg r => render_r r
  | TR Bang r => cBang :: render_r r
  | TR En r => cN :: render_r r
  end.
Fixpoint join (c : N) (l : list str) : str :=
  match l with
  | [] => []
  | [x] => x
  | x :: r => x ++ c :: join c r
  end.
Definition render (e : list term) : str := join cComma (map render_term e).

(* ---- recogniser of the syntax (what the regular expression was meant to accept) ---- *)
Definition parse_rterm (v : str) : option rterm :=
  match split_on cMinus v with
  | [a] => if is_num a then Some (RNum a) else if str_eqb a sL then Some RL else None
  | [a; b] =>
      if is_nil a then
        (if is_num b then Some (RUpTo b) else if str_eqb b sL then Some RUpToL else None)
      else if is_num a then
        (if is_nil b then Some (RFrom a)
         else if is_num b then Some (RRange a b)
         else if str_eqb b sL then Some (RFromL a) else None)
      else if str_eqb a sL then (if is_num b then Some (RLm b) else None)
      else None
  | [a; b; c] =>
      if is_nil a then (if str_eqb b sL && is_num c then Some (RUpToLm c) else None)
      else if is_num a then (if str_eqb b sL && is_num c then Some (RFromLm a c) else None)
      else if str_eqb a sL then (if is_num b && is_nil c then Some (RLmTo b) else None)
      else None
  | _ => None
  end.
Definition parse_term (tok : str) : option term :=
  if str_eqb tok sEven then Some TEven
  else if str_eqb tok sOdd then Some TOdd
  else match tok with
       | [] => None
       | c :: rest =>
           if N.eqb c cBang then option_map (TR Bang) (parse_rterm rest)
           else if N.eqb c cN then option_map (TR En) (parse_rterm rest)
           else option_map (TR NoNeg) (parse_rterm tok)
       end.
Definition is_some {A} (o : option A) : bool := match o with Some _ => true | None => false end.
Definition in_syntax (s : str) : bool :=
  match s with
  | [] => false
  | _ :: _ => forallb (fun t => is_some (parse_term t)) (split_on cComma s)
  end.

(* ---- meaning ---- *)
(* value of a decimal number *)
Definition dval (a : str) : Z := fold_left (fun acc c => acc * 10 + (Z.of_N c - 48)) a 0.
(* numbers beyond the int range are an error when (and only when) they are read *)
Definition bad (a : str) : bool := negb (dval a <=? maxS 64).

(* the page interval a range term denotes on a document of n pages, before intersecting with 1..n.
   l is the last page, l-# counts back from it; "l-#-" denotes nothing when l-# is not a page. *)
Definition raw_bounds (n : Z) (r : rterm) : Z * Z :=
  match r with
  | RNum a => (dval a, dval a)
  | RUpTo a => (1, dval a)
  | RFrom a => (dval a, n)
  | RRange a b => (dval a, dval b)
  | RL => (n, n)
  | RLm a => (n - dval a, n - dval a)
  | RLmTo a => if n - dval a <? 1 then (1, 0) else (n - dval a, n)
  | RUpToL => (1, n)
  | RUpToLm a => (1, n - dval a)
  | RFromL a => (dval a, n)
  | RFromLm a b => (dval a, n - dval b)
  end.
Definition bounds (n : Z) (r : rterm) : Z * Z :=
  (Z.max 1 (fst (raw_bounds n r)), Z.min n (snd (raw_bounds n r))).
Definition in_term (n : Z) (r : rterm) (p : Z) : bool :=
  (fst (bounds n r) <=? p) && (p <=? snd (bounds n r)).

(* a term is in error when a number that has to be read does not fit an int; the second number of
   #-# and #-l-# is not read when the first one is already beyond the page count *)
Definition term_err (n : Z) (r : rterm) : bool :=
  match r with
  | RNum a | RUpTo a | RFrom a | RLm a | RLmTo a | RUpToLm a | RFromL a => bad a
  | RRange a b | RFromLm a b => bad a || ((dval a <=? n) && bad b)
  | RL | RUpToL => false
  end.

Definition negated (k : negk) : bool := match k with NoNeg => false | _ => true end.

(* selections: the decision state of one page p: None = undecided, Some b = selected / deselected *)
Definition sel_step (n p : Z) (st : option bool) (t : term) : option bool :=
  match t with
  | TEven => match st with None => if (1 <=? p) && (p <=? n) && Z.even p then Some true else None | _ => st end
  | TOdd => match st with None => if (1 <=? p) && (p <=? n) && Z.odd p then Some true else None | _ => st end
  | TR k r => if in_term n r p then Some (negb (negated k)) else st
  end.
Definition sel_den (n : Z) (e : list term) (p : Z) : option bool := fold_left (sel_step n p) e None.

Definition term_fails (n : Z) (t : term) : bool := match t with TR _ r => term_err n r | _ => false end.
Definition expr_fails (n : Z) (e : list term) : bool := existsb (term_fails n) e.

(* collections *)
Fixpoint zseq (lo : Z) (k : nat) : list Z := match k with O => [] | S k' => lo :: zseq (lo + 1) k' end.
Definition zrange (lo hi : Z) : list Z := zseq lo (Z.to_nat (hi - lo + 1)).
Fixpoint zstep2 (start : Z) (k : nat) : list Z := match k with O => [] | S k' => start :: zstep2 (start + 2) k' end.
Definition evens (n : Z) : list Z := filter Z.even (zrange 1 n).
Definition odds (n : Z) : list Z := filter Z.odd (zrange 1 n).
Definition col_step (n : Z) (acc : list Z) (t : term) : list Z :=
  match t with
  | TEven => acc ++ evens n
  | TOdd => acc ++ odds n
  | TR k r =>
      if negated k then filter (fun q => negb (in_term n r q)) acc
      else acc ++ zrange (fst (bounds n r)) (snd (bounds n r))
  end.
Definition col_den (n : Z) (e : list term) : list Z := fold_left (col_step n) e [].

Definition in_pages (n p : Z) : Prop := 1 <= p <= n.
