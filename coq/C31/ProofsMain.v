(* C31 — lemmas.  Part 5: the statements of Property.v. *)
From Coq Require Import ZArith NArith Bool List Lia ZifyBool ZifyNat ZifyN.
From PV Require Import Lib.GoInt C31.Model C31.Spec C31.Proofs C31.ProofsHandlers C31.ProofsSel C31.ProofsSyntax.
Import ListNotations.
Open Scope Z_scope.

Lemma selectedPages_spec n e : 0 <= n -> forallb wf e = true ->
  match selectedPages n (map render_term e) with
  | Err => expr_fails n e = true
  | Ok m => expr_fails n e = false /\ forall p, mfind p m = sel_den n e p
  end.
Proof.
  intros Hn Hwf. unfold selectedPages. rewrite calc_spec_ok by assumption.
  apply (sel_calc_spec n e Hn [] (fun _ => None)). reflexivity.
Qed.

Lemma selection_is_fold n e ens : 0 <= n -> e <> [] -> forallb wf e = true ->
  match PagesForPageSelection n (map render_term e) ens with
  | Err => expr_fails n e = true
  | Ok None => False
  | Ok (Some m) => expr_fails n e = false /\ forall p, mfind p m = sel_den n e p
  end.
Proof.
  intros Hn Hne Hwf. pose proof (selectedPages_spec n e Hn Hwf) as H.
  unfold PagesForPageSelection. destruct e as [|t e]; [contradiction|]. cbn [map] in *.
  destruct (selectedPages n (render_term t :: map render_term e)); assumption.
Qed.

Lemma selection_in_range n e ens m : 0 <= n -> e <> [] -> forallb wf e = true ->
  PagesForPageSelection n (map render_term e) ens = Ok (Some m) ->
  forall p b, In (p, b) m -> 1 <= p <= n.
Proof.
  intros Hn Hne Hwf Hm p b Hin.
  pose proof (selection_is_fold n e ens Hn Hne Hwf) as H. rewrite Hm in H. destruct H as [_ H].
  pose proof (mfind_in p b m Hin) as Hf. rewrite H in Hf.
  destruct (sel_den n e p) as [b'|] eqn:E; [|contradiction].
  unfold sel_den in E. eapply sel_den_in_range; [|exact E]. discriminate.
Qed.

Lemma collection_is_fold n e : 0 <= n -> forallb wf e = true ->
  PagesForPageCollection n (map render_term e) =
  if expr_fails n e then CErrToken
  else match col_den n e with [] => CErrNoPage | p :: l => COk (p :: l) end.
Proof.
  intros Hn Hwf. unfold PagesForPageCollection, calcPagesForPageCollection.
  rewrite calc_spec_ok by assumption. rewrite col_calc_spec by assumption.
  destruct (expr_fails n e); reflexivity.
Qed.

Lemma collection_in_range n e l : 0 <= n -> forallb wf e = true ->
  PagesForPageCollection n (map render_term e) = COk l -> Forall (in_pages n) l.
Proof.
  intros Hn Hwf H. rewrite collection_is_fold in H by assumption.
  destruct (expr_fails n e); [discriminate|].
  pose proof (col_den_in_range n e [] (Forall_nil _)) as Hr. fold (col_den n e) in Hr.
  destruct (col_den n e); [discriminate|]. inversion H. subst l. exact Hr.
Qed.

(* witnesses: strings the real regular expression lets through *)
Definition w_123 : str := [49; 45; 50; 45; 51]%N.          (* "1-2-3" *)
Definition w_plus5 : str := [43; 53]%N.                     (* "+5" *)
Definition w_lmm5 : str := [45; 108; 45; 45; 53]%N.         (* "-l--5" *)

Lemma not_in_syntax s : in_syntax s = false ->
  ~ exists e, e <> [] /\ forallb wf e = true /\ render e = s.
Proof. intros H Hex. apply in_syntax_exact in Hex. congruence. Qed.

Lemma rejects_outside_syntax_refuted :
  exists s toks m,
    (~ exists e, e <> [] /\ forallb wf e = true /\ render e = s)
    /\ ParsePageSelection s = Some toks
    /\ PagesForPageSelection 5 toks false = Ok (Some m) /\ mfind 2 m = Some true
    /\ PagesForPageCollection 5 toks = COk [1; 2].
Proof.
  exists w_123, [w_123], [(1, true); (2, true)].
  split; [apply not_in_syntax; vm_compute; reflexivity|]. vm_compute. repeat split; reflexivity.
Qed.

Lemma selection_in_range_refuted :
  exists s toks n m p b,
    ParsePageSelection s = Some toks /\ PagesForPageSelection n toks false = Ok (Some m)
    /\ In (p, b) m /\ ~ (1 <= p <= n).
Proof.
  exists w_lmm5, [w_lmm5], 2, [(1, true); (2, true); (3, true); (4, true); (5, true); (6, true); (7, true)], 7, true.
  split; [vm_compute; reflexivity|]. split; [vm_compute; reflexivity|].
  split; [cbn; tauto|lia].
Qed.

Lemma collection_in_range_refuted :
  exists s toks n l p,
    ParsePageSelection s = Some toks /\ PagesForPageCollection n toks = COk l
    /\ In p l /\ ~ (1 <= p <= n).
Proof.
  exists w_lmm5, [w_lmm5], 2, [1; 2; 3; 4; 5; 6; 7], 7.
  split; [vm_compute; reflexivity|]. split; [vm_compute; reflexivity|].
  split; [cbn; tauto|lia].
Qed.
