// Harness for C36 — bookmark export/import round trip (pkg/pdfcpu/bookmark.go, pkg/api/bookmark.go).
//
// K (correspondence with coq/C36/Model.v):
//
//	roundtrip  forest -> api.ImportBookmarks (JSON, replace) on a generated PDF -> api.ExportBookmarksJSON
//	build      forest -> pdfcpu.AddBookmarks on an in-memory context -> dump of the outline object graph
//	read       arbitrary/corrupted outline graph injected into a context -> pdfcpu.Bookmarks
//
// O (property evaluated on the implementation):
//
//	export(import(f)) == f for every accepted forest with export-normal titles;
//	export -> import -> export is the identity on the exported JSON (literal property);
//	export terminates on corrupted outlines (in memory and through raw PDF files).
package main

import (
	"bytes"
	"encoding/json"
	"errors"
	"fmt"
	"math"
	"os"
	"strings"
	"strconv"
	"time"
	"unicode/utf16"

	"verif/vh"

	"github.com/pdfcpu/pdfcpu/pkg/api"
	"github.com/pdfcpu/pdfcpu/pkg/pdfcpu"
	"github.com/pdfcpu/pdfcpu/pkg/pdfcpu/color"
	"github.com/pdfcpu/pdfcpu/pkg/pdfcpu/model"
	"github.com/pdfcpu/pdfcpu/pkg/pdfcpu/types"
)

// ---------------------------------------------------------------- PDF generation

type rawObj struct {
	nr   int
	body string
}

// makePDF returns a k-page PDF: 1 catalog, 2 page tree, page i = object 3+2(i-1), contents 4+2(i-1).
// extra objects (numbered from 3+2k) are appended; catalogExtra goes into the catalog dict.
func makePDF(k int, catalogExtra string, extra []rawObj) []byte {
	var b bytes.Buffer
	offs := map[int]int{}
	max := 0
	obj := func(nr int, s string) {
		offs[nr] = b.Len()
		if nr > max {
			max = nr
		}
		fmt.Fprintf(&b, "%d 0 obj\n%s\nendobj\n", nr, s)
	}
	b.WriteString("%PDF-1.4\n")
	obj(1, "<< /Type /Catalog /Pages 2 0 R "+catalogExtra+" >>")
	kids := make([]string, k)
	for i := 0; i < k; i++ {
		kids[i] = fmt.Sprintf("%d 0 R", 3+2*i)
	}
	obj(2, fmt.Sprintf("<< /Type /Pages /Kids [%s] /Count %d >>", strings.Join(kids, " "), k))
	for i := 0; i < k; i++ {
		obj(3+2*i, fmt.Sprintf("<< /Type /Page /Parent 2 0 R /MediaBox [0 0 %d 300] /Resources << >> /Contents %d 0 R >>", 200+i%5, 4+2*i))
		content := fmt.Sprintf("0 0 m %d 100 l S", 10+i)
		obj(4+2*i, fmt.Sprintf("<< /Length %d >>\nstream\n%s\nendstream", len(content), content))
	}
	for _, o := range extra {
		obj(o.nr, o.body)
	}
	x := b.Len()
	fmt.Fprintf(&b, "xref\n0 %d\n0000000000 65535 f \n", max+1)
	for i := 1; i <= max; i++ {
		if o, ok := offs[i]; ok {
			fmt.Fprintf(&b, "%010d 00000 n \n", o)
		} else {
			fmt.Fprintf(&b, "%010d 65535 f \n", 0)
		}
	}
	fmt.Fprintf(&b, "trailer\n<< /Size %d /Root 1 0 R >>\nstartxref\n%d\n%%%%EOF\n", max+1, x)
	return b.Bytes()
}

// ---------------------------------------------------------------- wire format

func colStr(c *color.SimpleColor) string {
	if c == nil {
		return "-"
	}
	return fmt.Sprintf("%x,%x,%x", math.Float32bits(c.R), math.Float32bits(c.G), math.Float32bits(c.B))
}

func titleStr(s string) string {
	if s == "" {
		return "-"
	}
	return vh.Hex([]byte(s))
}

func forestStr(bms []pdfcpu.Bookmark) string {
	var sb strings.Builder
	var rec func(l []pdfcpu.Bookmark)
	rec = func(l []pdfcpu.Bookmark) {
		if len(l) == 0 {
			sb.WriteString(".")
			return
		}
		b := l[0]
		fmt.Fprintf(&sb, "N %s %s %d %s ", titleStr(b.Title), vh.Int(int64(b.PageFrom)), b.Style(), colStr(b.Color))
		rec(b.Kids)
		sb.WriteString(" ")
		rec(l[1:])
	}
	rec(bms)
	return sb.String()
}

func guard(f func() string) (s string) {
	defer func() {
		if p := recover(); p != nil {
			s = fmt.Sprintf("PANIC:%v", p)
		}
	}()
	return f()
}

// withTimeout runs f; ok=false if it did not return within d.
func withTimeout(d time.Duration, f func() string) (string, bool) {
	ch := make(chan string, 1)
	go func() { ch <- guard(f) }()
	select {
	case s := <-ch:
		return s, true
	case <-time.After(d):
		return "", false
	}
}

// ---------------------------------------------------------------- implementation under test

func importErrClass(err error) string {
	switch {
	case errors.Is(err, pdfcpu.ErrInvalidBookmark):
		return "imperr:invalid"
	case errors.Is(err, model.ErrMaxRecursionDepthExceeded):
		return "imperr:depth"
	case strings.Contains(err.Error(), "page dict: page not found"):
		return "imperr:page"
	}
	return "imperr:other:" + vh.Hex([]byte(err.Error()))
}

func exportErrClass(err error) string {
	switch {
	case errors.Is(err, pdfcpu.ErrCircularBookmarks):
		return "rerr:cycle"
	case errors.Is(err, model.ErrMaxRecursionDepthExceeded):
		return "rerr:depth"
	case errors.Is(err, model.ErrExpectedDict):
		return "rerr:deref"
	case strings.Contains(err.Error(), "first kid: expected indirect reference"):
		return "rerr:first"
	case strings.Contains(err.Error(), "destination"):
		return "rerr:dest"
	}
	return "rerr:other:" + vh.Hex([]byte(err.Error()))
}

func exportJSON(pdf []byte) ([]pdfcpu.Bookmark, []byte, error) {
	var ex bytes.Buffer
	err := api.ExportBookmarksJSON(bytes.NewReader(pdf), &ex, "x.pdf", nil)
	if err != nil {
		if errors.Is(err, api.ErrNoBookmarks) {
			return nil, nil, nil
		}
		return nil, nil, err
	}
	var t pdfcpu.BookmarkTree
	if err := json.Unmarshal(ex.Bytes(), &t); err != nil {
		return nil, nil, err
	}
	return t.Bookmarks, ex.Bytes(), nil
}

// implRoundtrip: JSON -> ImportBookmarks(replace) -> ExportBookmarksJSON.
func implRoundtrip(pc int, js []byte) (res string, out []pdfcpu.Bookmark, pdf []byte) {
	var w bytes.Buffer
	err := api.ImportBookmarks(bytes.NewReader(makePDF(pc, "", nil)), bytes.NewReader(js), &w, true, nil)
	if err != nil {
		return importErrClass(err), nil, nil
	}
	bms, _, err := exportJSON(w.Bytes())
	if err != nil {
		return exportErrClass(err), nil, w.Bytes()
	}
	return "ok " + forestStr(bms), bms, w.Bytes()
}

// ---------------------------------------------------------------- forest generation

var titlePool = []string{"A", "A", "B", "0", "C", "Ä", "日本語", "😀 x", "(paren)", "A b", "Kapitel 1", "é", "Z", "a", "~", "A!", " ",
	// Latin-1 only titles, among them "mojibake-shaped" ones: a character in U+00C2..U+00DF directly
	// followed by one in U+00A1..U+00BF.  Written as one-byte (PDFDocEncoding) strings their bytes
	// are valid UTF-8 and a UTF-8-first reader decodes them to different text.
	"RÃ©sumÃ©", "CafÃ© Â§1", "Â©", "Ã¤Ã¶Ã¼", "©§¡¿ÿ", "Ð¡ Þ¿", "naïve façade"}

// titles with a backslash: the text decoding applied to /Dest names (types.HexLiteralToString ->
// Unescape) is not the identity on them; the model treats that decoding as the identity, so these
// go to the oracle only (mode 3), not to the correspondence stream.
var bsPool = []string{"(par\\en)", "a\\b", "C:\\dir\\file", "x\\", "\\101"}

func genTitle(r *vh.Run, mode int) string {
	if mode == 3 && r.Rand.Intn(3) == 0 {
		return bsPool[r.Rand.Intn(len(bsPool))]
	}
	switch x := r.Rand.Intn(20); {
	case x < 12:
		return titlePool[r.Rand.Intn(len(titlePool))]
	case x < 14:
		return titlePool[r.Rand.Intn(4)]
	case x < 17:
		// random unicode
		n := 1 + r.Rand.Intn(8)
		rs := make([]rune, n)
		for i := 0; i < n; i++ {
			switch r.Rand.Intn(6) {
			case 4:
				rs[i] = rune(0xa1 + r.Rand.Intn(0x5f)) // Latin-1 U+00A1..U+00FF
			case 5:
				rs[i] = rune(0xc2 + r.Rand.Intn(0x1e)) // U+00C2..U+00DF followed by U+00A1..U+00BF
				if i+1 < n {
					i++
					rs[i] = rune(0xa1 + r.Rand.Intn(0x1f))
				}
			case 0:
				rs[i] = rune(0x20 + r.Rand.Intn(0x5f))
				if rs[i] == '\\' {
					rs[i] = '/'
				}
			case 1:
				rs[i] = rune(0xa0 + r.Rand.Intn(0x200))
			case 2:
				rs[i] = rune(0x4e00 + r.Rand.Intn(0x1000))
			default:
				rs[i] = rune(0x1f600 + r.Rand.Intn(0x40))
			}
		}
		return string(rs)
	case x < 19 || mode == 0 || mode == 3:
		return titlePool[r.Rand.Intn(len(titlePool))] + fmt.Sprint(r.Rand.Intn(30))
	default:
		// not in export-normal form: control bytes
		return []string{"a\x01b", "\x02", "\tT\n", "A\x01", "x\x10"}[r.Rand.Intn(5)]
	}
}

var colPool = []float32{0, 1, 0.5, 0.25, 0.75, 0.3, 0.1, 0.125, 0.9, 0.333}

// genForest: mode 0 = valid and export-normal, 1 = may contain control bytes in titles,
// 2 = may contain invalid pages / ordering.
func genForest(r *vh.Run, pc, depth, maxDepth, mode int, minPage int) []pdfcpu.Bookmark {
	n := 1 + r.Rand.Intn(6)
	if depth > 0 {
		n = 1 + r.Rand.Intn(4)
	}
	if depth >= 3 {
		n = 1 + r.Rand.Intn(2)
	}
	var out []pdfcpu.Bookmark
	page := minPage
	for i := 0; i < n; i++ {
		if r.Rand.Intn(2) == 0 && page < pc {
			page += r.Rand.Intn(pc - page + 1)
		}
		b := pdfcpu.Bookmark{Title: genTitle(r, mode), PageFrom: page}
		if mode == 2 && r.Rand.Intn(12) == 0 {
			b.PageFrom = []int{0, -1, pc + 1, page - 1, 1}[r.Rand.Intn(5)]
		}
		if r.Rand.Intn(4) == 0 {
			b.Bold = true
		}
		if r.Rand.Intn(4) == 0 {
			b.Italic = true
		}
		if r.Rand.Intn(3) == 0 {
			c := color.SimpleColor{R: colPool[r.Rand.Intn(len(colPool))], G: colPool[r.Rand.Intn(len(colPool))], B: colPool[r.Rand.Intn(len(colPool))]}
			b.Color = &c
		}
		if depth+1 < maxDepth && r.Rand.Intn(3) == 0 {
			mp := b.PageFrom
			if mp < 1 {
				mp = 1
			}
			if mp > pc {
				mp = pc
			}
			b.Kids = genForest(r, pc, depth+1, maxDepth, mode, mp)
		}
		out = append(out, b)
	}
	return out
}

func clean(bms []pdfcpu.Bookmark) bool {
	for _, b := range bms {
		if b.Title == "" {
			return false
		}
		for i := 0; i < len(b.Title); i++ {
			if b.Title[i] < 32 {
				return false
			}
		}
		if !clean(b.Kids) {
			return false
		}
	}
	return true
}

func titles(bms []pdfcpu.Bookmark, m map[string]int) {
	for _, b := range bms {
		m[b.Title]++
		titles(b.Kids, m)
	}
}

func countNodes(bms []pdfcpu.Bookmark) int {
	n := 0
	for _, b := range bms {
		n += 1 + countNodes(b.Kids)
	}
	return n
}

// sameButPages: the two forests agree in everything except target pages.
func sameButPages(a, b []pdfcpu.Bookmark) bool {
	if len(a) != len(b) {
		return false
	}
	for i := range a {
		x, y := a[i], b[i]
		if x.Title != y.Title || x.Bold != y.Bold || x.Italic != y.Italic || colStr(x.Color) != colStr(y.Color) || !sameButPages(x.Kids, y.Kids) {
			return false
		}
	}
	return true
}

func mismatchClass(in, out []pdfcpu.Bookmark) string {
	m := map[string]int{}
	titles(in, m)
	dup := false
	for _, c := range m {
		if c > 1 {
			dup = true
		}
	}
	bs := false
	for t := range m {
		if strings.Contains(t, "\\") {
			bs = true
		}
	}
	if bs && sameButPages(in, out) {
		// two different titles whose /Dest names coincide after HexLiteralToString/Unescape
		// ("(par\\en)" and "(paren)"): one of them exports with the other's page
		return "backslash-title-wrong-page"
	}
	if dup && sameButPages(in, out) {
		// a bookmark with a duplicate title exports with the page of another bookmark of that title
		return "dup-title-wrong-page"
	}
	return "roundtrip-mismatch"
}

// norm is what the first export makes of a forest (bookmark.go outlineItemTitle / the `continue`
// on an empty title): bytes below 32 dropped, bookmarks whose title becomes empty dropped with
// their subtree.
func norm(bms []pdfcpu.Bookmark) []pdfcpu.Bookmark {
	var out []pdfcpu.Bookmark
	for _, b := range bms {
		var sb strings.Builder
		for i := 0; i < len(b.Title); i++ {
			if b.Title[i] >= 32 {
				sb.WriteByte(b.Title[i])
			}
		}
		if sb.Len() == 0 {
			continue
		}
		c := b
		c.Title = sb.String()
		c.Kids = norm(b.Kids)
		out = append(out, c)
	}
	return out
}

func nameRefDecodeError(res string) bool {
	if !strings.HasPrefix(res, "imperr:other:") {
		return false
	}
	return strings.Contains(res, vh.Hex([]byte("name reference entry")))
}

// oneRoundtrip: valid = the forest satisfies import's documented conditions by construction
// (pages in range, non-decreasing among siblings, kids not before their parent), k = also a
// correspondence case.  Returns whether export(import(f)) == norm(f).
func oneRoundtrip(r *vh.Run, pc int, bms []pdfcpu.Bookmark, tag string, valid, k bool) bool {
	js, err := json.Marshal(pdfcpu.BookmarkTree{Bookmarks: bms})
	if err != nil {
		panic(err)
	}
	in := forestStr(bms)
	var out []pdfcpu.Bookmark
	res := guard(func() string {
		var s string
		s, out, _ = implRoundtrip(pc, js)
		return s
	})
	if k {
		r.Case("roundtrip", []string{vh.Int(int64(pc)), in}, res)
	}
	r.Count("roundtrip:" + tag)
	r.Count(fmt.Sprintf("roundtrip-nodes<=%d", (countNodes(bms)+4)/5*5))
	input := map[string]any{"pages": pc, "json": string(js)}
	if strings.HasPrefix(res, "PANIC") {
		r.OracleFail("panic-import-export", input, res)
		return false
	}
	if !strings.HasPrefix(res, "ok ") {
		parts := strings.SplitN(res, ":", 3)
		r.Count("roundtrip-result:" + parts[0] + ":" + parts[1])
		switch {
		case strings.HasPrefix(res, "rerr"):
			// import accepted the forest but the result cannot be exported
			r.OracleFail("imported-not-exportable", input, res)
		case nameRefDecodeError(res):
			// a duplicate title whose /Dest name does not survive HexLiteralToString (backslash,
			// bytes 0x18-0x1f): updateNameRef refuses the rename and the whole import fails
			r.OracleFail("dup-title-name-ref-decode", input, res)
		case valid:
			r.OracleFail("valid-forest-rejected", input, res)
		}
		return false
	}
	r.Count("roundtrip-result:ok")
	want := forestStr(norm(bms))
	if res == "ok "+want {
		r.OracleOK()
		return true
	}
	r.OracleFail(mismatchClass(norm(bms), out), input, "want="+want+" got="+res[3:])
	return false
}

// literal property: export E1 of a document, import E1 into a document with the same pages
// (replacing the existing bookmarks), export again: E2 == E1.  Only called when the document's
// first export is what it should be (otherwise the defect is already reported).
func exportImportExport(r *vh.Run, pc int, bms []pdfcpu.Bookmark) {
	js, _ := json.Marshal(pdfcpu.BookmarkTree{Bookmarks: bms})
	input := map[string]any{"pages": pc, "json": string(js), "stage": "export-import-export"}
	var w bytes.Buffer
	if err := api.ImportBookmarks(bytes.NewReader(makePDF(pc, "", nil)), bytes.NewReader(js), &w, true, nil); err != nil {
		r.Count("eie:first-import-rejected")
		return
	}
	e1, j1, err := exportJSON(w.Bytes())
	if err != nil || len(e1) == 0 {
		r.Count("eie:first-export-empty-or-error")
		return
	}
	// import the exported JSON as is (header included) into the document that already has bookmarks
	var w2 bytes.Buffer
	if err := api.ImportBookmarks(bytes.NewReader(w.Bytes()), bytes.NewReader(j1), &w2, true, nil); err != nil {
		cl := "export-not-reimportable"
		if nameRefDecodeError(importErrClass(err)) {
			cl = "dup-title-name-ref-decode"
		}
		r.OracleFail(cl, input, vh.Hex([]byte(err.Error())))
		return
	}
	e2, _, err := exportJSON(w2.Bytes())
	if err != nil {
		r.OracleFail("imported-not-exportable", input, vh.Hex([]byte(err.Error())))
		return
	}
	r.Count("eie:checked")
	if forestStr(e1) == forestStr(e2) {
		r.OracleOK()
	} else {
		r.OracleFail(mismatchClass(e1, e2), input, "e1="+forestStr(e1)+" e2="+forestStr(e2))
	}
}

// ---------------------------------------------------------------- build: outline graph after AddBookmarks

func optRef(d types.Dict, key string, base int) string {
	ir := d.IndirectRefEntry(key)
	if ir == nil {
		return "-"
	}
	return fmt.Sprint(ir.ObjectNumber.Value() - base)
}

func preorderTitles(bms []pdfcpu.Bookmark, out *[]string) {
	for _, b := range bms {
		*out = append(*out, b.Title)
		preorderTitles(b.Kids, out)
	}
}

// pdfUnescape: the harness' own reading of a PDF literal string body (ISO 32000-1 7.3.4.2),
// independent of pdfcpu's types.Unescape.
func pdfUnescape(s string) []byte {
	var out []byte
	for i := 0; i < len(s); i++ {
		c := s[i]
		if c != '\\' {
			out = append(out, c)
			continue
		}
		i++
		if i >= len(s) {
			break
		}
		switch c = s[i]; c {
		case 'n':
			out = append(out, 0x0a)
		case 'r':
			out = append(out, 0x0d)
		case 't':
			out = append(out, 0x09)
		case 'b':
			out = append(out, 0x08)
		case 'f':
			out = append(out, 0x0c)
		case 0x0a:
		case 0x0d:
			if i+1 < len(s) && s[i+1] == 0x0a {
				i++
			}
		default:
			if c >= '0' && c <= '7' {
				v := 0
				k := 0
				for k < 3 && i < len(s) && s[i] >= '0' && s[i] <= '7' {
					v = v*8 + int(s[i]-'0')
					i++
					k++
				}
				i--
				out = append(out, byte(v))
			} else {
				out = append(out, c)
			}
		}
	}
	return out
}

// titleBytesProblem: what import writes as /Title must be a text string in UTF-16BE with BOM (the
// encoder the model assumes: identity on text, EscapedUTF16String as in C13) that decodes - by the
// harness' own decoder - to exactly the imported title.  "" = fine.
func titleBytesProblem(o types.Object, want string) (class, detail string) {
	var bb []byte
	switch t := o.(type) {
	case types.StringLiteral:
		bb = pdfUnescape(t.Value())
	case types.HexLiteral:
		b, err := t.Bytes()
		if err != nil {
			return "import-title-not-utf16be", "bad hex literal"
		}
		bb = b
	default:
		return "import-title-not-utf16be", fmt.Sprintf("/Title is %T", o)
	}
	if len(bb) < 2 || bb[0] != 0xfe || bb[1] != 0xff || len(bb)%2 != 0 {
		return "import-title-not-utf16be", "title=" + vh.Hex([]byte(want)) + " written=" + vh.Hex(bb)
	}
	u := make([]uint16, 0, len(bb)/2)
	for i := 2; i+1 < len(bb); i += 2 {
		u = append(u, uint16(bb[i])<<8|uint16(bb[i+1]))
	}
	if got := string(utf16.Decode(u)); got != want {
		return "import-title-bytes-wrong-text", "title=" + vh.Hex([]byte(want)) + " written=" + vh.Hex(bb)
	}
	return "", ""
}

// buildCase: K case on the outline graph import builds + O on the raw /Title bytes.
func buildCase(r *vh.Run, pc int, f []pdfcpu.Bookmark) {
	var probs [][2]string
	res := guard(func() string { return buildDump(pc, f, &probs) })
	r.Case("build", []string{vh.Int(int64(pc)), forestStr(f)}, res)
	if strings.HasPrefix(res, "first=") {
		js, _ := json.Marshal(pdfcpu.BookmarkTree{Bookmarks: f})
		if len(probs) == 0 {
			r.OracleOK()
		} else {
			r.OracleFail(probs[0][0], map[string]any{"pages": pc, "json": string(js)}, probs[0][1])
		}
	}
}

func buildDump(pc int, bms []pdfcpu.Bookmark, probs *[][2]string) string {
	var want []string
	preorderTitles(bms, &want)
	nItem := 0
	ctx, err := api.ReadValidateAndOptimize(bytes.NewReader(makePDF(pc, "", nil)), model.NewDefaultConfiguration())
	if err != nil {
		return "ctxerr"
	}
	if err := pdfcpu.AddBookmarks(ctx, bms, true); err != nil {
		return importErrClass(err)
	}
	root, err := ctx.Catalog()
	if err != nil {
		return "ctxerr"
	}
	oir := root.IndirectRefEntry("Outlines")
	if oir == nil {
		return "no-outlines"
	}
	base := oir.ObjectNumber.Value()
	od, err := ctx.DereferenceDict(*oir)
	if err != nil {
		return "ctxerr"
	}
	parts := []string{"first=" + optRef(od, "First", base)}
	for nr := base + 1; ; nr++ {
		e, ok := ctx.FindTableEntryLight(nr)
		if !ok || e == nil || e.Free || e.Object == nil {
			break
		}
		switch o := e.Object.(type) {
		case types.Array:
			p := -1
			if len(o) == 2 {
				if ir, ok := o[0].(types.IndirectRef); ok && o[1] == types.Name("Fit") {
					p, _ = ctx.PageNumber(ir.ObjectNumber.Value())
				}
			}
			parts = append(parts, fmt.Sprintf("D %d %s", nr-base, vh.Int(int64(p))))
		case types.Dict:
			if nItem < len(want) {
				if cl, det := titleBytesProblem(o["Title"], want[nItem]); cl != "" {
					*probs = append(*probs, [2]string{cl, det})
				}
			}
			nItem++
			t := "-"
			if s, err := model.Text(o["Title"]); err == nil {
				t = "t" + vh.Hex([]byte(s))
			}
			dest := "-"
			if hl, ok := o["Dest"].(types.HexLiteral); ok {
				if bb, err := hl.Bytes(); err == nil {
					dest = "n" + vh.Hex(bb)
				}
			}
			cnt := "-"
			if c := o.IntEntry("Count"); c != nil {
				cnt = vh.Int(int64(*c))
			}
			col := "-"
			if arr := o.ArrayEntry("C"); len(arr) == 3 {
				c := color.NewSimpleColorForArray(arr)
				col = colStr(&c)
			}
			fl := "-"
			if f := o.IntEntry("F"); f != nil {
				fl = vh.Int(int64(*f))
			}
			parts = append(parts, fmt.Sprintf("I %d %s %s %s %s %s %s %s %s %s %s", nr-base, t, dest,
				optRef(o, "First", base), optRef(o, "Last", base), optRef(o, "Next", base), optRef(o, "Prev", base),
				optRef(o, "Parent", base), cnt, col, fl))
		default:
			parts = append(parts, fmt.Sprintf("? %d %T", nr-base, o))
		}
	}
	return strings.Join(parts, ";")
}

// ---------------------------------------------------------------- read: arbitrary outline graphs

type gItem struct {
	id     int
	isDest bool // a destination array object instead of an item dict
	page   int
	title  *string
	dest   string // "-", "n<name>", "p<page>" (page ref for 1..pc, integer otherwise)
	first  string // "-", "r<id>", "b"
	next   int    // 0 = none
	col    *color.SimpleColor
	flags  *int
}

func (g gItem) wire() string {
	if g.isDest {
		return fmt.Sprintf("D %x %s", g.id, vh.Int(int64(g.page)))
	}
	t := "-"
	if g.title != nil {
		t = "t" + vh.Hex([]byte(*g.title))
	}
	d := g.dest
	if strings.HasPrefix(d, "n") {
		d = "n" + vh.Hex([]byte(d[1:]))
	}
	nx := "-"
	if g.next != 0 {
		nx = fmt.Sprintf("%x", g.next)
	}
	fl := "-"
	if g.flags != nil {
		fl = vh.Int(int64(*g.flags))
	}
	return fmt.Sprintf("I %x %s %s %s %s %s %s", g.id, t, d, g.first, nx, colStr(g.col), fl)
}

// object body for the in-memory context
func (g gItem) object(ctx *model.Context, pc int) types.Object {
	pageDest := func(p int) types.Array {
		if p >= 1 && p <= pc {
			_, ir, _, err := ctx.PageDict(p, false)
			if err == nil && ir != nil {
				return types.Array{*ir, types.Name("Fit")}
			}
		}
		return types.Array{types.Integer(p), types.Name("Fit")}
	}
	if g.isDest {
		return pageDest(g.page)
	}
	d := types.Dict{}
	if g.title != nil {
		s, err := types.EscapedUTF16String(*g.title)
		if err != nil {
			panic(err)
		}
		d["Title"] = types.StringLiteral(*s)
	}
	switch {
	case strings.HasPrefix(g.dest, "n"):
		d["Dest"] = types.NewHexLiteral([]byte(g.dest[1:]))
	case strings.HasPrefix(g.dest, "p"):
		var p int64
		fmt.Sscanf(strings.TrimPrefix(g.dest[1:], "-"), "%x", &p)
		if strings.HasPrefix(g.dest[1:], "-") {
			p = -p
		}
		d["Dest"] = pageDest(int(p))
	}
	switch {
	case g.first == "b":
		d["First"] = types.Integer(7)
	case strings.HasPrefix(g.first, "r"):
		var id int
		fmt.Sscanf(g.first[1:], "%x", &id)
		d["First"] = *types.NewIndirectRef(id, 0)
	}
	if g.next != 0 {
		d["Next"] = *types.NewIndirectRef(g.next, 0)
	}
	if g.col != nil {
		d["C"] = types.Array{types.Float(g.col.R), types.Float(g.col.G), types.Float(g.col.B)}
	}
	if g.flags != nil {
		d["F"] = types.Integer(*g.flags)
	}
	return d
}

// raw PDF body of the same object
func (g gItem) raw(pc int) string {
	pageDest := func(p int) string {
		if p >= 1 && p <= pc {
			return fmt.Sprintf("[%d 0 R /Fit]", 3+2*(p-1))
		}
		return fmt.Sprintf("[%d /Fit]", p)
	}
	if g.isDest {
		return pageDest(g.page)
	}
	var sb strings.Builder
	sb.WriteString("<<")
	if g.title != nil {
		sb.WriteString(" /Title <FEFF")
		for _, u := range utf16be(*g.title) {
			fmt.Fprintf(&sb, "%04X", u)
		}
		sb.WriteString(">")
	}
	switch {
	case strings.HasPrefix(g.dest, "n"):
		fmt.Fprintf(&sb, " /Dest <%s>", vh.Hex([]byte(g.dest[1:])))
	case strings.HasPrefix(g.dest, "p"):
		var p int64
		fmt.Sscanf(strings.TrimPrefix(g.dest[1:], "-"), "%x", &p)
		if strings.HasPrefix(g.dest[1:], "-") {
			p = -p
		}
		sb.WriteString(" /Dest " + pageDest(int(p)))
	}
	switch {
	case g.first == "b":
		sb.WriteString(" /First 7")
	case strings.HasPrefix(g.first, "r"):
		var id int
		fmt.Sscanf(g.first[1:], "%x", &id)
		fmt.Fprintf(&sb, " /First %d 0 R", id)
	}
	if g.next != 0 {
		fmt.Fprintf(&sb, " /Next %d 0 R", g.next)
	}
	if g.flags != nil {
		fmt.Fprintf(&sb, " /F %d", *g.flags)
	}
	sb.WriteString(" >>")
	return sb.String()
}

func utf16be(s string) []uint16 {
	var out []uint16
	for _, r := range s {
		if r >= 0x10000 {
			r -= 0x10000
			out = append(out, uint16(0xd800+(r>>10)), uint16(0xdc00+(r&0x3ff)))
		} else {
			out = append(out, uint16(r))
		}
	}
	return out
}

// genGraph: k objects numbered start+1..start+k (start = the /Outlines dict), links chosen at random
// among them (so cycles, self references, shared kids and parents-as-kids all occur), plus dangling ones.
func genGraph(r *vh.Run, pc, start int, shape int) (items []gItem, first int) {
	k := 1 + r.Rand.Intn(7)
	if shape == 3 {
		k = 4 + r.Rand.Intn(10)
	}
	pick := func() int {
		switch x := r.Rand.Intn(12); {
		case x == 0:
			return start + k + 40 // dangling
		case x == 1:
			return start // the outlines dict itself
		default:
			return start + 1 + r.Rand.Intn(k)
		}
	}
	for i := 1; i <= k; i++ {
		g := gItem{id: start + i, first: "-", dest: "-"}
		if shape != 0 && r.Rand.Intn(10) == 0 {
			g.isDest = true
			g.page = 1 + r.Rand.Intn(pc)
			items = append(items, g)
			continue
		}
		if r.Rand.Intn(10) != 0 {
			t := genTitle(r, 1)
			if r.Rand.Intn(12) == 0 {
				t = ""
			}
			g.title = &t
		}
		switch x := r.Rand.Intn(10); {
		case x < 6:
			g.dest = "p" + vh.Int(int64(1+r.Rand.Intn(pc)))
		case x == 6:
			g.dest = "p" + vh.Int(int64([]int{0, -3, 77}[r.Rand.Intn(3)]))
		case x == 7:
			g.dest = "n" + genTitle(r, 0)
		case x == 8 && shape != 0:
			g.dest = "-"
		default:
			g.dest = "p1"
		}
		switch shape {
		case 0: // a proper tree laid out as a chain with occasional kids: i -> next i+1, handled below
		default:
			if r.Rand.Intn(3) == 0 {
				g.first = fmt.Sprintf("r%x", pick())
			} else if r.Rand.Intn(25) == 0 {
				g.first = "b"
			}
			if r.Rand.Intn(2) == 0 {
				g.next = pick()
			}
		}
		if r.Rand.Intn(4) == 0 {
			f := []int{0, 1, 2, 3, 4, 7, -1}[r.Rand.Intn(7)]
			g.flags = &f
		}
		if r.Rand.Intn(5) == 0 {
			c := color.SimpleColor{R: colPool[r.Rand.Intn(len(colPool))], G: 0.5, B: 1}
			g.col = &c
		}
		items = append(items, g)
	}
	if shape == 0 {
		// well-formed: a random forest over the k items in preorder
		var lay func(lo, hi int)
		lay = func(lo, hi int) { // items[lo..hi) form a sibling list with nested kids
			for lo < hi {
				end := lo + 1
				if end < hi && r.Rand.Intn(2) == 0 {
					end = lo + 1 + r.Rand.Intn(hi-lo)
					if end > lo+1 {
						items[lo].first = fmt.Sprintf("r%x", items[lo+1].id)
						lay(lo+1, end)
					}
				}
				if end < hi {
					items[lo].next = items[end].id
				}
				lo = end
			}
		}
		lay(0, k)
	}
	if shape == 2 {
		// deep chain through /First to hit the recursion limit
		for i := 0; i+1 < k; i++ {
			items[i].first = fmt.Sprintf("r%x", items[i+1].id)
		}
	}
	first = start + 1
	if shape != 0 && r.Rand.Intn(10) == 0 {
		first = pick()
	}
	return items, first
}

func graphWire(items []gItem) string {
	if len(items) == 0 {
		return "-"
	}
	s := make([]string, len(items))
	for i, g := range items {
		s[i] = g.wire()
	}
	return strings.Join(s, ";")
}

func implRead(pc, maxd int, items []gItem, first int) string {
	conf := model.NewDefaultConfiguration()
	ctx, err := api.ReadValidateAndOptimize(bytes.NewReader(makePDF(pc, "", nil)), conf)
	if err != nil {
		return "ctxerr"
	}
	ctx.XRefTable.Conf.Limits.MaxRecursionDepth = maxd
	od := types.Dict{"Type": types.Name("Outlines"), "First": *types.NewIndirectRef(first, 0)}
	oir, err := ctx.IndRefForNewObject(od)
	if err != nil || oir.ObjectNumber.Value() != 3+2*pc {
		return fmt.Sprintf("ctxerr:outlines-nr")
	}
	for _, g := range items {
		ir, err := ctx.IndRefForNewObject(g.object(ctx, pc))
		if err != nil || ir.ObjectNumber.Value() != g.id {
			return "ctxerr:item-nr"
		}
	}
	ctx.Outlines = od
	bms, err := pdfcpu.Bookmarks(ctx)
	if err != nil {
		return exportErrClass(err)
	}
	return "ok " + forestStr(bms)
}

func readCases(r *vh.Run) {
	n := r.Pick(700, 8000)
	for i := 0; i < n; i++ {
		pc := 1 + r.Rand.Intn(5)
		start := 3 + 2*pc
		shape := []int{0, 1, 1, 1, 2, 3}[r.Rand.Intn(6)]
		items, first := genGraph(r, pc, start, shape)
		maxd := 100
		if shape == 2 || r.Rand.Intn(4) == 0 {
			maxd = 1 + r.Rand.Intn(4)
		}
		res, ok := withTimeout(10*time.Second, func() string { return implRead(pc, maxd, items, first) })
		in := map[string]any{"pages": pc, "maxdepth": maxd, "first": first, "graph": graphWire(items)}
		if !ok {
			r.OracleFail("export-hangs", in, "pdfcpu.Bookmarks did not return within 10s")
			hang(r)
		}
		r.Case("read", []string{vh.Int(int64(maxd)), fmt.Sprintf("%x", first), graphWire(items)}, res)
		r.Count(fmt.Sprintf("read-shape:%d", shape))
		r.Count("read-result:" + strings.SplitN(res, " ", 2)[0])
		if strings.HasPrefix(res, "PANIC") {
			r.OracleFail("panic-export", in, res)
		} else {
			r.OracleOK() // terminated with an error or a finite forest
		}
		// the same outline inside a raw PDF file, through the whole API (validation included)
		if i%4 == 0 {
			var extra []rawObj
			extra = append(extra, rawObj{start, fmt.Sprintf("<< /Type /Outlines /First %d 0 R /Count %d >>", first, len(items))})
			for _, g := range items {
				extra = append(extra, rawObj{g.id, g.raw(pc)})
			}
			pdf := makePDF(pc, fmt.Sprintf("/Outlines %d 0 R", start), extra)
			res, ok := withTimeout(15*time.Second, func() string {
				bms, _, err := exportJSON(pdf)
				if err != nil {
					return "err"
				}
				return fmt.Sprintf("ok:%d", countNodes(bms))
			})
			if !ok {
				r.OracleFail("export-hangs", map[string]any{"pdf": vh.Hex(pdf)}, "api.ExportBookmarksJSON did not return within 15s")
				hang(r)
			}
			r.Count("rawfile-result:" + strings.SplitN(res, ":", 2)[0])
			if strings.HasPrefix(res, "PANIC") {
				r.OracleFail("panic-export", map[string]any{"pdf": vh.Hex(pdf)}, res)
			} else {
				r.OracleOK()
			}
		}
	}
}

// ---------------------------------------------------------------- documents NOT made by pdfcpu's import

// rawOutlinePDF writes a pc-page PDF whose outline is hand-written by the harness: items numbered
// in preorder from 3+2pc+1, /Title as UTF-16BE with BOM (hex string, or literal string with every
// byte octal-escaped), direct destinations [page /Fit], /First /Last /Next /Prev /Parent /Count /C /F.
func rawOutlinePDF(pc int, f []pdfcpu.Bookmark, octal bool) []byte {
	start := 3 + 2*pc
	next := start + 1
	var extra []rawObj
	var lay func(l []pdfcpu.Bookmark, parent int) (first, last, total int)
	lay = func(l []pdfcpu.Bookmark, parent int) (int, int, int) {
		ids := make([]int, len(l))
		bodies := make([]string, len(l))
		total := 0
		for i, b := range l {
			ids[i] = next
			next++
			var sb strings.Builder
			sb.WriteString("<< /Title ")
			if octal {
				sb.WriteString("(\\376\\377")
				for _, u := range utf16be(b.Title) {
					fmt.Fprintf(&sb, "\\%03o\\%03o", u>>8, u&0xff)
				}
				sb.WriteString(")")
			} else {
				sb.WriteString("<FEFF")
				for _, u := range utf16be(b.Title) {
					fmt.Fprintf(&sb, "%04X", u)
				}
				sb.WriteString(">")
			}
			fmt.Fprintf(&sb, " /Parent %d 0 R /Dest [%d 0 R /Fit]", parent, 3+2*(b.PageFrom-1))
			if len(b.Kids) > 0 {
				fk, lk, c := lay(b.Kids, ids[i])
				fmt.Fprintf(&sb, " /First %d 0 R /Last %d 0 R /Count %d", fk, lk, c)
				total += c
			}
			total++
			if b.Color != nil {
				ff := func(x float32) string { return strconv.FormatFloat(float64(x), 'f', -1, 32) }
				fmt.Fprintf(&sb, " /C [%s %s %s]", ff(b.Color.R), ff(b.Color.G), ff(b.Color.B))
			}
			if b.Style() > 0 {
				fmt.Fprintf(&sb, " /F %d", b.Style())
			}
			bodies[i] = sb.String()
		}
		for i := range l {
			body := bodies[i]
			if i > 0 {
				body += fmt.Sprintf(" /Prev %d 0 R", ids[i-1])
			}
			if i+1 < len(l) {
				body += fmt.Sprintf(" /Next %d 0 R", ids[i+1])
			}
			extra = append(extra, rawObj{ids[i], body + " >>"})
		}
		return ids[0], ids[len(l)-1], total
	}
	first, last, total := lay(f, start)
	extra = append(extra, rawObj{start, fmt.Sprintf("<< /Type /Outlines /First %d 0 R /Last %d 0 R /Count %d >>", first, last, total)})
	return makePDF(pc, fmt.Sprintf("/Outlines %d 0 R", start), extra)
}

// rawStart: the literal property on a document whose outline pdfcpu did not write:
// E1 = export(doc) must be the hand-written forest; import E1 (replace) into doc; E2 = export; E2 == E1.
func rawStart(r *vh.Run, pc int, f []pdfcpu.Bookmark, octal bool) {
	pdf := rawOutlinePDF(pc, f, octal)
	js, _ := json.Marshal(pdfcpu.BookmarkTree{Bookmarks: f})
	input := map[string]any{"pages": pc, "json": string(js), "stage": "raw-outline", "octal": octal, "pdf": vh.Hex(pdf)}
	r.Count("rawstart")
	res := guard(func() string {
		e1, j1, err := exportJSON(pdf)
		if err != nil {
			return "raw-outline-export-failed\t" + vh.Hex([]byte(err.Error()))
		}
		if forestStr(e1) != forestStr(f) {
			return "raw-outline-export-mismatch\twant=" + forestStr(f) + " got=" + forestStr(e1)
		}
		var w bytes.Buffer
		if err := api.ImportBookmarks(bytes.NewReader(pdf), bytes.NewReader(j1), &w, true, nil); err != nil {
			cl := "export-not-reimportable"
			if nameRefDecodeError(importErrClass(err)) {
				cl = "dup-title-name-ref-decode"
			}
			return cl + "\t" + vh.Hex([]byte(err.Error()))
		}
		e2, _, err := exportJSON(w.Bytes())
		if err != nil {
			return "imported-not-exportable\t" + vh.Hex([]byte(err.Error()))
		}
		if forestStr(e2) != forestStr(e1) {
			return mismatchClass(e1, e2) + "\te1=" + forestStr(e1) + " e2=" + forestStr(e2)
		}
		return ""
	})
	switch {
	case res == "":
		r.OracleOK()
	case strings.HasPrefix(res, "PANIC"):
		r.OracleFail("panic-import-export", input, res)
	default:
		p := strings.SplitN(res, "\t", 2)
		r.OracleFail(p[0], input, p[1])
	}
}

// hang: the looping goroutine cannot be stopped and keeps allocating; the failing input is
// recorded, so finish the run at once.
func hang(r *vh.Run) {
	r.Finish()
	os.Exit(0)
}

// ---------------------------------------------------------------- fixed cases

func fixedForests() [][]pdfcpu.Bookmark {
	bk := func(t string, p int, kids ...pdfcpu.Bookmark) pdfcpu.Bookmark {
		return pdfcpu.Bookmark{Title: t, PageFrom: p, Kids: kids}
	}
	c := color.SimpleColor{R: 0.3, G: 0.5, B: 1}
	deep := bk("d", 1)
	for i := 0; i < 6; i++ {
		deep = bk(fmt.Sprintf("d%d", i), 1, deep)
	}
	return [][]pdfcpu.Bookmark{
		{bk("A", 1), bk("A", 2), bk("B", 3), bk("0", 4), bk("A", 5)}, // the refuted witness of Property.v
		{bk("A", 1), bk("A", 2), bk("A", 3), bk("A", 4), bk("A", 5), bk("A", 6)},
		{bk("A", 1, bk("A", 1), bk("A", 2)), bk("A", 3)},
		{{Title: "Ünï ♥ 😀 (x) / y", PageFrom: 1, Bold: true, Color: &c, Kids: []pdfcpu.Bookmark{{Title: "k", PageFrom: 1, Italic: true}, {Title: "k", PageFrom: 3}}}, bk("z", 2)},
		{deep},
		{bk("a", 1), bk("b", 2), bk("c", 3), bk("d", 4), bk("e", 5), bk("f", 6)},
		{bk("f", 1), bk("e", 2), bk("d", 3), bk("c", 4), bk("b", 5), bk("a", 6)},
		{bk("q", 2, bk("k", 1))},
		{bk("q", 3), bk("k", 2)},
		{bk("q", 0)},
		{bk("q", 7)},
		{bk("q", 6, bk("k", 6, bk("j", 6)))},
	}
}

func backslashForests() [][]pdfcpu.Bookmark {
	bk := func(t string, p int, kids ...pdfcpu.Bookmark) pdfcpu.Bookmark {
		return pdfcpu.Bookmark{Title: t, PageFrom: p, Kids: kids}
	}
	return [][]pdfcpu.Bookmark{
		{bk("a\\b", 1), bk("c", 2)},
		{bk("(par\\en)", 1), bk("(par\\en)", 2)},
		{bk("(par\\en)", 1), bk("(paren)", 2)},
		{bk("C:\\dir", 1, bk("C:\\dir", 2)), bk("x\\", 3)},
	}
}

func deepChain(n int) []pdfcpu.Bookmark {
	b := pdfcpu.Bookmark{Title: "leaf", PageFrom: 1}
	for i := 0; i < n; i++ {
		b = pdfcpu.Bookmark{Title: fmt.Sprintf("L%d", i), PageFrom: 1, Kids: []pdfcpu.Bookmark{b}}
	}
	return []pdfcpu.Bookmark{b}
}

func main() {
	api.DisableConfigDir()
	r := vh.Start("C36")
	defer r.Finish()

	for _, f := range fixedForests() {
		if oneRoundtrip(r, 6, f, "fixed", false, true) {
			exportImportExport(r, 6, f)
		}
		buildCase(r, 6, f)
	}
	// recursion limit of import (default 100): nesting 100 is accepted, 101 is not
	for _, n := range []int{99, 100, 101} {
		f := deepChain(n)
		buildCase(r, 3, f)
		oneRoundtrip(r, 3, f, "deep", n <= 100, true)
	}
	// titles with backslashes: oracle only
	for _, f := range backslashForests() {
		if oneRoundtrip(r, 6, f, "backslash-fixed", true, false) {
			exportImportExport(r, 6, f)
		}
	}

	n := r.Pick(260, 3000)
	for i := 0; i < n; i++ {
		pc := 1 + r.Rand.Intn(8)
		mode := []int{0, 0, 0, 1, 2, 3}[r.Rand.Intn(6)]
		maxDepth := 1 + r.Rand.Intn(5)
		f := genForest(r, pc, 0, maxDepth, mode, 1)
		ok := oneRoundtrip(r, pc, f, fmt.Sprintf("mode%d", mode), mode == 0 || mode == 3, mode != 3)
		if i%2 == 0 && mode != 3 {
			buildCase(r, pc, f)
		}
		if ok && i%2 == 1 {
			exportImportExport(r, pc, f)
		}
		if mode == 0 && i%3 == 0 {
			rawStart(r, pc, f, i%2 == 0)
		}
	}
	// Latin-1 / mojibake-shaped titles on documents with a hand-written outline
	lat := func(ts ...string) []pdfcpu.Bookmark {
		var l []pdfcpu.Bookmark
		for i, t := range ts {
			l = append(l, pdfcpu.Bookmark{Title: t, PageFrom: 1 + i/2})
		}
		return l
	}
	for i, f := range [][]pdfcpu.Bookmark{
		lat("RÃ©sumÃ©", "CafÃ© Â§1", "Â©"),
		lat("©§¡¿ÿ", "Ã¤Ã¶Ã¼", "naïve façade", "日本語", "😀 x", "plain"),
		{{Title: "Ð¡ Þ¿", PageFrom: 1, Bold: true, Kids: lat("Â©", "é")}},
	} {
		rawStart(r, 4, f, i%2 == 0)
		if oneRoundtrip(r, 4, f, "latin1-fixed", true, true) {
			exportImportExport(r, 4, f)
		}
		buildCase(r, 4, f)
	}
	readCases(r)
}
