// Harness for C17: predictor post-processing of FlateDecode / LZWDecode against
// (K) the extracted Coq model of pkg/filter/flateDecode.go + paeth.go + lzwDecode.go and
// (O) an independent implementation, written here from RFC 2083 section 6 and TIFF 6.0
// section 14, of PNG row un-filtering and TIFF horizontal differencing.
package main

import (
	"bytes"
	"compress/zlib"
	"fmt"
	"io"
	"strings"

	"github.com/pdfcpu/pdfcpu/pkg/filter"
	"verif/vh"
)

// ---------------------------------------------------------------- independent specification

// RFC 2083 6.6, verbatim.
func specPaeth(a, b, c int) int {
	p := a + b - c
	pa, pb, pc := iabs(p-a), iabs(p-b), iabs(p-c)
	if pa <= pb && pa <= pc {
		return a
	} else if pb <= pc {
		return b
	}
	return c
}

func iabs(x int) int {
	if x < 0 {
		return -x
	}
	return x
}

func ceil8(bits int) int {
	if bits%8 == 0 {
		return bits / 8
	}
	return bits/8 + 1
}

// specPNG un-filters a stream of scanlines (filter-type byte + rowbytes bytes each).
// defined=false: the specification has no answer (truncated stream or invalid filter type).
func specPNG(colors, bpc, columns int, data []byte) (out []byte, defined bool, why string) {
	bpp := ceil8(colors * bpc) // bytes per complete pixel, rounding up
	rowbytes := ceil8(colors * bpc * columns)
	if len(data)%(rowbytes+1) != 0 {
		return nil, false, "truncated"
	}
	prior := make([]int, rowbytes) // "on the first scanline assume Prior(x) = 0"
	for off := 0; off < len(data); off += rowbytes + 1 {
		ft := int(data[off])
		filt := data[off+1 : off+1+rowbytes]
		raw := make([]int, rowbytes)
		at := func(l []int, x int) int { // "for all x < 0, assume Raw(x) = 0"
			if x < 0 {
				return 0
			}
			return l[x]
		}
		for x := 0; x < rowbytes; x++ {
			var pred int
			switch ft {
			case 0:
				pred = 0
			case 1:
				pred = at(raw, x-bpp)
			case 2:
				pred = prior[x]
			case 3:
				pred = (at(raw, x-bpp) + prior[x]) / 2
			case 4:
				pred = specPaeth(at(raw, x-bpp), prior[x], at(prior, x-bpp))
			default:
				return nil, false, "invalid-filter-type"
			}
			raw[x] = (int(filt[x]) + pred) % 256
		}
		for _, v := range raw {
			out = append(out, byte(v))
		}
		prior = raw
	}
	return out, true, ""
}

// bit i (0 = most significant bit of byte 0) of a row
func getBits(row []byte, pos, w int) int {
	v := 0
	for i := 0; i < w; i++ {
		p := pos + i
		bit := int(row[p/8]>>(7-uint(p%8))) & 1
		v = v<<1 | bit
	}
	return v
}

func putBits(row []byte, pos, w, v int) {
	for i := 0; i < w; i++ {
		p := pos + i
		bit := byte(v>>uint(w-1-i)) & 1
		mask := byte(1) << (7 - uint(p%8))
		row[p/8] = row[p/8]&^mask | bit*mask
	}
}

// specTIFF undoes horizontal differencing of samples (TIFF 6.0 section 14); padding bits are kept.
func specTIFF(colors, bpc, columns int, data []byte) (out []byte, defined bool, why string) {
	rowbytes := ceil8(colors * bpc * columns)
	if len(data)%rowbytes != 0 {
		return nil, false, "truncated"
	}
	out = bytes.Clone(data)
	mod := 1 << uint(bpc)
	for off := 0; off < len(data); off += rowbytes {
		row := out[off : off+rowbytes]
		n := columns * colors
		for s := colors; s < n; s++ {
			v := (getBits(row, s*bpc, bpc) + getBits(row, (s-colors)*bpc, bpc)) % mod
			putBits(row, s*bpc, bpc, v)
		}
	}
	return out, true, ""
}

// equal up to the padding bits at the end of each row
func equalSamples(a, b []byte, colors, bpc, columns int) bool {
	if len(a) != len(b) {
		return false
	}
	rowbytes := ceil8(colors * bpc * columns)
	used := colors * bpc * columns
	for off := 0; off+rowbytes <= len(a); off += rowbytes {
		for s := 0; s < used; s += 1 {
			if getBits(a[off:off+rowbytes], s, 1) != getBits(b[off:off+rowbytes], s, 1) {
				return false
			}
		}
	}
	return true
}

// ---------------------------------------------------------------- implementation access

type parmSet struct {
	predictor, colors, bpc, columns *int
}

func (p parmSet) m() map[string]int {
	m := map[string]int{}
	if p.predictor != nil {
		m["Predictor"] = *p.predictor
	}
	if p.colors != nil {
		m["Colors"] = *p.colors
	}
	if p.bpc != nil {
		m["BitsPerComponent"] = *p.bpc
	}
	if p.columns != nil {
		m["Columns"] = *p.columns
	}
	return m
}

func optArg(p *int) string {
	if p == nil {
		return "-"
	}
	return vh.Int(int64(*p))
}

func ip(i int) *int { return &i }

func resBytes(b []byte, err error) string {
	if err != nil {
		return "err"
	}
	return "ok:" + vh.Hex(b)
}

var zw *zlib.Writer

// flateDecode runs the public FlateDecode filter over zlib(data).
func flateDecode(parms map[string]int, data []byte) (out []byte, err error) {
	defer func() {
		if x := recover(); x != nil {
			err = fmt.Errorf("PANIC: %v", x)
		}
	}()
	var zb bytes.Buffer
	if zw == nil {
		zw = zlib.NewWriter(&zb)
	} else {
		zw.Reset(&zb)
	}
	zw.Write(data)
	zw.Close()
	f, err := filter.NewFilter(filter.Flate, parms)
	if err != nil {
		return nil, err
	}
	r, err := f.Decode(&zb)
	if err != nil {
		return nil, err
	}
	return io.ReadAll(r)
}

// lzwDecode runs the public LZWDecode filter over LZW(data).
func lzwDecode(parms map[string]int, data []byte) (out []byte, err error) {
	defer func() {
		if x := recover(); x != nil {
			err = fmt.Errorf("PANIC: %v", x)
		}
	}()
	enc, err := filter.NewFilter(filter.LZW, nil)
	if err != nil {
		return nil, err
	}
	er, err := enc.Encode(bytes.NewReader(data))
	if err != nil {
		return nil, err
	}
	eb, err := io.ReadAll(er)
	if err != nil {
		return nil, err
	}
	f, err := filter.NewFilter(filter.LZW, parms)
	if err != nil {
		return nil, err
	}
	r, err := f.Decode(bytes.NewReader(eb))
	if err != nil {
		return nil, err
	}
	return io.ReadAll(r)
}

// ---------------------------------------------------------------- generators

var edge = []byte{0x00, 0x01, 0x7f, 0x80, 0xfe, 0xff}

func randBytes(r *vh.Run, n int) []byte {
	b := make([]byte, n)
	mode := r.Rand.Intn(4)
	for i := range b {
		switch mode {
		case 0:
			b[i] = edge[r.Rand.Intn(len(edge))]
		case 1:
			b[i] = byte(r.Rand.Intn(4)) // small values: many Paeth ties
		default:
			b[i] = byte(r.Rand.Intn(256))
		}
	}
	return b
}

// stream of rows; PNG rows get a filter-type byte (valid ones mostly, sometimes invalid)
func genStream(r *vh.Run, predictor, colors, bpc, columns, rows int, allowInvalid bool) []byte {
	rowbytes := ceil8(colors * bpc * columns)
	var data []byte
	for i := 0; i < rows; i++ {
		if predictor != 2 {
			ft := byte(r.Rand.Intn(5))
			if allowInvalid && r.Rand.Intn(16) == 0 {
				ft = []byte{5, 6, 10, 15, 0x80, 0xff}[r.Rand.Intn(6)]
			}
			data = append(data, ft)
		}
		data = append(data, randBytes(r, rowbytes)...)
	}
	return data
}

// ---------------------------------------------------------------- oracle

func main() {
	r := vh.Start("C17")
	defer r.Finish()

	// 1. paeth: all 2^24 byte triples against the RFC pseudo-code (oracle), a sample through the model
	for a := 0; a < 256; a++ {
		for b := 0; b < 256; b++ {
			bad := -1
			for c := 0; c < 256; c++ {
				if int(filter.VerifC17Paeth(uint8(a), uint8(b), uint8(c))) != specPaeth(a, b, c) {
					bad = c
					break
				}
			}
			if bad >= 0 {
				r.OracleFail("paeth-function", map[string]any{"fn": "paeth", "a": a, "b": b, "c": bad},
					fmt.Sprintf("paeth=%d RFC=%d", filter.VerifC17Paeth(uint8(a), uint8(b), uint8(bad)), specPaeth(a, b, bad)))
			} else {
				r.OracleOK()
			}
		}
	}
	pv := []int{0, 1, 2, 3, 126, 127, 128, 129, 254, 255}
	for _, a := range pv {
		for _, b := range pv {
			for _, c := range pv {
				r.Case("paeth", []string{vh.Int(int64(a)), vh.Int(int64(b)), vh.Int(int64(c))},
					vh.Int(int64(filter.VerifC17Paeth(uint8(a), uint8(b), uint8(c)))))
			}
		}
	}
	for i := 0; i < r.Pick(3000, 60000); i++ {
		a, b, c := r.Rand.Intn(256), r.Rand.Intn(256), r.Rand.Intn(256)
		if r.Rand.Intn(3) == 0 { // near ties
			c = (a + b) / 2
		}
		r.Case("paeth", []string{vh.Int(int64(a)), vh.Int(int64(b)), vh.Int(int64(c))},
			vh.Int(int64(filter.VerifC17Paeth(uint8(a), uint8(b), uint8(c)))))
	}
	for _, x := range []int{0, 1, -1, 2, -2, 255, -255, 510, -510, 1<<31 - 1, -(1 << 31), 1 << 31, -(1 << 31) - 1, 1 << 40, -(1 << 40)} {
		r.Case("abs", []string{vh.Int(int64(x))}, vh.Int(int64(filter.VerifC17Abs(x))))
	}
	for i := 0; i < 200; i++ {
		x := r.Rand.Intn(2048) - 1024
		r.Case("abs", []string{vh.Int(int64(x))}, vh.Int(int64(filter.VerifC17Abs(x))))
		if filter.VerifC17Abs(x) != iabs(x) {
			r.OracleFail("abs-function", map[string]any{"fn": "abs", "x": x}, "abs differs from |x|")
		} else {
			r.OracleOK()
		}
	}

	// 2. predictorRowParams: grid + overflow candidates
	big := []int{0, -1, 1 << 20, 1 << 31, 1 << 40, 1 << 59, 1 << 60, 1<<60 + 1, 1<<61 - 1, 1 << 62, 1<<63 - 1, (1<<63 - 1) / 16, (1<<63-1)/16 + 1, (1<<63 - 8) / 8}
	rp := func(p, colors, bpc, columns int) {
		rs, rl, bpp, err := filter.VerifC17PredictorRowParams(p, colors, bpc, columns)
		res := "err"
		if err == nil {
			res = "ok:" + vh.Int(int64(rs)) + "," + vh.Int(int64(rl)) + "," + vh.Int(int64(bpp))
		}
		r.Case("rowparams", []string{vh.Int(int64(p)), vh.Int(int64(colors)), vh.Int(int64(bpc)), vh.Int(int64(columns))}, res)
		// oracle: when it succeeds the values are the specification's
		if err == nil && colors >= 1 && bpc >= 1 && columns >= 1 {
			exp := ceil8(colors * bpc * columns)
			el := exp
			if p != 2 {
				el++
			}
			if rs != exp || rl != el || bpp != ceil8(colors*bpc) {
				r.OracleFail("row-params", map[string]any{"fn": "predictorRowParams", "predictor": p, "colors": colors, "bpc": bpc, "columns": columns},
					fmt.Sprintf("got %d,%d,%d", rs, rl, bpp))
			} else {
				r.OracleOK()
			}
		}
	}
	for _, p := range []int{2, 10, 12, 15} {
		for colors := 1; colors <= 5; colors++ {
			for _, bpc := range []int{1, 2, 4, 8, 16} {
				for columns := 1; columns <= 10; columns++ {
					rp(p, colors, bpc, columns)
				}
			}
		}
		for _, a := range big {
			rp(p, 3, 16, a)
			rp(p, a, 1, 1)
			for _, b := range big {
				rp(p, a, 8, b)
			}
		}
	}

	// 3. processRow / filterPaeth directly (K), including invalid filter bytes and unequal parameters
	nRow := r.Pick(8000, 200000)
	for i := 0; i < nRow; i++ {
		p := []int{2, 10, 11, 12, 13, 14, 15}[r.Rand.Intn(7)]
		colors := 1 + r.Rand.Intn(4)
		bpc := []int{1, 2, 4, 8, 16}[r.Rand.Intn(5)]
		columns := 1 + r.Rand.Intn(9)
		rowbytes := ceil8(colors * bpc * columns)
		bpp := ceil8(colors * bpc)
		m := rowbytes
		if p != 2 {
			m++
		}
		pr, cr := randBytes(r, m), randBytes(r, m)
		if p != 2 {
			cr[0] = byte(r.Rand.Intn(5))
			if r.Rand.Intn(12) == 0 {
				cr[0] = byte(5 + r.Rand.Intn(251))
			}
		}
		d, err := filter.VerifC17ProcessRow(pr, cr, p, colors, bpp)
		r.Case("processRow", []string{vh.Hex(pr), vh.Hex(cr), vh.Int(int64(p)), vh.Int(int64(colors)), vh.Int(int64(bpp))}, resBytes(d, err))
		if p != 2 {
			r.Count(fmt.Sprintf("row-filter:%d", min(int(cr[0]), 5)))
		}
		if i%4 == 0 {
			c, q := randBytes(r, rowbytes), randBytes(r, rowbytes)
			r.Case("filterPaeth", []string{vh.Hex(c), vh.Hex(q), vh.Int(int64(bpp))}, "ok:"+vh.Hex(filter.VerifC17FilterPaeth(c, q, bpp)))
		}
	}

	nFail := map[string]int{}
	// 4. the whole decode: predictor x colours x bpc x columns x rows, Flate (all) and LZW (a sample)
	check := func(filt string, ps parmSet, data []byte, tag string) {
		var out []byte
		var err error
		if filt == "Flate" {
			out, err = flateDecode(ps.m(), data)
			r.Case("decode", []string{optArg(ps.predictor), optArg(ps.colors), optArg(ps.bpc), optArg(ps.columns), vh.Hex(data)}, resBytes(out, err))
		} else {
			out, err = lzwDecode(ps.m(), data)
			r.Case("lzw", []string{optArg(ps.predictor), vh.Hex(data)}, resBytes(out, err))
		}
		in := map[string]any{"filter": filt, "parms": ps.m(), "data": vh.Hex(data), "tag": tag}
		if err != nil && strings.HasPrefix(err.Error(), "PANIC") {
			r.OracleFail("panic", in, err.Error())
			return
		}
		predictor, colors, bpc, columns := 1, 1, 8, 1
		if ps.predictor != nil {
			predictor = *ps.predictor
		}
		if ps.colors != nil {
			colors = *ps.colors
		}
		if ps.bpc != nil {
			bpc = *ps.bpc
		}
		if ps.columns != nil {
			columns = *ps.columns
		}
		validP := predictor == 1 || predictor == 2 || (predictor >= 10 && predictor <= 15)
		validB := bpc == 1 || bpc == 2 || bpc == 4 || bpc == 8 || bpc == 16
		if !validP || (predictor != 1 && (!validB || colors < 1 || columns < 1)) {
			// parameter combinations the specification does not allow: an error is allowed (not required);
			// what the code does with them is pinned by the model (correspondence), not by the oracle
			if err != nil {
				r.Count("invalid-parameters:error")
			} else {
				r.Count("invalid-parameters:accepted")
			}
			r.OracleOK()
			return
		}
		var exp []byte
		defined, why := true, ""
		switch {
		case predictor == 1:
			exp = data
		case predictor == 2:
			exp, defined, why = specTIFF(colors, bpc, columns, data)
		default:
			exp, defined, why = specPNG(colors, bpc, columns, data)
		}
		cls := ""
		detail := ""
		switch {
		case !defined && why == "invalid-filter-type":
			if err == nil {
				cls, detail = "invalid-filter-type-accepted", "decoded "+vh.Hex(out)
			}
		case !defined:
			// truncated stream: outside the specification, any answer is accepted
		case err != nil:
			cls, detail = "unexpected-error", err.Error()+" expected "+vh.Hex(exp)
			if filt == "LZW" && strings.Contains(err.Error(), "unsupported predictor") {
				cls = "lzw-predictor-rejected"
			}
		case predictor == 2:
			if !equalSamples(out, exp, colors, bpc, columns) {
				detail = "got " + vh.Hex(out) + " expected " + vh.Hex(exp)
				if bpc != 8 {
					cls = "tiff-predictor-bpc!=8"
				} else {
					cls = "tiff-predictor-bpc8"
				}
			}
		default:
			if !bytes.Equal(out, exp) {
				cls, detail = "png-unfilter-mismatch", "got "+vh.Hex(out)+" expected "+vh.Hex(exp)
				if predictor == 1 {
					cls = "no-predictor-not-identity"
				}
			}
		}
		if cls != "" && filt == "LZW" && cls != "lzw-predictor-rejected" && cls != "unexpected-error" {
			cls = "lzw-" + cls // e.g. the predictor is accepted but not applied
		}
		if cls != "" {
			// vh keeps only the first 2000 failure records of a run: cap each class so that the
			// two known classes cannot crowd out a new one
			nFail[cls]++
			if nFail[cls] <= 60 {
				r.OracleFail(cls, in, detail)
			} else {
				r.Count("oracle-failure-not-recorded:" + cls)
			}
		} else {
			r.OracleOK()
		}
	}

	variants := r.Pick(2, 16)
	for _, predictor := range []int{1, 2, 10, 11, 12, 13, 14, 15} {
		for colors := 1; colors <= 4; colors++ {
			for _, bpc := range []int{1, 2, 4, 8, 16} {
				for columns := 1; columns <= 9; columns++ {
					for rows := 1; rows <= 4; rows++ {
						for v := 0; v < variants; v++ {
							data := genStream(r, predictor, colors, bpc, columns, rows, true)
							ps := parmSet{ip(predictor), ip(colors), ip(bpc), ip(columns)}
							check("Flate", ps, data, "grid")
							r.Count(fmt.Sprintf("predictor:%d", predictor))
							r.Count(fmt.Sprintf("bpc:%d", bpc))
							if (colors+columns+rows+v)%7 == 0 {
								check("LZW", ps, genStream(r, predictor, colors, bpc, columns, rows, false), "grid-lzw")
							}
						}
					}
				}
			}
		}
	}
	// more rows, wider rows
	for i := 0; i < r.Pick(400, 8000); i++ {
		predictor := []int{2, 10, 11, 12, 13, 14, 15}[r.Rand.Intn(7)]
		colors := 1 + r.Rand.Intn(6)
		bpc := []int{1, 2, 4, 8, 16}[r.Rand.Intn(5)]
		columns := 1 + r.Rand.Intn(24)
		rows := r.Rand.Intn(9)
		data := genStream(r, predictor, colors, bpc, columns, rows, r.Rand.Intn(4) == 0)
		check("Flate", parmSet{ip(predictor), ip(colors), ip(bpc), ip(columns)}, data, "wide")
	}
	// defaults (absent keys), malformed streams, parameters outside the specification
	for i := 0; i < r.Pick(600, 8000); i++ {
		predictor := []int{1, 2, 10, 11, 12, 13, 14, 15}[r.Rand.Intn(8)]
		colors := 1 + r.Rand.Intn(4)
		bpc := []int{1, 2, 4, 8, 16}[r.Rand.Intn(5)]
		columns := 1 + r.Rand.Intn(9)
		ps := parmSet{ip(predictor), ip(colors), ip(bpc), ip(columns)}
		ec, eb, en := colors, bpc, columns
		tag := "defaults"
		switch r.Rand.Intn(8) {
		case 0:
			ps.colors, ec = nil, 1
		case 1:
			ps.bpc, eb = nil, 8
		case 2:
			ps.columns, en = nil, 1
		case 3:
			ps.colors, ps.bpc, ps.columns, ec, eb, en = nil, nil, nil, 1, 8, 1
		case 4:
			ps.predictor, tag = nil, "no-predictor"
		case 5:
			ps.predictor, tag = ip([]int{0, -1, 3, 9, 16, 100}[r.Rand.Intn(6)]), "invalid-predictor"
		case 6:
			switch r.Rand.Intn(3) {
			case 0:
				ps.bpc, eb = ip([]int{0, 3, 5, 7, 12, 32, -8}[r.Rand.Intn(7)]), 8
			case 1:
				ps.colors, ec = ip([]int{0, -1, -4}[r.Rand.Intn(3)]), 1
			default:
				ps.columns, en = ip([]int{0, -1, -9}[r.Rand.Intn(3)]), 1
			}
			tag = "invalid-parameter"
		default:
			tag = "truncated"
		}
		data := genStream(r, predictor, ec, eb, en, r.Rand.Intn(4), true)
		if tag == "truncated" {
			switch r.Rand.Intn(3) {
			case 0:
				if len(data) > 0 {
					data = data[:len(data)-1-r.Rand.Intn(min(len(data), 3))]
				}
			case 1:
				data = append(data, byte(r.Rand.Intn(5)))
			default:
				data = append(data, randBytes(r, 1+r.Rand.Intn(3))...)
			}
		}
		check("Flate", ps, data, tag)
		r.Count("class:" + tag)
		if i%5 == 0 && len(data) > 0 {
			check("LZW", ps, data, tag+"-lzw")
		}
	}
}
