// Harness for C12: types.Escape / Unescape / EncodeName / DecodeName (and the
// literal-string scanner behind model.ParseObject) against the extracted Coq
// model, plus the direct oracles of the property on the real functions:
//
//	Unescape(Escape(s)) == s                          class escape-roundtrip
//	Escape(s) has no unescaped ( ) and no open escape class escape-unescaped-paren
//	ParseObject("("+Escape(s)+")"+tail) == Escape(s)  class escape-literal-parse
//	Unescape never returns an error                   class unescape-error
//	DecodeName(EncodeName(s)) == s   (s without NUL)  class name-roundtrip
//	EncodeName(s) is regular chars / #hh only         class name-charset
//	ParseObject("/"+EncodeName(s)+" ") == Name(s)     class name-parse
package main

import (
	"bytes"
	"fmt"
	"strings"

	"github.com/pdfcpu/pdfcpu/pkg/pdfcpu/model"
	"github.com/pdfcpu/pdfcpu/pkg/pdfcpu/types"
	"verif/vh"
)

var r *vh.Run

// ---- guarded calls into the implementation (a panic is a result) ----

func callEscape(s string) (out string, res string) {
	defer func() {
		if p := recover(); p != nil {
			out, res = "", "panic"
			r.OracleFail("panic-Escape", map[string]any{"s": vh.Hex([]byte(s))}, fmt.Sprint(p))
		}
	}()
	p, err := types.Escape(s)
	if err != nil || p == nil {
		return "", "err"
	}
	return *p, vh.Hex([]byte(*p))
}

func callUnescape(s string) (out []byte, ok bool, res string) {
	defer func() {
		if p := recover(); p != nil {
			out, ok, res = nil, false, "panic"
			r.OracleFail("panic-Unescape", map[string]any{"s": vh.Hex([]byte(s))}, fmt.Sprint(p))
		}
	}()
	b, err := types.Unescape(s)
	if err != nil {
		return nil, false, "err"
	}
	return b, true, "ok:" + vh.Hex(b)
}

func callEncodeName(s string) (out string, res string) {
	defer func() {
		if p := recover(); p != nil {
			out, res = "", "panic"
			r.OracleFail("panic-EncodeName", map[string]any{"s": vh.Hex([]byte(s))}, fmt.Sprint(p))
		}
	}()
	e := types.EncodeName(s)
	return e, vh.Hex([]byte(e))
}

func callDecodeName(s string) (out string, ok bool, res string) {
	defer func() {
		if p := recover(); p != nil {
			out, ok, res = "", false, "panic"
			r.OracleFail("panic-DecodeName", map[string]any{"s": vh.Hex([]byte(s))}, fmt.Sprint(p))
		}
	}()
	d, err := types.DecodeName(s)
	if err != nil {
		m := err.Error()
		switch {
		case strings.Contains(m, "null byte"):
			return "", false, "err:nul"
		case strings.Contains(m, "not enough characters"):
			return "", false, "err:short"
		case strings.Contains(m, "encoding/hex"):
			return "", false, "err:hex"
		}
		return "", false, "err:other:" + m
	}
	return d, true, "ok:" + vh.Hex([]byte(d))
}

// parseLit runs the real parser on a buffer beginning with '('.
func callParse(l string) (obj types.Object, rest string, ok bool) {
	defer func() {
		if p := recover(); p != nil {
			obj, rest, ok = nil, "", false
			r.OracleFail("panic-ParseObject", map[string]any{"l": vh.Hex([]byte(l))}, fmt.Sprint(p))
		}
	}()
	buf := l
	o, err := model.ParseObject(&buf)
	if err != nil {
		return nil, "", false
	}
	return o, buf, true
}

func parseLitResult(l string) string {
	o, rest, ok := callParse(l)
	if !ok {
		return "err"
	}
	sl, is := o.(types.StringLiteral)
	if !is {
		return fmt.Sprintf("err:type %T", o)
	}
	return "ok:" + vh.Hex([]byte(sl)) + ":" + vh.Hex([]byte(rest))
}

// ---- the property's predicates, evaluated directly on implementation output ----

// parensEscaped: left to right, a backslash escapes the next byte; no ( ) may be
// met unescaped, and the text must not end inside an escape.
func parensEscaped(e string) bool {
	esc := false
	for i := 0; i < len(e); i++ {
		c := e[i]
		if esc {
			esc = false
			continue
		}
		if c == '\\' {
			esc = true
			continue
		}
		if c == '(' || c == ')' {
			return false
		}
	}
	return !esc
}

func isHex(c byte) bool {
	return c >= '0' && c <= '9' || c >= 'a' && c <= 'f' || c >= 'A' && c <= 'F'
}

// nameWF: regular printable non-delimiter characters, '#' only followed by two hex digits.
func nameWF(e string) bool {
	for i := 0; i < len(e); i++ {
		c := e[i]
		if c == '#' {
			if i+2 >= len(e) || !isHex(e[i+1]) || !isHex(e[i+2]) {
				return false
			}
			i += 2
			continue
		}
		if c < 0x21 || c > 0x7e || strings.IndexByte("()<>[]{}/%", c) >= 0 {
			return false
		}
	}
	return true
}

func in(s string) map[string]any {
	return map[string]any{"s": vh.Hex([]byte(s)), "text": fmt.Sprintf("%q", s)}
}

// oracle evaluates the property itself on the real functions for source string s.
// withParser additionally pushes the written forms through model.ParseObject.
func oracle(s string, withParser bool) {
	// --- literal strings
	e, res := callEscape(s)
	if res == "err" {
		r.OracleFail("escape-roundtrip", in(s), "Escape returned an error")
	} else if res != "panic" {
		b, ok, ures := callUnescape(e)
		if ures != "panic" {
			if !ok || !bytes.Equal(b, []byte(s)) {
				r.OracleFail("escape-roundtrip", in(s), fmt.Sprintf("Escape=%q Unescape(Escape)=%s", e, ures))
			} else {
				r.OracleOK()
			}
		}
		if !parensEscaped(e) {
			r.OracleFail("escape-unescaped-paren", in(s), fmt.Sprintf("Escape=%q", e))
		} else {
			r.OracleOK()
		}
		if withParser {
			tail := tails[r.Rand.Intn(len(tails))]
			o, rest, ok := callParse("(" + e + ")" + tail)
			sl, is := o.(types.StringLiteral)
			if !ok || !is || string(sl) != e || rest != tail {
				r.OracleFail("escape-literal-parse", in(s), fmt.Sprintf("Escape=%q tail=%q parsed=%q rest=%q ok=%v", e, tail, string(sl), rest, ok))
			} else {
				r.OracleOK()
			}
		}
	}
	// --- names
	n, nres := callEncodeName(s)
	if nres != "panic" {
		if !nameWF(n) {
			r.OracleFail("name-charset", in(s), fmt.Sprintf("EncodeName=%q", n))
		} else {
			r.OracleOK()
		}
		if strings.IndexByte(s, 0) < 0 {
			d, ok, dres := callDecodeName(n)
			if dres != "panic" {
				if !ok || d != s {
					r.OracleFail("name-roundtrip", in(s), fmt.Sprintf("EncodeName=%q DecodeName(EncodeName)=%s", n, dres))
				} else {
					r.OracleOK()
				}
			}
			if withParser && len(s) > 0 {
				o, rest, ok := callParse("/" + n + " 1")
				nm, is := o.(types.Name)
				if !ok || !is || string(nm) != s || rest != " 1" {
					r.OracleFail("name-parse", in(s), fmt.Sprintf("EncodeName=%q parsed=%q rest=%q ok=%v", n, string(nm), rest, ok))
				} else {
					r.OracleOK()
				}
			}
		}
	}
}

// forward sends s through the model and the implementation in the encoding direction.
func forward(s string) {
	_, res := callEscape(s)
	r.Case("Escape", []string{vh.Hex([]byte(s))}, res)
	_, nres := callEncodeName(s)
	r.Case("EncodeName", []string{vh.Hex([]byte(s))}, nres)
}

// backward sends an arbitrary (possibly malformed) text through the decoders.
func backward(t string) {
	_, ok, res := callUnescape(t)
	r.Case("Unescape", []string{vh.Hex([]byte(t))}, res)
	if res != "panic" {
		if !ok {
			r.OracleFail("unescape-error", map[string]any{"s": vh.Hex([]byte(t))}, "Unescape returned an error")
		} else {
			r.OracleOK()
		}
	}
	_, _, dres := callDecodeName(t)
	r.Case("DecodeName", []string{vh.Hex([]byte(t))}, dres)
}

func parseCase(l string) {
	r.Case("ParseLit", []string{vh.Hex([]byte(l))}, parseLitResult(l))
}

var tails = []string{"", " ", ")", "(", "\\", ")(", "\\)", " (x) /N", "\n>>", ")))"}

// bytes that matter to the four state machines
var alphabet = []byte{'\\', '(', ')', '\r', '\n', '\t', '\b', '\f', '0', '1', '7', '8', 'n', 'r', '#', 0, ' ', 'a', 'F', 'g', '/', '%', '!', '~', 0x7f, 0x80, 0xff}

func words(alpha []byte, n int, f func(string)) {
	buf := make([]byte, n)
	var rec func(i int)
	rec = func(i int) {
		if i == n {
			f(string(buf))
			return
		}
		for _, c := range alpha {
			buf[i] = c
			rec(i + 1)
		}
	}
	rec(0)
}

func randString(maxLen int) string {
	n := r.Rand.Intn(maxLen + 1)
	b := make([]byte, n)
	mode := r.Rand.Intn(4)
	for i := range b {
		switch {
		case mode == 0:
			b[i] = byte(r.Rand.Intn(256))
		case mode == 1:
			b[i] = alphabet[r.Rand.Intn(len(alphabet))]
		case mode == 2: // printable text with occasional specials
			if r.Rand.Intn(6) == 0 {
				b[i] = alphabet[r.Rand.Intn(len(alphabet))]
			} else {
				b[i] = byte(0x20 + r.Rand.Intn(0x5f))
			}
		default: // no NUL, so the name round trip applies
			b[i] = byte(1 + r.Rand.Intn(255))
		}
	}
	return string(b)
}

// mutate damages an encoder output (or any text) at one place.
func mutate(t string) string {
	b := []byte(t)
	ins := []string{"\\", "#", "\r", "\n", "\r\n", "\\\r\n", "\\\r", "\\0", "\\12", "\\123", "\\777", "\\8", "7", "0", "\x00", "#0", "#00", "#g1", "#4", "(", ")", "\\\\"}
	switch r.Rand.Intn(4) {
	case 0: // delete a byte
		if len(b) > 0 {
			i := r.Rand.Intn(len(b))
			b = append(b[:i:i], b[i+1:]...)
		}
	case 1: // insert a fragment
		i := r.Rand.Intn(len(b) + 1)
		f := ins[r.Rand.Intn(len(ins))]
		b = append(b[:i:i], append([]byte(f), b[i:]...)...)
	case 2: // overwrite a byte
		if len(b) > 0 {
			b[r.Rand.Intn(len(b))] = alphabet[r.Rand.Intn(len(alphabet))]
		}
	default: // truncate
		if len(b) > 0 {
			b = b[:r.Rand.Intn(len(b))]
		}
	}
	return string(b)
}

// ---- prefix / alignment dependent inputs (byte-order marks, UTF-16 units) ----

var boms = []string{"\xfe\xff", "\xff\xfe", "\xef\xbb\xbf"}

// significant bytes for tails: escapes, parentheses, EOLs, digits, name delimiters
var sig = []byte{'\\', '(', ')', '\r', '\n', '\t', '\b', '\f', '0', '1', '7', '8', '9', '#', '/', '%', '<', '>', '[', ']', '{', '}', 0, ' ', 'n', 'q', 0x7f, 0xfe, 0xff}

// code points whose UTF-16 units contain 5C / 28 / 29 / 0D / 0A / 23 / 2F as high or low byte
var units = []uint16{0x5c71, 0x715c, 0x2800, 0x0028, 0x0129, 0x2901, 0x5c28, 0x285c, 0x5c5c, 0x2929, 0x2828, 0x0d0a, 0x0a0d, 0x0d00, 0x000d,
	0x2300, 0x0023, 0x2f2f, 0x2500, 0x3030, 0x5c30, 0x305c, 0x0429, 0x0428, 0x045c, 0x4e28, 0x4e5c, 0x5c4e, 0x5c0d, 0x5c0a, 0x0041, 0x4100, 0xfeff, 0xfffe}

// alignedTail: n bytes; significant bytes are placed preferably at offsets of parity par
// (0 even, 1 odd, 2 anywhere), the other positions get non-zero filler or zero.
func alignedTail(n, par int) []byte {
	b := make([]byte, n)
	zeroFill := r.Rand.Intn(3) == 0
	for i := range b {
		if par == 2 || i%2 == par || r.Rand.Intn(8) == 0 {
			if r.Rand.Intn(4) != 0 {
				b[i] = sig[r.Rand.Intn(len(sig))]
				continue
			}
		}
		if zeroFill {
			b[i] = 0
		} else {
			b[i] = byte(1 + r.Rand.Intn(255))
		}
	}
	return b
}

func utf16Text(n int, le bool) []byte {
	b := make([]byte, 0, 2*n)
	for i := 0; i < n; i++ {
		var u uint16
		switch r.Rand.Intn(4) {
		case 0: // Cyrillic
			u = uint16(0x0400 + r.Rand.Intn(0x100))
		case 1: // CJK
			u = uint16(0x4e00 + r.Rand.Intn(0x5200))
		default:
			u = units[r.Rand.Intn(len(units))]
		}
		if le {
			b = append(b, byte(u), byte(u>>8))
		} else {
			b = append(b, byte(u>>8), byte(u))
		}
	}
	return b
}

// full sends one source string through K (both directions) and O.
func full(s string, withParser bool) {
	forward(s)
	backward(s)
	oracle(s, withParser)
}

func bomInputs() {
	all := make([]byte, 256)
	for i := range all {
		all[i] = byte(i)
	}
	// (a) BOM ++ x, x exhaustive up to 2 bytes (65793 strings per BOM)
	for bi, bom := range boms {
		for n := 0; n <= 2; n++ {
			words(all, n, func(x string) {
				s := bom + x
				oracle(s, n <= 1)
				if bi < 2 || r.Thorough() || n <= 1 {
					forward(s)
				}
				if r.Thorough() || n <= 1 || r.Rand.Intn(8) == 0 {
					backward(s)
				}
			})
			r.CountN(fmt.Sprintf("bom%d+exhaustive-len:%d", bi, n), 1<<(8*n))
		}
		// every unit from the table, alone and doubled, big and little endian
		for _, u := range units {
			for _, v := range units {
				full(bom+string([]byte{byte(u >> 8), byte(u), byte(v >> 8), byte(v)}), false)
				full(bom+string([]byte{byte(u), byte(u >> 8), byte(v), byte(v >> 8)}), false)
			}
		}
	}
	// (b) BOM ++ random even/odd-length tails with the significant bytes at even / odd / any offsets,
	// (c) BOM ++ UTF-16 text (CJK, Cyrillic, units containing 5C/28/29/0D/0A), BE and LE,
	// (d) the same with the BOM in the middle of the string
	nTail := r.Pick(6000, 60000)
	for i := 0; i < nTail; i++ {
		bom := boms[r.Rand.Intn(len(boms))]
		var tail []byte
		kind := r.Rand.Intn(5)
		switch kind {
		case 0, 1, 2:
			n := r.Rand.Intn(24)
			if i%20 == 0 {
				n = r.Rand.Intn(600)
			}
			tail = alignedTail(n, kind)
			r.Count(fmt.Sprintf("bom-tail:parity%d-len%%2=%d", kind, n%2))
		case 3:
			tail = utf16Text(1+r.Rand.Intn(12), bom == "\xff\xfe")
			r.Count("bom-tail:utf16")
		default:
			tail = utf16Text(1+r.Rand.Intn(12), bom == "\xff\xfe")
			if r.Rand.Intn(2) == 0 { // odd number of bytes: dangling half unit
				tail = append(tail, sig[r.Rand.Intn(len(sig))])
			}
			r.Count("bom-tail:utf16+half")
		}
		s := bom + string(tail)
		if i%3 == 0 { // BOM in the middle, at an even or odd offset
			pre := alignedTail(r.Rand.Intn(7), 2)
			s = string(pre) + s
			r.Count(fmt.Sprintf("bom-middle:offset%%2=%d", len(pre)%2))
		}
		full(s, true)
		if i%4 == 0 {
			e, _ := callEscape(s)
			n, _ := callEncodeName(s)
			backward(e)
			backward(n)
			backward(mutate(e))
			backward(mutate(n))
			parseCase("(" + e + ")" + tails[r.Rand.Intn(len(tails))])
		}
	}
}

func classify(s string) {
	switch {
	case strings.Contains(s, "\r\n"):
		r.Count("class:has-CRLF")
	case strings.ContainsAny(s, "\\()"):
		r.Count("class:has-backslash-or-paren")
	case strings.IndexByte(s, 0) >= 0:
		r.Count("class:has-NUL")
	case strings.ContainsAny(s, "\r\n\t\b\f"):
		r.Count("class:has-control")
	default:
		r.Count("class:plain")
	}
}

func main() {
	r = vh.Start("C12")
	defer r.Finish()

	// needsHexSequence, observed through EncodeName on every single byte
	for c := 0; c < 256; c++ {
		s := string([]byte{byte(c)})
		e, _ := callEncodeName(s)
		r.Case("needsHex", []string{vh.Int(int64(c))}, vh.Bool(e != s))
	}

	// 1. every byte string of length <= 2: both directions + oracle + parser
	for n := 0; n <= 2; n++ {
		all := make([]byte, 256)
		for i := range all {
			all[i] = byte(i)
		}
		words(all, n, func(s string) {
			forward(s)
			backward(s)
			oracle(s, true)
			if n <= 1 {
				parseCase("(" + s)
				parseCase("(" + s + ")")
			}
			r.Count(fmt.Sprintf("len:%d", n))
		})
	}

	// 2. every string over the alphabet of significant bytes, length 3 (quick) / 3..4 (thorough)
	for n := 3; n <= r.Pick(3, 4); n++ {
		words(alphabet, n, func(s string) {
			forward(s)
			backward(s)
			oracle(s, n == 3)
			r.Count(fmt.Sprintf("alphabet-len:%d", n))
		})
	}
	// scanner: every parenthesised text over { \ ( ) a CR } up to length 5 (6 thorough)
	for n := 0; n <= r.Pick(5, 6); n++ {
		words([]byte{'\\', '(', ')', 'a', '\r'}, n, func(s string) { parseCase("(" + s) })
	}

	// 3. thorough: all 2^24 three-byte strings through the oracle; a sample of them through the model
	if r.Thorough() {
		buf := make([]byte, 3)
		for a := 0; a < 256; a++ {
			for b := 0; b < 256; b++ {
				for c := 0; c < 256; c++ {
					buf[0], buf[1], buf[2] = byte(a), byte(b), byte(c)
					s := string(buf)
					oracle(s, false)
					if r.Rand.Intn(128) == 0 {
						forward(s)
						backward(s)
					}
				}
			}
		}
		r.CountN("len:3", 1<<24)
	} else {
		for i := 0; i < 20000; i++ {
			s := string([]byte{byte(r.Rand.Intn(256)), byte(r.Rand.Intn(256)), byte(r.Rand.Intn(256))})
			oracle(s, false)
			if i%4 == 0 {
				forward(s)
				backward(s)
			}
		}
		r.CountN("len:3-sampled", 20000)
	}

	// 4. prefix / alignment dependent inputs
	bomInputs()

	// 5. random long strings, both directions, and damaged encoder outputs
	nLong := r.Pick(3000, 40000)
	for i := 0; i < nLong; i++ {
		maxLen := 40
		if i%10 == 0 {
			maxLen = 2000
		}
		s := randString(maxLen)
		if i%7 == 0 {
			s = boms[r.Rand.Intn(len(boms))] + s
		}
		classify(s)
		forward(s)
		oracle(s, true)
		e, _ := callEscape(s)
		n, _ := callEncodeName(s)
		backward(e)
		backward(n)
		backward(s)
		for k := 0; k < 3; k++ {
			backward(mutate(e))
			backward(mutate(n))
		}
		tail := tails[r.Rand.Intn(len(tails))]
		parseCase("(" + e + ")" + tail)
		parseCase("(" + mutate(e) + ")" + tail)
		parseCase("(" + mutate(s))
	}
}
