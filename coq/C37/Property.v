(* C37 — Form export and fill round-trip.
   Property theorems only; each is closed by an exact lemma of Proofs.v and followed by Print Assumptions.

   Level: PARTIAL.  The theorems are about the hand-transcribed model of export.go / fill.go / api/form.go
   (coq/C37/Model.v); appearance streams, /I, kid /AS and the field tree are not modelled.  [datefmt] is
   primitives.DateFormatForDate, universally quantified (any date detection function).
   The third sentence of the property ("Locked fields keep their values") is proved for list boxes only:
   the code overwrites locked text, date, check box, radio and combo fields (C37_locked_*_refuted). *)
From Coq Require Import ZArith NArith List Bool.
From PV Require Import Lib.GoInt C37.Model C37.ProofsBase C37.Proofs.
Import ListNotations.
Open Scope Z_scope.

(* 1. Filling a form with the values just exported from it leaves every field value unchanged:
      for a form whose fields have pairwise different ids and names ([keys_distinct]; ids are object numbers)
      and whose stored choice values are [clean] (no radio option is literally "Off"; a combo / single-select
      list value has no outer blanks unless its trimmed form is an option),
      form.FillForm with the exported JSON succeeds and the filled form exports the very same JSON;
      api.FillForm either rejects the data (nothing is written) or yields such a form. *)
Theorem C37_fill_exported_keeps_values : forall datefmt fs j,
  keys_distinct fs -> forallb clean fs = true -> export_form datefmt fs = Ok j ->
  (exists c fs', fill_form datefmt j fs = Ok (c, fs') /\ export_form datefmt fs' = Ok j) /\
  (forall c fs', api_fill datefmt fs j = Ok (c, fs') -> export_form datefmt fs' = Ok j).
Proof. exact fill_exported_keeps_values. Qed.
Print Assumptions C37_fill_exported_keeps_values.

(* 2. Filling with valid values and then exporting reports exactly those values (and lock flags):
      if the fill data holds, for every field, an entry that is valid for the field's type
      ([valid_for]: any text / date string; any boolean for a check box whose on-state is a proper name;
       a radio value among the exported options and not "Off"; a combo value among the options or empty;
       list values among the options — at most one for a single-select list),
      or the field is a locked list box, then the fill succeeds, the export succeeds, and every field's
      exported value and lock flag are those of its entry — a locked list box keeps its old values. *)
Theorem C37_fill_valid_values_reported : forall datefmt j fs,
  (forall f, In f fs -> fill_pre datefmt j f) ->
  exists c fs' es, fill_form datefmt j fs = Ok (c, fs') /\ export_form datefmt fs' = Ok es /\
                   Forall2 (fill_post datefmt j) fs es.
Proof. exact fill_valid_reports_values. Qed.
Print Assumptions C37_fill_valid_values_reported.

(* 3. Locked fields keep their values — PARTIAL: list boxes only.
      Full statement (false for the code, see the _refuted examples below):
        forall f, plocked f = true -> fill_field j f = Ok (c, f') -> exported value of f' = exported value of f. *)
Theorem C37_locked_fields_keep_values_partial : forall datefmt j id name multi raw v dv c f',
  fill_field datefmt j (PLb id name true multi raw v dv) = Ok (c, f') ->
  exists l, f' = PLb id name l multi raw v dv.
Proof. exact locked_listbox_keeps_value. Qed.
Print Assumptions C37_locked_fields_keep_values_partial.

(* 4. api.FillForm's "no form fields affected" (ok = false, nothing written) loses nothing:
      whenever the ok flag is false the field states are untouched. *)
Theorem C37_noop_keeps_form : forall datefmt j fs fs',
  fill_form datefmt j fs = Ok (false, fs') -> fs' = fs.
Proof. exact fill_noop_keeps_form. Qed.
Print Assumptions C37_noop_keeps_form.

(* 5. The string facts the round trip rests on. *)
Theorem C37_trim_space_idempotent : forall s, trim_space (trim_space s) = trim_space s.
Proof. exact trim_space_idem. Qed.
Print Assumptions C37_trim_space_idempotent.

Theorem C37_atoi_itoa : forall n, Z.of_N n <= 9223372036854775807 -> atoi (itoa n) = Some (Z.of_N n).
Proof. exact atoi_itoa. Qed.
Print Assumptions C37_atoi_itoa.

(* ---- witnesses: what the code (as transcribed) does NOT guarantee ---- *)
Definition nodate : str -> option str := fun _ => None.
Definition sa : str := [97%N].  Definition sb : str := [98%N].  Definition s1 : str := [49%N].  Definition s2 : str := [50%N].

(* a locked text field that stays locked is overwritten *)
Example C37_locked_text_overwritten_refuted :
  fill_field nodate [JTx s1 sa [] sb 0 false true] (PTx s1 sa true false 0 None (Some sa) None)
  = Ok (true, PTx s1 sa true false 0 None (Some sb) None).
Proof. vm_compute. reflexivity. Qed.

Example C37_locked_combo_overwritten_refuted :
  fill_field nodate [JCo s1 sa false [sa; sb] [] sb true] (PCo s1 sa true [sa; sb] (Some sa) None)
  = Ok (true, PCo s1 sa true [sa; sb] (Some sb) None).
Proof. vm_compute. reflexivity. Qed.

Example C37_locked_checkbox_overwritten_refuted :
  fill_field nodate [JCb s1 sa false false true] (PCb s1 sa true (Some sYes) None ASNone)
  = Ok (true, PCb s1 sa true (Some sOff) None ASNone).
Proof. vm_compute. reflexivity. Qed.

Example C37_locked_radio_overwritten_refuted :
  fill_field nodate [JRb s1 sa [sa; sb] [] sb true] (PRb s1 sa true [] [Some sa; Some sb] (Some sa) None)
  = Ok (true, PRb s1 sa true [] [Some sa; Some sb] (Some sb) None).
Proof. vm_compute. reflexivity. Qed.

(* [keys_distinct] is needed: two unnamed text fields, filled with their own export, both get the first value *)
Example C37_unnamed_fields_refuted :
  let fs := [PTx s1 [] false false 0 None (Some sa) None; PTx s2 [] false false 0 None (Some sb) None] in
  let j := [JTx s1 [] [] sa 0 false false; JTx s2 [] [] sb 0 false false] in
  let fs' := [PTx s1 [] false false 0 None (Some sa) None; PTx s2 [] false false 0 None (Some sa) None] in
  export_form nodate fs = Ok j /\ fill_form nodate j fs = Ok (true, fs') /\ export_form nodate fs' <> Ok j.
Proof. vm_compute. repeat split. discriminate. Qed.

(* deselecting a radio group that has an explicit /Opt array stores an empty name: the next export fails *)
Example C37_radio_deselect_export_fails_refuted :
  let f := PRb s1 sa false [sa; sb] [Some [48%N]; Some [49%N]] (Some [48%N]) None in
  let f' := PRb s1 sa false [sa; sb] [Some [48%N]; Some [49%N]] (Some []) None in
  fill_field nodate [JRb s1 sa [sa; sb] [] [] false] f = Ok (true, f') /\ export_field nodate f' = Err
  /\ export_field nodate f = Ok (JRb s1 sa [sa; sb] [] sa false).
Proof. vm_compute. repeat split. Qed.

(* a radio group with an explicit /Opt array and /V /Off cannot be exported at all *)
Example C37_radio_explicit_off_export_fails_refuted :
  export_field nodate (PRb s1 sa false [sa; sb] [Some [48%N]; Some [49%N]] (Some sOff) None) = Err.
Proof. vm_compute. reflexivity. Qed.

(* deselecting a single-select list box that has a value deletes /V (was an index-out-of-range panic
   before pdfcpu commit "deselecting a single-select list box no longer panics") *)
Example C37_listbox_single_deselect :
  fill_field nodate [JLb s1 sa false [sa; sb] [] [] false] (PLb s1 sa false false [sa; sb] (LStr sa) LNone)
  = Ok (true, PLb s1 sa false false [sa; sb] LNone LNone).
Proof. vm_compute. reflexivity. Qed.

(* a text value that parses as a date turns the field into a date field on the next export (value kept) *)
Example C37_text_becomes_date :
  let isdate := fun s : str => if str_eqb s sb then Some sa else None in
  let f' := PTx s1 sa false false 0 None (Some sb) None in
  fill_field isdate [JTx s1 sa [] sb 0 false false] (PTx s1 sa false false 0 None (Some sa) None) = Ok (true, f')
  /\ export_field isdate f' = Ok (JDt s1 sa sa [] sb false).
Proof. vm_compute. split; reflexivity. Qed.

(* ---- non-vacuity: a form with every field type satisfying the hypotheses of theorems 1 and 2 ---- *)
Definition ex_form : list pfield :=
  [ PTx [49%N] [116%N] false true 10 None (Some sa) None;
    PTx [50%N] [100%N] true false 0 (Some [100%N; 46%N; 109%N]) None None;
    PCb [51%N] [99%N] false (Some sYes) None (ASYes sYes);
    PRb [52%N] [114%N] false [] [Some sa; Some sb] (Some sb) None;
    PRb [53%N] [120%N] false [sa; sb] [Some [48%N]; Some [49%N]] (Some [49%N]) (Some [48%N]);
    PCo [54%N] [111%N] true [sa; 32%N :: sb] (Some sb) None;
    PLb [55%N] [108%N] false true [sa; sb] (LArr [sb; sa]) LNone;
    PLb [56%N] [109%N] true false [sa; sb] (LStr sa) LNone ].

Example C37_nonvacuous_1 :
  keys_distinct ex_form /\ forallb clean ex_form = true /\ export_form nodate ex_form <> Err.
Proof.
  split; [|split; [vm_compute; reflexivity|vm_compute; discriminate]].
  simpl. repeat split; repeat constructor; simpl; discriminate.
Qed.

(* the exported JSON itself satisfies the precondition of theorem 2 for this form *)
Example C37_nonvacuous_2 :
  match fill_form nodate
    [JTx [49%N] [116%N] [] sb 10 true false; JDt [50%N] [100%N] [] [] s1 true; JCb [51%N] [99%N] false false true;
     JRb [52%N] [114%N] [] [] sa false; JRb [53%N] [120%N] [] [] sa false; JCo [54%N] [111%N] false [] [] sa true;
     JLb [55%N] [108%N] true [] [] [sa] false; JLb [56%N] [109%N] false [] [] [sb] true] ex_form with
  | Ok (c, fs') =>
    match export_form nodate fs' with
    | Ok es => map jvalue es = [VStr sb; VStr s1; VBool false; VStr sa; VStr sa; VStr sa; VList [sa]; VList [sa]]
    | Err => False
    end
  | Err => False
  end.
Proof. vm_compute. reflexivity. Qed.
