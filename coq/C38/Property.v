(* C38 — Removing watermarks undoes adding them.
   Property theorems only; each is closed by an exact lemma and followed by Print Assumptions.
   Model: coq/C38/Model.v (hand transcription of pkg/pdfcpu/stamp.go).  Content streams are byte lists;
   the drawing of the watermark itself (form XObject, fonts, images) is not modelled. *)
From Coq Require Import List NArith Bool.
From PV Require Import C38.Model C38.ProofsIndex C38.ProofsRemove C38.ProofsPage C38.ProofsDoc C38.ProofsSeq C38.ProofsTree.
Import ListNotations.
Open Scope N_scope.

(* Notation used below (all defined in ProofsRemove.v / ProofsPage.v / ProofsDoc.v):
   wm_ok mtx x y      the watermark bytes are what wmContent prints: six "%.5f" numbers (digits . - + blank)
                      and resource names GS<x>, Fm<y> with x, y non-empty decimal strings;
   wmbb mtx x y       = wm_content mtx ("GS"++x) ("Fm"++y);
   clean_page ct      no stream of the page contains pdfcpu's watermark marker;
   wrap_equiv o n     n = ws o ws  or  n = ws q ws+ o ws+ Q ws  (ws = white space only): equal up to white
                      space and one enclosing save/restore pair, the original bytes surviving verbatim;
   page_bytes ct      the page's content as a consumer reads it (array streams joined by a newline). *)

(* 1. One page, stamp (on top) or watermark (background), no/single/multiple content streams:
      removal succeeds, finds the watermark, reports exactly the two resource names that were added,
      leaves the original content up to white space and one q/Q pair, and no artifact in any stream. *)
Theorem C38_page_remove_undoes_add : forall mtx x y onTop ct,
  wm_ok mtx x y = true -> clean_page ct = true ->
  exists ct',
    remove_page (add_page onTop None (wmbb mtx x y) ct)
      = (if nonempty_page ct then POk true ct' [id_gs ++ x] [id_fm ++ y] else POk false ct' [] [])
    /\ wrap_equiv (page_bytes ct) (page_bytes ct')
    /\ clean_page ct' = true
    /\ detect_page ct' = false
    /\ remove_page ct' = POk false ct' [] [].
Proof. exact page_remove_undoes_add. Qed.
Print Assumptions C38_page_remove_undoes_add.

(* 2. Detection on a page: true after a watermark was added (whatever the previous content),
      false on a page without artifacts. *)
Theorem C38_page_detect : forall mtx x y onTop ct,
  (nonempty_page ct = true -> detect_page (add_page onTop None (wmbb mtx x y) ct) = true)
  /\ (clean_page ct = true -> detect_page ct = false).
Proof. exact page_detect. Qed.
Print Assumptions C38_page_detect.

(* 3. removeArtifacts on ARBITRARY bytes: the loop terminates (the model never runs out of fuel),
      removing twice = removing once, and what is left has no marker or only a marker without EMC. *)
Theorem C38_remove_total_idempotent : forall s,
  exists r, remove_artifacts s = Some r
    /\ remove_artifacts (rm_content r)
       = Some {| rm_found := false; rm_content := rm_content r; rm_gs := []; rm_fm := [] |}
    /\ (noocc marker (rm_content r)
        \/ exists a b, rm_content r = a ++ b /\ prefixb marker b = true /\ noocc emc b).
Proof. exact remove_total_idempotent. Qed.
Print Assumptions C38_remove_total_idempotent.

(* 4. Document level.  FULL STATEMENT (not provable, see C38_remove_all_pages_refuted):
        for every artifact-free document, every add selection sela and every removal selection selr
        covering sela, RemoveWatermarks (AddWatermarks d) succeeds, restores every page up to
        wrap_equiv, and DetectWatermarks reports none.
      PROVED: the same under `pre`, which adds exactly the complement of the two defect classes:
        every page selected for removal that did not receive a watermark has its own /Resources
        entry and a /Contents entry.  (If no selected page can take a watermark, removal reports
        "no watermark", which is correct.) *)
Theorem C38_doc_remove_undoes_add_partial : forall mtx x y onTop d sela selr,
  wm_ok mtx x y = true -> pre sela selr (d_pages d) = true ->
  if any_sel sela (d_pages d) then
    exists d2, remove_doc selr (add_doc onTop (wmbb mtx x y) sela d) = DOk d2
               /\ Forall2 page_rel (d_pages d) (d_pages d2)
               /\ detect_doc d2 = false
  else remove_doc selr (add_doc onTop (wmbb mtx x y) sela d) = DErr ENoWatermark.
Proof. exact doc_remove_undoes_add. Qed.
Print Assumptions C38_doc_remove_undoes_add_partial.

(* 5. The defect: after watermarking page 1 only, "remove watermarks" over all pages fails — and leaves
      the watermark in place — when page 2 is blank (no /Contents) or inherits its /Resources. *)
Theorem C38_remove_all_pages_refuted :
  (forallb (fun p => clean_page (pg_ct p)) (d_pages doc_blank) = true /\
   remove_doc [true; true] (add_doc true wm0 [true; false] doc_blank) = DErr ENoContents /\
   detect_doc (add_doc true wm0 [true; false] doc_blank) = true)
  /\
  (forallb (fun p => clean_page (pg_ct p)) (d_pages doc_inherit) = true /\
   remove_doc [true; true] (add_doc false wm0 [true; false] doc_inherit) = DErr ENoResources /\
   detect_doc (add_doc false wm0 [true; false] doc_inherit) = true).
Proof. exact remove_all_pages_refuted. Qed.
Print Assumptions C38_remove_all_pages_refuted.

(* 6. Detection on documents: none on an artifact-free document; after AddWatermarks exactly when some
      selected page could take a watermark. *)
Theorem C38_doc_detect : forall mtx x y onTop d sel,
  forallb (fun p => clean_page (pg_ct p)) (d_pages d) = true ->
  detect_doc d = false /\ detect_doc (add_doc onTop (wmbb mtx x y) sel d) = any_sel sel (d_pages d).
Proof. exact doc_detect. Qed.
Print Assumptions C38_doc_detect.

(* 7. One stream with ANY number of watermark blocks at any positions (items = segments and blocks):
      if the stream without its blocks is marker-free, removeArtifacts removes every block, returns the
      bare segments, and reports the resource names of all blocks in order. *)
Theorem C38_stream_all_blocks_removed : forall s,
  noocc marker (erase s) -> ok_items s = true ->
  remove_artifacts (render s)
  = Some {| rm_found := has_blk s; rm_content := erase s; rm_gs := gs_of s; rm_fm := fm_of s |}.
Proof. exact remove_artifacts_items. Qed.
Print Assumptions C38_stream_all_blocks_removed.

(* 8. Sequences of AddWatermarks calls on one page, then one RemoveWatermarks.
      wrap_equivN = equal up to white space and nested q ... Q pairs (one pair per on-top call).
      FULL STATEMENT (refuted by C38_stamp_left_behind_refuted): for every non-empty sequence of adds,
      mixing stamps and watermarks in any order, on any artifact-free page.
      PROVED: for every sequence on pages with at most one content stream, and on multi-stream pages for
      every sequence in which no call follows an on-top call (seq_shape: all calls but the last are
      background watermarks) - the exact complement of the defect class. *)
Theorem C38_page_remove_undoes_add_sequence_partial : forall adds ct,
  forallb wadd_ok adds = true -> clean_page ct = true -> adds <> [] ->
  (single_stream ct || seq_shape adds) = true ->
  exists found ct' g f,
    remove_page (add_seq (map wadd_bytes adds) ct) = POk found ct' g f
    /\ wrap_equivN (page_bytes ct) (page_bytes ct')
    /\ clean_page ct' = true
    /\ detect_page ct' = false.
Proof. exact page_sequence_roundtrip. Qed.
Print Assumptions C38_page_remove_undoes_add_sequence_partial.

(* 9. The defect: on a two-stream page, stamp-then-watermark and stamp-then-stamp leave the first stamp
      in a middle stream after removal, and detection then reports no watermark. *)
Theorem C38_stamp_left_behind_refuted :
  clean_page two_streams = true /\ forallb wadd_ok seq_top_bg = true /\ forallb wadd_ok seq_top_top = true /\
  (exists ct' g f, remove_page (add_seq (map wadd_bytes seq_top_bg) two_streams) = POk true ct' g f
                   /\ clean_page ct' = false /\ detect_page ct' = false) /\
  (exists ct' g f, remove_page (add_seq (map wadd_bytes seq_top_top) two_streams) = POk true ct' g f
                   /\ clean_page ct' = false /\ detect_page ct' = false).
Proof. exact stamp_left_behind. Qed.
Print Assumptions C38_stamp_left_behind_refuted.

(* 10. DetectWatermarks walks the page tree (nested /Pages nodes, shared ctx.Watermarked flag, early exit).
       Its result is the `existsb` of the per-page detection over the pages in document order, hence
       independent of the shape of the tree; so every document-level theorem above, stated on the page
       list, holds for every page tree with that page list. *)
Theorem C38_detect_tree_shape_independent :
  (forall t, walk_tree t false = existsb (fun p => detect_page (pg_ct p)) (flatten t))
  /\ (forall t1 t2, flatten t1 = flatten t2 -> walk_tree t1 false = walk_tree t2 false)
  /\ (forall d, detect_tdoc d = detect_doc (flat_doc d)).
Proof. exact tree_detect_statement. Qed.
Print Assumptions C38_detect_tree_shape_independent.

(* a merge-like tree Kids=[Pages[p1* p2] p3]: watermark on p1 only, followed by clean pages at both levels *)
Example C38_tree_nonvacuous :
  let w := {| pg_res := true; pg_ct := CStream (wmbb [49] [49] [49]) |} in
  let c := {| pg_res := true; pg_ct := CStream [110] |} in
  detect_tdoc {| t_ocg := true; t_root := [PNode [PLeaf w; PLeaf c]; PLeaf c] |} = true
  /\ detect_tdoc {| t_ocg := true; t_root := [PNode [PLeaf c; PLeaf c]; PLeaf c] |} = false.
Proof. vm_compute. split; reflexivity. Qed.

(* non-vacuity: the hypotheses are satisfiable, both placements, single and multi stream *)
Example C38_nonvacuous :
  let mtx := [49; 46; 48; 32; 45; 48; 46; 53] in
  wm_ok mtx [49; 50] [55] = true
  /\ clean_page (CArray [[113]; [110]; [81]]) = true
  /\ nonempty_page (CArray [[113]; [110]; [81]]) = true
  /\ pre [true; false; true] [true; true; true]
       [ {| pg_res := true; pg_ct := CStream [110] |}; {| pg_res := true; pg_ct := CArray [[110]] |};
         {| pg_res := false; pg_ct := CNone |} ] = true
  /\ wm_ok [69] [49] [49] = false
  /\ seq_shape [(false, (mtx, [49], [49])); (false, (mtx, [50], [50])); (true, (mtx, [51], [51]))] = true
  /\ seq_shape seq_top_bg = false.
Proof. vm_compute. repeat split. Qed.
