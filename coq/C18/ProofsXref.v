(* C18 — the cross-reference table printed by the writer is read back exactly by the strict parser. *)
From Coq Require Import ZArith NArith List Bool Lia ZifyBool ZifyNat ZifyN.
From PV Require Import C18.Model C18.ProofsBase.
Import ListNotations.
Open Scope N_scope.

Local Opaque dec pad0.

Definition bounded (x : ent) : Prop := e_a x < 10 ^ 10 /\ e_b x < 10 ^ 5.

Lemma bounded_b l : forallb (fun x => (e_a x <? 10 ^ 10) && (e_b x <? 10 ^ 5)) l = true -> Forall bounded l.
Proof.
  intros H. apply Forall_forall. intros x Hx. rewrite forallb_forall in H. specialize (H x Hx).
  apply andb_true_iff in H. destruct H as [H1 H2]. split; apply N.ltb_lt; assumption.
Qed.

(* ------------------------------------------------------------------ one entry *)

Lemma digits_head_not c l r : digits l -> l <> [] -> is_digit c = false -> head_not c (l ++ r).
Proof.
  intros Hd Hne Hc. destruct l as [|b l]; [contradiction|]. cbn. inversion Hd as [|? ? Hb ?]; subst.
  intros ->. rewrite Hb in Hc. discriminate.
Qed.

Lemma pad0_nonempty k ds : ds <> [] -> pad0 k ds <> [].
Proof.
  Local Transparent pad0.
  unfold pad0. intros H E. apply app_eq_nil in E. tauto.
  Local Opaque pad0.
Qed.

Lemma parse_entry_line e x rest : bounded x ->
  parse_entry (entry_line e x ++ rest) = Some (e_a x, e_b x, e_free x, rest).
Proof.
  intros [Ha Hb]. unfold entry_line. repeat rewrite <- app_assoc. unfold parse_entry.
  destruct (take_k_pad 10 (e_a x) ([32] ++ pad0 5 (dec (e_b x)) ++ [32] ++ [if e_free x then 102 else 110] ++ eol2 e ++ rest))
    as [T1 V1]; [exact Ha|lia|].
  rewrite T1. cbn [bind]. rewrite strip_app. cbn [bind].
  destruct (take_k_pad 5 (e_b x) ([32] ++ [if e_free x then 102 else 110] ++ eol2 e ++ rest)) as [T2 V2]; [exact Hb|lia|].
  rewrite T2. cbn [bind]. rewrite strip_app. cbn [bind]. rewrite V1, V2.
  destruct e, (e_free x); reflexivity.
Qed.

Lemma entry_line_head e x r : head_not 10 (entry_line e x ++ r).
Proof.
  unfold entry_line. rewrite <- app_assoc.
  apply digits_head_not; [apply pad0_digits, dec_digits|apply pad0_nonempty, dec_nonempty|reflexivity].
Qed.

Lemma entry_line_length e x : bounded x -> length (entry_line e x) = 20%nat.
Proof.
  intros [Ha Hb]. unfold entry_line. rewrite !app_length.
  rewrite (pad0_length 10) by (apply dec_len; [exact Ha|lia]).
  rewrite (pad0_length 5) by (apply dec_len; [exact Hb|lia]).
  destruct e; reflexivity.
Qed.

(* ------------------------------------------------------------------ a run of entries *)

Fixpoint consec (start : N) (run : list ent) : Prop :=
  match run with
  | [] => True
  | x :: r => e_nr x = start /\ consec (N.succ start) r
  end.

Lemma concat_map_length {A} (f : A -> list N) (l : list A) rest :
  (forall x, (1 <= length (f x))%nat) -> (length l <= length (concat (map f l) ++ rest))%nat.
Proof.
  intros Hf. induction l as [|x l IH]; cbn [map concat length]; [lia|].
  rewrite <- app_assoc, app_length. specialize (Hf x). lia.
Qed.

Lemma entry_line_len1 e x : (1 <= length (entry_line e x))%nat.
Proof. unfold entry_line. rewrite !app_length. destruct e; cbn; lia. Qed.

Lemma parse_entries_run e : forall run fuel start rest,
  consec start run -> Forall bounded run -> (length run <= length fuel)%nat ->
  parse_entries fuel (lenN run) start (concat (map (entry_line e) run) ++ rest) = Some (run, rest).
Proof.
  induction run as [|x run IH]; intros fuel start rest Hc Hb Hf.
  - destruct fuel; reflexivity.
  - destruct fuel as [|f0 fuel]; [cbn in Hf; lia|].
    cbn [lenN map concat]. rewrite <- app_assoc. cbn [parse_entries].
    destruct (N.eqb_spec (N.succ (lenN run)) 0) as [E|_]; [lia|].
    inversion Hb as [|? ? Hbx Hbr]; subst. destruct Hc as [Hnr Hc].
    rewrite parse_entry_line by exact Hbx. cbn [bind]. rewrite N.pred_succ.
    rewrite IH; [|exact Hc|exact Hbr|cbn in Hf; lia]. cbn [bind].
    destruct x as [nr a b k]. cbn in *. subst nr. reflexivity.
Qed.

(* ------------------------------------------------------------------ subsections *)

Lemma runs_spec l : concat (runs l) = l /\ Forall (fun run => run <> []) (runs l).
Proof.
  induction l as [|x r [IHc IHn]]; [split; [reflexivity|constructor]|].
  cbn [runs]. destruct (runs r) as [|[|y run] rs] eqn:E.
  - cbn in IHc. subst r. split; [reflexivity|repeat constructor; discriminate].
  - inversion IHn as [|? ? Hne ?]; subst. contradiction.
  - destruct (1 <? e_nr y - e_nr x).
    + split; [cbn [concat app]; rewrite <- IHc; reflexivity|constructor; [discriminate|exact IHn]].
    + split; [cbn [concat app]; rewrite <- IHc; reflexivity|].
      inversion IHn; subst. constructor; [discriminate|assumption].
Qed.

Lemma runs_consec_step x r : increasing (e_nr x) r = true ->
  Forall (fun run => consec (run_start run) run) (runs r) ->
  Forall (fun run => consec (run_start run) run) (runs (x :: r)).
Proof.
  intros Hr IH. cbn [runs].
  destruct (runs_spec r) as [Hc _].
  destruct (runs r) as [|[|y run] rs] eqn:E.
  - repeat constructor.
  - repeat constructor.
  - assert (Hxy : e_nr x < e_nr y).
    { cbn in Hc. subst r. cbn [increasing] in Hr. apply andb_true_iff in Hr. destruct Hr as [Hr _].
      apply N.ltb_lt. exact Hr. }
    destruct (N.ltb_spec 1 (e_nr y - e_nr x)) as [Hgap|Hadj].
    + constructor; [cbn; auto|exact IH].
    + inversion IH as [|? ? Hrun Hrs]; subst. constructor; [|exact Hrs].
      cbn [run_start consec] in *. split; [reflexivity|].
      replace (N.succ (e_nr x)) with (e_nr y) by lia. exact Hrun.
Qed.

Lemma runs_consec : forall l prev, increasing prev l = true ->
  Forall (fun run => consec (run_start run) run) (runs l).
Proof.
  induction l as [|x r IH]; intros prev H; [constructor|].
  cbn [increasing] in H. apply andb_true_iff in H. destruct H as [_ Hr].
  apply runs_consec_step; [exact Hr|]. apply (IH _ Hr).
Qed.

(* strictly increasing object numbers, no bound on the first *)
Definition strictly_increasing (l : list ent) : Prop :=
  match l with [] => True | x :: r => increasing (e_nr x) r = true end.

Lemma runs_consec_all l : strictly_increasing l ->
  Forall (fun run => consec (run_start run) run) (runs l).
Proof.
  destruct l as [|x r]; intros H; [constructor|].
  apply runs_consec_step; [exact H|]. apply (runs_consec _ _ H).
Qed.

Lemma strip_trailer_digit d l : is_digit d = true -> strip s_trailer (d :: l) = None.
Proof.
  intros Hd. unfold s_trailer. cbn [strip]. destruct (N.eqb_spec 116 d) as [E|E]; [|reflexivity]. subst d. discriminate.
Qed.

Lemma strip_trailer_dec n r : strip s_trailer (dec n ++ r) = None.
Proof. destruct (dec_head n) as (d & ds & E & Hd). rewrite E. cbn [app]. apply strip_trailer_digit. exact Hd. Qed.

Definition good_run (run : list ent) : Prop :=
  run <> [] /\ consec (run_start run) run /\ Forall bounded run.

Lemma print_run_len1 e run : (1 <= length (print_run e run))%nat.
Proof.
  unfold print_run. rewrite app_length. destruct (dec_head (run_start run)) as (d & ds & E & _).
  rewrite E. cbn. lia.
Qed.

Lemma nondigit_eol e r : nondigit_head (eolb e ++ r).
Proof. destruct e; reflexivity. Qed.

Lemma parse_sections_runs e : forall rs fuel rest,
  Forall good_run rs -> (length rs <= length fuel)%nat ->
  parse_sections fuel (concat (map (print_run e) rs) ++ s_trailer ++ rest) = Some (concat rs, rest).
Proof.
  induction rs as [|run rs IH]; intros fuel rest Hg Hf.
  - cbn [map concat app]. destruct fuel; cbn [parse_sections]; rewrite strip_app; reflexivity.
  - destruct fuel as [|f0 fuel]; [cbn in Hf; lia|].
    inversion Hg as [|? ? (Hne & Hcon & Hbd) Hgr]; subst.
    cbn [map concat]. rewrite <- app_assoc.
    set (tl := concat (map (print_run e) rs) ++ s_trailer ++ rest).
    unfold print_run. repeat rewrite <- app_assoc.
    cbn [parse_sections].
    rewrite strip_trailer_dec.
    rewrite parse_num_dec by reflexivity. cbn [bind]. rewrite strip_app. cbn [bind].
    rewrite parse_num_dec by apply nondigit_eol. cbn [bind].
    assert (Hhead : head_not 10 (concat (map (entry_line e) run) ++ tl)).
    { destruct run as [|x run]; [contradiction|]. cbn [map concat]. rewrite <- app_assoc. apply entry_line_head. }
    rewrite strip_eol_app by exact Hhead. cbn [bind].
    rewrite parse_entries_run; [|exact Hcon|exact Hbd|apply concat_map_length, entry_line_len1].
    cbn [bind]. unfold tl. rewrite IH; [|exact Hgr|cbn in Hf; lia]. cbn [bind concat]. reflexivity.
Qed.

(* the whole table: everything the writer puts between "xref" and "<<" *)
Lemma parse_sections_table e ents rest :
  strictly_increasing ents -> Forall bounded ents ->
  parse_sections (concat (map (print_run e) (runs ents)) ++ s_trailer ++ rest)
                 (concat (map (print_run e) (runs ents)) ++ s_trailer ++ rest) = Some (ents, rest).
Proof.
  intros Hinc Hb.
  destruct (runs_spec ents) as [Hc Hne].
  rewrite parse_sections_runs.
  - rewrite Hc. reflexivity.
  - pose proof (runs_consec_all ents Hinc) as Hcon.
    apply Forall_forall. intros run Hin. repeat split.
    + rewrite Forall_forall in Hne. apply Hne. exact Hin.
    + rewrite Forall_forall in Hcon. apply Hcon. exact Hin.
    + apply Forall_forall. intros x Hx. rewrite Forall_forall in Hb. apply Hb.
      rewrite <- Hc. apply in_concat. exists run. split; assumption.
  - apply concat_map_length, print_run_len1.
Qed.

Lemma table_head_not_lf e ents rest :
  head_not 10 (concat (map (print_run e) (runs ents)) ++ s_trailer ++ rest).
Proof.
  destruct (runs ents) as [|run rs]; cbn [map concat app].
  - cbn. discriminate.
  - unfold print_run. repeat rewrite <- app_assoc.
    apply digits_head_not; [apply dec_digits|apply dec_nonempty|reflexivity].
Qed.
