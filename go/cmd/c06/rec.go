// Recording + faulting operation tables, canonical labels and directory snapshots
// shared by the C06 (all-or-nothing) and C07 (durability) harness modes.
package main

import (
	"errors"
	"fmt"
	"os"
	"path/filepath"
	"sort"
	"strings"
	"syscall"

	"github.com/pdfcpu/pdfcpu/pkg/api"
	"github.com/pdfcpu/pdfcpu/pkg/font"
)

// ev is one recorded operation-table call (for the C07 durable-layer replay).
type ev struct {
	Op   string
	P, Q string // real paths
	Res  string // ok | eio | nat
	Data []byte // encode: the bytes written (model tokens)
}

// rec is the recorder of one run.  The root directory base/1 is the model's directory [1].
type rec struct {
	base    string
	cnt     int
	faults  map[int]bool
	trunc   int // bytes a faulted encode leaves behind
	trace   []string
	evs     []ev
	tdirs   map[string]int
	tfiles  map[string]int
	alias   map[string]string // real directory name -> model component (junk directories)
	canon   func(path string, bb []byte) string
	warns   []error
	curData []byte // the model token of the representation being encoded
}

func newRec(base string, faults ...int) *rec {
	r := &rec{base: base, faults: map[int]bool{}, tdirs: map[string]int{}, tfiles: map[string]int{}, alias: map[string]string{}}
	for _, f := range faults {
		if f >= 0 {
			r.faults[f] = true
		}
	}
	return r
}

var suffixes = []string{".gob", "_BMP.pdf", ".p7c"}

func stripName(s string) string {
	for _, x := range suffixes {
		s = strings.TrimSuffix(s, x)
	}
	if strings.HasPrefix(s, "n") {
		s = s[1:]
		if i := strings.IndexByte(s, 'x'); i >= 0 {
			s = s[:i]
		}
	}
	return s
}

// label maps a real path to the model's canonical label.
func (r *rec) label(p string, isFile bool) string {
	if p == "src" {
		return "src"
	}
	rel, err := filepath.Rel(r.base, p)
	if err != nil || strings.HasPrefix(rel, "..") {
		return "?" + p
	}
	parts := strings.Split(rel, string(filepath.Separator))
	out := make([]string, len(parts))
	cur := r.base
	for i, c := range parts {
		cur = filepath.Join(cur, c)
		last := i == len(parts)-1
		switch {
		case last && isFile:
			if k, ok := r.tfiles[cur]; ok {
				out[i] = fmt.Sprintf("T%d", k)
			} else {
				out[i] = stripName(c)
			}
		default:
			if k, ok := r.tdirs[cur]; ok {
				out[i] = fmt.Sprintf("t%d", k)
			} else if a, ok := r.alias[cur]; ok {
				out[i] = a
			} else {
				out[i] = c
			}
		}
	}
	return strings.Join(out, "/")
}

func (r *rec) log(op, args, res string) {
	r.trace = append(r.trace, op+"("+args+")="+res)
}

func resOf(op string, err error) string {
	switch {
	case err == nil:
		return "ok"
	case op == "remove" && errors.Is(err, os.ErrNotExist):
		return "ok"
	default:
		return "nat"
	}
}

// step consumes one call number; it reports whether the call is faulted.
func (r *rec) step() bool {
	i := r.cnt
	r.cnt++
	return r.faults[i]
}

func eio(op, p string) error { return &os.PathError{Op: op, Path: p, Err: syscall.EIO} }

func (r *rec) file1(op, p string, real func() error) error {
	if r.step() {
		r.log(op, r.label(p, true), "eio")
		r.evs = append(r.evs, ev{op, p, p, "eio", nil})
		return eio(op, p)
	}
	err := real()
	r.log(op, r.label(p, true), resOf(op, err))
	r.evs = append(r.evs, ev{op, p, p, resOf(op, err), nil})
	return err
}

func (r *rec) dir1(op, p string, real func() error) error {
	lab := r.label(p, false) // before the call: removeAll deletes the directory
	if r.step() {
		r.log(op, lab, "eio")
		r.evs = append(r.evs, ev{op, p, p, "eio", nil})
		return eio(op, p)
	}
	err := real()
	r.log(op, lab, resOf(op, err))
	r.evs = append(r.evs, ev{op, p, p, resOf(op, err), nil})
	return err
}

func (r *rec) mkdirTemp(real func(string, string) (string, error)) func(string, string) (string, error) {
	return func(dir, pat string) (string, error) {
		if r.step() {
			r.log("mkdirtemp", "t?", "eio")
			r.evs = append(r.evs, ev{"mkdirtemp", "", dir, "eio", nil})
			return "", eio("mkdir", filepath.Join(dir, pat))
		}
		d, err := real(dir, pat)
		if err != nil {
			r.log("mkdirtemp", "t?", "nat")
			r.evs = append(r.evs, ev{"mkdirtemp", "", dir, "nat", nil})
			return d, err
		}
		r.tdirs[d] = len(r.tdirs) + 1
		r.log("mkdirtemp", r.label(d, false), "ok")
		r.evs = append(r.evs, ev{"mkdirtemp", d, dir, "ok", nil})
		return d, nil
	}
}

func (r *rec) createTemp(real func(string, string) (*os.File, error)) func(string, string) (*os.File, error) {
	return func(dir, pat string) (*os.File, error) {
		if r.step() {
			r.log("createtemp", "T?", "eio")
			r.evs = append(r.evs, ev{"createtemp", "", dir, "eio", nil})
			return nil, eio("open", filepath.Join(dir, pat))
		}
		f, err := real(dir, pat)
		if err != nil {
			r.log("createtemp", "T?", "nat")
			r.evs = append(r.evs, ev{"createtemp", "", dir, "nat", nil})
			return f, err
		}
		r.tfiles[f.Name()] = len(r.tfiles) + 1
		r.log("createtemp", r.label(f.Name(), true), "ok")
		r.evs = append(r.evs, ev{"createtemp", f.Name(), dir, "ok", nil})
		return f, nil
	}
}

func (r *rec) rename(real func(string, string) error) func(string, string) error {
	return func(a, b string) error {
		args := r.label(a, true) + "," + r.label(b, true)
		if r.step() {
			r.log("rename", args, "eio")
			r.evs = append(r.evs, ev{"rename", a, b, "eio", nil})
			return &os.LinkError{Op: "rename", Old: a, New: b, Err: syscall.EIO}
		}
		err := real(a, b)
		r.log("rename", args, resOf("rename", err))
		r.evs = append(r.evs, ev{"rename", a, b, resOf("rename", err), nil})
		return err
	}
}

func (r *rec) lstat(real func(string) (os.FileInfo, error)) func(string) (os.FileInfo, error) {
	return func(p string) (os.FileInfo, error) {
		var fi os.FileInfo
		err := r.file1("lstat", p, func() error {
			var e error
			fi, e = real(p)
			return e
		})
		return fi, err
	}
}

func (r *rec) gobOps() font.VerifGobOps {
	d := font.VerifDefaultGobOps()
	return font.VerifGobOps{
		CreateTemp: r.createTemp(d.CreateTemp),
		Encode: func(f *os.File, real func() error) error {
			p := f.Name()
			if r.step() {
				// a failing encode may leave a prefix behind
				_ = real()
				_ = f.Truncate(int64(r.trunc))
				_, _ = f.Seek(int64(r.trunc), 0)
				r.log("encode", r.label(p, true), "eio")
				part := r.curData
				if r.trunc < len(part) {
					part = part[:r.trunc]
				}
				r.evs = append(r.evs, ev{"encode", p, p, "eio", part})
				return eio("write", p)
			}
			err := real()
			r.log("encode", r.label(p, true), resOf("encode", err))
			r.evs = append(r.evs, ev{"encode", p, p, resOf("encode", err), r.curData})
			return err
		},
		Chmod: func(f *os.File, m os.FileMode) error {
			return r.file1("chmod", f.Name(), func() error { return d.Chmod(f, m) })
		},
		Sync:    func(f *os.File) error { return r.file1("sync", f.Name(), func() error { return d.Sync(f) }) },
		SyncDir: func(p string) error { return r.dir1("syncdir", p, func() error { return d.SyncDir(p) }) },
		Close: func(f *os.File) error {
			// a failing close still releases the descriptor (as close(2) does)
			p := f.Name()
			if r.step() {
				_ = d.Close(f)
				r.log("close", r.label(p, true), "eio")
				r.evs = append(r.evs, ev{"close", p, p, "eio", nil})
				return eio("close", p)
			}
			err := d.Close(f)
			r.log("close", r.label(p, true), resOf("close", err))
			r.evs = append(r.evs, ev{"close", p, p, resOf("close", err), nil})
			return err
		},
		Rename: r.rename(d.Rename),
		Remove: func(p string) error { return r.file1("remove", p, func() error { return d.Remove(p) }) },
		Verify: func(p string, real func() error) error { return r.file1("verify", p, real) },
	}
}

func (r *rec) closeSrc(f *os.File) error {
	if r.step() {
		_ = f.Close()
		r.log("close", "src", "eio")
		return eio("close", f.Name())
	}
	err := f.Close()
	r.log("close", "src", resOf("close", err))
	return err
}

func (r *rec) collOps() font.VerifCollectionOps {
	d := font.VerifDefaultCollectionOps()
	return font.VerifCollectionOps{
		MkdirTemp: r.mkdirTemp(d.MkdirTemp),
		Lstat:     r.lstat(d.Lstat),
		Close:     r.closeSrc,
		SyncDir:   func(p string) error { return r.dir1("syncdir", p, func() error { return d.SyncDir(p) }) },
		Rename:    r.rename(d.Rename),
		Remove:    func(p string) error { return r.file1("remove", p, func() error { return d.Remove(p) }) },
		RemoveAll: func(p string) error { return r.dir1("removeall", p, func() error { return d.RemoveAll(p) }) },
		Warn:      func(e error) { r.warns = append(r.warns, e) },
	}
}

func (r *rec) txOps() api.VerifTxOps { return r.txOpsFrom(api.VerifDefaultTxOps()) }

// txOpsFrom wraps a production transaction table (font install / cheat sheets) with the recorder.
func (r *rec) txOpsFrom(d api.VerifTxOps) api.VerifTxOps {
	return api.VerifTxOps{
		MkdirTemp: r.mkdirTemp(d.MkdirTemp),
		Lstat:     r.lstat(d.Lstat),
		SyncDir:   func(p string) error { return r.dir1("syncdir", p, func() error { return d.SyncDir(p) }) },
		Rename:    r.rename(d.Rename),
		Remove:    func(p string) error { return r.file1("remove", p, func() error { return d.Remove(p) }) },
		RemoveAll: func(p string) error { return r.dir1("removeall", p, func() error { return d.RemoveAll(p) }) },
	}
}

func (r *rec) fileOps() api.VerifFileOps {
	d := api.VerifDefaultFileOps()
	return api.VerifFileOps{
		OpenExclusive: d.OpenExclusive,
		CreateTemp:    r.createTemp(d.CreateTemp),
		Stat:          r.lstat(d.Stat),
		Chmod:         d.Chmod,
		Close: func(f *os.File) error {
			p := f.Name()
			if r.step() {
				_ = d.Close(f)
				r.log("close", r.label(p, true), "eio")
				return eio("close", p)
			}
			err := d.Close(f)
			r.log("close", r.label(p, true), resOf("close", err))
			return err
		},
		Remove:  func(p string) error { return r.file1("remove", p, func() error { return d.Remove(p) }) },
		Replace: r.rename(d.Replace),
	}
}

// ---- snapshots ----

type snap map[string]map[string]string // dir label -> file label -> "mode:data"

func (r *rec) snapshot() snap {
	s := snap{}
	root := filepath.Join(r.base, "1")
	_ = filepath.Walk(root, func(p string, fi os.FileInfo, err error) error {
		if err != nil {
			return nil
		}
		if fi.IsDir() {
			s[r.label(p, false)] = map[string]string{}
			return nil
		}
		dl := r.label(filepath.Dir(p), false)
		if fi.Mode()&os.ModeSymlink != 0 {
			// a symbolic link is part of the directory's contents: record the link itself, not what it points to
			tgt, _ := os.Readlink(p)
			if s[dl] == nil {
				s[dl] = map[string]string{}
			}
			fl := r.label(p, true)
			s[dl][fl[strings.LastIndexByte(fl, '/')+1:]] = fmt.Sprintf("link:%x", tgt)
			return nil
		}
		bb, _ := os.ReadFile(p)
		data := fmt.Sprintf("%x", bb)
		if r.canon != nil {
			data = r.canon(p, bb)
		}
		if s[dl] == nil {
			s[dl] = map[string]string{}
		}
		fl := r.label(p, true)
		s[dl][fl[strings.LastIndexByte(fl, '/')+1:]] = fmt.Sprintf("%x:%s", uint32(fi.Mode().Perm()), data)
		return nil
	})
	return s
}

func (s snap) String() string {
	ds := make([]string, 0, len(s))
	for d, fs := range s {
		l := make([]string, 0, len(fs))
		for n, v := range fs {
			l = append(l, n+":"+v)
		}
		sort.Strings(l)
		ds = append(ds, d+"="+strings.Join(l, ","))
	}
	sort.Strings(ds)
	return strings.Join(ds, ";")
}

func sameFiles(a, b map[string]string) bool {
	if len(a) != len(b) {
		return false
	}
	for k, v := range a {
		if b[k] != v {
			return false
		}
	}
	return true
}

// leftovers returns the temporary directories / files of this run that still exist.
func (r *rec) leftovers() []string {
	var l []string
	for p := range r.tdirs {
		if _, err := os.Lstat(p); err == nil {
			l = append(l, p)
		}
	}
	for p := range r.tfiles {
		if _, err := os.Lstat(p); err == nil {
			l = append(l, p)
		}
	}
	sort.Strings(l)
	return l
}

// mentionsPath: the text names path p (as a whole path, not as the parent of a longer one).
func mentionsPath(text, p string) bool {
	for i := 0; ; {
		j := strings.Index(text[i:], p)
		if j < 0 {
			return false
		}
		end := i + j + len(p)
		if end >= len(text) || text[end] != filepath.Separator {
			return true
		}
		i = end
	}
}

// mentionLabels lists the created temp dirs / files named by the error text.
func (r *rec) mentionLabels(err error) string {
	if err == nil {
		return ""
	}
	text := err.Error()
	var l []string
	for p, k := range r.tdirs {
		if mentionsPath(text, p) {
			l = append(l, fmt.Sprintf("t%d", k))
		}
	}
	for p, k := range r.tfiles {
		if mentionsPath(text, p) {
			l = append(l, fmt.Sprintf("T%d", k))
		}
	}
	sort.Strings(l)
	return strings.Join(l, ",")
}

func b01(b bool) string {
	if b {
		return "1"
	}
	return "0"
}

func (r *rec) result(err error, nwarn int) string {
	return "e" + b01(err != nil) + fmt.Sprintf(" w%d", nwarn) + " m" + r.mentionLabels(err) + "|" +
		strings.Join(r.trace, ";") + "|" + r.snapshot().String()
}
