// End-to-end oracle: real documents through api.Encrypt / api.Decrypt, object graph comparison.
package main

import (
	"bytes"
	"fmt"
	"sort"

	"github.com/pdfcpu/pdfcpu/pkg/api"
	"github.com/pdfcpu/pdfcpu/pkg/pdfcpu/model"
	"github.com/pdfcpu/pdfcpu/pkg/pdfcpu/types"
)

type alg struct {
	Name string
	AES  bool
	Len  int
}

var algs = []alg{{"RC4-40", false, 40}, {"RC4-128", false, 128}, {"AES-128", true, 128}, {"AES-256", true, 256}}

func confFor(a alg, upw, opw string, perm model.PermissionFlags, objStreams bool) *model.Configuration {
	var c *model.Configuration
	if a.AES {
		c = model.NewAESConfiguration(upw, opw, a.Len)
	} else {
		c = model.NewRC4Configuration(upw, opw, a.Len)
	}
	c.Permissions = perm
	c.WriteObjectStream = objStreams
	c.WriteXRefStream = objStreams
	return c
}

func guard(f func() error) (err error) {
	defer func() {
		if x := recover(); x != nil {
			err = fmt.Errorf("PANIC: %v", x)
		}
	}()
	return f()
}

func optimizeBytes(in []byte, objStreams bool) ([]byte, error) {
	var out bytes.Buffer
	c := model.NewDefaultConfiguration()
	c.WriteObjectStream = objStreams
	c.WriteXRefStream = objStreams
	err := guard(func() error { return api.Optimize(bytes.NewReader(in), &out, c) })
	return out.Bytes(), err
}

// plainRewrite is the baseline of the comparison: the same read/optimize pass that api.Encrypt runs
// (conf.Cmd = ENCRYPT while reading), then an unencrypted write (Cmd switched to DECRYPT, which makes
// handleEncryption drop the key).  The only difference to the encrypt->decrypt pipeline is the encryption.
func plainRewrite(in []byte, objStreams bool) ([]byte, error) {
	var out bytes.Buffer
	c := model.NewDefaultConfiguration()
	c.WriteObjectStream = objStreams
	c.WriteXRefStream = objStreams
	c.Cmd = model.ENCRYPT
	c.OwnerPW = "baseline"
	err := guard(func() error {
		ctx, e := api.ReadValidateAndOptimize(bytes.NewReader(in), c)
		if e != nil {
			return e
		}
		ctx.Cmd = model.DECRYPT
		return api.WriteContext(ctx, &out)
	})
	return out.Bytes(), err
}

// countLazy: how many object-stream members of the input are still undecoded (LazyObjectStreamObject)
// after the read/validate/optimize pass that api.Encrypt runs.  Only such documents can hit the
// writeLazyObjectStreamObject hole.
func countLazy(in []byte) int {
	n := 0
	c := model.NewDefaultConfiguration()
	c.Cmd = model.ENCRYPT
	c.OwnerPW = "baseline"
	_ = guard(func() error {
		ctx, e := api.ReadValidateAndOptimize(bytes.NewReader(in), c)
		if e != nil {
			return e
		}
		for _, e := range ctx.XRefTable.Table {
			if e != nil && !e.Free {
				if _, ok := e.Object.(types.LazyObjectStreamObject); ok {
					n++
				}
			}
		}
		return nil
	})
	return n
}

func encryptBytesDoc(in []byte, c *model.Configuration) ([]byte, error) {
	var out bytes.Buffer
	err := guard(func() error { return api.Encrypt(bytes.NewReader(in), &out, c) })
	return out.Bytes(), err
}

func decryptBytesDoc(in []byte, c *model.Configuration) ([]byte, error) {
	var out bytes.Buffer
	err := guard(func() error { return api.Decrypt(bytes.NewReader(in), &out, c) })
	return out.Bytes(), err
}

func readCtx(in []byte, upw, opw string) (ctx *model.Context, err error) {
	c := model.NewDefaultConfiguration()
	c.UserPW, c.OwnerPW = upw, opw
	c.Cmd = model.LISTINFO
	err = guard(func() error {
		var e error
		ctx, e = api.ReadValidateAndOptimize(bytes.NewReader(in), c)
		return e
	})
	return ctx, err
}

// ---- object graph comparison ----

type pairKey struct{ a, b int }

type differ struct {
	ca, cb *model.Context
	seen   map[pairKey]bool
	diffs  []string
	nStr   int
	nStm   int
}

func (d *differ) add(path, msg string) {
	if len(d.diffs) < 8 {
		d.diffs = append(d.diffs, path+": "+msg)
	}
}

var volatileInfo = map[string]bool{"Producer": true, "ModDate": true, "CreationDate": true, "Creator": true}

func strBytes(o types.Object) ([]byte, bool) {
	switch v := o.(type) {
	case types.StringLiteral:
		b, err := types.Unescape(v.Value())
		if err != nil {
			return []byte("unescape-error:" + v.Value()), true
		}
		return b, true
	case types.HexLiteral:
		b, err := v.Bytes()
		if err != nil {
			return []byte("hex-error:" + v.Value()), true
		}
		return b, true
	}
	return nil, false
}

func (d *differ) cmp(path string, a, b types.Object, depth int) {
	if depth > 200 {
		return
	}
	// indirect vs direct placement is not a content difference (the optimizer moves resource dicts)
	ra, aRef := a.(types.IndirectRef)
	rb, bRef := b.(types.IndirectRef)
	if aRef && bRef {
		k := pairKey{ra.ObjectNumber.Value(), rb.ObjectNumber.Value()}
		if d.seen[k] {
			return
		}
		d.seen[k] = true
	}
	if aRef || bRef {
		var ea, eb error
		if aRef {
			a, ea = d.ca.Dereference(ra)
		}
		if bRef {
			b, eb = d.cb.Dereference(rb)
		}
		if ea != nil || eb != nil {
			d.add(path, fmt.Sprintf("deref errors %v / %v", ea, eb))
			return
		}
		d.cmp(path, a, b, depth+1)
		return
	}
	if a == nil || b == nil {
		if a != b {
			d.add(path, fmt.Sprintf("nil mismatch %v / %v", a, b))
		}
		return
	}
	if sa, ok := strBytes(a); ok {
		sb, ok2 := strBytes(b)
		d.nStr++
		if !ok2 {
			d.add(path, fmt.Sprintf("string vs %T", b))
		} else if !bytes.Equal(sa, sb) {
			d.add(path, fmt.Sprintf("string differs: %q vs %q", trunc(sa), trunc(sb)))
		}
		return
	}
	switch va := a.(type) {
	case types.Dict:
		vb, ok := b.(types.Dict)
		if !ok {
			d.add(path, fmt.Sprintf("dict vs %T", b))
			return
		}
		d.cmpDict(path, va, vb, depth)
	case types.StreamDict:
		vb, ok := b.(types.StreamDict)
		if !ok {
			d.add(path, fmt.Sprintf("stream vs %T", b))
			return
		}
		d.cmpDict(path, va.Dict, vb.Dict, depth)
		d.nStm++
		if !bytes.Equal(va.Raw, vb.Raw) {
			// compare decoded
			ea, eb := va.Decode(), vb.Decode()
			if ea != nil || eb != nil || !bytes.Equal(va.Content, vb.Content) {
				d.add(path, fmt.Sprintf("stream content differs (raw %d vs %d bytes; decode %v/%v): %q vs %q", len(va.Raw), len(vb.Raw), ea, eb, trunc(va.Raw), trunc(vb.Raw)))
			}
		}
	case types.Array:
		vb, ok := b.(types.Array)
		if !ok {
			d.add(path, fmt.Sprintf("array vs %T", b))
			return
		}
		if len(va) != len(vb) {
			d.add(path, fmt.Sprintf("array len %d vs %d", len(va), len(vb)))
			return
		}
		for i := range va {
			d.cmp(fmt.Sprintf("%s[%d]", path, i), va[i], vb[i], depth+1)
		}
	default:
		if a.PDFString() != b.PDFString() {
			d.add(path, fmt.Sprintf("%s vs %s", trunc([]byte(a.PDFString())), trunc([]byte(b.PDFString()))))
		}
	}
}

func (d *differ) cmpDict(path string, a, b types.Dict, depth int) {
	keys := map[string]bool{}
	for k := range a {
		keys[k] = true
	}
	for k := range b {
		keys[k] = true
	}
	ks := make([]string, 0, len(keys))
	for k := range keys {
		ks = append(ks, k)
	}
	sort.Strings(ks)
	for _, k := range ks {
		if path == "Info" && volatileInfo[k] {
			continue
		}
		if k == "Length" || k == "DL" {
			continue
		}
		va, oka := a[k]
		vb, okb := b[k]
		if !oka || !okb {
			d.add(path+"/"+k, fmt.Sprintf("key present %v vs %v", oka, okb))
			continue
		}
		d.cmp(path+"/"+k, va, vb, depth+1)
	}
}

func trunc(b []byte) []byte {
	if len(b) > 48 {
		return b[:48]
	}
	return b
}

// compareDocs walks Root and Info of both documents.
func compareDocs(ca, cb *model.Context) (diffs []string, nStr, nStm int) {
	d := &differ{ca: ca, cb: cb, seen: map[pairKey]bool{}}
	if ca.Root == nil || cb.Root == nil {
		return []string{"missing root"}, 0, 0
	}
	d.cmp("Root", *ca.Root, *cb.Root, 0)
	if (ca.Info == nil) != (cb.Info == nil) {
		d.add("Info", "presence differs")
	} else if ca.Info != nil {
		d.cmp("Info", *ca.Info, *cb.Info, 0)
	}
	if ca.PageCount != cb.PageCount {
		d.add("PageCount", fmt.Sprintf("%d vs %d", ca.PageCount, cb.PageCount))
	}
	return d.diffs, d.nStr, d.nStm
}
