(* C01 — the form multi-fill transaction (pkg/api/form.go): outputs-so-far list, rollback at every
   failure point. *)
From stdpp Require Import gmap.
From Coq Require Import NArith Lia.
From PV Require Import C01.FS C01.FSFacts C01.Model C01.Proofs.

(* the filesystem m is the original m0 plus exactly the files `done`, none of which is an original name *)
Definition extends (m0 : gmap positive file) (done : list positive) (m : gmap positive file) : Prop :=
  (forall p, In p done -> m0 !! p = None /\ is_Some (m !! p)) /\
  (forall p, ~ In p done -> m !! p = m0 !! p).

Lemma extends_nil (m0 : gmap positive file) : extends m0 [] m0.
Proof. split; [intros p []|intros p _; reflexivity]. Qed.

Lemma extends_snoc (m0 : gmap positive file) done m o m' :
  extends m0 done m -> m0 !! o = None -> staged_inv m o m' -> extends m0 (done ++ [o]) m'.
Proof.
  intros [He1 He2] Ho (Hn & Hd & Hs). split.
  - intros p Hin. apply in_app_or in Hin. destruct Hin as [Hin|[<-|[]]].
    + destruct (He1 p Hin) as [H1 H2]. split; [exact H1|].
      assert (p <> o) by (intros ->; destruct H2 as [f Hf]; congruence).
      rewrite <- Hd in H2. rewrite lookup_delete_ne in H2 by congruence. exact H2.
    + split; [exact Ho|exact Hs].
  - intros p Hnin. assert (Hpo : p <> o) by (intros ->; apply Hnin; apply in_or_app; right; left; reflexivity).
    assert (Hnd : ~ In p done) by (intros Hin; apply Hnin; apply in_or_app; left; exact Hin).
    rewrite <- (He2 p Hnd). rewrite <- Hd. rewrite lookup_delete_ne by congruence. reflexivity.
Qed.

Lemma extends_same (m0 : gmap positive file) done m m' : extends m0 done m -> m' = m -> extends m0 done m'.
Proof. intros H ->. exact H. Qed.

Section MultiProofs.
Variable pl : plan.
Variable fresh : gmap positive file -> positive.
Hypothesis fresh_spec : forall m, m !! fresh m = None.
Hypothesis Hamo : amo pl.

(* an injected fault has fired before the world w' was reached *)
Definition fired (w' : world) : Prop := exists j, j < wcnt w' /\ pl j = true.
Lemma fired_quiet w' : fired w' -> quiet pl (wcnt w').
Proof. intros (j & Hj & Hp). eapply amo_quiet_lt; [exact Hamo|exact Hp|exact Hj]. Qed.
Lemma fired_mono w1 w2 : fired w1 -> wcnt w1 <= wcnt w2 -> fired w2.
Proof. intros (j & Hj & Hp) Hle. exists j. split; [lia|exact Hp]. Qed.

Lemma cleanup_cnt s w : wcnt w <= wcnt (cleanup pl s w).
Proof.
  unfold cleanup, remove_file. destruct (close_fs pl (s_out s) w) as [_ Hc1].
  pose proof (close_all_spec pl (s_ins s) (world_of (close pl (s_out s) w))) as (_ & Hc2 & _).
  destruct (close_all pl (s_ins s) (world_of (close pl (s_out s) w))) as [b w2]. cbn [fst snd] in *.
  rewrite remove_cnt. lia.
Qed.

(* openStagedOutput(nil, "", outFile) fails only through an injected fault *)
Lemma open_staged_noin_fault o w e w' :
  open_staged pl fresh [] None (Some o) w = Fail e w' -> fired w'.
Proof.
  unfold open_staged. cbn [opt_eqb negb]. unfold open_excl, call.
  destruct (pl (wcnt w)) eqn:Hp0.
  { intros [= <- <-]. exists (wcnt w). cbn. split; [lia|exact Hp0]. }
  destruct (wfs w !! o) as [fo|] eqn:Ho; [|discriminate].
  cbv beta iota zeta. unfold open_tmp, stat_opt, stat, call. cbn [wfs wcnt wtr].
  destruct (pl (S (wcnt w))) eqn:Hp1.
  { intros [= <- <-]. exists (S (wcnt w)). cbn. split; [lia|exact Hp1]. }
  rewrite Ho. cbv beta iota zeta. unfold create_temp, call. cbn [wfs wcnt wtr].
  destruct (pl (S (S (wcnt w)))) eqn:Hp2.
  { intros [= <- <-]. exists (S (S (wcnt w))). cbn. split; [lia|exact Hp2]. }
  cbv beta iota zeta. unfold chmod, call. cbn [wfs wcnt wtr].
  destruct (pl (S (S (S (wcnt w))))) eqn:Hp3.
  - intros [= <- <-]. exists (S (S (S (wcnt w)))). split; [|exact Hp3].
    rewrite remove_cnt. destruct (close_fs pl (fresh (wfs w)) (W (<[fresh (wfs w):={| fdata := []; fmode := mode_tmp |}]> (wfs w))
       (S (S (S (S (wcnt w))))) (Ev OpChmod (fresh (wfs w)) (fresh (wfs w)) (Some EIO) :: Ev OpCreateTemp (fresh (wfs w)) (fresh (wfs w)) None :: Ev OpStat o o None :: Ev OpOpenExcl o o (Some EEXIST) :: wtr w))) as [_ Hc].
    rewrite Hc. cbn [wcnt]. lia.
  - rewrite lookup_insert. cbv beta iota zeta. discriminate.
Qed.

(* commit with no inputs to close fails only through an injected fault *)
Lemma commit_noin_fault m0 s w r w' :
  staged_inv m0 (s_tmp s) (wfs w) -> s_ins s = [] ->
  commit pl s w = (r, w') -> r <> COk -> fired w'.
Proof.
  intros Hinv Hins. unfold commit, remove_file. rewrite Hins. cbn [close_all].
  destruct (close_cases pl (s_out s) w) as [(w1 & -> & Hf1 & Hc1 & Hp1)|(w1 & -> & Hf1 & Hc1)]; cbv beta iota zeta.
  - intros [= <- <-] _. exists (wcnt w). split; [|exact Hp1]. cbn [snd]. rewrite remove_cnt. lia.
  - destruct (s_dest s) as [d|].
    + assert (Hinv1 : staged_inv m0 (s_tmp s) (wfs w1)) by (rewrite Hf1; exact Hinv).
      destruct (rename_cases pl m0 (s_tmp s) d w1 Hinv1) as [(w3 & -> & Hf3 & Hc3 & Hp3)|(f & w3 & -> & _)];
        cbv beta iota zeta.
      * intros [= <- <-] _. exists (wcnt w1). split; [|exact Hp3]. cbn [snd]. rewrite remove_cnt. lia.
      * intros [= <- <-] Hr. congruence.
    + intros [= <- <-] Hr. congruence.
Qed.

(* a record writer / merge step with a succeeding body fails only through an injected fault *)
Lemma api_noin_fail_fault k o chunks w r w' :
  k <> KAlways ->
  api_file pl fresh k [] None (Some o) chunks COk w = (r, w') -> r <> COk -> fired w'.
Proof.
  intros Hna. unfold api_file. cbn [open_all opt_eqb negb].
  pose proof (open_staged_spec pl fresh fresh_spec Hamo [] None (Some o) w) as Hopen.
  destruct (open_staged pl fresh [] None (Some o) w) as [s w2|e w2] eqn:Hos; cbn [open_post] in Hopen.
  2: { cbn [close_all snd]. intros [= <- <-] _. eapply open_staged_noin_fault. exact Hos. }
  destruct Hopen as (Hinv2 & Hout & Hins & Hc2 & _).
  unfold with_defer. rewrite Hout.
  pose proof (body_spec pl (wfs w) (s_tmp s) chunks COk w2 Hinv2) as (Hinv3 & Hc3 & Hres).
  destruct (body pl (s_tmp s) chunks COk w2) as [rb w3]. cbn [fst snd] in *.
  destruct Hres as [->|(-> & j & Hj & Hpj)].
  - replace (decide k COk) with ACommit by (destruct k; first [reflexivity|exfalso; apply Hna; reflexivity]).
    destruct (commit pl s w3) as [rc w4] eqn:Hcommit. intros [= <- <-] Hr.
    eapply commit_noin_fault; [exact Hinv3|exact Hins|exact Hcommit|exact Hr].
  - replace (decide k CErr) with ACleanup by (destruct k; first [reflexivity|exfalso; apply Hna; reflexivity]).
    intros [= <- <-] _. exists j. split; [|exact Hpj]. pose proof (cleanup_cnt s w3). lia.
Qed.

(* a record writer that returns nil has added exactly its (new) output *)
Lemma commit_new_ok s w w' : s_dest s = None -> commit pl s w = (COk, w') -> wfs w' = wfs w.
Proof.
  intros Hd. unfold commit. rewrite Hd.
  destruct (close_cases pl (s_out s) w) as [(w1 & -> & Hf1 & Hc1 & Hp1)|(w1 & -> & Hf1 & Hc1)]; cbv beta iota zeta.
  - destruct (close_all pl (s_ins s) w1) as [b w2]. discriminate.
  - pose proof (close_all_spec pl (s_ins s) w1) as (Hf2 & _).
    destruct (close_all pl (s_ins s) w1) as [bad w2]. cbn [fst snd] in *.
    destruct bad; [discriminate|]. intros [= <-]. congruence.
Qed.

Lemma api_new_ok k o chunks fin w w' :
  k <> KAlways -> wfs w !! o = None ->
  api_file pl fresh k [] None (Some o) chunks fin w = (COk, w') -> staged_inv (wfs w) o (wfs w').
Proof.
  intros Hna Ho. unfold api_file. cbn [open_all opt_eqb negb].
  unfold open_staged. cbn [opt_eqb negb]. unfold open_excl, call.
  destruct (pl (wcnt w)) eqn:Hp0; [discriminate|]. rewrite Ho. cbv beta iota zeta.
  set (w1 := W _ _ _).
  assert (Hinv1 : staged_inv (wfs w) o (wfs w1)) by (unfold w1; cbn [wfs]; apply staged_inv_insert; exact Ho).
  unfold with_defer. cbn [s_out s_tmp s_dest s_ins].
  pose proof (body_spec pl (wfs w) o chunks fin w1 Hinv1) as (Hinv3 & _ & _).
  destruct (body pl o chunks fin w1) as [rb w3]. cbn [fst snd] in *.
  destruct rb.
  - replace (decide k COk) with ACommit by (destruct k; first [reflexivity|exfalso; apply Hna; reflexivity]).
    destruct (commit pl (Staged o o None []) w3) as [rc w4] eqn:Hcommit. intros [= -> <-].
    rewrite (commit_new_ok (Staged o o None []) w3 w4 eq_refl Hcommit). exact Hinv3.
  - replace (decide k CErr) with ACleanup by (destruct k; first [reflexivity|exfalso; apply Hna; reflexivity]).
    discriminate.
  - destruct (match decide k CPanic with ACommit => _ | ACleanup => _ | ANothing => _ | ACommitKeep => _ end) as [r' w4].
    discriminate.
Qed.

(* ---------- rollback ---------- *)
Lemma rollback_quiet l : forall w,
  quiet pl (wcnt w) -> NoDup l -> (forall p, In p l -> is_Some (wfs w !! p)) ->
  (forall p, In p l -> wfs (snd (rollback pl l w)) !! p = None) /\
  (forall p, ~ In p l -> wfs (snd (rollback pl l w)) !! p = wfs w !! p) /\
  fst (rollback pl l w) = false.
Proof.
  induction l as [|a l IH]; intros w Hq Hnd Hex; cbn [rollback].
  - cbn. split; [intros p []|]. split; [reflexivity|reflexivity].
  - inversion Hnd as [|a' l' Hnotin Hnd']; subst. rewrite elem_of_list_In in Hnotin.
    destruct (Hex a (or_introl eq_refl)) as [fa Hfa].
    unfold remove_file, remove, call. rewrite (quiet_here _ _ Hq), Hfa. cbn [world_of remove_failed].
    set (w1 := W _ _ _).
    assert (Hq1 : quiet pl (wcnt w1)) by (unfold w1; cbn [wcnt]; eapply quiet_mono; [exact Hq|lia]).
    assert (Hex1 : forall p, In p l -> is_Some (wfs w1 !! p)).
    { intros p Hin. unfold w1; cbn [wfs]. assert (p <> a) by (intros ->; contradiction).
      rewrite lookup_delete_ne by congruence. apply Hex. right. exact Hin. }
    specialize (IH w1 Hq1 Hnd' Hex1). destruct IH as (I1 & I2 & I3).
    destruct (rollback pl l w1) as [b2 w2]. cbn [fst snd] in *.
    split; [|split].
    + intros p [<-|Hin]; [|apply I1; exact Hin].
      rewrite (I2 a Hnotin). unfold w1; cbn [wfs]. apply lookup_delete.
    + intros p Hnin. assert (p <> a) by (intros ->; apply Hnin; left; reflexivity).
      rewrite I2 by (intros Hin; apply Hnin; right; exact Hin).
      unfold w1; cbn [wfs]. apply lookup_delete_ne. congruence.
    + rewrite I3. reflexivity.
Qed.

Lemma rollback_restores m0 done w :
  quiet pl (wcnt w) -> NoDup done -> extends m0 done (wfs w) ->
  wfs (snd (rollback pl done w)) = m0 /\ fst (rollback pl done w) = false.
Proof.
  intros Hq Hnd [He1 He2].
  destruct (rollback_quiet done w Hq Hnd (fun p Hin => proj2 (He1 p Hin))) as (R1 & R2 & R3).
  split; [|exact R3]. apply map_eq. intros p.
  destruct (in_dec Pos.eq_dec p done) as [Hin|Hnin].
  - rewrite (R1 p Hin). symmetry. apply (He1 p Hin).
  - rewrite (R2 p Hnin). apply He2. exact Hnin.
Qed.

(* ---------- the record loop ---------- *)
Definition parts_ok (parts : list part) : Prop :=
  forall p, In p parts -> p_early p = COk /\ p_fin p = COk.

Lemma fill_loop_spec k m0 : forall parts done w r done' w',
  k <> KAlways ->
  (forall p, In p parts -> safe_for k (p_fin p)) ->
  (quiet pl 0 \/ parts_ok parts) ->
  extends m0 done (wfs w) ->
  NoDup (done ++ map p_out parts) ->
  (forall p, In p parts -> m0 !! p_out p = None) ->
  fill_loop pl fresh k parts done w = (r, done', w') ->
  extends m0 done' (wfs w') /\
  (exists n, done' = done ++ firstn n (map p_out parts)) /\
  (r <> COk -> quiet pl (wcnt w')).
Proof.
  induction parts as [|p ps IH]; intros done w r done' w' Hna Hsafe Hcause Hext Hnd Hnew; cbn [fill_loop].
  - intros [= <- <- <-]. split; [exact Hext|]. split; [exists 0; cbn; rewrite app_nil_r; reflexivity|congruence].
  - assert (Hq0 : forall wx, quiet pl 0 -> quiet pl (wcnt wx)) by (intros wx H0; eapply quiet_mono; [exact H0|lia]).
    assert (Hsf : safe_for k COk) by (right; split; [exact Hna|discriminate]).
    destruct (p_early p) eqn:Hearly.
    2,3: intros [= <- <- <-]; (split; [exact Hext|]); (split; [exists 0; cbn; rewrite app_nil_r; reflexivity|]);
         intros _; destruct Hcause as [H0|Hok]; [apply Hq0; exact H0|
           destruct (Hok p (or_introl eq_refl)) as [He _]; congruence].
    assert (Ho : wfs w !! p_out p = None).
    { destruct Hext as [_ He2]. rewrite He2; [apply Hnew; left; reflexivity|].
      intros Hin. cbn [map] in Hnd. apply NoDup_app in Hnd. destruct Hnd as (_ & Hdisj & _).
      apply (Hdisj (p_out p)); [apply elem_of_list_In; exact Hin|left]. }
    destruct (api_file pl fresh k [] None (Some (p_out p)) (p_chunks p) (p_fin p) w) as [rp wp] eqn:Hrun.
    destruct rp.
    + (* the record was written: one more completed part *)
      pose proof (api_new_ok k (p_out p) (p_chunks p) (p_fin p) w wp Hna Ho Hrun) as Hinv.
      intros Hloop.
      assert (Hext' : extends m0 (done ++ [p_out p]) (wfs wp)).
      { eapply extends_snoc; [exact Hext|apply Hnew; left; reflexivity|exact Hinv]. }
      assert (Hnd' : NoDup ((done ++ [p_out p]) ++ map p_out ps)).
      { rewrite <- app_assoc. exact Hnd. }
      assert (Hcause' : quiet pl 0 \/ parts_ok ps).
      { destruct Hcause as [H0|Hok]; [left; exact H0|right]. intros q Hq. apply Hok. right. exact Hq. }
      destruct (IH (done ++ [p_out p]) wp r done' w' Hna (fun q Hq => Hsafe q (or_intror Hq)) Hcause' Hext' Hnd'
                   (fun q Hq => Hnew q (or_intror Hq)) Hloop) as (I1 & (n & I2) & I3).
      split; [exact I1|]. split; [|exact I3].
      exists (S n). cbn [map firstn]. rewrite I2, <- app_assoc. reflexivity.
    + (* the record failed: nothing of it remains *)
      intros [= <- <- <-].
      assert (Hr : CErr <> COk) by discriminate.
      assert (Hsame : wfs wp = wfs w /\ quiet pl (wcnt wp)).
      { destruct Hcause as [H0|Hok].
        - destruct (api_file_safe_gen pl fresh fresh_spec Hamo k [] None (Some (p_out p)) (p_chunks p) (p_fin p) w CErr wp
                      (or_intror (Hq0 w H0)) (Hsafe p (or_introl eq_refl)) Hrun Hr) as [Heq|(_ & _ & (o & _ & _ & Hne & _))];
            [split; [exact Heq|apply Hq0; exact H0]|congruence].
        - destruct (Hok p (or_introl eq_refl)) as [_ Hfin]. rewrite Hfin in Hrun.
          destruct (api_file_safe_gen pl fresh fresh_spec Hamo k [] None (Some (p_out p)) (p_chunks p) COk w CErr wp
                      (or_introl eq_refl) Hsf Hrun Hr) as [Heq|(_ & _ & (o & _ & _ & Hne & _))];
            [|congruence].
          split; [exact Heq|]. apply fired_quiet. eapply api_noin_fail_fault; [exact Hna|exact Hrun|exact Hr]. }
      destruct Hsame as [Heq Hq]. split; [eapply extends_same; [exact Hext|exact Heq]|].
      split; [exists 0; cbn; rewrite app_nil_r; reflexivity|intros _; exact Hq].
    + (* the record writer panicked: allowed only for a flag-keyed writer *)
      intros [= <- <- <-].
      assert (Hr : CPanic <> COk) by discriminate.
      assert (Hsame : wfs wp = wfs w /\ quiet pl (wcnt wp)).
      { destruct Hcause as [H0|Hok].
        - destruct (api_file_safe_gen pl fresh fresh_spec Hamo k [] None (Some (p_out p)) (p_chunks p) (p_fin p) w CPanic wp
                      (or_intror (Hq0 w H0)) (Hsafe p (or_introl eq_refl)) Hrun Hr) as [Heq|(_ & _ & (o & _ & _ & Hne & _))];
            [split; [exact Heq|apply Hq0; exact H0]|congruence].
        - destruct (Hok p (or_introl eq_refl)) as [_ Hfin]. rewrite Hfin in Hrun.
          destruct (api_file_safe_gen pl fresh fresh_spec Hamo k [] None (Some (p_out p)) (p_chunks p) COk w CPanic wp
                      (or_introl eq_refl) Hsf Hrun Hr) as [Heq|(_ & _ & (o & _ & _ & Hne & _))];
            [|congruence].
          split; [exact Heq|]. apply fired_quiet. eapply api_noin_fail_fault; [exact Hna|exact Hrun|exact Hr]. }
      destruct Hsame as [Heq Hq]. split; [eapply extends_same; [exact Hext|exact Heq]|].
      split; [exists 0; cbn; rewrite app_nil_r; reflexivity|intros _; exact Hq].
Qed.

(* ---------- merge mode: rollback at every failure point ---------- *)
Lemma multi_fill_merge_safe_gen k parts final mchunks mfin m0 tr r w' :
  k <> KAlways ->
  (forall p, In p parts -> safe_for k (p_fin p)) ->
  (quiet pl 0 \/ (parts_ok parts /\ mfin = COk)) ->
  NoDup (map p_out parts) ->
  (forall p, In p parts -> m0 !! p_out p = None) ->
  multi_fill pl fresh true k parts final mchunks mfin (W m0 0 tr) = (r, w') -> r <> COk ->
  wfs w' = m0 \/
  (* every record and the merge succeeded: what failed is a remove of the final clean-up of the intermediates *)
  (exists done w1, fill_loop pl fresh k parts [] (W m0 0 tr) = (COk, done, w1) /\
                   fst (api_file pl fresh KFlag [] None (Some final) mchunks mfin w1) = COk).
Proof.
  intros Hna Hsafe Hcause Hnd Hnew. unfold multi_fill.
  destruct (fill_loop pl fresh k parts [] (W m0 0 tr)) as [[r1 done] w1] eqn:Hloop.
  assert (Hcause1 : quiet pl 0 \/ parts_ok parts) by (destruct Hcause as [H0|[Hok _]]; [left; exact H0|right; exact Hok]).
  destruct (fill_loop_spec k m0 parts [] (W m0 0 tr) r1 done w1 Hna Hsafe Hcause1 (extends_nil m0) Hnd Hnew Hloop)
    as (Hext & (n & Hdone) & Hq1).
  assert (Hnd_done : NoDup done).
  { cbn [app] in Hdone. rewrite Hdone.
    rewrite <- (firstn_skipn n (map p_out parts)) in Hnd. apply NoDup_app in Hnd. apply Hnd. }
  assert (Hq0 : forall wx, quiet pl 0 -> quiet pl (wcnt wx)) by (intros wx H0; eapply quiet_mono; [exact H0|lia]).
  destruct r1.
  - (* all records written: the merge step *)
    destruct (api_file pl fresh KFlag [] None (Some final) mchunks mfin w1) as [r2 w2] eqn:Hmerge.
    destruct r2.
    + (* merged: the clean-up of the intermediates is the only thing that can still fail *)
      destruct (rollback pl done w2) as [bad w3] eqn:Hrb. destruct bad; [|intros [= <- <-] Hr; congruence].
      intros [= <- <-] _. right. exists done, w1. split; [reflexivity|]. rewrite Hmerge. reflexivity.
    + (* the merge failed: its staging is gone, the intermediates are rolled back *)
      assert (Hr2 : CErr <> COk) by discriminate.
      assert (Hsame : wfs w2 = wfs w1 /\ quiet pl (wcnt w2)).
      { destruct Hcause as [H0|[Hok Hmf]].
        - destruct (api_file_safe_gen pl fresh fresh_spec Hamo KFlag [] None (Some final) mchunks mfin w1 CErr w2
                      (or_intror (Hq0 w1 H0)) (or_introl eq_refl) Hmerge Hr2) as [Heq|(_ & _ & (o & _ & _ & Hne & _))];
            [split; [exact Heq|apply Hq0; exact H0]|congruence].
        - subst mfin.
          destruct (api_file_safe_gen pl fresh fresh_spec Hamo KFlag [] None (Some final) mchunks COk w1 CErr w2
                      (or_introl eq_refl) (or_introl eq_refl) Hmerge Hr2) as [Heq|(_ & _ & (o & _ & _ & Hne & _))];
            [|congruence].
          split; [exact Heq|]. apply fired_quiet. refine (api_noin_fail_fault KFlag final mchunks w1 _ w2 _ Hmerge Hr2). discriminate. }
      destruct Hsame as [Heq Hq2].
      destruct (rollback_restores m0 done w2 Hq2 Hnd_done (extends_same m0 done (wfs w1) (wfs w2) Hext Heq)) as [Hback _].
      destruct (rollback pl done w2) as [bad w3]. cbn [fst snd] in Hback. intros [= <- <-] _. left. exact Hback.
    + assert (Hr2 : CPanic <> COk) by discriminate.
      assert (Hsame : wfs w2 = wfs w1 /\ quiet pl (wcnt w2)).
      { destruct Hcause as [H0|[Hok Hmf]].
        - destruct (api_file_safe_gen pl fresh fresh_spec Hamo KFlag [] None (Some final) mchunks mfin w1 CPanic w2
                      (or_intror (Hq0 w1 H0)) (or_introl eq_refl) Hmerge Hr2) as [Heq|(_ & _ & (o & _ & _ & Hne & _))];
            [split; [exact Heq|apply Hq0; exact H0]|congruence].
        - subst mfin.
          destruct (api_file_safe_gen pl fresh fresh_spec Hamo KFlag [] None (Some final) mchunks COk w1 CPanic w2
                      (or_introl eq_refl) (or_introl eq_refl) Hmerge Hr2) as [Heq|(_ & _ & (o & _ & _ & Hne & _))];
            [|congruence].
          split; [exact Heq|]. apply fired_quiet. refine (api_noin_fail_fault KFlag final mchunks w1 _ w2 _ Hmerge Hr2). discriminate. }
      destruct Hsame as [Heq Hq2].
      destruct (rollback_restores m0 done w2 Hq2 Hnd_done (extends_same m0 done (wfs w1) (wfs w2) Hext Heq)) as [Hback _].
      destruct (rollback pl done w2) as [bad w3]. cbn [fst snd] in Hback. intros [= <- <-] _. left. exact Hback.
  - destruct (rollback_restores m0 done w1 (Hq1 ltac:(discriminate)) Hnd_done Hext) as [Hback _].
    destruct (rollback pl done w1) as [bad w3]. cbn [fst snd] in Hback. intros [= <- <-] _. left. exact Hback.
  - destruct (rollback_restores m0 done w1 (Hq1 ltac:(discriminate)) Hnd_done Hext) as [Hback _].
    destruct (rollback pl done w1) as [bad w3]. cbn [fst snd] in Hback. intros [= <- <-] _. left. exact Hback.
Qed.
End MultiProofs.

(* ---------- closed statements ---------- *)
(* exactly one cause of failure for a multi-record run: no filesystem fault at all (records and the merge
   may end in any way), or every record and the merge would succeed and a single fault is injected *)
Definition multi_cause (pl : plan) (parts : list part) (mfin : ctl) : Prop :=
  pl = nofault \/ (parts_ok parts /\ mfin = COk /\ exists n, pl = single n).

Lemma multi_cause_amo pl parts mfin :
  multi_cause pl parts mfin -> amo pl /\ (quiet pl 0 \/ (parts_ok parts /\ mfin = COk)).
Proof.
  intros [->|(Hok & Hm & n & ->)].
  - split; [apply amo_nofault|left; apply nofault_quiet].
  - split; [apply amo_single|right; split; assumption].
Qed.

(* merge mode: whichever record fails (after any number k of written parts), or the merge step, every
   intermediate written so far is rolled back *)
Lemma multi_fill_merge_fault_safe_proof fresh :
  (forall m, m !! fresh m = None) ->
  forall pl parts mfin, multi_cause pl parts mfin ->
  forall k final mchunks m0 tr,
  k <> KAlways -> (forall p, In p parts -> safe_for k (p_fin p)) ->
  NoDup (map p_out parts) -> (forall p, In p parts -> m0 !! p_out p = None) ->
  forall r w', multi_fill pl fresh true k parts final mchunks mfin (W m0 0 tr) = (r, w') -> r <> COk ->
  unchanged m0 (wfs w') \/
  (exists done w1, fill_loop pl fresh k parts [] (W m0 0 tr) = (COk, done, w1) /\
                   fst (api_file pl fresh KFlag [] None (Some final) mchunks mfin w1) = COk).
Proof.
  intros Hfresh pl parts mfin Hcause k final mchunks m0 tr Hna Hsafe Hnd Hnew r w' Hrun Hr.
  destruct (multi_cause_amo pl parts mfin Hcause) as [Hamo Hc].
  destruct (multi_fill_merge_safe_gen pl fresh Hfresh Hamo k parts final mchunks mfin m0 tr r w' Hna Hsafe Hc Hnd Hnew Hrun Hr)
    as [Heq|Hres]; [left; apply eq_unchanged; exact Heq|right; exact Hres].
Qed.

(* non-merge mode (and every multi-output driver without rollback): what remains after a failure is the
   original filesystem plus exactly the first n completed parts, for some n *)
Lemma multi_fill_keeps_prefix_partial_proof fresh :
  (forall m, m !! fresh m = None) ->
  forall pl parts mfin, multi_cause pl parts mfin ->
  forall k final mchunks m0 tr,
  k <> KAlways -> (forall p, In p parts -> safe_for k (p_fin p)) ->
  NoDup (map p_out parts) -> (forall p, In p parts -> m0 !! p_out p = None) ->
  forall r w', multi_fill pl fresh false k parts final mchunks mfin (W m0 0 tr) = (r, w') ->
  exists n, extends m0 (firstn n (map p_out parts)) (wfs w').
Proof.
  intros Hfresh pl parts mfin Hcause k final mchunks m0 tr Hna Hsafe Hnd Hnew r w'.
  destruct (multi_cause_amo pl parts mfin Hcause) as [Hamo Hc].
  unfold multi_fill. destruct (fill_loop pl fresh k parts [] (W m0 0 tr)) as [[r1 done] w1] eqn:Hloop.
  intros [= <- <-].
  assert (Hc1 : quiet pl 0 \/ parts_ok parts) by (destruct Hc as [H0|[Hok _]]; [left; exact H0|right; exact Hok]).
  destruct (fill_loop_spec pl fresh Hfresh Hamo k m0 parts [] (W m0 0 tr) r1 done w1 Hna Hsafe Hc1 (extends_nil m0) Hnd Hnew Hloop)
    as (Hext & (n & Hdone) & _).
  exists n. cbn [app] in Hdone. rewrite <- Hdone. exact Hext.
Qed.

(* The same transaction with the rollback registered too late (only once the merge step is reached):
   a record that fails after k >= 1 written parts leaves those parts behind.  This is the abstract shape
   of the mutation "move the deferred rollback into mergeForms". *)
Definition multi_fill_late (pl : plan) (fresh : gmap positive file -> positive) (k : key) (parts : list part)
           (final : positive) (mchunks : list bytes) (mfin : ctl) (w : world) : ctl * world :=
  let '(r, done, w1) := fill_loop pl fresh k parts [] w in
  match r with
  | COk => let '(r2, w2) := api_file pl fresh KFlag [] None (Some final) mchunks mfin w1 in
           let '(bad, w3) := rollback pl done w2 in
           (match r2 with CPanic => CPanic | CErr => CErr | COk => if bad then CErr else COk end, w3)
  | _ => (r, w1)
  end.

Lemma late_rollback_leaves_parts_refuted_proof :
  exists r w', multi_fill_late nofault fresh_path KNone
                 [Part COk 2%positive [[1%N]] COk; Part CErr 3%positive [] COk] 4%positive [] COk (W ∅ 0 []) = (r, w') /\
    r = CErr /\ wfs w' !! 2%positive = Some (File [1%N] mode_new).
Proof. eexists _, _. split; [vm_compute; reflexivity|]. split; [reflexivity|vm_compute; reflexivity]. Qed.

(* the transaction as it is: the same run is rolled back *)
Lemma early_rollback_example :
  exists r w', multi_fill nofault fresh_path true KNone
                 [Part COk 2%positive [[1%N]] COk; Part CErr 3%positive [] COk] 4%positive [] COk (W ∅ 0 []) = (r, w') /\
    r = CErr /\ wfs w' !! 2%positive = None /\ map_to_list (wfs w') = [].
Proof. eexists _, _. split; [vm_compute; reflexivity|]. split; [reflexivity|split; vm_compute; reflexivity]. Qed.
