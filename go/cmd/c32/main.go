// Harness for C32: random sequences of page operations (insert blank pages before/after, remove,
// trim, collect, rotate, add/remove boxes, crop) through the real file API on generated page-tree
// documents; after EVERY step the output is read back with the independent walker of pgdoc and
// compared with the extracted model (K) and with a list-level reference of the property (O).
package main

import (
	"bytes"
	"fmt"
	"os"
	"path/filepath"
	"strconv"
	"strings"

	"github.com/pdfcpu/pdfcpu/pkg/api"
	"github.com/pdfcpu/pdfcpu/pkg/pdfcpu"
	"github.com/pdfcpu/pdfcpu/pkg/pdfcpu/model"
	"github.com/pdfcpu/pdfcpu/pkg/pdfcpu/types"
	"verif/cmd/c33/pgdoc"
	"verif/vh"
)

var (
	r   *vh.Run
	dir string
	seq int
)

func tmp(name string) string {
	seq++
	return filepath.Join(dir, fmt.Sprintf("%d_%s", seq, name))
}

// boxDef is a box definition: an explicit rectangle or absolute margins (left, right, top, bottom)
// relative to the parent box.
type boxDef struct {
	rect *pgdoc.Rect
	marg *[4]int
}

func (b *boxDef) apply(parent pgdoc.Rect) *pgdoc.Rect {
	if b.rect != nil {
		q := *b.rect
		return &q
	}
	return &pgdoc.Rect{parent[0] + b.marg[0], parent[1] + b.marg[3], parent[2] - b.marg[1], parent[3] - b.marg[2]}
}

type opT struct {
	kind   byte // I R T C O A X K
	sel    []int
	before bool
	dim    *[2]int
	delta  int
	boxes  [5]*boxDef // media crop trim bleed art
	rm     [4]bool    // crop trim bleed art
	crop   boxDef
}

func hx(i int) string { return vh.Int(int64(i)) }

func rs(q *pgdoc.Rect) string {
	if q == nil {
		return "-"
	}
	return hx(q[0]) + "," + hx(q[1]) + "," + hx(q[2]) + "," + hx(q[3])
}

func bs(b *boxDef) string {
	if b == nil {
		return "-"
	}
	if b.rect != nil {
		return rs(b.rect)
	}
	return "m:" + hx(b.marg[0]) + "," + hx(b.marg[1]) + "," + hx(b.marg[2]) + "," + hx(b.marg[3])
}

func b01(b bool) string {
	if b {
		return "1"
	}
	return "0"
}

func (o opT) encode() string {
	s := vh.Ints(o.sel)
	switch o.kind {
	case 'I':
		d := "-"
		if o.dim != nil {
			d = hx(o.dim[0]) + "," + hx(o.dim[1])
		}
		return "I " + s + " " + b01(o.before) + " " + d
	case 'R', 'T', 'C':
		return string(o.kind) + " " + s
	case 'O':
		return "O " + s + " " + hx(o.delta)
	case 'A':
		return "A " + s + " " + bs(o.boxes[0]) + " " + bs(o.boxes[1]) + " " + bs(o.boxes[2]) + " " + bs(o.boxes[3]) + " " + bs(o.boxes[4])
	case 'X':
		return "X " + s + " " + b01(o.rm[0]) + " " + b01(o.rm[1]) + " " + b01(o.rm[2]) + " " + b01(o.rm[3])
	case 'K':
		return "K " + s + " " + bs(&o.crop)
	}
	panic("op")
}

func selStrings(sel []int) []string {
	o := make([]string, len(sel))
	for i, k := range sel {
		o[i] = strconv.Itoa(k)
	}
	return o
}

func box(b *boxDef) *model.Box {
	if b == nil {
		return nil
	}
	if q := b.rect; q != nil {
		return &model.Box{Rect: types.NewRectangle(float64(q[0]), float64(q[1]), float64(q[2]), float64(q[3]))}
	}
	return &model.Box{MLeft: float64(b.marg[0]), MRight: float64(b.marg[1]), MTop: float64(b.marg[2]), MBot: float64(b.marg[3])}
}

func (o opT) apply(in, out string) error {
	sel := selStrings(o.sel)
	switch o.kind {
	case 'I':
		var pc *pdfcpu.PageConfiguration
		if o.dim != nil {
			pc = &pdfcpu.PageConfiguration{PageDim: &types.Dim{Width: float64(o.dim[0]), Height: float64(o.dim[1])}, UserDim: true, InpUnit: types.POINTS}
		}
		return api.InsertPagesFile(in, out, sel, o.before, pc, nil)
	case 'R':
		return api.RemovePagesFile(in, out, sel, nil)
	case 'T':
		return api.TrimFile(in, out, sel, nil)
	case 'C':
		return api.CollectFile(in, out, sel, nil)
	case 'O':
		return api.RotateFile(in, out, o.delta, sel, nil)
	case 'A':
		return api.AddBoxesFile(in, out, sel, &model.PageBoundaries{Media: box(o.boxes[0]), Crop: box(o.boxes[1]), Trim: box(o.boxes[2]), Bleed: box(o.boxes[3]), Art: box(o.boxes[4])}, nil)
	case 'X':
		pb := &model.PageBoundaries{}
		e := &model.Box{}
		if o.rm[0] {
			pb.Crop = e
		}
		if o.rm[1] {
			pb.Trim = e
		}
		if o.rm[2] {
			pb.Bleed = e
		}
		if o.rm[3] {
			pb.Art = e
		}
		return api.RemoveBoxesFile(in, out, sel, pb, nil)
	case 'K':
		return api.CropFile(in, out, sel, box(&o.crop), nil)
	}
	panic("op")
}

func has(sel []int, k int) bool {
	for _, x := range sel {
		if x == k {
			return true
		}
	}
	return false
}

func randRect(n int) *pgdoc.Rect {
	a, b := r.Rand.Intn(30), r.Rand.Intn(30)
	return &pgdoc.Rect{a, b, a + 100 + r.Rand.Intn(150), b + 100 + r.Rand.Intn(200)}
}

// randDef: a rectangle or margins; margins are >= 0 and small enough to keep boxes non-empty
func randDef(margProb int) *boxDef {
	if r.Rand.Intn(100) < margProb {
		return &boxDef{marg: &[4]int{r.Rand.Intn(41), r.Rand.Intn(41), r.Rand.Intn(41), r.Rand.Intn(41)}}
	}
	return &boxDef{rect: randRect(0)}
}

func randSel(n int, nonFull bool) []int {
	var s []int
	for k := 1; k <= n; k++ {
		if r.Rand.Intn(3) == 0 {
			s = append(s, k)
		}
	}
	if len(s) == 0 {
		s = []int{1 + r.Rand.Intn(n)}
	}
	if nonFull && len(s) == n && n > 1 {
		s = s[1:]
	}
	if r.Rand.Intn(3) == 0 { // selections are sets: order and duplicates must not matter
		r.Rand.Shuffle(len(s), func(i, j int) { s[i], s[j] = s[j], s[i] })
	}
	return s
}

// randOp draws an operation; boxOnly restricts to the box / rotation operations
// (crop, rotate, add trim, add bleed/art, remove boxes, crop again ...).
func randOp(n int, boxOnly bool) opT {
	for {
		k := r.Rand.Intn(10)
		if boxOnly {
			k = []int{5, 7, 7, 7, 8, 9, 9, 10, 11, 11}[r.Rand.Intn(10)]
		}
		switch k {
		case 0, 1:
			o := opT{kind: 'I', sel: randSel(n, false), before: r.Rand.Intn(2) == 0}
			if r.Rand.Intn(3) == 0 {
				o.dim = &[2]int{100 + r.Rand.Intn(400), 100 + r.Rand.Intn(400)}
			}
			if n > 40 {
				continue
			}
			return o
		case 2:
			if n < 2 {
				continue
			}
			return opT{kind: 'R', sel: randSel(n, true)}
		case 3:
			return opT{kind: 'T', sel: randSel(n, false)}
		case 4:
			var l []int
			for j := 1 + r.Rand.Intn(n+2); j > 0; j-- {
				l = append(l, 1+r.Rand.Intn(n))
			}
			return opT{kind: 'C', sel: l}
		case 5, 6:
			return opT{kind: 'O', sel: randSel(n, false), delta: 90 * (r.Rand.Intn(13) - 6)}
		case 7:
			o := opT{kind: 'A', sel: randSel(n, false)}
			for i := range o.boxes {
				if r.Rand.Intn(3) == 0 {
					o.boxes[i] = randDef(50)
				}
			}
			if o.boxes == [5]*boxDef{} {
				o.boxes[1+r.Rand.Intn(4)] = randDef(50)
			}
			return o
		case 10: // only a trim box, by margins: its parent is whatever crop box the page has by now
			o := opT{kind: 'A', sel: randSel(n, false)}
			o.boxes[2] = randDef(90)
			return o
		case 11: // bleed and/or art by margins
			o := opT{kind: 'A', sel: randSel(n, false)}
			if r.Rand.Intn(2) == 0 {
				o.boxes[3] = randDef(90)
			}
			if o.boxes[3] == nil || r.Rand.Intn(2) == 0 {
				o.boxes[4] = randDef(90)
			}
			return o
		case 8:
			o := opT{kind: 'X', sel: randSel(n, false)}
			for i := range o.rm {
				o.rm[i] = r.Rand.Intn(2) == 0
			}
			if o.rm == [4]bool{} {
				o.rm[r.Rand.Intn(4)] = true
			}
			return o
		default:
			return opT{kind: 'K', sel: randSel(n, false), crop: *randDef(40)}
		}
	}
}

// expected: the property as a list-level reference on what the implementation showed before the step.
// Returns the expected semantic pages; blank pages have ID 0 and only their ID is compared.
func expected(o opT, before []pgdoc.VPage) []pgdoc.VPage {
	n := len(before)
	var out []pgdoc.VPage
	switch o.kind {
	case 'I':
		for k := 1; k <= n; k++ {
			if has(o.sel, k) && o.before {
				out = append(out, pgdoc.VPage{ID: -1})
			}
			out = append(out, before[k-1])
			if has(o.sel, k) && !o.before {
				out = append(out, pgdoc.VPage{ID: -1})
			}
		}
	case 'R':
		for k := 1; k <= n; k++ {
			if !has(o.sel, k) {
				out = append(out, before[k-1])
			}
		}
	case 'T':
		for k := 1; k <= n; k++ {
			if has(o.sel, k) {
				out = append(out, before[k-1])
			}
		}
	case 'C':
		for _, k := range o.sel {
			out = append(out, before[k-1])
		}
	default:
		for k := 1; k <= n; k++ {
			v := before[k-1]
			if has(o.sel, k) {
				switch o.kind {
				case 'O':
					v.Rot = pgdoc.NormRot(v.Rot + o.delta)
				case 'A':
					// media and crop definitions refer to the media box in effect; trim, bleed and art to
					// the page's crop box (set now, earlier, or inherited) if any, else to the media box
					m := *v.Media
					if o.boxes[0] != nil {
						v.Media = o.boxes[0].apply(m)
					}
					if o.boxes[1] != nil {
						v.Crop = o.boxes[1].apply(m)
					}
					parent := m
					if v.Crop != nil {
						parent = *v.Crop
					}
					if o.boxes[2] != nil {
						v.Trim = o.boxes[2].apply(parent)
					}
					if o.boxes[3] != nil {
						v.Bleed = o.boxes[3].apply(parent)
					}
					if o.boxes[4] != nil {
						v.Art = o.boxes[4].apply(parent)
					}
				case 'X':
					if o.rm[0] {
						v.Crop = nil // defaults to the media box
					}
					if o.rm[1] {
						v.Trim = nil
					}
					if o.rm[2] {
						v.Bleed = nil
					}
					if o.rm[3] {
						v.Art = nil
					}
				case 'K':
					v.Crop = o.crop.apply(*v.Media)
				}
			}
			out = append(out, v)
		}
	}
	return out
}

var opName = map[byte]string{'I': "insert", 'R': "remove", 'T': "trim", 'C': "collect", 'O': "rotate", 'A': "addboxes", 'X': "removeboxes", 'K': "crop"}

// diffClass: which attribute differs between got and want (same length, same markers)
func diffClass(got, want []pgdoc.VPage) string {
	res := ""
	for i := range got {
		if want[i].ID == -1 || got[i].Sem() == want[i].Sem() {
			continue
		}
		g, w := got[i], want[i]
		g.Crop, w.Crop = g.Media, w.Media
		if g.Sem() == w.Sem() {
			if res == "" {
				res = "crop"
			}
			continue
		}
		g.Rot, w.Rot = 0, 0
		if g.Sem() == w.Sem() && want[i].Rot%360 <= 0 && got[i].Rot == 0 {
			// narrow class: a rotation r with r%360 <= 0 (Go remainder) was dropped
			if res == "" || res == "crop" {
				res = "rot"
			}
			continue
		}
		return "other"
	}
	return res
}

// boxesOracle: api.Boxes (XRefTable.PageBoundaries), the public observer of page boxes, must report for
// every page the boxes in effect (own entries, else inherited from the ANCESTORS).
func boxesOracle(path string, pages []pgdoc.VPage, input any) {
	f, err := os.Open(path)
	if err != nil {
		return
	}
	defer f.Close()
	var pbs []model.PageBoundaries
	panicked := false
	func() {
		defer func() {
			if p := recover(); p != nil {
				panicked = true
				r.OracleFail("panic:boxes-list", input, fmt.Sprint(p))
			}
		}()
		pbs, err = api.Boxes(f, nil, nil)
	}()
	if panicked {
		return
	}
	if err != nil || len(pbs) != len(pages) {
		r.OracleFail("boxes-list-fails", input, fmt.Sprintf("%v, %d entries for %d pages", err, len(pbs), len(pages)))
		return
	}
	rr := func(q *types.Rectangle) string {
		if q == nil {
			return "-"
		}
		return fmt.Sprintf("%.0f,%.0f,%.0f,%.0f", q.LL.X, q.LL.Y, q.UR.X, q.UR.Y)
	}
	pr := func(q *pgdoc.Rect) string {
		if q == nil {
			return "-"
		}
		return fmt.Sprintf("%d,%d,%d,%d", q[0], q[1], q[2], q[3])
	}
	for i, pb := range pbs {
		v := pages[i]
		crop := v.Crop
		if crop == nil {
			crop = v.Media
		}
		if rr(pb.MediaBox()) != pr(v.Media) || rr(pb.CropBox()) != pr(crop) {
			r.OracleFail("boxes-list-sibling-leak", input, fmt.Sprintf("page %d: api.Boxes reports MediaBox %s CropBox %s, the page tree says MediaBox %s CropBox %s",
				i+1, rr(pb.MediaBox()), rr(pb.CropBox()), pr(v.Media), pr(crop)))
			return
		}
	}
	r.OracleOK()
}

func sequence(n, kind, steps int, boxOnly bool) {
	var opt pgdoc.GenOpt
	switch kind % 5 {
	case 0:
		opt = pgdoc.GenOpt{MaxDepth: 0, PageBoxes: true}
	case 1:
		opt = pgdoc.GenOpt{MaxDepth: 2, NodeRot: true, NodeMedia: true, PageBoxes: true, RootAttrs: true}
	case 2:
		opt = pgdoc.GenOpt{MaxDepth: 3, NodeRot: true, NodeMedia: true, PageBoxes: true}
	case 3:
		opt = pgdoc.GenOpt{MaxDepth: 2, NodeRot: true, NodeMedia: true, NodeCrop: true, PageBoxes: true, RootAttrs: true}
	default:
		opt = pgdoc.GenOpt{MaxDepth: 2, NodeRot: true, NegRot: true, NodeMedia: true, RootAttrs: true}
	}
	t := pgdoc.Gen(r.Rand, n, opt)
	cur := tmp("s0.pdf")
	if err := pgdoc.WritePDF(t, cur); err != nil {
		panic(err)
	}
	enc := t.Encode()
	pages, err := pgdoc.ReadPages(cur)
	if err != nil {
		r.Case("run", []string{enc}, "unreadable:"+err.Error())
		return
	}
	r.Case("run", []string{enc}, "ok:"+pgdoc.Canon(pages, false))
	boxesOracle(cur, pages, map[string]any{"tree": enc, "ops": "", "step": 0, "op": "api.Boxes"})
	if boxOnly {
		r.Count("history:box-sequence")
	} else {
		r.Count("history:mixed")
	}
	var ops []string
	for s := 1; s <= steps; s++ {
		o := randOp(len(pages), boxOnly)
		ops = append(ops, o.encode())
		prefix := strings.Join(ops, "|")
		input := map[string]any{"tree": enc, "ops": prefix, "step": s}
		out := tmp(fmt.Sprintf("s%d.pdf", s))
		inBytes, _ := os.ReadFile(cur)
		var err error
		panicked := false
		func() {
			defer func() {
				if p := recover(); p != nil {
					panicked = true
					r.OracleFail("panic:"+opName[o.kind], input, fmt.Sprint(p))
				}
			}()
			err = o.apply(cur, out)
		}()
		if panicked {
			return
		}
		r.Count("op:" + opName[o.kind])
		if err != nil {
			r.Case("run", []string{enc, prefix}, "err")
			r.OracleFail(opName[o.kind]+"-fails", input, err.Error())
			return
		}
		got, err := pgdoc.ReadPages(out)
		if err != nil {
			r.Case("run", []string{enc, prefix}, "unreadable:"+err.Error())
			r.OracleFail(opName[o.kind]+"-unreadable-output", input, err.Error())
			return
		}
		r.Case("run", []string{enc, prefix}, "ok:"+pgdoc.Canon(got, false))
		// marker level reference of the whole history, evaluated by the model's list-level spec
		want := expected(o, pages)
		okIDs := len(got) == len(want)
		if okIDs {
			for i := range got {
				if want[i].ID == -1 {
					okIDs = okIDs && got[i].ID == 0
				} else {
					okIDs = okIDs && got[i].ID == want[i].ID
				}
			}
		}
		nb, _ := os.ReadFile(cur)
		switch {
		case !okIDs:
			r.OracleFail(opName[o.kind]+"-page-sequence", input, fmt.Sprintf("markers %v after, %v before, selection %v", pgdoc.IDs(got), pgdoc.IDs(pages), o.sel))
		case !bytes.Equal(nb, inBytes):
			r.OracleFail(opName[o.kind]+"-input-modified", input, "input file changed")
		default:
			switch diffClass(got, want) {
			case "":
				r.OracleOK()
			case "crop":
				switch o.kind {
				case 'R', 'T', 'C':
					r.OracleFail("extract-inherited-cropbox-lost", input, "got "+pgdoc.Canon(got, false)+" before "+pgdoc.Canon(pages, false))
				case 'X':
					r.OracleFail("removeboxes-inherited-cropbox-remains", input, "got "+pgdoc.Canon(got, false)+" before "+pgdoc.Canon(pages, false))
				default:
					r.OracleFail(opName[o.kind]+"-cropbox", input, "got "+pgdoc.Canon(got, false)+" before "+pgdoc.Canon(pages, false))
				}
			case "rot":
				switch o.kind {
				case 'R', 'T', 'C':
					r.OracleFail("extract-inherited-rotate-lost", input, "got "+pgdoc.Canon(got, false)+" before "+pgdoc.Canon(pages, false))
				default:
					r.OracleFail(opName[o.kind]+"-rotation", input, "got "+pgdoc.Canon(got, false)+" before "+pgdoc.Canon(pages, false))
				}
			default:
				r.OracleFail(opName[o.kind]+"-page-attributes", input, "got "+pgdoc.Canon(got, false)+" before "+pgdoc.Canon(pages, false))
			}
		}
		if s == steps {
			boxesOracle(out, got, map[string]any{"tree": enc, "ops": prefix, "step": s, "op": "api.Boxes"})
		}
		os.Remove(cur)
		cur, pages = out, got
	}
	os.Remove(cur)
}

func main() {
	r = vh.Start("C32")
	defer r.Finish()
	api.DisableConfigDir()
	dir = filepath.Join("/tmp/c32-scratch", fmt.Sprintf("run-%d", os.Getpid()))
	os.RemoveAll(dir)
	if err := os.MkdirAll(dir, 0o755); err != nil {
		panic(err)
	}
	defer os.RemoveAll(dir)

	N := r.Pick(140, 900)
	for i := 0; i < N; i++ {
		n := 2 + r.Rand.Intn(r.Pick(11, 29))
		sequence(n, i, 1+r.Rand.Intn(r.Pick(6, 8)), false)
	}
	// box sequences: crop -> rotate -> add trim -> add bleed/art -> remove boxes -> crop again ... on pages
	// with own / inherited / absent MediaBox, CropBox, Rotate
	for i := 0; i < r.Pick(120, 700); i++ {
		n := 1 + r.Rand.Intn(r.Pick(6, 12))
		sequence(n, i, 2+r.Rand.Intn(r.Pick(5, 7)), true)
	}
}
