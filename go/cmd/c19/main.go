// Harness for C19 — writing then reading a document preserves its content.
//
// For every input document (generated raw PDFs + the corpus) and every writer configuration
// (xref table / xref stream, object streams on/off, EOL LF/CR/CRLF, no encryption / AES / RC4):
//
//	real read (+ relaxed validation) -> snapshot -> real write -> real read -> snapshot
//
// O (oracle, on the implementation): the canonical form of the graph reachable from the trailer
//
//	(objects numbered in breadth-first order from Root, then Info; streams by decoded content;
//	root /Version, Info Producer/CreationDate/ModDate and stream /Length left out) must be
//	identical before and after, and so must the page sequence with effective MediaBox, CropBox,
//	Rotate, Resources (unfolded), decoded content and the remaining page entries.
//
// K (correspondence): the in-use table before the write goes to the extracted model
//
//	(coq/C19/Model.v write_model), which predicts the table a reader finds afterwards: which
//	numbers survive and what each of them holds; that prediction is compared with the table
//	of the re-read file. The model's list of dangling references is compared with the
//	dangling references of the re-read file.
package main

import (
	"bytes"
	"encoding/hex"
	"fmt"
	"os"
	"path/filepath"
	"sort"
	"strings"

	"github.com/pdfcpu/pdfcpu/pkg/api"
	"github.com/pdfcpu/pdfcpu/pkg/pdfcpu/model"
	"github.com/pdfcpu/pdfcpu/pkg/pdfcpu/types"
	"verif/vh"
)

type wconf struct {
	name      string
	xrefStm   bool
	objStm    bool
	eol       string
	enc       string // "", "aes256", "aes128", "rc4"
}

func allConfigs() []wconf {
	var l []wconf
	for _, eol := range []string{types.EolLF, types.EolCR, types.EolCRLF} {
		en := map[string]string{types.EolLF: "lf", types.EolCR: "cr", types.EolCRLF: "crlf"}[eol]
		l = append(l, wconf{"table-" + en, false, false, eol, ""})
		l = append(l, wconf{"xrefstm-" + en, true, false, eol, ""})
		l = append(l, wconf{"objstm-" + en, true, true, eol, ""})
	}
	l = append(l, wconf{"table-lf-aes256", false, false, types.EolLF, "aes256"})
	l = append(l, wconf{"objstm-lf-aes256", true, true, types.EolLF, "aes256"})
	l = append(l, wconf{"xrefstm-crlf-aes128", true, false, types.EolCRLF, "aes128"})
	l = append(l, wconf{"table-cr-rc4", false, false, types.EolCR, "rc4"})
	return l
}

func (c wconf) conf() *model.Configuration {
	var conf *model.Configuration
	switch c.enc {
	case "aes256":
		conf = model.NewAESConfiguration("upw", "opw", 256)
	case "aes128":
		conf = model.NewAESConfiguration("upw", "opw", 128)
	case "rc4":
		conf = model.NewRC4Configuration("upw", "opw", 128)
	default:
		conf = model.NewDefaultConfiguration()
	}
	if c.enc != "" {
		conf.Cmd = model.ENCRYPT
	} else {
		conf.Cmd = model.VALIDATE
	}
	conf.Eol = c.eol
	conf.WriteXRefStream = c.xrefStm
	conf.WriteObjectStream = c.objStm
	conf.ValidationMode = model.ValidationRelaxed
	return conf
}

func guard(f func() error) (err error) {
	defer func() {
		if e := recover(); e != nil {
			err = fmt.Errorf("PANIC: %v", e)
		}
	}()
	return f()
}

type snapshot struct {
	canon   []string
	pages   []pageView
	tv      *tableView
	root    int
	info    int // -1: none
	rootVer bool
	size    int
}

func snap(ctx *model.Context, skip map[int]bool) (*snapshot, error) {
	s := &snapshot{info: -1}
	var err error
	if s.canon, err = canonical(ctx); err != nil {
		return nil, err
	}
	if s.pages, err = pageSequence(ctx); err != nil {
		return nil, err
	}
	if s.tv, err = view(ctx, skip); err != nil {
		return nil, err
	}
	s.root = ctx.Root.ObjectNumber.Value()
	if ctx.Info != nil {
		s.info = ctx.Info.ObjectNumber.Value()
	}
	s.rootVer = ctx.RootVersion != nil
	return s, nil
}

// readInput: real read + relaxed validation, then the writer's own first step on the catalog,
// xRefTable.BindNameTrees (writeRootObject), which re-creates the name tree nodes from the
// cache validation has filled: the snapshot "before" is taken after it, and the content of
// the name trees (tree, key, unfolded value) is compared across it separately (bindDiff).
func readInput(doc []byte, conf *model.Configuration) (ctx *model.Context, bindDiff string, err error) {
	err = guard(func() error {
		var e error
		ctx, e = api.ReadContext(bytes.NewReader(doc), conf)
		if e != nil {
			return e
		}
		if e = api.ValidateContext(ctx); e != nil {
			return e
		}
		n1, e := nameTrees(ctx)
		if e != nil {
			return e
		}
		if e = ctx.BindNameTrees(); e != nil {
			return fmt.Errorf("BindNameTrees: %w", e)
		}
		// the writer's own BindNameTrees call then finds nothing left to do (it would otherwise
		// re-create the same nodes under new object numbers)
		ctx.Names = map[string]*model.Node{}
		n2, e := nameTrees(ctx)
		if e != nil {
			return e
		}
		if strings.Join(n1, "\n") != strings.Join(n2, "\n") {
			bindDiff = firstDiff(n1, n2)
		}
		return nil
	})
	return ctx, bindDiff, err
}

func writeOut(ctx *model.Context) (out []byte, err error) {
	err = guard(func() error {
		var w bytes.Buffer
		if e := api.WriteContext(ctx, &w); e != nil {
			return e
		}
		out = w.Bytes()
		return nil
	})
	return out, err
}

func readBack(out []byte, c wconf, bigNumbers ...bool) (ctx *model.Context, err error) {
	conf := model.NewDefaultConfiguration()
	conf.Cmd = model.VALIDATE
	if len(bigNumbers) > 0 && bigNumbers[0] {
		conf.Limits.MaxObjectCount = 1 << 26
	}
	if c.enc != "" {
		conf.UserPW = "upw"
		conf.OwnerPW = "opw"
	}
	err = guard(func() error {
		var e error
		ctx, e = api.ReadContext(bytes.NewReader(out), conf)
		return e
	})
	return ctx, err
}

// danglingRefs: references in the in-use objects of tv that no in-use object answers
func danglingRefs(tv *tableView, ctx *model.Context) []int {
	set := map[int]bool{}
	for _, nr := range tv.nrs {
		for _, tok := range strings.Fields(tv.objs[nr]) {
			if tok[0] == 'R' {
				var n int
				fmt.Sscanf(tok[1:], "%x", &n)
				if e, ok := ctx.Table[n]; !ok || e == nil || e.Free {
					set[n] = true
				}
			}
		}
	}
	var l []int
	for n := range set {
		l = append(l, n)
	}
	sort.Ints(l)
	return l
}

func firstDiff(a, b []string) string {
	n := len(a)
	if len(b) < n {
		n = len(b)
	}
	for i := 0; i < n; i++ {
		if a[i] != b[i] {
			return fmt.Sprintf("line %d: before=%s after=%s", i, trunc(a[i]), trunc(b[i]))
		}
	}
	return fmt.Sprintf("lengths %d vs %d", len(a), len(b))
}

func trunc(s string) string {
	if len(s) > 300 {
		return s[:300] + "..."
	}
	return s
}

// classifyGraphDiff names the failure class of a changed reachable graph. When references
// dangle after the write that did not dangle before, the class says which kind of surviving
// object holds them: an undecoded object stream member (copied verbatim by
// writeLazyObjectStreamObject), the catalog, a page tree node, a page (entries the writer
// does not list), or something else.
func classifyGraphDiff(before, after *snapshot, dangAfter []int, c wconf) string {
	if len(dangAfter) == 0 {
		// only the content token of a stream differs?
		bc, ac := before.canon, after.canon
		for i := 0; i < len(bc) && i < len(ac); i++ {
			if bc[i] != ac[i] {
				bi, ai := strings.LastIndex(bc[i], ">>"), strings.LastIndex(ac[i], ">>")
				if strings.Contains(bc[i], "=stream<<") && bi > 0 && bi == ai && bc[i][:bi] == ac[i][:ai] {
					if c.eol == types.EolCR {
						// "stream" CR followed by data that starts with LF is read back as CR LF + shifted data
						return "eol-cr-stream-content-changed"
					}
					return "stream-content-changed"
				}
				break
			}
		}
		return "graph-changed"
	}
	kinds := map[string]bool{}
	for _, n := range dangAfter {
		tok := "R" + vh.Int(int64(n))
		for _, nr := range after.tv.nrs {
			found := false
			for _, t := range strings.Fields(after.tv.objs[nr]) {
				if t == tok {
					found = true
					break
				}
			}
			if !found {
				continue
			}
			w := before.tv.objs[nr]
			switch {
			case before.tv.lazy[nr]:
				kinds["lazy"] = true
			case nr == before.root:
				kinds["catalog"] = true
			case strings.Contains(w, "k54797065 /50616765 "):
				kinds["page"] = true
			case strings.Contains(w, "k54797065 /5061676573 "):
				kinds["pages"] = true
			default:
				kinds["other"] = true
			}
		}
	}
	if len(kinds) == 1 && kinds["lazy"] {
		return "write-drops-objects-referenced-only-by-lazy-objstream-member"
	}
	for _, k := range []string{"catalog", "pages", "page"} {
		if kinds[k] {
			return "unlisted-entry-object-dropped:" + k
		}
	}
	if kinds["lazy"] {
		return "write-drops-objects-referenced-only-by-lazy-objstream-member"
	}
	return "object-dropped"
}

func minus(a, b []int) []int {
	m := map[int]bool{}
	for _, x := range b {
		m[x] = true
	}
	var l []int
	for _, x := range a {
		if !m[x] {
			l = append(l, x)
		}
	}
	return l
}

type docCase struct {
	// bigNumbers: object numbers above the reader's default Limits.MaxObjectCount (10,000,000):
	// the written file is read back with raised limits for the comparison, and once more with
	// the default limits (class xref-stream-size-over-read-limit when that silently differs)
	bigNumbers            bool
	sparseWhich, sparseTo int // sparseTo > 0: renumber one object of the read context (sparse.go)
	name    string
	doc     []byte
	hazards []string
	desc    string
	maxObjs int
}

func runDoc(r *vh.Run, dc docCase, configs []wconf) {
	input := func(c wconf) map[string]any {
		m := map[string]any{"doc": dc.name, "config": c.name, "desc": dc.desc}
		if len(dc.doc) <= 64<<10 {
			m["pdf"] = hex.EncodeToString(dc.doc)
		}
		return m
	}
	var refText string
	var refConf string
	failSent := false
	caseSent := false
	for ci, c := range configs {
		ctx1, bindDiff, err := readInput(dc.doc, c.conf())
		if err == nil && bindDiff != "" && ci == 0 {
			r.OracleFail("name-tree-content-changed-by-bind", input(c), bindDiff)
		}
		if err != nil {
			r.Count("doc:input-rejected")
			if ci == 0 && strings.HasPrefix(err.Error(), "PANIC") {
				r.OracleFail("panic:read", input(c), err.Error())
			}
			return
		}
		if dc.sparseTo > 0 {
			if _, err := sparseCtx(ctx1, dc.sparseWhich, dc.sparseTo); err != nil {
				r.Count("doc:sparse-not-applicable")
				return
			}
		}
		before, err := snap(ctx1, nil)
		if err != nil {
			r.Count("doc:unsupported:" + trunc(err.Error()))
			return
		}
		if ci == 0 {
			r.Count("doc:accepted")
			r.CountN("objects", len(before.tv.nrs))
		}
		// references that no in-use object answers (free or missing entries), before the write:
		// the numbers of the objects the writer creates (fresh info dict, encryption dict, object
		// streams, the xref stream) must not be among them, or the reference stops being null
		dangBefore := danglingRefs(before.tv, ctx1)
		dangSet := map[int]bool{}
		for _, n := range dangBefore {
			dangSet[n] = true
		}
		recycled := ""
		out, err := writeOut(ctx1)
		if err != nil {
			if strings.HasPrefix(err.Error(), "PANIC") {
				r.OracleFail("panic:write", input(c), err.Error())
			} else {
				// the property speaks about documents pdfcpu has written
				r.Count("write-error")
				if c.enc != "" {
					// may be due to the encryption parameters (PDF 2.0 demands AES-256)
					continue
				}
				if !failSent {
					failSent = true
					r.Case("write", []string{before.tv.wire(), vh.Int(int64(before.root)), infoArg(before), vh.Bool(before.rootVer), "100"}, "fail")
				}
			}
			continue
		}
		if c.enc != "" && ctx1.Encrypt != nil && dangSet[ctx1.Encrypt.ObjectNumber.Value()] {
			recycled = "recycled-number-still-referenced:encrypt-dict"
			r.OracleFail(recycled, input(c), fmt.Sprintf("the encryption dictionary was given object number %d, which the document still references (free entry)", ctx1.Encrypt.ObjectNumber.Value()))
		}
		if before.info < 0 && ctx1.Info != nil && dangSet[ctx1.Info.ObjectNumber.Value()] {
			recycled = "recycled-number-still-referenced:info-dict"
			r.OracleFail(recycled, input(c), fmt.Sprintf("the new info dictionary was given object number %d, which the document still references (free entry)", ctx1.Info.ObjectNumber.Value()))
		}
		if dc.bigNumbers && c.xrefStm {
			// default limits: the reader must either fail or deliver the same document
			if ctxd, e := readBack(out, c); e == nil {
				if cd, e2 := canonical(ctxd); e2 == nil && strings.Join(cd, "\n") != strings.Join(before.canon, "\n") {
					r.OracleFail("xref-stream-size-over-read-limit", input(c), "xref stream /Size above Limits.MaxObjectCount: the reader neither fails nor reads the document it was given (xref stream rejected, silent repair by scanning): "+firstDiff(before.canon, cd))
				}
			}
		}
		ctx2, err := readBack(out, c, dc.bigNumbers)
		if err != nil {
			if recycled == "" {
				r.OracleFail("reread-fails", input(c), err.Error())
			}
			continue
		}
		for _, n := range dangBefore {
			e, ok := ctx2.Table[n]
			if !ok || e == nil || e.Free {
				continue
			}
			kind := ""
			switch x := e.Object.(type) {
			case types.XRefStreamDict:
				kind = "xref-stream"
			case types.ObjectStreamDict:
				kind = "object-stream"
			case types.StreamDict:
				if t := x.Type(); t != nil && *t == "XRef" {
					kind = "xref-stream"
				} else if t != nil && *t == "ObjStm" {
					kind = "object-stream"
				}
			}
			if kind == "" && ctx2.Read != nil && ctx2.Read.XRefStreams[n] {
				kind = "xref-stream"
			}
			if kind == "" && ctx2.Read != nil && ctx2.Read.ObjectStreams[n] {
				kind = "object-stream"
			}
			if kind != "" {
				recycled = "recycled-number-still-referenced:" + kind
				r.OracleFail(recycled, input(c), fmt.Sprintf("the %s was given object number %d, which the document still references (free entry)", kind, n))
			}
		}
		skip := map[int]bool{}
		if before.info < 0 && ctx2.Info != nil {
			skip[ctx2.Info.ObjectNumber.Value()] = true // ensureInfoDict created one
		}
		after, err := snap(ctx2, skip)
		if err != nil {
			r.OracleFail("reread-unsupported", input(c), err.Error())
			continue
		}
		// ---- O
		ok := true
		dang := danglingRefs(after.tv, ctx2)
		newDang := minus(dang, dangBefore)
		bc, ac := before.canon, after.canon
		if before.info < 0 {
			// a fresh info dict holds nothing but the three volatile entries
			ac = stripFreshInfo(ac)
		}
		graphSame := strings.Join(bc, "\n") == strings.Join(ac, "\n")
		if recycled != "" {
			ok = false // already reported; the changed graph is its consequence
		} else if !graphSame {
			ok = false
			r.OracleFail(classifyGraphDiff(before, after, newDang, c), input(c), fmt.Sprintf("new dangling references %v; %s", newDang, firstDiff(bc, ac)))
		}
		if len(before.pages) != len(after.pages) {
			ok = false
			r.OracleFail("page-sequence-changed", input(c), fmt.Sprintf("%d pages before, %d after", len(before.pages), len(after.pages)))
		} else if graphSame {
			// (a changed graph is already reported; the page view would repeat it)
			for i := range before.pages {
				b, a := before.pages[i], after.pages[i]
				attr := ""
				switch {
				case b.media != a.media:
					attr = "MediaBox"
				case b.crop != a.crop:
					attr = "CropBox"
				case b.rotate != a.rotate:
					attr = "Rotate"
				case b.resources != a.resources:
					attr = "Resources"
				case b.content != a.content:
					attr = "Contents"
				case b.rest != a.rest:
					attr = "other"
				}
				if attr != "" {
					ok = false
					r.OracleFail("page-attr-changed:"+attr, input(c), fmt.Sprintf("page %d: before=%s after=%s", i+1, trunc(fmt.Sprint(b)), trunc(fmt.Sprint(a))))
					break
				}
			}
		}
		if ok {
			r.OracleOK()
		}
		r.Count("config:" + c.name)
		// ---- K
		text := after.tv.text(nil) + "|dangling=" + vh.Ints(dang)
		// the model is compared with the first configuration whose EOL is not CR (the tables of CR
		// configurations can be hit by the stream defect reported as eol-cr-stream-content-changed),
		// whatever the oracle said; the tables of the configurations that passed the oracle must agree
		// (a table hit by a recycled-number failure reported above is no reference either)
		if !caseSent && recycled == "" && (c.eol != types.EolCR || ci == len(configs)-1) {
			caseSent = true
			if len(before.tv.nrs) <= dc.maxObjs {
				r.Case("write", []string{before.tv.wire(), vh.Int(int64(before.root)), infoArg(before), vh.Bool(before.rootVer), "100"}, "ok:"+digest(text))
			} else {
				r.Count("doc:too-big-for-model")
			}
		}
		if ok {
			if refConf == "" {
				refConf, refText = c.name, text
			} else if text != refText {
				r.OracleFail("config-dependent-output", input(c), fmt.Sprintf("table after %s differs from table after %s", c.name, refConf))
			}
		}
	}
}

func secondGeneration(doc []byte) []byte {
	c := wconf{"objstm-lf", true, true, types.EolLF, ""}
	ctx, _, err := readInput(doc, c.conf())
	if err != nil {
		return nil
	}
	out, err := writeOut(ctx)
	if err != nil {
		return nil
	}
	return out
}

func infoArg(s *snapshot) string {
	if s.info < 0 {
		return "-"
	}
	return vh.Int(int64(s.info))
}

func stripFreshInfo(lines []string) []string {
	// the info dict is numbered last: "info=@k" followed by "@k=<<>>" for a fresh one
	n := len(lines)
	if n >= 2 && strings.HasPrefix(lines[n-2], "info=@") && strings.HasSuffix(lines[n-1], "=<<>>") {
		return lines[:n-2]
	}
	return lines
}

func corpusFiles() []string {
	repo := os.Getenv("VERIF_REPO")
	if repo == "" {
		repo = "/repo"
	}
	emptied := map[string]bool{}
	if b, err := os.ReadFile("/root/.vp/EMPTIED_FILES.txt"); err == nil {
		for _, l := range strings.Split(string(b), "\n") {
			emptied[strings.TrimSpace(l)] = true
		}
	}
	var l []string
	for _, dir := range []string{"pkg/testdata", "pkg/testdata/pdf20", "pkg/samples/basic"} {
		m, _ := filepath.Glob(filepath.Join(repo, dir, "*.pdf"))
		m2, _ := filepath.Glob(filepath.Join(repo, dir, "*.PDF"))
		for _, f := range append(m, m2...) {
			rel, _ := filepath.Rel(repo, f)
			if emptied[rel] {
				continue
			}
			if st, err := os.Stat(f); err != nil || st.Size() == 0 {
				continue
			}
			l = append(l, f)
		}
	}
	sort.Strings(l)
	return l
}

func main() {
	api.DisableConfigDir()
	if len(os.Args) > 1 && os.Args[1] == "-probe" {
		probe(os.Args[2:])
		return
	}
	r := vh.Start("C19")
	defer r.Finish()
	configs := allConfigs()

	// generated documents
	nGen := r.Pick(60, 150)
	for i := 0; i < nGen; i++ {
		doc, di := genDoc(r.Rand, genOpts{allowHazards: true})
		for _, d := range di.desc {
			if !strings.HasPrefix(d, "pages=") && !strings.Contains(d, "@") {
				r.Count("gen:" + d)
			}
		}
		cs := configs
		if !r.Thorough() {
			// quick: 4 configurations per document, rotating so that all are used
			cs = nil
			for j := 0; j < 4; j++ {
				cs = append(cs, configs[(i*4+j)%len(configs)])
			}
		}
		runDoc(r, docCase{name: fmt.Sprintf("gen-%d", i), doc: doc, hazards: di.hazards, desc: strings.Join(di.desc, ","), maxObjs: 100000}, cs)
		if i%4 == 0 {
			// second generation: the same document as pdfcpu writes it with object streams, so that
			// the reader delivers undecoded object stream members (types.LazyObjectStreamObject)
			if doc2 := secondGeneration(doc); doc2 != nil {
				r.Count("gen:second-generation")
				runDoc(r, docCase{name: fmt.Sprintf("gen2-%d", i), doc: doc2, hazards: di.hazards, desc: "objstm-written," + strings.Join(di.desc, ","), maxObjs: 100000}, cs)
			}
		}
	}

	// references to free objects (dangling): every configuration, no other hazards
	nDang := r.Pick(12, 60)
	for i := 0; i < nDang; i++ {
		v := 1 + i%6
		doc, di := genDoc(r.Rand, genOpts{dangling: v, noInfo: (i/6)%2 == 1})
		r.Count(fmt.Sprintf("gen:dangling-free-ref:variant%d", v))
		runDoc(r, docCase{name: fmt.Sprintf("dang-%d", i), doc: doc, desc: strings.Join(di.desc, ","), maxObjs: 100000}, configs)
	}

	// sparse numbering: one or several objects (catalog, page tree root, a page, a font, a content
	// stream, the info dict, a free entry) carry numbers >= 65535 in a file of a few KiB, so that
	// object numbers exceed every byte offset; every configuration
	// (pdfcpu walks 0..Size several times: a document numbered up to 2^24 takes about a minute per
	// configuration, so 2^24 and 2^24+1 appear in the thorough tier only, once, under the two
	// xref stream configurations; 65535 / 65536 / 70000 / 100000 everywhere)
	fastNumbers := []int{65535, 65536, 70000, 100000}
	sparseConfigs := configs
	if !r.Thorough() {
		sparseConfigs = []wconf{configs[0], configs[1], configs[2], configs[5], configs[11]}
	}
	nSparse := r.Pick(8, 40)
	for i := 0; i < nSparse; i++ {
		kind := sparseKinds[i%len(sparseKinds)]
		nrs := []int{fastNumbers[(i/len(sparseKinds)+i)%len(fastNumbers)]}
		if kind == "several" {
			nrs = fastNumbers
		}
		doc, di := genDoc(r.Rand, genOpts{sparse: kind, sparseNr: nrs})
		r.Count("gen:sparse:" + kind)
		runDoc(r, docCase{name: fmt.Sprintf("sparse-%d", i), doc: doc, desc: strings.Join(di.desc, ","), maxObjs: 100000}, sparseConfigs)
	}
	if r.Thorough() {
		doc, di := genDoc(r.Rand, genOpts{sparse: "several", sparseNr: []int{1 << 24, 1<<24 + 1, 70000}})
		r.Count("gen:sparse:2^24")
		// one such document, one configuration (xref stream + object streams): pdfcpu walks 0..Size
		runDoc(r, docCase{name: "sparse-2^24", doc: doc, desc: strings.Join(di.desc, ","), maxObjs: 100000, bigNumbers: true}, []wconf{configs[2]})
	}

	// corpus
	files := corpusFiles()
	budget := r.Pick(12<<20, 40<<20)
	used := 0
	for i, f := range files {
		b, err := os.ReadFile(f)
		if err != nil {
			continue
		}
		if !r.Thorough() && len(b) > 1500<<10 {
			continue
		}
		if used+len(b) > budget {
			continue
		}
		used += len(b)
		// quick: 2 configurations per corpus file, thorough: 5, rotating over all 13
		nc := r.Pick(2, 5)
		var cs []wconf
		for j := 0; j < nc; j++ {
			cs = append(cs, configs[(i+j*5)%len(configs)])
		}
		if r.Thorough() && len(b) > 4<<20 {
			continue
		}
		r.Count("corpus-file")
		runDoc(r, docCase{name: filepath.Base(f), doc: b, desc: "corpus", maxObjs: r.Pick(1500, 6000)}, cs)
		if len(b) <= r.Pick(300<<10, 1<<20) {
			// the same document with one object moved to a very large number, xref stream output
			to := []int{65536, 70000, 100000}[i%3]
			scs := []wconf{configs[1], configs[2], configs[(i*3)%len(configs)]}
			r.Count("corpus-file-sparse")
			runDoc(r, docCase{name: filepath.Base(f) + "+sparse", doc: b, desc: fmt.Sprintf("corpus, sparse which=%d to=%d", i%4, to),
				maxObjs: r.Pick(1500, 6000), sparseWhich: i, sparseTo: to}, scs)
		}
	}
}
