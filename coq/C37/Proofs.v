(* C37 — proofs about the form export / fill model (coq/C37/Model.v). *)
From Coq Require Import ZArith NArith List Bool Lia.
From PV Require Import Lib.GoInt C37.Model C37.ProofsBase.
Import ListNotations.
Open Scope Z_scope.

(* ---- vocabulary of the statements ---- *)

(* no two fields share an id or a (fully qualified) name — at most one field is unnamed *)
Fixpoint keys_distinct (fs : list pfield) : Prop :=
  match fs with
  | [] => True
  | f :: t => Forall (fun g => pid f <> pid g /\ pname f <> pname g) t /\ keys_distinct t
  end.

(* side conditions of "fill with what was just exported":
   radio group: no option is literally "Off", fewer than 2^63 options;
   combo / single-select list box: the stored value has no outer blanks, or its trimmed form is an option *)
Definition v_clean (raw : list str) (s : str) : bool :=
  str_eqb (trim_space s) s || mem (trim_space s) (parse_options raw).
Definition clean (f : pfield) : bool :=
  match f with
  | PRb _ _ _ raw _ _ _ => negb (mem sOff (parse_options raw)) && (Z.of_nat (length (parse_options raw)) <=? 9223372036854775807)
  | PCo _ _ _ raw v _ => match v with Some s => v_clean raw s | None => true end
  | PLb _ _ _ multi raw v _ => multi || match v with LStr s => v_clean raw s | _ => true end
  | _ => true
  end.

Section WithDateDetection.
Variable datefmt : str -> option str.

(* the JSON list a field is exported to and looked up in *)
Definition pkind (f : pfield) : kind :=
  match f with
  | PTx _ _ _ _ _ jsfmt v dv => match tx_format datefmt jsfmt v dv with Some _ => KDt | None => KTx end
  | PCb _ _ _ _ _ _ => KCb
  | PRb _ _ _ _ _ _ _ => KRb
  | PCo _ _ _ _ _ _ => KCo
  | PLb _ _ _ _ _ _ _ => KLb
  end.

(* the options export reports for a field (choice fields and radio groups) *)
Definition poptions (f : pfield) : list str :=
  match f with
  | PRb _ _ _ raw kids _ _ => fst (rb_options raw kids)
  | PCo _ _ _ raw _ _ => parse_options raw
  | PLb _ _ _ _ raw _ _ => parse_options raw
  | _ => []
  end.

(* "valid value for the field's type" for the entry e that the fill data holds for field f *)
Definition valid_for (f : pfield) (e : jfield) : Prop :=
  match f with
  | PTx _ _ _ _ _ _ _ _ => True                                   (* any text; dates are not validated by fill *)
  | PCb _ _ _ _ _ asn =>
      match asn with ASNone => True | ASYes y => y <> [] /\ y <> sOff | ASErr => False end
  | PRb _ _ _ raw kids _ dv =>
      In (jvalue_str e) (poptions f) /\ jvalue_str e <> sOff /\
      Z.of_nat (length (parse_options raw)) <= 9223372036854775807 /\
      (let (opts, explicit) := rb_options raw kids in
       match dv with Some s => resolve_option s opts explicit <> Err | None => True end)
  | PCo _ _ _ _ _ _ => jvalue_str e = [] \/ In (jvalue_str e) (poptions f)
  | PLb _ _ _ multi _ v _ =>
      (forall x, In x (jvalue_list e) -> In x (poptions f)) /\
      (multi = false ->
         (exists x, jvalue_list e = [x]) \/ jvalue_list e = [])
  end.

Lemma kind_eqb_refl : forall k, kind_eqb k k = true.
Proof. intros []; reflexivity. Qed.

Lemma kind_eqb_eq : forall a b, kind_eqb a b = true -> a = b.
Proof. intros [] []; simpl; intro H; try reflexivity; discriminate. Qed.

Lemma export_field_keys : forall f e, export_field datefmt f = Ok e ->
  jid e = pid f /\ jname e = pname f /\ jkind e = pkind f /\ jlocked e = plocked f.
Proof.
  intros f e H. destruct f as [id name locked ml maxlen jsfmt v dv|id name locked v dv asn
    |id name locked raw kids v dv|id name locked raw v dv|id name locked multi raw v dv]; simpl in *.
  - destruct (tx_format datefmt jsfmt v dv); inversion H; subst; simpl; auto.
  - inversion H; subst; simpl; auto.
  - destruct (rb_options raw kids) as [opts explicit].
    destruct (match dv with Some s => resolve_option s opts explicit | None => Ok [] end); [|discriminate].
    destruct (match v with Some s => resolve_option s opts explicit | None => Ok [] end); [|discriminate].
    inversion H; subst; simpl; auto.
  - inversion H; subst; simpl; auto.
  - destruct multi; inversion H; subst; simpl; auto.
Qed.

Lemma lookup_export : forall fs j, keys_distinct fs -> export_form datefmt fs = Ok j ->
  forall f, In f fs -> exists e, export_field datefmt f = Ok e /\ lookup (pkind f) (pid f) (pname f) j = Some e.
Proof.
  induction fs as [|f0 t IH]; intros j Hk He f Hin; [contradiction|].
  simpl in He. destruct (export_field datefmt f0) as [e0|] eqn:E0; [|discriminate].
  destruct (export_form datefmt t) as [r|] eqn:Er; [|discriminate].
  inversion He; subst j. destruct Hk as [Hall Hk].
  destruct (export_field_keys _ _ E0) as [Ki [Kn [Kk _]]].
  destruct Hin as [->|Hin].
  - exists e0. split; [exact E0|]. unfold lookup. simpl. unfold jmatch.
    rewrite Kk, kind_eqb_refl, Ki, str_eqb_refl. reflexivity.
  - destruct (IH r Hk eq_refl f Hin) as [e [Ee El]]. exists e. split; [exact Ee|].
    unfold lookup. simpl. unfold jmatch at 1.
    rewrite Forall_forall in Hall. destruct (Hall f Hin) as [Hi Hn].
    rewrite Ki, Kn.
    replace (str_eqb (pid f0) (pid f)) with false by (symmetry; now apply str_eqb_neq).
    replace (str_eqb (pname f0) (pname f)) with false by (symmetry; now apply str_eqb_neq).
    rewrite andb_false_r. exact El.
Qed.

Lemma lookup_kind : forall k id name j e, lookup k id name j = Some e -> jkind e = k.
Proof.
  intros k id name j e H. unfold lookup in H. apply find_some in H as [_ H].
  unfold jmatch in H. apply andb_true_iff in H as [H _]. now apply kind_eqb_eq.
Qed.

Lemma xorb_same : forall b, xorb b b = false.
Proof. intros []; reflexivity. Qed.

(* resolving the index that fill stores gives back the option *)
Lemma resolve_explicit_index : forall opts i,
  Z.of_nat (length opts) <= 9223372036854775807 -> (N.to_nat i < length opts)%nat ->
  resolve_option (itoa i) opts true = Ok (nth (N.to_nat i) opts []).
Proof.
  intros opts i Hb Hi. unfold resolve_option.
  destruct opts as [|o opts']; [simpl in Hi; lia|]. cbn [is_nil negb andb].
  rewrite atoi_itoa by lia.
  replace (Z.of_N i <? 0) with false by (symmetry; apply Z.ltb_ge; lia).
  replace (Z.of_N i >=? Z.of_nat (length (o :: opts'))) with false by (symmetry; rewrite Z.geb_leb; apply Z.leb_gt; lia).
  cbn [orb]. now replace (Z.to_nat (Z.of_N i)) with (N.to_nat i) by lia.
Qed.

(* ------------------------------------------------------------------------------------------ *)
(* A. filling with the exported values                                                        *)

Lemma fill_field_exported : forall j f e,
  export_field datefmt f = Ok e -> lookup (pkind f) (pid f) (pname f) j = Some e -> clean f = true ->
  exists c f', fill_field datefmt j f = Ok (c, f') /\ export_field datefmt f' = Ok e.
Proof.
  intros j f e He Hl Hc.
  destruct f as [id name locked ml maxlen jsfmt v dv|id name locked v dv asn
    |id name locked raw kids v dv|id name locked raw v dv|id name locked multi raw v dv]; simpl in *.
  - (* text / date *)
    unfold fill_tx. rewrite Hl.
    destruct (tx_format datefmt jsfmt v dv) eqn:Ef; inversion He; subst e; cbn [jlocked jvalue_str jvalue];
      rewrite str_eqb_refl, xorb_same; eexists; eexists; (split; [reflexivity|]); simpl; now rewrite Ef.
  - (* check box *)
    unfold fill_cb. rewrite Hl. inversion He; subst e. cbn [jlocked jvalue_bool jvalue].
    rewrite eqb_reflx, xorb_same. eexists; eexists; split; reflexivity.
  - (* radio group *)
    unfold fill_rb. rewrite Hl. unfold rb_options in He.
    apply andb_true_iff in Hc as [Hoff Hlen]. apply negb_true_iff in Hoff. apply Z.leb_le in Hlen.
    destruct (is_nil (parse_options raw)) eqn:En.
    + (* options from the kids' appearance states: names are stored as they are *)
      apply is_nil_true in En.
      assert (R : forall s o, resolve_option s o false = Ok s).
      { intros s o. unfold resolve_option. now rewrite andb_false_r. }
      destruct dv as [sd|]; [rewrite R in He|]; (destruct v as [sv|]; [rewrite R in He|]);
        inversion He; subst e; cbn [jlocked jvalue_str jvalue]; rewrite En; cbn [index_of];
        try rewrite str_eqb_refl; try (change (str_eqb [] sOff) with false; cbn [str_eqb]);
        rewrite xorb_same; eexists; eexists; (split; [reflexivity|]); simpl; unfold rb_options; rewrite En; cbn [is_nil];
        repeat rewrite R; reflexivity.
    + (* explicit /Opt: indices are stored *)
      set (opts := parse_options raw) in *.
      destruct (match dv with Some s => resolve_option s opts true | None => Ok [] end) as [d|] eqn:Ed; [|discriminate].
      destruct v as [sv|].
      * destruct (resolve_option sv opts true) as [n|] eqn:Ev; [|discriminate].
        inversion He; subst e. cbn [jlocked jvalue_str jvalue].
        (* sv is a valid index *)
        unfold resolve_option in Ev. rewrite En in Ev. cbn [negb andb] in Ev.
        destruct (atoi sv) as [jx|] eqn:Ea; [|discriminate].
        destruct ((jx <? 0) || (jx >=? Z.of_nat (length opts))) eqn:Eb; [discriminate|].
        inversion Ev; subst n. clear Ev.
        apply orb_false_iff in Eb as [Eb1 Eb2]. apply Z.ltb_ge in Eb1. rewrite Z.geb_leb in Eb2. apply Z.leb_gt in Eb2.
        assert (Hin : In (nth (Z.to_nat jx) opts []) opts) by (apply nth_In; lia).
        assert (Hne : str_eqb (nth (Z.to_nat jx) opts []) sOff = false).
        { apply str_eqb_neq. intro E. rewrite E in Hin. apply mem_In in Hin. congruence. }
        rewrite Hne.
        assert (Hsv : str_eqb sv sOff = false).
        { apply str_eqb_neq. intro E. subst sv. rewrite atoi_Off in Ea. discriminate. }
        rewrite Hsv.
        destruct (index_of_mem _ _ 0%N (proj2 (mem_In _ _) Hin)) as [i Hi]. rewrite Hi.
        destruct (index_of_spec _ _ _ _ Hi) as [_ [Hlt Hnth]]. rewrite N.sub_0_r in Hlt, Hnth.
        destruct (str_eqb (itoa i) sv) eqn:Eq.
        -- rewrite xorb_same. eexists; eexists; split; [reflexivity|]. simpl. unfold rb_options. fold opts. rewrite En, Ed. unfold resolve_option. rewrite En. cbn [negb andb]. rewrite Ea.
           replace (jx <? 0) with false by (symmetry; apply Z.ltb_ge; lia).
           replace (jx >=? Z.of_nat (length opts)) with false by (symmetry; rewrite Z.geb_leb; apply Z.leb_gt; lia).
           cbn [orb]. now rewrite Hne.
        -- eexists; eexists; split; [reflexivity|]. simpl. unfold rb_options. fold opts. rewrite En, Ed. rewrite resolve_explicit_index by assumption. rewrite Hnth. now rewrite Hne.
      * inversion He; subst e. cbn [jlocked jvalue_str jvalue].
        change (str_eqb [] sOff) with false. cbv iota.
        rewrite (index_of_not_mem [] opts 0%N) by apply mem_nil_parse_options.
        cbn [str_eqb]. rewrite xorb_same. eexists; eexists; split; [reflexivity|]. simpl. unfold rb_options. fold opts. now rewrite En, Ed.
  - (* combo box *)
    unfold fill_co. rewrite Hl. inversion He; subst e. cbn [jlocked jvalue_str jvalue].
    destruct (str_eqb (trim_space (ostr v)) (ostr v)) eqn:Eq.
    + rewrite xorb_same. eexists; eexists; split; reflexivity.
    + destruct v as [s|]; [|simpl in Eq; discriminate]. simpl in Eq, Hc. unfold v_clean in Hc. rewrite Eq in Hc.
      simpl in Hc. simpl. rewrite Hc. eexists; eexists; split; [reflexivity|]. simpl. now rewrite trim_space_idem.
  - (* list box *)
    unfold fill_lb. rewrite Hl.
    destruct multi.
    + inversion He; subst e. cbn [jlocked jvalue_list jvalue]. destruct locked.
      * eexists; eexists; split; reflexivity.
      * rewrite strs_eqb_refl. eexists; eexists; split; reflexivity.
    + inversion He; subst e. cbn [jlocked jvalue_list jvalue]. destruct locked.
      * eexists; eexists; split; reflexivity.
      * destruct v as [|s|l]; try (cbn [strs_eqb]; eexists; eexists; split; reflexivity).
        cbn [strs_eqb]. rewrite andb_true_r. rewrite str_eqb_sym.
        destruct (str_eqb (trim_space s) s) eqn:Eq.
        -- eexists; eexists; split; reflexivity.
        -- simpl in Hc. unfold v_clean in Hc. rewrite Eq in Hc. simpl in Hc. rewrite Hc.
           eexists; eexists; split; [reflexivity|]. simpl. now rewrite trim_space_idem.
Qed.

Lemma fill_form_exported : forall j fs es,
  (forall f, In f fs -> exists e, export_field datefmt f = Ok e /\ lookup (pkind f) (pid f) (pname f) j = Some e) ->
  forallb clean fs = true ->
  export_form datefmt fs = Ok es ->
  exists c fs', fill_form datefmt j fs = Ok (c, fs') /\ export_form datefmt fs' = Ok es.
Proof.
  intros j. induction fs as [|f t IH]; intros es Hall Hc He.
  - simpl in *. eexists; eexists; split; [reflexivity|exact He].
  - simpl in He, Hc. apply andb_true_iff in Hc as [Hcf Hct].
    destruct (export_field datefmt f) as [e|] eqn:Ee; [|discriminate].
    destruct (export_form datefmt t) as [r|] eqn:Er; [|discriminate].
    inversion He; subst es.
    destruct (Hall f (or_introl eq_refl)) as [e' [Ee' El]]. rewrite Ee in Ee'. inversion Ee'; subst e'.
    destruct (fill_field_exported j f e Ee El Hcf) as [c [f' [Hf Hx]]].
    destruct (IH r (fun g Hg => Hall g (or_intror Hg)) Hct eq_refl) as [c' [t' [Ht Hxt]]].
    simpl. rewrite Hf, Ht. eexists; eexists; split; [reflexivity|]. simpl. now rewrite Hx, Hxt.
Qed.

(* Filling a form with the values just exported from it: either the API rejects the data (nothing is
   written) or the filled form exports exactly the same JSON. form.FillForm itself never fails on it. *)
Theorem fill_exported_keeps_values : forall fs j,
  keys_distinct fs -> forallb clean fs = true -> export_form datefmt fs = Ok j ->
  (exists c fs', fill_form datefmt j fs = Ok (c, fs') /\ export_form datefmt fs' = Ok j) /\
  (forall c fs', api_fill datefmt fs j = Ok (c, fs') -> export_form datefmt fs' = Ok j).
Proof.
  intros fs j Hk Hc He.
  destruct (fill_form_exported j fs j (lookup_export fs j Hk He) Hc He) as [c [fs' [Hf Hx]]].
  split; [eauto|]. intros c2 fs2 Ha. unfold api_fill in Ha.
  destruct (forallb validate_field j); [|discriminate]. rewrite Hf in Ha. inversion Ha; subst. exact Hx.
Qed.

(* ------------------------------------------------------------------------------------------ *)
(* B. filling with valid values                                                               *)

Lemma cb_on_yes : cb_on (Some sYes) = true. Proof. reflexivity. Qed.
Lemma cb_on_off : cb_on (Some sOff) = false. Proof. reflexivity. Qed.

Lemma cb_on_name : forall y, y <> [] -> y <> sOff -> cb_on (Some y) = true.
Proof.
  intros y H1 H2. unfold cb_on. destruct y as [|c y]; [congruence|]. cbn [is_nil negb andb].
  apply negb_true_iff. now apply str_eqb_neq.
Qed.

(* an unlocked (or non-list) field filled with a valid entry: no error, and the next export reports
   exactly the entry's value and lock flag *)
Lemma fill_field_valid : forall j f e,
  lookup (pkind f) (pid f) (pname f) j = Some e -> valid_for f e ->
  (plocked f = false \/ pkind f <> KLb) ->
  exists c f' e', fill_field datefmt j f = Ok (c, f') /\ export_field datefmt f' = Ok e' /\
                  jvalue e' = jvalue e /\ jlocked e' = jlocked e.
Proof.
  intros j f e Hl Hv Hu. pose proof (lookup_kind _ _ _ _ _ Hl) as Hk.
  destruct f as [id name locked ml maxlen jsfmt v dv|id name locked v dv asn
    |id name locked raw kids v dv|id name locked raw v dv|id name locked multi raw v dv]; simpl in *.
  - (* text / date: the value is reported, under whichever kind the new value makes the field *)
    unfold fill_tx. rewrite Hl.
    assert (Hval : jvalue e = VStr (jvalue_str e)).
    { destruct e; simpl in *; try reflexivity; destruct (tx_format datefmt jsfmt v dv); discriminate. }
    destruct (str_eqb (jvalue_str e) (ostr v)) eqn:Eq.
    + apply str_eqb_eq in Eq.
      destruct (tx_format datefmt jsfmt v dv) as [fm|] eqn:Ef;
        eexists; eexists; eexists; (split; [reflexivity|]); simpl; rewrite Ef; (split; [reflexivity|]); simpl;
        rewrite Hval, Eq; auto.
    + destruct (tx_format datefmt jsfmt (Some (jvalue_str e)) dv) as [fm|] eqn:Ef;
        eexists; eexists; eexists; (split; [reflexivity|]); simpl; rewrite Ef; (split; [reflexivity|]); simpl;
        rewrite Hval; auto.
  - (* check box *)
    unfold fill_cb. rewrite Hl.
    assert (Hval : jvalue e = VBool (jvalue_bool e)) by (destruct e; simpl in *; try reflexivity; discriminate).
    destruct (Bool.eqb (jvalue_bool e) (cb_on v)) eqn:Eq.
    + apply eqb_prop in Eq. eexists; eexists; eexists; split; [reflexivity|]. simpl. split; [reflexivity|].
      simpl. rewrite Hval, Eq. auto.
    + destruct asn as [|y|]; [| |contradiction].
      * eexists; eexists; eexists; split; [reflexivity|]. simpl. split; [reflexivity|]. simpl. rewrite Hval.
        destruct (jvalue_bool e); auto.
      * destruct Hv as [Hy1 Hy2]. eexists; eexists; eexists; split; [reflexivity|]. simpl. split; [reflexivity|]. simpl.
        pose proof (cb_on_name y Hy1 Hy2) as Hy. unfold cb_on in Hy.
        rewrite Hval. destruct (jvalue_bool e); [rewrite Hy|]; auto.
  - (* radio group *)
    unfold fill_rb. rewrite Hl.
    assert (Hval : jvalue e = VStr (jvalue_str e)) by (destruct e; simpl in *; try reflexivity; discriminate).
    destruct Hv as [Hin [Hno [Hlen Hdv]]]. unfold rb_options in Hin, Hdv.
    set (v0 := jvalue_str e) in *.
    assert (Hoff : str_eqb v0 sOff = false) by now apply str_eqb_neq.
    destruct (is_nil (parse_options raw)) eqn:En.
    + (* appearance state names *)
      assert (R : forall s o, resolve_option s o false = Ok s).
      { intros s o. unfold resolve_option. now rewrite andb_false_r. }
      apply is_nil_true in En. rewrite En. cbn [index_of].
      assert (X : forall v', (match v' with Some s => if str_eqb s sOff then [] else s | None => [] end) = v0 ->
                  exists e', export_field datefmt (PRb id name (jlocked e) raw kids v' dv) = Ok e' /\
                             jvalue e' = jvalue e /\ jlocked e' = jlocked e).
      { intros v' Hv'. simpl. unfold rb_options. rewrite En. cbn [is_nil].
        destruct dv as [sd|]; [rewrite R|]; (destruct v' as [sv|]; [rewrite R|]);
          eexists; (split; [reflexivity|]); simpl; rewrite Hval; (split; [|reflexivity]); f_equal.
        - destruct (str_eqb sv sOff) eqn:E1; [subst v0; exact Hv'|exact Hv'].
        - change (str_eqb [] sOff) with false. cbv iota. exact Hv'.
        - destruct (str_eqb sv sOff) eqn:E1; [subst v0; exact Hv'|exact Hv'].
        - change (str_eqb [] sOff) with false. cbv iota. exact Hv'. }
      match goal with |- context [if ?b then Ok (xorb _ _, _) else _] => destruct b eqn:Eq end.
      * apply str_eqb_eq in Eq. destruct (X v (eq_sym Eq)) as [e' He']. eexists; eexists; exists e'. split; [reflexivity|exact He'].
      * destruct (X (Some v0)) as [e' He']; [now rewrite Hoff|]. eexists; eexists; exists e'. split; [reflexivity|exact He'].
    + (* explicit /Opt *)
      cbn [fst] in Hin. set (opts := parse_options raw) in *.
      destruct (index_of_mem v0 opts 0%N (proj2 (mem_In _ _) Hin)) as [i Hi]. rewrite Hi.
      destruct (index_of_spec _ _ _ _ Hi) as [_ [Hlt Hnth]]. rewrite N.sub_0_r in Hlt, Hnth.
      assert (X : forall v', (exists s, v' = Some s /\ resolve_option s opts true = Ok v0) ->
                  exists e', export_field datefmt (PRb id name (jlocked e) raw kids v' dv) = Ok e' /\
                             jvalue e' = jvalue e /\ jlocked e' = jlocked e).
      { intros v' [s [-> Hs]]. simpl. unfold rb_options. fold opts. rewrite En.
        destruct (match dv with Some s0 => resolve_option s0 opts true | None => Ok [] end) as [d|] eqn:Ed.
        - rewrite Hs. eexists; split; [reflexivity|]. simpl. rewrite Hval, Hoff. auto.
        - exfalso. destruct dv as [sd|]; [|discriminate]. now apply Hdv. }
      match goal with |- context [if ?b then Ok (xorb _ _, _) else _] => destruct b eqn:Eq end.
      * apply str_eqb_eq in Eq.
        destruct (X v) as [e' He'].
        { destruct v as [n|]; [|exfalso; now apply (itoa_not_nil i)].
          destruct (str_eqb n sOff); [exfalso; now apply (itoa_not_nil i)|].
          exists n. split; [reflexivity|]. rewrite <- Eq. rewrite resolve_explicit_index by assumption. now rewrite Hnth. }
        eexists; eexists; exists e'. split; [reflexivity|exact He'].
      * destruct (X (Some (itoa i))) as [e' He'].
        { eexists. split; [reflexivity|]. rewrite resolve_explicit_index by assumption. now rewrite Hnth. }
        eexists; eexists; exists e'. split; [reflexivity|exact He'].
  - (* combo box *)
    unfold fill_co. rewrite Hl.
    assert (Hval : jvalue e = VStr (jvalue_str e)) by (destruct e; simpl in *; try reflexivity; discriminate).
    set (v0 := jvalue_str e) in *.
    assert (Ht : trim_space v0 = v0).
    { destruct Hv as [->|Hin]; [reflexivity|]. now apply (parse_options_spec raw). }
    destruct (str_eqb v0 (ostr v)) eqn:Eq.
    + apply str_eqb_eq in Eq. eexists; eexists; eexists; split; [reflexivity|]. simpl. split; [reflexivity|]. simpl.
      rewrite <- Eq, Ht, Hval. auto.
    + destruct (mem v0 (parse_options raw)) eqn:Em.
      * eexists; eexists; eexists; split; [reflexivity|]. simpl. split; [reflexivity|]. simpl. rewrite Ht, Hval. auto.
      * destruct Hv as [E0|Hin]; [|apply mem_In in Hin; congruence].
        eexists; eexists; eexists; split; [reflexivity|]. simpl. split; [reflexivity|]. simpl. rewrite Hval, E0. auto.
  - (* list box (not locked) *)
    destruct Hu as [Hu|Hu]; [|congruence]. subst locked.
    unfold fill_lb. rewrite Hl.
    assert (Hval : jvalue e = VList (jvalue_list e)) by (destruct e; simpl in *; try reflexivity; discriminate).
    set (vs := jvalue_list e) in *. destruct Hv as [Hsub Hsingle].
    destruct multi.
    + destruct (strs_eqb (parse_sla v) vs) eqn:Eq.
      * apply strs_eqb_eq in Eq. eexists; eexists; eexists; split; [reflexivity|]. simpl. split; [reflexivity|]. simpl.
        rewrite Eq, Hval. auto.
      * eexists; eexists; eexists; split; [reflexivity|]. simpl. split; [reflexivity|]. simpl. rewrite Hval.
        destruct vs as [|x vs']; [auto|]. cbn [is_nil parse_sla]. rewrite (parse_options_fixed raw) by exact Hsub. auto.
    + destruct (Hsingle eq_refl) as [[x Hx]|Hx].
      * rewrite Hx in *.
        assert (Hxin : In x (parse_options raw)) by (apply Hsub; now left).
        destruct (parse_options_spec raw x Hxin) as [Hxt _].
        destruct (strs_eqb (match v with LStr s => [s] | _ => [] end) [x]) eqn:Eq.
        -- apply strs_eqb_eq in Eq. destruct v as [|s|l]; try discriminate. inversion Eq; subst s.
           eexists; eexists; eexists; split; [reflexivity|]. simpl. split; [reflexivity|]. simpl. rewrite Hxt, Hval. auto.
        -- rewrite (proj2 (mem_In _ _) Hxin).
           eexists; eexists; eexists; split; [reflexivity|]. simpl. split; [reflexivity|]. simpl. rewrite Hxt, Hval. auto.
      * rewrite Hx in *. destruct v as [|s|l]; cbn [strs_eqb];
          eexists; eexists; eexists; (split; [reflexivity|]); simpl; (split; [reflexivity|]); simpl; rewrite Hval; auto.
Qed.

(* ------------------------------------------------------------------------------------------ *)
(* C. locked fields                                                                            *)

(* a locked list box keeps its value whatever the fill data says *)
Lemma locked_listbox_keeps_value : forall j id name multi raw v dv c f',
  fill_field datefmt j (PLb id name true multi raw v dv) = Ok (c, f') ->
  exists l, f' = PLb id name l multi raw v dv.
Proof.
  intros j id name multi raw v dv c f' H. simpl in H. unfold fill_lb in H.
  destruct (lookup KLb id name j) as [e|]; inversion H; eauto.
Qed.

(* ------------------------------------------------------------------------------------------ *)
(* D. "no form fields affected" really means nothing changed                                   *)

Lemma xorb_false_eq : forall a b, xorb a b = false -> b = a.
Proof. intros [] []; simpl; intro H; try reflexivity; discriminate. Qed.

Lemma fill_field_noop : forall j f f', fill_field datefmt j f = Ok (false, f') -> f' = f.
Proof.
  intros j f f' H.
  destruct f as [id name locked ml maxlen jsfmt v dv|id name locked v dv asn
    |id name locked raw kids v dv|id name locked raw v dv|id name locked multi raw v dv]; simpl in H.
  - unfold fill_tx in H. destruct (lookup _ id name j) as [e|]; [|now inversion H].
    destruct (str_eqb (jvalue_str e) (ostr v)); inversion H as [[Hx Hf]]. apply xorb_false_eq in Hx. now rewrite Hx.
  - unfold fill_cb in H. destruct (lookup _ id name j) as [e|]; [|now inversion H].
    destruct (Bool.eqb (jvalue_bool e) (cb_on v)).
    + inversion H as [[Hx Hf]]. apply xorb_false_eq in Hx. now rewrite Hx.
    + destruct asn; inversion H.
  - unfold fill_rb in H. destruct (lookup _ id name j) as [e|]; [|now inversion H].
    match type of H with (if ?b then _ else _) = _ => destruct b end; inversion H as [[Hx Hf]].
    apply xorb_false_eq in Hx. now rewrite Hx.
  - unfold fill_co in H. destruct (lookup _ id name j) as [e|]; [|now inversion H].
    destruct (str_eqb (jvalue_str e) (ostr v)).
    + inversion H as [[Hx Hf]]. apply xorb_false_eq in Hx. now rewrite Hx.
    + destruct (mem (jvalue_str e) (parse_options raw)); inversion H.
  - unfold fill_lb in H. destruct (lookup _ id name j) as [e|]; [|now inversion H].
    destruct locked.
    + inversion H as [[Hx Hf]]. apply negb_false_iff in Hx. now rewrite Hx.
    + match type of H with (if ?b then _ else _) = _ => destruct b end.
      * inversion H as [[Hx Hf]]. now rewrite Hx.
      * destruct multi; [inversion H|]. destruct (jvalue_list e); inversion H.
Qed.

Theorem fill_noop_keeps_form : forall j fs fs', fill_form datefmt j fs = Ok (false, fs') -> fs' = fs.
Proof.
  intros j. induction fs as [|f t IH]; intros fs' H; simpl in H.
  - now inversion H.
  - destruct (fill_field datefmt j f) as [[c f']|] eqn:Ef; [|discriminate].
    destruct (fill_form datefmt j t) as [[c' t']|] eqn:Et; [|discriminate].
    inversion H as [[Hc Hf]]. apply orb_false_iff in Hc as [-> ->].
    now rewrite (fill_field_noop _ _ _ Ef), (IH _ eq_refl).
Qed.

(* ------------------------------------------------------------------------------------------ *)
(* B'. whole forms                                                                             *)

Lemma locked_listbox_field : forall j f, pkind f = KLb -> plocked f = true ->
  exists c f' e0 e', fill_field datefmt j f = Ok (c, f') /\ export_field datefmt f = Ok e0 /\
                     export_field datefmt f' = Ok e' /\ jvalue e' = jvalue e0.
Proof.
  intros j f Hk Hlk.
  destruct f as [id name locked ml maxlen jsfmt v dv|id name locked v dv asn
    |id name locked raw kids v dv|id name locked raw v dv|id name locked multi raw v dv]; simpl in *;
    try discriminate; [destruct (tx_format datefmt jsfmt v dv); discriminate|].
  subst locked. unfold fill_lb.
  destruct (lookup KLb id name j) as [e|]; destruct multi;
    eexists; eexists; eexists; eexists; (split; [reflexivity|]); (split; [reflexivity|]); (split; [reflexivity|]); reflexivity.
Qed.

(* what the fill data must offer a field / what the export after the fill says about it *)
Definition fill_pre (j : list jfield) (f : pfield) : Prop :=
  (exists e, lookup (pkind f) (pid f) (pname f) j = Some e /\ valid_for f e /\ (plocked f = false \/ pkind f <> KLb))
  \/ (pkind f = KLb /\ plocked f = true).
Definition fill_post (j : list jfield) (f : pfield) (e' : jfield) : Prop :=
  (exists e, lookup (pkind f) (pid f) (pname f) j = Some e /\ (plocked f = false \/ pkind f <> KLb) /\
             jvalue e' = jvalue e /\ jlocked e' = jlocked e)
  \/ (pkind f = KLb /\ plocked f = true /\ exists e0, export_field datefmt f = Ok e0 /\ jvalue e' = jvalue e0).

Theorem fill_valid_reports_values : forall j fs,
  (forall f, In f fs -> fill_pre j f) ->
  exists c fs' es, fill_form datefmt j fs = Ok (c, fs') /\ export_form datefmt fs' = Ok es /\
                   Forall2 (fill_post j) fs es.
Proof.
  intros j. induction fs as [|f t IH]; intro Hpre.
  - exists false, [], []. simpl. repeat split; constructor.
  - destruct (IH (fun g Hg => Hpre g (or_intror Hg))) as [c' [t' [es [Ht [Hx HF]]]]].
    destruct (Hpre f (or_introl eq_refl)) as [[e [Hl [Hv Hu]]]|[Hk Hlk]].
    + destruct (fill_field_valid j f e Hl Hv Hu) as [c [f' [e' [Hf [He' [Hval Hlock]]]]]].
      exists (c || c'), (f' :: t'), (e' :: es). simpl. rewrite Hf, Ht, He', Hx. repeat split.
      constructor; [|exact HF]. left. exists e. auto.
    + destruct (locked_listbox_field j f Hk Hlk) as [c [f' [e0 [e' [Hf [He0 [He' Hval]]]]]]].
      exists (c || c'), (f' :: t'), (e' :: es). simpl. rewrite Hf, Ht, He', Hx. repeat split.
      constructor; [|exact HF]. right. repeat split; try assumption. exists e0. auto.
Qed.

End WithDateDetection.
