#!/bin/sh
# usage: seed_auto.sh <prop> <name> <outdir> [extra checks csv]
# verify a red-team change (suite + checks) and run its demonstration with / without the patch.
P=$1; N=$2; OUT=$3; EXTRA=$4
cd /verif
CHK=$P; [ -n "$EXTRA" ] && CHK="$P,$EXTRA"
python3 lib/seed_verify.py $P $N $OUT --checks $CHK 2>&1 | grep -E "^   (VIOLATION|OK |FAIL )|^C[0-9]+$|baseline|patch does not" | cut -c1-150
CMD=$(python3 -c "import json;print(json.load(open('$OUT/meta.json')).get('demo_cmd',''))")
if echo "$CMD" | grep -q "go test"; then
  RX=$(echo "$CMD" | grep -oE "\-run +['\"]?[A-Za-z0-9_|^$.*()]+" | head -1 | sed -E "s/-run +['\"]?//")
  PKG=$(echo "$CMD" | grep -oE "\./(pkg|cmd|internal)/[A-Za-z0-9_/]+" | tail -1 | sed 's#^\./##; s#/$##')
  FLAGS=""; echo "$CMD" | grep -q -- "-race" && FLAGS="-race"
  GOTESTFLAGS=$FLAGS lib/seed_demo.sh $N $P $OUT test "$PKG" "$RX" 2>&1 | cut -c1-220
elif echo "$CMD" | grep -q "run.sh"; then
  echo "custom demo (run.sh): run manually"; 
else
  lib/seed_demo.sh $N $P $OUT standalone 2>&1 | cut -c1-220
fi
git -C /repo worktree remove --force /tmp/sv-$N 2>/dev/null
