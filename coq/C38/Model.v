(* C38 — executable model of pdfcpu's watermark insertion / removal / detection on page content.
   Hand transcription of /repo/pkg/pdfcpu/stamp.go:
     wmContent, patchFirstContentStreamForWatermark, newContentStreamForWatermark,
     insertPageContentsForWM, patchPageWatermarkContentArray, updatePageContentsForWM,
     removeArtifacts, removeArtifactsFromContentArray, removeArtifacts1, locatePageContentAndResourceDict,
     removePageWatermarks, RemoveWatermarks, detectArtifacts, detectArtifactsFromContentArray,
     findPageWatermarks, detectPageTreeWatermarks, DetectWatermarks.
   Content streams are byte lists (list N); strings.Index is index_split.  NO proofs in this file. *)
From Coq Require Import List NArith String Ascii Bool.
Import ListNotations.
Open Scope N_scope.

Definition bytes := list N.

Fixpoint bytes_of_string (s : string) : bytes :=
  match s with
  | EmptyString => []
  | String a r => N_of_ascii a :: bytes_of_string r
  end.

(* strings.HasPrefix(s, p) *)
Fixpoint prefixb (p s : bytes) : bool :=
  match p, s with
  | [], _ => true
  | a :: p', b :: s' => N.eqb a b && prefixb p' s'
  | _ :: _, [] => false
  end.

(* i := strings.Index(s, p): None when i < 0, otherwise Some (s[:i], s[i:]) *)
Fixpoint index_split (p s : bytes) {struct s} : option (bytes * bytes) :=
  if prefixb p s then Some ([], s)
  else match s with
       | [] => None
       | x :: t => match index_split p t with
                   | Some (a, b) => Some (x :: a, b)
                   | None => None
                   end
       end.

Definition containsb (p s : bytes) : bool :=
  match index_split p s with Some _ => true | None => false end.

(* ---- constants of stamp.go ---- *)
Definition marker : bytes :=
  Eval vm_compute in bytes_of_string "/Artifact <</Subtype /Watermark /Type /Pagination >>BDC".
Definition emc : bytes := Eval vm_compute in bytes_of_string "EMC".
Definition s_q_open : bytes := Eval vm_compute in bytes_of_string " q ".      (* " q " *)
Definition s_q_close : bytes := Eval vm_compute in bytes_of_string " Q ".     (* " Q " *)
Definition s_q_close2 : bytes := Eval vm_compute in bytes_of_string " Q".     (* " Q" *)
Definition s_sp : bytes := [32].
Definition s_bdc_q : bytes := Eval vm_compute in bytes_of_string " q ".
Definition s_cm : bytes := Eval vm_compute in bytes_of_string " cm /".
Definition s_gs : bytes := Eval vm_compute in bytes_of_string " gs /".
Definition s_do : bytes := Eval vm_compute in bytes_of_string " Do Q ".
Definition p_gs : bytes := Eval vm_compute in bytes_of_string "/GS".
Definition p_fm : bytes := Eval vm_compute in bytes_of_string "/Fm".
Definition suf_gs : bytes := Eval vm_compute in bytes_of_string " gs".
Definition suf_do : bytes := Eval vm_compute in bytes_of_string " Do".
Definition id_gs : bytes := Eval vm_compute in bytes_of_string "GS".
Definition id_fm : bytes := Eval vm_compute in bytes_of_string "Fm".

(* wmContent: " /Artifact <</Subtype /Watermark /Type /Pagination >>BDC q %.5f %.5f %.5f %.5f %.5f %.5f cm /%s gs /%s Do Q EMC "
   mtx stands for the six formatted numbers (separated by single spaces); float formatting is not modelled. *)
Definition wm_body (mtx gs xo : bytes) : bytes :=
  s_bdc_q ++ mtx ++ s_cm ++ gs ++ s_gs ++ xo ++ s_do.
Definition wm_content (mtx gs xo : bytes) : bytes :=
  s_sp ++ marker ++ wm_body mtx gs xo ++ emc ++ s_sp.

(* patchFirstContentStreamForWatermark; rot = None when wm.PageRot == 0, otherwise the bytes of
   model.ContentBytesForPageRotation *)
Definition rot_bytes (rot : option bytes) : bytes := match rot with Some r => r | None => [] end.

Definition patch_first (onTop : bool) (rot : option bytes) (wmbb c : bytes) (isLast : bool) : bytes :=
  if onTop then
    let c1 := s_q_open ++ rot_bytes rot ++ c in
    if isLast then c1 ++ s_q_close ++ wmbb else c1
  else
    match rot with
    | None => wmbb ++ c
    | Some r => s_q_open ++ r ++ c ++ (if isLast then s_q_close2 else [])
    end.

(* newContentStreamForWatermark *)
Definition new_stream (onTop : bool) (rot : option bytes) (wmbb : bytes) : bytes :=
  if onTop then s_q_close ++ wmbb
  else match rot with Some _ => s_q_close | None => [] end.

(* ---- removeArtifacts ---- *)

(* i := Index(t, pre); if i > 0 { j := i+3; k := Index(t[j:], suf); if k > 0 { ids = append(ids, idp + t[j:j+k]) } } *)
Definition res_id (pre suf idp t : bytes) : list bytes :=
  match index_split pre t with
  | Some (_ :: _, b) =>
      match index_split suf (skipn 3 b) with
      | Some ((_ :: _) as x, _) => [idp ++ x]
      | _ => []
      end
  | _ => []
  end.

(* one iteration of the for-loop; None = break *)
Definition remove_step (s : bytes) : option (bytes * list bytes * list bytes) :=
  match index_split marker s with
  | None => None
  | Some (a, b) =>
      match index_split emc b with
      | None => None
      | Some (t, r) =>
          Some (a ++ skipn 3 r, res_id p_gs suf_gs id_gs t, res_id p_fm suf_do id_fm t)
      end
  end.

Record rm_result := { rm_found : bool; rm_content : bytes; rm_gs : list bytes; rm_fm : list bytes }.

(* the loop, with the list [fuel] as explicit fuel; None = out of fuel (excluded by theorem) *)
Fixpoint remove_loop (fuel : bytes) (s : bytes) (patched : bool) (gs fm : list bytes) : option rm_result :=
  match remove_step s with
  | None => Some {| rm_found := patched; rm_content := s; rm_gs := gs; rm_fm := fm |}
  | Some (s', g, f) =>
      match fuel with
      | [] => None
      | _ :: fuel' => remove_loop fuel' s' true (gs ++ g) (fm ++ f)
      end
  end.

Definition remove_artifacts (s : bytes) : option rm_result := remove_loop s s false [] [].

(* detectArtifacts *)
Definition detect_artifacts (s : bytes) : bool := containsb marker s.

(* ---- page level ---- *)
Inductive contents :=
| CNone                       (* page dict without /Contents *)
| CStream (c : bytes)         (* a single content stream *)
| CArray (a : list bytes).    (* an array of content streams *)

(* addPageWatermarkContents = insertPageContentsForWM / updatePageContentsForWM / patchPageWatermarkContentArray.
   Assumes no stream object is shared between pages (wm.Objs never hits). *)
Definition add_page (onTop : bool) (rot : option bytes) (wmbb : bytes) (ct : contents) : contents :=
  match ct with
  | CNone => CStream wmbb
  | CStream c => CStream (patch_first onTop rot wmbb c true)
  | CArray [] => CArray []
  | CArray [c] => CArray [patch_first onTop rot wmbb c true]
  | CArray (c :: rest) => CArray (patch_first onTop rot wmbb c false :: rest ++ [new_stream onTop rot wmbb])
  end.

(* several AddWatermarks calls, one after the other, on the same page (unrotated) *)
Fixpoint add_seq (adds : list (bool * bytes)) (ct : contents) : contents :=
  match adds with
  | [] => ct
  | (onTop, wmbb) :: r => add_seq r (add_page onTop None wmbb ct)
  end.

Inductive page_result :=
| PFuel                                   (* model ran out of fuel: never happens *)
| PNoContents                             (* "page %d: no page watermark found" *)
| POk (r : bool) (ct : contents) (gs fm : list bytes).

Definition split_last (a : list bytes) : option (list bytes * bytes) :=
  match rev a with
  | [] => None
  | l :: m => Some (rev m, l)
  end.

(* removePageWatermark's content part: removeArtifacts1 / removeArtifactsFromContentArray *)
Definition remove_page (ct : contents) : page_result :=
  match ct with
  | CNone => PNoContents
  | CStream c =>
      match remove_artifacts c with
      | None => PFuel
      | Some r => POk (rm_found r) (CStream (rm_content r)) (rm_gs r) (rm_fm r)
      end
  | CArray [] => POk false (CArray []) [] []
  | CArray [c] =>
      match remove_artifacts c with
      | None => PFuel
      | Some r => POk (rm_found r) (CArray [rm_content r]) (rm_gs r) (rm_fm r)
      end
  | CArray (c :: rest) =>
      match remove_artifacts c with
      | None => PFuel
      | Some r0 =>
          match split_last rest with
          | None => PFuel (* unreachable: rest is not empty *)
          | Some (mid, l) =>
              match remove_artifacts l with
              | None => PFuel
              | Some r1 =>
                  POk (rm_found r0 || rm_found r1)
                      (CArray (rm_content r0 :: mid ++ [rm_content r1]))
                      (rm_gs r0 ++ rm_gs r1) (rm_fm r0 ++ rm_fm r1)
              end
          end
      end
  end.

(* findPageWatermarks / detectArtifactsFromContents / detectArtifactsFromContentArray *)
Definition detect_page (ct : contents) : bool :=
  match ct with
  | CNone => false
  | CStream c => detect_artifacts c
  | CArray [] => false
  | CArray [c] => detect_artifacts c
  | CArray (c :: rest) =>
      detect_artifacts c ||
      match split_last rest with Some (_, l) => detect_artifacts l | None => false end
  end.

(* what a PDF consumer sees: the streams of an array concatenated, separated by white space *)
Fixpoint join_streams (a : list bytes) : bytes :=
  match a with
  | [] => []
  | [c] => c
  | c :: rest => c ++ 10 :: join_streams rest
  end.

Definition page_bytes (ct : contents) : bytes :=
  match ct with
  | CNone => []
  | CStream c => c
  | CArray a => join_streams a
  end.

(* every stream of the page *)
Definition streams_of (ct : contents) : list bytes :=
  match ct with CNone => [] | CStream c => [c] | CArray a => a end.

Definition clean_page (ct : contents) : bool :=
  forallb (fun c => negb (containsb marker c)) (streams_of ct).

(* ---- document level ---- *)
Record page := { pg_res : bool;        (* the page dict has its own /Resources entry *)
                 pg_ct : contents }.

Record doc := { d_ocg : bool;          (* the catalog lists an OCG named Watermark or Background *)
                d_pages : list page }.

Fixpoint add_pages (onTop : bool) (wmbb : bytes) (sel : list bool) (ps : list page) : list page :=
  match ps with
  | [] => []
  | p :: ps' =>
      let s := match sel with [] => false | b :: _ => b end in
      (if s then {| pg_res := true; pg_ct := add_page onTop None wmbb (pg_ct p) |} else p)
      :: add_pages onTop wmbb (tl sel) ps'
  end.

(* AddWatermarks on an unrotated document; sel = selection mask (page i selected iff nth i) *)
Definition add_doc (onTop : bool) (wmbb : bytes) (sel : list bool) (d : doc) : doc :=
  {| d_ocg := true; d_pages := add_pages onTop wmbb sel (d_pages d) |}.

Inductive doc_error := ENoOCG | ENoResources | ENoContents | ENoWatermark | EFuel.
Inductive doc_result := DErr (e : doc_error) | DOk (d : doc).

(* removePageWatermarks: pages in ascending order, stop at the first error *)
Fixpoint remove_pages (sel : list bool) (ps : list page) (removed : bool) : doc_error + (list page * bool) :=
  match ps with
  | [] => inr ([], removed)
  | p :: ps' =>
      let s := match sel with [] => false | b :: _ => b end in
      if s then
        if negb (pg_res p) then inl ENoResources
        else match remove_page (pg_ct p) with
             | PFuel => inl EFuel
             | PNoContents => inl ENoContents
             | POk found ct _ _ =>
                 match remove_pages (tl sel) ps' (removed || found) with
                 | inl e => inl e
                 | inr (qs, r) => inr ({| pg_res := true; pg_ct := ct |} :: qs, r)
                 end
             end
      else match remove_pages (tl sel) ps' removed with
           | inl e => inl e
           | inr (qs, r) => inr (p :: qs, r)
           end
  end.

(* RemoveWatermarks *)
Definition remove_doc (sel : list bool) (d : doc) : doc_result :=
  if negb (d_ocg d) then DErr ENoOCG
  else match remove_pages sel (d_pages d) false with
       | inl e => DErr e
       | inr (ps, removed) => if removed then DOk {| d_ocg := true; d_pages := ps |} else DErr ENoWatermark
       end.

(* DetectWatermarks *)
Definition detect_doc (d : doc) : bool :=
  d_ocg d && existsb (fun p => detect_page (pg_ct p)) (d_pages d).

(* ---- the page tree ---- *)
(* detectPageTreeWatermarks / detectPageTreeChildWatermarks: the kids of a /Pages node are visited in order;
   the walk at every level stops as soon as the shared flag ctx.Watermarked is set; a /Page child
   overwrites the flag with the result of findPageWatermarks; a /Pages child is walked recursively. *)
Inductive ptree := PLeaf (p : page) | PNode (kids : list ptree).

Fixpoint walk_tree (t : ptree) (w : bool) : bool :=
  match t with
  | PLeaf p => detect_page (pg_ct p)
  | PNode kids =>
      (fix walk_kids (ks : list ptree) (w : bool) : bool :=
         match ks with
         | [] => w
         | k :: r => if w then w else walk_kids r (walk_tree k w)
         end) kids w
  end.

(* pages in document order (what ctx.PageDict(pageNr) numbers) *)
Fixpoint flatten (t : ptree) : list page :=
  match t with
  | PLeaf p => [p]
  | PNode kids => flat_map flatten kids
  end.

Record tdoc := { t_ocg : bool; t_root : list ptree }.   (* the kids of the root /Pages node *)

(* DetectWatermarks on a document with a page tree *)
Definition detect_tdoc (d : tdoc) : bool := t_ocg d && walk_tree (PNode (t_root d)) false.
Definition flat_doc (d : tdoc) : doc := {| d_ocg := t_ocg d; d_pages := flat_map flatten (t_root d) |}.
