open Model
open Common

(* wire formats (space separated tokens inside one TAB field)
   forest  := "." | "N" title page style colour forest(kids) forest(rest)
   title   := "-" (empty) | hex bytes;  page := hex int;  style := 0..3 (2=bold, 1=italic)
   colour  := "-" | r,g,b (hex ints: float32 bit patterns) *)
let split_sp s = List.filter (fun x -> x <> "") (String.split_on_char ' ' s)

let col_of s = if s = "-" then None else
  match String.split_on_char ',' s with
  | [r; g; b] -> Some ((z_of_hex r, z_of_hex g), z_of_hex b)
  | _ -> failwith "bad colour"
let str_of_col = function
  | None -> "-"
  | Some ((r, g), b) -> hex_of_z r ^ "," ^ hex_of_z g ^ "," ^ hex_of_z b
let bytes_of s = if s = "-" then [] else bytes_of_hex s
let str_of_bytes l = if l = [] then "-" else hex_of_bytes l

let rec parse_forest toks = match toks with
  | "." :: r -> (Nil, r)
  | "N" :: t :: p :: st :: c :: r ->
      let sty = int_of_string st in
      let (kids, r1) = parse_forest r in
      let (rest, r2) = parse_forest r1 in
      (Node (bytes_of t, z_of_hex p, sty land 2 <> 0, sty land 1 <> 0, col_of c, kids, rest), r2)
  | _ -> failwith "bad forest"
let forest_of s = match parse_forest (split_sp s) with
  | (f, []) -> f
  | _ -> failwith "trailing forest tokens"

let rec print_forest buf f = match f with
  | Nil -> Buffer.add_string buf "."
  | Node (t, p, bo, it, c, kids, rest) ->
      Buffer.add_string buf (Printf.sprintf "N %s %s %d %s " (str_of_bytes t) (hex_of_z p)
        ((if bo then 2 else 0) + (if it then 1 else 0)) (str_of_col c));
      print_forest buf kids; Buffer.add_char buf ' '; print_forest buf rest
let str_of_forest f = let b = Buffer.create 256 in print_forest b f; Buffer.contents b

let str_ierr = function EInvalid -> "invalid" | EPageNotFound -> "page" | EDepthI -> "depth"
let str_rerr = function ECycle -> "cycle" | EDeref -> "deref" | EDest -> "dest" | EFirst -> "first" | EDepth -> "depth"
let str_rres = function
  | ROk f -> "ok " ^ str_of_forest f
  | RErr e -> "rerr:" ^ str_rerr e
  | RFuel -> "FUEL"

let base = n_of_int 1000
let rel (id : n) : string = string_of_int (int_of_n id - 1000)
let orel = function None -> "-" | Some id -> rel id

let dump_graph (g : graph) : string =
  String.concat ";" (List.map (fun (id, o) -> match o with
    | ODest p -> Printf.sprintf "D %s %s" (rel id) (hex_of_z p)
    | OItem it ->
        Printf.sprintf "I %s %s %s %s %s %s %s %s %s %s %s" (rel id)
          (match it.i_title with None -> "-" | Some t -> "t" ^ hex_of_bytes t)
          (match it.i_dest with DNone -> "-" | DName k -> "n" ^ hex_of_bytes k | DPage p -> "p" ^ hex_of_z p)
          (match it.i_first with FNone -> "-" | FRef c -> rel c | FBad -> "b")
          (orel it.i_last) (orel it.i_next) (orel it.i_prev) (orel it.i_parent)
          (match it.i_count with None -> "-" | Some c -> hex_of_z c)
          (str_of_col it.i_color)
          (match it.i_flags with None -> "-" | Some f -> hex_of_z f)) g)

(* graph for `read`: objects separated by ';'
   D id page | I id title dest first next colour flags
   title: - | t<hex>;  dest: - | n<hex> | p<hexpage>;  first: - | r<hexid> | b;  next: - | <hexid> *)
let tl1 s = String.sub s 1 (String.length s - 1)
let parse_obj s : n * obj = match split_sp s with
  | ["D"; id; p] -> (n_of_hex id, ODest (z_of_hex p))
  | ["I"; id; t; d; f; nx; c; fl] ->
      (n_of_hex id, OItem {
        i_title = (if t = "-" then None else Some (bytes_of_hex (tl1 t)));
        i_dest = (if d = "-" then DNone else if d.[0] = 'n' then DName (bytes_of_hex (tl1 d)) else DPage (z_of_hex (tl1 d)));
        i_first = (if f = "-" then FNone else if f = "b" then FBad else FRef (n_of_hex (tl1 f)));
        i_last = None;
        i_next = (if nx = "-" then None else Some (n_of_hex nx));
        i_prev = None; i_parent = None; i_count = None;
        i_color = col_of c;
        i_flags = (if fl = "-" then None else Some (z_of_hex fl)) })
  | _ -> failwith ("bad object " ^ s)
let graph_of s : graph =
  if s = "" || s = "-" then [] else List.map parse_obj (String.split_on_char ';' s)

let dispatch fn args = match fn, args with
  | "roundtrip", [pc; f] ->
      (match roundtrip (z_of_hex pc) (z_of_int 100) base (forest_of f) with
       | RTImportErr e -> "imperr:" ^ str_ierr e
       | RTRead (r, _) -> str_rres r)
  | "resolves", [pc; f] ->
      (match roundtrip (z_of_hex pc) (z_of_int 100) base (forest_of f) with
       | RTImportErr e -> "imperr:" ^ str_ierr e
       | RTRead (_, b) -> str_of_bool b)
  | "build", [pc; f] ->
      (match to_outline (z_of_hex pc) (z_of_int 100) base (forest_of f) with
       | IErr e -> "imperr:" ^ str_ierr e
       | IOk (g, first, _) -> "first=" ^ orel first ^ ";" ^ dump_graph g)
  | "read", [maxd; first; g] ->
      str_rres (from_outline (z_of_hex maxd) (graph_of g) empty_tree
                  (if first = "-" then None else Some (n_of_hex first)))
  | _ -> failwith ("unknown function " ^ fn)
let () = main dispatch
