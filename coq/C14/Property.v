(* C14 — Dates written by pdfcpu are valid and read back to the same instant.
   Property theorems only; each is closed by an exact lemma and followed by Print Assumptions.

   Vocabulary (coq/C14/Model.v):
     civil            = (year, month, day, hour, minute, second, zone offset in seconds): the civil
                        reading of a time.Time (package time is trusted for civil <-> instant);
     valid_civil t    = month 1..12, day 1..days_in_month, hour 0..23, minute, second 0..59
                        (what package time guarantees for any time.Time);
     in_scope t       = 0 <= year <= 9999 /\ valid_civil t /\ offset is a whole number of minutes
                        (Z.rem off 60 = 0) /\ -86400 < off < 86400;
     DateString       = model of types.DateString; DateTime = model of types.DateTime(s, false);
     iso_string ...   = D:YYYYMMDDHHmmSSOHH'mm' built from zero-padded decimal fields;
     iso_full_b       = stand-alone recogniser of that form with every field in range. *)
From PV Require Import Lib.GoInt C14.Model C14.Proofs.
Open Scope Z_scope.

(* Strict parsing of the written string yields the same civil time with the same offset, hence
   (package time) the same instant. *)
Theorem C14_date_roundtrip : forall t, in_scope t -> DateTime (DateString t) = DOk t.
Proof. exact date_roundtrip. Qed.
Print Assumptions C14_date_roundtrip.

(* The same for a time given as (instant u, location l), with package time as a parameter
   (zone_offset l u = t.Zone() at u; civil_fields = Year()..Second()): the string written from the
   offset in effect AT u in l parses back to the instant u with that offset.  The three hypotheses on
   civil_fields are the trusted facts about package time. *)
Theorem C14_date_roundtrip_located :
  forall (Loc : Type) (zone_offset : Loc -> Z -> Z) (civil_fields : Z -> Z -> civil),
  (forall u off, coff (civil_fields u off) = off) ->
  (forall u off, valid_civil (civil_fields u off)) ->
  (forall u off, unix_of (civil_fields u off) = u) ->
  forall l u,
    0 <= cy (civil_at Loc zone_offset civil_fields l u) <= 9999 ->
    Z.rem (zone_offset l u) 60 = 0 -> -86400 < zone_offset l u < 86400 ->
    exists c, DateTime (DateStringAt Loc zone_offset civil_fields l u) = DOk c /\
              unix_of c = u /\ coff c = zone_offset l u.
Proof. exact date_roundtrip_located. Qed.
Print Assumptions C14_date_roundtrip_located.

(* The written string is exactly D:YYYYMMDDHHmmSSOHH'mm' for the fields of t, with O in {+,-},
   zone hours 0..23, zone minutes 0..59 denoting t's offset. *)
Theorem C14_datestring_valid : forall t, in_scope t ->
  exists sg zh zm,
    DateString t = iso_string (cy t) (cmo t) (cd t) (ch t) (cmi t) (cs t) sg zh zm /\
    (sg = b_plus \/ sg = b_minus) /\ 0 <= zh <= 23 /\ 0 <= zm <= 59 /\
    signed_off sg zh zm = coff t.
Proof. exact datestring_valid. Qed.
Print Assumptions C14_datestring_valid.

(* ... and it is accepted by the stand-alone ISO 32000 recogniser (which the harness compares with
   its own validator on written and on mutated strings). *)
Theorem C14_datestring_iso_full : forall t, in_scope t -> iso_full_b (DateString t) = true.
Proof. exact datestring_iso_full. Qed.
Print Assumptions C14_datestring_iso_full.

(* Every full-form ISO date string with fields in range is accepted by the strict parser with the
   value it denotes (not only those DateString produces). *)
Theorem C14_iso_accepted : forall y mo d h mi s sg zh zm,
  0 <= y <= 9999 -> 1 <= mo <= 12 -> 1 <= d <= days_in_month y mo ->
  0 <= h <= 23 -> 0 <= mi <= 59 -> 0 <= s <= 59 ->
  sg = b_plus \/ sg = b_minus -> 0 <= zh <= 23 -> 0 <= zm <= 59 ->
  DateTime (iso_string y mo d h mi s sg zh zm) = DOk (Civil y mo d h mi s (signed_off sg zh zm)).
Proof. exact DateTime_iso. Qed.
Print Assumptions C14_iso_accepted.

(* Different in-scope times are written differently. *)
Theorem C14_datestring_injective : forall t1 t2, in_scope t1 -> in_scope t2 ->
  DateString t1 = DateString t2 -> t1 = t2.
Proof. exact datestring_injective. Qed.
Print Assumptions C14_datestring_injective.

(* The scope bounds are necessary in the model: five-digit years, offsets of 24h and
   offsets with seconds do not round-trip. *)
Theorem C14_scope_tight :
  DateTime (DateString (Civil 10000 1 1 0 0 0 0)) <> DOk (Civil 10000 1 1 0 0 0 0) /\
  DateTime (DateString (Civil 2024 1 1 0 0 0 86400)) <> DOk (Civil 2024 1 1 0 0 0 86400) /\
  DateTime (DateString (Civil 2024 1 1 0 0 0 (-86400))) <> DOk (Civil 2024 1 1 0 0 0 (-86400)) /\
  DateTime (DateString (Civil 2024 1 1 0 0 0 30)) <> DOk (Civil 2024 1 1 0 0 0 30).
Proof. exact scope_tight. Qed.
Print Assumptions C14_scope_tight.

(* non-vacuity: the scope is inhabited at its corners (year 0 / 9999, leap day, +-23:59) *)
Example C14_nonvacuous :
  in_scope (Civil 0 1 1 0 0 0 (-86340)) /\ in_scope (Civil 9999 12 31 23 59 59 86340) /\
  in_scope (Civil 2024 2 29 12 0 0 (-1800)) /\ ~ in_scope (Civil 2023 2 29 12 0 0 0) /\
  DateString (Civil 5 2 28 23 59 58 (-1800)) =
    [68; 58; 48; 48; 48; 53; 48; 50; 50; 56; 50; 51; 53; 57; 53; 56; 45; 48; 48; 39; 51; 48; 39]%N.
Proof.
  unfold in_scope, valid_civil. cbn. repeat split; try (intro; discriminate); try discriminate.
  intros (_ & (_ & (_ & Hd) & _) & _). apply Hd. reflexivity.
Qed.
