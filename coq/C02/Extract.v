From Coq Require Import Extraction ExtrOcamlBasic.
From PV Require Import Lib.ExtBase C01.FS C01.Model C02.Model.
Extraction "model.ml" ext_base_z ext_base_n ext_base_nat ext_base_res ext_base_list
  run_c02 run_c02_plan fs_to_list.
