From Coq Require Import Extraction ExtrOcamlBasic.
From PV Require Import Lib.ExtBase C05.Model.
Extraction "model.ml" ext_base_z ext_base_n ext_base_nat ext_base_res ext_base_list
  Path PathOr clean join2 baseOf dirOf dec attachmentName attachmentOutputPath attachmentOutputPaths
  attachmentReservationPath writeAttachments nameTooLong imageFileName fontFileName bookmarkFileName
  multiFillCSVName metadataFileName splitAlongBookmarks stagedTooLong gobFileName classRange decode encode.
