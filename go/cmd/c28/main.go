// Harness for C28: the signed-byte-range guards and the DocModified decision of pdfcpu
// against the extracted Coq model (K), plus the direct oracle (O): whenever the real code
// reports DocModified = False for a signature, its ranges must start at 0, end at the end of
// the file and exclude exactly the /Contents token.
package main

import (
	"bytes"
	"crypto/sha256"
	"fmt"
	"math"
	"os"
	"path/filepath"
	"regexp"
	"strings"

	"github.com/pdfcpu/pdfcpu/pkg/api"
	"github.com/pdfcpu/pdfcpu/pkg/pdfcpu"
	"github.com/pdfcpu/pdfcpu/pkg/pdfcpu/model"
	"github.com/pdfcpu/pdfcpu/pkg/pdfcpu/sign"
	"github.com/pdfcpu/pdfcpu/pkg/pdfcpu/types"
	"verif/cmd/c28/synth"
	"verif/vh"
)

var r *vh.Run

func ints64(l []int64) string {
	s := make([]string, len(l))
	for i, v := range l {
		s[i] = vh.Int(v)
	}
	return strings.Join(s, ",")
}

func arrOf(l []int64) types.Array {
	a := types.Array{}
	for _, v := range l {
		a = append(a, types.Integer(int(v)))
	}
	return a
}

func resBytes(b []byte, err error) string {
	if err != nil {
		if sign.VerifC28IsMalformedByteRange(err) {
			return "err"
		}
		return "fatal:" + err.Error()
	}
	return "ok:" + vh.Hex(b)
}

func tri(d int) string {
	switch d {
	case model.False:
		return "F"
	case model.True:
		return "T"
	}
	return "U"
}

func sfKey(sf string) string {
	switch sf {
	case "ETSI.RFC3161":
		return "rfc3161"
	case "ETSI.CAdES.detached":
		return "cades"
	case "adbe.pkcs7.detached":
		return "pkcs7"
	}
	return "other"
}

var subFilters = []string{"ETSI.RFC3161", "ETSI.CAdES.detached", "adbe.pkcs7.detached", "adbe.pkcs7.sha1", ""}
var sigTypes = []string{"DocTimeStamp", "Sig", ""}

func contentsArg(c *string) string {
	if c == nil {
		return "-"
	}
	return "v" + vh.Hex([]byte(*c))
}

func guard(class string, input any, f func()) {
	defer func() {
		if x := recover(); x != nil {
			r.OracleFail("c28-panic-"+class, input, "panic in implementation")
		}
	}()
	f()
}

// boundary values around n plus the int64 extremes
func boundary(n int64) []int64 {
	return []int64{0, 1, 2, n - 2, n - 1, n, n + 1, n + 2, -1, -2, math.MaxInt64, math.MaxInt64 - 1, math.MaxInt64 - n,
		math.MaxInt64 - n + 1, math.MaxInt64/2 + 1, math.MaxInt64 / 2, math.MinInt64, math.MinInt64 + 1, 1 << 62, 1 << 32, 1<<31 - 1}
}

func pureValidateByteRange() {
	vals := boundary(100)
	n := r.Pick(6000, 60000)
	for i := 0; i < n; i++ {
		var v [4]int64
		for j := range v {
			switch r.Rand.Intn(4) {
			case 0:
				v[j] = r.Rand.Int63n(300)
			case 1:
				v[j] = r.Rand.Int63()
			default:
				v[j] = vals[r.Rand.Intn(len(vals))]
			}
		}
		if r.Rand.Intn(2) == 0 {
			v[0] = 0
		}
		guard("validateByteRange", v, func() {
			t, err := sign.VerifC28ValidateByteRange(v)
			r.Case("validateByteRange", []string{vh.Int(v[0]), vh.Int(v[1]), vh.Int(v[2]), vh.Int(v[3])}, vh.ResInt(t, err))
			if err == nil {
				r.Count("class:vbr-ok")
			} else {
				r.Count("class:vbr-err")
			}
		})
		ln := 4
		switch r.Rand.Intn(6) {
		case 0:
			ln = 3
		case 1:
			ln = 5
		case 2:
			ln = r.Rand.Intn(7)
		}
		l := make([]int64, ln)
		for j := range l {
			if j < 4 {
				l[j] = v[j]
			} else {
				l[j] = r.Rand.Int63n(50)
			}
		}
		guard("byteRangeValues", l, func() {
			out, err := sign.VerifC28ByteRangeValues(arrOf(l))
			res := "err"
			if err == nil {
				res = "ok:" + ints64(out[:])
			}
			r.Case("byteRangeValues", []string{ints64(l)}, res)
		})
	}
}

const hexU = "0123456789ABCDEF"

func randHex(n int) string {
	b := make([]byte, n)
	for i := range b {
		b[i] = hexU[r.Rand.Intn(16)]
	}
	return string(b)
}

// a gap text for the contents value c: '<' digits with random white space and case '>'
func gapFor(c string, ws, lower bool) []byte {
	var b bytes.Buffer
	b.WriteByte('<')
	for i := 0; i < len(c); i++ {
		if ws && r.Rand.Intn(5) == 0 {
			b.WriteByte(" \t\n\f\r"[r.Rand.Intn(5)])
		}
		ch := c[i]
		if lower && r.Rand.Intn(2) == 0 && ch >= 'A' && ch <= 'F' {
			ch += 'a' - 'A'
		}
		b.WriteByte(ch)
	}
	if ws && r.Rand.Intn(3) == 0 {
		b.WriteByte(' ')
	}
	b.WriteByte('>')
	return b.Bytes()
}

func mutateBytes(g []byte) []byte {
	g = append([]byte{}, g...)
	switch r.Rand.Intn(9) {
	case 0:
		if len(g) > 0 {
			g = g[1:]
		}
	case 1:
		if len(g) > 0 {
			g = g[:len(g)-1]
		}
	case 2:
		g = append([]byte{"< x\n"[r.Rand.Intn(4)]}, g...)
	case 3:
		g = append(g, "> x\n"[r.Rand.Intn(4)])
	case 4:
		if len(g) > 2 {
			i := 1 + r.Rand.Intn(len(g)-2)
			g[i] = hexU[r.Rand.Intn(16)]
		}
	case 5:
		if len(g) > 2 {
			i := 1 + r.Rand.Intn(len(g)-2)
			g[i] = []byte{0, ' ', 'g', 'G', '<', '>', 0x80, 0xff, 'a', 'f', '`', '@'}[r.Rand.Intn(12)]
		}
	case 6:
		if len(g) > 2 {
			i := 1 + r.Rand.Intn(len(g)-2)
			g = append(g[:i], g[i+1:]...)
		}
	case 7:
		if len(g) > 1 {
			i := 1 + r.Rand.Intn(len(g)-1)
			g = append(g[:i], append([]byte{hexU[r.Rand.Intn(16)]}, g[i:]...)...)
		}
	case 8:
		if len(g) > 0 {
			g[r.Rand.Intn(len(g))] ^= 1 << uint(r.Rand.Intn(8))
		}
	}
	return g
}

func pureGap() {
	n := r.Pick(4000, 40000)
	for i := 0; i < n; i++ {
		c := randHex(2 * r.Rand.Intn(12))
		if r.Rand.Intn(10) == 0 {
			c = string(mutateBytes([]byte(c)))
		}
		g := gapFor(c, r.Rand.Intn(2) == 0, r.Rand.Intn(2) == 0)
		if r.Rand.Intn(3) != 0 {
			g = mutateBytes(g)
		}
		if r.Rand.Intn(40) == 0 {
			g = g[:r.Rand.Intn(3)%(len(g)+1)]
		}
		guard("contentsGapMatches", vh.Hex(g), func() {
			m := sign.VerifC28ContentsGapMatches(g, c)
			r.Case("contentsGapMatches", []string{vh.Hex(g), vh.Hex([]byte(c))}, vh.Bool(m))
			if m {
				r.Count("class:gap-match")
			} else {
				r.Count("class:gap-mismatch")
			}
		})
	}
}

// manipulated ranges derived from the covering one
func manipulate(gs, ge, n int64) []int64 {
	base := []int64{0, gs, ge, n - ge}
	v := append([]int64{}, base...)
	d := []int64{-2, -1, 1, 2}[r.Rand.Intn(4)]
	switch r.Rand.Intn(16) {
	case 0, 1:
		// covering
	case 2:
		v[r.Rand.Intn(4)] += d
	case 3:
		v[1] += d
		v[2] += d
	case 4:
		v[2] += d
		v[3] -= d
	case 5:
		v[3] += d
	case 6:
		v[r.Rand.Intn(4)] = boundary(n)[r.Rand.Intn(len(boundary(n)))]
	case 7:
		v = []int64{v[2], v[3], v[0], v[1]}
	case 8:
		v[2] = v[1] - 1 - r.Rand.Int63n(3) // overlapping
		v[3] = n - v[2]
	case 9:
		v = v[:3]
	case 10:
		v = append(v, r.Rand.Int63n(10))
	case 11:
		v[0] = 1
		v[1]--
	case 12:
		v[3] = math.MaxInt64 - v[2] + r.Rand.Int63n(2)
	case 13:
		v[1] = math.MaxInt64 - r.Rand.Int63n(2)
	case 14:
		v[r.Rand.Intn(4)] = -1 - r.Rand.Int63n(3)
	case 15:
		v[1] = 0
		v[2] = r.Rand.Int63n(3)
	}
	return v
}

type memCtx struct{ size int64 }

func pureSignedData() {
	n := r.Pick(1500, 15000)
	for i := 0; i < n; i++ {
		pre := make([]byte, 1+r.Rand.Intn(40))
		r.Rand.Read(pre)
		post := make([]byte, r.Rand.Intn(40))
		r.Rand.Read(post)
		c := randHex(2 * r.Rand.Intn(10))
		g := gapFor(c, r.Rand.Intn(3) == 0, r.Rand.Intn(3) == 0)
		if r.Rand.Intn(5) == 0 {
			g = mutateBytes(g)
		}
		f := append(append(append([]byte{}, pre...), g...), post...)
		arr := manipulate(int64(len(pre)), int64(len(pre)+len(g)), int64(len(f)))
		if r.Rand.Intn(8) == 0 {
			f = append(f, byte('\n'))
		}
		d := types.Dict{"ByteRange": arrOf(arr)}
		var cp *string
		if r.Rand.Intn(25) != 0 {
			d["Contents"] = types.HexLiteral(c)
			cp = &c
		}
		guard("signedData", vh.Hex(f), func() {
			out, err := sign.VerifC28SignedData(bytes.NewReader(f), d)
			res := resBytes(out, err)
			r.Case("signedData", []string{vh.Hex(f), ints64(arr), contentsArg(cp)}, res)
			if err == nil {
				r.Count("class:signedData-ok")
			} else {
				r.Count("class:signedData-err")
			}
			out, err = sign.VerifC28BytesForByteRange(bytes.NewReader(f), arrOf(arr))
			r.Case("bytesForByteRange", []string{vh.Hex(f), ints64(arr)}, resBytes(out, err))
		})
		// revision boundary + historical reporting on the same ranges
		incr := []int{0, 0, 1, 2, 3, -1}[r.Rand.Intn(6)]
		dts := r.Rand.Intn(4) == 0
		fsize := int64(len(f))
		if r.Rand.Intn(10) == 0 {
			fsize = []int64{-1, 0, fsize + 1, fsize - 1}[r.Rand.Intn(4)]
		}
		// the classification inputs are varied independently: the field type (dts), the sig dict's
		// /Type and /SubFilter (visible to both sites through sigDict / result.Details)
		sf := subFilters[r.Rand.Intn(len(subFilters))]
		if sf != "" {
			d["SubFilter"] = types.Name(sf)
		}
		if tn := sigTypes[r.Rand.Intn(len(sigTypes))]; tn != "" {
			d["Type"] = types.Name(tn)
		}
		guard("boundary", arr, func() {
			ctx := &model.Context{Read: &model.ReadContext{FileSize: fsize}}
			res := &model.SignatureValidationResult{}
			res.Details.SubFilter = sf
			ok := pdfcpu.VerifC28RecordSignedRevisionBoundaryEvidence(d, ctx, incr, dts, res)
			r.Case("boundaryOK", []string{vh.Int(fsize), ints64(arr), vh.Int(int64(incr)), vh.Bool(dts), sfKey(sf)}, vh.Bool(ok))
			for _, dm := range []int{model.Unknown, model.False, model.True} {
				st := model.SigTypeForm
				if dts {
					st = model.SigTypeDTS
				} else if r.Rand.Intn(3) == 0 {
					st = []int{model.SigTypePage, model.SigTypeUR}[r.Rand.Intn(2)]
				}
				res := &model.SignatureValidationResult{DocModified: dm}
				res.Details.SubFilter = sf
				res.Signature.Type = st
				pdfcpu.VerifC28ApplyHistoricalRevisionReporting(incr, st, res)
				r.Case("applyHistorical", []string{vh.Int(int64(incr)), vh.Bool(dts), sfKey(sf), tri(dm)}, tri(res.DocModified))
				r.Count("class:historical dts=" + vh.Bool(dts) + " sf=" + sfKey(sf))
			}
		})
	}
}

// ---------- oracle on the real validation ----------

func upperNoWs(b []byte) (string, bool) {
	var sb strings.Builder
	for _, c := range b {
		if strings.ContainsRune(" \t\n\f\r", rune(c)) {
			continue
		}
		if c == '<' || c == '>' {
			return "", false
		}
		if c >= 'a' && c <= 'f' {
			c -= 'a' - 'A'
		}
		sb.WriteByte(c)
	}
	return sb.String(), true
}

// fullCover: the property's own statement evaluated on (file, what the implementation saw)
func fullCover(f []byte, si synth.SigInfo) (bool, string) {
	a := si.Arr
	if a == nil || len(a) != 4 {
		return false, "ByteRange is not four integers"
	}
	n := int64(len(f))
	if a[0] != 0 {
		return false, "first range does not start at 0"
	}
	if a[1] < 0 || a[2] < a[1]+2 || a[3] < 0 || a[2] > n {
		return false, "ranges out of order"
	}
	if a[2]+a[3] != n || a[2]+a[3] < a[2] {
		return false, "second range does not end at the end of the file"
	}
	gap := f[a[1]:a[2]]
	if gap[0] != '<' || gap[len(gap)-1] != '>' {
		return false, "gap is not delimited by < >"
	}
	if si.Contents == nil {
		return false, "no /Contents"
	}
	hx, ok := upperNoWs(gap[1 : len(gap)-1])
	if !ok || hx != strings.ToUpper(*si.Contents) {
		return false, "gap digits differ from /Contents"
	}
	return true, ""
}

var nUnmodified = map[string]int{}

func checkDoc(label string, f []byte, shift int, signedDigest *[32]byte, kOK bool) {
	infos, err := synth.Validate(f, shift)
	if err != nil {
		if strings.HasPrefix(err.Error(), "PANIC") {
			r.OracleFail("c28-panic-validate", map[string]any{"label": label, "file": vh.Hex(f), "shift": shift}, err.Error())
		} else {
			r.Count("e2e:rejected-before-validation")
		}
		if infos == nil {
			return
		}
	}
	for _, si := range infos {
		if si.Result == nil {
			r.Count("e2e:no-result")
			continue
		}
		dm := si.Result.DocModified
		r.Count("e2e:docmodified-" + tri(dm))
		if dm == model.False {
			nUnmodified[label]++
			ok, why := fullCover(f, si)
			if !ok {
				r.OracleFail("c28-unmodified-without-full-cover",
					map[string]any{"label": label, "file": vh.Hex(f), "shift": shift, "byteRange": si.Arr, "increment": si.Increment},
					"DocModified=False reported but "+why)
			} else if si.Increment != 0 && !si.DTS {
				r.OracleFail("c28-unmodified-in-older-increment",
					map[string]any{"label": label, "file": vh.Hex(f), "shift": shift, "increment": si.Increment},
					"DocModified=False reported for a signature that is not in the current revision")
			} else {
				r.OracleOK()
			}
		} else {
			r.OracleOK()
		}
		// K: the model's decision for what the implementation saw
		if kOK && si.Arr != nil && signedDigest != nil {
			verdict := "T"
			if sha256.Sum256(synth.Lenient(f, si.Arr)) == *signedDigest {
				verdict = "F"
			}
			r.Case("docModified", []string{verdict, vh.Int(int64(len(f))), vh.Hex(f), ints64(si.Arr), contentsArg(si.Contents),
				vh.Int(int64(si.Increment)), vh.Bool(si.DTS), sfKey(si.SubFilter)}, tri(dm))
		}
	}
}

func e2eSynth(s *synth.Signer) {
	n := r.Pick(140, 1500)
	for i := 0; i < n; i++ {
		payload := make([]byte, r.Rand.Intn(60))
		for j := range payload {
			payload[j] = " BTETqQ0123456789.\n"[r.Rand.Intn(19)]
		}
		covering := i%3 == 0
		opt := synth.Options{Payload: payload, ExtraObjs: r.Rand.Intn(3), Lower: r.Rand.Intn(4) == 0}
		if r.Rand.Intn(4) == 0 {
			opt.PadHex = 2 * r.Rand.Intn(8)
		}
		if !covering {
			opt.Range = manipulate
		}
		d, err := synth.Build(s, opt)
		if err != nil {
			r.Count("e2e:build-failed")
			continue
		}
		f := d.Bytes
		label := "manipulated-range"
		if covering {
			label = "covering"
		}
		// post-signing manipulations of the file
		switch r.Rand.Intn(6) {
		case 0:
			f = append(append([]byte{}, f...), []byte("\n% appended\n")[:1+r.Rand.Intn(11)]...)
			label += "+appended-bytes"
		case 1:
			f = synth.Increment(f, "later")
			label += "+later-increment"
		case 2:
			// white space inside the gap instead of the last two (padding) digits, or a widened gap text
			if covering && opt.PadHex >= 2 {
				f = append([]byte{}, f...)
				f[d.GapEnd-2] = ' '
				f[d.GapEnd-3] = ' '
				label += "+gap-whitespace"
			}
		}
		r.Count("e2e:" + label)
		for _, shift := range []int{0, 1} {
			checkDoc(label, f, shift, &d.Digest, true)
		}
	}
	if nUnmodified["covering"] == 0 {
		r.OracleFail("c28-harness-baseline-never-unmodified", map[string]any{"what": "synthesised covering documents, increment presented as 0"},
			"no intact synthesised document was reported unmodified: the oracle would be vacuous")
	}
}

func e2eDTS() {
	repo := os.Getenv("VERIF_REPO")
	if repo == "" {
		repo = "/repo"
	}
	b, err := os.ReadFile(filepath.Join(repo, "pkg/samples/signatures/ETSI.CAdES.detached/testPAdES_BLTA.pdf"))
	if err != nil {
		r.Count("e2e:dts-sample-missing")
		return
	}
	var dg [32]byte
	if infos, err := synth.Validate(b, 0); err == nil {
		for _, si := range infos {
			if si.DTS && si.Arr != nil {
				dg = sha256.Sum256(synth.Lenient(b, si.Arr))
			}
		}
	}
	checkDoc("dts-sample", b, 0, &dg, false)
	if nUnmodified["dts-sample"] == 0 {
		r.OracleFail("c28-harness-baseline-never-unmodified", map[string]any{"what": "testPAdES_BLTA.pdf document time stamp"},
			"the intact document time stamp sample is not reported unmodified: the DTS oracle would be vacuous")
	}
	for i := 0; i < r.Pick(3, 12); i++ {
		f := append(append([]byte{}, b...), []byte("\n% appended\n")[:1+r.Rand.Intn(11)]...)
		checkDoc("dts-sample+appended-bytes", f, 0, &dg, false)
	}
	checkDoc("dts-sample+later-increment", synth.Increment(b, "later"), 0, &dg, false)
}

// ---------- increments that SHADOW signature dictionaries / fields ----------
var (
	reType = regexp.MustCompile(`/Type\s*/\w+`)
	reSub  = regexp.MustCompile(`/SubFilter\s*/[\w.]+`)
	reV    = regexp.MustCompile(`/V\s+\d+\s+\d+\s+R`)
)

func reshape(dict, typ, sub string) string {
	d := reType.ReplaceAllString(dict, "")
	if typ != "" {
		d = strings.Replace(d, "<<", "<< /Type /"+typ+" ", 1)
	}
	if reSub.MatchString(d) {
		d = reSub.ReplaceAllString(d, "/SubFilter /"+sub)
	} else {
		d = strings.Replace(d, "<<", "<< /SubFilter /"+sub+" ", 1)
	}
	return d
}

// shadow appends one incremental update re-defining the signature dictionary (same /ByteRange and
// /Contents; only /Type and /SubFilter change) and, depending on pos, the field:
//   dict-only   : the field stays in its historical revision
//   with-field  : the field object is re-stated too (the signature now sits in the newest revision)
//   indirection : the field is re-stated with /V pointing to a NEW object holding the reshaped dict
func shadow(b []byte, si synth.SigInfo, typ, sub, pos string) ([]byte, bool) {
	dict := synth.ObjBody(b, si.DictObjNr)
	field := synth.ObjBody(b, si.ObjNr)
	if dict == "" || !strings.Contains(dict, "/ByteRange") {
		return nil, false
	}
	objs := map[int]string{}
	nd := reshape(dict, typ, sub)
	switch pos {
	case "dict-only":
		objs[si.DictObjNr] = nd
	case "with-field":
		if field == "" || si.ObjNr == si.DictObjNr {
			return nil, false
		}
		objs[si.DictObjNr] = nd
		objs[si.ObjNr] = field
	case "indirection":
		if field == "" || !reV.MatchString(field) {
			return nil, false
		}
		fresh := 900000 + r.Rand.Intn(1000)
		objs[fresh] = nd
		objs[si.ObjNr] = reV.ReplaceAllString(field, fmt.Sprintf("/V %d 0 R", fresh))
	}
	out, err := synth.IncrementObjs(b, objs)
	return out, err == nil
}

func e2eShadow(s *synth.Signer) {
	type src struct {
		label string
		b     []byte
	}
	var srcs []src
	repo := os.Getenv("VERIF_REPO")
	if repo == "" {
		repo = "/repo"
	}
	for _, p := range []string{"ETSI.CAdES.detached/testPAdES_BLTA.pdf", "ETSI.CAdES.detached/testPAdES_BB.pdf", "adbe.pkcs7.detached/sample2.pdf"} {
		if b, err := os.ReadFile(filepath.Join(repo, "pkg/samples/signatures", p)); err == nil {
			srcs = append(srcs, src{filepath.Base(p), b})
		}
	}
	for i := 0; i < r.Pick(1, 4); i++ {
		if d, err := synth.Build(s, synth.Options{Payload: []byte("BT ET"), ExtraObjs: r.Rand.Intn(2)}); err == nil {
			srcs = append(srcs, src{"synth", d.Bytes})
		}
	}
	for _, sc := range srcs {
		infos, err := synth.Validate(sc.b, 0)
		if err != nil || infos == nil {
			r.Count("shadow:source-unusable " + sc.label)
			continue
		}
		for _, si := range infos {
			if si.DictObjNr == 0 || si.Arr == nil {
				continue
			}
			for _, typ := range sigTypes {
				for _, sub := range []string{"ETSI.RFC3161", "ETSI.CAdES.detached", "adbe.pkcs7.detached"} {
					for _, pos := range []string{"dict-only", "with-field", "indirection"} {
						f, ok := shadow(sc.b, si, typ, sub, pos)
						if !ok {
							r.Count("shadow:not-applicable " + sc.label)
							continue
						}
						label := fmt.Sprintf("shadow %s obj%d type=%s sf=%s %s", sc.label, si.DictObjNr, typ, sub, pos)
						r.Count("shadow:" + pos + " type=" + typ + " sf=" + sfKey(sub))
						for _, shift := range []int{0, 1} {
							checkDoc(label, f, shift, nil, false)
						}
					}
				}
			}
		}
	}
}

func main() {
	r = vh.Start("C28")
	defer r.Finish()
	api.DisableConfigDir()
	pureValidateByteRange()
	pureGap()
	pureSignedData()
	s, err := synth.NewSigner()
	if err != nil {
		panic(err)
	}
	if err := s.InstallTrust(filepath.Join(r.Dir, "certs")); err != nil {
		panic(err)
	}
	e2eSynth(s)
	e2eDTS()
	e2eShadow(s)
}
