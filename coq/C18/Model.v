(* C18 — Every written PDF has an exact, self-consistent file structure.

   Executable model, NO proofs.  Two independent halves:

   (A) the WRITER's layout bookkeeping, transcribed from
         pkg/pdfcpu/writeObjects.go : writeHeader, objectHeader, writeObjectTrailer, writeObject,
                                      writeStreamDictObject (offset bookkeeping ctx.Write.Offset / SetWriteOffset)
         pkg/pdfcpu/write.go        : sortedWritableKeys, writeXRefTable, writeXRefSubsection, writeTrailerDict,
                                      writeTrailer, int64ToBuf (xref stream rows)
         pkg/pdfcpu/model/xreftable.go : FreeObject (free-list insertion right after the head)
       Object bodies are opaque byte strings here (their content is property C11's business).

   (B) a STRICT, NON-REPAIRING checker [check_file] of a byte string, written independently of (A):
       header, "%%EOF"/startxref/trailer-/Size read backwards from the end of the file, the classic
       cross-reference table at exactly the startxref offset (20-byte entries), every in-use entry
       pointing exactly at "<nr> <gen> obj" + EOL, /Size = highest object number + 1, strictly
       increasing object numbers, free-list chain through object 0 (generation 65535).

   Bytes are N; lengths/offsets are N. *)
From Coq Require Import NArith List Bool Sorting.Mergesort Orders.
Import ListNotations.
Open Scope N_scope.

(* ------------------------------------------------------------------ basics *)

Fixpoint lenN {A : Type} (l : list A) : N := match l with [] => 0 | _ :: t => N.succ (lenN t) end.

(* drop the first n bytes *)
Fixpoint dropN (n : N) (l : list N) : list N :=
  match l with
  | [] => []
  | _ :: t => if n =? 0 then l else dropN (N.pred n) t
  end.

Definition bind {A B} (o : option A) (f : A -> option B) : option B :=
  match o with Some a => f a | None => None end.

(* strip p l = Some r  iff  l = p ++ r *)
Fixpoint strip (p l : list N) : option (list N) :=
  match p with
  | [] => Some l
  | a :: p' => match l with
               | b :: l' => if a =? b then strip p' l' else None
               | [] => None
               end
  end.

(* ------------------------------------------------------------------ decimal numbers (fmt "%d") *)

Fixpoint dec_aux (fuel : nat) (n : N) (acc : list N) : list N :=
  match fuel with
  | O => acc
  | S f => let acc' := (48 + n mod 10) :: acc in
           if n <? 10 then acc' else dec_aux f (n / 10) acc'
  end.
(* the fuel is the bit length of n plus one (at most 65 for Go ints): always enough, see Proofs.dec_value *)
Definition dec (n : N) : list N := dec_aux (S (N.to_nat (N.size n))) n [].

(* fmt "%0kd" for non-negative numbers: left-pad with '0' to width k *)
Definition pad0 (k : nat) (ds : list N) : list N := repeat 48 (k - length ds) ++ ds.

Definition is_digit (b : N) : bool := (48 <=? b) && (b <=? 57).
Definition value (ds : list N) : N := fold_left (fun a d => 10 * a + (d - 48)) ds 0.

(* ------------------------------------------------------------------ literals *)
Definition s_pdf      : list N := [37;80;68;70;45].                       (* %PDF- *)
Definition s_binary   : list N := [37;226;227;207;211].                   (* %\xe2\xe3\xcf\xd3 *)
Definition s_obj      : list N := [32;111;98;106].                        (* " obj" *)
Definition s_endobj   : list N := [101;110;100;111;98;106].               (* endobj *)
Definition s_xref     : list N := [120;114;101;102].                      (* xref *)
Definition s_trailer  : list N := [116;114;97;105;108;101;114].           (* trailer *)
Definition s_startxref: list N := [115;116;97;114;116;120;114;101;102].   (* startxref *)
Definition s_eof      : list N := [37;37;69;79;70].                       (* %%EOF *)
Definition s_size     : list N := [47;83;105;122;101;32].                 (* "/Size " *)
Definition s_dictopen : list N := [60;60].                                (* << *)
Definition s_dictclose: list N := [62;62].                                (* >> *)

Inductive eolk := LF | CR | CRLF.
Definition eolb (e : eolk) : list N := match e with LF => [10] | CR => [13] | CRLF => [13;10] end.
(* fmt "%2s" of the eol string: right-aligned in a field of 2 *)
Definition eol2 (e : eolk) : list N := match e with LF => [32;10] | CR => [32;13] | CRLF => [13;10] end.

(* ------------------------------------------------------------------ (A) the writer *)

(* one cross-reference entry: object number, first field (offset / next free object),
   generation, free flag *)
Record ent := mk_ent { e_nr : N; e_a : N; e_b : N; e_free : bool }.

(* o_gen: the generation number passed to writeObject (printed in the "n g obj" line; it comes from the
   indirect reference being written).  o_xgen: *entry.Generation of the object's xref table entry at the
   time the cross-reference is written (printed in the xref entry by writeXRefSubsection).  They are
   different variables in the code: e.g. writeNullObject writes "n g obj null" with the generation of a
   stale reference and XRefTable.UndeleteObject then sets the entry's generation to (free generation - 1). *)
Record obj := mk_obj { o_nr : N; o_gen : N; o_xgen : N; o_body : list N }.

(* writeObjects.go objectHeader: fmt.Sprintf("%d %d obj%s", objNr, genNr, eol) *)
Definition obj_header (e : eolk) (nr gen : N) : list N := dec nr ++ [32] ++ dec gen ++ s_obj ++ eolb e.
(* writeObjects.go writeObjectTrailer: "%sendobj%s" *)
Definition obj_trailer (e : eolk) : list N := eolb e ++ s_endobj ++ eolb e.

(* writeObject / writeStreamDictObject:
     w.SetWriteOffset(objNumber)            -- Table[objNumber] = Offset
     written := header; i := body; j := trailer
     w.Offset += int64(written + i + j)
   The offset is a separate counter fed with the returned byte counts; it is NOT derived from the
   output position.  Returns (bytes emitted, new offset, entries recorded). *)
Fixpoint write_objs (e : eolk) (off : N) (os : list obj) : list N * N * list ent :=
  match os with
  | [] => ([], off, [])
  | o :: r =>
      let h := obj_header e (o_nr o) (o_gen o) in
      let t := obj_trailer e in
      let written := lenN h + lenN (o_body o) + lenN t in
      let '(bytes, off', tbl) := write_objs e (off + written) r in
      (h ++ o_body o ++ t ++ bytes, off', mk_ent (o_nr o) off (o_xgen o) false :: tbl)
  end.

(* writeHeader: two comment lines; w.Offset += i + j *)
Definition header_bytes (e : eolk) (vmaj vmin : N) : list N :=
  s_pdf ++ [48 + vmaj; 46; 48 + vmin] ++ eolb e ++ s_binary ++ eolb e.

(* sortedWritableKeys + the per-key lookup of writeXRefSubsection: the free entries of the xref
   table and the entries with a write offset, in ascending object-number order *)
Module EntOrder <: TotalLeBool.
  Definition t := ent.
  Definition leb (x y : ent) : bool := e_nr x <=? e_nr y.
  Theorem leb_total : forall x y, leb x y = true \/ leb y x = true.
  Proof. intros x y. unfold leb. destruct (N.leb_spec (e_nr x) (e_nr y)) as [H|H]; [left; reflexivity|right].
         apply N.leb_le. apply N.lt_le_incl. exact H. Qed.
End EntOrder.
Module EntSort := Sort EntOrder.

(* writeXRefSubsection: "%010d %05d f%2s" / "%010d %05d n%2s" *)
Definition entry_line (e : eolk) (x : ent) : list N :=
  pad0 10 (dec (e_a x)) ++ [32] ++ pad0 5 (dec (e_b x)) ++ [32] ++ [if e_free x then 102 else 110] ++ eol2 e.

(* writeXRefTable's loop over the sorted keys: a new subsection starts where keys[i]-keys[i-1] > 1 *)
Fixpoint runs (l : list ent) : list (list ent) :=
  match l with
  | [] => []
  | x :: r => match runs r with
              | (y :: run) :: rs => if 1 <? (e_nr y - e_nr x) then [x] :: (y :: run) :: rs else (x :: y :: run) :: rs
              | _ => [[x]]
              end
  end.

Definition run_start (r : list ent) : N := match r with x :: _ => e_nr x | [] => 0 end.
(* writeXRefSubsection: "%d %d%s" start size eol, then the entry lines *)
Definition print_run (e : eolk) (r : list ent) : list N :=
  dec (run_start r) ++ [32] ++ dec (lenN r) ++ eolb e ++ concat (map (entry_line e) r).

Record input := mk_input {
  i_vmaj : N; i_vmin : N;           (* header version digits *)
  i_eol : eolk;                      (* ctx.Write.Eol *)
  i_objs : list obj;                 (* objects in the order they are written *)
  i_frees : list ent;                (* free entries of ctx.XRefTable.Table (e_a = next free, e_b = generation) *)
  i_size : N;                        (* *xRefTable.Size *)
  i_tpre : list N                    (* trailer dict text between "<<" and "/Size " (Encrypt, ID, Info, Prev, Root) *)
}.

Definition body_of (i : input) : list N * N * list ent :=
  let h := header_bytes (i_eol i) (i_vmaj i) (i_vmin i) in
  let '(bytes, off, tbl) := write_objs (i_eol i) (lenN h) (i_objs i) in
  (h ++ bytes, off, tbl).

Definition xents (i : input) : list ent :=
  let '(_, _, tbl) := body_of i in EntSort.sort (i_frees i ++ tbl).

(* writeXRefTable + writeTrailerDict + writeTrailer.  The number after startxref is ctx.Write.Offset,
   which has not moved since the last object. *)
Definition xref_section (e : eolk) (ents : list ent) (tpre : list N) (size off : N) : list N :=
  s_xref ++ eolb e ++ concat (map (print_run e) (runs ents)) ++
  s_trailer ++ eolb e ++ s_dictopen ++ tpre ++ s_size ++ dec size ++ s_dictclose ++ eolb e ++
  s_startxref ++ eolb e ++ dec off ++ eolb e ++ s_eof ++ eolb e.

Definition layout (i : input) : list N :=
  let '(bytes, off, _) := body_of i in
  bytes ++ xref_section (i_eol i) (xents i) (i_tpre i) (i_size i) off.

(* write.go int64ToBuf: big-endian bytes of i, left-padded with zeros to byteCount
   (longer if i does not fit).  Fuel 8 = the 8 bytes of an int64. *)
Fixpoint be_bytes (fuel : nat) (k : N) (acc : list N) : list N :=
  match fuel with
  | O => acc
  | S f => if k =? 0 then acc else be_bytes f (k / 256) (k mod 256 :: acc)
  end.
Definition int64ToBuf (i : N) (byteCount : nat) : list N :=
  let b := be_bytes 8 i [] in repeat 0 (byteCount - length b) ++ b.
Definition be_value (l : list N) : N := fold_left (fun a d => 256 * a + d) l 0.

(* write.go writeXRefStream, column widths /W [i1 i2 i3]:
     i1 := 1; i3 := 2
     i2Base := int64( *ctx.Size ); if offset > i2Base { i2Base = offset }      (offset = position of the xref stream)
     i2 := func(i int64) (byteCount int) { for i > 0 { i >>= 8; byteCount++ }; return }(i2Base)
   Column 2 carries byte offsets (type 1), next-free object numbers (type 0) and object stream numbers
   (type 2), hence the maximum of /Size and the largest offset. *)
Fixpoint byte_count (fuel : nat) (i : N) : nat :=
  match fuel with
  | O => O
  | S f => if i =? 0 then O else S (byte_count f (i / 256))
  end.
Definition w2_width (size offset : N) : nat := byte_count 8 (if size <? offset then offset else size).

(* one row of the cross-reference stream: type, field 2, field 3 *)
Record xrow := mk_xrow { x_typ : N; x_a : N; x_b : N }.
(* createXRefStream: buf = append(buf, s1...), s2, s3 with s_k = int64ToBuf(value, i_k) *)
Definition row_bytes (w2 : nat) (r : xrow) : list N :=
  int64ToBuf (x_typ r) 1 ++ int64ToBuf (x_a r) w2 ++ int64ToBuf (x_b r) 2.
Definition xref_stream_content (size offset : N) (rows : list xrow) : list N :=
  concat (map (row_bytes (w2_width size offset)) rows).

(* model/xreftable.go FreeObject: generation++, free, offset := head.offset, head.offset := objNr.
   On the list of free entries (head = object 0 first). *)
Definition free_object (frees : list ent) (nr gen : N) : list ent :=
  match frees with
  | h :: r => mk_ent (e_nr h) nr (e_b h) true :: mk_ent nr (e_a h) (gen + 1) true :: r
  | [] => []
  end.

(* model/xreftable.go UndeleteObject: follow the free list from object 0; when the link reaches `target`,
   unlink it (predecessor.offset := entry.offset), decrement its generation if > 0, mark it in use.
   Returns the remaining free entries and the revived entry's new generation (None: not on the list).
   Outer None: the walk hits a link to a non-free object (Go: error) or does not terminate. *)
Fixpoint undelete_walk (fuel frees : list ent) (prev cur target : N) : option (list ent * option N) :=
  if cur =? 0 then Some (frees, None) else
  match fuel with
  | [] => None
  | _ :: fuel' =>
      match find (fun x => e_nr x =? cur) frees with
      | None => None
      | Some x =>
          if cur =? target then
            Some (map (fun y => if e_nr y =? prev then mk_ent (e_nr y) (e_a x) (e_b y) true else y)
                      (filter (fun y => negb (e_nr y =? cur)) frees),
                  Some (if 0 <? e_b x then N.pred (e_b x) else 0))
          else undelete_walk fuel' frees cur (e_a x) target
      end
  end.
Definition undelete_object (frees : list ent) (target : N) : option (list ent * option N) :=
  match find (fun x => e_nr x =? 0) frees with
  | Some h => undelete_walk frees frees 0 (e_a h) target
  | None => None
  end.

(* model/xreftable.go EnsureValidFreeList / validateFreeList / handleDanglingFree (run when a file is read).
   Input: the head's link h, and the free entries with k > 0 (freeObjects(), a Go map: here a list in ANY
   order; the order stands for Go's map iteration order, i.e. for the choices of anyKey(m) and of
   `for i := range m`).  e_a = link ("offset"), e_b = generation.

   follow = the loop of validateFreeList as long as the link stays inside the remaining set m:
       for f != 0 { if !m[f] { ...stop... }; delete(m, f); e = Free(f); f = *e.Offset }
   returns the entries visited in order, the remaining set, and whether the walk ended with link 0. *)
Fixpoint take_nr (f : N) (m : list ent) : option (ent * list ent) :=
  match m with
  | [] => None
  | x :: t => if e_nr x =? f then Some (x, t) else
              match take_nr f t with Some (y, t') => Some (y, x :: t') | None => None end
  end.
Fixpoint follow (fuel m : list ent) (f : N) : list ent * list ent * bool :=
  if f =? 0 then ([], m, true) else
  match take_nr f m with
  | None => ([], m, false)
  | Some (x, m') =>
      match fuel with
      | [] => ([], m, false)                      (* unreachable: fuel is as long as m *)
      | _ :: fuel' => let '(v, r, b) := follow fuel' m' (e_a x) in (x :: v, r, b)
      end
  end.
(* "*e.Offset = v" for the entry e visited last; e is the head when nothing has been visited *)
Fixpoint set_last (v : list ent) (k : N) : list ent :=
  match v with
  | [] => []
  | [x] => [mk_ent (e_nr x) k (e_b x) true]
  | x :: t => x :: set_last t k
  end.
(* validateFreeList + the assignment "*lastValid.Offset = nextFree" of EnsureValidFreeList:
   first bad link with free objects remaining: lastValid = e; f = anyKey(m); nextFree = f; continue
   bad link otherwise (none remaining, or a repair is already pending): *e.Offset = 0; break
   Returns the head's link, the chain in order (with the repaired links) and the still remaining set. *)
Definition validate_free_list (h : N) (frees : list ent) : N * list ent * list ent :=
  let '(v1, m1, end1) := follow frees frees h in
  if end1 then (h, v1, m1) else
  match m1 with
  | [] => match v1 with [] => (0, [], []) | _ => (h, set_last v1 0, []) end
  | k :: _ =>
      let '(v2, m2, end2) := follow m1 m1 (e_nr k) in
      let v2' := if end2 then v2 else set_last v2 0 in
      match v1 with
      | [] => (e_nr k, v2', m2)
      | _ => (h, set_last v1 (e_nr k) ++ v2', m2)
      end
  end.
(* handleDanglingFree: for i := range m { generation 65535: Offset = 0 (dead, outside the list);
   otherwise entry.Offset = head.Offset; head.Offset = i }.  Returns head link, chain, dead entries. *)
Fixpoint dangling (h : N) (chain dead : list ent) (m : list ent) : N * list ent * list ent :=
  match m with
  | [] => (h, chain, dead)
  | x :: t => if e_b x =? 65535 then dangling h chain (mk_ent (e_nr x) 0 (e_b x) true :: dead) t
              else dangling (e_nr x) (mk_ent (e_nr x) h (e_b x) true :: chain) dead t
  end.
Definition ensure_valid_free_list (h : N) (frees : list ent) : N * list ent * list ent :=
  let '(h1, chain, m) := validate_free_list h frees in dangling h1 chain [] m.

(* the links h -> c1 -> c2 ... -> g *)
Fixpoint pathb (h : N) (c : list ent) (g : N) : bool :=
  match c with
  | [] => h =? g
  | x :: t => (h =? e_nr x) && pathb (e_a x) t g
  end.

(* ------------------------------------------------------------------ (B) the strict checker *)

Fixpoint take_digits (l : list N) : list N * list N :=
  match l with
  | b :: t => if is_digit b then let (d, r) := take_digits t in (b :: d, r) else ([], l)
  | [] => ([], [])
  end.

(* a non-empty run of digits *)
Definition parse_num (l : list N) : option (N * list N) :=
  let (d, r) := take_digits l in
  match d with [] => None | _ => Some (value d, r) end.

(* exactly k digits *)
Fixpoint take_k (k : nat) (l : list N) : option (list N * list N) :=
  match k with
  | O => Some ([], l)
  | S k' => match l with
            | b :: t => if is_digit b then bind (take_k k' t) (fun '(d, r) => Some (b :: d, r)) else None
            | [] => None
            end
  end.

Definition strip_eol (l : list N) : option (list N) :=
  match l with
  | a :: r =>
      if a =? 13 then
        match r with
        | b :: r' => if b =? 10 then Some r' else Some r
        | [] => Some r
        end
      else if a =? 10 then Some r else None
  | [] => None
  end.
(* the same on a reversed byte string *)
Definition strip_eol_rev (l : list N) : option (list N) :=
  match l with
  | a :: r =>
      if a =? 10 then
        match r with
        | b :: r' => if b =? 13 then Some r' else Some r
        | [] => Some r
        end
      else if a =? 13 then Some r else None
  | [] => None
  end.

(* the end of the file, read backwards (argument: the reversed file):
     ... "/Size " S ">>" EOL "startxref" EOL X EOL "%%EOF" EOL
   returns (X, S) *)
Definition parse_tail_rev (r : list N) : option (N * N) :=
  bind (strip_eol_rev r) (fun r1 =>
  bind (strip (rev s_eof) r1) (fun r2 =>
  bind (strip_eol_rev r2) (fun r3 =>
  let (dx, r4) := take_digits r3 in
  match dx with [] => None | _ =>
  bind (strip_eol_rev r4) (fun r5 =>
  bind (strip (rev s_startxref) r5) (fun r6 =>
  bind (strip_eol_rev r6) (fun r7 =>
  bind (strip (rev s_dictclose) r7) (fun r8 =>
  let (ds, r9) := take_digits r8 in
  match ds with [] => None | _ =>
  bind (strip (rev s_size) r9) (fun _ =>
  Some (value (rev dx), value (rev ds)))
  end)))) end))).

(* one 20-byte entry: 10 digits, space, 5 digits, space, n|f, 2-byte end of line *)
Definition parse_entry (l : list N) : option (N * N * bool * list N) :=
  bind (take_k 10 l) (fun '(da, r1) =>
  bind (strip [32] r1) (fun r2 =>
  bind (take_k 5 r2) (fun '(db, r3) =>
  bind (strip [32] r3) (fun r4 =>
  match r4 with
  | k :: c1 :: c2 :: r5 =>
      if ((k =? 110) || (k =? 102)) &&
         (((c1 =? 32) && ((c2 =? 10) || (c2 =? 13))) || ((c1 =? 13) && (c2 =? 10)))
      then Some (value da, value db, k =? 102, r5) else None
  | _ => None
  end)))).

(* cnt entries numbered nr, nr+1, ...; fuel: any list at least cnt long (the text itself) *)
Fixpoint parse_entries (fuel : list N) (cnt nr : N) (l : list N) : option (list ent * list N) :=
  if cnt =? 0 then Some ([], l) else
  match fuel with
  | [] => None
  | _ :: fuel' =>
      bind (parse_entry l) (fun '(a, b, k, r) =>
      bind (parse_entries fuel' (N.pred cnt) (N.succ nr) r) (fun '(es, r') =>
      Some (mk_ent nr a b k :: es, r')))
  end.

(* subsections until the keyword "trailer"; returns the entries and the text after "trailer" *)
Fixpoint parse_sections (fuel : list N) (l : list N) : option (list ent * list N) :=
  match strip s_trailer l with
  | Some r => Some ([], r)
  | None =>
      match fuel with
      | [] => None
      | _ :: fuel' =>
          bind (parse_num l) (fun '(start, r1) =>
          bind (strip [32] r1) (fun r2 =>
          bind (parse_num r2) (fun '(cnt, r3) =>
          bind (strip_eol r3) (fun r4 =>
          bind (parse_entries r4 cnt start r4) (fun '(es, r5) =>
          bind (parse_sections fuel' r5) (fun '(es', r6) =>
          Some (es ++ es', r6)))))))
      end
  end.

(* the cross-reference table found at offset x of f *)
Definition parse_xref_at (f : list N) (x : N) : option (list ent) :=
  bind (strip s_xref (dropN x f)) (fun t1 =>
  bind (strip_eol t1) (fun t2 =>
  bind (parse_sections t2 t2) (fun '(es, t3) =>
  bind (strip_eol t3) (fun t4 =>
  bind (strip s_dictopen t4) (fun _ => Some es))))).

Definition is_eol_start (l : list N) : bool :=
  match l with b :: _ => (b =? 10) || (b =? 13) | [] => false end.

(* an in-use entry locates its object exactly: "<nr> <gen> obj" EOL at the stated offset *)
Definition entry_locates (f : list N) (x : ent) : bool :=
  if e_free x then true else
  match strip (dec (e_nr x) ++ [32] ++ dec (e_b x) ++ s_obj) (dropN (e_a x) f) with
  | Some r => is_eol_start r
  | None => false
  end.

Fixpoint increasing (prev : N) (l : list ent) : bool :=
  match l with
  | [] => true
  | x :: r => (prev <? e_nr x) && increasing (e_nr x) r
  end.
Fixpoint last_nr (d : N) (l : list ent) : N :=
  match l with [] => d | x :: r => last_nr (e_nr x) r end.

(* free list: from object 0 follow the "next free" links through free entries, never visiting an
   entry twice, until the link 0; every free entry is on that chain, or is a dead entry
   (generation 65535) that links to 0.  Returns the objects on the chain. *)
Fixpoint walk (fuel : list ent) (frees : list ent) (cur : N) (seen : list N) : option (list N) :=
  if cur =? 0 then Some seen else
  match fuel with
  | [] => None
  | _ :: fuel' =>
      match find (fun x => e_nr x =? cur) frees with
      | None => None
      | Some x => if existsb (N.eqb cur) seen then None else walk fuel' frees (e_a x) (cur :: seen)
      end
  end.

Definition chain_ok (ents : list ent) : bool :=
  let frees := filter e_free ents in
  match frees with
  | h :: _ =>
      (e_nr h =? 0) && (e_b h =? 65535) &&
      match walk frees frees (e_a h) [] with
      | None => false
      | Some seen =>
          forallb (fun x => (e_nr x =? 0) || existsb (N.eqb (e_nr x)) seen ||
                            ((e_b x =? 65535) && (e_a x =? 0))) frees
      end
  | [] => false
  end.

(* the part of the check that does not look at object positions *)
(* maxc: the highest number of an object kept in an object stream (xref streams only; 0 for a table) *)
Definition table_ok (size maxc : N) (ents : list ent) : bool :=
  match ents with
  | h :: r => (e_nr h =? 0) && e_free h && increasing 0 r &&
              (size =? N.succ (N.max (last_nr 0 ents) maxc)) && chain_ok ents
  | [] => false
  end.

Definition header_ok (f : list N) : bool :=
  match strip s_pdf f with
  | Some (a :: d :: b :: c :: _) => is_digit a && (d =? 46) && is_digit b && ((c =? 10) || (c =? 13))
  | _ => false
  end.

(* the semantic part, also usable on the rows of an inflated cross-reference stream
   (type 0 and type 1 rows; the harness resolves type 2 rows itself) *)
Definition check_rows (f : list N) (size maxc : N) (ents : list ent) : bool :=
  table_ok size maxc ents && forallb (entry_locates f) ents.

(* ---- cross-reference STREAM rows (the harness inflates the stream and hands over the decoded bytes,
   /W and /Index): exactly k bytes per field, exactly cnt rows per /Index pair, nothing left over *)
Fixpoint take_bytes (k : nat) (l : list N) : option (list N * list N) :=
  match k with
  | O => Some ([], l)
  | S k' => match l with
            | b :: t => if b <? 256 then bind (take_bytes k' t) (fun '(d, r) => Some (b :: d, r)) else None
            | [] => None
            end
  end.
Definition decode_row (w0 w1 w2 : nat) (l : list N) : option (xrow * list N) :=
  bind (take_bytes w0 l) (fun '(a, r1) =>
  bind (take_bytes w1 r1) (fun '(b, r2) =>
  bind (take_bytes w2 r2) (fun '(c, r3) =>
  Some (mk_xrow (match w0 with O => 1 | _ => be_value a end) (be_value b) (be_value c), r3)))).
Fixpoint decode_rows (fuel : list N) (w0 w1 w2 : nat) (cnt nr : N) (l : list N) : option (list (N * xrow) * list N) :=
  if cnt =? 0 then Some ([], l) else
  match fuel with
  | [] => None
  | _ :: fuel' =>
      bind (decode_row w0 w1 w2 l) (fun '(r, rest) =>
      bind (decode_rows fuel' w0 w1 w2 (N.pred cnt) (N.succ nr) rest) (fun '(rs, rest') =>
      Some ((nr, r) :: rs, rest')))
  end.
Fixpoint decode_index (w0 w1 w2 : nat) (index : list (N * N)) (l : list N) : option (list (N * xrow)) :=
  match index with
  | [] => match l with [] => Some [] | _ => None end          (* len(decoded) = rows x (W0+W1+W2) exactly *)
  | (start, cnt) :: ix =>
      bind (decode_rows l w0 w1 w2 cnt start l) (fun '(rs, rest) =>
      bind (decode_index w0 w1 w2 ix rest) (fun rs' => Some (rs ++ rs')))
  end.
Definition rows_ents (rows : list (N * xrow)) : list ent :=
  flat_map (fun '(nr, r) => if x_typ r =? 2 then [] else [mk_ent nr (x_a r) (x_b r) (x_typ r =? 0)]) rows.
Definition rows_maxc (rows : list (N * xrow)) : N :=
  fold_left (fun m '(nr, r) => if x_typ r =? 2 then N.max m nr else m) rows 0.
(* a field is w bytes wide; a zero-width row or a zero-width column 2/3 cannot carry the entries *)
Definition check_xref_stream (f : list N) (size : N) (w0 w1 w2 : nat) (index : list (N * N)) (data : list N) : bool :=
  match decode_index w0 w1 w2 index data with
  | None => false
  | Some rows =>
      negb (Nat.eqb (w0 + w1 + w2) 0) && forallb (fun '(_, r) => x_typ r <=? 2) rows &&
      check_rows f size (rows_maxc rows) (rows_ents rows)
  end.

Definition check_file (f : list N) : bool :=
  header_ok f &&
  match parse_tail_rev (rev_append f []) with
  | None => false
  | Some (x, size) =>
      match parse_xref_at f x with
      | None => false
      | Some ents => check_rows f size 0 ents
      end
  end.

(* diagnostic variant for the harness: which stage rejects *)
Definition check_stage (f : list N) : N :=
  if negb (header_ok f) then 1 else
  match parse_tail_rev (rev_append f []) with
  | None => 2
  | Some (x, size) =>
      match parse_xref_at f x with
      | None => 3
      | Some ents => if negb (table_ok size 0 ents) then 4
                     else if negb (forallb (entry_locates f) ents) then 5 else 0
      end
  end.
