(* C07 — Installed fonts survive power loss once installation reports success.
   Property theorems only; each is closed by an exact lemma and followed by Print Assumptions.

   dexec / dstep replay an operation trace (create / encode / chmod / fsync / close / rename / remove /
   removeAll / fsync_dir / mkdirTemp, as recorded from the real font installers and as produced by the C06
   program model) over the durable layer of C07/Model.v.  `accepts` is the executable safety condition on a
   trace (checked on every recorded trace of the real code by the harness):
     - a rename INTO the font directory under a font name moves an inode whose bytes were all fsync'ed and
       that holds the complete previous or the complete new representation of that name;
     - no encode writes to an inode that the font directory links under a font name;
     - temporary files created in the font directory do not carry font names.
   Power loss = for the font directory any prefix of its pending entry operations, for every inode any
   prefix of its bytes containing the fsync'ed ones (crash_entries k, crash_bytes j). *)
From stdpp Require Import gmap.
From PV Require Import C01.FS C06.Model C07.Model C07.Proofs.

(* At EVERY crash point c of an accepted trace and for EVERY admissible loss (k, j): each font name is
   absent, or bound to its complete previous representation, or to its complete new one. *)
Theorem powerloss_name_trichotomy :
  forall F isfont old new st0 tr,
  Inv F isfont old new st0 -> accepts F isfont old new st0 tr = true ->
  forall c k n, isfont n = true ->
  crash_entries F (dexec st0 (firstn c tr)) k !! n = None \/
  exists i, crash_entries F (dexec st0 (firstn c tr)) k !! n = Some i /\
    forall j b, crash_bytes (dexec st0 (firstn c tr)) i j = Some b -> old n = Some b \/ new n = Some b.
Proof.
  intros F isfont old new st0 tr Hi Ha c k n Hf.
  pose proof (accepts_inv F isfont old new (firstn c tr) st0 Hi (accepts_prefix F isfont old new tr st0 c Ha)) as Hinv.
  destruct (crash_entries F (dexec st0 (firstn c tr)) k !! n) as [i|] eqn:E; [right|left; reflexivity].
  exists i. split; [reflexivity|]. intros j b Hb.
  exact (inv_trichotomy F isfont old new _ k n i j b Hinv Hf E Hb).
Qed.
Print Assumptions powerloss_name_trichotomy.

(* The trace of a successful writeGobWithOperations,
     createTemp ; write ; chmod ; fsync ; close ; (verify) ; rename ; fsync_dir,
   is accepted from every safe state, and once it has run (installation returned success) EVERY power loss
   leaves the font name bound to the complete new file: the data was flushed before it was published and the
   directory entry was flushed after publication. *)
Theorem gob_durable_after_success :
  forall F isfont old new st dd t n data,
  Inv F isfont old new st -> s_dir st !! F = Some dd ->
  isfont t = false -> isfont n = true -> t <> n -> new n = Some data ->
  accepts F isfont old new st (gob_trace F t n data) = true /\
  forall k, exists i,
    crash_entries F (dexec st (gob_trace F t n data)) k !! n = Some i /\
    (exists b, crash_bytes (dexec st (gob_trace F t n data)) i (length data) = Some b) /\
    forall j b, crash_bytes (dexec st (gob_trace F t n data)) i j = Some b -> b = data.
Proof.
  intros F isfont old new st dd t n data Hi Hd Hft Hfn Htn Hnew.
  destruct (gob_trace_durable F isfont old new st dd t n data Hi Hd Hft Hfn Htn Hnew) as (Ha & Hdn).
  split; [exact Ha|]. intros k. exact (durable_now_crash F _ n data k Hdn).
Qed.
Print Assumptions gob_durable_after_success.

(* The per-file protocol for a LIST of members (a TrueType collection / a batch), any length: every member
   (temporary name, font name, representation) is written into the staging directory G by the trace of
   writeGobWithOperations (createTemp ; write ; chmod ; fsync ; close ; verify ; rename ; fsync_dir), then every
   member is committed (rename G/n -> F/n ; fsync_dir G ; fsync_dir F).  From every safe state, for pairwise
   distinct font names and temporary names that are not member names, the whole trace is accepted - so the
   trichotomy holds at every crash point - and once it has run EVERY power loss leaves EVERY member's name bound
   to its complete new bytes. *)
Theorem collection_members_durable_after_success :
  forall F isfont old new (G : list positive) ms st,
  Inv F isfont old new st -> G <> F -> is_Some (s_dir st !! F) -> is_Some (s_dir st !! G) ->
  (forall m, In m ms -> cm_tmp m <> cm_name m /\ isfont (cm_name m) = true /\ new (cm_name m) = Some (cm_data m)) ->
  NoDup (map cm_name ms) ->
  (forall m m', In m ms -> In m' ms -> cm_tmp m <> cm_name m') ->
  accepts F isfont old new st (collection_trace G F ms) = true /\
  forall m, In m ms -> forall k, exists i,
    crash_entries F (dexec st (collection_trace G F ms)) k !! cm_name m = Some i /\
    (exists b, crash_bytes (dexec st (collection_trace G F ms)) i (length (cm_data m)) = Some b) /\
    forall j b, crash_bytes (dexec st (collection_trace G F ms)) i j = Some b -> b = cm_data m.
Proof.
  intros F isfont old new G ms st Hi HGF HF HG Hms Hnd Hdisj.
  destruct (collection_durable F isfont old new G ms st Hi HGF HF HG Hms Hnd Hdisj) as (Ha & Hd).
  split; [exact Ha|]. intros m Hm k. exact (durable_now_crash F _ (cm_name m) (cm_data m) k (Hd m Hm)).
Qed.
Print Assumptions collection_members_durable_after_success.

(* The executable durability test used on recorded traces is sound: durable_now => every power loss keeps n = data. *)
Theorem durable_now_sound :
  forall F st n data k, durable_now F st n data = true ->
  exists i, crash_entries F st k !! n = Some i /\
    (exists b, crash_bytes st i (length data) = Some b) /\
    forall j b, crash_bytes st i j = Some b -> b = data.
Proof. intros F st n data k. exact (durable_now_crash F st n data k). Qed.
Print Assumptions durable_now_sound.

(* Tie to the C06 program model: without a failure the model of writeGobWithOperations emits exactly the
   canonical trace (for every world, temp-name supply and data) and reports success + published. *)
Theorem write_gob_trace_is_canonical :
  forall freshn kp (d : list positive) n data w c,
  wt w !! d = Some c ->
  dtr (snd (write_gob nofault freshn kp d n data w)) = rev (gob_trace d (freshn c) n data) ++ dtr w /\
  fst (write_gob nofault freshn kp d n data w) = (None, true).
Proof. exact write_gob_emits_gob_trace. Qed.
Print Assumptions write_gob_trace_is_canonical.

(* non-vacuity: an initial state built from a directory listing is safe, the canonical trace is accepted on it,
   and a trace that publishes before flushing is rejected *)
Example C07_nonvacuous :
  let F := [1%positive] in
  let st := dst_of_lists [(F, [(16%positive, [160%N])])] in
  let isfont := fun n => Pos.leb n 255 in
  let old := opt_list [(16%positive, [160%N])] in
  let new := opt_list [(16%positive, [192%N; 16%N])] in
  accepts F isfont old new st (gob_trace F 256%positive 16%positive [192%N; 16%N]) = true /\
  durable_now F (dexec st (gob_trace F 256%positive 16%positive [192%N; 16%N])) 16%positive [192%N; 16%N] = true /\
  accepts F isfont old new st
    [DEv DCreateTemp (PFile F 256%positive) (PFile F 256%positive) None [];
     DEv DEncode (PFile F 256%positive) (PFile F 256%positive) None [192%N; 16%N];
     DEv DRename (PFile F 256%positive) (PFile F 16%positive) None [];
     DEv DSync (PFile F 16%positive) (PFile F 16%positive) None []] = false.
Proof. vm_compute. repeat split; reflexivity. Qed.
