// Harness for C20: optimisation never changes what a document shows.
//
//	K  model.EqualObjects (run several times: Go map order) on generated object graphs
//	   (copies with shared subobjects, cycles, missing referents, one deep difference,
//	   font dicts with subset tags, streams) against the extracted Coq model;
//	   an independent Go implementation of the n-level unfolding comparison against the
//	   extracted simb.
//	O  (a) EqualObjects == (true,nil) with pairs == nil must imply equal unfoldings;
//	   (b) generated documents with planted duplicates and near-duplicates of fonts, images,
//	   form XObjects and content streams, shared / inherited resources and unreferenced
//	   objects go through api.Optimize: page count, per-page boxes, rotation, decoded content
//	   and the unfolding of every font / XObject the content names must be unchanged, and a
//	   second optimisation must not remove anything further.
package main

import (
	"bytes"
	"crypto/sha256"
	"encoding/hex"
	"fmt"
	"math"
	"math/rand"
	"os"
	"os/exec"
	"regexp"
	"runtime/debug"
	"sort"
	"strconv"
	"strings"

	"github.com/pdfcpu/pdfcpu/pkg/api"
	"github.com/pdfcpu/pdfcpu/pkg/pdfcpu"
	"github.com/pdfcpu/pdfcpu/pkg/pdfcpu/model"
	"github.com/pdfcpu/pdfcpu/pkg/pdfcpu/types"
	"verif/vh"
)

// ---------------------------------------------------------------- wire format

func hx(s string) string { return hex.EncodeToString([]byte(s)) }

func ser(o types.Object) string {
	switch o := o.(type) {
	case nil:
		return "n"
	case types.Boolean:
		if o {
			return "T"
		}
		return "F"
	case types.Integer:
		return "i" + vh.Int(int64(o))
	case types.Float:
		return "r" + hx(strconv.FormatFloat(float64(o)+0, 'g', -1, 64))
	case types.Name:
		return "/" + hx(string(o))
	case types.StringLiteral:
		return "s" + hx(string(o))
	case types.HexLiteral:
		return "h" + hx(string(o))
	case types.IndirectRef:
		return "R" + vh.Int(int64(o.ObjectNumber)) + "." + vh.Int(int64(o.GenerationNumber))
	case types.Array:
		p := []string{"["}
		for _, e := range o {
			p = append(p, ser(e))
		}
		p = append(p, "]")
		return strings.Join(p, " ")
	case types.Dict:
		return serDict(o)
	case types.StreamDict:
		raw := "-"
		if o.Raw != nil {
			raw = "=" + hex.EncodeToString(o.Raw)
		}
		return "S " + serDict(o.Dict) + " " + raw
	}
	panic(fmt.Sprintf("ser: %T", o))
}

func sortedKeys(d types.Dict) []string {
	ks := make([]string, 0, len(d))
	for k := range d {
		ks = append(ks, k)
	}
	sort.Strings(ks)
	return ks
}

func serDict(d types.Dict) string {
	p := []string{"<"}
	for _, k := range sortedKeys(d) {
		p = append(p, "k"+hx(k), ser(d[k]))
	}
	p = append(p, ">")
	return strings.Join(p, " ")
}

type graph map[int]types.Object

func (g graph) ser() string {
	ks := make([]int, 0, len(g))
	for k := range g {
		ks = append(ks, k)
	}
	sort.Ints(ks)
	p := []string{}
	for _, k := range ks {
		p = append(p, "#"+vh.Int(int64(k)), ser(g[k]))
	}
	return strings.Join(p, " ")
}

// xrefL: limit > 0 configures Limits.MaxRecursionDepth, 0 leaves the default.
func (g graph) xrefL(limit int) *model.XRefTable {
	x := g.xref()
	if limit > 0 {
		x.Conf = &model.Configuration{Limits: model.ResourceLimits{MaxRecursionDepth: limit}}
	}
	return x
}

func (g graph) xref() *model.XRefTable {
	x := &model.XRefTable{Table: map[int]*model.XRefTableEntry{}}
	for k, o := range g {
		x.Table[k] = model.NewXRefTableEntryGen0(o)
	}
	return x
}

// ---------------------------------------------------------------- wire format parser (probe child)

func unhx(s string) string {
	b, err := hex.DecodeString(s)
	if err != nil {
		panic(err)
	}
	return string(b)
}

func unInt(s string) int {
	v, err := strconv.ParseInt(s, 16, 64)
	if err != nil {
		panic(err)
	}
	return int(v)
}

func parseObj(t []string) (types.Object, []string) {
	h, r := t[0], t[1:]
	switch h {
	case "n":
		return nil, r
	case "T":
		return types.Boolean(true), r
	case "F":
		return types.Boolean(false), r
	case "[":
		a := types.Array{}
		for r[0] != "]" {
			var o types.Object
			o, r = parseObj(r)
			a = append(a, o)
		}
		return a, r[1:]
	case "<":
		return parseDict(r)
	case "S":
		d, r2 := parseDict(r[1:])
		sd := types.StreamDict{Dict: d}
		if r2[0] != "-" {
			sd.Raw = []byte(unhx(r2[0][1:]))
		}
		return sd, r2[1:]
	}
	switch h[0] {
	case 'i':
		return types.Integer(unInt(h[1:])), r
	case 'r':
		f, _ := strconv.ParseFloat(unhx(h[1:]), 64)
		return types.Float(f), r
	case '/':
		return types.Name(unhx(h[1:])), r
	case 's':
		return types.StringLiteral(unhx(h[1:])), r
	case 'h':
		return types.HexLiteral(unhx(h[1:])), r
	case 'R':
		p := strings.Split(h[1:], ".")
		return *types.NewIndirectRef(unInt(p[0]), unInt(p[1])), r
	}
	panic("parse " + h)
}

func parseDict(r []string) (types.Dict, []string) {
	d := types.Dict{}
	for r[0] != ">" {
		k := unhx(r[0][1:])
		var o types.Object
		o, r = parseObj(r[1:])
		d[k] = o
	}
	return d, r[1:]
}

func parseGraph(s string) graph {
	g := graph{}
	t := strings.Fields(s)
	for len(t) > 0 {
		nr := unInt(t[0][1:])
		var o types.Object
		o, t = parseObj(t[1:])
		g[nr] = o
	}
	return g
}

// probe child: run the real EqualObjects on one input with a small stack limit, so that an
// unbounded recursion (fatal in Go, not recoverable) only kills this child.
func probeMain(args []string) {
	debug.SetMaxStack(48 << 20)
	if args[0] == "pdf" {
		api.DisableConfigDir()
		b, _ := hex.DecodeString(args[1])
		_, err := optimizeBytes(b, false)
		fmt.Print("RESULT:", err)
		return
	}
	g := parseGraph(args[0])
	o1, _ := parseObj(strings.Fields(args[1]))
	o2, _ := parseObj(strings.Fields(args[2]))
	obs, _ := runEqual(o1, o2, g.xrefL(unInt(args[3])), nil, 1)
	fmt.Print("RESULT:" + obs)
}

// mirror explores every comparison EqualObjects could reach (no early exit, any map order)
// and reports whether the recursion depth is bounded.
type mirror struct {
	g     graph
	over  bool
	limit int // > 0: do not descend below this depth (the real depth check) and count the calls
	calls int
}

func (m *mirror) deref(o types.Object) types.Object {
	if ir, ok := o.(types.IndirectRef); ok {
		return m.g[int(ir.ObjectNumber)]
	}
	return o
}

func (m *mirror) eq(o1, o2 types.Object, pairs []int, depth int) {
	if m.over {
		return
	}
	if m.limit > 0 {
		m.calls++
		if m.calls > 300000 {
			m.over = true
			return
		}
		if depth > m.limit {
			return
		}
	} else if depth > 250 {
		m.over = true
		return
	}
	ir1, ok1 := o1.(types.IndirectRef)
	ir2, ok2 := o2.(types.IndirectRef)
	if ok1 && ok2 {
		if ir1 == ir2 {
			return
		}
		a, b := int(ir1.ObjectNumber), int(ir2.ObjectNumber)
		if a > b {
			a, b = b, a
		}
		for i := 0; i+1 < len(pairs); i += 2 {
			if pairs[i] == a && pairs[i+1] == b {
				return
			}
		}
		pairs = append(pairs[:len(pairs):len(pairs)], a, b)
	}
	d1, d2 := m.deref(o1), m.deref(o2)
	dicts := func(x, y types.Dict) {
		if len(x) != len(y) {
			return
		}
		for k, v1 := range x {
			if v2, ok := y[k]; ok {
				m.eq(v1, v2, pairs, depth+1)
			}
		}
	}
	switch x := d1.(type) {
	case types.Array:
		if y, ok := d2.(types.Array); ok && len(x) == len(y) {
			for i := range x {
				m.eq(x[i], y[i], pairs, depth+1)
			}
		}
	case types.Dict:
		if y, ok := d2.(types.Dict); ok {
			dicts(x, y)
		}
	case types.StreamDict:
		if y, ok := d2.(types.StreamDict); ok {
			dicts(x.Dict, y.Dict)
		}
	}
}

var probes int

// probeEqual runs the real function in a child process; "X" = the child died (stack overflow).
func probeEqual(g graph, o1, o2 types.Object, limit int) string {
	cmd := exec.Command(os.Args[0], "probe", g.ser(), ser(o1), ser(o2), vh.Int(int64(limit)))
	var out, errb bytes.Buffer
	cmd.Stdout, cmd.Stderr = &out, &errb
	err := cmd.Run()
	if i := strings.Index(out.String(), "RESULT:"); err == nil && i >= 0 {
		return out.String()[i+7:]
	}
	if strings.Contains(errb.String(), "stack overflow") || strings.Contains(errb.String(), "stack exceeds") {
		return "X"
	}
	return "?" + strings.TrimSpace(errb.String())
}

// ---------------------------------------------------------------- independent unfolding comparison

type unf struct {
	g      graph
	memo   map[string]int
	intern map[string]int
}

func newUnf(g graph) *unf { return &unf{g: g, memo: map[string]int{}, intern: map[string]int{}} }

func (u *unf) deref(o types.Object) types.Object {
	if ir, ok := o.(types.IndirectRef); ok {
		return u.g[int(ir.ObjectNumber)]
	}
	return o
}

func stripTag(s string) string {
	if i := strings.Index(s, "+"); i > 0 {
		return s[i+1:]
	}
	return s
}

func (u *unf) isFont(d types.Dict) bool {
	t, ok := d["Type"]
	if !ok {
		return false
	}
	n, ok := u.deref(t).(types.Name)
	return ok && string(n) == "Font"
}

func (u *unf) dictID(n int, d types.Dict) string {
	font := u.isFont(d)
	var sb strings.Builder
	sb.WriteString("<")
	for _, k := range sortedKeys(d) {
		v := d[k]
		if font && (k == "BaseFont" || k == "FontName" || k == "Name") {
			if nm, ok := u.deref(v).(types.Name); ok {
				v = types.Name(stripTag(string(nm)))
			}
		}
		sb.WriteString(hx(k) + ":" + strconv.Itoa(u.id(n-1, v)) + ";")
	}
	sb.WriteString(">")
	return sb.String()
}

// id returns a number identifying the n-level unfolding of o (0 for n == 0).
func (u *unf) id(n int, o types.Object) int {
	if n == 0 {
		return 0
	}
	key := strconv.Itoa(n) + "|" + ser(o)
	if v, ok := u.memo[key]; ok {
		return v
	}
	var s string
	switch d := u.deref(o).(type) {
	case types.IndirectRef:
		s = "R(" + strconv.Itoa(u.id(n-1, d)) + ")"
	case types.Array:
		s = "["
		for _, e := range d {
			s += strconv.Itoa(u.id(n-1, e)) + ","
		}
		s += "]"
	case types.Dict:
		s = u.dictID(n, d)
	case types.StreamDict:
		s = "S" + u.dictID(n, d.Dict) + hex.EncodeToString(d.Raw)
	default:
		s = ser(d)
	}
	v, ok := u.intern[s]
	if !ok {
		v = len(u.intern) + 1
		u.intern[s] = v
	}
	u.memo[key] = v
	return v
}

func (u *unf) same(n int, a, b types.Object) bool { return u.id(n, a) == u.id(n, b) }

// ---------------------------------------------------------------- graph generator

type gen struct {
	r *rand.Rand
	n int
}

// reals that differ by 1e-3 .. 1e-2, print identically or differently at 2 decimals
// (types.Float.String() prints %.2f), differ in sign only, and the two zeros
var nearReals = []float64{0.001, 0.004, 0.0049, 0.005, 0.01, 0.011, -0.001, -0.004, 0, math.Copysign(0, -1), 500.001, 500.004, 1.5, 2.5}

var names = []string{"A", "B", "Font", "Helv", "AB+Helv", "CD+Helv", "+X", "X", "X+", "A+B+C", "C", "B+C"}
var keys = []string{"A", "B", "Kids", "Parent", "Subtype", "W"}

func (g *gen) atom() types.Object {
	switch g.r.Intn(7) {
	case 0:
		return types.Integer(g.r.Intn(3))
	case 1:
		return types.Boolean(g.r.Intn(2) == 0)
	case 2:
		return types.Name(names[g.r.Intn(len(names))])
	case 3:
		return types.StringLiteral([]string{"s1", "s2", ""}[g.r.Intn(3)])
	case 4:
		return types.HexLiteral([]string{"00", "01"}[g.r.Intn(2)])
	case 5:
		return types.Float(nearReals[g.r.Intn(len(nearReals))])
	}
	return types.Integer(7)
}

func (g *gen) ref() types.Object {
	nr := 1 + g.r.Intn(g.n)
	if g.r.Intn(12) == 0 {
		nr = 90 + g.r.Intn(2) // missing
	}
	gn := 0
	if g.r.Intn(25) == 0 {
		gn = 1
	}
	return *types.NewIndirectRef(nr, gn)
}

func (g *gen) value(depth int) types.Object {
	p := g.r.Intn(100)
	switch {
	case p < 38:
		return g.ref()
	case p < 70:
		return g.atom()
	case p < 76:
		return nil
	case depth < 2 && p < 88:
		return g.array(depth + 1)
	case depth < 2:
		return g.dict(depth + 1)
	}
	return g.atom()
}

func (g *gen) array(depth int) types.Array {
	a := types.Array{}
	for i, n := 0, g.r.Intn(4); i < n; i++ {
		a = append(a, g.value(depth))
	}
	return a
}

func (g *gen) dict(depth int) types.Dict {
	d := types.Dict{}
	for i, n := 0, g.r.Intn(4); i < n; i++ {
		d[keys[g.r.Intn(len(keys))]] = g.value(depth)
	}
	if g.r.Intn(3) == 0 { // font-like dict
		if g.r.Intn(6) == 0 {
			d["Type"] = g.ref()
		} else {
			d["Type"] = types.Name("Font")
		}
		for _, k := range []string{"BaseFont", "FontName", "Name"} {
			switch g.r.Intn(8) {
			case 0, 1, 2:
				d[k] = types.Name(names[g.r.Intn(len(names))])
			case 3:
				d[k] = g.ref()
			case 4:
				if g.r.Intn(3) == 0 {
					d[k] = types.Integer(1)
				}
			}
		}
	}
	return d
}

func (g *gen) top() types.Object {
	p := g.r.Intn(100)
	switch {
	case p < 50:
		return g.dict(0)
	case p < 68:
		return g.array(0)
	case p < 88:
		sd := types.StreamDict{Dict: g.dict(0)}
		switch g.r.Intn(6) {
		case 0:
			sd.Raw = nil
		case 1:
			sd.Raw = []byte{}
		default:
			sd.Raw = []byte{byte(g.r.Intn(2)), 1}
		}
		return sd
	case p < 97:
		return g.atom()
	}
	return g.ref()
}

// copier deep-copies an object, remapping references nr -> nr+n (sometimes keeping them
// shared) and applying exactly one mutation at the node with index mutateAt (if >= 0).
type copier struct {
	g        *gen
	count    int
	mutateAt int
	mutated  string
}

func (c *copier) other(nm string) types.Name {
	if i := strings.Index(nm, "+"); i > 0 && c.g.r.Intn(2) == 0 {
		return types.Name("ZZ" + nm[i:]) // different subset tag only
	}
	return types.Name(nm + "x")
}

func (c *copier) cp(o types.Object) types.Object {
	idx := c.count
	c.count++
	mut := idx == c.mutateAt
	r := c.g.r
	switch o := o.(type) {
	case nil:
		if mut {
			c.mutated = "nil->int"
			return types.Integer(0)
		}
		return nil
	case types.Boolean:
		if mut {
			c.mutated = "bool"
			return !o
		}
		return o
	case types.Integer:
		if mut {
			if r.Intn(3) == 0 {
				c.mutated = "int->float"
				return types.Float(float64(o))
			}
			c.mutated = "int"
			return o + 1
		}
		return o
	case types.Float:
		if mut {
			switch r.Intn(6) {
			case 0:
				c.mutated = "float+1"
				return o + 1
			case 1:
				c.mutated = "float-sign"
				if o == 0 { // 0.0 <-> -0.0: equal for Go and for a reader
					c.mutated = "float-negzero"
					return types.Float(math.Copysign(0, -1))
				}
				return -o
			case 2:
				c.mutated = "float-to-int"
				return types.Integer(int(o))
			default:
				c.mutated = "float-near"
				return o + types.Float([]float64{0.001, 0.003, 0.0039, 0.004, 0.009, -0.001}[r.Intn(6)])
			}
		}
		return o
	case types.Name:
		if mut {
			c.mutated = "name"
			return c.other(string(o))
		}
		return o
	case types.StringLiteral:
		if mut {
			if r.Intn(2) == 0 {
				c.mutated = "str->hex"
				return types.HexLiteral(o)
			}
			c.mutated = "str"
			return o + "x"
		}
		return o
	case types.HexLiteral:
		if mut {
			c.mutated = "hex"
			return o + "00"
		}
		return o
	case types.IndirectRef:
		nr := int(o.ObjectNumber)
		if mut {
			switch r.Intn(4) {
			case 0:
				c.mutated = "ref->missing"
				return *types.NewIndirectRef(95, 0)
			case 1:
				c.mutated = "ref->null"
				return nil
			case 2:
				c.mutated = "ref-gen"
				return *types.NewIndirectRef(nr, int(o.GenerationNumber)+1)
			default:
				c.mutated = "ref-other"
				return *types.NewIndirectRef(1+r.Intn(2*c.g.n), 0)
			}
		}
		if nr <= c.g.n && r.Intn(7) != 0 {
			nr += c.g.n
		}
		return *types.NewIndirectRef(nr, int(o.GenerationNumber))
	case types.Array:
		a := types.Array{}
		for _, e := range o {
			a = append(a, c.cp(e))
		}
		if mut {
			if len(a) > 0 && r.Intn(2) == 0 {
				c.mutated = "arr-drop"
				a = a[:len(a)-1]
			} else {
				c.mutated = "arr-add"
				a = append(a, types.Integer(0))
			}
		}
		return a
	case types.Dict:
		return c.cpDict(o, mut)
	case types.StreamDict:
		sd := types.StreamDict{Dict: c.cpDict(o.Dict, false)}
		if o.Raw != nil {
			sd.Raw = append([]byte{}, o.Raw...)
		}
		if mut {
			switch r.Intn(3) {
			case 0:
				c.mutated = "raw-byte"
				sd.Raw = append(append([]byte{}, o.Raw...), 9)
			case 1:
				c.mutated = "raw-nil"
				sd.Raw = nil
			default:
				c.mutated = "raw-flip"
				if len(sd.Raw) > 0 {
					sd.Raw[0] ^= 1
				} else {
					sd.Raw = []byte{1}
				}
			}
		}
		return sd
	}
	panic("cp")
}

func (c *copier) cpDict(o types.Dict, mut bool) types.Dict {
	d := types.Dict{}
	for _, k := range sortedKeys(o) {
		d[k] = c.cp(o[k])
	}
	if mut {
		ks := sortedKeys(d)
		switch {
		case len(ks) > 0 && c.g.r.Intn(3) == 0:
			c.mutated = "dict-del"
			delete(d, ks[c.g.r.Intn(len(ks))])
		case len(ks) > 0 && c.g.r.Intn(2) == 0:
			c.mutated = "dict-rename"
			k := ks[c.g.r.Intn(len(ks))]
			v := d[k]
			delete(d, k)
			d["Z"] = v
		default:
			c.mutated = "dict-add"
			d["Z"] = types.Integer(1)
		}
	}
	return d
}

// ---------------------------------------------------------------- EqualObjects runs

func runEqual(o1, o2 types.Object, x *model.XRefTable, pairs []int, times int) (string, bool) {
	seen := map[string]bool{}
	allTrue := true
	for i := 0; i < times; i++ {
		res := func() (res string) {
			defer func() {
				if e := recover(); e != nil {
					res = "P"
				}
			}()
			var p []int
			if pairs != nil {
				p = append(make([]int, 0, len(pairs)), pairs...)
			}
			ok, err := model.EqualObjects(o1, o2, x, p)
			switch {
			case err != nil:
				return "E"
			case ok:
				return "T"
			}
			return "F"
		}()
		seen[res] = true
		if res != "T" {
			allTrue = false
		}
	}
	ks := []string{}
	for k := range seen {
		ks = append(ks, k)
	}
	sort.Strings(ks)
	return strings.Join(ks, ","), allTrue
}

func checkPair(r *vh.Run, g graph, o1, o2 types.Object, pairs []int, label string) {
	limit := 0 // default limit (100)
	switch r.Rand.Intn(10) {
	case 0:
		limit = 1
	case 1:
		limit = 3
	case 2:
		limit = 7
	}
	x := g.xrefL(limit)
	eff := x.MaxRecursionDepth()
	lim := vh.Int(int64(eff))
	m := &mirror{g: g}
	m.eq(o1, o2, append([]int{}, pairs...), 0)
	if m.over {
		// without the recursion depth check EqualObjects would not return on this input:
		// run the real function in a child process (a Go stack overflow is fatal)
		r.Count("eq:" + label + ":unbounded-without-depth-check")
		if len(pairs) != 0 || probes >= 25 {
			return
		}
		probes++
		obs := probeEqual(g, o1, o2, limit)
		in := map[string]any{"graph": g.ser(), "o1": ser(o1), "o2": ser(o2), "limit": eff}
		switch {
		case obs == "X":
			r.Count("eq:probe:stack-overflow")
			r.OracleFail("equalobjects-unbounded-recursion-mixed-direct-indirect-cycle", in,
				"model.EqualObjects(o1,o2,xRefTable,nil) recursed until the Go stack limit (fatal, not recoverable) in a child process")
		case strings.HasPrefix(obs, "?"):
			r.Count("eq:probe:child-error")
		default:
			r.Count("eq:probe:" + obs)
			r.OracleOK()
			// the model evaluates every dict entry: skip the rare inputs that are too expensive for it
			c := &mirror{g: g, limit: eff}
			c.eq(o1, o2, nil, 0)
			if c.over {
				r.Count("eq:probe:too-expensive-for-model")
			} else {
				r.Case("EqualObjects", []string{g.ser(), ser(o1), ser(o2), "", obs, lim}, "consistent")
			}
		}
		return
	}
	obs, allTrue := runEqual(o1, o2, x, pairs, 5)
	var ps string
	if pairs != nil {
		ps = vh.Ints(pairs)
	}
	r.Case("EqualObjects", []string{g.ser(), ser(o1), ser(o2), ps, obs, lim}, "consistent")
	r.Count("eq:" + label + ":" + obs)
	if limit > 0 {
		r.Count("eq:limit-" + strconv.Itoa(limit) + ":" + obs)
	}
	if strings.Contains(obs, "P") {
		r.OracleFail("equalobjects-panic", map[string]any{"graph": g.ser(), "o1": ser(o1), "o2": ser(o2)}, "panic in model.EqualObjects")
		return
	}
	if len(pairs) == 0 {
		u := newUnf(g)
		same := u.same(64, o1, o2)
		if allTrue && !same {
			r.OracleFail("equalobjects-true-but-unfoldings-differ",
				map[string]any{"graph": g.ser(), "o1": ser(o1), "o2": ser(o2)},
				"model.EqualObjects returned (true,nil) for two objects a reader can tell apart")
		} else {
			r.OracleOK()
		}
		if same {
			r.Count("unf:same")
		} else {
			r.Count("unf:differ")
		}
	}
}

func unfoldCase(r *vh.Run, g graph, o1, o2 types.Object, n int) {
	u := newUnf(g)
	r.Case("Unfold", []string{g.ser(), ser(o1), ser(o2), vh.Int(int64(n))}, vh.Bool(u.same(n, o1, o2)))
}

// contentDupCase: optimizeContentStreamUsage with o1 cached as object 1001 and o2 offered as
// object 1002 (several runs: Go map order); T when it proposes to replace 1002 by 1001.
func contentDupCase(r *vh.Run, g graph, o1, o2 types.Object) {
	sd1, ok1 := o1.(types.StreamDict)
	sd2, ok2 := o2.(types.StreamDict)
	if !ok1 || !ok2 {
		return
	}
	m := &mirror{g: g}
	m.eq(sd2, sd1, nil, 0)
	if m.over {
		r.Count("contentdup:unbounded-without-depth-check")
		return
	}
	l1, l2 := int64(len(sd1.Raw)), int64(len(sd2.Raw))
	sd1.StreamLength, sd2.StreamLength = &l1, &l2
	seen := map[string]bool{}
	for i := 0; i < 4; i++ {
		res := func() (res string) {
			defer func() {
				if e := recover(); e != nil {
					res = "P"
				}
			}()
			c1, c2 := sd1, sd2
			ctx := &model.Context{XRefTable: g.xref(), Optimize: &model.OptimizationContext{
				ContentStreamCache: map[int]*types.StreamDict{1001: &c1}}}
			ir, err := pdfcpu.VerifOptimizeContentStreamUsage(ctx, &c2, 1002)
			switch {
			case err != nil:
				return "E"
			case ir != nil && int(ir.ObjectNumber) == 1001:
				return "T"
			}
			return "F"
		}()
		seen[res] = true
	}
	ks := []string{}
	for k := range seen {
		ks = append(ks, k)
	}
	sort.Strings(ks)
	obs := strings.Join(ks, ",")
	r.Count("contentdup:" + obs)
	r.Case("ContentDup", []string{g.ser(), ser(o1), ser(o2), obs, vh.Int(int64(g.xref().MaxRecursionDepth()))}, "consistent")
}

func ref(nr int) types.Object { return *types.NewIndirectRef(nr, 0) }

func fixedGraphs(r *vh.Run) {
	font := func(base string, kid int) types.Dict {
		return types.Dict{"Type": types.Name("Font"), "BaseFont": types.Name(base), "D": types.Array{ref(kid)}}
	}
	// cyclic font / descendant structures
	g := graph{
		1: font("AB+X", 2), 2: types.Dict{"P": ref(1), "W": types.Integer(7)},
		3: font("CD+X", 4), 4: types.Dict{"P": ref(3), "W": types.Integer(7)},
		5: font("CD+X", 6), 6: types.Dict{"P": ref(5), "W": types.Integer(8)},
		7: font("CD+Y", 4),
		8: types.Dict{"Type": ref(9), "BaseFont": types.Name("AB+X")}, 9: types.Name("Font"),
		10: types.Dict{"Type": types.Name("Font"), "BaseFont": types.Name("AB+X")},
		11: types.Dict{"Type": types.Name("Font"), "BaseFont": types.Name("CD+X")},
		12: types.Dict{"Type": ref(9), "BaseFont": types.Name("CD+X")},
		13: types.Dict{"X": ref(99)}, 14: types.Dict{"X": nil}, 15: types.Dict{"X": types.Integer(0)},
		16: ref(13), 17: ref(14),
		// sibling trap: the pair (20,21) is visited under A and must not be assumed under B
		18: types.Dict{"A": ref(20), "B": ref(22)}, 19: types.Dict{"A": ref(21), "B": ref(23)},
		20: types.Dict{"V": types.Integer(1)}, 21: types.Dict{"V": types.Integer(1)},
		22: types.Dict{"N": ref(20), "Q": types.Integer(1)}, 23: types.Dict{"N": ref(21), "Q": types.Integer(2)},
		28: types.Dict{"Type": types.Name("Font"), "BaseFont": types.Name("+X")},
		29: types.Dict{"Type": types.Name("Font"), "BaseFont": types.Name("X")},
		30: types.Dict{"Type": types.Name("Font"), "FontName": types.Name("A+B+C")},
		31: types.Dict{"Type": types.Name("Font"), "FontName": types.Name("B+C")},
		32: types.Dict{"Type": types.Name("Font"), "FontName": types.Name("C")},
		33: types.Dict{"Type": types.Name("Font"), "Name": ref(34)}, 34: types.Name("Q+X"),
		24: types.Array{ref(24)}, 25: types.Array{ref(25)}, 26: types.Array{ref(27)}, 27: types.Array{ref(26), types.Integer(1)},
	}
	ids := []int{1, 3, 5, 7, 8, 10, 11, 12, 13, 14, 15, 16, 17, 18, 19, 20, 22, 23, 24, 25, 26, 27, 28, 29, 30, 31, 32, 33, 99}
	for _, a := range ids {
		for _, b := range ids {
			checkPair(r, g, ref(a), ref(b), nil, "fixed-ref")
			checkPair(r, g, g[a], g[b], nil, "fixed-direct")
			checkPair(r, g, ref(a), g[b], nil, "fixed-mixed")
			if a <= 8 && b <= 8 {
				for n := 0; n <= 6; n++ {
					unfoldCase(r, g, ref(a), ref(b), n)
				}
			}
		}
	}
	// objects that differ only in one real number
	gr := graph{}
	var rids []int
	addr := func(o types.Object) { gr[len(gr)+1] = o; rids = append(rids, len(gr)) }
	mat := func(a float64) types.Array {
		return types.Array{types.Float(a), types.Integer(0), types.Integer(0), types.Float(a), types.Integer(0), types.Integer(0)}
	}
	for _, a := range []float64{0.001, 0.004, 0.0049, 0.005, 0.01, -0.001, 0, math.Copysign(0, -1)} {
		addr(types.Dict{"Type": types.Name("Font"), "Subtype": types.Name("Type3"), "Name": types.Name("T3"), "FontMatrix": mat(a)})
		addr(types.StreamDict{Dict: types.Dict{"Subtype": types.Name("Form"), "Matrix": mat(a)}, Raw: []byte("q Q")})
		addr(types.StreamDict{Dict: types.Dict{"Subtype": types.Name("Image"), "Decode": types.Array{types.Float(a), types.Integer(1)}}, Raw: []byte{1, 2, 3, 4}})
	}
	for _, w := range []float64{500, 500.001, 500.004, 500.0049, 500.005, 500.01} {
		addr(types.Dict{"Type": types.Name("Font"), "BaseFont": types.Name("AB+X"), "Widths": types.Array{types.Float(w), types.Integer(600)}})
	}
	addr(types.Dict{"Type": types.Name("Font"), "BaseFont": types.Name("AB+X"), "Widths": types.Array{types.Integer(500), types.Integer(600)}})
	for _, a := range rids {
		for _, b := range rids {
			checkPair(r, gr, ref(a), ref(b), nil, "reals-ref")
			checkPair(r, gr, gr[a], gr[b], nil, "reals-direct")
			contentDupCase(r, gr, gr[a], gr[b])
			if a%5 == 0 && b%5 == 0 {
				unfoldCase(r, gr, ref(a), ref(b), 3)
			}
		}
	}
	// a cycle that alternates between a direct object and a reference on either side: no pair
	// is ever recorded (pairs are only recorded when both sides are references)
	g2 := graph{1: types.Array{types.Array{ref(1)}}, 2: types.Array{ref(1)},
		3: types.Dict{"X": types.Dict{"X": ref(3)}}, 4: types.Dict{"X": ref(3)}}
	checkPair(r, g2, ref(1), ref(2), nil, "mixed-cycle")
	checkPair(r, g2, ref(3), g2[4], nil, "mixed-cycle")
	checkPair(r, g2, g2[4], g2[3], nil, "mixed-cycle")
	checkPair(r, g2, ref(1), ref(1), nil, "mixed-cycle")
	checkPair(r, g2, ref(3), g2[3], nil, "mixed-cycle")
	for _, raw1 := range [][]byte{nil, {}, {1}, {1, 2}, {2, 1}} {
		for _, raw2 := range [][]byte{nil, {}, {1}, {1, 2}, {1, 3}} {
			contentDupCase(r, graph{}, types.StreamDict{Dict: types.Dict{}, Raw: raw1}, types.StreamDict{Dict: types.Dict{"Filter": types.Name("ASCIIHexDecode")}, Raw: raw2})
			contentDupCase(r, graph{}, types.StreamDict{Dict: types.Dict{}, Raw: raw1}, types.StreamDict{Dict: types.Dict{}, Raw: raw2})
		}
	}
	// caller-supplied pairs (K only).  Only even lengths: with an odd-length slice the real
	// containsPair never finds the pairs appended later and EqualObjects recurses until the
	// Go stack overflows on any cyclic graph (all callers in pdfcpu pass nil).
	for _, p := range [][]int{{}, {1, 3}, {3, 1}, {7, 8}, {7, 1, 3, 9}, {1, 3, 5, 6}, {20, 21}, {2, 4, 1, 3}, {4, 2}, {5, 5}} {
		checkPair(r, g, ref(1), ref(3), p, "fixed-pairs")
		checkPair(r, g, ref(3), ref(1), p, "fixed-pairs")
		checkPair(r, g, ref(1), ref(5), p, "fixed-pairs")
		checkPair(r, g, ref(18), ref(19), p, "fixed-pairs")
	}
}

func randomGraphs(r *vh.Run, count int) {
	for it := 0; it < count; it++ {
		gn := &gen{r: r.Rand, n: 1 + r.Rand.Intn(5)}
		g := graph{}
		for i := 1; i <= gn.n; i++ {
			g[i] = gn.top()
		}
		// dry run to count nodes
		dry := &copier{g: gn, mutateAt: -1}
		for i := 1; i <= gn.n; i++ {
			dry.cp(g[i])
		}
		c := &copier{g: gn, mutateAt: -1}
		if r.Rand.Intn(5) < 3 {
			c.mutateAt = r.Rand.Intn(dry.count)
		}
		for i := 1; i <= gn.n; i++ {
			g[i+gn.n] = c.cp(g[i])
		}
		label := "copy"
		if c.mutated != "" {
			label = "mut"
			r.Count("mutation:" + c.mutated)
		}
		for i := 1; i <= gn.n; i++ {
			a, b := i, i+gn.n
			if r.Rand.Intn(2) == 0 {
				a, b = b, a
			}
			checkPair(r, g, ref(a), ref(b), nil, label+"-ref")
			checkPair(r, g, g[a], g[b], nil, label+"-direct")
			contentDupCase(r, g, g[a], g[b])
			if r.Rand.Intn(3) == 0 {
				checkPair(r, g, ref(a), g[b], nil, label+"-mixed")
			}
			if r.Rand.Intn(4) == 0 {
				checkPair(r, g, ref(1+r.Rand.Intn(2*gn.n)), ref(1+r.Rand.Intn(2*gn.n)), nil, "random-ref")
			}
			if r.Rand.Intn(6) == 0 {
				var p []int
				for k, n := 0, 2*r.Rand.Intn(3); k < n; k++ {
					p = append(p, 1+r.Rand.Intn(2*gn.n))
				}
				checkPair(r, g, ref(a), ref(b), p, "with-pairs")
			}
			if r.Rand.Intn(3) == 0 {
				unfoldCase(r, g, ref(a), ref(b), r.Rand.Intn(7))
			}
		}
	}
}

// ---------------------------------------------------------------- documents

type pdfb struct{ objs []string }

func (b *pdfb) add(body string) int     { b.objs = append(b.objs, body); return len(b.objs) }
func (b *pdfb) set(nr int, body string) { b.objs[nr-1] = body }
func (b *pdfb) stream(dict string, data []byte) int {
	return b.add(fmt.Sprintf("<< %s /Length %d >>\nstream\n%s\nendstream", dict, len(data), data))
}
func (b *pdfb) bytes(root int) []byte {
	var w bytes.Buffer
	w.WriteString("%PDF-1.7\n%\xe2\xe3\xcf\xd3\n")
	offs := make([]int, len(b.objs))
	for i, o := range b.objs {
		offs[i] = w.Len()
		fmt.Fprintf(&w, "%d 0 obj\n%s\nendobj\n", i+1, o)
	}
	x := w.Len()
	fmt.Fprintf(&w, "xref\n0 %d\n0000000000 65535 f \n", len(b.objs)+1)
	for _, o := range offs {
		fmt.Fprintf(&w, "%010d 00000 n \n", o)
	}
	fmt.Fprintf(&w, "trailer\n<< /Size %d /Root %d 0 R >>\nstartxref\n%d\n%%%%EOF\n", len(b.objs)+1, root, x)
	return w.Bytes()
}

type docSpec struct {
	desc []string
}

func pick(r *rand.Rand, l ...string) string { return l[r.Intn(len(l))] }

// one font object built from a small parameter space, so that exact duplicates and
// near-duplicates (one deep entry differs) are frequent
func addFont(b *pdfb, r *rand.Rand, d *docSpec) int {
	if r.Intn(4) == 0 { // Type 3 font: duplicates and fonts that differ only in one real
		m := pick(r, "0.001", "0.001", "0.004", "0.0049", "0.005", "0.01", "-0.001", "0.0010")
		w := pick(r, "500.001", "500.001", "500.004", "500")
		d.desc = append(d.desc, "T3:"+m+":"+w)
		cp := b.stream("", []byte("500 0 0 0 500 500 d1 0 0 500 500 re f"))
		return b.add(fmt.Sprintf("<< /Type /Font /Subtype /Type3 /Name /T3 /FontBBox [0 0 1000 1000] /FontMatrix [%s 0 0 %s 0 0] /CharProcs << /a %d 0 R >> /Encoding << /Type /Encoding /Differences [97 /a] >> /FirstChar 97 /LastChar 97 /Widths [%s] /Resources << >> >>", m, m, cp, w))
	}
	if r.Intn(2) == 0 {
		enc := pick(r, "WinAnsiEncoding", "MacRomanEncoding")
		base := pick(r, "Helvetica", "Helvetica", "Courier")
		d.desc = append(d.desc, "T1:"+base+":"+enc)
		return b.add(fmt.Sprintf("<< /Type /Font /Subtype /Type1 /BaseFont /%s /Encoding /%s >>", base, enc))
	}
	tag := pick(r, "AAAAAA", "AAAAAA", "BBBBBB")
	file := pick(r, "\x00\x01\x00\x00AAAA", "\x00\x01\x00\x00AAAA", "\x00\x01\x00\x00AAAB")
	w := pick(r, "500", "500", "501", "500.001", "500.001", "500.004", "500.005")
	flags := pick(r, "32", "32", "34")
	d.desc = append(d.desc, "TT:"+tag+":"+hx(file)+":"+w+":"+flags)
	ff := b.stream(fmt.Sprintf("/Length1 %d", len(file)), []byte(file))
	fd := b.add(fmt.Sprintf("<< /Type /FontDescriptor /FontName /%s+Foo /Flags %s /FontBBox [0 0 1000 1000] /ItalicAngle 0 /Ascent 800 /Descent -200 /CapHeight 700 /StemV 80 /FontFile2 %d 0 R >>", tag, flags, ff))
	wid := fmt.Sprintf("[%s 600 700]", w)
	if r.Intn(3) == 0 {
		wid = fmt.Sprintf("%d 0 R", b.add(wid))
	}
	return b.add(fmt.Sprintf("<< /Type /Font /Subtype /TrueType /BaseFont /%s+Foo /FirstChar 32 /LastChar 34 /Widths %s /Encoding /WinAnsiEncoding /FontDescriptor %d 0 R >>", tag, wid, fd))
}

func addImage(b *pdfb, r *rand.Rand, d *docSpec, allowMask bool) int {
	dim := pick(r, "/Width 2 /Height 2", "/Width 2 /Height 2", "/Width 4 /Height 1")
	if r.Intn(5) == 0 {
		dim = fmt.Sprintf("/Width %d 0 R /Height 2", b.add("2"))
	}
	data := pick(r, "\x10\x20\x30\x40", "\x10\x20\x30\x40", "\x10\x20\x30\x41")
	extra := pick(r, "", "", "/Interpolate true", "/Decode [1 0]", "/Decode [0.001 1]", "/Decode [0.001 1]", "/Decode [0.004 1]", "/Decode [0.0 1]", "/Decode [-0.0 1]")
	mask := ""
	if allowMask && r.Intn(3) == 0 {
		mask = fmt.Sprintf("/SMask %d 0 R", addImage(b, r, d, false))
	}
	d.desc = append(d.desc, "IM:"+dim+":"+hx(data)+":"+extra+":"+mask)
	return b.stream(fmt.Sprintf("/Type /XObject /Subtype /Image %s /ColorSpace /DeviceGray /BitsPerComponent 8 %s %s", dim, extra, mask), []byte(data))
}

func addForm(b *pdfb, r *rand.Rand, d *docSpec) int {
	bbox := pick(r, "[0 0 10 10]", "[0 0 10 10]", "[0 0 10 11]")
	f := addFont(b, r, d)
	res := fmt.Sprintf("<< /Font << /FF %d 0 R >> >>", f)
	if r.Intn(3) == 0 {
		res = fmt.Sprintf("%d 0 R", b.add(res))
	}
	piece := ""
	if r.Intn(4) == 0 {
		piece = "/PieceInfo << /X << /LastModified (D:20200101000000Z) >> >> /LastModified (D:20200101000000Z)"
	}
	data := pick(r, "BT /FF 9 Tf (x) Tj ET", "BT /FF 9 Tf (x) Tj ET", "BT /FF 9 Tf (y) Tj ET")
	mx := pick(r, "", "", "/Matrix [1 0 0 1 0 0]", "/Matrix [1.001 0 0 1 0 0]", "/Matrix [1.001 0 0 1 0 0]", "/Matrix [1.004 0 0 1 0 0]", "/Matrix [1.0049 0 0 1 0 0]", "/Matrix [1.005 0 0 1 0 0]", "/Matrix [1.001 0 0 -1 0 0]")
	d.desc = append(d.desc, "FO:"+bbox+":"+data+":"+mx)
	return b.stream(fmt.Sprintf("/Type /XObject /Subtype /Form /BBox %s %s /Resources %s %s", bbox, mx, res, piece), []byte(data))
}

func genDoc(r *rand.Rand) ([]byte, *docSpec) {
	b := &pdfb{}
	d := &docSpec{}
	cat := b.add("")
	root := b.add("")
	nPages := 1 + r.Intn(4)
	var pool []int // font object numbers for sharing
	var kids []string
	var sharedRes string
	if r.Intn(3) == 0 {
		f := addFont(b, r, d)
		im := addImage(b, r, d, true)
		sharedRes = fmt.Sprintf("<< /Font << /F1 %d 0 R >> /XObject << /X1 %d 0 R >> >>", f, im)
		if r.Intn(2) == 0 {
			sharedRes = fmt.Sprintf("%d 0 R", b.add(sharedRes))
		}
	}
	var prevContent []byte
	for p := 0; p < nPages; p++ {
		var content bytes.Buffer
		fonts, xobjs := "", ""
		inherit := sharedRes != "" && r.Intn(2) == 0
		if inherit {
			content.WriteString("BT /F1 12 Tf (a) Tj ET /X1 Do ")
		} else {
			for i, n := 0, 1+r.Intn(2); i < n; i++ {
				var f int
				if len(pool) > 0 && r.Intn(4) == 0 {
					f = pool[r.Intn(len(pool))]
				} else {
					f = addFont(b, r, d)
					pool = append(pool, f)
				}
				fonts += fmt.Sprintf("/F%d %d 0 R ", i+1, f)
				fmt.Fprintf(&content, "BT /F%d 12 Tf (a) Tj ET ", i+1)
			}
			for i, n := 0, r.Intn(3); i < n; i++ {
				var x int
				if r.Intn(3) == 0 {
					x = addForm(b, r, d)
				} else {
					x = addImage(b, r, d, true)
				}
				xobjs += fmt.Sprintf("/X%d %d 0 R ", i+1, x)
				fmt.Fprintf(&content, "q /X%d Do Q ", i+1)
			}
		}
		cb := content.Bytes()
		if prevContent != nil && r.Intn(3) == 0 {
			// identical content bytes on two pages, provided this page defines every name used
			ok := true
			for _, m := range nameRe.FindAllStringSubmatch(string(prevContent), -1) {
				if !bytes.Contains(cb, []byte("/"+m[1]+" ")) {
					ok = false
				}
			}
			if ok {
				cb = prevContent
			}
		}
		prevContent = cb
		var contents string
		switch r.Intn(5) {
		case 0: // same bytes, hex-encoded: a different object with different Raw
			contents = fmt.Sprintf("%d 0 R", b.stream("/Filter /ASCIIHexDecode", []byte(hex.EncodeToString(cb)+">")))
		case 1: // array of two streams
			h := len(cb) / 2
			for h < len(cb) && cb[h] != ' ' {
				h++
			}
			contents = fmt.Sprintf("[%d 0 R %d 0 R]", b.stream("", cb[:h]), b.stream("", cb[h:]))
		default:
			contents = fmt.Sprintf("%d 0 R", b.stream("", cb))
		}
		res := ""
		if !inherit {
			res = fmt.Sprintf("/Resources << /Font << %s>> /XObject << %s>> >>", fonts, xobjs)
			if r.Intn(3) == 0 {
				res = fmt.Sprintf("/Resources %d 0 R", b.add(fmt.Sprintf("<< /Font << %s>> /XObject << %s>> >>", fonts, xobjs)))
			}
		}
		extra := pick(r, "", "", "/Rotate 90", "/CropBox [10 10 200 200]", "/MediaBox [0 0 300 400]", "/PieceInfo << /X << /LastModified (D:20200101000000Z) >> >> /LastModified (D:20200101000000Z)")
		kids = append(kids, fmt.Sprintf("%d 0 R", b.add(fmt.Sprintf("<< /Type /Page /Parent %d 0 R %s %s /Contents %s >>", root, res, extra, contents))))
	}
	// unreferenced objects
	for i, n := 0, r.Intn(3); i < n; i++ {
		b.add("<< /Junk true >>")
	}
	inh := ""
	if sharedRes != "" {
		inh = "/Resources " + sharedRes
	}
	b.set(root, fmt.Sprintf("<< /Type /Pages /Count %d /Kids [%s] /MediaBox [0 0 612 792] %s %s >>", nPages, strings.Join(kids, " "), pick(r, "", "/Rotate 180"), inh))
	b.set(cat, fmt.Sprintf("<< /Type /Catalog /Pages %d 0 R >>", root))
	return b.bytes(cat), d
}

// ---- documents with shared resource dictionaries

type sharedSpec struct {
	layout  int            // 0 per-page Resources with indirect category dicts, 1 one shared indirect Resources, 2 inherited, 3 inherited + per-page (same dicts), 4 inherited ProcSet only + per-page
	resObj  int            // object number of the shared Resources dict (0: direct on the page tree root / none)
	rootObj int            // page tree root
	catObj  map[string]int // category -> object number of the indirect category dict (0: direct)
	names   map[string][]string
	objs    map[string]int        // "Cat/Name" -> object number
	used    []map[string][]string // per page: category -> names used by the content
}

func useOp(cat, n string) string {
	switch cat {
	case "Font":
		return "BT /" + n + " 12 Tf (a) Tj ET "
	case "XObject":
		return "q /" + n + " Do Q "
	case "ExtGState":
		return "/" + n + " gs "
	case "ColorSpace":
		return "/" + n + " cs "
	case "Pattern":
		return "/Pattern cs /" + n + " scn "
	case "Shading":
		return "/" + n + " sh "
	}
	return "/Tag /" + n + " BDC EMC "
}

func genSharedDoc(r *rand.Rand) ([]byte, *sharedSpec) {
	b := &pdfb{}
	d := &docSpec{}
	cat := b.add("")
	root := b.add("")
	sp := &sharedSpec{layout: r.Intn(5), rootObj: root, catObj: map[string]int{}, names: map[string][]string{}, objs: map[string]int{}}
	shading := func(c string) string {
		return "<< /ShadingType 2 /ColorSpace /DeviceGray /Coords [0 0 " + c + " 1] /Function << /FunctionType 2 /Domain [0 1] /C0 [0] /C1 [1] /N 1 >> >>"
	}
	mk := func(c string, i int) int {
		v := pick(r, "1", "1", "2")
		switch c {
		case "Font":
			return addFont(b, r, d)
		case "XObject":
			if r.Intn(3) == 0 {
				return addForm(b, r, d)
			}
			return addImage(b, r, d, true)
		case "ExtGState":
			return b.add("<< /Type /ExtGState /LW " + v + " >>")
		case "ColorSpace":
			return b.add("[/CalGray << /WhitePoint [1 1 1] /Gamma " + v + " >>]")
		case "Pattern":
			return b.add("<< /Type /Pattern /PatternType 2 /Shading " + shading(v) + " >>")
		case "Shading":
			return b.add(shading(v))
		}
		return b.add("<< /MCID " + strconv.Itoa(i) + " /V " + v + " >>")
	}
	prefix := map[string]string{"Font": "F", "XObject": "X", "ExtGState": "GS", "ColorSpace": "CS", "Pattern": "P", "Shading": "Sh", "Properties": "MC"}
	catDict := map[string]string{}
	var cats []string
	for _, c := range resCats {
		if c != "Font" && r.Intn(3) == 0 {
			continue // category absent
		}
		cats = append(cats, c)
		body := "<< "
		for i, n := 1, 2+r.Intn(2); i <= n; i++ {
			nm := prefix[c] + strconv.Itoa(i)
			o := mk(c, i)
			sp.names[c] = append(sp.names[c], nm)
			sp.objs[c+"/"+nm] = o
			body += fmt.Sprintf("/%s %d 0 R ", nm, o)
		}
		body += ">>"
		if sp.layout == 0 || sp.layout >= 3 || r.Intn(2) == 0 {
			sp.catObj[c] = b.add(body)
			catDict[c] = fmt.Sprintf("%d 0 R", sp.catObj[c])
		} else {
			catDict[c] = body
		}
	}
	resBody := "<< "
	for _, c := range cats {
		resBody += "/" + c + " " + catDict[c] + " "
	}
	resBody += ">>"
	nPages := 2 + r.Intn(3)
	var kids []string
	pageRes, rootRes := "", ""
	switch sp.layout {
	case 0:
		pageRes = "/Resources " + resBody
	case 1:
		sp.resObj = b.add(resBody)
		pageRes = fmt.Sprintf("/Resources %d 0 R", sp.resObj)
	case 2, 3:
		if r.Intn(2) == 0 {
			sp.resObj = b.add(resBody)
			rootRes = fmt.Sprintf("/Resources %d 0 R", sp.resObj)
		} else {
			rootRes = "/Resources " + resBody
		}
		if sp.layout == 3 {
			pageRes = "/Resources " + resBody // same shared indirect category dicts again
		}
	}
	if sp.layout == 4 {
		// the inherited Resources have none of the categories: every (shared, indirect)
		// category dict of the page's own Resources is added to the inherited ones
		rootRes = "/Resources << /ProcSet [/PDF /Text] >>"
		pageRes = "/Resources " + resBody
	}
	for p := 0; p < nPages; p++ {
		used := map[string][]string{}
		var content strings.Builder
		for _, c := range cats {
			for _, n := range sp.names[c] {
				// different and overlapping subsets; a page may use nothing of a category
				if r.Intn(2) == 0 {
					used[c] = append(used[c], n)
					content.WriteString(useOp(c, n))
				}
			}
		}
		if len(used["Font"]) == 0 {
			n := sp.names["Font"][p%len(sp.names["Font"])]
			used["Font"] = append(used["Font"], n)
			content.WriteString(useOp("Font", n))
		}
		sp.used = append(sp.used, used)
		c := b.stream("", []byte(content.String()))
		kids = append(kids, fmt.Sprintf("%d 0 R", b.add(fmt.Sprintf("<< /Type /Page /Parent %d 0 R %s /Contents %d 0 R >>", root, pageRes, c))))
	}
	b.set(root, fmt.Sprintf("<< /Type /Pages /Count %d /Kids [%s] /MediaBox [0 0 612 792] %s >>", nPages, strings.Join(kids, " "), rootRes))
	b.set(cat, fmt.Sprintf("<< /Type /Catalog /Pages %d 0 R >>", root))
	return b.bytes(cat), sp
}

func kvString(d types.Dict) string {
	p := []string{}
	for _, k := range sortedKeys(d) {
		v := "0"
		if ir, ok := d[k].(types.IndirectRef); ok {
			v = vh.Int(int64(ir.ObjectNumber))
		}
		p = append(p, hx(k)+"="+v)
	}
	return strings.Join(p, ",")
}

// sharedCat returns the category dict at its shared location.
func sharedCat(ctx *model.Context, sp *sharedSpec, c string) types.Dict {
	if nr := sp.catObj[c]; nr != 0 {
		d, _ := ctx.DereferenceDict(*types.NewIndirectRef(nr, 0))
		return d
	}
	holder := sp.resObj
	var res types.Dict
	if holder != 0 {
		res, _ = ctx.DereferenceDict(*types.NewIndirectRef(holder, 0))
	} else {
		rd, _ := ctx.DereferenceDict(*types.NewIndirectRef(sp.rootObj, 0))
		if rd != nil {
			res, _ = ctx.DereferenceDict(rd["Resources"])
		}
	}
	if res == nil {
		return nil
	}
	d, _ := ctx.DereferenceDict(res[c])
	return d
}

// consolidateK: the real ConsolidatePageResources on the read document against the model's
// consolidateCloned, per category: shared dict afterwards | every page's own dict afterwards.
func consolidateK(r *vh.Run, doc []byte, sp *sharedSpec) {
	ctx, err := readCtx(doc)
	if err != nil {
		return
	}
	before := map[string]string{}
	for c := range sp.names {
		if d := sharedCat(ctx, sp, c); d != nil {
			before[c] = kvString(d)
		}
	}
	perr := func() (e error) {
		defer func() {
			if x := recover(); x != nil {
				e = fmt.Errorf("panic: %v", x)
			}
		}()
		return ctx.ConsolidatePageResources()
	}()
	if perr != nil {
		r.Count("doc:shared:consolidate-error")
		return
	}
	for _, c := range resCats {
		if _, ok := before[c]; !ok {
			continue
		}
		var pages, impl []string
		for p := range sp.used {
			u := []string{}
			for _, n := range sp.used[p][c] {
				u = append(u, hx(n))
			}
			pages = append(pages, strings.Join(u, ","))
			pd, _, _, err := ctx.PageDict(p+1, false)
			own := ""
			if err == nil && pd != nil {
				if res, _ := ctx.DereferenceDict(pd["Resources"]); res != nil {
					if _, isRef := pd["Resources"].(types.IndirectRef); isRef {
						own = "SHARED-RESOURCES-REF"
					} else if cd, ok := res[c].(types.Dict); ok {
						own = kvString(cd)
					} else if res[c] != nil {
						own = "NOT-A-DIRECT-DICT"
					}
				}
			}
			impl = append(impl, own)
		}
		after := ""
		if d := sharedCat(ctx, sp, c); d != nil {
			after = kvString(d)
		}
		r.Case("Consolidate", []string{before[c], strings.Join(pages, ";")}, after+"|"+strings.Join(impl, ";"))
	}
}

// ---- the scanner that decides which resource names a page uses (parseContent)

func usedNamesCase(r *vh.Run, content string) {
	res := func() (res string) {
		defer func() {
			if e := recover(); e != nil {
				res = "panic"
			}
		}()
		prn, err := model.VerifParseContent(content)
		if err != nil {
			return "err"
		}
		items := []string{}
		for _, c := range resCats {
			for n := range prn[c] {
				items = append(items, c+":"+hx(n))
			}
		}
		sort.Strings(items)
		return "ok:" + strings.Join(items, ",")
	}()
	r.Case("UsedNames", []string{hx(content)}, res)
	r.Count("scan:" + strings.SplitN(res, ":", 2)[0])
}

// grammarCase: content built from the grammar of theorem C20_used_names_exact; the real
// scanner must report exactly the names in operator position.
func grammarCase(r *vh.Run) {
	var content strings.Builder
	want := map[string]bool{}
	plain := []byte("abc /<[%>]~0123 \n")
	for i, n := 0, 1+r.Rand.Intn(5); i < n; i++ {
		if r.Rand.Intn(3) != 0 {
			content.WriteString(" (")
			depth := 0
			for k, m := 0, r.Rand.Intn(9); k < m; k++ {
				switch r.Rand.Intn(6) {
				case 0:
					content.WriteByte('\\')
					content.WriteByte([]byte("\\\\)(n1\n")[r.Rand.Intn(7)])
				case 1:
					for q, e := 0, r.Rand.Intn(3); q < e; q++ { // runs of escaped backslashes
						content.WriteString("\\\\")
					}
				case 2: // nested balanced parentheses, to any depth
					content.WriteByte('(')
					depth++
				case 3:
					if depth > 0 {
						content.WriteByte(')')
						depth--
					}
				default:
					content.WriteByte(plain[r.Rand.Intn(len(plain))])
				}
			}
			for ; depth > 0; depth-- {
				content.WriteByte(')')
			}
			content.WriteString(") Tj")
		}
		nm := []string{"F2", "Im1", "GS1", "CS1", "P1", "Sh1", "MC1", "BI", "cs", "x"}[r.Rand.Intn(10)] + strconv.Itoa(i)
		switch r.Rand.Intn(7) {
		case 0:
			content.WriteString(" /" + nm + " 12 Tf")
			want["Font:"+hx(nm)] = true
		case 1:
			content.WriteString(" /" + nm + " Do")
			want["XObject:"+hx(nm)] = true
		case 2:
			content.WriteString(" /" + nm + " gs")
			want["ExtGState:"+hx(nm)] = true
		case 3:
			content.WriteString(" /" + nm + " cs")
			want["ColorSpace:"+hx(nm)] = true
		case 4:
			content.WriteString(" /Pattern cs /" + nm + " scn")
			want["Pattern:"+hx(nm)] = true
		case 5:
			content.WriteString(" /" + nm + " sh")
			want["Shading:"+hx(nm)] = true
		default:
			content.WriteString(" /T /" + nm + " BDC")
			want["Properties:"+hx(nm)] = true
		}
	}
	c := content.String()
	usedNamesCase(r, c)
	items := []string{}
	for k := range want {
		items = append(items, k)
	}
	sort.Strings(items)
	exp := "ok:" + strings.Join(items, ",")
	got := func() (res string) {
		defer func() {
			if e := recover(); e != nil {
				res = "panic"
			}
		}()
		prn, err := model.VerifParseContent(c)
		if err != nil {
			return "err"
		}
		l := []string{}
		for _, cat := range resCats {
			for n := range prn[cat] {
				l = append(l, cat+":"+hx(n))
			}
		}
		sort.Strings(l)
		return "ok:" + strings.Join(l, ",")
	}()
	if got != exp {
		r.OracleFail("scanner-misses-name-in-operator-position", map[string]any{"content": c}, "parseContent reports "+got+", names in operator position "+exp)
	} else {
		r.OracleOK()
	}
}

// content tokens for the exhaustive K stream: every kind of operand the scanner skips, every
// operator it knows, with and without glued neighbours
var scanTokens = []string{
	"/F1", "/X", "/Pattern", "/DeviceRGB", "12", "0.5", "Tf", "Do", "gs", "cs", "CS", "scn", "SCN", "sh",
	"BDC", "DP", "BMC", "EMC", "ri", "MP", "Tj", "TJ", "q", "Doq", "csx", "BT",
	"(a)", "()", "(a\\)b)", "(a\\\\)", "(\\\\\\)x)", "(a(b)c)", "(a\\(b)", "(\\101\\\n)", "(a", ")",
	"(" + strings.Repeat("\\", 3) + ")z)", "(" + strings.Repeat("\\", 4) + ")", "(" + strings.Repeat("\\", 5) + ")w)", "(" + strings.Repeat("\\", 2) + "(" + strings.Repeat("\\", 3) + "()",
	"<28>", "<2f46>", "<", "[(a)-1(b\\))]", "[<28>1", "]", "% /F9 )(\n", "%x",
	"<< /K 1 >>", "<</A<</B 1>>>>", "<< /K", "/T<</M 0>>",
}

func scannerK(r *vh.Run) {
	seps := []string{" ", "", "\n"}
	emit := func(toks []string) {
		sep := seps[0]
		usedNamesCase(r, strings.Join(toks, sep))
		if r.Rand.Intn(4) == 0 {
			var sb strings.Builder
			for _, t := range toks {
				sb.WriteString(t)
				sb.WriteString(seps[r.Rand.Intn(len(seps))])
			}
			usedNamesCase(r, sb.String())
		}
	}
	n := len(scanTokens)
	for a := 0; a < n; a++ {
		emit([]string{scanTokens[a]})
		for b := 0; b < n; b++ {
			emit([]string{scanTokens[a], scanTokens[b]})
			for c := 0; c < n; c++ {
				if r.Thorough() || r.Rand.Intn(6) == 0 {
					emit([]string{scanTokens[a], scanTokens[b], scanTokens[c]})
				}
			}
		}
	}
	for i, m := 0, r.Pick(4000, 100000); i < m; i++ {
		grammarCase(r)
	}
	// longer random sequences
	for i, m := 0, r.Pick(4000, 200000); i < m; i++ {
		var toks []string
		for k, l := 0, 4+r.Rand.Intn(5); k < l; k++ {
			toks = append(toks, scanTokens[r.Rand.Intn(n)])
		}
		emit(toks)
	}
}

// hazards: operands the scanner has to skip correctly; each is followed by the only use of a
// resource name
type hazard struct{ id, text string }

var hazards = []hazard{
	{"plain", "(abc) Tj"},
	{"bs-end", "(Folder C:\\\\) Tj"},
	{"bs1-close", "(a\\) b) Tj"},
	{"bs2-close", "(a\\\\) Tj"},
	{"bs3-close", "(a\\\\\\) b) Tj"},
	{"bs4-close", "(a\\\\\\\\) Tj"},
	{"bs5-close", "(a\\\\\\\\\\) b) Tj"},
	{"bs1-open", "(a\\( b) Tj"},
	{"bs2-open", "(a\\\\(b) c) Tj"},
	{"bs3-open", "(a\\\\\\( b) Tj"},
	{"esc-both", "(\\(\\)\\\\) Tj"},
	{"octal", "(\\101\\051\\50) Tj"},
	{"linecont", "(ab\\\ncd) Tj"},
	{"nested", "(a (b) c) Tj"},
	{"nested2", "(a (b (c) d) e) Tj"},
	{"nested-name", "(x (y) /F9 z) Tj"},
	{"nested-lt", "(a (b) <c) Tj"},
	{"nested-bracket", "(a (b) [c) Tj"},
	{"nested-percent", "(see (fig) 100%) Tj"},
	{"hex-29", "<2928> Tj"},
	{"hex-sp", "<28 29 2F> Tj"},
	{"tj-array", "[(a\\)) -10 (b\\\\) <29>] TJ"},
	{"dict-bdc", "/Span << /ActualText (a) /MCID 0 >> BDC EMC"},
	{"dict-dp", "/Tag << /N /F9 /A << /B 1 >> >> DP"},
	{"inline-image", "q BI /W 2 /H 2 /CS /G /BPC 8 ID )/EI( EI Q"},
	{"inline-image2", "q BI /W 4 /H 1 /CS /G /BPC 8 /F /AHx ID 29 2F 45 49> EI Q"},
	{"comment", "% /F9 ) ( 12 Tf\n"},
	{"comment-cr", "% (unbalanced\r"},
}

// genHazardDoc: on every page, every category's only use of a name follows a hazard
func genHazardDoc(r *rand.Rand, forced int) ([]byte, string) {
	b := &pdfb{}
	d := &docSpec{}
	cat := b.add("")
	root := b.add("")
	h := hazards[forced%len(hazards)]
	f1 := addFont(b, r, d)
	f2 := addFont(b, r, d)
	im := addImage(b, r, d, false)
	gs := b.add("<< /Type /ExtGState /LW 2 >>")
	cs := b.add("[/CalGray << /WhitePoint [1 1 1] >>]")
	sh := b.add("<< /ShadingType 2 /ColorSpace /DeviceGray /Coords [0 0 1 1] /Function << /FunctionType 2 /Domain [0 1] /C0 [0] /C1 [1] /N 1 >> >>")
	pt := b.add(fmt.Sprintf("<< /Type /Pattern /PatternType 2 /Shading %d 0 R >>", sh))
	mc := b.add("<< /MCID 0 >>")
	res := fmt.Sprintf("<< /Font << /F1 %d 0 R /F2 %d 0 R >> /XObject << /Im1 %d 0 R >> /ExtGState << /GS1 %d 0 R >> /ColorSpace << /CS1 %d 0 R >> /Shading << /Sh1 %d 0 R >> /Pattern << /P1 %d 0 R >> /Properties << /MC1 %d 0 R >> >>", f1, f2, im, gs, cs, sh, pt, mc)
	uses := []string{"/F2 12 Tf (x) Tj", "q /Im1 Do Q", "/GS1 gs", "/CS1 cs", "/Pattern cs /P1 scn", "/Sh1 sh", "/Tag /MC1 BDC EMC"}
	var kids []string
	for p := 0; p < 2; p++ {
		var content strings.Builder
		content.WriteString("BT /F1 12 Tf ")
		r.Shuffle(len(uses), func(i, j int) { uses[i], uses[j] = uses[j], uses[i] })
		for i, u := range uses {
			hz := h
			if p == 1 {
				hz = hazards[r.Intn(len(hazards))]
			}
			if i%2 == 0 || p == 0 {
				content.WriteString(hz.text + " ")
			}
			content.WriteString(u + " ")
		}
		content.WriteString("ET")
		c := b.stream("", []byte(content.String()))
		kids = append(kids, fmt.Sprintf("%d 0 R", b.add(fmt.Sprintf("<< /Type /Page /Parent %d 0 R /Resources %s /Contents %d 0 R >>", root, res, c))))
		if p == 0 && r.Intn(2) == 0 {
			break
		}
	}
	b.set(root, fmt.Sprintf("<< /Type /Pages /Count %d /Kids [%s] /MediaBox [0 0 612 792] >>", len(kids), strings.Join(kids, " ")))
	b.set(cat, fmt.Sprintf("<< /Type /Catalog /Pages %d 0 R >>", root))
	return b.bytes(cat), h.id
}

// ---- /Contents arrays with tiny elements

// genContentsArrayDoc: pages whose /Contents is an array (or a single reference) of small
// streams -- decoded length 0, 1, 2 and more: q, Q, newline, space, empty, hex-encoded --
// shared between pages and not.
func genContentsArrayDoc(r *rand.Rand) []byte {
	b := &pdfb{}
	cat := b.add("")
	root := b.add("")
	font := b.add("<< /Type /Font /Subtype /Type1 /BaseFont /Helvetica /Encoding /WinAnsiEncoding >>")
	pieces := []string{"q", "Q", "\n", " ", "", "q\n", "Q\n", "  ", "1 0 0 1 5 5 cm\n", "BT /F1 12 Tf (a) Tj ET\n", "0 0 5 5 re f\n"}
	mk := func(p string) int {
		if r.Intn(4) == 0 {
			return b.stream("/Filter /ASCIIHexDecode", []byte(hex.EncodeToString([]byte(p))+">"))
		}
		return b.stream("", []byte(p))
	}
	var shared []int
	for i := 0; i < 5; i++ {
		shared = append(shared, mk(pieces[r.Intn(5)])) // the tiny ones
	}
	var kids []string
	for p, n := 0, 2+r.Intn(2); p < n; p++ {
		var refs []string
		for i, m := 0, 1+r.Intn(6); i < m; i++ {
			var o int
			switch r.Intn(3) {
			case 0:
				o = shared[r.Intn(len(shared))]
			default:
				o = mk(pieces[r.Intn(len(pieces))])
			}
			refs = append(refs, fmt.Sprintf("%d 0 R", o))
		}
		// a typical wrapper: q ... Q as one-byte streams around the real content
		if r.Intn(2) == 0 {
			refs = append([]string{fmt.Sprintf("%d 0 R", mk("q")), fmt.Sprintf("%d 0 R", mk("1 0 0 1 5 5 cm\n"))}, refs...)
			refs = append(refs, fmt.Sprintf("%d 0 R", mk("Q")))
		}
		contents := "[" + strings.Join(refs, " ") + "]"
		if len(refs) == 1 && r.Intn(2) == 0 {
			contents = refs[0]
		}
		if r.Intn(6) == 0 {
			contents = fmt.Sprintf("%d 0 R", b.add(contents)) // the array itself indirect
		}
		kids = append(kids, fmt.Sprintf("%d 0 R", b.add(fmt.Sprintf("<< /Type /Page /Parent %d 0 R /Resources << /Font << /F1 %d 0 R >> >> /Contents %s >>", root, font, contents))))
	}
	b.set(root, fmt.Sprintf("<< /Type /Pages /Count %d /Kids [%s] /MediaBox [0 0 612 792] >>", len(kids), strings.Join(kids, " ")))
	b.set(cat, fmt.Sprintf("<< /Type /Catalog /Pages %d 0 R >>", root))
	return b.bytes(cat)
}

// contentLens: decoded lengths of the elements of every page's /Contents array ("-" when it
// is not an array)
func contentLens(ctx *model.Context) []string {
	var out []string
	for p := 1; p <= ctx.PageCount; p++ {
		d, _, _, err := ctx.PageDict(p, false)
		if err != nil {
			out = append(out, "?")
			continue
		}
		o, _ := ctx.Dereference(d["Contents"])
		a, ok := o.(types.Array)
		if !ok {
			out = append(out, "-")
			continue
		}
		var l []string
		for _, e := range a {
			sd, _, err := ctx.DereferenceStreamDict(e)
			if err != nil || sd == nil {
				l = append(l, "?")
				continue
			}
			if err := sd.Decode(); err != nil {
				l = append(l, "?")
				continue
			}
			l = append(l, strconv.Itoa(len(sd.Content)))
		}
		out = append(out, strings.Join(l, ","))
	}
	return out
}

// removeEmptyK: per page, the decoded lengths of the /Contents array after Optimize with
// OptimizeDuplicateContentStreams against the model's removeEmpty on the lengths before.
func removeEmptyK(r *vh.Run, doc []byte) {
	defer func() { recover() }()
	before, err := readCtx(doc)
	if err != nil {
		return
	}
	lb := contentLens(before)
	out, err := optimizeBytes(doc, true)
	if err != nil {
		return
	}
	after, err := readCtx(out)
	if err != nil {
		return
	}
	la := contentLens(after)
	for i := range lb {
		if lb[i] == "-" || strings.Contains(lb[i], "?") || i >= len(la) {
			continue
		}
		impl := la[i]
		if impl == "-" {
			impl = "" // an array that lost every element
		}
		r.Case("RemoveEmpty", []string{lb[i]}, impl)
	}
}

// ---- duplicates with normalisable extras

// genExtrasDoc: k copies of one form XObject / image / soft-mask group form (same dict, same
// bytes), some of them carrying an extra entry (/PieceInfo, /LastModified, /Metadata, /OC,
// /StructParent(s)) with identical or different values; one copy per page or all on page 1.
func genExtrasDoc(r *rand.Rand) ([]byte, string) {
	b := &pdfb{}
	cat := b.add("")
	root := b.add("")
	kind := pick(r, "form", "form", "form", "image", "smask")
	extra := pick(r, "PieceInfo", "PieceInfo", "PieceInfo", "LastModified", "Metadata", "OC", "StructParent", "none")
	mode := pick(r, "all", "all", "first", "last", "none")
	differ := r.Intn(2) == 0
	k := 2 + r.Intn(3)
	onePage := r.Intn(3) == 0
	ocgs := []string{}
	extraFor := func(i int) string {
		has := mode == "all" || (mode == "first" && i == 0) || (mode == "last" && i == k-1)
		if !has || extra == "none" {
			return ""
		}
		v := 0
		if differ {
			v = i
		}
		switch extra {
		case "PieceInfo":
			if kind == "image" {
				return ""
			}
			return fmt.Sprintf("/PieceInfo << /App << /LastModified (D:2020010100000%dZ) /Private << /V %d >> >> >>", v, v)
		case "LastModified":
			if kind == "image" {
				return ""
			}
			return fmt.Sprintf("/LastModified (D:2021010100000%dZ)", v)
		case "Metadata":
			xml := fmt.Sprintf("<?xpacket begin='' id='W5M0MpCehiHzreSzNTczkc9d'?><x:xmpmeta xmlns:x='adobe:ns:meta/'><v>%d</v></x:xmpmeta><?xpacket end='w'?>", v)
			return fmt.Sprintf("/Metadata %d 0 R", b.stream("/Type /Metadata /Subtype /XML", []byte(xml)))
		case "OC":
			o := b.add(fmt.Sprintf("<< /Type /OCG /Name (L%d) >>", v))
			ocgs = append(ocgs, fmt.Sprintf("%d 0 R", o))
			return fmt.Sprintf("/OC %d 0 R", o)
		}
		if kind == "image" {
			return fmt.Sprintf("/StructParent %d", v)
		}
		return fmt.Sprintf("/StructParents %d", v)
	}
	common := ""
	if extra == "PieceInfo" && kind != "image" {
		common = "/LastModified (D:20200101000000Z)" // required next to PieceInfo; the same on every copy
	}
	var copies []int
	for i := 0; i < k; i++ {
		e := extraFor(i)
		switch kind {
		case "form":
			copies = append(copies, b.stream("/Type /XObject /Subtype /Form /BBox [0 0 10 10] /Resources << >> "+common+" "+e, []byte("0 0 5 5 re f")))
		case "image":
			copies = append(copies, b.stream("/Type /XObject /Subtype /Image /Width 2 /Height 2 /ColorSpace /DeviceGray /BitsPerComponent 8 "+e, []byte("\x10\x20\x30\x40")))
		default:
			copies = append(copies, b.stream("/Type /XObject /Subtype /Form /BBox [0 0 10 10] /Group << /S /Transparency /CS /DeviceGray >> /Resources << >> "+common+" "+e, []byte("0 0 5 5 re f")))
		}
	}
	font := b.add("<< /Type /Font /Subtype /Type1 /BaseFont /Helvetica /Encoding /WinAnsiEncoding >>")
	var kids []string
	page := func(use []int) {
		var content strings.Builder
		content.WriteString("BT /F1 12 Tf (a) Tj ET ")
		res := fmt.Sprintf("/Font << /F1 %d 0 R >> ", font)
		if kind == "smask" {
			res += "/ExtGState << "
			for j, c := range use {
				res += fmt.Sprintf("/GS%d << /Type /ExtGState /SMask << /Type /Mask /S /Luminosity /G %d 0 R >> >> ", j+1, c)
				fmt.Fprintf(&content, "/GS%d gs ", j+1)
			}
			res += ">>"
		} else {
			res += "/XObject << "
			for j, c := range use {
				res += fmt.Sprintf("/X%d %d 0 R ", j+1, c)
				fmt.Fprintf(&content, "q /X%d Do Q ", j+1)
			}
			res += ">>"
		}
		c := b.stream("", []byte(content.String()))
		kids = append(kids, fmt.Sprintf("%d 0 R", b.add(fmt.Sprintf("<< /Type /Page /Parent %d 0 R /Resources << %s >> /Contents %d 0 R >>", root, res, c))))
	}
	if onePage {
		page(copies)
		page(copies[:1])
	} else {
		for _, c := range copies {
			page([]int{c})
		}
	}
	b.set(root, fmt.Sprintf("<< /Type /Pages /Count %d /Kids [%s] /MediaBox [0 0 612 792] >>", len(kids), strings.Join(kids, " ")))
	ocp := ""
	if len(ocgs) > 0 {
		ocp = fmt.Sprintf("/OCProperties << /OCGs [%s] /D << /Order [%s] >> >>", strings.Join(ocgs, " "), strings.Join(ocgs, " "))
	}
	b.set(cat, fmt.Sprintf("<< /Type /Catalog /Pages %d 0 R %s >>", root, ocp))
	desc := kind + ":" + extra + ":" + mode
	return b.bytes(cat), desc
}

// formDedupK: number of distinct form XObjects named by the pages after one and after two
// optimisations, against the model's normalise-then-compare pass run twice.
func formDedupK(r *vh.Run, doc []byte) {
	defer func() { recover() }()
	ctx, err := readCtx(doc)
	if err != nil {
		return
	}
	g := graph{}
	for nr, e := range ctx.Table {
		if e != nil && !e.Free && nr > 0 {
			g[nr] = e.Object
		}
	}
	var forms []int
	for p := 1; p <= ctx.PageCount; p++ {
		_, _, inh, err := ctx.PageDict(p, false)
		if err != nil || inh == nil || inh.Resources == nil {
			continue
		}
		xd, _ := ctx.DereferenceDict(inh.Resources["XObject"])
		for _, k := range sortedKeys(xd) {
			if ir, ok := xd[k].(types.IndirectRef); ok && subtypeOf(g[int(ir.ObjectNumber)]) == "Form" {
				forms = append(forms, int(ir.ObjectNumber))
			}
		}
	}
	if len(forms) == 0 {
		return
	}
	gs := g.ser()
	out1, err := optimizeBytes(doc, false)
	if err != nil {
		return
	}
	out2, err := optimizeBytes(out1, false)
	if err != nil {
		return
	}
	a1, err1 := readCtx(out1)
	a2, err2 := readCtx(out2)
	if err1 != nil || err2 != nil {
		return
	}
	impl := fmt.Sprintf("%d,%d", takeCensus(a1).DistinctPageForms, takeCensus(a2).DistinctPageForms)
	r.Case("FormDedup", []string{gs, vh.Ints(forms), vh.Int(int64(ctx.XRefTable.MaxRecursionDepth()))}, impl)
}

// a content stream whose raw bytes are also a valid ASCIIHex body: the same Raw under two
// different stream dictionaries
func genRawTwinDoc(r *rand.Rand) []byte {
	b := &pdfb{}
	cat := b.add("")
	root := b.add("")
	raw := []byte("0 0 0 0 0 0 c\n")
	c1 := b.stream("", raw)
	c2 := b.stream("/Filter /ASCIIHexDecode", raw)
	if r.Intn(2) == 0 {
		c1, c2 = c2, c1
	}
	p1 := b.add(fmt.Sprintf("<< /Type /Page /Parent %d 0 R /Resources << >> /Contents %d 0 R >>", root, c1))
	p2 := b.add(fmt.Sprintf("<< /Type /Page /Parent %d 0 R /Resources << >> /Contents %d 0 R >>", root, c2))
	b.set(root, fmt.Sprintf("<< /Type /Pages /Count 2 /Kids [%d 0 R %d 0 R] /MediaBox [0 0 612 792] >>", p1, p2))
	b.set(cat, fmt.Sprintf("<< /Type /Catalog /Pages %d 0 R >>", root))
	return b.bytes(cat)
}

// ---- fingerprint

type ctxUnf struct {
	ctx *model.Context
}

func (c *ctxUnf) canon(o types.Object, depth int) string {
	if depth == 0 {
		return "~"
	}
	if ir, ok := o.(types.IndirectRef); ok {
		e, found := c.ctx.Find(int(ir.ObjectNumber))
		if !found || e.Free {
			return "n"
		}
		o = e.Object
	}
	switch d := o.(type) {
	case nil:
		return "n"
	case types.IndirectRef:
		return "R(" + c.canon(d, depth-1) + ")"
	case types.Array:
		s := "["
		for _, e := range d {
			s += c.canon(e, depth-1) + " "
		}
		return s + "]"
	case types.Dict:
		return c.canonDict(d, depth, false)
	case types.StreamDict:
		sd := d
		var body []byte
		if err := sd.Decode(); err != nil {
			body = append([]byte("undecodable:"), sd.Raw...)
		} else {
			body = sd.Content
		}
		h := sha256.Sum256(body)
		return "S" + c.canonDict(sd.Dict, depth, true) + hex.EncodeToString(h[:8])
	case types.Float:
		return strconv.FormatFloat(float64(d)+0, 'g', -1, 64)
	case types.Integer:
		return strconv.Itoa(int(d))
	}
	return ser(o)
}

func (c *ctxUnf) canonDict(d types.Dict, depth int, stream bool) string {
	font := false
	if t, ok := d["Type"]; ok {
		if ir, ok := t.(types.IndirectRef); ok {
			if e, found := c.ctx.Find(int(ir.ObjectNumber)); found {
				t = e.Object
			}
		}
		if n, ok := t.(types.Name); ok && n == "Font" {
			font = true
		}
	}
	s := "<"
	for _, k := range sortedKeys(d) {
		if k == "PieceInfo" || k == "LastModified" {
			continue
		}
		if stream && (k == "Length" || k == "Filter" || k == "DecodeParms") {
			continue
		}
		v := d[k]
		if font && (k == "BaseFont" || k == "FontName" || k == "Name") {
			dv := v
			if ir, ok := v.(types.IndirectRef); ok {
				if e, found := c.ctx.Find(int(ir.ObjectNumber)); found {
					dv = e.Object
				}
			}
			if n, ok := dv.(types.Name); ok {
				v = types.Name(stripTag(string(n)))
			}
		}
		s += k + ":" + c.canon(v, depth-1) + ";"
	}
	return s + ">"
}

var resCats = []string{"Font", "XObject", "ExtGState", "ColorSpace", "Pattern", "Shading", "Properties"}

var resRe = regexp.MustCompile(` ([A-Za-z]+/[A-Za-z0-9]+)=`)

// resNames: the "Category/Name" entries of a page fingerprint
func resNames(fp string) map[string]bool {
	m := map[string]bool{}
	i := strings.Index(fp, "content=")
	for _, x := range resRe.FindAllStringSubmatch(fp[i:], -1) {
		m[x[1]] = true
	}
	return m
}

var nameRe = regexp.MustCompile(`/([A-Za-z0-9]+)`)

func fingerprint(ctx *model.Context) (fp []string, err error) {
	defer func() {
		if e := recover(); e != nil {
			err = fmt.Errorf("panic: %v", e)
		}
	}()
	c := &ctxUnf{ctx: ctx}
	for p := 1; p <= ctx.PageCount; p++ {
		d, _, inh, err := ctx.PageDict(p, false)
		if err != nil {
			return nil, err
		}
		content, err := ctx.PageContent(d, p)
		if err != nil && err != model.ErrNoContent {
			return nil, err
		}
		s := fmt.Sprintf("media=%v crop=%v rot=%d content=%s", inh.MediaBox, inh.CropBox, inh.Rotate, hex.EncodeToString(content))
		if inh.MediaBox != nil {
			s = fmt.Sprintf("media=%v crop=%v rot=%d content=%s", *inh.MediaBox, inh.CropBox, inh.Rotate, hex.EncodeToString(content))
			if inh.CropBox != nil {
				s = fmt.Sprintf("media=%v crop=%v rot=%d content=%s", *inh.MediaBox, *inh.CropBox, inh.Rotate, hex.EncodeToString(content))
			}
		}
		seen := map[string]bool{}
		for _, m := range nameRe.FindAllStringSubmatch(string(content), -1) {
			n := m[1]
			if seen[n] {
				continue
			}
			seen[n] = true
			for _, cat := range resCats {
				if inh.Resources == nil {
					continue
				}
				sub, _ := ctx.DereferenceDict(inh.Resources[cat])
				if sub == nil {
					continue
				}
				if v, ok := sub[n]; ok {
					s += " " + cat + "/" + n + "=" + c.canon(v, 9)
				}
			}
		}
		fp = append(fp, s)
	}
	return fp, nil
}

// census of a document: object counts and, per page, the distinct fonts / images / forms
// its resources name
type census struct {
	Objects, Streams, Fonts, Images, Forms int
	PageFonts, PageImages, PageForms       []int
	DistinctPageForms                      int
}

// diff names the most specific census entry that differs.
func (a census) diff(b census) string {
	switch {
	case a.Forms != b.Forms:
		return "forms"
	case a.Images != b.Images:
		return "images"
	case a.Fonts != b.Fonts:
		return "fonts"
	case fmt.Sprint(a.PageForms) != fmt.Sprint(b.PageForms) || a.DistinctPageForms != b.DistinctPageForms:
		return "page-forms"
	case fmt.Sprint(a.PageImages) != fmt.Sprint(b.PageImages):
		return "page-images"
	case fmt.Sprint(a.PageFonts) != fmt.Sprint(b.PageFonts):
		return "page-fonts"
	case a.Streams != b.Streams:
		return "streams"
	case a.Objects != b.Objects:
		return "objects"
	}
	return ""
}

func subtypeOf(o types.Object) string {
	if sd, ok := o.(types.StreamDict); ok {
		if n, ok := sd.Dict["Subtype"].(types.Name); ok {
			return string(n)
		}
	}
	return ""
}

func takeCensus(ctx *model.Context) (c census) {
	defer func() { recover() }()
	for _, e := range ctx.Table {
		if e == nil || e.Free {
			continue
		}
		c.Objects++
		switch o := e.Object.(type) {
		case types.StreamDict:
			c.Streams++
			switch subtypeOf(o) {
			case "Image":
				c.Images++
			case "Form":
				c.Forms++
			}
		case types.Dict:
			if n, ok := o["Type"].(types.Name); ok && n == "Font" {
				c.Fonts++
			}
		}
	}
	allForms := map[int]bool{}
	for p := 1; p <= ctx.PageCount; p++ {
		_, _, inh, err := ctx.PageDict(p, false)
		if err != nil || inh == nil {
			continue
		}
		fonts, images, forms := map[int]bool{}, map[int]bool{}, map[int]bool{}
		if inh.Resources != nil {
			if fd, _ := ctx.DereferenceDict(inh.Resources["Font"]); fd != nil {
				for _, v := range fd {
					if ir, ok := v.(types.IndirectRef); ok {
						fonts[int(ir.ObjectNumber)] = true
					}
				}
			}
			if xd, _ := ctx.DereferenceDict(inh.Resources["XObject"]); xd != nil {
				for _, v := range xd {
					if ir, ok := v.(types.IndirectRef); ok {
						o, _ := ctx.Dereference(ir)
						switch subtypeOf(o) {
						case "Image":
							images[int(ir.ObjectNumber)] = true
						case "Form":
							forms[int(ir.ObjectNumber)] = true
							allForms[int(ir.ObjectNumber)] = true
						}
					}
				}
			}
		}
		c.PageFonts = append(c.PageFonts, len(fonts))
		c.PageImages = append(c.PageImages, len(images))
		c.PageForms = append(c.PageForms, len(forms))
	}
	c.DistinctPageForms = len(allForms)
	return c
}

func liveObjects(ctx *model.Context) int {
	n := 0
	for _, e := range ctx.Table {
		if e != nil && !e.Free {
			n++
		}
	}
	return n
}

func readCtx(b []byte) (*model.Context, error) {
	conf := model.NewDefaultConfiguration()
	conf.Cmd = model.VALIDATE
	return api.ReadAndValidate(bytes.NewReader(b), conf)
}

// non-default optimisation switches of model.Configuration, chosen per document by docOracle
var optNoResourceDicts, optNoBeforeWriting bool

func optimizeBytes(b []byte, dupContent bool) (out []byte, err error) {
	defer func() {
		if e := recover(); e != nil {
			err = fmt.Errorf("PANIC: %v", e)
		}
	}()
	conf := model.NewDefaultConfiguration()
	conf.OptimizeDuplicateContentStreams = dupContent
	conf.OptimizeResourceDicts = !optNoResourceDicts
	conf.OptimizeBeforeWriting = !optNoBeforeWriting
	var w bytes.Buffer
	if err := api.Optimize(bytes.NewReader(b), &w, conf); err != nil {
		return nil, err
	}
	return w.Bytes(), nil
}

func docOracle(r *vh.Run, doc []byte, dupContent bool, kind string) {
	// the whole document matrix also runs under the non-default switches
	optNoResourceDicts = r.Rand.Intn(4) == 0
	optNoBeforeWriting = r.Rand.Intn(5) == 0
	defer func() { optNoResourceDicts, optNoBeforeWriting = false, false }()
	input := map[string]any{"pdf": hex.EncodeToString(doc), "optimizeDuplicateContentStreams": dupContent,
		"optimizeResourceDicts": !optNoResourceDicts, "optimizeBeforeWriting": !optNoBeforeWriting}
	r.Count(fmt.Sprintf("conf:dup=%v,resdicts=%v,beforewriting=%v", dupContent, !optNoResourceDicts, !optNoBeforeWriting))
	before, err := readCtx(doc)
	if err != nil {
		r.Count("doc:" + kind + ":invalid-input")
		return
	}
	fpB, err := fingerprint(before)
	if err != nil {
		r.Count("doc:" + kind + ":fingerprint-error")
		return
	}
	out, err := optimizeBytes(doc, dupContent)
	if err != nil {
		if strings.HasPrefix(err.Error(), "PANIC") {
			r.OracleFail("optimize-panic", input, err.Error())
		} else {
			r.Count("doc:" + kind + ":optimize-error")
		}
		return
	}
	after, err := readCtx(out)
	if err != nil {
		r.OracleFail("optimize-output-unreadable", input, err.Error())
		return
	}
	fpA, err := fingerprint(after)
	if err != nil {
		r.OracleFail("optimize-output-unreadable", input, err.Error())
		return
	}
	r.Count("doc:" + kind + ":checked")
	if len(fpA) != len(fpB) {
		r.OracleFail("optimize-page-count", input, fmt.Sprintf("pages before=%d after=%d", len(fpB), len(fpA)))
		return
	}
	for i := range fpA {
		if fpA[i] != fpB[i] {
			class := "optimize-page-fingerprint"
			na := resNames(fpA[i])
			for n := range resNames(fpB[i]) {
				if !na[n] {
					class = "optimize-page-loses-used-resource"
				}
			}
			if class == "optimize-page-loses-used-resource" && nestedParens(contentOf(fpB[i])) {
				class = "content-scanner-nested-parentheses-lose-used-resource"
			}
			if class == "optimize-page-loses-used-resource" && laterParen(contentOf(fpB[i])) {
				class = "content-scanner-string-runs-on-to-later-parenthesis"
			}
			if contentOf(fpA[i]) != contentOf(fpB[i]) {
				class = "optimize-page-content"
				if kind == "contents-array" {
					class = "contents-array-element-dropped"
				}
				if kind == "rawtwin" {
					class = "content-dedup-same-raw-different-filter"
				}
			}
			r.OracleFail(class, input, fmt.Sprintf("page %d before: %.300s | after: %.300s", i+1, fpB[i], fpA[i]))
			return
		}
	}
	// optimising the optimised document removes nothing further: same object census, same pages
	out2, err := optimizeBytes(out, dupContent)
	if err != nil {
		r.OracleFail("optimize-twice-error", input, err.Error())
		return
	}
	after2, err := readCtx(out2)
	if err != nil {
		r.OracleFail("optimize-output-unreadable", input, "second pass: "+err.Error())
		return
	}
	c1, c2 := takeCensus(after), takeCensus(after2)
	if what := c1.diff(c2); what != "" {
		r.OracleFail("optimize-not-idempotent:"+what, input, fmt.Sprintf("census after first pass %+v, after second %+v", c1, c2))
		return
	}
	fpA2, err := fingerprint(after2)
	if err != nil || strings.Join(fpA2, "\n") != strings.Join(fpA, "\n") {
		r.OracleFail("optimize-not-idempotent:fingerprint", input, "page fingerprints differ between the first and the second optimisation")
		return
	}
	n1 := c1.Objects
	if liveObjects(before) > n1 {
		r.Count("doc:" + kind + ":shrunk")
	}
	r.OracleOK()
}

// two fonts that differ in nothing a reader can see; one reaches the cyclic Encoding object
// through a reference, the other through a direct copy of its first level
func genMixedCycleDoc() []byte {
	b := &pdfb{}
	cat := b.add("")
	root := b.add("")
	enc := b.add("")
	b.set(enc, fmt.Sprintf("<< /X << /X %d 0 R >> >>", enc))
	f1 := b.add(fmt.Sprintf("<< /Type /Font /Subtype /Type1 /BaseFont /Helvetica /Encoding %d 0 R >>", enc))
	f2 := b.add(fmt.Sprintf("<< /Type /Font /Subtype /Type1 /BaseFont /Helvetica /Encoding << /X %d 0 R >> >>", enc))
	c := b.stream("", []byte("BT /F1 12 Tf (a) Tj ET"))
	p1 := b.add(fmt.Sprintf("<< /Type /Page /Parent %d 0 R /Resources << /Font << /F1 %d 0 R >> >> /Contents %d 0 R >>", root, f1, c))
	p2 := b.add(fmt.Sprintf("<< /Type /Page /Parent %d 0 R /Resources << /Font << /F1 %d 0 R >> >> /Contents %d 0 R >>", root, f2, c))
	b.set(root, fmt.Sprintf("<< /Type /Pages /Count 2 /Kids [%d 0 R %d 0 R] /MediaBox [0 0 612 792] >>", p1, p2))
	b.set(cat, fmt.Sprintf("<< /Type /Catalog /Pages %d 0 R >>", root))
	return b.bytes(cat)
}

func mixedCycleDocOracle(r *vh.Run) {
	doc := genMixedCycleDoc()
	if _, err := readCtx(doc); err != nil {
		r.Count("doc:mixedcycle:invalid-input")
		return
	}
	cmd := exec.Command(os.Args[0], "probe", "pdf", hex.EncodeToString(doc), "-")
	var out, errb bytes.Buffer
	cmd.Stdout, cmd.Stderr = &out, &errb
	err := cmd.Run()
	switch {
	case err == nil && strings.Contains(out.String(), "RESULT:"):
		r.Count("doc:mixedcycle:" + strings.SplitN(out.String()[strings.Index(out.String(), "RESULT:")+7:], ":", 2)[0])
		r.OracleOK()
	case strings.Contains(errb.String(), "stack overflow") || strings.Contains(errb.String(), "stack exceeds"):
		r.Count("doc:mixedcycle:stack-overflow")
		r.OracleFail("optimize-fatal-stack-overflow-equalobjects-mixed-cycle",
			map[string]any{"pdf": hex.EncodeToString(doc), "optimizeDuplicateContentStreams": false},
			"api.Optimize on a valid two-page document died with a Go stack overflow inside model.EqualObjects (child process)")
	default:
		r.Count("doc:mixedcycle:child-error")
	}
}

// nestedParens: the page content (hex, as in the fingerprint) contains one of the hazards
// with an unescaped '(' inside a string
func nestedParens(contentField string) bool {
	b, err := hex.DecodeString(strings.TrimPrefix(contentField, "content="))
	if err != nil {
		return false
	}
	for _, h := range hazards {
		if (strings.HasPrefix(h.id, "nested") || h.id == "bs2-open") && bytes.Contains(b, []byte(h.text)) {
			return true
		}
	}
	return false
}

// laterParen: the page content has a ')' outside any string (in a comment or in inline image
// data) after a string
func laterParen(contentField string) bool {
	b, err := hex.DecodeString(strings.TrimPrefix(contentField, "content="))
	if err != nil {
		return false
	}
	return bytes.Contains(b, []byte("% /F9 ) (")) || bytes.Contains(b, []byte(")/EI("))
}

func contentOf(fp string) string {
	i := strings.Index(fp, "content=")
	j := strings.Index(fp[i:], " ")
	if j < 0 {
		return fp[i:]
	}
	return fp[i : i+j]
}

func main() {
	if len(os.Args) >= 5 && os.Args[1] == "probe" {
		probeMain(os.Args[2:])
		return
	}
	api.DisableConfigDir()
	r := vh.Start("C20")
	defer r.Finish()
	fixedGraphs(r)
	randomGraphs(r, r.Pick(2500, 40000))
	nDocs := r.Pick(300, 6000)
	for i := 0; i < nDocs; i++ {
		doc, _ := genDoc(r.Rand)
		docOracle(r, doc, r.Rand.Intn(2) == 0, "gen")
	}
	for i, n := 0, r.Pick(150, 3000); i < n; i++ {
		doc, sp := genSharedDoc(r.Rand)
		docOracle(r, doc, r.Rand.Intn(2) == 0, fmt.Sprintf("shared%d", sp.layout))
		consolidateK(r, doc, sp)
	}
	for i, n := 0, r.Pick(200, 4000); i < n; i++ {
		doc, desc := genExtrasDoc(r.Rand)
		docOracle(r, doc, r.Rand.Intn(2) == 0, "extras:"+desc)
		formDedupK(r, doc)
	}
	scannerK(r)
	for i, n := 0, r.Pick(250, 5000); i < n; i++ {
		doc := genContentsArrayDoc(r.Rand)
		docOracle(r, doc, r.Rand.Intn(3) != 0, "contents-array")
		removeEmptyK(r, doc)
	}
	for i, n := 0, r.Pick(3*len(hazards), 40*len(hazards)); i < n; i++ {
		doc, id := genHazardDoc(r.Rand, i)
		docOracle(r, doc, r.Rand.Intn(3) == 0, "hazard:"+id)
	}
	mixedCycleDocOracle(r)
	for i := 0; i < 2; i++ {
		docOracle(r, genRawTwinDoc(r.Rand), true, "rawtwin")
		docOracle(r, genRawTwinDoc(r.Rand), false, "rawtwin")
	}
}
