// Structure-aware generator for cross-reference STREAMS (hand-built raw PDFs): an object stream that
// exists in the file, /W widths from {1,2,3,4,8} per field, entries of type 0/1/2/3+, field values at
// 0, 1, max, top-bit-set (an 8 byte field with the top bit set decodes to a NEGATIVE int64 in
// extractXRefTableEntriesFromXRefStream and reaches types.ObjectStreamDict.IndexedObject through
// decompressXRefTableEntry), pointing at existing / missing / non-object-stream objects, self-referential
// entries, and /Index /Size /First /N near +-2^63.
package main

import (
	"bytes"
	"fmt"
	"math/rand"
	"strings"
)

type xrow [3]uint64

type xsdoc struct {
	w        [3]int
	rows     map[int]xrow
	osNr     int
	xrNr     int
	nInside  int
	index    string // "" = none
	size     string
	osHeader string // "" = correct /N /First
	extra    string
	body     []byte // everything before the xref stream object
	root     int
}

func beU(v uint64, w int) []byte {
	o := make([]byte, w)
	for i := w - 1; i >= 0; i-- {
		o[i] = byte(v)
		v >>= 8
	}
	return o
}

// newXSDoc lays out: content stream 4 (plain object), object stream 6 holding 1 (catalog), 2 (pages), 3 (page),
// 5 (font), xref stream 7.
func newXSDoc(osHeader string) *xsdoc {
	d := baseDoc()
	x := &xsdoc{w: [3]int{1, 4, 2}, rows: map[int]xrow{0: {0, 0, 65535}}, osNr: 6, xrNr: 7, root: 1}
	var b bytes.Buffer
	fmt.Fprintf(&b, "%%PDF-1.7\n%%\xe2\xe3\xcf\xd3\n")
	x.rows[4] = xrow{1, uint64(b.Len()), 0}
	fmt.Fprintf(&b, "4 0 obj\n%s\nendobj\n", d.objs[4])
	inside := []int{1, 2, 3, 5}
	var hdr, body bytes.Buffer
	for i, n := range inside {
		fmt.Fprintf(&hdr, "%d %d ", n, body.Len())
		body.WriteString(d.objs[n])
		body.WriteByte('\n')
		x.rows[n] = xrow{2, uint64(x.osNr), uint64(i)}
	}
	x.nInside = len(inside)
	x.rows[x.osNr] = xrow{1, uint64(b.Len()), 0}
	h := osHeader
	if h == "" {
		h = fmt.Sprintf("/N %d/First %d", len(inside), hdr.Len())
	}
	fmt.Fprintf(&b, "%d 0 obj\n<</Type/ObjStm%s/Length %d>>\nstream\n%s%s\nendstream\nendobj\n",
		x.osNr, h, hdr.Len()+body.Len(), hdr.String(), body.String())
	x.rows[x.xrNr] = xrow{1, uint64(b.Len()), 0}
	x.body = b.Bytes()
	return x
}

func (x *xsdoc) bytes() []byte {
	var b bytes.Buffer
	b.Write(x.body)
	xoff := b.Len()
	var data bytes.Buffer
	for n := 0; n <= x.xrNr; n++ {
		r := x.rows[n]
		for k := 0; k < 3; k++ {
			data.Write(beU(r[k], x.w[k]))
		}
	}
	size := x.size
	if size == "" {
		size = fmt.Sprint(x.xrNr + 1)
	}
	idx := ""
	if x.index != "" {
		idx = "/Index[" + x.index + "]"
	}
	fmt.Fprintf(&b, "%d 0 obj\n<</Type/XRef/Size %s%s/W[%d %d %d]/Root %d 0 R%s/Length %d>>\nstream\n",
		x.xrNr, size, idx, x.w[0], x.w[1], x.w[2], x.root, x.extra, data.Len())
	b.Write(data.Bytes())
	fmt.Fprintf(&b, "\nendstream\nendobj\nstartxref\n%d\n%%%%EOF\n", xoff)
	return b.Bytes()
}

var xsWidths = []int{1, 2, 3, 4, 8}

// special values of a field of width w bytes
func xsSpecial(w int) []uint64 {
	bits := uint(8 * w)
	max := ^uint64(0)
	if bits < 64 {
		max = (uint64(1) << bits) - 1
	}
	top := uint64(1) << (bits - 1)
	return []uint64{0, 1, 2, max, max - 1, top, top | 1, top - 1}
}

var nearInt64 = []string{"9223372036854775807", "9223372036854775806", "9223372036854775808", "-9223372036854775808", "-9223372036854775807",
	"-9223372036854775809", "18446744073709551615", "18446744073709551616", "-1", "0", "4611686018427387904", "2147483648", "-2147483649"}

// xrefStreamDocs: the systematic part (every width x every special value on each field of one entry of
// each type) plus n random documents.
func xrefStreamDocs(r *rand.Rand, n int) []gdoc {
	var out []gdoc
	add := func(name string, x *xsdoc) { out = append(out, gdoc{name, x.bytes(), ""}) }
	add("xs-plain", newXSDoc(""))
	// field 3 of the type 2 entry of object 5 (index within the object stream), field 2 (object stream number),
	// for every width of that field
	for _, w := range xsWidths {
		for _, v := range xsSpecial(w) {
			x := newXSDoc("")
			x.w[2] = w
			x.rows[5] = xrow{2, uint64(x.osNr), v}
			add(fmt.Sprintf("xs-t2-index-w%d-%x", w, v), x)
			x = newXSDoc("")
			x.w[1] = w
			x.rows[5] = xrow{2, v, 0}
			add(fmt.Sprintf("xs-t2-objstm-w%d-%x", w, v), x)
			// type 1 offset of the content stream / generation
			x = newXSDoc("")
			x.w[1] = w
			x.rows[4] = xrow{1, v, 0}
			add(fmt.Sprintf("xs-t1-offset-w%d-%x", w, v), x)
			x = newXSDoc("")
			x.w[2] = w
			x.rows[4] = xrow{1, x.rows[4][1], v}
			add(fmt.Sprintf("xs-t1-gen-w%d-%x", w, v), x)
			// type field itself
			x = newXSDoc("")
			x.w[0] = w
			x.rows[5] = xrow{v, uint64(x.osNr), 3}
			add(fmt.Sprintf("xs-type-w%d-%x", w, v), x)
			// free entry with next/generation
			x = newXSDoc("")
			x.w[1], x.w[2] = w, w
			x.rows[5] = xrow{0, v, v}
			add(fmt.Sprintf("xs-t0-w%d-%x", w, v), x)
		}
	}
	// all three fields 8 bytes wide, every compressed entry with the top bit in the index
	{
		x := newXSDoc("")
		x.w = [3]int{8, 8, 8}
		for _, nr := range []int{1, 2, 3, 5} {
			x.rows[nr] = xrow{2, uint64(x.osNr), 1 << 63}
		}
		add("xs-all-w8-index-topbit", x)
		x = newXSDoc("")
		x.w = [3]int{1, 2, 8}
		x.rows[5] = xrow{2, uint64(x.osNr), 1 << 63}
		add("xs-w128-index-topbit", x)
		x = newXSDoc("")
		x.w = [3]int{0, 8, 8}
		add("xs-w0-type-defaults", x)
	}
	// entries of unknown type (3+) for object 0 (free list head), the catalog, the object stream, the xref stream
	for _, nr := range []int{0, 1, 4, 6, 7} {
		for _, ty := range []uint64{3, 255} {
			x := newXSDoc("")
			x.rows[nr] = xrow{ty, x.rows[nr][1], x.rows[nr][2]}
			add(fmt.Sprintf("xs-obj%d-type-%d", nr, ty), x)
		}
	}
	// targets of a type 2 entry: missing object, non object stream, the xref stream, itself, a compressed object
	for name, tgt := range map[string]uint64{"missing": 99, "content-stream": 4, "xref-stream": 7, "itself": 5, "compressed-obj": 2, "zero": 0} {
		x := newXSDoc("")
		x.rows[5] = xrow{2, tgt, 0}
		add("xs-t2-target-"+name, x)
	}
	{
		x := newXSDoc("")
		x.rows[x.osNr] = xrow{2, uint64(x.osNr), 0}
		add("xs-objstm-inside-itself", x)
		x = newXSDoc("")
		x.rows[x.xrNr] = xrow{2, uint64(x.osNr), 0}
		add("xs-xref-entry-compressed", x)
		x = newXSDoc("")
		x.rows[x.xrNr] = xrow{1, x.rows[x.osNr][1], 0}
		add("xs-xref-entry-points-at-objstm", x)
		x = newXSDoc("")
		x.rows[x.osNr] = xrow{1, x.rows[x.xrNr][1], 0}
		add("xs-objstm-entry-points-at-xref", x)
		x = newXSDoc("")
		x.rows[1] = xrow{2, uint64(x.osNr), uint64(x.nInside)}
		add("xs-root-index-eq-n", x)
	}
	// /Index, /Size, /First, /N near +-2^63
	for _, v := range nearInt64 {
		x := newXSDoc("")
		x.size = v
		add("xs-size-"+v, x)
		x = newXSDoc("")
		x.index = "0 " + v
		add("xs-index-count-"+v, x)
		x = newXSDoc("")
		x.index = v + " 8"
		add("xs-index-start-"+v, x)
		x = newXSDoc("")
		x.index = "0 4 " + v + " 4"
		add("xs-index-second-start-"+v, x)
		add("xs-objstm-n-"+v, newXSDoc("/N "+v+"/First 16"))
		add("xs-objstm-first-"+v, newXSDoc("/N 4/First "+v))
		x = newXSDoc("")
		x.extra = "/Prev " + v
		add("xs-prev-"+v, x)
	}
	// random combinations
	for i := 0; i < n; i++ {
		hdr := ""
		if r.Intn(6) == 0 {
			hdr = "/N " + nearInt64[r.Intn(len(nearInt64))] + "/First " + []string{"16", "0", "-1", "17", "9223372036854775807"}[r.Intn(5)]
		}
		x := newXSDoc(hdr)
		for k := 0; k < 3; k++ {
			if r.Intn(2) == 0 {
				x.w[k] = xsWidths[r.Intn(len(xsWidths))]
			}
		}
		if r.Intn(12) == 0 {
			x.w[r.Intn(3)] = 0
		}
		var names []string
		for t := 0; t < 1+r.Intn(3); t++ {
			nr := []int{0, 1, 2, 3, 4, 5, x.osNr, x.xrNr}[r.Intn(8)]
			row := x.rows[nr]
			k := r.Intn(3)
			w := x.w[k]
			if w == 0 {
				w = 1
			}
			var v uint64
			switch r.Intn(4) {
			case 0:
				sp := xsSpecial(w)
				v = sp[r.Intn(len(sp))]
			case 1:
				v = uint64([]int{0, 1, 2, 3, 4, 5, x.osNr, x.xrNr, 8, 99}[r.Intn(10)])
			case 2:
				v = r.Uint64()
			case 3:
				v = uint64(r.Intn(4))
			}
			row[k] = v
			x.rows[nr] = row
			names = append(names, fmt.Sprintf("%d.%d=%x", nr, k, v))
		}
		if r.Intn(8) == 0 {
			x.index = []string{"0 8", "0 7", "1 7", "0 9", "0 4 4 4", "5 1 0 5", "0 8 0 8", "7 1", "0 " + nearInt64[r.Intn(len(nearInt64))]}[r.Intn(9)]
		}
		if r.Intn(10) == 0 {
			x.size = nearInt64[r.Intn(len(nearInt64))]
		}
		add(fmt.Sprintf("xs-rand-w%d%d%d-%s", x.w[0], x.w[1], x.w[2], strings.Join(names, ",")), x)
	}
	return out
}
