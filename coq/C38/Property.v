(* C38 — Removing watermarks undoes adding them.
   Property theorems only; each is closed by an exact lemma and followed by Print Assumptions.
   Model: coq/C38/Model.v (hand transcription of pkg/pdfcpu/stamp.go).  Content streams are byte lists;
   the drawing of the watermark itself (form XObject, fonts, images) is not modelled. *)
From Coq Require Import List NArith Bool.
From PV Require Import C38.Model C38.ProofsIndex C38.ProofsRemove C38.ProofsPage C38.ProofsDoc.
Import ListNotations.
Open Scope N_scope.
