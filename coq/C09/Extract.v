From Coq Require Import Extraction ExtrOcamlBasic.
From PV Require Import Lib.ExtBase C09.Model.
Extraction "model.ml" ext_base_z ext_base_n ext_base_nat ext_base_res ext_base_list
  copyDecoded decodeLimit streamAlloc xrefObjects objStreamOK imageOK objectStreamDictWithLimits osdFullDecode rowGuard rlDecode ahxGate.
