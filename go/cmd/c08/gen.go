// PDF builder and the generated (structured, adversarial) documents for C08.
package main

import (
	"bytes"
	"fmt"
	"regexp"
	"sort"
	"strconv"
	"strings"
)

// doc is a PDF as a set of numbered object bodies.
type doc struct {
	objs    map[int]string
	root    int
	trailer string // extra trailer entries
	version string
}

func newDoc() *doc { return &doc{objs: map[int]string{}, root: 1, version: "1.7"} }

func (d *doc) clone() *doc {
	c := &doc{objs: map[int]string{}, root: d.root, trailer: d.trailer, version: d.version}
	for k, v := range d.objs {
		c.objs[k] = v
	}
	return c
}

func (d *doc) nums() []int {
	var l []int
	for k := range d.objs {
		l = append(l, k)
	}
	sort.Ints(l)
	return l
}

func (d *doc) maxNum() int {
	m := 0
	for k := range d.objs {
		if k > m {
			m = k
		}
	}
	return m
}

// bytes serialises with a classic xref table. offsets (if non-nil) receives object offsets.
func (d *doc) bytes() []byte {
	b, _ := d.bytesOff()
	return b
}

func (d *doc) bytesOff() ([]byte, map[int]int) {
	var b bytes.Buffer
	off := map[int]int{}
	fmt.Fprintf(&b, "%%PDF-%s\n%%\xe2\xe3\xcf\xd3\n", d.version)
	for _, n := range d.nums() {
		off[n] = b.Len()
		fmt.Fprintf(&b, "%d 0 obj\n%s\nendobj\n", n, d.objs[n])
	}
	xref := b.Len()
	max := d.maxNum()
	fmt.Fprintf(&b, "xref\n0 %d\n", max+1)
	b.WriteString("0000000000 65535 f \n")
	for n := 1; n <= max; n++ {
		if o, ok := off[n]; ok {
			fmt.Fprintf(&b, "%010d 00000 n \n", o)
		} else {
			b.WriteString("0000000000 00000 f \n")
		}
	}
	fmt.Fprintf(&b, "trailer\n<</Size %d/Root %d 0 R%s>>\nstartxref\n%d\n%%%%EOF\n", max+1, d.root, d.trailer, xref)
	return b.Bytes(), off
}

func be(v, w int) []byte {
	o := make([]byte, w)
	for i := w - 1; i >= 0; i-- {
		o[i] = byte(v)
		v >>= 8
	}
	return o
}

// bytesXRefStream serialises with one uncompressed object stream (all non-stream objects except the
// catalog's dependencies that must stay outside are put inside) and an uncompressed xref stream.
// tweak may edit the xref entry rows (type, f2, f3 per object number) before they are written.
func (d *doc) bytesXRefStream(tweak func(rows map[int][3]int, osNr, xrNr int)) []byte {
	var b bytes.Buffer
	fmt.Fprintf(&b, "%%PDF-%s\n%%\xe2\xe3\xcf\xd3\n", d.version)
	max := d.maxNum()
	osNr, xrNr := max+1, max+2
	rows := map[int][3]int{0: {0, 0, 65535}}
	var inside []int
	for _, n := range d.nums() {
		if strings.Contains(d.objs[n], "stream\n") || strings.Contains(d.objs[n], "stream\r") {
			rows[n] = [3]int{1, b.Len(), 0}
			fmt.Fprintf(&b, "%d 0 obj\n%s\nendobj\n", n, d.objs[n])
		} else {
			inside = append(inside, n)
		}
	}
	var hdr, body bytes.Buffer
	for i, n := range inside {
		fmt.Fprintf(&hdr, "%d %d ", n, body.Len())
		body.WriteString(d.objs[n])
		body.WriteByte('\n')
		rows[n] = [3]int{2, osNr, i}
	}
	rows[osNr] = [3]int{1, b.Len(), 0}
	fmt.Fprintf(&b, "%d 0 obj\n<</Type/ObjStm/N %d/First %d/Length %d>>\nstream\n%s%s\nendstream\nendobj\n",
		osNr, len(inside), hdr.Len(), hdr.Len()+body.Len(), hdr.String(), body.String())
	xoff := b.Len()
	rows[xrNr] = [3]int{1, xoff, 0}
	if tweak != nil {
		tweak(rows, osNr, xrNr)
	}
	var data bytes.Buffer
	for n := 0; n <= xrNr; n++ {
		r := rows[n]
		data.Write(be(r[0], 1))
		data.Write(be(r[1], 4))
		data.Write(be(r[2], 2))
	}
	fmt.Fprintf(&b, "%d 0 obj\n<</Type/XRef/Size %d/W[1 4 2]/Root %d 0 R%s/Length %d>>\nstream\n", xrNr, xrNr+1, d.root, d.trailer, data.Len())
	b.Write(data.Bytes())
	fmt.Fprintf(&b, "\nendstream\nendobj\nstartxref\n%d\n%%%%EOF\n", xoff)
	return b.Bytes()
}

func stream(dict, data string) string {
	return fmt.Sprintf("<<%s/Length %d>>\nstream\n%s\nendstream", dict, len(data), data)
}

// baseDoc: catalog 1, pages 2, one page 3, content 4, font 5.
func baseDoc() *doc {
	d := newDoc()
	d.objs[1] = "<</Type/Catalog/Pages 2 0 R>>"
	d.objs[2] = "<</Type/Pages/Kids[3 0 R]/Count 1/MediaBox[0 0 200 200]>>"
	d.objs[3] = "<</Type/Page/Parent 2 0 R/Contents 4 0 R/Resources<</Font<</F1 5 0 R>>>>>>"
	d.objs[4] = stream("", "BT /F1 12 Tf 10 10 Td (hi) Tj ET")
	d.objs[5] = "<</Type/Font/Subtype/Type1/BaseFont/Helvetica>>"
	return d
}

type gdoc struct {
	name string
	data []byte
	// expect: "" no expectation; "ok" every validating entry point must succeed; "err" read+validate must return an error
	expect string
}

func nest(open, close string, n int, inner string) string {
	return strings.Repeat(open, n) + inner + strings.Repeat(close, n)
}

// equalObjectsMixedCycle: the open defect shared with C20.
func equalObjectsMixedCycle() *doc {
	d := newDoc()
	d.objs[1] = "<</Type/Catalog/Pages 2 0 R>>"
	d.objs[2] = "<</Type/Pages/Kids[5 0 R 6 0 R]/Count 2/MediaBox[0 0 200 200]>>"
	d.objs[3] = "<</X<</X 3 0 R>>>>"
	d.objs[4] = stream("", "BT /F1 12 Tf 10 10 Td (hi) Tj ET")
	d.objs[5] = "<</Type/Page/Parent 2 0 R/Contents 4 0 R/Resources<</Font<</F1 7 0 R>>>>>>"
	d.objs[6] = "<</Type/Page/Parent 2 0 R/Contents 4 0 R/Resources<</Font<</F1 8 0 R>>>>>>"
	d.objs[7] = "<</Type/Font/Subtype/Type1/BaseFont/Helvetica/Encoding 3 0 R>>"
	d.objs[8] = "<</Type/Font/Subtype/Type1/BaseFont/Helvetica/Encoding<</X 3 0 R>>>>"
	return d
}

func refs(l []int) string {
	s := make([]string, len(l))
	for i, n := range l {
		s[i] = fmt.Sprintf("%d 0 R", n)
	}
	return strings.Join(s, " ")
}

// outlineDoc builds a document with outline items; items: objNr -> dict body entries (without Title).
func outlineDoc(root string, items map[int]string) *doc {
	d := baseDoc()
	d.objs[1] = "<</Type/Catalog/Pages 2 0 R/Outlines 10 0 R>>"
	d.objs[10] = "<</Type/Outlines" + root + ">>"
	for n, body := range items {
		d.objs[n] = "<</Title(t" + strconv.Itoa(n) + ")/Dest[3 0 R/Fit]" + body + ">>"
	}
	return d
}

func nameTreeDoc(nodes map[int]string) *doc {
	d := baseDoc()
	d.objs[1] = "<</Type/Catalog/Pages 2 0 R/Names<</Dests 10 0 R>>>>"
	for n, body := range nodes {
		d.objs[n] = body
	}
	return d
}

// appendUpdate appends an incremental update section (classic xref) with the given /Prev text.
// Returns the new file and the offset of the appended xref section.
func appendUpdate(file []byte, objNr int, body string, size int, root int, prev string) ([]byte, int) {
	var b bytes.Buffer
	b.Write(file)
	off := b.Len()
	fmt.Fprintf(&b, "%d 0 obj\n%s\nendobj\n", objNr, body)
	x := b.Len()
	fmt.Fprintf(&b, "xref\n%d 1\n%010d 00000 n \ntrailer\n<</Size %d/Root %d 0 R/Prev %s>>\nstartxref\n%d\n%%%%EOF\n", objNr, off, size, root, prev, x)
	return b.Bytes(), x
}

var startxrefRe = regexp.MustCompile(`startxref\s+(\d+)`)

func lastStartxref(file []byte) int {
	m := startxrefRe.FindAllSubmatch(file, -1)
	if len(m) == 0 {
		return 0
	}
	v, _ := strconv.Atoi(string(m[len(m)-1][1]))
	return v
}

func generatedDocs(deep int) []gdoc {
	var out []gdoc
	add := func(name string, data []byte, expect string) { out = append(out, gdoc{name, data, expect}) }

	add("base", baseDoc().bytes(), "ok")
	add("base-xrefstream", baseDoc().bytesXRefStream(nil), "ok")
	add("equalobjects-mixed-cycle", equalObjectsMixedCycle().bytes(), "")
	{
		// duplicate fonts whose object graph is cyclic: optimize.go traverse marks but never checks duplObjs
		d := equalObjectsMixedCycle()
		d.objs[3] = "<</X 3 0 R>>"
		d.objs[7] = "<</Type/Font/Subtype/Type1/BaseFont/Helvetica/Encoding 3 0 R>>"
		d.objs[8] = "<</Type/Font/Subtype/Type1/BaseFont/Helvetica/Encoding 3 0 R>>"
		add("dup-font-cyclic-encoding", d.bytes(), "")
		d = equalObjectsMixedCycle()
		d.objs[3] = "<</X#00<</X 3 0 R>>>>"
		add("dup-font-cyclic-encoding-nul-key", d.bytes(), "")
	}

	// ---- page tree shapes
	{
		d := baseDoc()
		d.objs[2] = "<</Type/Pages/Kids[2 0 R]/Count 1>>"
		add("pagetree-self-kid", d.bytes(), "err")
		d = baseDoc()
		d.objs[2] = "<</Type/Pages/Kids[6 0 R]/Count 1/MediaBox[0 0 200 200]>>"
		d.objs[6] = "<</Type/Pages/Parent 2 0 R/Kids[3 0 R 2 0 R]/Count 1>>"
		add("pagetree-kid-to-ancestor", d.bytes(), "err")
		d = baseDoc()
		d.objs[2] = "<</Type/Pages/Kids[6 0 R 6 0 R]/Count 2/MediaBox[0 0 200 200]>>"
		d.objs[6] = "<</Type/Pages/Parent 2 0 R/Kids[3 0 R]/Count 1>>"
		d.objs[3] = "<</Type/Page/Parent 6 0 R/Contents 4 0 R>>"
		add("pagetree-duplicate-node", d.bytes(), "err")
		d = baseDoc()
		d.objs[3] = "<</Type/Page/Parent 3 0 R/Contents 4 0 R>>"
		add("pagetree-parent-self", d.bytes(), "")
		d = baseDoc()
		d.objs[2] = "<</Type/Pages/Kids[3 0 R]/Count 1/Parent 2 0 R/MediaBox[0 0 200 200]>>"
		add("pagetree-root-parent-loop", d.bytes(), "")
		d = baseDoc()
		d.objs[2] = "<</Type/Pages/Kids[0 0 R 3 0 R]/Count 1/MediaBox[0 0 200 200]>>"
		add("pagetree-kid-obj0", d.bytes(), "")
		// chains of /Pages nodes of depth n
		for _, n := range []int{50, 99, 100, 101, 102, 150, 3000} {
			d = baseDoc()
			prev := 2
			for i := 0; i < n; i++ {
				nr := 10 + i
				d.objs[prev] = fmt.Sprintf("<</Type/Pages%s/Kids[%d 0 R]/Count 1/MediaBox[0 0 200 200]>>", parentOf(prev, i), nr)
				prev = nr
			}
			d.objs[prev] = fmt.Sprintf("<</Type/Pages/Parent %d 0 R/Kids[3 0 R]/Count 1>>", prevParent(prev, n))
			d.objs[3] = fmt.Sprintf("<</Type/Page/Parent %d 0 R/Contents 4 0 R/Resources<</Font<</F1 5 0 R>>>>>>", prev)
			exp := "ok"
			if n >= 101 {
				exp = "err"
			}
			if n == 100 {
				exp = ""
			}
			add(fmt.Sprintf("pagetree-chain-%d", n), d.bytes(), exp)
		}
		// wide: many kids all the same page
		d = baseDoc()
		d.objs[2] = "<</Type/Pages/Kids[" + strings.Repeat("3 0 R ", 300) + "]/Count 300/MediaBox[0 0 200 200]>>"
		add("pagetree-same-page-300", d.bytes(), "")
		d = baseDoc()
		d.objs[2] = "<</Type/Pages/Kids[3 0 R]/Count 999999999999/MediaBox[0 0 200 200]>>"
		add("pagetree-count-huge", d.bytes(), "")
		d = baseDoc()
		d.objs[2] = "<</Type/Pages/Kids[3 0 R]/Count -5/MediaBox[0 0 200 200]>>"
		add("pagetree-count-negative", d.bytes(), "")
		d = baseDoc()
		d.objs[2] = "<</Type/Pages/Kids 2 0 R/Count 1>>"
		add("pagetree-kids-is-self-ref", d.bytes(), "err")
	}

	// ---- small documents for nil dereferences the mutation stream found (kept so that they are exercised with every seed)
	{
		d := baseDoc()
		d.objs[6] = "<</Title 9 0 R/Producer(x)>>"
		d.trailer = "/Info 6 0 R"
		add("info-value-dangling-ref", d.bytes(), "")
		d = baseDoc()
		d.objs[6] = "<</Title null/Producer(x)>>"
		d.trailer = "/Info 6 0 R"
		add("info-value-null", d.bytes(), "")
		d = baseDoc()
		d.objs[1] = "<</Type/Catalog/Pages<</Type/Pages/Kids[3 0 R]/Count 1/MediaBox[0 0 200 200]>>>>"
		add("pages-direct-dict", d.bytes(), "")
		d = baseDoc()
		d.objs[1] = "<</Type/Catalog/Pages 2>>"
		add("pages-integer", d.bytes(), "")
		d = baseDoc()
		d.objs[3] = "<</Type/Page/Parent 2 0 R/Contents 4 0 R/Resources<</XObject<</X 6 0 R>>/Font<</F1 5 0 R>>>>>>"
		d.objs[4] = stream("", "/X Do")
		d.objs[6] = stream("/Type/XObject/Subtype/Form/FormType 1/BBox[0 0 1 1]/Resources 1 0 R", "BT ET")
		add("xobject-resources-is-catalog", d.bytes(), "")
		d = baseDoc()
		d.objs[3] = "<</Type/Page/Parent 2 0 R/Contents 4 0 R/Resources 1 0 R>>"
		add("page-resources-is-catalog", d.bytes(), "")
	}

	// ---- outlines
	{
		add("outline-ok", outlineDoc("/First 11 0 R/Last 12 0 R/Count 2", map[int]string{
			11: "/Parent 10 0 R/Next 12 0 R", 12: "/Parent 10 0 R/Prev 11 0 R"}).bytes(), "ok")
		add("outline-next-self", outlineDoc("/First 11 0 R/Last 11 0 R/Count 1", map[int]string{
			11: "/Parent 10 0 R/Next 11 0 R"}).bytes(), "")
		add("outline-next-2cycle", outlineDoc("/First 11 0 R/Last 12 0 R/Count 2", map[int]string{
			11: "/Parent 10 0 R/Next 12 0 R", 12: "/Parent 10 0 R/Prev 11 0 R/Next 11 0 R"}).bytes(), "")
		add("outline-first-is-parent", outlineDoc("/First 11 0 R/Last 11 0 R/Count 1", map[int]string{
			11: "/Parent 10 0 R/First 11 0 R/Last 11 0 R/Count 1"}).bytes(), "")
		add("outline-child-is-ancestor", outlineDoc("/First 11 0 R/Last 11 0 R/Count 2", map[int]string{
			11: "/Parent 10 0 R/First 12 0 R/Last 12 0 R/Count 1", 12: "/Parent 11 0 R/First 11 0 R/Last 11 0 R/Count 1"}).bytes(), "")
		add("outline-first-is-root", outlineDoc("/First 10 0 R/Last 10 0 R/Count 1", map[int]string{}).bytes(), "")
		// a duplicate (item seen in another list) whose list's /Last has a /Prev cycle
		add("outline-dup-with-prev-cycle", outlineDoc("/First 11 0 R/Last 12 0 R/Count 2", map[int]string{
			11: "/Parent 10 0 R/Next 12 0 R/First 13 0 R/Last 14 0 R/Count 2",
			12: "/Parent 10 0 R/Prev 11 0 R",
			13: "/Parent 11 0 R/Next 12 0 R",
			14: "/Parent 11 0 R/Prev 15 0 R",
			15: "/Parent 11 0 R/Prev 14 0 R"}).bytes(), "")
		add("outline-dup-with-prev-self", outlineDoc("/First 11 0 R/Last 12 0 R/Count 2", map[int]string{
			11: "/Parent 10 0 R/Next 12 0 R/First 13 0 R/Last 14 0 R/Count 2",
			12: "/Parent 10 0 R/Prev 11 0 R",
			13: "/Parent 11 0 R/Next 12 0 R",
			14: "/Parent 11 0 R/Prev 14 0 R"}).bytes(), "")
		// deep outline nesting
		for _, n := range []int{99, 101, 2000} {
			items := map[int]string{}
			for i := 0; i < n; i++ {
				nr := 11 + i
				par := nr - 1
				body := fmt.Sprintf("/Parent %d 0 R", par)
				if i < n-1 {
					body += fmt.Sprintf("/First %d 0 R/Last %d 0 R/Count 1", nr+1, nr+1)
				}
				items[nr] = body
			}
			add(fmt.Sprintf("outline-deep-%d", n), outlineDoc("/First 11 0 R/Last 11 0 R/Count 1", items).bytes(), "")
		}
		// long sibling list
		items := map[int]string{}
		for i := 0; i < 3000; i++ {
			nr := 11 + i
			body := "/Parent 10 0 R"
			if i > 0 {
				body += fmt.Sprintf("/Prev %d 0 R", nr-1)
			}
			if i < 2999 {
				body += fmt.Sprintf("/Next %d 0 R", nr+1)
			}
			items[nr] = body
		}
		add("outline-siblings-3000", outlineDoc("/First 11 0 R/Last 3010 0 R/Count 3000", items).bytes(), "")
	}

	// ---- name trees / number trees
	{
		add("nametree-ok", nameTreeDoc(map[int]string{10: "<</Names[(a)[3 0 R/Fit](b)[3 0 R/Fit]]>>"}).bytes(), "ok")
		add("nametree-kids-self", nameTreeDoc(map[int]string{10: "<</Kids[10 0 R]>>"}).bytes(), "")
		add("nametree-kids-self-twice", nameTreeDoc(map[int]string{10: "<</Kids[10 0 R 10 0 R]>>"}).bytes(), "")
		add("nametree-kids-self-limits", nameTreeDoc(map[int]string{10: "<</Kids[11 0 R 11 0 R]>>", 11: "<</Limits[(a)(b)]/Kids[11 0 R 11 0 R]>>"}).bytes(), "")
		add("nametree-2cycle-fan", nameTreeDoc(map[int]string{10: "<</Kids[11 0 R 12 0 R]>>",
			11: "<</Limits[(a)(b)]/Kids[12 0 R 12 0 R]>>", 12: "<</Limits[(a)(b)]/Kids[11 0 R 11 0 R]>>"}).bytes(), "")
		for _, n := range []int{99, 101, 2000} {
			nodes := map[int]string{}
			for i := 0; i < n; i++ {
				nr := 10 + i
				if i == n-1 {
					nodes[nr] = "<</Limits[(a)(a)]/Names[(a)[3 0 R/Fit]]>>"
				} else if i == 0 {
					nodes[nr] = fmt.Sprintf("<</Kids[%d 0 R]>>", nr+1)
				} else {
					nodes[nr] = fmt.Sprintf("<</Limits[(a)(a)]/Kids[%d 0 R]>>", nr+1)
				}
			}
			add(fmt.Sprintf("nametree-deep-%d", n), nameTreeDoc(nodes).bytes(), "")
		}
		d := baseDoc()
		d.objs[1] = "<</Type/Catalog/Pages 2 0 R/PageLabels 10 0 R>>"
		d.objs[10] = "<</Kids[10 0 R 10 0 R]>>"
		add("numtree-kids-self-twice", d.bytes(), "")
	}

	// ---- form fields, actions, threads, structure tree
	{
		d := baseDoc()
		d.objs[1] = "<</Type/Catalog/Pages 2 0 R/AcroForm<</Fields[10 0 R]>>>>"
		d.objs[10] = "<</T(a)/Kids[11 0 R]>>"
		d.objs[11] = "<</T(b)/Parent 10 0 R/Kids[10 0 R]>>"
		add("form-kids-cycle", d.bytes(), "")
		d = baseDoc()
		d.objs[1] = "<</Type/Catalog/Pages 2 0 R/AcroForm<</Fields[10 0 R 10 0 R]>>>>"
		d.objs[10] = "<</T(a)/FT/Tx/Parent 10 0 R>>"
		add("form-parent-self", d.bytes(), "")
		d = baseDoc()
		d.objs[1] = "<</Type/Catalog/Pages 2 0 R/OpenAction 10 0 R>>"
		d.objs[10] = "<</S/GoTo/D[3 0 R/Fit]/Next 11 0 R>>"
		d.objs[11] = "<</S/GoTo/D[3 0 R/Fit]/Next[10 0 R 10 0 R]>>"
		add("action-next-cycle", d.bytes(), "")
		d = baseDoc()
		d.objs[1] = "<</Type/Catalog/Pages 2 0 R/Threads[10 0 R]>>"
		d.objs[10] = "<</Type/Thread/F 11 0 R>>"
		d.objs[11] = "<</Type/Bead/T 10 0 R/N 12 0 R/V 12 0 R/P 3 0 R/R[0 0 1 1]>>"
		d.objs[12] = "<</Type/Bead/N 12 0 R/V 11 0 R/P 3 0 R/R[0 0 1 1]>>"
		add("bead-cycle-off-first", d.bytes(), "")
		d = baseDoc()
		d.objs[1] = "<</Type/Catalog/Pages 2 0 R/MarkInfo<</Marked true>>/StructTreeRoot 10 0 R>>"
		d.objs[10] = "<</Type/StructTreeRoot/K 11 0 R>>"
		d.objs[11] = "<</Type/StructElem/S/P/P 10 0 R/K[11 0 R 11 0 R]>>"
		add("structtree-k-self", d.bytes(), "")
		d = baseDoc()
		d.objs[3] = "<</Type/Page/Parent 2 0 R/Contents 4 0 R/Resources 3 0 R>>"
		add("resources-is-page", d.bytes(), "")
		d = baseDoc()
		d.objs[3] = "<</Type/Page/Parent 2 0 R/Contents 4 0 R/Resources<</XObject<</X 6 0 R>>>>>>"
		d.objs[4] = stream("", "/X Do")
		d.objs[6] = stream("/Type/XObject/Subtype/Form/BBox[0 0 1 1]/Resources<</XObject<</X 6 0 R>>>>", "/X Do")
		add("form-xobject-self-resource", d.bytes(), "")
		d = baseDoc()
		d.objs[4] = "<</Length 4 0 R>>\nstream\nBT ET\nendstream"
		add("length-self-ref", d.bytes(), "")
		d = baseDoc()
		d.objs[4] = "<</Length 6 0 R>>\nstream\nBT ET\nendstream"
		d.objs[6] = "7 0 R"
		d.objs[7] = "6 0 R"
		add("length-ref-cycle", d.bytes(), "")
		d = baseDoc()
		d.objs[1] = "<</Type/Catalog/Pages 6 0 R>>"
		d.objs[6] = "7 0 R"
		d.objs[7] = "6 0 R"
		add("pages-ref-cycle", d.bytes(), "err")
	}

	// ---- deep nesting
	{
		for _, n := range []int{100, 101, deep} {
			d := baseDoc()
			d.objs[6] = nest("[", "]", n, "0")
			d.objs[1] = "<</Type/Catalog/Pages 2 0 R/X 6 0 R>>"
			add(fmt.Sprintf("deep-array-%d", n), d.bytes(), "")
			d = baseDoc()
			d.objs[6] = nest("<</A", ">>", n, "0")
			d.objs[1] = "<</Type/Catalog/Pages 2 0 R/X 6 0 R>>"
			add(fmt.Sprintf("deep-dict-%d", n), d.bytes(), "")
			d = baseDoc()
			d.objs[6] = nest("[", "]", n, "0")
			d.objs[1] = "<</Type/Catalog/Pages 2 0 R/X 6 0 R>>"
			add(fmt.Sprintf("deep-array-objstm-%d", n), d.bytesXRefStream(nil), "")
			d = baseDoc()
			d.objs[4] = stream("", "BT "+nest("[", "]", n, "(a)")+" TJ ET "+nest("<<", ">>", n, "")+" BDC")
			add(fmt.Sprintf("deep-content-%d", n), d.bytes(), "")
			d = baseDoc()
			d.objs[1] = "<</Type/Catalog/Pages 2 0 R/X " + nest("(", ")", n, "x") + ">>"
			add(fmt.Sprintf("deep-parens-%d", n), d.bytes(), "")
		}
		d := baseDoc()
		d.trailer = "/Info " + nest("[", "]", deep, "")
		add("deep-array-in-trailer", d.bytes(), "")
		d = baseDoc()
		d.objs[6] = strings.Repeat("[", deep)
		add("deep-array-unterminated", d.bytes(), "")
		d = baseDoc()
		d.objs[6] = strings.Repeat("<<", deep)
		add("deep-dict-unterminated", d.bytes(), "")
	}

	// ---- xref / Prev chains
	{
		base := baseDoc().bytes()
		x0 := lastStartxref(base)
		f1, x1 := appendUpdate(base, 6, "(v1)", 7, 1, strconv.Itoa(x0))
		add("prev-chain-2", f1, "ok")
		f2, x2 := appendUpdate(f1, 7, "(v2)", 8, 1, strconv.Itoa(x1))
		add("prev-chain-3", f2, "ok")
		// self loop: the offset of the section about to be appended = len(file)+len(object)
		{
			body := "(self)"
			objLen := len(fmt.Sprintf("%d 0 obj\n%s\nendobj\n", 6, body))
			f, _ := appendUpdate(base, 6, body, 7, 1, strconv.Itoa(len(base)+objLen))
			add("prev-self-loop", f, "")
		}
		{
			// two sections pointing at each other
			body := "(a)"
			objLen := len(fmt.Sprintf("%d 0 obj\n%s\nendobj\n", 6, body))
			xa := len(base) + objLen
			// section A's Prev must name section B's offset, which depends on A's length: fixed-width number
			fa, _ := appendUpdate(base, 6, body, 8, 1, "0000000000")
			xb := len(fa) + len(fmt.Sprintf("%d 0 obj\n%s\nendobj\n", 7, "(b)"))
			fa, _ = appendUpdate(base, 6, body, 8, 1, fmt.Sprintf("%010d", xb))
			fb, _ := appendUpdate(fa, 7, "(b)", 8, 1, strconv.Itoa(xa))
			add("prev-2cycle", fb, "")
		}
		f, _ := appendUpdate(f2, 8, "(v3)", 9, 1, strconv.Itoa(x1))
		_ = x2
		add("prev-skips-one", f, "")
		for _, p := range []string{"0", "-1", "1", "7", "99999999999", "9223372036854775807", "9223372036854775808", "-9223372036854775808", "1.5", "(x)", "[1]", "6 0 R", "null"} {
			f, _ := appendUpdate(base, 6, "(p)", 7, 1, p)
			add("prev-value-"+p, f, "")
		}
		// xref stream variants
		d := baseDoc()
		add("xrefstm-type2-to-nonobjstm", d.bytesXRefStream(func(rows map[int][3]int, osNr, xrNr int) {
			rows[5] = [3]int{2, 4, 0} // "compressed in object 4", which is a content stream
		}), "")
		add("xrefstm-type2-to-free", d.bytesXRefStream(func(rows map[int][3]int, osNr, xrNr int) {
			rows[5] = [3]int{2, 0, 0}
		}), "")
		add("xrefstm-type2-to-self", d.bytesXRefStream(func(rows map[int][3]int, osNr, xrNr int) {
			rows[osNr] = [3]int{2, osNr, 0}
		}), "")
		add("xrefstm-type2-to-compressed", d.bytesXRefStream(func(rows map[int][3]int, osNr, xrNr int) {
			rows[osNr] = [3]int{2, 5, 0}
		}), "")
		add("xrefstm-type2-index-huge", d.bytesXRefStream(func(rows map[int][3]int, osNr, xrNr int) {
			rows[5] = [3]int{2, osNr, 65535}
		}), "")
		add("xrefstm-free-referenced", d.bytesXRefStream(func(rows map[int][3]int, osNr, xrNr int) {
			rows[2] = [3]int{0, 0, 0}
		}), "")
		add("xrefstm-type-unknown", d.bytesXRefStream(func(rows map[int][3]int, osNr, xrNr int) {
			rows[5] = [3]int{7, 1, 1}
		}), "")
		add("xrefstm-offset-beyond-eof", d.bytesXRefStream(func(rows map[int][3]int, osNr, xrNr int) {
			rows[3] = [3]int{1, 0x7fffffff, 0}
		}), "")
		add("xrefstm-xref-points-to-itself-as-type2", d.bytesXRefStream(func(rows map[int][3]int, osNr, xrNr int) {
			rows[xrNr] = [3]int{2, osNr, 0}
		}), "")
		// object stream header garbage
		for _, hd := range []string{"/N -1/First 10", "/N 999999999/First 10", "/N 2/First -5", "/N 2/First 99999999999", "/N 1000001/First 4", "/N 2/First 17000000", "/N 2/First 0", "/N 0/First 0"} {
			d := baseDoc()
			d.objs[6] = "<</Type/ObjStm" + hd + "/Length 20>>\nstream\n7 0 8 4 (a) (bcdefghi)\nendstream"
			b, offs := d.bytesOff()
			_ = offs
			add("objstm-header-"+hd, b, "")
		}
	}
	return out
}

func parentOf(prev, i int) string {
	if i == 0 {
		return ""
	}
	if i == 1 {
		return "/Parent 2 0 R"
	}
	return fmt.Sprintf("/Parent %d 0 R", prev-1)
}

func prevParent(prev, n int) int {
	if n == 1 {
		return 2
	}
	return prev - 1
}
