// genc09 lists every call site in <repo>/pkg (non-test files) that decodes a PDF stream or builds a
// filter, with the decode limit the call passes, as a Gallina table (coq/C09/Generated.v):
//
//	x.Decode()                         -> LDefault  (StreamDict.Decode hard-wires filter.DefaultMaxDecodeBytes)
//	x.DecodeLength(n)                  -> LDefault
//	x.DecodeWithLimit(e)               -> kind of e
//	x.DecodeLengthWithLimit(n, e)      -> kind of e
//	filter.NewFilter(name, parms)      -> LDefault
//	filter.NewFilter(name, parms, e)   -> kind of e
//
// kind of e: LConfigured when e mentions a configured limit (…Limits.MaxDecodeBytes, a
// MaxDecodeBytes field, decodeLimit(ctx), or is a parameter of the enclosing function, i.e. limit
// plumbing); LDefault when it mentions DefaultMaxDecodeBytes.  Anything else: exit 1.
// A limit expression that reads a struct field X.MaxDecodeBytes where X is not a Limits value (today:
// l.osd.MaxDecodeBytes in LazyObjectStreamObject.GetData) is LField: the limit is whatever the
// constructors of that struct stored.  Therefore every composite literal of type ObjectStreamDict is
// listed in a second table osd_constructions, with the kind of the expression assigned to its
// MaxDecodeBytes field (no such field in the literal: LDefault, since 0 selects the package default).
// saveDecodedStreamContent(nil, ...) is listed as LDefault (decodeLimit(nil) = package default);
// saveDecodedStreamContentWithLimit(..., e) -> kind of e (decodeLimit(nil) is LDefault).
// Every site also carries its decode MODE: MFull (whole stream), MPartial (DecodeLength /
// DecodeLengthWithLimit with a maxLen other than the literal -1), MNone (NewFilter, struct literals).
// The two defaulting wrappers themselves (StreamDict.Decode / StreamDict.DecodeLength) are skipped.
package main

import (
	"bytes"
	"flag"
	"fmt"
	"go/ast"
	"go/parser"
	"go/printer"
	"go/token"
	"os"
	"path/filepath"
	"sort"
	"strings"
)

type site struct{ file, fn, call, kind, mode string }

func main() {
	repo := flag.String("repo", "/repo", "pdfcpu tree")
	out := flag.String("out", "", "output .v")
	flag.Parse()
	fset := token.NewFileSet()
	var sites, ctors []site
	fail := func(f string, a ...any) { fmt.Fprintf(os.Stderr, "genc09: "+f+"\n", a...); os.Exit(1) }
	root := filepath.Join(*repo, "pkg")
	err := filepath.Walk(root, func(p string, info os.FileInfo, err error) error {
		if err != nil {
			return err
		}
		if info.IsDir() || !strings.HasSuffix(p, ".go") || strings.HasSuffix(p, "_test.go") || strings.HasPrefix(info.Name(), "verif_export_") {
			return nil
		}
		f, err := parser.ParseFile(fset, p, nil, 0)
		if err != nil {
			return err
		}
		rel, _ := filepath.Rel(*repo, p)
		for _, d := range f.Decls {
			fd, ok := d.(*ast.FuncDecl)
			if !ok || fd.Body == nil {
				continue
			}
			fname := fd.Name.Name
			recv := ""
			if fd.Recv != nil && len(fd.Recv.List) == 1 {
				recv = src(fset, fd.Recv.List[0].Type)
				fname = strings.TrimPrefix(recv, "*") + "." + fname
			}
			if rel == "pkg/pdfcpu/types/streamdict.go" && (fname == "StreamDict.Decode" || fname == "StreamDict.DecodeLength") {
				continue // the defaulting wrappers
			}
			params := map[string]bool{}
			if fd.Type.Params != nil {
				for _, fl := range fd.Type.Params.List {
					for _, n := range fl.Names {
						params[n.Name] = true
					}
				}
			}
			ast.Inspect(fd.Body, func(n ast.Node) bool {
				if cl, ok := n.(*ast.CompositeLit); ok && cl.Type != nil && strings.HasSuffix(src(fset, cl.Type), "ObjectStreamDict") {
					kind := "LDefault"
					for _, el := range cl.Elts {
						kv, ok := el.(*ast.KeyValueExpr)
						if !ok {
							fail("%s: %s: positional ObjectStreamDict literal", rel, fname)
						}
						if src(fset, kv.Key) != "MaxDecodeBytes" {
							continue
						}
						e := src(fset, kv.Value)
						switch {
						case strings.Contains(e, "DefaultMaxDecodeBytes"):
							kind = "LDefault"
						case strings.Contains(e, "MaxDecodeBytes") || strings.Contains(e, "decodeLimit("):
							kind = "LConfigured"
						default:
							fail("%s: %s: cannot classify ObjectStreamDict.MaxDecodeBytes = %q", rel, fname, e)
						}
					}
					ctors = append(ctors, site{rel, fname, "ObjectStreamDict{}", kind, "MNone"})
					return true
				}
				ce, ok := n.(*ast.CallExpr)
				if !ok {
					return true
				}
				name, isSel := "", false
				switch fx := ce.Fun.(type) {
				case *ast.SelectorExpr:
					name, isSel = fx.Sel.Name, true
				case *ast.Ident:
					name = fx.Name
				}
				var limitExpr ast.Expr
				mode := "MFull"
				// partial decode: DecodeLength(x) / DecodeLengthWithLimit(x, e) with x other than the literal -1
				partial := func(x ast.Expr) string {
					if src(fset, x) == "-1" {
						return "MFull"
					}
					return "MPartial"
				}
				if name == "saveDecodedStreamContent" && len(ce.Args) == 5 {
					// read.go saveDecodedStreamContent decodes with decodeLimit(ctx); decodeLimit(nil) is the
					// package default, so a caller passing a nil context does not pass the configured limit
					if id, ok := ce.Args[0].(*ast.Ident); ok && id.Name == "nil" {
						sites = append(sites, site{rel, fname, "saveDecodedStreamContent(nil)", "LDefault", "MFull"})
					}
					return true
				}
				switch {
				case isSel && name == "Decode" && len(ce.Args) == 0:
				case isSel && name == "DecodeLength" && len(ce.Args) == 1:
					mode = partial(ce.Args[0])
				case isSel && name == "DecodeWithLimit" && len(ce.Args) == 1:
					limitExpr = ce.Args[0]
				case isSel && name == "DecodeLengthWithLimit" && len(ce.Args) == 2:
					limitExpr = ce.Args[1]
					mode = partial(ce.Args[0])
				case !isSel && name == "saveDecodedStreamContentWithLimit" && len(ce.Args) == 6:
					limitExpr = ce.Args[5] // read.go: decodes with sd.DecodeWithLimit(limit)
				case name == "NewFilter" && (len(ce.Args) == 2 || len(ce.Args) == 3) && (isSel && src(fset, ce.Fun) == "filter.NewFilter" || !isSel && f.Name.Name == "filter"):
					if len(ce.Args) == 3 {
						limitExpr = ce.Args[2]
					}
					mode = "MNone"
				default:
					if name == "DecodeWithLimit" || name == "DecodeLengthWithLimit" || name == "saveDecodedStreamContentWithLimit" {
						fail("%s: %s: unexpected arity of %s", rel, fname, name)
					}
					return true
				}
				kind := "LDefault"
				if limitExpr != nil {
					e := src(fset, limitExpr)
					id, isIdent := limitExpr.(*ast.Ident)
					switch {
					case strings.Contains(e, "DefaultMaxDecodeBytes") || strings.Contains(e, "decodeLimit(nil)"):
						kind = "LDefault"
					case strings.HasSuffix(e, ".MaxDecodeBytes") && !strings.Contains(e, "Limits") && !strings.HasPrefix(e, "limits."):
						kind = "LField"
					case strings.Contains(e, "MaxDecodeBytes") || strings.Contains(e, "decodeLimit("):
						kind = "LConfigured"
					case isIdent && params[id.Name]:
						kind = "LConfigured"
					default:
						fail("%s: %s: cannot classify limit expression %q", rel, fname, e)
					}
				}
				sites = append(sites, site{rel, fname, name, kind, mode})
				return true
			})
		}
		return nil
	})
	if err != nil {
		fail("%v", err)
	}
	if len(sites) == 0 {
		fail("no decode call site found under %s", root)
	}
	if len(ctors) == 0 {
		fail("no ObjectStreamDict composite literal found under %s", root)
	}
	for _, l := range [][]site{sites, ctors} {
		l := l
		sort.Slice(l, func(i, j int) bool {
			a, b := l[i], l[j]
			if a.file != b.file {
				return a.file < b.file
			}
			if a.fn != b.fn {
				return a.fn < b.fn
			}
			return a.call < b.call
		})
	}
	var w bytes.Buffer
	w.WriteString("(* GENERATED by go/cmd/genc09 from the pdfcpu sources — do not edit. *)\n")
	w.WriteString("From Coq Require Import String List.\nFrom PV Require Import C09.Model.\nImport ListNotations.\nOpen Scope string_scope.\n\n")
	w.WriteString("Definition decode_sites : list site := [\n")
	for i, s := range sites {
		sep := ";"
		if i == len(sites)-1 {
			sep = ""
		}
		fmt.Fprintf(&w, "  mksite %q %q %q %s %s%s\n", s.file, s.fn, s.call, s.kind, s.mode, sep)
	}
	w.WriteString("].\n\nDefinition osd_constructions : list site := [\n")
	for i, s := range ctors {
		sep := ";"
		if i == len(ctors)-1 {
			sep = ""
		}
		fmt.Fprintf(&w, "  mksite %q %q %q %s %s%s\n", s.file, s.fn, s.call, s.kind, s.mode, sep)
	}
	w.WriteString("].\n")
	if *out == "" {
		os.Stdout.Write(w.Bytes())
		return
	}
	if err := os.WriteFile(*out, w.Bytes(), 0o644); err != nil {
		fail("%v", err)
	}
}

func src(fset *token.FileSet, n ast.Node) string {
	var b bytes.Buffer
	printer.Fprint(&b, fset, n)
	return b.String()
}
