// Harness for C13: Unicode text stored as a PDF text string reads back unchanged.
//
// Correspondence (K): types.EncodeUTF16String, DecodeUTF16String, EscapedUTF16String, Escape,
// Unescape, StringLiteralToString, HexLiteralToString, NewHexLiteral, IsUTF16BE, IsStringUTF16BE
// and the Go library functions the model contains ([]rune(s), utf8.ValidString, string([]rune),
// utf16.Encode, utf16.Decode) are run on the same inputs as the extracted Gallina model.
// Oracle (O): the property itself is evaluated on the implementation:
//   - every valid text s: decode(encode(s)) == s, literal path and hex path read back s;
//   - a byte string is accepted by DecodeUTF16String iff it is well-formed UTF-16BE with BOM
//     (independent checker below), and then decodes to what unicode/utf16 says.
package main

import (
	"bytes"
	"encoding/hex"
	"encoding/json"
	"fmt"
	"strconv"
	"strings"
	"unicode/utf16"
	"unicode/utf8"

	"github.com/pdfcpu/pdfcpu/pkg/api"
	"github.com/pdfcpu/pdfcpu/pkg/pdfcpu/model"
	"github.com/pdfcpu/pdfcpu/pkg/pdfcpu/types"
	"verif/vh"
)

// ---- end-to-end: texts stored by pdfcpu's own writers, read back by pdfcpu's own reader

// createForm makes a one-page PDF with one date field and one text field carrying the given
// tooltips (api.Create), reads it back and returns the /TU text strings of the two widgets.
func createForm(tipDate, tipText string) (pdf []byte, gotDate, gotText string, err error) {
	defer func() {
		if p := recover(); p != nil {
			err = fmt.Errorf("panic: %v", p)
		}
	}()
	doc := map[string]any{
		"paper": "A4P", "origin": "LowerLeft",
		"fonts": map[string]any{"f": map[string]any{"name": "Helvetica", "size": 12}},
		"pages": map[string]any{"1": map[string]any{"content": map[string]any{
			"datefield": []any{map[string]any{"id": "d1", "pos": []int{100, 600}, "width": 80, "format": "d.m.yyyy", "tip": tipDate, "font": map[string]any{"name": "$f"}}},
			"textfield": []any{map[string]any{"id": "t1", "pos": []int{100, 500}, "width": 80, "tip": tipText, "font": map[string]any{"name": "$f"}}},
		}}},
	}
	js, _ := json.Marshal(doc)
	var out bytes.Buffer
	if err = api.Create(nil, bytes.NewReader(js), &out, model.NewDefaultConfiguration()); err != nil {
		return nil, "", "", fmt.Errorf("create: %w", err)
	}
	pdf = out.Bytes()
	ctx, err := api.ReadValidateAndOptimize(bytes.NewReader(pdf), model.NewDefaultConfiguration())
	if err != nil {
		return pdf, "", "", fmt.Errorf("read back: %w", err)
	}
	for i := 1; i < *ctx.XRefTable.Size; i++ {
		e, ok := ctx.XRefTable.Find(i)
		if !ok || e.Free || e.Object == nil {
			continue
		}
		d, ok := e.Object.(types.Dict)
		if !ok {
			continue
		}
		tu, ok := d.Find("TU")
		if !ok {
			continue
		}
		s, err := types.StringOrHexLiteral(tu)
		if err != nil {
			return pdf, "", "", fmt.Errorf("TU: %w", err)
		}
		id, _ := d.Find("T")
		ids, _ := types.StringOrHexLiteral(id)
		if ids != nil && *ids == "d1" {
			gotDate = *s
		} else {
			gotText = *s
		}
	}
	return pdf, gotDate, gotText, nil
}

func e2eForm(tip string) {
	in := map[string]any{"text_hex": hex.EncodeToString([]byte(tip)), "text": fmt.Sprintf("%+q", tip)}
	// the two fields are created in separate documents so that one failure cannot mask the other
	_, gd, _, err := createForm(tip, "plain")
	r.Count("e2e:datefield-tooltip")
	switch {
	case err != nil:
		r.OracleFail("c13-datefield-tooltip-unescaped", in, "date field tooltip (primitives/dateField.go stores EncodeUTF16String(tip) unescaped): "+err.Error())
	case gd != tip:
		r.OracleFail("c13-datefield-tooltip-unescaped", in, fmt.Sprintf("date field tooltip read back %+q", gd))
	default:
		r.OracleOK()
	}
	_, _, gt, err := createForm("plain", tip)
	r.Count("e2e:textfield-tooltip")
	switch {
	case err != nil:
		r.OracleFail("c13-textfield-tooltip-changed", in, "text field tooltip: "+err.Error())
	case gt != tip:
		r.OracleFail("c13-textfield-tooltip-changed", in, fmt.Sprintf("text field tooltip read back %+q", gt))
	default:
		r.OracleOK()
	}
}

// e2eProperties stores texts as document properties (api.AddProperties) and lists them (api.Properties).
func e2eProperties(base []byte, texts []string) {
	props := map[string]string{}
	for i, t := range texts {
		props["P"+strconv.Itoa(i)] = t
	}
	in := func(t string) map[string]any {
		return map[string]any{"text_hex": hex.EncodeToString([]byte(t)), "text": fmt.Sprintf("%+q", t)}
	}
	var got map[string]string
	err := func() (err error) {
		defer func() {
			if p := recover(); p != nil {
				err = fmt.Errorf("panic: %v", p)
			}
		}()
		var out bytes.Buffer
		if err := api.AddProperties(bytes.NewReader(base), &out, props, model.NewDefaultConfiguration()); err != nil {
			return fmt.Errorf("add: %w", err)
		}
		got, err = api.Properties(bytes.NewReader(out.Bytes()), model.NewDefaultConfiguration())
		return err
	}()
	r.CountN("e2e:property", len(texts))
	if err != nil {
		r.OracleFail("c13-property-store-or-read-failed", map[string]any{"texts_hex": func() []string {
			var l []string
			for _, t := range texts {
				l = append(l, hex.EncodeToString([]byte(t)))
			}
			return l
		}()}, err.Error())
		return
	}
	for i, t := range texts {
		if g := got["P"+strconv.Itoa(i)]; g != t {
			r.OracleFail("c13-property-changed", in(t), fmt.Sprintf("property read back %+q", g))
		} else {
			r.OracleOK()
		}
	}
}

var r *vh.Run

func resB(s string, err error) string {
	if err != nil {
		return "err"
	}
	return "ok:" + hex.EncodeToString([]byte(s))
}

func nlist(l []uint32) string {
	ss := make([]string, len(l))
	for i, v := range l {
		ss[i] = strconv.FormatUint(uint64(v), 16)
	}
	return strings.Join(ss, ",")
}

func runesList(rr []rune) string {
	l := make([]uint32, len(rr))
	for i, v := range rr {
		l[i] = uint32(v)
	}
	return nlist(l)
}

func unitsList(uu []uint16) string {
	l := make([]uint32, len(uu))
	for i, v := range uu {
		l[i] = uint32(v)
	}
	return nlist(l)
}

// guard runs f and turns a panic of the implementation into a result.
func guard(what string, input string, f func() string) (res string) {
	defer func() {
		if p := recover(); p != nil {
			res = "panic"
			r.OracleFail("c13-panic-"+what, map[string]any{"fn": what, "hex": input}, fmt.Sprint(p))
		}
	}()
	return f()
}

// roundTrip sends the Go string s through all store / read-back paths.
// valid UTF-8 s: oracle = everything reads back s.
func roundTrip(s string, tag string) {
	hs := hex.EncodeToString([]byte(s))
	var enc string
	var dec, lit, hx string
	var errDec, errEsc, errLit, errHx error
	var esc *string
	out := guard("roundtrip", hs, func() string {
		enc = types.EncodeUTF16String(s)
		dec, errDec = types.DecodeUTF16String(enc)
		esc, errEsc = types.EscapedUTF16String(s)
		escS := ""
		if errEsc == nil {
			escS = *esc
			lit, errLit = types.StringLiteralToString(types.StringLiteral(escS))
		} else {
			errLit = errEsc
		}
		hx, errHx = types.HexLiteralToString(types.NewHexLiteral([]byte(enc)))
		return strings.Join([]string{hex.EncodeToString([]byte(enc)), resB(dec, errDec), resB(escS, errEsc), resB(lit, errLit), resB(hx, errHx)}, "|")
	})
	r.Case("RT", []string{hs}, out)
	r.Count("rt:" + tag)
	if out == "panic" {
		return
	}
	if !utf8.ValidString(s) {
		// not a text: EscapedUTF16String must refuse it
		if errEsc == nil {
			r.OracleFail("c13-invalid-utf8-accepted", map[string]any{"text_hex": hs}, "EscapedUTF16String accepted an invalid UTF-8 string")
		} else {
			r.OracleOK()
		}
		return
	}
	in := map[string]any{"text_hex": hs, "text": fmt.Sprintf("%+q", s)}
	switch {
	case errDec != nil:
		r.OracleFail("c13-decode-rejects-encoded-text", in, "DecodeUTF16String(EncodeUTF16String(s)) failed: "+errDec.Error())
	case dec != s:
		r.OracleFail("c13-decode-changes-text", in, fmt.Sprintf("read back %+q", dec))
	case errEsc != nil:
		r.OracleFail("c13-escaped-rejects-valid-text", in, errEsc.Error())
	case errLit != nil:
		r.OracleFail("c13-literal-rejects-stored-text", in, "StringLiteralToString(EscapedUTF16String(s)) failed: "+errLit.Error())
	case lit != s:
		r.OracleFail("c13-literal-changes-text", in, fmt.Sprintf("read back %+q", lit))
	case errHx != nil:
		r.OracleFail("c13-hex-rejects-stored-text", in, "HexLiteralToString failed: "+errHx.Error())
	case hx != s:
		r.OracleFail("c13-hex-changes-text", in, fmt.Sprintf("read back %+q", hx))
	default:
		r.OracleOK()
	}
}

// wellFormed is an independent definition of "well-formed UTF-16BE text string with BOM":
// FE FF, then 16-bit big-endian units where every unit is a non-surrogate, or a high surrogate
// immediately followed by a low surrogate.  Returns the scalar values.
func wellFormed(b []byte) ([]rune, bool) {
	if len(b) < 2 || len(b)%2 != 0 || b[0] != 0xFE || b[1] != 0xFF {
		return nil, false
	}
	var rr []rune
	for i := 2; i < len(b); i += 2 {
		u := rune(b[i])<<8 | rune(b[i+1])
		switch {
		case u < 0xD800 || u > 0xDFFF:
			rr = append(rr, u)
		case u <= 0xDBFF:
			if i+3 >= len(b) {
				return nil, false
			}
			v := rune(b[i+2])<<8 | rune(b[i+3])
			if v < 0xDC00 || v > 0xDFFF {
				return nil, false
			}
			rr = append(rr, 0x10000+(u-0xD800)*0x400+(v-0xDC00))
			i += 2
		default:
			return nil, false
		}
	}
	return rr, true
}

func decodeCase(b []byte, tag string) {
	hb := hex.EncodeToString(b)
	var s string
	var err error
	out := guard("DecodeUTF16String", hb, func() string {
		s, err = types.DecodeUTF16String(string(b))
		return resB(s, err)
	})
	r.Case("DecodeUTF16String", []string{hb}, out)
	r.Count("decode:" + tag)
	if out == "panic" {
		return
	}
	rr, wf := wellFormed(b)
	in := map[string]any{"bytes_hex": hb}
	switch {
	case wf && err != nil:
		r.OracleFail("c13-wellformed-utf16be-rejected", in, err.Error())
	case !wf && err == nil:
		r.OracleFail("c13-malformed-utf16be-accepted", in, fmt.Sprintf("decoded to %+q", s))
	case wf && s != string(rr):
		r.OracleFail("c13-wellformed-utf16be-misdecoded", in, fmt.Sprintf("got %+q want %+q", s, string(rr)))
	default:
		r.OracleOK()
	}
	// the same bytes through the two literal readers (model correspondence only)
	lit := string(b)
	out = guard("StringLiteralToString", hb, func() string {
		s, err := types.StringLiteralToString(types.StringLiteral(lit))
		return resB(s, err)
	})
	r.Case("StringLiteralToString", []string{hb}, out)
	hl := string(types.NewHexLiteral(b))
	out = guard("HexLiteralToString", hb, func() string {
		s, err := types.HexLiteralToString(types.HexLiteral(hl))
		return resB(s, err)
	})
	r.Case("HexLiteralToString", []string{hex.EncodeToString([]byte(hl))}, out)
}

func be(units []uint16, bom bool) []byte {
	var b []byte
	if bom {
		b = []byte{0xFE, 0xFF}
	}
	for _, u := range units {
		b = append(b, byte(u>>8), byte(u))
	}
	return b
}

// interesting code points: range boundaries of UTF-8 / UTF-16 and characters whose UTF-16BE
// bytes collide with PDF literal string syntax ( \ ( ) CR LF, octal digits, escape letters )
var special = []rune{
	0, 1, 8, 9, 0x0A, 0x0C, 0x0D, 0x18, 0x1F, 0x20, '(', ')', '\\', '0', '7', '8', 'n', 'r', 't', 'b', 'f', 0x7F, 0x80, 0xFF,
	0x100, 0x7FF, 0x800, 0x0A0D, 0x0D0A, 0x0A0A, 0x0D0D, 0x2028, 0x2829, 0x285C, 0x5C28, 0x5C29, 0x5C5C, 0x5C6E, 0x5C72, 0x5C30, 0x5C37,
	0x5C0A, 0x5C0D, 0x0D5C, 0x0A5C, 0x3031, 0x295C, 0x5C00, 0x005C,
	0xD7FE, 0xD7FF, 0xE000, 0xE001, 0xF8FF, 0xFEFF, 0xFFFE, 0xFFFD, 0xFFFC, 0xFFFF, 0xFDD0,
	0x10000, 0x10001, 0x103FF, 0x10400, 0x1F600, 0x1D11E, 0x2FFFF, 0xE0000, 0xF0000, 0xFFFFF, 0x100000, 0x10FC00, 0x10FFFE, 0x10FFFF,
	0x1285C, 0x15C28, 0x10A0D, 0x10D0A, // supplementary: low surrogate bytes DCxx..DFxx, high D8xx..DBxx
	0x1045C, 0x10428, 0x10429, 0x1040A, 0x1040D, // low surrogate DC5C DC28 DC29 DC0A DC0D
	0x27000, 0x1A000, 0x1AC00, // high surrogate D85C, D828, D82B
}

func randScalar() rune {
	switch r.Rand.Intn(10) {
	case 0, 1:
		return rune(r.Rand.Intn(0x80))
	case 2:
		return rune(0x80 + r.Rand.Intn(0x780))
	case 3, 4:
		for {
			c := rune(0x800 + r.Rand.Intn(0xF800))
			if c < 0xD800 || c > 0xDFFF {
				return c
			}
		}
	case 5:
		return rune(0xE000 + r.Rand.Intn(0x1900)) // private use
	case 6, 7:
		return special[r.Rand.Intn(len(special))]
	case 8:
		return rune(0x10000 + r.Rand.Intn(0x100000))
	default:
		// both UTF-16 bytes from the "dangerous" set
		d := []rune{0x5C, 0x28, 0x29, 0x0A, 0x0D, 0x09, 0x08, 0x0C, 0x30, 0x6E, 0x00, 0x37}
		c := d[r.Rand.Intn(len(d))]<<8 | d[r.Rand.Intn(len(d))]
		return c
	}
}

func randText(maxLen int) string {
	n := r.Rand.Intn(maxLen + 1)
	rr := make([]rune, n)
	for i := range rr {
		rr[i] = randScalar()
	}
	return string(rr)
}

func main() {
	api.DisableConfigDir()
	r = vh.Start("C13")
	defer r.Finish()

	// ---- 1. every Unicode scalar value, one code point at a time
	stride := r.Pick(23, 1)
	boundary := map[rune]bool{}
	for _, c := range special {
		for d := rune(-2); d <= 2; d++ {
			boundary[c+d] = true
		}
	}
	for _, c := range []rune{0x7F, 0x80, 0x7FF, 0x800, 0xD7FF, 0xE000, 0xFFFF, 0x10000, 0x10FFFF} {
		for d := rune(-3); d <= 3; d++ {
			boundary[c+d] = true
		}
	}
	for c := rune(0); c <= 0x10FFFF; c++ {
		if c >= 0xD800 && c <= 0xDFFF {
			continue
		}
		if c%rune(stride) != 0 && !boundary[c] && !(c < 0x300) {
			continue
		}
		roundTrip(string(c), "single-scalar")
	}

	// ---- 2. random mixed strings (BMP, private use, boundaries, supplementary, syntax collisions)
	roundTrip("", "empty")
	for _, c := range special {
		for _, d := range special[:48] {
			roundTrip(string([]rune{c, d}), "special-pair")
		}
	}
	n := r.Pick(3000, 150000)
	for i := 0; i < n; i++ {
		roundTrip(randText(r.Pick(24, 40)), "random-text")
	}

	// ---- 3. Go strings that are not valid UTF-8 ([]rune(s) replacement semantics, ValidString)
	utf8Case := func(b []byte) {
		s := string(b)
		hs := hex.EncodeToString(b)
		r.Case("Runes", []string{hs}, runesList([]rune(s)))
		r.Case("ValidString", []string{hs}, vh.Bool(utf8.ValidString(s)))
	}
	for b0 := 0x80; b0 < 0x100; b0++ {
		utf8Case([]byte{byte(b0)})
		for b1 := 0; b1 < 0x100; b1++ {
			if !r.Thorough() && !(b1 <= 1 || b1 >= 0x7E && b1 <= 0xC3 || b1 == 0xFF) {
				continue
			}
			utf8Case([]byte{byte(b0), byte(b1)})
			utf8Case([]byte{byte(b0), byte(b1), 0x80})
			utf8Case([]byte{byte(b0), byte(b1), 0xBF, 0xBF})
			if b0 >= 0xE0 {
				for _, b2 := range []byte{0x00, 0x7F, 0xC0, 0xFF} {
					utf8Case([]byte{byte(b0), byte(b1), b2, 0x80})
					utf8Case([]byte{byte(b0), byte(b1), 0x80, b2})
				}
			}
		}
	}
	n = r.Pick(2000, 60000)
	for i := 0; i < n; i++ {
		var b []byte
		switch r.Rand.Intn(3) {
		case 0: // random bytes biased to lead/continuation bytes
			l := r.Rand.Intn(10)
			for j := 0; j < l; j++ {
				if r.Rand.Intn(2) == 0 {
					b = append(b, byte(0x80+r.Rand.Intn(0x80)))
				} else {
					b = append(b, byte(r.Rand.Intn(0x100)))
				}
			}
		case 1: // valid text with a byte removed / changed
			b = []byte(randText(6))
			if len(b) > 0 {
				k := r.Rand.Intn(len(b))
				if r.Rand.Intn(2) == 0 {
					b = append(b[:k:k], b[k+1:]...)
				} else {
					b[k] = byte(r.Rand.Intn(0x100))
				}
			}
		default: // CESU-8 style surrogates, overlongs, > U+10FFFF
			forms := [][]byte{{0xED, 0xA0, 0x80}, {0xED, 0xBF, 0xBF}, {0xC0, 0xAF}, {0xE0, 0x80, 0xAF}, {0xF0, 0x80, 0x80, 0xAF}, {0xF4, 0x90, 0x80, 0x80}, {0xF8, 0x88, 0x80, 0x80, 0x80}, {0xEF, 0xBF, 0xBD}, {0xEF, 0xBB, 0xBF}}
			b = append([]byte(randText(2)), forms[r.Rand.Intn(len(forms))]...)
			b = append(b, []byte(randText(2))...)
		}
		utf8Case(b)
		roundTrip(string(b), "maybe-invalid-utf8")
	}

	// ---- 4. utf16.Encode / utf16.Decode / string([]rune) on raw values (incl. surrogates, > MaxRune)
	rawRunes := [][]rune{{0xD800}, {0xDFFF}, {0xDBFF, 0xDC00}, {0x110000}, {0x7FFFFFFF}, {0x10FFFF, 0xD7FF, 0xE000, 0xFFFF, 0x10000}}
	for i := 0; i < r.Pick(300, 5000); i++ {
		l := 1 + r.Rand.Intn(5)
		rr := make([]rune, l)
		for j := range rr {
			switch r.Rand.Intn(4) {
			case 0:
				rr[j] = rune(0xD800 + r.Rand.Intn(0x800))
			case 1:
				rr[j] = rune(0x10FFF0 + r.Rand.Intn(0x40))
			default:
				rr[j] = randScalar()
			}
		}
		rawRunes = append(rawRunes, rr)
	}
	for _, rr := range rawRunes {
		r.Case("Utf16Encode", []string{runesList(rr)}, unitsList(utf16.Encode(rr)))
		r.Case("StringOfRunes", []string{runesList(rr)}, hex.EncodeToString([]byte(string(rr))))
	}
	for i := 0; i < r.Pick(2000, 40000); i++ {
		l := r.Rand.Intn(6)
		uu := make([]uint16, l)
		for j := range uu {
			switch r.Rand.Intn(4) {
			case 0:
				uu[j] = uint16(0xD800 + r.Rand.Intn(0x400))
			case 1:
				uu[j] = uint16(0xDC00 + r.Rand.Intn(0x400))
			case 2:
				uu[j] = []uint16{0xD7FF, 0xD800, 0xDBFF, 0xDC00, 0xDFFF, 0xE000, 0xFFFF, 0, 0xFFFD}[r.Rand.Intn(9)]
			default:
				uu[j] = uint16(r.Rand.Intn(0x10000))
			}
		}
		r.Case("Utf16Decode", []string{unitsList(uu)}, runesList(utf16.Decode(uu)))
		// ---- 5. the same unit sequences as (mostly malformed) text strings
		decodeCase(be(uu, true), "random-units")
		if i%8 == 0 {
			decodeCase(be(uu, false), "no-bom")
			b := be(uu, true)
			decodeCase(b[:len(b)-1], "odd-length")
			decodeCase(append(b, byte(r.Rand.Intn(256))), "odd-length")
		}
	}
	// every single unit and every boundary pair, with BOM
	step := r.Pick(7, 1)
	for u := 0; u < 0x10000; u++ {
		if u%step != 0 && !(u >= 0xD7F0 && u <= 0xE010) && u < 0xFFF0 {
			continue
		}
		decodeCase(be([]uint16{uint16(u)}, true), "single-unit")
	}
	edge := []uint16{0x0041, 0xD7FF, 0xD800, 0xD801, 0xDBFF, 0xDC00, 0xDC01, 0xDFFF, 0xE000, 0xFFFF, 0x5C5C, 0x2829}
	for _, a := range edge {
		for _, b := range edge {
			decodeCase(be([]uint16{a, b}, true), "edge-pair")
			for _, c := range edge {
				decodeCase(be([]uint16{a, b, c}, true), "edge-triple")
			}
		}
	}
	for _, b := range [][]byte{{}, {0xFE}, {0xFE, 0xFF}, {0xFF, 0xFE}, {0xFF, 0xFE, 0x41, 0x00}, {0xFE, 0xFF, 0x00}, {0xFE, 0xFF, 0xD8}, {0xFE, 0xFF, 0xD8, 0x00, 0xDC}, {0xEF, 0xBB, 0xBF, 0x41}, {0x00, 0x41}} {
		decodeCase(b, "tiny")
	}
	// valid encodings damaged in one place
	for i := 0; i < r.Pick(1500, 40000); i++ {
		b := []byte(types.EncodeUTF16String(randText(8)))
		switch r.Rand.Intn(5) {
		case 0:
			b = b[:len(b)-1]
		case 1:
			if len(b) > 2 {
				k := 2 + r.Rand.Intn(len(b)-2)
				b = append(b[:k:k], b[k+1:]...)
			}
		case 2:
			if len(b) > 2 {
				b[2+r.Rand.Intn(len(b)-2)] = byte(0xD8 + r.Rand.Intn(8))
			}
		case 3:
			if len(b) >= 6 { // swap two units
				k := 2 + 2*r.Rand.Intn((len(b)-4)/2)
				b[k], b[k+1], b[k+2], b[k+3] = b[k+2], b[k+3], b[k], b[k+1]
			}
		default:
			b = b[r.Rand.Intn(3):]
		}
		decodeCase(b, "damaged-encoding")
		r.Case("IsUTF16BE", []string{hex.EncodeToString(b)}, vh.Bool(types.IsUTF16BE(b)))
		r.Case("IsStringUTF16BE", []string{hex.EncodeToString(b)}, vh.Bool(types.IsStringUTF16BE(string(b))))
	}

	// ---- 6. Escape / Unescape / literal readers on arbitrary byte strings
	escCase := func(b []byte) {
		hb := hex.EncodeToString(b)
		var e *string
		out := guard("Escape", hb, func() string {
			e, _ = types.Escape(string(b))
			return hex.EncodeToString([]byte(*e))
		})
		r.Case("Escape", []string{hb}, out)
		var u []byte
		var err error
		out = guard("Unescape", hb, func() string {
			u, err = types.Unescape(string(b))
			return resB(string(u), err)
		})
		r.Case("Unescape", []string{hb}, out)
		if e != nil {
			back, err := types.Unescape(*e)
			if err != nil || string(back) != string(b) {
				r.OracleFail("c13-unescape-escape-not-identity", map[string]any{"bytes_hex": hb}, fmt.Sprintf("Unescape(Escape(b)) = %x, %v", back, err))
			} else {
				r.OracleOK()
			}
		}
		out = guard("StringLiteralToString", hb, func() string {
			s, err := types.StringLiteralToString(types.StringLiteral(string(b)))
			return resB(s, err)
		})
		r.Case("StringLiteralToString", []string{hb}, out)
		out = guard("HexLiteralToString", hb, func() string {
			s, err := types.HexLiteralToString(types.HexLiteral(string(b)))
			return resB(s, err)
		})
		r.Case("HexLiteralToString", []string{hb}, out)
	}
	for c := 0; c < 256; c++ {
		escCase([]byte{byte(c)})
		escCase([]byte{'\\', byte(c)})
		escCase([]byte{'\\', '1', byte(c)})
		escCase([]byte{'\\', '1', '2', byte(c)})
		escCase([]byte{'\\', '7', '7', '7', byte(c)})
		escCase([]byte{'\\', '4', '0', byte(c), '1', '\\', '5'})
		escCase([]byte{'\\', '\r', byte(c), 'x'})
		escCase([]byte{0xFE, 0xFF, 0x00, byte(c)})
		escCase([]byte{0xFE, 0xFF, '\\', byte(c), 0x00})
		r.Case("PdfDocRune", []string{vh.Uint(uint64(c))}, func() string {
			s, _ := types.StringLiteralToString(types.StringLiteral(string([]byte{0x18, byte(c)})))
			if byte(c) == '\\' {
				s, _ = types.StringLiteralToString(types.StringLiteral(string([]byte{0x18, '\\', '\\'})))
			}
			rr := []rune(s)
			return strconv.FormatUint(uint64(rr[len(rr)-1]), 16)
		}())
	}
	alphabet := []byte("\\\\\\()nrtbf01234789 \r\n\t\x08\x0cAz\x00\xfe\xff\xef\xbb\xbf\x18\x80\xa0\xad\xe2\x82\xac")
	for i := 0; i < r.Pick(4000, 100000); i++ {
		l := r.Rand.Intn(12)
		b := make([]byte, l)
		for j := range b {
			if r.Rand.Intn(6) == 0 {
				b[j] = byte(r.Rand.Intn(256))
			} else {
				b[j] = alphabet[r.Rand.Intn(len(alphabet))]
			}
		}
		if r.Rand.Intn(4) == 0 {
			b = append([]byte{0xFE, 0xFF}, b...)
		}
		escCase(b)
	}
	for _, o := range []string{"", "0", "7", "8", "377", "400", "777", "0000", "12", "1a", "78"} {
		r.Case("ByteForOctalString", []string{hex.EncodeToString([]byte(o))}, vh.Uint(uint64(types.ByteForOctalString(o))))
	}
	// hex literal syntax
	for _, h := range []string{"", "f", "FEFF0041", "feff0041", "FeFf0041", "feff004", "feff00g1", "zz", "4142", "feffd800", "feffd83dde00", "FEFFD83DDE00", "fffe4100", "5c303431", "efbbbf41"} {
		out := guard("HexLiteralToString", h, func() string {
			s, err := types.HexLiteralToString(types.HexLiteral(h))
			return resB(s, err)
		})
		r.Case("HexLiteralToString", []string{hex.EncodeToString([]byte(h))}, out)
		b, err := types.HexLiteral(h).Bytes()
		r.Case("HexDecode", []string{hex.EncodeToString([]byte(h))}, resB(string(b), err))
	}
	for i := 0; i < r.Pick(500, 5000); i++ {
		b := make([]byte, r.Rand.Intn(8))
		r.Rand.Read(b)
		r.Case("NewHexLiteral", []string{hex.EncodeToString(b)}, hex.EncodeToString([]byte(types.NewHexLiteral(b))))
		hs := []byte(types.NewHexLiteral(b))
		if len(hs) > 0 && r.Rand.Intn(2) == 0 {
			hs[r.Rand.Intn(len(hs))] = "0123456789abcdefABCDEFgG/:@`"[r.Rand.Intn(28)]
		}
		bb, err := types.HexLiteral(string(hs)).Bytes()
		r.Case("HexDecode", []string{hex.EncodeToString(hs)}, resB(string(bb), err))
	}

	// ---- 7. end to end through pdfcpu's writers and reader
	base, _, _, err := createForm("plain", "plain")
	if err != nil {
		panic("cannot create the base document: " + err.Error())
	}
	nonEmpty := func() string {
		for {
			// api.AddProperties refuses values that are empty after strings.TrimSpace
			if t := randText(12); strings.TrimSpace(t) != "" {
				return t
			}
		}
	}
	for i := 0; i < r.Pick(6, 60); i++ {
		var texts []string
		for j := 0; j < 25; j++ {
			if i == 0 && j < len(special) && special[j] != 0 {
				texts = append(texts, "a"+string(special[j])+string(special[(j+30)%len(special)]))
			} else {
				texts = append(texts, nonEmpty())
			}
		}
		e2eProperties(base, texts)
	}
	for _, t := range []string{"hello", "a)b", "x(y", "back\\slash", "\u20ac 625,50", "\U0001F600\uE000\uD7FF\uFFFF", "line\nbreak\r", "\u2829\u5C5C"} {
		e2eForm(t)
	}
	for i := 0; i < r.Pick(40, 1500); i++ {
		e2eForm(nonEmpty())
	}
}
