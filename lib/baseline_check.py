#!/usr/bin/env python3
"""Run /repo's test suite with the verif guard OFF and compare with BASELINE.json's stable_pass list."""
import json, subprocess, sys, os
base = json.load(open("/root/.vp/BASELINE.json"))
want = set(base["stable_pass"])
env = dict(os.environ, GOFLAGS="-mod=mod", GOPROXY="off")
p = subprocess.run(["go", "test", "-json", "-vet=off", "-count=1", "-timeout", "25m", "./..."], cwd=(sys.argv[1] if len(sys.argv)>1 else "/repo"), env=env, stdout=subprocess.PIPE, stderr=subprocess.STDOUT, text=True)
res = {}
for line in p.stdout.splitlines():
    try:
        e = json.loads(line)
    except Exception:
        continue
    if e.get("Action") in ("pass", "fail", "skip") and e.get("Test"):
        res[e["Package"] + "::" + e["Test"]] = e["Action"]
bad = sorted(t for t in want if res.get(t) != "pass")
# wall-clock-deadline tests fail under machine load: re-run each non-passing test alone, once
repo = (sys.argv[1] if len(sys.argv)>1 else "/repo")
still = []
for t in bad[:25]:
    pkg, name = t.split("::", 1)
    top = name.split("/")[0]
    rel = "./" + pkg.split("github.com/pdfcpu/pdfcpu/", 1)[-1]
    q = subprocess.run(["go", "test", "-vet=off", "-count=1", "-run", "^" + top + "$", rel], cwd=repo, env=env, stdout=subprocess.PIPE, stderr=subprocess.STDOUT, text=True)
    if q.returncode != 0:
        still.append(t)
    else:
        print("  (passed when re-run alone: %s)" % t)
bad = still + bad[25:]
print("stable_pass=%d passed_now=%d not_passing=%d" % (len(want), sum(1 for t in want if res.get(t) == "pass"), len(bad)))
for t in bad[:40]:
    print("  NOT PASSING:", t, res.get(t))
sys.exit(1 if bad else 0)
