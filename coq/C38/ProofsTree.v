(* C38: DetectWatermarks' page-tree walk does not depend on the shape of the tree. *)
From Coq Require Import List NArith Bool.
From PV Require Import C38.Model.
Import ListNotations.

Definition detp (p : page) : bool := detect_page (pg_ct p).

Fixpoint walk_kids (ks : list ptree) (w : bool) : bool :=
  match ks with
  | [] => w
  | k :: r => if w then w else walk_kids r (walk_tree k w)
  end.

Lemma walk_node kids w : walk_tree (PNode kids) w = walk_kids kids w.
Proof. simpl. revert w. induction kids as [|k r IH]; intros w; [reflexivity|]. destruct w; [reflexivity|]. apply IH. Qed.

Section PtreeInd.
  Variable P : ptree -> Prop.
  Hypothesis Hleaf : forall p, P (PLeaf p).
  Hypothesis Hnode : forall kids, Forall P kids -> P (PNode kids).
  Fixpoint ptree_ind2 (t : ptree) : P t :=
    match t with
    | PLeaf p => Hleaf p
    | PNode kids =>
        Hnode kids ((fix go (ks : list ptree) : Forall P ks :=
                       match ks with
                       | [] => Forall_nil P
                       | k :: r => Forall_cons k (ptree_ind2 k) (go r)
                       end) kids)
    end.
End PtreeInd.

Lemma walk_tree_false t : walk_tree t false = existsb detp (flatten t).
Proof.
  induction t as [p|kids IH] using ptree_ind2.
  - simpl. rewrite orb_false_r. reflexivity.
  - rewrite walk_node. simpl flatten.
    assert (H : forall w, walk_kids kids w = w || existsb detp (flat_map flatten kids)).
    { induction IH as [|k r Hk _ IHr]; intros w; [simpl; rewrite orb_false_r; reflexivity|].
      simpl. destruct w; [reflexivity|]. rewrite IHr, Hk, existsb_app. reflexivity. }
    apply H.
Qed.

(* flatten-invariance *)
Lemma walk_tree_shape t1 t2 : flatten t1 = flatten t2 -> walk_tree t1 false = walk_tree t2 false.
Proof. intros H. rewrite !walk_tree_false, H. reflexivity. Qed.

Lemma detect_tdoc_flat d : detect_tdoc d = detect_doc (flat_doc d).
Proof. unfold detect_tdoc, detect_doc, flat_doc. rewrite walk_tree_false. reflexivity. Qed.

Lemma tree_detect_statement :
  (forall t, walk_tree t false = existsb (fun p => detect_page (pg_ct p)) (flatten t))
  /\ (forall t1 t2, flatten t1 = flatten t2 -> walk_tree t1 false = walk_tree t2 false)
  /\ (forall d, detect_tdoc d = detect_doc (flat_doc d)).
Proof. split; [exact walk_tree_false|split; [exact walk_tree_shape|exact detect_tdoc_flat]]. Qed.
