From Coq Require Import Extraction ExtrOcamlBasic.
From PV Require Import Lib.ExtBase C29.Model.
Extraction "model.ml" ext_base_z ext_base_n ext_base_nat ext_base_res ext_base_list
  remove_signatures remove_all has_sigs supported sig_ids top_ids visible_sigflags forest_nodes nonsig_nodes visible_fields.
