// genc41 regenerates coq/C41/Generated.v (and a JSON side-car for the harness) from the
// pdfcpu CLI source (go/ast only, no pdfcpu import).
//
//	genc41 -repo <pdfcpu tree> -out <Generated.v> [-json <table.json>]
//
// It reads every non-test file of <repo>/pkg/cli and <repo>/cmd/pdfcpu and emits
//
//   - cli_table : list cli_row — one row per function of pkg/cli that mentions the string
//     literal "-", os.Stdout, os.Stdin, log.SetCLILogger, or calls one of the stream helpers
//     (streamInOutForOperation, withStdinReadSeeker, readSeekerFromStdin) directly.  Facts per row:
//     ndash      number of "-" literals in the body (function literals included)
//     nreject    number of those that are (a disjunct of) the condition of an `if` whose body is a
//     lone `return …, <non-nil error>` (the command refuses "-") or a lone `return nil` (no-op guard)
//     stream_direct / stdin_direct   calls streamInOutForOperation / one of the two stdin helpers
//     reach_stream / reach_stdin     … or reaches one through calls to functions of pkg/cli
//     stdout     mentions os.Stdout;  stdout_guarded: every mention is dominated by a
//     statement `log.SetCLILogger(nil)` (an earlier sibling statement in an enclosing block)
//     stdin      mentions os.Stdin
//     logoff     contains `log.SetCLILogger(nil)`
//     ret_nil    every `return a, b` of the function itself has a == nil (no text lines are
//     handed to the caller that prints them to stdout)
//     does_io    calls something in package api or os
//   - json_table : list json_row — one row per (handler, JSON command constructor) of cmd/pdfcpu:
//     handlers are the functions with a parameter *T where struct T has a field `json bool`;
//     the number of such struct types must equal the number of registered "json" flags.
//     handler_logoff: `log.SetCLILogger(nil)` (unconditional or inside `if <opts>.json {…}`)
//     dominates the runCommand call;  the constructor cli.XCommand is resolved through
//     pkg/cli (Mode: model.M in its composite literal, possibly through one delegating
//     constructor), dispatchTable[model.M] and, for dispatchX functions, the `case model.M`
//     clause, to the executing function;  cli_logoff: that function reaches a function
//     containing `log.SetCLILogger(nil)`.
//
//   - sel_table : list sel_row — one row per function of pkg/cli that calls
//     api.PagesForPageSelection (result variable v, a map page -> bool in which negated pages
//     are present with value false).  s_ranges: v is ranged over;  s_counts_by_value: every such
//     range is `for K, V := range v { if V { …; C++ } }` (both key and value bound, the body a
//     single `if` on the value identifier that increments a counter);  s_single_guard: the loop
//     is followed by `if C != 1 { return … }`;  s_uses_len / s_uses_index: v occurs in len(v) /
//     v[…].  Any other use of v than passing it on (call argument, return value) or comparing
//     it makes genc41 fail.
//
//   - stdin_copy : stdin_copy_shape — the shape of readSeekerFromStdin around
//     `n, copyErr := io.Copy(f, os.Stdin)` (exactly one such statement must exist):
//     sc_err_check_directly_after: the next statement of the same block is an `if`;
//     sc_err_check_independent_of_n: its condition is exactly `copyErr != nil` (the byte count
//     does not occur in it and it is not nested in a test of n);  sc_err_returns: its body ends
//     in `return nil, <non-nil>`;  sc_empty_check: a later `if n == 0 { … return nil, <non-nil> }`.
//
//   - flag_table : list flag_row — for every function of pkg/cli and every generic slot of
//     Command (cmd.BoolVal1/2/3, cmd.IntVal, cmd.StringVal) that it passes DIRECTLY as an
//     argument to a function of package api: the set of parameter names (taken from the
//     declarations in <repo>/pkg/api) the slot is bound to.  A slot bound to two different
//     parameter names inside one function (e.g. BoolVal2 passed as `all` in the stdin branch
//     and as `json` in the file branch) shows up as fl_nnames = 2.  Calls of api functions that
//     are not declared in pkg/api, or with more arguments than parameters (without a variadic
//     tail), make genc41 fail.
//
// Every "-" literal must occur as an operand of ==/!=, as an argument of slices.Contains,
// as an argument of streamInOutForOperation, or as the right-hand side of an assignment;
// log.SetCLILogger must only be called with nil; anything else makes genc41 FAIL (exit 1),
// as does any step of the constructor resolution it does not understand.
package main

import (
	"encoding/json"
	"flag"
	"fmt"
	"go/ast"
	"go/parser"
	"go/token"
	"os"
	"path/filepath"
	"sort"
	"strings"
)

func die(format string, a ...any) {
	fmt.Fprintf(os.Stderr, "genc41: "+format+"\n", a...)
	os.Exit(1)
}

var fset = token.NewFileSet()

func pos(n ast.Node) string {
	p := fset.Position(n.Pos())
	return fmt.Sprintf("%s:%d", filepath.Base(p.Filename), p.Line)
}

type fn struct {
	Name         string `json:"name"`
	File         string `json:"file"`
	NDash        int    `json:"ndash"`
	NReject      int    `json:"nreject"`
	StreamDirect bool   `json:"stream_direct"`
	StdinDirect  bool   `json:"stdin_direct"`
	ReachStream  bool   `json:"reach_stream"`
	ReachStdin   bool   `json:"reach_stdin"`
	Stdout       bool   `json:"stdout"`
	StdoutGuard  bool   `json:"stdout_guarded"`
	Stdin        bool   `json:"stdin"`
	Logoff       bool   `json:"logoff"`
	RetNil       bool   `json:"ret_nil"`
	DoesIO       bool   `json:"does_io"`
	decl         *ast.FuncDecl
	calls        map[string]bool
}

type jrow struct {
	Handler       string `json:"handler"`
	Opts          string `json:"opts"`
	HandlerLogoff bool   `json:"handler_logoff"`
	Ctor          string `json:"ctor"`
	Mode          string `json:"mode"`
	Exec          string `json:"exec"`
	CliLogoff     bool   `json:"cli_logoff"`
}

func parseDir(dir string) []*ast.File {
	ents, err := os.ReadDir(dir)
	if err != nil {
		die("read %s: %v", dir, err)
	}
	var files []*ast.File
	for _, e := range ents {
		n := e.Name()
		if e.IsDir() || !strings.HasSuffix(n, ".go") || strings.HasSuffix(n, "_test.go") || strings.HasPrefix(n, "verif_export_") {
			continue
		}
		f, err := parser.ParseFile(fset, filepath.Join(dir, n), nil, 0)
		if err != nil {
			die("parse %s: %v", n, err)
		}
		files = append(files, f)
	}
	if len(files) == 0 {
		die("no Go files in %s", dir)
	}
	return files
}

func isSel(e ast.Expr, pkg, name string) bool {
	s, ok := e.(*ast.SelectorExpr)
	if !ok || s.Sel.Name != name {
		return false
	}
	id, ok := s.X.(*ast.Ident)
	return ok && id.Name == pkg
}

func isNil(e ast.Expr) bool {
	id, ok := e.(*ast.Ident)
	return ok && id.Name == "nil"
}

func isDash(e ast.Expr) bool {
	b, ok := e.(*ast.BasicLit)
	return ok && b.Kind == token.STRING && b.Value == `"-"`
}

func isLogoffStmt(s ast.Stmt) bool {
	es, ok := s.(*ast.ExprStmt)
	if !ok {
		return false
	}
	c, ok := es.X.(*ast.CallExpr)
	return ok && isSel(c.Fun, "log", "SetCLILogger") && len(c.Args) == 1 && isNil(c.Args[0])
}

// stmtList returns the statement list a node owns, if it is a block-like node.
func stmtList(n ast.Node) []ast.Stmt {
	switch b := n.(type) {
	case *ast.BlockStmt:
		return b.List
	case *ast.CaseClause:
		return b.Body
	case *ast.CommClause:
		return b.Body
	}
	return nil
}

// dominatedBy reports whether the node at the top of stack (stack[len-1]) is preceded,
// in some enclosing statement list, by an earlier sibling statement satisfying pred.
func dominatedBy(stack []ast.Node, pred func(ast.Stmt) bool) bool {
	for i := len(stack) - 1; i > 0; i-- {
		list := stmtList(stack[i-1])
		if list == nil {
			continue
		}
		for _, s := range list {
			if ast.Node(s) == stack[i] {
				break
			}
			if pred(s) {
				return true
			}
		}
	}
	return false
}

func calleeName(e ast.Expr) string {
	switch f := e.(type) {
	case *ast.Ident:
		return f.Name
	case *ast.IndexExpr: // generic instantiation f[T]
		return calleeName(f.X)
	case *ast.IndexListExpr:
		return calleeName(f.X)
	}
	return ""
}

func isErrExpr(e ast.Expr) bool {
	c, ok := e.(*ast.CallExpr)
	if !ok {
		return false
	}
	return isSel(c.Fun, "fmt", "Errorf") || isSel(c.Fun, "errors", "New") || calleeName(c.Fun) == "commandValidationError"
}

func analyseCli(files []*ast.File) (map[string]*fn, []*fn) {
	fns := map[string]*fn{}
	var order []*fn
	for _, f := range files {
		for _, d := range f.Decls {
			fd, ok := d.(*ast.FuncDecl)
			if !ok || fd.Body == nil {
				continue
			}
			name := fd.Name.Name
			if fd.Recv != nil && len(fd.Recv.List) == 1 {
				t := fd.Recv.List[0].Type
				if st, ok := t.(*ast.StarExpr); ok {
					t = st.X
				}
				if id, ok := t.(*ast.Ident); ok {
					name = id.Name + "." + name
				}
			}
			if _, dup := fns[name]; dup {
				die("duplicate function %s", name)
			}
			x := &fn{Name: name, File: filepath.Base(fset.Position(fd.Pos()).Filename), decl: fd, calls: map[string]bool{}, StdoutGuard: true, RetNil: true}
			fns[name] = x
			order = append(order, x)
		}
	}
	for _, x := range order {
		analyseFn(x, fns)
	}
	// transitive closure
	reach := func(start *fn, pred func(*fn) bool) bool {
		seen := map[string]bool{}
		var dfs func(*fn) bool
		dfs = func(f *fn) bool {
			if seen[f.Name] {
				return false
			}
			seen[f.Name] = true
			if pred(f) {
				return true
			}
			for c := range f.calls {
				if g, ok := fns[c]; ok && dfs(g) {
					return true
				}
			}
			return false
		}
		return dfs(start)
	}
	for _, x := range order {
		x.ReachStream = reach(x, func(f *fn) bool { return f.StreamDirect })
		x.ReachStdin = reach(x, func(f *fn) bool { return f.StdinDirect })
	}
	return fns, order
}

func analyseFn(x *fn, fns map[string]*fn) {
	var stack []ast.Node
	litDepth := 0
	ast.Inspect(x.decl, func(n ast.Node) bool {
		if n == nil {
			top := stack[len(stack)-1]
			if _, ok := top.(*ast.FuncLit); ok {
				litDepth--
			}
			stack = stack[:len(stack)-1]
			return true
		}
		stack = append(stack, n)
		switch v := n.(type) {
		case *ast.FuncLit:
			litDepth++
		case *ast.BasicLit:
			if isDash(v) {
				x.NDash++
				classifyDash(x, stack)
			}
		case *ast.SelectorExpr:
			if isSel(v, "os", "Stdout") {
				x.Stdout = true
				if !dominatedBy(stack, isLogoffStmt) {
					x.StdoutGuard = false
				}
			}
			if isSel(v, "os", "Stdin") {
				x.Stdin = true
			}
		case *ast.CallExpr:
			if isSel(v.Fun, "log", "SetCLILogger") {
				if len(v.Args) != 1 || !isNil(v.Args[0]) {
					die("%s: log.SetCLILogger called with something other than nil", pos(v))
				}
				if len(stack) < 2 {
					die("%s: SetCLILogger position", pos(v))
				}
				if _, ok := stack[len(stack)-2].(*ast.ExprStmt); !ok {
					die("%s: log.SetCLILogger(nil) is not a plain statement", pos(v))
				}
				x.Logoff = true
			}
			if s, ok := v.Fun.(*ast.SelectorExpr); ok {
				if id, ok := s.X.(*ast.Ident); ok && (id.Name == "api" || id.Name == "os") {
					x.DoesIO = true
				}
			}
			switch calleeName(v.Fun) {
			case "streamInOutForOperation":
				if x.Name != "streamInOutForOperation" {
					x.StreamDirect = true
				}
			case "withStdinReadSeeker", "readSeekerFromStdin":
				if x.Name != "withStdinReadSeeker" && x.Name != "readSeekerFromStdin" {
					x.StdinDirect = true
				}
			}
		case *ast.Ident:
			if _, ok := fns[v.Name]; ok && v.Name != x.Name {
				x.calls[v.Name] = true
			}
		case *ast.ReturnStmt:
			if litDepth == 0 && len(v.Results) == 2 && !isNil(v.Results[0]) {
				x.RetNil = false
			}
			if litDepth == 0 && len(v.Results) == 1 {
				// `return f(...)` handing through another function's results
				x.RetNil = false
			}
		}
		return true
	})
	// ret_nil only concerns functions whose results are ([]string, error); named results
	// (`out, err = F(cmd)`) count as non-nil
	returnsLines := false
	if rs := x.decl.Type.Results; rs != nil {
		var types []ast.Expr
		named := false
		for _, r := range rs.List {
			k := len(r.Names)
			if k == 0 {
				k = 1
			} else {
				named = true
			}
			for i := 0; i < k; i++ {
				types = append(types, r.Type)
			}
		}
		if len(types) == 2 {
			if at, ok := types[0].(*ast.ArrayType); ok && at.Len == nil {
				if id, ok := at.Elt.(*ast.Ident); ok && id.Name == "string" {
					returnsLines = true
					if named {
						x.RetNil = false
					}
				}
			}
		}
	}
	if !returnsLines {
		x.RetNil = true
	}
}

func classifyDash(x *fn, stack []ast.Node) {
	lit := stack[len(stack)-1]
	parent := stack[len(stack)-2]
	switch p := parent.(type) {
	case *ast.BinaryExpr:
		if p.Op != token.EQL && p.Op != token.NEQ {
			die("%s: \"-\" under operator %s", pos(lit), p.Op)
		}
		// rejection / no-op guard: if A == "-" [|| …] { return …, <error> }  or  { return nil }
		if p.Op == token.EQL {
			top := len(stack) - 2
			for top-1 >= 0 {
				if be, ok := stack[top-1].(*ast.BinaryExpr); ok && be.Op == token.LOR {
					top--
					continue
				}
				break
			}
			if top-1 >= 0 {
				if is, ok := stack[top-1].(*ast.IfStmt); ok && ast.Node(is.Cond) == stack[top] && is.Else == nil && len(is.Body.List) == 1 {
					if r, ok := is.Body.List[0].(*ast.ReturnStmt); ok && len(r.Results) >= 1 {
						last := r.Results[len(r.Results)-1]
						if isErrExpr(last) || (len(r.Results) == 1 && isNil(last)) {
							x.NReject++
						}
					}
				}
			}
		}
	case *ast.CallExpr:
		if isSel(p.Fun, "slices", "Contains") {
			return
		}
		if calleeName(p.Fun) == "streamInOutForOperation" {
			return
		}
		die("%s: \"-\" passed to a call that is not understood", pos(lit))
	case *ast.AssignStmt:
		return
	default:
		die("%s: \"-\" in a context that is not understood (%T)", pos(lit), parent)
	}
}

// ---- constructor resolution in pkg/cli

func ctorMode(name string, fns map[string]*fn, depth int) string {
	f, ok := fns[name]
	if !ok {
		die("constructor cli.%s not found in pkg/cli", name)
	}
	var modes []string
	ast.Inspect(f.decl, func(n ast.Node) bool {
		kv, ok := n.(*ast.KeyValueExpr)
		if !ok {
			return true
		}
		if id, ok := kv.Key.(*ast.Ident); ok && id.Name == "Mode" {
			if s, ok := kv.Value.(*ast.SelectorExpr); ok {
				if p, ok := s.X.(*ast.Ident); ok && p.Name == "model" {
					modes = append(modes, s.Sel.Name)
					return true
				}
			}
			die("%s: Mode value not of the form model.X", pos(kv))
		}
		return true
	})
	if len(modes) == 1 {
		return modes[0]
	}
	if len(modes) > 1 {
		die("constructor %s sets several modes", name)
	}
	// delegating constructor: body is `return other(args…)`
	if depth < 2 && len(f.decl.Body.List) == 1 {
		if r, ok := f.decl.Body.List[0].(*ast.ReturnStmt); ok && len(r.Results) == 1 {
			if c, ok := r.Results[0].(*ast.CallExpr); ok {
				if cn := calleeName(c.Fun); cn != "" {
					return ctorMode(cn, fns, depth+1)
				}
			}
		}
	}
	die("constructor %s: cannot determine its command mode", name)
	return ""
}

func dispatchTarget(mode string, files []*ast.File, fns map[string]*fn) string {
	var table *ast.CompositeLit
	for _, f := range files {
		for _, d := range f.Decls {
			gd, ok := d.(*ast.GenDecl)
			if !ok || gd.Tok != token.VAR {
				continue
			}
			for _, sp := range gd.Specs {
				vs := sp.(*ast.ValueSpec)
				for i, n := range vs.Names {
					if n.Name == "dispatchTable" && i < len(vs.Values) {
						if cl, ok := vs.Values[i].(*ast.CompositeLit); ok {
							table = cl
						}
					}
				}
			}
		}
	}
	if table == nil {
		die("dispatchTable not found")
	}
	target := ""
	for _, el := range table.Elts {
		kv, ok := el.(*ast.KeyValueExpr)
		if !ok {
			die("%s: dispatchTable element", pos(el))
		}
		s, ok := kv.Key.(*ast.SelectorExpr)
		if !ok {
			die("%s: dispatchTable key", pos(kv))
		}
		if s.Sel.Name != mode {
			continue
		}
		id, ok := kv.Value.(*ast.Ident)
		if !ok {
			die("%s: dispatchTable value", pos(kv))
		}
		if target != "" {
			die("mode %s twice in dispatchTable", mode)
		}
		target = id.Name
	}
	if target == "" {
		die("mode %s not in dispatchTable", mode)
	}
	f, ok := fns[target]
	if !ok {
		die("dispatch target %s not found", target)
	}
	if !strings.HasPrefix(target, "dispatch") {
		return target
	}
	// dispatchX: switch cmd.Mode { case model.M: … G(cmd) … }
	found := ""
	ast.Inspect(f.decl, func(n ast.Node) bool {
		cc, ok := n.(*ast.CaseClause)
		if !ok {
			return true
		}
		hit := false
		for _, e := range cc.List {
			if s, ok := e.(*ast.SelectorExpr); ok && s.Sel.Name == mode {
				hit = true
			}
		}
		if !hit {
			return true
		}
		for _, st := range cc.Body {
			ast.Inspect(st, func(m ast.Node) bool {
				if c, ok := m.(*ast.CallExpr); ok {
					if cn := calleeName(c.Fun); cn != "" {
						if _, ok := fns[cn]; ok {
							if found != "" && found != cn {
								die("%s: several calls in case %s", pos(c), mode)
							}
							found = cn
						}
					}
				}
				return true
			})
		}
		return true
	})
	if found == "" {
		die("%s: no case for %s understood", target, mode)
	}
	return found
}

// ---- cmd/pdfcpu JSON handlers

func analyseJSON(cmdFiles, cliFiles []*ast.File, fns map[string]*fn) []jrow {
	// struct types with a field `json bool`
	jsonStructs := map[string]bool{}
	nflags := 0
	for _, f := range cmdFiles {
		ast.Inspect(f, func(n ast.Node) bool {
			switch v := n.(type) {
			case *ast.TypeSpec:
				if st, ok := v.Type.(*ast.StructType); ok {
					for _, fl := range st.Fields.List {
						for _, nm := range fl.Names {
							if nm.Name == "json" {
								if id, ok := fl.Type.(*ast.Ident); !ok || id.Name != "bool" {
									die("%s: field json of %s is not bool", pos(fl), v.Name.Name)
								}
								jsonStructs[v.Name.Name] = true
							}
						}
					}
				}
			case *ast.CallExpr:
				if s, ok := v.Fun.(*ast.SelectorExpr); ok && (s.Sel.Name == "BoolVarP" || s.Sel.Name == "BoolVar" || s.Sel.Name == "Bool" || s.Sel.Name == "BoolP") {
					for _, a := range v.Args {
						if b, ok := a.(*ast.BasicLit); ok && b.Kind == token.STRING && b.Value == `"json"` {
							nflags++
							u, ok := v.Args[0].(*ast.UnaryExpr)
							if !ok || u.Op != token.AND {
								die("%s: json flag not bound to &opts.json", pos(v))
							}
							if se, ok := u.X.(*ast.SelectorExpr); !ok || se.Sel.Name != "json" {
								die("%s: json flag not bound to a field named json", pos(v))
							}
						}
					}
				}
			}
			return true
		})
	}
	if nflags == 0 || nflags != len(jsonStructs) {
		die("json flags registered: %d, option structs with a json field: %d", nflags, len(jsonStructs))
	}
	var rows []jrow
	handled := map[string]bool{}
	for _, f := range cmdFiles {
		for _, d := range f.Decls {
			fd, ok := d.(*ast.FuncDecl)
			if !ok || fd.Body == nil || fd.Recv != nil {
				continue
			}
			param, tname := "", ""
			for _, p := range fd.Type.Params.List {
				if st, ok := p.Type.(*ast.StarExpr); ok {
					if id, ok := st.X.(*ast.Ident); ok && jsonStructs[id.Name] && len(p.Names) == 1 {
						param, tname = p.Names[0].Name, id.Name
					}
				}
			}
			if param == "" {
				continue
			}
			handled[tname] = true
			rows = append(rows, analyseHandler(fd, param, tname, cliFiles, fns)...)
		}
	}
	for t := range jsonStructs {
		if !handled[t] {
			die("no handler takes *%s", t)
		}
	}
	sort.Slice(rows, func(i, j int) bool {
		if rows[i].Handler != rows[j].Handler {
			return rows[i].Handler < rows[j].Handler
		}
		return rows[i].Ctor < rows[j].Ctor
	})
	return rows
}

func analyseHandler(fd *ast.FuncDecl, param, tname string, cliFiles []*ast.File, fns map[string]*fn) []jrow {
	isJSONCond := func(e ast.Expr) bool {
		s, ok := e.(*ast.SelectorExpr)
		if !ok || s.Sel.Name != "json" {
			return false
		}
		id, ok := s.X.(*ast.Ident)
		return ok && id.Name == param
	}
	guard := func(s ast.Stmt) bool {
		if isLogoffStmt(s) {
			return true
		}
		is, ok := s.(*ast.IfStmt)
		if !ok || !isJSONCond(is.Cond) {
			return false
		}
		for _, b := range is.Body.List {
			if isLogoffStmt(b) {
				return true
			}
		}
		return false
	}
	var stack []ast.Node
	type hit struct {
		ctor   string
		logoff bool
	}
	var hits []hit
	nrun := 0
	ast.Inspect(fd, func(n ast.Node) bool {
		if n == nil {
			stack = stack[:len(stack)-1]
			return true
		}
		stack = append(stack, n)
		c, ok := n.(*ast.CallExpr)
		if !ok {
			return true
		}
		if calleeName(c.Fun) == "runCommand" {
			nrun++
		}
		s, ok := c.Fun.(*ast.SelectorExpr)
		if !ok {
			return true
		}
		id, ok := s.X.(*ast.Ident)
		if !ok || id.Name != "cli" {
			return true
		}
		// is this the JSON constructor?  (a) an argument is <param>.json, or (b) inside if <param>.json
		isJSON := false
		for _, a := range c.Args {
			if isJSONCond(a) {
				isJSON = true
			}
		}
		for i := len(stack) - 1; i > 0; i-- {
			if is, ok := stack[i-1].(*ast.IfStmt); ok && isJSONCond(is.Cond) && ast.Node(is.Body) == stack[i] {
				isJSON = true
			}
		}
		if isJSON {
			hits = append(hits, hit{s.Sel.Name, dominatedBy(stack, guard)})
		}
		return true
	})
	if len(hits) == 0 {
		die("%s: handler %s takes *%s but no JSON command constructor call was recognised", pos(fd), fd.Name.Name, tname)
	}
	if nrun == 0 {
		die("%s: handler %s does not call runCommand", pos(fd), fd.Name.Name)
	}
	var rows []jrow
	for _, h := range hits {
		mode := ctorMode(h.ctor, fns, 0)
		exec := dispatchTarget(mode, cliFiles, fns)
		seen := map[string]bool{}
		var dfs func(string) bool
		dfs = func(n string) bool {
			if seen[n] {
				return false
			}
			seen[n] = true
			f := fns[n]
			if f == nil {
				return false
			}
			if f.Logoff {
				return true
			}
			for c := range f.calls {
				if dfs(c) {
					return true
				}
			}
			return false
		}
		rows = append(rows, jrow{Handler: fd.Name.Name, Opts: tname, HandlerLogoff: h.logoff, Ctor: h.ctor, Mode: mode, Exec: exec, CliLogoff: dfs(exec)})
	}
	return rows
}

// ---- page-selection consumers

type selRow struct {
	Name          string `json:"name"`
	Ranges        bool   `json:"ranges"`
	CountsByValue bool   `json:"counts_by_value"`
	SingleGuard   bool   `json:"single_guard"`
	UsesLen       bool   `json:"uses_len"`
	UsesIndex     bool   `json:"uses_index"`
}

func analyseSelections(order []*fn) []selRow {
	var rows []selRow
	for _, x := range order {
		// find `v, err := api.PagesForPageSelection(...)`
		var vars []string
		ast.Inspect(x.decl, func(n ast.Node) bool {
			as, ok := n.(*ast.AssignStmt)
			if !ok || len(as.Rhs) != 1 {
				return true
			}
			c, ok := as.Rhs[0].(*ast.CallExpr)
			if !ok || !isSel(c.Fun, "api", "PagesForPageSelection") {
				return true
			}
			id, ok := as.Lhs[0].(*ast.Ident)
			if !ok || len(as.Lhs) != 2 {
				die("%s: result of api.PagesForPageSelection not bound to `v, err`", pos(as))
			}
			vars = append(vars, id.Name)
			return true
		})
		nCalls := 0
		ast.Inspect(x.decl, func(n ast.Node) bool {
			if c, ok := n.(*ast.CallExpr); ok && isSel(c.Fun, "api", "PagesForPageSelection") {
				nCalls++
			}
			return true
		})
		if nCalls != len(vars) {
			die("%s: a call of api.PagesForPageSelection whose result is not assigned", x.Name)
		}
		if len(vars) == 0 {
			continue
		}
		if len(vars) > 1 {
			die("%s: several page selections in one function", x.Name)
		}
		v := vars[0]
		row := selRow{Name: x.Name, CountsByValue: true, SingleGuard: true}
		var stack []ast.Node
		ast.Inspect(x.decl, func(n ast.Node) bool {
			if n == nil {
				stack = stack[:len(stack)-1]
				return true
			}
			stack = append(stack, n)
			id, ok := n.(*ast.Ident)
			if !ok || id.Name != v || len(stack) < 2 {
				return true
			}
			switch p := stack[len(stack)-2].(type) {
			case *ast.AssignStmt:
				// the defining assignment
			case *ast.RangeStmt:
				if p.X != ast.Expr(id) {
					die("%s: selection variable used as range key/value", pos(id))
				}
				row.Ranges = true
				counter := rangeCountsByValue(p)
				if counter == "" {
					row.CountsByValue = false
					row.SingleGuard = false
					return true
				}
				// the statement after the loop: if C != 1 { return … }
				guard := false
				if len(stack) >= 3 {
					list := stmtList(stack[len(stack)-3])
					for i, st := range list {
						if st == ast.Stmt(p) && i+1 < len(list) {
							if is, ok := list[i+1].(*ast.IfStmt); ok {
								if be, ok := is.Cond.(*ast.BinaryExpr); ok && be.Op == token.NEQ {
									if ci, ok := be.X.(*ast.Ident); ok && ci.Name == counter {
										if bl, ok := be.Y.(*ast.BasicLit); ok && bl.Value == "1" && len(is.Body.List) == 1 {
											if _, ok := is.Body.List[0].(*ast.ReturnStmt); ok {
												guard = true
											}
										}
									}
								}
							}
						}
					}
				}
				if !guard {
					row.SingleGuard = false
				}
			case *ast.CallExpr:
				if fid, ok := p.Fun.(*ast.Ident); ok && fid.Name == "len" {
					row.UsesLen = true
				}
				// otherwise: passed on as an argument
			case *ast.IndexExpr:
				if p.X == ast.Expr(id) {
					row.UsesIndex = true
				}
			case *ast.ReturnStmt, *ast.BinaryExpr:
			default:
				die("%s: use of the page selection %s that is not understood (%T)", pos(id), v, p)
			}
			return true
		})
		if !row.Ranges {
			row.CountsByValue = false
			row.SingleGuard = false
		}
		rows = append(rows, row)
	}
	sort.Slice(rows, func(i, j int) bool { return rows[i].Name < rows[j].Name })
	return rows
}

// rangeCountsByValue: `for K, V := range v { if V { …; C++ } }` -> C, else "".
func rangeCountsByValue(r *ast.RangeStmt) string {
	if r.Key == nil || r.Value == nil {
		return ""
	}
	val, ok := r.Value.(*ast.Ident)
	if !ok || val.Name == "_" {
		return ""
	}
	if k, ok := r.Key.(*ast.Ident); !ok || k.Name == "_" {
		return ""
	}
	if len(r.Body.List) != 1 {
		return ""
	}
	is, ok := r.Body.List[0].(*ast.IfStmt)
	if !ok || is.Else != nil || is.Init != nil {
		return ""
	}
	c, ok := is.Cond.(*ast.Ident)
	if !ok || c.Name != val.Name {
		return ""
	}
	counter := ""
	for _, st := range is.Body.List {
		if inc, ok := st.(*ast.IncDecStmt); ok && inc.Tok == token.INC {
			if id, ok := inc.X.(*ast.Ident); ok {
				counter = id.Name
			}
		}
	}
	return counter
}

// ---- shape of readSeekerFromStdin

type stdinShape struct {
	DirectlyAfter, IndependentOfN, ErrReturns, EmptyCheck bool
}

func mentions(n ast.Node, name string) bool {
	found := false
	ast.Inspect(n, func(m ast.Node) bool {
		if id, ok := m.(*ast.Ident); ok && id.Name == name {
			found = true
		}
		return true
	})
	return found
}

func returnsNilErr(body *ast.BlockStmt) bool {
	if len(body.List) == 0 {
		return false
	}
	r, ok := body.List[len(body.List)-1].(*ast.ReturnStmt)
	return ok && len(r.Results) == 2 && isNil(r.Results[0]) && !isNil(r.Results[1])
}

func analyseStdinCopy(fns map[string]*fn) stdinShape {
	f := fns["readSeekerFromStdin"]
	var sh stdinShape
	count := 0
	ast.Inspect(f.decl, func(n ast.Node) bool {
		bl, ok := n.(*ast.BlockStmt)
		if !ok {
			return true
		}
		for i, st := range bl.List {
			as, ok := st.(*ast.AssignStmt)
			if !ok || len(as.Rhs) != 1 || len(as.Lhs) != 2 {
				continue
			}
			c, ok := as.Rhs[0].(*ast.CallExpr)
			if !ok || !isSel(c.Fun, "io", "Copy") || len(c.Args) != 2 || !isSel(c.Args[1], "os", "Stdin") {
				continue
			}
			count++
			nID, ok1 := as.Lhs[0].(*ast.Ident)
			eID, ok2 := as.Lhs[1].(*ast.Ident)
			if !ok1 || !ok2 || nID.Name == "_" || eID.Name == "_" {
				die("%s: io.Copy(f, os.Stdin) results not bound to two named variables", pos(as))
			}
			if bl != f.decl.Body {
				die("%s: io.Copy(f, os.Stdin) not at the top level of readSeekerFromStdin", pos(as))
			}
			if i+1 < len(bl.List) {
				if is, ok := bl.List[i+1].(*ast.IfStmt); ok {
					sh.DirectlyAfter = true
					if be, ok := is.Cond.(*ast.BinaryExpr); ok && be.Op == token.NEQ && isNil(be.Y) {
						if id, ok := be.X.(*ast.Ident); ok && id.Name == eID.Name && is.Init == nil && !mentions(is.Cond, nID.Name) {
							sh.IndependentOfN = true
							sh.ErrReturns = returnsNilErr(is.Body)
						}
					}
				}
			}
			for _, later := range bl.List[i+1:] {
				if is, ok := later.(*ast.IfStmt); ok {
					if be, ok := is.Cond.(*ast.BinaryExpr); ok && be.Op == token.EQL {
						if id, ok := be.X.(*ast.Ident); ok && id.Name == nID.Name {
							if lit, ok := be.Y.(*ast.BasicLit); ok && lit.Value == "0" && returnsNilErr(is.Body) {
								sh.EmptyCheck = true
							}
						}
					}
				}
			}
		}
		return true
	})
	if count != 1 {
		die("readSeekerFromStdin: expected exactly one `n, err := io.Copy(f, os.Stdin)`, found %d", count)
	}
	return sh
}

// ---- generic command slots -> api parameter names

type flagRow struct {
	Func  string `json:"func"`
	Slot  string `json:"slot"`
	Names string `json:"names"`
	N     int    `json:"n"`
}

func apiParams(repo string) map[string][]string {
	res := map[string][]string{}
	for _, f := range parseDir(filepath.Join(repo, "pkg", "api")) {
		for _, d := range f.Decls {
			fd, ok := d.(*ast.FuncDecl)
			if !ok || fd.Recv != nil {
				continue
			}
			var names []string
			for _, p := range fd.Type.Params.List {
				_, variadic := p.Type.(*ast.Ellipsis)
				if len(p.Names) == 0 {
					names = append(names, "_")
				}
				for _, n := range p.Names {
					nm := n.Name
					if variadic {
						nm += "..."
					}
					names = append(names, nm)
				}
			}
			res[fd.Name.Name] = names
		}
	}
	return res
}

func analyseFlags(order []*fn, params map[string][]string) []flagRow {
	slots := map[string]bool{"BoolVal1": true, "BoolVal2": true, "BoolVal3": true, "IntVal": true, "StringVal": true}
	var rows []flagRow
	for _, x := range order {
		bound := map[string]map[string]bool{}
		ast.Inspect(x.decl, func(n ast.Node) bool {
			c, ok := n.(*ast.CallExpr)
			if !ok {
				return true
			}
			s, ok := c.Fun.(*ast.SelectorExpr)
			if !ok {
				return true
			}
			pk, ok := s.X.(*ast.Ident)
			if !ok || pk.Name != "api" {
				return true
			}
			for i, a := range c.Args {
				se, ok := a.(*ast.SelectorExpr)
				if !ok || !slots[se.Sel.Name] {
					continue
				}
				if id, ok := se.X.(*ast.Ident); !ok || id.Name != "cmd" {
					continue
				}
				ps, ok := params[s.Sel.Name]
				if !ok {
					die("%s: api.%s is not declared in pkg/api", pos(c), s.Sel.Name)
				}
				name := ""
				switch {
				case i < len(ps):
					name = ps[i]
				case len(ps) > 0 && strings.HasSuffix(ps[len(ps)-1], "..."):
					name = ps[len(ps)-1]
				default:
					die("%s: api.%s called with more arguments than parameters", pos(c), s.Sel.Name)
				}
				if bound[se.Sel.Name] == nil {
					bound[se.Sel.Name] = map[string]bool{}
				}
				bound[se.Sel.Name][strings.ToLower(strings.TrimSuffix(name, "..."))] = true
			}
			return true
		})
		for slot, names := range bound {
			var l []string
			for n := range names {
				l = append(l, n)
			}
			sort.Strings(l)
			rows = append(rows, flagRow{Func: x.Name, Slot: slot, Names: strings.Join(l, ","), N: len(l)})
		}
	}
	sort.Slice(rows, func(i, j int) bool {
		if rows[i].Func != rows[j].Func {
			return rows[i].Func < rows[j].Func
		}
		return rows[i].Slot < rows[j].Slot
	})
	return rows
}

func b(v bool) string {
	if v {
		return "true"
	}
	return "false"
}

func main() {
	repo := flag.String("repo", "/repo", "pdfcpu source tree")
	out := flag.String("out", "", "Generated.v")
	js := flag.String("json", "", "side-car JSON for the harness")
	flag.Parse()
	if *out == "" {
		die("-out required")
	}
	cliFiles := parseDir(filepath.Join(*repo, "pkg", "cli"))
	cmdFiles := parseDir(filepath.Join(*repo, "cmd", "pdfcpu"))
	fns, order := analyseCli(cliFiles)
	for _, must := range []string{"streamInOutForOperation", "withStdinReadSeeker", "readSeekerFromStdin"} {
		if _, ok := fns[must]; !ok {
			die("pkg/cli has no function %s", must)
		}
	}
	var rows []*fn
	for _, x := range order {
		if x.NDash > 0 || x.Stdout || x.Stdin || x.Logoff || x.StreamDirect || x.StdinDirect {
			rows = append(rows, x)
		}
	}
	sort.Slice(rows, func(i, j int) bool { return rows[i].Name < rows[j].Name })
	jrows := analyseJSON(cmdFiles, cliFiles, fns)

	// cmd/pdfcpu: os.Stdout mentions and SetCLILogger calls outside handlers are listed for the record
	var sb strings.Builder
	sb.WriteString("(* GENERATED by go/cmd/genc41 from pkg/cli/*.go and cmd/pdfcpu/*.go — do not edit. *)\n")
	sb.WriteString("From Coq Require Import String List Bool.\nImport ListNotations.\nLocal Open Scope string_scope.\n\n")
	sb.WriteString("Record cli_row := mkCli { c_name : string; c_file : string; c_ndash : nat; c_nreject : nat;\n")
	sb.WriteString("  c_stream_direct : bool; c_stdin_direct : bool; c_reach_stream : bool; c_reach_stdin : bool;\n")
	sb.WriteString("  c_stdout : bool; c_stdout_guarded : bool; c_stdin : bool; c_logoff : bool; c_ret_nil : bool; c_does_io : bool }.\n\n")
	sb.WriteString("Definition cli_table : list cli_row := [\n")
	for i, x := range rows {
		sep := ";"
		if i == len(rows)-1 {
			sep = ""
		}
		fmt.Fprintf(&sb, "  mkCli %q %q %d %d %s %s %s %s %s %s %s %s %s %s%s\n", x.Name, x.File, x.NDash, x.NReject,
			b(x.StreamDirect), b(x.StdinDirect), b(x.ReachStream), b(x.ReachStdin), b(x.Stdout), b(x.StdoutGuard), b(x.Stdin), b(x.Logoff), b(x.RetNil), b(x.DoesIO), sep)
	}
	sb.WriteString("].\n\n")
	sb.WriteString("Record json_row := mkJson { j_handler : string; j_opts : string; j_handler_logoff : bool;\n")
	sb.WriteString("  j_ctor : string; j_mode : string; j_exec : string; j_cli_logoff : bool }.\n\n")
	sb.WriteString("Definition json_table : list json_row := [\n")
	for i, r := range jrows {
		sep := ";"
		if i == len(jrows)-1 {
			sep = ""
		}
		fmt.Fprintf(&sb, "  mkJson %q %q %s %q %q %q %s%s\n", r.Handler, r.Opts, b(r.HandlerLogoff), r.Ctor, r.Mode, r.Exec, b(r.CliLogoff), sep)
	}
	sb.WriteString("].\n\n")
	srows := analyseSelections(order)
	sb.WriteString("Record sel_row := mkSel { s_name : string; s_ranges : bool; s_counts_by_value : bool;\n")
	sb.WriteString("  s_single_guard : bool; s_uses_len : bool; s_uses_index : bool }.\n\n")
	sb.WriteString("Definition sel_table : list sel_row := [\n")
	for i, r := range srows {
		sep := ";"
		if i == len(srows)-1 {
			sep = ""
		}
		fmt.Fprintf(&sb, "  mkSel %q %s %s %s %s %s%s\n", r.Name, b(r.Ranges), b(r.CountsByValue), b(r.SingleGuard), b(r.UsesLen), b(r.UsesIndex), sep)
	}
	sb.WriteString("].\n\n")
	sh := analyseStdinCopy(fns)
	sb.WriteString("Record stdin_copy_shape := mkStdinCopy { sc_err_check_directly_after : bool;\n")
	sb.WriteString("  sc_err_check_independent_of_n : bool; sc_err_returns : bool; sc_empty_check : bool }.\n\n")
	fmt.Fprintf(&sb, "Definition stdin_copy : stdin_copy_shape := mkStdinCopy %s %s %s %s.\n", b(sh.DirectlyAfter), b(sh.IndependentOfN), b(sh.ErrReturns), b(sh.EmptyCheck))
	frows := analyseFlags(order, apiParams(*repo))
	sb.WriteString("\nRecord flag_row := mkFlag { fl_func : string; fl_slot : string; fl_names : string; fl_nnames : nat }.\n\n")
	sb.WriteString("Definition flag_table : list flag_row := [\n")
	for i, r := range frows {
		sep := ";"
		if i == len(frows)-1 {
			sep = ""
		}
		fmt.Fprintf(&sb, "  mkFlag %q %q %q %d%s\n", r.Func, r.Slot, r.Names, r.N, sep)
	}
	sb.WriteString("].\n")
	if err := os.MkdirAll(filepath.Dir(*out), 0o755); err != nil {
		die("%v", err)
	}
	if err := os.WriteFile(*out, []byte(sb.String()), 0o644); err != nil {
		die("%v", err)
	}
	if *js != "" {
		if err := os.MkdirAll(filepath.Dir(*js), 0o755); err != nil {
			die("%v", err)
		}
		bb, _ := json.MarshalIndent(map[string]any{"cli": rows, "json": jrows, "sel": srows}, "", " ")
		if err := os.WriteFile(*js, bb, 0o644); err != nil {
			die("%v", err)
		}
	}
}
