module verif

go 1.25.0

require github.com/pdfcpu/pdfcpu v0.0.0

replace github.com/pdfcpu/pdfcpu => /repo
