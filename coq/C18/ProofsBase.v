(* C18 — basic lemmas: lengths, dropN, strip, decimal printing/parsing, fixed-width fields. *)
From Coq Require Import ZArith NArith List Bool Lia ZifyBool ZifyNat ZifyN.
From PV Require Import C18.Model.
Import ListNotations.
Open Scope N_scope.
Ltac Zify.zify_post_hook ::= Z.div_mod_to_equations.

(* ------------------------------------------------------------------ lengths, drop, strip *)

Lemma lenN_app {A} (a b : list A) : lenN (a ++ b) = lenN a + lenN b.
Proof. induction a as [|x a IH]; cbn [lenN app]; lia. Qed.

Lemma dropN_app (a b : list N) : dropN (lenN a) (a ++ b) = b.
Proof.
  induction a as [|x a IH]; cbn [lenN app].
  - destruct b; reflexivity.
  - cbn [dropN]. destruct (N.eqb_spec (N.succ (lenN a)) 0) as [H|H]; [lia|].
    rewrite N.pred_succ. exact IH.
Qed.

Lemma strip_app (p r : list N) : strip p (p ++ r) = Some r.
Proof. induction p as [|a p IH]; cbn; [reflexivity|]. rewrite N.eqb_refl. exact IH. Qed.

Lemma strip_sound (p l r : list N) : strip p l = Some r -> l = p ++ r.
Proof.
  revert l. induction p as [|a p IH]; intros l H; cbn in H.
  - inversion H. reflexivity.
  - destruct l as [|b l]; [discriminate|].
    destruct (N.eqb_spec a b) as [E|E]; [|discriminate]. subst b. cbn. f_equal. apply IH. exact H.
Qed.

(* ------------------------------------------------------------------ end of line *)

Definition head_not (c : N) (l : list N) : Prop := match l with b :: _ => b <> c | [] => True end.

Lemma strip_eol_app e r : head_not 10 r -> strip_eol (eolb e ++ r) = Some r.
Proof.
  intros H. destruct e; cbn; try reflexivity.
  destruct r as [|b r]; [reflexivity|]. cbn in H.
  destruct (N.eqb_spec b 10) as [E|E]; [contradiction|reflexivity].
Qed.

Lemma strip_eol_rev_app e r : head_not 13 r -> strip_eol_rev (rev (eolb e) ++ r) = Some r.
Proof.
  intros H. destruct e; cbn; try reflexivity.
  destruct r as [|b r]; [reflexivity|]. cbn in H.
  destruct (N.eqb_spec b 13) as [E|E]; [contradiction|reflexivity].
Qed.

(* ------------------------------------------------------------------ decimal digits *)

Definition valueA (a : N) (ds : list N) : N := fold_left (fun a d => 10 * a + (d - 48)) ds a.

Lemma valueA_app a x y : valueA a (x ++ y) = valueA (valueA a x) y.
Proof. unfold valueA. apply fold_left_app. Qed.

Lemma value_valueA ds : value ds = valueA 0 ds.
Proof. reflexivity. Qed.

Definition digits (ds : list N) : Prop := Forall (fun b => is_digit b = true) ds.

Lemma is_digit_spec b : is_digit b = true <-> 48 <= b <= 57.
Proof. unfold is_digit. rewrite andb_true_iff, !N.leb_le. tauto. Qed.

Lemma dec_aux_spec fuel : forall n acc, n < 2 ^ N.of_nat fuel ->
  exists ds, dec_aux fuel n acc = ds ++ acc /\ digits ds /\
             (forall a, valueA a ds = a * 10 ^ lenN ds + n) /\
             (fuel <> O -> ds <> []) /\
             (forall k, n < 10 ^ k -> 0 < k -> lenN ds <= k).
Proof.
  induction fuel as [|f IH]; intros n acc Hn.
  - exists []. cbn in Hn. assert (n = 0) by lia. subst n. cbn.
    repeat split; try constructor; try lia.
  - cbn [dec_aux].
    assert (Hd : is_digit (48 + n mod 10) = true).
    { apply is_digit_spec. pose proof (N.mod_upper_bound n 10). lia. }
    destruct (N.ltb_spec n 10) as [Hlt|Hge].
    + exists [48 + n mod 10]. cbn [app lenN]. repeat split.
      * repeat constructor. exact Hd.
      * intros a. unfold valueA. cbn [fold_left]. rewrite N.mod_small by exact Hlt. change (N.succ 0) with 1. lia.
      * intros _. discriminate.
      * intros k _ Hk. lia.
    + assert (Hn' : n / 10 < 2 ^ N.of_nat f).
      { rewrite Nat2N.inj_succ, N.pow_succ_r' in Hn. lia. }
      destruct (IH (n / 10) ((48 + n mod 10) :: acc) Hn') as (ds & E & Hdig & Hval & _ & Hlen).
      exists (ds ++ [48 + n mod 10]). repeat split.
      * rewrite E, <- app_assoc. reflexivity.
      * apply Forall_app. split; [exact Hdig|]. repeat constructor. exact Hd.
      * intros a. rewrite valueA_app, Hval. unfold valueA at 1. cbn [fold_left].
        rewrite lenN_app. cbn [lenN]. change (0 + 1) with 1. rewrite N.add_1_r, N.pow_succ_r'.
        pose proof (N.div_mod n 10). lia.
      * intros _ Hnil. apply app_eq_nil in Hnil. destruct Hnil as [_ Hnil]. discriminate.
      * intros k Hk Hk0. rewrite lenN_app. cbn [lenN].
        destruct (N.eq_dec k 1) as [->|Hk1]; [cbn in Hk; lia|].
        assert (Hk2 : n / 10 < 10 ^ (k - 1)).
        { replace k with (N.succ (k - 1)) in Hk by lia. rewrite N.pow_succ_r' in Hk. lia. }
        specialize (Hlen (k - 1) Hk2). lia.
Qed.

Lemma dec_spec n :
  digits (dec n) /\ dec n <> [] /\ (forall a, valueA a (dec n) = a * 10 ^ lenN (dec n) + n) /\
  (forall k, n < 10 ^ k -> 0 < k -> lenN (dec n) <= k).
Proof.
  unfold dec.
  assert (Hn : n < 2 ^ N.of_nat (S (N.to_nat (N.size n)))).
  { rewrite Nat2N.inj_succ, N2Nat.id, N.pow_succ_r'. pose proof (N.size_gt n). lia. }
  destruct (dec_aux_spec _ n [] Hn) as (ds & E & Hd & Hv & Hne & Hl).
  rewrite E, app_nil_r. repeat split; auto.
Qed.

Lemma dec_digits n : digits (dec n). Proof. apply dec_spec. Qed.
Lemma dec_nonempty n : dec n <> []. Proof. apply dec_spec. Qed.
Lemma dec_value n : value (dec n) = n.
Proof. rewrite value_valueA. destruct (dec_spec n) as (_ & _ & H & _). rewrite H. lia. Qed.
Lemma dec_len n k : n < 10 ^ k -> 0 < k -> lenN (dec n) <= k.
Proof. apply dec_spec. Qed.

Lemma dec_head n : exists d ds, dec n = d :: ds /\ is_digit d = true.
Proof.
  pose proof (dec_nonempty n) as Hne. pose proof (dec_digits n) as Hd.
  destruct (dec n) as [|d ds]; [contradiction|]. exists d, ds. split; [reflexivity|].
  inversion Hd. assumption.
Qed.

(* ------------------------------------------------------------------ reading digits back *)

Definition nondigit_head (l : list N) : Prop := match l with b :: _ => is_digit b = false | [] => True end.

Lemma take_digits_app ds rest : digits ds -> nondigit_head rest -> take_digits (ds ++ rest) = (ds, rest).
Proof.
  intros Hd Hr. induction Hd as [|b ds Hb Hd IH]; cbn [app].
  - destruct rest as [|b rest]; [reflexivity|]. cbn in Hr. cbn. rewrite Hr. reflexivity.
  - cbn [take_digits]. rewrite Hb, IH. reflexivity.
Qed.

Lemma parse_num_dec n rest : nondigit_head rest -> parse_num (dec n ++ rest) = Some (n, rest).
Proof.
  intros Hr. unfold parse_num. rewrite take_digits_app by (auto using dec_digits).
  pose proof (dec_nonempty n). destruct (dec n) eqn:E; [contradiction|]. rewrite <- E, dec_value. reflexivity.
Qed.

Lemma digits_rev ds : digits ds -> digits (rev ds).
Proof. unfold digits. intros H. apply Forall_rev. exact H. Qed.

Lemma take_k_app l rest : digits l -> take_k (length l) (l ++ rest) = Some (l, rest).
Proof.
  intros Hd. induction Hd as [|b l Hb Hd IH]; cbn; [reflexivity|]. rewrite Hb, IH. reflexivity.
Qed.

Lemma lenN_length {A} (l : list A) : lenN l = N.of_nat (length l).
Proof. induction l as [|x l IH]; cbn [lenN length]; lia. Qed.

Lemma pad0_length k ds : lenN ds <= N.of_nat k -> length (pad0 k ds) = k.
Proof. intros H. rewrite lenN_length in H. unfold pad0. rewrite app_length, repeat_length. lia. Qed.

Lemma digits_repeat m : digits (repeat 48 m).
Proof. induction m; cbn; constructor; auto. Qed.

Lemma pad0_digits k ds : digits ds -> digits (pad0 k ds).
Proof. intros H. unfold pad0. apply Forall_app. split; [apply digits_repeat|exact H]. Qed.

Lemma valueA_zeros m : valueA 0 (repeat 48 m) = 0.
Proof. induction m as [|m IH]; cbn; [reflexivity|]. exact IH. Qed.

Lemma pad0_value k ds : value (pad0 k ds) = value ds.
Proof. rewrite !value_valueA. unfold pad0. rewrite valueA_app, valueA_zeros. reflexivity. Qed.

(* a fixed-width field written with "%0kd" reads back *)
Lemma take_k_pad k n rest : n < 10 ^ N.of_nat k -> (0 < k)%nat ->
  take_k k (pad0 k (dec n) ++ rest) = Some (pad0 k (dec n), rest) /\ value (pad0 k (dec n)) = n.
Proof.
  intros Hn Hk. split.
  - assert (L : length (pad0 k (dec n)) = k) by (apply pad0_length, dec_len; lia).
    rewrite <- L at 1. apply take_k_app, pad0_digits, dec_digits.
  - rewrite pad0_value. apply dec_value.
Qed.
