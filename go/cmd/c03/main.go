// Harness for C03: successful operations publish exactly and only the result.
//
// Real pdfcpu operations are run in a scratch directory for every relation between the input and the
// output path: new output, existing output with modes 0600/0640/0444, same path, empty outFile (in
// place), "./x" and relative-vs-absolute spellings, output = symlink to the input, output = hard link of
// the input, output = dangling symlink, output = symlink to another file.
//
//	K  the directory after the call (names, link structure, inode sharing, modes, bytes) must equal the
//	   prediction of the extracted inode-level model (coq/C03/Model.v) started from the same directory;
//	   api.outputAliasesInput must agree with the model for every pair of paths;
//	O  directly: on success the destination holds the complete output (bytes of a reference run; validates
//	   as PDF), an existing destination keeps its permission bits (a new one gets 0644), the input is
//	   untouched when it is named differently, every other file is untouched, no stray file remains; on
//	   failure the directory is unchanged.
package main

import (
	"bytes"
	"fmt"
	"os"
	"path/filepath"
	"regexp"
	"sort"
	"strings"
	"syscall"

	"github.com/pdfcpu/pdfcpu/pkg/api"
	"github.com/pdfcpu/pdfcpu/pkg/pdfcpu"
	"github.com/pdfcpu/pdfcpu/pkg/pdfcpu/color"
	"github.com/pdfcpu/pdfcpu/pkg/pdfcpu/model"
	"github.com/pdfcpu/pdfcpu/pkg/pdfcpu/types"
	"verif/vh"
)

const scratch = "/tmp/c03-scratch"

var (
	reDate = regexp.MustCompile(`D:\d{14}`)
	reID   = regexp.MustCompile(`/ID\s*\[\s*<[0-9A-Fa-f]+>\s*<[0-9A-Fa-f]+>\s*\]`)
)

// pdfcpu stamps every output with the current time (CreationDate/ModDate) and a fresh document ID:
// two runs of one operation differ in exactly these bytes.  Outputs are compared modulo them.
func normPDF(b []byte) []byte {
	b = reDate.ReplaceAll(b, []byte("D:00000000000000"))
	return reID.ReplaceAll(b, []byte("/ID[<00><00>]"))
}

// pdfcpu's object numbering also depends on Go map iteration order, so two runs of one operation are
// not byte-identical.  "The complete output" therefore means: identical to the reference run modulo
// time stamps/ID, or — a complete PDF (ends in %%EOF, validates) with the page count of the reference
// run and its length up to the width of renumbered object references.
func sameOutput(b, ref []byte) bool {
	if ref == nil {
		return false
	}
	if bytes.Equal(b, ref) || bytes.Equal(normPDF(b), normPDF(ref)) {
		return true
	}
	if !bytes.HasPrefix(ref, []byte("%PDF-")) || !bytes.HasPrefix(b, []byte("%PDF-")) {
		return false
	}
	if !bytes.HasSuffix(bytes.TrimRight(b, "\r\n"), []byte("%%EOF")) {
		return false
	}
	if d := len(b) - len(ref); d > 64 || d < -64 {
		return false
	}
	conf := model.NewDefaultConfiguration()
	conf.UserPW, conf.OwnerPW = "user", "owner"
	if err := api.Validate(bytes.NewReader(b), conf); err != nil {
		return false
	}
	nb, err1 := api.PageCount(bytes.NewReader(b), conf)
	nr, err2 := api.PageCount(bytes.NewReader(ref), conf)
	return err1 == nil && err2 == nil && nb == nr
}

var entID = map[string]int{"in.pdf": 2, "out.pdf": 3, "link.pdf": 4, "hl.pdf": 5, "other.dat": 6, "in2.pdf": 7, "dangling.pdf": 8, "olink.pdf": 9, "missing.pdf": 10,
	// the multi-input matrix (multi.go)
	"a.png": 32, "b.png": 33, "c.png": 34, "d.png": 35, "x.pdf": 36, "y.pdf": 37, "z.pdf": 38, "mlink.pdf": 39, "mhl.pdf": 40, "mout.pdf": 41}

var nextID = 11

type opDef struct {
	name   string
	kind   string // api | copy | wr
	noIn   bool   // the operation does not open in.pdf (merge append)
	outPDF bool   // an existing destination must be a PDF
	dirOut bool   // `out` is a directory; the operation chooses the file name (split / extract)
	refRun bool   // the expected bytes come from a reference run of the operation
	run    func(in, out string) error
}

// entry number of a file name (names chosen by split/extract operations get the next free number)
func idFor(name string) int {
	if id, ok := entID[name]; ok {
		return id
	}
	id := nextID
	nextID++
	entID[name] = id
	return id
}

// no object streams / xref streams: the time stamps and the document ID stay plain text (see normPDF)
func conf() *model.Configuration {
	c := model.NewDefaultConfiguration()
	c.WriteObjectStream = false
	c.WriteXRefStream = false
	return c
}

func textAnn() model.AnnotationRenderer {
	return model.NewTextAnnotation(*types.NewRectangle(0, 0, 100, 100), 0, "Text Annotation", "ID1", "", 0, &color.Gray,
		"Title1", nil, nil, "", "", 0, 0, 2, false, "Comment")
}

// during an incr case: the original bytes of the input (a file that is input ++ increment is tagged <tag>02)
var incrBase []byte

var wrData = bytes.Repeat([]byte("written by WriteReader\n"), 50)

func opDefs(dir string) []opDef {
	return []opDef{
		{name: "OptimizeFile", kind: "api", run: func(in, out string) error { return api.OptimizeFile(in, out, conf()) }},
		{name: "RotateFile", kind: "api", run: func(in, out string) error { return api.RotateFile(in, out, 90, nil, conf()) }},
		{name: "CopyFile", kind: "copy", run: func(in, out string) error { _, err := pdfcpu.CopyFile(in, out, true); return err }},
		{name: "WriteReader", kind: "wr", noIn: true, run: func(in, out string) error { return pdfcpu.WriteReader(out, bytes.NewReader(wrData)) }},
		{name: "MergeAppendFile", kind: "api", noIn: true, outPDF: true, run: func(in, out string) error {
			return api.MergeAppendFile([]string{filepath.Join(dir, "in2.pdf")}, out, false, conf())
		}},
		// incremental writing: incr = true (honoured only for outFile "" / the same string: the increment is appended
		// to the input; with a distinct outFile the usual staged full write)
		{name: "AddAnnotationsFile-incr", kind: "incr", run: func(in, out string) error {
			return api.AddAnnotationsFile(in, out, []string{"1"}, textAnn(), conf(), true)
		}},
		// the pkg/pdfcpu write path: createStagedFile + finishStagedFile
		{name: "ExtractPagesFile", kind: "wr", noIn: true, dirOut: true, refRun: true, run: func(in, out string) error {
			return api.ExtractPagesFile(filepath.Join(dir, "in.pdf"), out, []string{"1"}, conf())
		}},
		{name: "WriteContext", kind: "wr", noIn: true, refRun: true, run: func(in, out string) error {
			ctx, err := api.ReadContextFile(filepath.Join(dir, "in.pdf"))
			if err != nil {
				return err
			}
			ctx.Write.DirName = filepath.Dir(out)
			ctx.Write.FileName = filepath.Base(out)
			return pdfcpu.WriteContext(ctx)
		}},
		{name: "TrimFile", kind: "api", run: func(in, out string) error { return api.TrimFile(in, out, []string{"1"}, conf()) }},
		{name: "AddTextWatermarksFile", kind: "api", run: func(in, out string) error {
			return api.AddTextWatermarksFile(in, out, nil, true, "Draft", "fo:Courier, scale:.9, op:.6", conf())
		}},
		{name: "RemovePagesFile", kind: "api", run: func(in, out string) error { return api.RemovePagesFile(in, out, []string{"2"}, conf()) }},
		{name: "AddAnnotationsMapFile-incr", kind: "incr", run: func(in, out string) error {
			return api.AddAnnotationsMapFile(in, out, map[int][]model.AnnotationRenderer{1: {textAnn()}}, conf(), true)
		}},
		{name: "SplitFile", kind: "wr", noIn: true, dirOut: true, refRun: true, run: func(in, out string) error {
			return api.SplitFile(filepath.Join(dir, "in.pdf"), out, 3, conf())
		}},
		{name: "ExtractContentFile", kind: "wr", noIn: true, dirOut: true, refRun: true, run: func(in, out string) error {
			return api.ExtractContentFile(filepath.Join(dir, "in.pdf"), out, []string{"1"}, conf())
		}},
	}
}

// a relation: how the output path is spelled and what it is
type relation struct {
	name    string
	outName string      // entry name of the output ("" = empty outFile)
	outSp   int         // spelling of the output: 0 absolute, 1 "./name", 2 "name"
	inSp    int         // spelling of the input
	outMode os.FileMode // mode of a pre-existing regular out.pdf (0 = none)
	inplace bool        // only for operations that accept outFile == "" / same path
	umask   int         // process umask during the call (0 = 022)
}

func relations() []relation {
	return []relation{
		{name: "new", outName: "out.pdf"},
		{name: "existing-0600", outName: "out.pdf", outMode: 0o600},
		{name: "existing-0640", outName: "out.pdf", outMode: 0o640},
		{name: "existing-0444", outName: "out.pdf", outMode: 0o444},
		// group/other-writable destinations: bits the umask would mask if the mode were passed to open(2)
		{name: "existing-0660", outName: "out.pdf", outMode: 0o660},
		{name: "existing-0664", outName: "out.pdf", outMode: 0o664},
		{name: "existing-0666", outName: "out.pdf", outMode: 0o666},
		{name: "existing-0775", outName: "out.pdf", outMode: 0o775},
		{name: "existing-0664-umask077", outName: "out.pdf", outMode: 0o664, umask: 0o077},
		{name: "new-umask077", outName: "out.pdf", umask: 0o077},
		{name: "new-umask002", outName: "out.pdf", umask: 0o002},
		{name: "same-path", outName: "in.pdf", inplace: true},
		{name: "empty-outfile", outName: "", inplace: true},
		{name: "dot-slash", outName: "in.pdf", outSp: 1, inSp: 2, inplace: true},
		{name: "abs-vs-rel", outName: "in.pdf", outSp: 0, inSp: 2, inplace: true},
		{name: "rel-vs-abs", outName: "in.pdf", outSp: 2, inSp: 0, inplace: true},
		{name: "symlink-to-input", outName: "link.pdf"},
		{name: "hardlink-to-input", outName: "hl.pdf"},
		{name: "symlink-to-other", outName: "olink.pdf"},
		{name: "dangling-symlink", outName: "dangling.pdf"},
		{name: "new-relative", outName: "out.pdf", outSp: 1, inSp: 2},
	}
}

type snapEntry struct {
	name   string
	link   string // symlink target (base name)
	mode   os.FileMode
	data   []byte
	ino    uint64
	exists bool
}

func snapshot(dir string) map[string]snapEntry {
	m := map[string]snapEntry{}
	ents, _ := os.ReadDir(dir)
	for _, de := range ents {
		p := filepath.Join(dir, de.Name())
		fi, err := os.Lstat(p)
		if err != nil {
			continue
		}
		if fi.IsDir() {
			continue
		}
		e := snapEntry{name: de.Name(), exists: true}
		if fi.Mode()&os.ModeSymlink != 0 {
			t, _ := os.Readlink(p)
			e.link = filepath.Base(t)
		} else {
			e.mode = fi.Mode().Perm()
			e.data, _ = os.ReadFile(p)
			if st, ok := fi.Sys().(*syscall.Stat_t); ok {
				e.ino = st.Ino
			}
		}
		m[de.Name()] = e
	}
	return m
}

func names(m map[string]snapEntry) []string {
	var l []string
	for n := range m {
		l = append(l, n)
	}
	sort.Slice(l, func(i, j int) bool {
		a, oka := entID[l[i]]
		b, okb := entID[l[j]]
		if oka && okb {
			return a < b
		}
		if oka != okb {
			return oka
		}
		return l[i] < l[j]
	})
	return l
}

// model arguments for a directory: dir + inode table; tags: content of inode = 0x10 + id of its first name
func modelState(m map[string]snapEntry) (dir, inos string, tags map[uint64]byte) {
	tags = map[uint64]byte{}
	inoNum := map[uint64]int{}
	var dl, il []string
	for _, n := range names(m) {
		e := m[n]
		id, ok := entID[n]
		if !ok {
			panic("unexpected name in the initial directory: " + n)
		}
		if e.link != "" {
			dl = append(dl, fmt.Sprintf("%x:l:%x", id, entID[e.link]))
			continue
		}
		if _, seen := inoNum[e.ino]; !seen {
			inoNum[e.ino] = 0x10 + len(inoNum)
			tags[e.ino] = byte(0x10 + id)
			il = append(il, fmt.Sprintf("%x:%x:%02x", inoNum[e.ino], uint32(e.mode), 0x10+id))
		}
		dl = append(dl, fmt.Sprintf("%x:f:%x", id, inoNum[e.ino]))
	}
	return strings.Join(dl, ";"), strings.Join(il, ";"), tags
}

// render the directory after the run the way the glue renders the model's
func render(before, after map[string]snapEntry, ref []byte) string {
	content := map[string]byte{} // original contents -> tag
	for _, n := range names(before) {
		e := before[n]
		if e.link == "" {
			if _, ok := content[string(e.data)]; !ok {
				content[string(e.data)] = byte(0x10 + entID[n])
			}
		}
	}
	rank := map[uint64]int{}
	var l []string
	for _, n := range names(after) {
		e := after[n]
		id, ok := entID[n]
		if !ok {
			if strings.HasPrefix(n, ".") && strings.Contains(n, ".tmp-") {
				l = append(l, "T")
			} else {
				l = append(l, "?"+n)
			}
			continue
		}
		if e.link != "" {
			l = append(l, fmt.Sprintf("%x:l:%x", id, entID[e.link]))
			continue
		}
		tag := "ff"
		if t, ok := content[string(e.data)]; ok {
			tag = fmt.Sprintf("%02x", t)
		} else if incrBase != nil && len(e.data) > len(incrBase) && bytes.HasPrefix(e.data, incrBase) &&
			api.Validate(bytes.NewReader(e.data), nil) == nil {
			tag = fmt.Sprintf("%02x02", content[string(incrBase)])
		} else if sameOutput(e.data, ref) {
			tag = "02"
		}
		if _, ok := rank[e.ino]; !ok {
			rank[e.ino] = len(rank)
		}
		l = append(l, fmt.Sprintf("%x:f:%x:%s:%d", id, uint32(e.mode), tag, rank[e.ino]))
	}
	return strings.Join(l, ";")
}

type harness struct {
	r       *vh.Run
	base    string
	small   []byte
	multi   []byte
	two     []byte // a 2-page PDF: the content of a pre-existing PDF destination
	n       int
	refs    map[string][]byte
	dests   map[string]string
	samples map[string][]byte
}

func (h *harness) mkdir(rel relation, o opDef, existing string) string {
	h.n++
	d := filepath.Join(h.base, fmt.Sprintf("d%d", h.n))
	os.RemoveAll(d)
	if err := os.MkdirAll(d, 0o755); err != nil {
		panic(err)
	}
	w := func(n string, b []byte, mode os.FileMode) {
		if err := os.WriteFile(filepath.Join(d, n), b, 0o644); err != nil {
			panic(err)
		}
		os.Chmod(filepath.Join(d, n), mode)
	}
	w("in.pdf", h.multi, 0o640)
	w("in2.pdf", h.small, 0o644)
	w("other.dat", []byte("other"), 0o600)
	if rel.outMode != 0 {
		if o.outPDF {
			w(existing, h.two, rel.outMode)
		} else {
			w(existing, []byte("EXISTING OUTPUT, not a PDF"), rel.outMode)
		}
	}
	switch rel.outName {
	case "link.pdf":
		os.Symlink("in.pdf", filepath.Join(d, "link.pdf"))
	case "hl.pdf":
		os.Link(filepath.Join(d, "in.pdf"), filepath.Join(d, "hl.pdf"))
	case "olink.pdf":
		os.Symlink("in2.pdf", filepath.Join(d, "olink.pdf"))
	case "dangling.pdf":
		os.Symlink("missing.pdf", filepath.Join(d, "dangling.pdf"))
	}
	return d
}

func spell(dir, name string, sp int) string {
	switch sp {
	case 1:
		return "./" + name
	case 2:
		return name
	case 3:
		return "sub/../" + name
	}
	return filepath.Join(dir, name)
}

func spArg(name string, sp int) string {
	if name == "" {
		return "-"
	}
	return fmt.Sprintf("%x.%x", entID[name], sp)
}

// the bytes the operation produces for a destination that currently holds destContent (nil = new)
func (h *harness) reference(o opDef, destName string, destContent []byte) []byte {
	key := o.name + "\x00" + destName + "\x00" + string(destContent)
	inPlaceRef := strings.HasSuffix(destName, "::inplace")
	destName = strings.TrimSuffix(destName, "::inplace")
	if b, ok := h.refs[key]; ok {
		return b
	}
	h.n++
	d := filepath.Join(h.base, fmt.Sprintf("ref%d", h.n))
	os.MkdirAll(d, 0o755)
	defer os.RemoveAll(d)
	os.WriteFile(filepath.Join(d, "in.pdf"), h.multi, 0o644)
	os.WriteFile(filepath.Join(d, "in2.pdf"), h.small, 0o644)
	out := filepath.Join(d, destName)
	if destContent != nil && o.outPDF {
		os.WriteFile(out, destContent, 0o644)
	}
	arg := out
	if o.dirOut {
		arg = d
	}
	if inPlaceRef {
		arg = "" // the increment is appended to the input itself
	} else if o.kind == "incr" && destName == "in.pdf" {
		arg = d + "/./in.pdf" // another spelling of the input: the staged full write, not the increment
	}
	ops := opDefs(d)
	var b []byte
	for _, x := range ops {
		if x.name == o.name {
			if err := x.run(filepath.Join(d, "in.pdf"), arg); err == nil {
				b, _ = os.ReadFile(out)
			}
		}
	}
	h.refs[key] = b
	return b
}

// the file name a split/extract operation chooses in its output directory
func (h *harness) destOf(o opDef) string {
	if n, ok := h.dests[o.name]; ok {
		return n
	}
	h.n++
	d := filepath.Join(h.base, fmt.Sprintf("dest%d", h.n))
	os.MkdirAll(d, 0o755)
	defer os.RemoveAll(d)
	os.WriteFile(filepath.Join(d, "in.pdf"), h.multi, 0o644)
	os.WriteFile(filepath.Join(d, "in2.pdf"), h.small, 0o644)
	for _, x := range opDefs(d) {
		if x.name == o.name {
			if err := x.run(filepath.Join(d, "in.pdf"), d); err != nil {
				panic("cannot determine the output name of " + o.name + ": " + err.Error())
			}
		}
	}
	var l []string
	ents, _ := os.ReadDir(d)
	for _, e := range ents {
		if e.Name() != "in.pdf" && e.Name() != "in2.pdf" {
			l = append(l, e.Name())
		}
	}
	if len(l) != 1 {
		panic(fmt.Sprintf("%s: expected exactly one output, got %v", o.name, l))
	}
	idFor(l[0])
	h.dests[o.name] = l[0]
	return l[0]
}

func resolveContent(m map[string]snapEntry, name string) ([]byte, os.FileMode, bool) {
	for i := 0; i < 8; i++ {
		e, ok := m[name]
		if !ok {
			return nil, 0, false
		}
		if e.link == "" {
			return e.data, e.mode, true
		}
		name = e.link
	}
	return nil, 0, false
}

func (h *harness) runCase(o opDef, rel relation) {
	r := h.r
	existing := "out.pdf"
	if o.dirOut {
		existing = h.destOf(o)
	}
	dir := h.mkdir(rel, o, existing)
	defer os.RemoveAll(dir)
	um := rel.umask
	if um == 0 {
		um = 0o022
	}
	if err := os.Chdir(dir); err != nil {
		panic(err)
	}
	defer os.Chdir(h.base)
	var def opDef
	for _, x := range opDefs(dir) {
		if x.name == o.name {
			def = x
		}
	}
	before := snapshot(dir)
	mdir, minos, _ := modelState(before)
	in := spell(dir, "in.pdf", rel.inSp)
	out := ""
	if rel.outName != "" {
		out = spell(dir, rel.outName, rel.outSp)
	}
	destName := rel.outName
	if destName == "" {
		destName = "in.pdf"
	}
	if def.dirOut {
		destName = existing
		out = dir
	}
	destBefore, destModeBefore, destExisted := resolveContent(before, destName)
	var ref []byte
	switch def.kind {
	case "copy":
		ref = h.multi
	case "wr":
		ref = wrData
		if def.refRun {
			ref = h.reference(def, destName, nil)
		}
	default:
		if def.outPDF {
			ref = h.reference(def, destName, destBefore)
		} else {
			ref = h.reference(def, destName, nil)
		}
	}
	incrInPlace := def.kind == "incr" && (out == "" || out == in)
	incrBase = nil
	if incrInPlace {
		incrBase = h.multi
		ref = h.reference(def, "in.pdf::inplace", nil)
		defer func() { incrBase = nil }()
	}
	var err error
	func() {
		defer func() {
			if p := recover(); p != nil {
				err = fmt.Errorf("panic: %v", p)
				r.OracleFail("operation-panics:"+o.name, map[string]any{"op": o.name, "relation": rel.name}, fmt.Sprint(p))
			}
		}()
		old := syscall.Umask(um)
		defer syscall.Umask(old)
		err = def.run(in, out)
	}()
	after := snapshot(dir)
	res := "ok"
	if err != nil {
		res = "err"
	}
	rendered := render(before, after, ref)
	input := map[string]any{"op": o.name, "relation": rel.name, "in": in, "out": out, "umask": fmt.Sprintf("%o", um)}
	umArg := fmt.Sprintf("%x", um)
	outArg := spArg(rel.outName, rel.outSp)
	if def.dirOut {
		outArg = spArg(destName, 0)
	}
	r.Count("relation:" + rel.name)
	r.Count("op:" + o.name + ":" + res)

	// K
	switch def.kind {
	case "api":
		rd, inF := spArg("in.pdf", rel.inSp), spArg("in.pdf", rel.inSp)
		if def.noIn {
			rd, inF = "-", "-"
		}
		readsOK := "reads-ok"
		if err != nil {
			readsOK = "-"
		}
		r.Case("api", []string{umArg, rd, inF, outArg, mdir, minos}, res+"|"+rendered+"|"+readsOK)
	case "incr":
		readsOK := "reads-ok"
		if err != nil {
			readsOK = "-"
		}
		r.Case("incr", []string{umArg, spArg("in.pdf", rel.inSp), outArg, mdir, minos}, res+"|"+rendered+"|"+readsOK)
	case "copy":
		readsOK := "reads-ok"
		if err != nil {
			readsOK = "-"
		}
		r.Case("copy", []string{umArg, spArg("in.pdf", rel.inSp), spArg(destName, rel.outSp), mdir, minos}, res+"|"+rendered+"|"+readsOK)
	case "wr":
		readsOK := "reads-ok"
		if err != nil {
			readsOK = "-"
		}
		r.Case("wr", []string{umArg, spArg(destName, rel.outSp), mdir, minos}, res+"|"+rendered+"|"+readsOK)
	}

	// O
	detail := fmt.Sprintf("err=%v after=%s", err, rendered)
	if err != nil {
		if render(before, before, nil) != render(before, after, nil) {
			r.OracleFail("failed-run-changes-directory:"+o.name+":"+rel.name, input, detail)
		} else {
			r.OracleOK()
		}
		return
	}
	fail := func(class string) { r.OracleFail(class+":"+o.name+":"+rel.name, input, detail) }
	okAll := true
	// destination: complete output
	got, gotMode, ok := resolveContent(after, destName)
	switch {
	case !ok:
		fail("destination-missing")
		okAll = false
	case ref == nil:
		fail("reference-run-produced-no-output")
		okAll = false
	case !sameOutput(got, ref):
		fail("destination-not-the-complete-output")
		okAll = false
	}
	if ok && incrInPlace {
		// input ++ increment: the old bytes are a prefix, same inode
		if !bytes.HasPrefix(got, h.multi) || len(got) <= len(h.multi) {
			fail("increment-not-appended-to-input")
			okAll = false
		}
		if after["in.pdf"].ino != before["in.pdf"].ino {
			fail("increment-rebinds-input")
			okAll = false
		}
	}
	if ok && (def.kind == "api" || def.kind == "incr" || (def.refRun && strings.HasSuffix(destName, ".pdf"))) {
		if verr := api.ValidateFile(filepath.Join(dir, destName), nil); verr != nil {
			fail("destination-does-not-validate")
			okAll = false
		}
	}
	// permission bits
	if ok {
		want := os.FileMode(0o666) &^ os.FileMode(um)
		if destExisted {
			want = destModeBefore
		}
		if gotMode != want {
			r.OracleFail("destination-mode-not-kept:"+o.name+":"+rel.name, input, fmt.Sprintf("mode=%o want=%o %s", gotMode, want, detail))
			okAll = false
		}
	}
	// everything else untouched; no stray files
	for _, n := range names(after) {
		if _, known := before[n]; !known && n != destName {
			fail("stray-file-remains")
			okAll = false
		}
	}
	for _, n := range names(before) {
		if n == destName {
			continue
		}
		b, a := before[n], after[n]
		// a symlink/hard link/other spelling of the destination is a different NAME: it must be untouched too
		if !a.exists || a.link != b.link || a.mode != b.mode || !bytes.Equal(a.data, b.data) || a.ino != b.ino {
			if n == "in.pdf" {
				fail("distinct-input-changed")
			} else {
				fail("other-file-changed")
			}
			okAll = false
		}
	}
	if okAll {
		r.OracleOK()
	}
}

func (h *harness) aliasCases() {
	r := h.r
	rel := relation{name: "alias", outName: "link.pdf", outMode: 0o600}
	dir := h.mkdir(rel, opDef{}, "out.pdf")
	defer os.RemoveAll(dir)
	os.Link(filepath.Join(dir, "in.pdf"), filepath.Join(dir, "hl.pdf"))
	os.Symlink("in2.pdf", filepath.Join(dir, "olink.pdf"))
	os.Symlink("missing.pdf", filepath.Join(dir, "dangling.pdf"))
	os.Chdir(dir)
	defer os.Chdir(h.base)
	before := snapshot(dir)
	mdir, minos, _ := modelState(before)
	all := []string{"in.pdf", "out.pdf", "link.pdf", "hl.pdf", "other.dat", "in2.pdf", "dangling.pdf", "olink.pdf", "missing.pdf"}
	for _, a := range all {
		for _, b := range all {
			for _, spa := range []int{0, 1, 2} {
				for _, spb := range []int{0, 2} {
					got, err := api.VerifOutputAliasesInput(spell(dir, a, spa), spell(dir, b, spb))
					res := vh.Bool(got)
					if err != nil {
						res = "err"
					}
					r.Case("aliases", []string{spArg(a, spa), spArg(b, spb), mdir, minos}, res)
					// O: same inode (or same name) <=> aliases
					fa, ea := os.Stat(filepath.Join(dir, a))
					fb, eb := os.Stat(filepath.Join(dir, b))
					want := a == b || (ea == nil && eb == nil && os.SameFile(fa, fb))
					if err == nil && got != want {
						r.OracleFail("output-alias-misjudged", map[string]any{"in": spell(dir, a, spa), "out": spell(dir, b, spb)}, fmt.Sprintf("got=%v want=%v", got, want))
					} else {
						r.OracleOK()
					}
				}
			}
		}
	}
}

func main() {
	r := vh.Start("C03")
	defer r.Finish()
	api.DisableConfigDir()
	syscall.Umask(0o022)
	os.MkdirAll(scratch, 0o755)
	base := filepath.Join(scratch, fmt.Sprintf("run-%d", os.Getpid()))
	os.RemoveAll(base)
	os.MkdirAll(base, 0o755)
	defer os.RemoveAll(base)
	h := &harness{r: r, base: base, refs: map[string][]byte{}, dests: map[string]string{}}
	repo := os.Getenv("VERIF_REPO")
	if repo == "" {
		repo = "/repo"
	}
	var err error
	h.small, err = os.ReadFile(filepath.Join(repo, "pkg/testdata/test.pdf"))
	if err != nil {
		panic(err)
	}
	sp := filepath.Join(base, "small.pdf")
	os.WriteFile(sp, h.small, 0o644)
	mp := filepath.Join(base, "multi.pdf")
	if err := api.MergeCreateFile([]string{sp, sp, sp}, mp, false, nil); err != nil {
		panic("cannot build the multi-page sample: " + err.Error())
	}
	h.multi, _ = os.ReadFile(mp)
	tp := filepath.Join(base, "two.pdf")
	if err := api.MergeCreateFile([]string{sp, sp}, tp, false, nil); err != nil {
		panic("cannot build the 2-page sample: " + err.Error())
	}
	h.two, _ = os.ReadFile(tp)
	os.Chdir(base)

	defs := opDefs(base)
	n := r.Pick(8, len(defs))
	for _, o := range defs[:n] {
		for _, rel := range relations() {
			if o.kind == "copy" && rel.outName == "" {
				continue
			}
			if o.dirOut && rel.outName != "out.pdf" {
				continue // the operation names its output itself: new / existing with each mode
			}
			if o.dirOut && rel.outSp != 0 {
				continue
			}
			if rel.inplace && (o.kind == "wr" || o.noIn) {
				continue // these operations have no input path to alias
			}
			if o.outPDF && (rel.name == "new" || rel.name == "new-relative" || rel.name == "dangling-symlink") {
				// merge append onto a missing destination is a merge create: covered by "new" of the others
				if rel.name != "dangling-symlink" {
					continue
				}
			}
			h.runCase(o, rel)
		}
	}
	h.aliasCases()
	h.multiCases()
}
