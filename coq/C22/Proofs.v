(* C22 — lemmas: RC4 involution, AES-CBC + padding round trip, object walker round trip,
   indirect-object writer/reader round trip, /Perms round trip. *)
From Coq Require Import ZArith NArith List Bool Lia ZifyBool ZifyNat ZifyN.
From PV Require Import Lib.GoInt C22.Model.
Import ListNotations.
Ltac Zify.zify_post_hook ::= Z.div_mod_to_equations.

(* ------------------------------------------------------------------ generic *)

Lemma lenN_length : forall l : bytes, lenN l = N.of_nat (length l).
Proof. induction l as [|x t IH]; simpl; [reflexivity | rewrite IH; lia]. Qed.

Lemma bytes_eqb_eq : forall a b, bytes_eqb a b = true <-> a = b.
Proof.
  induction a as [|x a IH]; destruct b as [|y b]; simpl; split; intro H; try reflexivity; try discriminate.
  - apply andb_true_iff in H. destruct H as [H1 H2]. apply N.eqb_eq in H1. apply IH in H2. subst. reflexivity.
  - inversion H; subst. apply andb_true_iff. split; [apply N.eqb_refl | apply IH; reflexivity].
Qed.

Lemma bytes_eqb_refl : forall a, bytes_eqb a a = true.
Proof. intro a. apply bytes_eqb_eq. reflexivity. Qed.

(* ------------------------------------------------------------------ RC4 *)

Lemma lxor_cancel : forall a k, N.lxor (N.lxor a k) k = a.
Proof. intros a k. rewrite N.lxor_assoc, N.lxor_nilpotent, N.lxor_0_r. reflexivity. Qed.

Lemma prga_involutive : forall d s i j, prga s i j (prga s i j d) = d.
Proof.
  induction d as [|b rest IH]; intros s i j; simpl; [reflexivity|].
  rewrite lxor_cancel, IH. reflexivity.
Qed.

Lemma prga_length : forall d s i j, length (prga s i j d) = length d.
Proof. induction d as [|b rest IH]; intros s i j; simpl; [reflexivity | rewrite IH; reflexivity]. Qed.

Lemma rc4_involutive : forall key d c, rc4 key d = Ok c -> rc4 key c = Ok d.
Proof.
  intros key d c H. unfold rc4 in *.
  destruct ((lenN key =? 0) || (256 <? lenN key))%N; [discriminate|].
  inversion H; subst. rewrite prga_involutive. reflexivity.
Qed.

Lemma rc4_length : forall key d c, rc4 key d = Ok c -> length c = length d.
Proof.
  intros key d c H. unfold rc4 in *.
  destruct ((lenN key =? 0) || (256 <? lenN key))%N; [discriminate|].
  inversion H; subst. apply prga_length.
Qed.

(* ------------------------------------------------------------------ blocks *)

Definition len16 (b : bytes) : Prop := length b = 16%nat.

Lemma chunk_go_concat : forall l cur k, concat (chunk_go cur k l) = rev cur ++ l.
Proof.
  induction l as [|b rest IH]; intros cur k; simpl.
  - destruct cur as [|c cur']; simpl; [reflexivity | rewrite !app_nil_r; reflexivity].
  - destruct k as [|[|k']].
    + rewrite IH. simpl. rewrite <- app_assoc. reflexivity.
    + simpl. rewrite IH. simpl. rewrite <- app_assoc. reflexivity.
    + rewrite IH. simpl. rewrite <- app_assoc. reflexivity.
Qed.

Lemma chunk_go_len16 : forall l cur k,
  (length cur + k = 16)%nat -> (1 <= k)%nat ->
  (exists m, length cur + length l = 16 * m)%nat ->
  Forall len16 (chunk_go cur k l).
Proof.
  induction l as [|b rest IH]; intros cur k Hk Hk1 [m Hm]; simpl.
  - destruct cur as [|c cur']; [constructor|]. simpl in *. exfalso. lia.
  - destruct k as [|[|k']]; [lia | |].
    + constructor.
      * unfold len16. rewrite app_length, rev_length. simpl. lia.
      * apply IH; simpl; try lia. exists (m - 1)%nat. simpl in *. lia.
    + apply IH; simpl; try lia. exists m. simpl in *. lia.
Qed.

Lemma chunk_go_blocks : forall bs,
  Forall len16 bs -> chunk_go [] 16 (concat bs) = bs.
Proof.
  assert (G : forall x cur k rest, (length x = k)%nat -> (1 <= k)%nat ->
              chunk_go cur k (x ++ rest) = rev (rev x ++ cur) :: chunk_go [] 16 rest).
  { induction x as [|a x IH]; intros cur k rest Hl Hk; simpl in *; [lia|].
    destruct k as [|[|k']]; [lia | |].
    - destruct x; [|simpl in Hl; lia]. simpl. reflexivity.
    - rewrite IH by (simpl in *; lia). simpl. rewrite <- app_assoc. reflexivity. }
  induction bs as [|b bs IH]; intro H; simpl; [reflexivity|].
  inversion H as [|b' bs' Hb Hbs]; subst.
  rewrite G by (unfold len16 in Hb; lia). rewrite app_nil_r, rev_involutive, IH by assumption. reflexivity.
Qed.

Lemma xorb_involutive : forall a b, length a = length b -> xorb a (xorb a b) = b.
Proof.
  induction a as [|x a IH]; destruct b as [|y b]; simpl; intro H; try reflexivity; try discriminate.
  rewrite IH by lia. f_equal.
  rewrite N.lxor_comm, (N.lxor_comm x y). apply lxor_cancel.
Qed.

Lemma xorb_length : forall a b, length a = length b -> length (xorb a b) = length a.
Proof.
  induction a as [|x a IH]; destruct b as [|y b]; simpl; intro H; try reflexivity; try discriminate.
  rewrite IH by lia. reflexivity.
Qed.

Section CBC.
  Variables (E D : bytes -> bytes).
  Hypothesis DE : forall b, len16 b -> D (E b) = b.
  Hypothesis Elen : forall b, len16 b -> len16 (E b).

  Lemma cbc_roundtrip : forall blocks prev, len16 prev -> Forall len16 blocks ->
    cbc_dec D prev (cbc_enc E prev blocks) = blocks.
  Proof.
    induction blocks as [|p rest IH]; intros prev Hp Hb; simpl; [reflexivity|].
    inversion Hb as [|p' r' Hp16 Hrest]; subst.
    assert (Hx : len16 (xorb prev p)).
    { unfold len16 in *. rewrite xorb_length; congruence. }
    rewrite DE by assumption.
    rewrite xorb_involutive by (unfold len16 in *; congruence).
    rewrite IH; [reflexivity | apply Elen; assumption | assumption].
  Qed.

  Lemma cbc_enc_len16 : forall blocks prev, len16 prev -> Forall len16 blocks ->
    Forall len16 (cbc_enc E prev blocks).
  Proof.
    induction blocks as [|p rest IH]; intros prev Hp Hb; simpl; [constructor|].
    inversion Hb as [|p' r' Hp16 Hrest]; subst.
    assert (Hx : len16 (xorb prev p)).
    { unfold len16 in *. rewrite xorb_length; congruence. }
    constructor; [apply Elen; assumption | apply IH; [apply Elen; assumption | assumption]].
  Qed.

  Lemma cbc_enc_count : forall blocks prev, length (cbc_enc E prev blocks) = length blocks.
  Proof. induction blocks as [|p rest IH]; intros prev; simpl; [reflexivity | rewrite IH; reflexivity]. Qed.
End CBC.

Lemma concat_len16_length : forall bs, Forall len16 bs -> length (concat bs) = (16 * length bs)%nat.
Proof.
  induction bs as [|b bs IH]; intro H; simpl; [reflexivity|].
  inversion H as [|b' bs' Hb Hbs]; subst. rewrite app_length, IH by assumption. unfold len16 in Hb. lia.
Qed.

Lemma repeatN_length : forall v n, length (repeatN v n) = n.
Proof. induction n as [|n IH]; simpl; [reflexivity | rewrite IH; reflexivity]. Qed.

Lemma repeatN_snoc : forall v n, repeatN v n ++ [v] = v :: repeatN v n.
Proof. induction n as [|n IH]; simpl; [reflexivity | rewrite IH; reflexivity]. Qed.

Lemma rev_repeatN : forall v n, rev (repeatN v n) = repeatN v n.
Proof. induction n as [|n IH]; simpl; [reflexivity | rewrite IH; apply repeatN_snoc]. Qed.

Lemma pad_shape : forall b, exists c n,
  pkcs_pad b = b ++ repeatN c (S n) /\ (1 <= c <= 16)%N /\ N.to_nat c = S n /\
  (exists m, length b + S n = 16 * m)%nat.
Proof.
  intro b. unfold pkcs_pad. rewrite lenN_length.
  set (l := (N.of_nat (length b) mod 16)%N).
  assert (Hl : (l < 16)%N) by (unfold l; apply N.mod_lt; lia).
  exists (16 - l)%N, (pred (N.to_nat (16 - l))).
  assert (Hs : S (pred (N.to_nat (16 - l))) = N.to_nat (16 - l)) by lia.
  rewrite Hs. repeat split; try lia.
  exists (length b / 16 + 1)%nat.
  assert (Hm : N.to_nat l = (length b mod 16)%nat).
  { unfold l. rewrite N2Nat.inj_mod, Nat2N.id. reflexivity. }
  pose proof (Nat.div_mod (length b) 16). lia.
Qed.

Lemma unpad_pad : forall b, unpad (pkcs_pad b) = b.
Proof.
  intro b. destruct (pad_shape b) as (c & n & Hp & Hc & Hn & _). rewrite Hp.
  unfold unpad. rewrite rev_app_distr, rev_repeatN. simpl.
  assert (Hle : (c <=? 16)%N = true) by (apply N.leb_le; lia). rewrite Hle.
  rewrite lenN_length, app_length. simpl. rewrite repeatN_length.
  replace (N.to_nat (N.of_nat (length b + S n) - c)) with (length b + 0)%nat by lia.
  rewrite firstn_app_2. simpl. apply app_nil_r.
Qed.

Lemma chunk16_pad : forall b,
  Forall len16 (chunk16 (pkcs_pad b)) /\ concat (chunk16 (pkcs_pad b)) = pkcs_pad b /\
  (1 <= length (chunk16 (pkcs_pad b)))%nat.
Proof.
  intro b. destruct (pad_shape b) as (c & n & Hp & Hc & Hn & m & Hm).
  assert (H16 : Forall len16 (chunk16 (pkcs_pad b))).
  { unfold chunk16. apply chunk_go_len16; simpl; try lia.
    exists m. rewrite Hp, app_length. simpl. rewrite repeatN_length. lia. }
  assert (Hc2 : concat (chunk16 (pkcs_pad b)) = pkcs_pad b).
  { unfold chunk16. rewrite chunk_go_concat. reflexivity. }
  repeat split; try assumption.
  pose proof (concat_len16_length _ H16) as Hlen. rewrite Hc2 in Hlen.
  remember (chunk16 (pkcs_pad b)) as cs eqn:Hcs. clear Hcs.
  rewrite Hp, app_length in Hlen. simpl in Hlen.
  rewrite repeatN_length in Hlen. lia.
Qed.

Section AES.
  Variables (aenc adec : bytes -> bytes -> bytes).
  Hypothesis aes_inv : forall k b, len16 b -> adec k (aenc k b) = b.
  Hypothesis aes_len : forall k b, len16 b -> len16 (aenc k b).

  Lemma aes_cbc_pad_roundtrip : forall key iv b, len16 iv ->
    decryptAES adec key (encryptAES aenc key iv b) = AOk b.
  Proof.
    intros key iv b Hiv. unfold encryptAES, decryptAES.
    destruct (chunk16_pad b) as (H16 & Hcc & Hn).
    set (ct := cbc_enc (aenc key) iv (chunk16 (pkcs_pad b))).
    assert (Hct : Forall len16 ct) by (apply cbc_enc_len16; auto).
    assert (Hlen : length (iv ++ concat ct) = (16 + 16 * length (chunk16 (pkcs_pad b)))%nat).
    { rewrite app_length, concat_len16_length by assumption. unfold ct. rewrite cbc_enc_count.
      unfold len16 in Hiv. lia. }
    rewrite lenN_length, Hlen.
    assert (H1 : (N.of_nat (16 + 16 * length (chunk16 (pkcs_pad b))) <? 32)%N = false) by (apply N.ltb_ge; lia).
    rewrite H1.
    assert (H2 : (N.of_nat (16 + 16 * length (chunk16 (pkcs_pad b))) mod 16 =? 0)%N = true).
    { apply N.eqb_eq. replace (N.of_nat (16 + 16 * length (chunk16 (pkcs_pad b))))
        with ((1 + N.of_nat (length (chunk16 (pkcs_pad b)))) * 16)%N by lia.
      apply N.mod_mul. lia. }
    rewrite H2. simpl negb. cbv iota.
    assert (Hf : firstn 16 (iv ++ concat ct) = iv).
    { unfold len16 in Hiv. rewrite <- Hiv at 1. rewrite <- (Nat.add_0_r (length iv)), firstn_app_2. simpl. apply app_nil_r. }
    assert (Hs : skipn 16 (iv ++ concat ct) = concat ct).
    { unfold len16 in Hiv. rewrite <- Hiv. rewrite skipn_app, skipn_all, Nat.sub_diag. reflexivity. }
    rewrite Hf, Hs. unfold chunk16 at 1. rewrite chunk_go_blocks by assumption.
    unfold ct. rewrite cbc_roundtrip; auto.
    rewrite Hcc, unpad_pad. reflexivity.
  Qed.
End AES.

(* ------------------------------------------------------------------ string / stream cipher round trips *)

Section Cipher.
  Variable c : cparams.
  Hypothesis aes_inv : forall k b, len16 b -> cp_adec c k (cp_aenc c k b) = b.
  Hypothesis aes_len : forall k b, len16 b -> len16 (cp_aenc c k b).

  Lemma bytes_roundtrip : forall iv b ct, len16 iv ->
    encryptBytes c iv b = Ok ct -> dec_str (decryptBytes c) ct = Ok b.
  Proof.
    intros iv b ct Hiv H. unfold encryptBytes in H. unfold dec_str, decryptBytes.
    destruct (cp_aes c) eqn:Haes.
    - destruct (if is_r56 (cp_r c) then Ok (cp_key c) else decryptKey (cp_md5 c) (cp_obj c) (cp_gen c) (cp_key c) true) as [k|]; [|discriminate].
      inversion H; subst ct.
      assert (Hd := aes_cbc_pad_roundtrip _ _ aes_inv aes_len k iv b Hiv).
      destruct (encryptAES (cp_aenc c) k iv b) eqn:He.
      + unfold encryptAES in He. apply app_eq_nil in He. destruct He as [He _]. subst iv. discriminate Hiv.
      + rewrite Hd. reflexivity.
    - destruct (decryptKey (cp_md5 c) (cp_obj c) (cp_gen c) (cp_key c) false) as [k|]; [|discriminate].
      destruct ct as [|x ct'].
      + apply rc4_length in H. destruct b; [reflexivity | discriminate].
      + apply rc4_involutive. assumption.
  Qed.

  Lemma stream_bytes_roundtrip : forall iv b ct, len16 iv ->
    encryptStream c iv b = Ok ct -> dec_str (decryptStream c) ct = Ok b.
  Proof.
    intros iv b ct Hiv H. unfold encryptStream in H. unfold dec_str, decryptStream.
    destruct (if is_r56 (cp_r c) then Ok (cp_key c) else decryptKey (cp_md5 c) (cp_obj c) (cp_gen c) (cp_key c) (cp_aes c)) as [k|]; [|discriminate].
    destruct (cp_aes c) eqn:Haes.
    - inversion H; subst ct.
      assert (Hd := aes_cbc_pad_roundtrip _ _ aes_inv aes_len k iv b Hiv).
      destruct (encryptAES (cp_aenc c) k iv b) eqn:He.
      + unfold encryptAES in He. apply app_eq_nil in He. destruct He as [He _]. subst iv. discriminate Hiv.
      + rewrite Hd. reflexivity.
    - destruct ct as [|x ct'].
      + apply rc4_length in H. destruct b; [reflexivity | discriminate].
      + apply rc4_involutive. assumption.
  Qed.
End Cipher.

(* ------------------------------------------------------------------ object trees *)

Section ObjInd.
  Variable P : obj -> Prop.
  Hypothesis Hnull : P ONull.
  Hypothesis Hbool : forall b, P (OBool b).
  Hypothesis Hint : forall z, P (OInt z).
  Hypothesis Hreal : forall r, P (OReal r).
  Hypothesis Hname : forall n, P (OName n).
  Hypothesis Hstr : forall b, P (OStr b).
  Hypothesis Hhex : forall b, P (OHex b).
  Hypothesis Href : forall n g, P (ORef n g).
  Hypothesis Harr : forall l, Forall P l -> P (OArr l).
  Hypothesis Hdict : forall d, Forall (fun kv => P (snd kv)) d -> P (ODict d).

  Fixpoint obj_ind' (o : obj) : P o :=
    match o with
    | ONull => Hnull | OBool b => Hbool b | OInt z => Hint z | OReal r => Hreal r
    | OName n => Hname n | OStr b => Hstr b | OHex b => Hhex b | ORef n g => Href n g
    | OArr l => Harr l ((fix f (l : list obj) : Forall P l :=
                           match l with [] => Forall_nil _ | x :: t => Forall_cons x (obj_ind' x) (f t) end) l)
    | ODict d => Hdict d ((fix f (d : dict) : Forall (fun kv => P (snd kv)) d :=
                             match d with
                             | [] => Forall_nil _
                             | kv :: t => Forall_cons kv (obj_ind' (snd kv)) (f t)
                             end) d)
    end.
End ObjInd.

(* what is_sig looks at: null / name / anything else *)
Definition sk (o : obj) : option (option bytes) :=
  match o with ONull => Some None | OName n => Some (Some n) | _ => None end.

Lemma mapres_roundtrip : forall (A B : Type) (f : A -> res B) (g : B -> res A) l l',
  Forall (fun x => forall y, f x = Ok y -> g y = Ok x) l ->
  mapres f l = Ok l' -> mapres g l' = Ok l.
Proof.
  intros A B f g. induction l as [|x t IH]; intros l' HF H; simpl in H.
  - inversion H; subst. reflexivity.
  - inversion HF as [|x' t' Hx Ht]; subst.
    destruct (f x) as [y|] eqn:Hfx; [|discriminate].
    destruct (mapres f t) as [t2|] eqn:Hft; [|discriminate].
    inversion H; subst. simpl. rewrite (Hx y eq_refl), (IH t2 Ht eq_refl). reflexivity.
Qed.

Lemma mapres_lookup_sk : forall (f : bytes * obj -> res (bytes * obj)) d d',
  (forall kv kv', f kv = Ok kv' -> fst kv' = fst kv /\ sk (snd kv') = sk (snd kv)) ->
  mapres f d = Ok d' ->
  forall k, option_map sk (lookup k d') = option_map sk (lookup k d).
Proof.
  intros f. induction d as [|[k0 v0] t IH]; intros d' Hf H k; simpl in H.
  - inversion H; subst. reflexivity.
  - destruct (f (k0, v0)) as [[k1 v1]|] eqn:Hfx; [|discriminate].
    destruct (mapres f t) as [t2|] eqn:Hft; [|discriminate].
    inversion H; subst. destruct (Hf _ _ Hfx) as [Hk Hs]. simpl in Hk, Hs. subst k1.
    simpl. destruct (bytes_eqb k k0); simpl; [rewrite Hs; reflexivity | apply IH; auto].
Qed.

Lemma is_sig_sk : forall d d',
  (forall k, option_map sk (lookup k d') = option_map sk (lookup k d)) -> is_sig d' = is_sig d.
Proof.
  intros d d' H.
  assert (G : forall k, sk (goget k d') = sk (goget k d)).
  { intro k. specialize (H k). unfold goget. destruct (lookup k d'), (lookup k d); simpl in *; congruence. }
  unfold is_sig. pose proof (G kFT) as G1. pose proof (G kType) as G2.
  destruct (goget kFT d') eqn:E1, (goget kFT d) eqn:E2; simpl in G1; try discriminate; try reflexivity;
  try (inversion G1; subst; reflexivity).
  destruct (goget kType d') eqn:E3, (goget kType d) eqn:E4; simpl in G2; try discriminate; try reflexivity;
  inversion G2; subst; reflexivity.
Qed.

Lemma type_is_sk : forall n d d',
  (forall k, option_map sk (lookup k d') = option_map sk (lookup k d)) -> type_is n d' = type_is n d.
Proof.
  intros n d d' H. unfold type_is, goget. specialize (H kType).
  destruct (lookup kType d') as [v'|], (lookup kType d) as [v|]; simpl in H; try congruence.
  inversion H as [H1]. destruct v', v; simpl in H1; try discriminate; try reflexivity. inversion H1; reflexivity.
Qed.

Lemma encryptDeep_sk : forall E o o', encryptDeep E o = Ok o' -> sk o' = sk o.
Proof.
  intros E o o' H. destruct o; simpl in H; try (inversion H; subst; reflexivity).
  - destruct (E b); inversion H; reflexivity.
  - destruct (E b); inversion H; reflexivity.
  - destruct (mapres (encryptDeep E) l); inversion H; reflexivity.
  - destruct (mapres (on_entry (is_sig d) (encryptDeep E)) d); inversion H; reflexivity.
Qed.

Lemma on_entry_sk : forall sg rec, (forall o o', rec o = Ok o' -> sk o' = sk o) ->
  forall kv kv', on_entry sg rec kv = Ok kv' -> fst kv' = fst kv /\ sk (snd kv') = sk (snd kv).
Proof.
  intros sg rec Hrec [k v] kv' H. unfold on_entry in H.
  destruct (sg && bytes_eqb k kContents).
  - inversion H; subst. split; reflexivity.
  - destruct (rec v) as [v'|] eqn:Hr; [|discriminate]. inversion H; subst. simpl. split; [reflexivity | eauto].
Qed.

Lemma encryptDict_keeps_sk : forall E d d',
  mapres (on_entry (is_sig d) (encryptDeep E)) d = Ok d' ->
  forall k, option_map sk (lookup k d') = option_map sk (lookup k d).
Proof.
  intros E d d' H. eapply mapres_lookup_sk; [|exact H].
  apply on_entry_sk. apply encryptDeep_sk.
Qed.

Section Deep.
  Variables (E D : bytes -> res bytes).
  Hypothesis ED : forall b c, E b = Ok c -> dec_str D c = Ok b.

  Lemma deep_roundtrip : forall o o', encryptDeep E o = Ok o' -> decryptDeep D o' = Ok o.
  Proof.
    induction o as [| | | | |b|b| |l IH|d IH] using obj_ind'; intros o' H; simpl in H;
      try (inversion H; subst; reflexivity).
    - destruct (E b) as [c|] eqn:He; [|discriminate]. inversion H; subst. simpl. rewrite (ED _ _ He). reflexivity.
    - destruct (E b) as [c|] eqn:He; [|discriminate]. inversion H; subst. simpl. rewrite (ED _ _ He). reflexivity.
    - destruct (mapres (encryptDeep E) l) as [l'|] eqn:Hm; [|discriminate]. inversion H; subst. simpl.
      rewrite (mapres_roundtrip _ _ (encryptDeep E) (decryptDeep D) l l'); [reflexivity | | exact Hm].
      eapply Forall_impl; [|exact IH]. intros x Hx y Hy. apply Hx. exact Hy.
    - destruct (mapres (on_entry (is_sig d) (encryptDeep E)) d) as [d'|] eqn:Hm; [|discriminate].
      inversion H; subst. simpl.
      rewrite (is_sig_sk d d' (encryptDict_keeps_sk E d d' Hm)).
      rewrite (mapres_roundtrip _ _ (on_entry (is_sig d) (encryptDeep E)) (on_entry (is_sig d) (decryptDeep D)) d d');
        [reflexivity | | exact Hm].
      eapply Forall_impl; [|exact IH]. intros [k v] Hx [k' v'] Hy. simpl in Hx.
      unfold on_entry in *. destruct (is_sig d && bytes_eqb k kContents) eqn:Hsk.
      + inversion Hy; subst. rewrite Hsk. reflexivity.
      + destruct (encryptDeep E v) as [v2|] eqn:Hv; [|discriminate]. inversion Hy; subst.
        rewrite Hsk, (Hx _ eq_refl). reflexivity.
  Qed.

  Lemma dict_roundtrip : forall d d', encryptDict E d = Ok d' -> decryptDict D d' = Ok d.
  Proof.
    intros d d' H. unfold encryptDict in H. unfold decryptDict.
    destruct (encryptDeep E (ODict d)) as [o|] eqn:He; [|discriminate].
    assert (Ho : o = ODict d').
    { simpl in He. destruct (mapres (on_entry (is_sig d) (encryptDeep E)) d); [|discriminate].
      inversion He; subst. inversion H; subst. reflexivity. }
    subst o. rewrite (deep_roundtrip _ _ He). reflexivity.
  Qed.

  Lemma encryptDict_type_is : forall n d d', encryptDict E d = Ok d' -> type_is n d' = type_is n d.
  Proof.
    intros n d d' H. unfold encryptDict in H. simpl in H.
    destruct (mapres (on_entry (is_sig d) (encryptDeep E)) d) as [d2|] eqn:Hm; [|discriminate].
    inversion H; subst. apply type_is_sk. eapply encryptDict_keeps_sk. exact Hm.
  Qed.
End Deep.

(* ------------------------------------------------------------------ writer / reader of indirect objects *)

(* the writer's and the reader's crypt-filter decision are the same decision, for every filter list *)
Lemma write_skips_eq : forall filters, write_skips_crypt filters = skips_crypt filters.
Proof.
  intros [|f [|g t]]; unfold write_skips_crypt, skips_crypt; simpl; try reflexivity.
Qed.

Lemma read_skips_eq : forall filters, read_skips_crypt filters = skips_crypt filters.
Proof.
  intros [|f [|g t]]; unfold read_skips_crypt, skips_crypt; simpl; try reflexivity.
Qed.

Lemma crypt_skip_agrees : forall filters, read_skips_crypt filters = write_skips_crypt filters.
Proof. intro filters. rewrite read_skips_eq, write_skips_eq. reflexivity. Qed.

Global Opaque write_skips_crypt read_skips_crypt.

Definition filters_of (io : iobj) : list bytes :=
  match io with IStream _ f _ => f | _ => [] end.

(* the side condition of the round trip: metadata
   streams only when EncryptMetadata is true (setupEncryption always yields Emd = true) *)
Definition roundtrip_ok (emd : bool) (io : iobj) : Prop :=
  match io with
  | IStream d _ _ => emd = true \/ type_is nMetadata d = false
  | IObj _ | ILazy _ => True
  end.

(* what the reader holds afterwards: a member that was still undecoded comes back as the decoded object *)
Definition decoded (io : iobj) : iobj := deref_for_write io.

Section IObj.
  Variables (strE strD stmE stmD : bytes -> res bytes).
  Hypothesis StrED : forall b c, strE b = Ok c -> dec_str strD c = Ok b.
  Hypothesis StmED : forall b c, stmE b = Ok c -> dec_str stmD c = Ok b.

  Lemma keyed_roundtrip : forall emd to_os io e,
    (forall o, io <> ILazy o) -> roundtrip_ok emd io ->
    write_keyed strE stmE to_os io = Ok e ->
    read_emitted strD stmD emd (filters_of io) e = Ok io.
  Proof.
    intros emd to_os io e Hnl Hok H. destruct io as [o|d filters raw|o]; simpl in *; [| |exfalso; apply (Hnl o); reflexivity].
    - assert (G : forall e, match encryptDeep strE o with Ok o' => Ok (EmTop o') | Err => Err end = Ok e ->
                  read_emitted strD stmD emd [] e = Ok (IObj o)).
      { intros e0 H0. destruct (encryptDeep strE o) as [o'|] eqn:He; [|discriminate]. inversion H0; subst.
        simpl. rewrite (deep_roundtrip strE strD StrED _ _ He). reflexivity. }
      destruct o; try (destruct to_os; [inversion H; subst; reflexivity | apply G; exact H]);
        inversion H; subst; reflexivity.
    - destruct (encryptDict strE d) as [d'|] eqn:Hd; [|discriminate].
      pose proof (dict_roundtrip strE strD StrED _ _ Hd) as Hdd.
      pose proof (encryptDict_type_is strE nXRef _ _ Hd) as Hx.
      rewrite write_skips_eq in H.
      destruct (type_is nXRef d' || skips_crypt filters) eqn:Hskip.
      + inversion H; subst. simpl. rewrite Hdd, read_skips_eq.
        destruct (skips_crypt filters); [reflexivity|]. rewrite orb_false_r in Hskip. rewrite <- Hx, Hskip. reflexivity.
      + apply orb_false_iff in Hskip. destruct Hskip as [Hxr Hcr].
        destruct (stmE raw) as [raw'|] eqn:Hs; [|discriminate]. inversion H; subst. simpl.
        rewrite Hdd, read_skips_eq, Hcr, <- Hx, Hxr.
        pose proof (StmED _ _ Hs) as Hdec.
        destruct raw' as [|x r'].
        * simpl in Hdec. inversion Hdec; subst. reflexivity.
        * assert (Hmeta : negb emd && type_is nMetadata d = false).
          { destruct Hok as [He|Hm]; [rewrite He; reflexivity | rewrite Hm; apply andb_false_r]. }
          rewrite Hmeta. simpl in Hdec. rewrite Hdec. reflexivity.
  Qed.

  Lemma iobj_roundtrip : forall emd to_os io e,
    roundtrip_ok emd io ->
    write_iobj true strE stmE to_os io = Ok e ->
    read_emitted strD stmD emd (filters_of io) e = Ok (decoded io).
  Proof.
    intros emd to_os io e Hok H. unfold write_iobj in H. unfold decoded.
    assert (Hf : filters_of io = filters_of (deref_for_write io)) by (destruct io; reflexivity).
    rewrite Hf. apply (keyed_roundtrip emd to_os); [| |exact H].
    - intros o Heq. destruct io; simpl in Heq; discriminate.
    - destruct io; simpl in *; auto.
  Qed.
End IObj.

(* ------------------------------------------------------------------ /Perms *)

Lemma permissionBytes_len : forall p pb, permissionBytes p = Ok pb -> length pb = 4%nat.
Proof.
  intros p pb H. unfold permissionBytes in H.
  destruct ((p <? -2147483648) || (2147483647 <? p))%Z; [discriminate|]. inversion H; reflexivity.
Qed.

Lemma permissionBytes_ok : forall p, (-2147483648 <= p <= 2147483647)%Z -> exists pb, permissionBytes p = Ok pb.
Proof.
  intros p Hp. unfold permissionBytes.
  assert (H : ((p <? -2147483648) || (2147483647 <? p))%Z = false) by lia. rewrite H. eexists; reflexivity.
Qed.

Lemma to_N_inj_byte : forall a b, (0 <= a < 256)%Z -> (0 <= b < 256)%Z -> Z.to_N a = Z.to_N b -> a = b.
Proof. intros a b Ha Hb H. lia. Qed.

Lemma permissionBytes_inj : forall p q pb,
  permissionBytes p = Ok pb -> permissionBytes q = Ok pb -> p = q.
Proof.
  intros p q pb Hp Hq. unfold permissionBytes in *.
  destruct ((p <? -2147483648) || (2147483647 <? p))%Z eqn:Rp; [discriminate|].
  destruct ((q <? -2147483648) || (2147483647 <? q))%Z eqn:Rq; [discriminate|].
  inversion Hp as [Hpb]. rewrite <- Hpb in Hq. inversion Hq as [[H0 H1 H2 H3]].
  set (u := (p mod 18446744073709551616)%Z) in *. set (v := (q mod 18446744073709551616)%Z) in *.
  apply to_N_inj_byte in H0; [|apply Z.mod_pos_bound; lia|apply Z.mod_pos_bound; lia].
  apply to_N_inj_byte in H1; [|apply Z.mod_pos_bound; lia|apply Z.mod_pos_bound; lia].
  apply to_N_inj_byte in H2; [|apply Z.mod_pos_bound; lia|apply Z.mod_pos_bound; lia].
  apply to_N_inj_byte in H3; [|apply Z.mod_pos_bound; lia|apply Z.mod_pos_bound; lia].
  assert (Huv : (u mod 4294967296 = v mod 4294967296)%Z) by lia.
  unfold u, v in Huv. lia.
Qed.

Section Perms.
  Variables (aenc adec : bytes -> bytes -> bytes).
  Hypothesis aes_inv : forall k b, len16 b -> adec k (aenc k b) = b.

  Lemma permsBlock_len16 : forall p emd b, permsBlock p emd = Ok b -> len16 b.
  Proof.
    intros p emd b H. unfold permsBlock in H. destruct (permissionBytes p) as [pb|] eqn:Hp; [|discriminate].
    inversion H; subst. apply permissionBytes_len in Hp. unfold len16. rewrite !app_length, Hp. reflexivity.
  Qed.

  Lemma validate_block : forall key p emd b q emd',
    permsBlock p emd = Ok b -> (-2147483648 <= q <= 2147483647)%Z ->
    validatePermissions adec key (aenc key b) q emd' = Ok (Z.eqb p q && Bool.eqb emd emd').
  Proof.
    intros key p emd b q emd' Hb Hq. unfold validatePermissions.
    rewrite aes_inv by (eapply permsBlock_len16; eauto).
    unfold permsBlock in Hb. destruct (permissionBytes p) as [pb|] eqn:Hp; [|discriminate].
    inversion Hb; subst b. pose proof (permissionBytes_len _ _ Hp) as Hl.
    destruct pb as [|b0 [|b1 [|b2 [|b3 [|]]]]]; try discriminate Hl.
    destruct (permissionBytes_ok q Hq) as [qb Hqb]. rewrite Hqb.
    cbn [app firstn skipn nthN nth N.to_nat Pos.to_nat Pos.iter_op Init.Nat.add bytes_eqb].
    simpl.
    destruct (Z.eqb_spec p q) as [Heq|Hne].
    - subst q. rewrite Hqb in Hp. inversion Hp; subst qb.
      destruct emd, emd'; simpl; rewrite ?N.eqb_refl; reflexivity.
    - assert (Hnb : bytes_eqb [b0; b1; b2; b3] qb = false).
      { destruct (bytes_eqb [b0; b1; b2; b3] qb) eqn:Hbe; [|reflexivity].
        apply bytes_eqb_eq in Hbe. subst qb. exfalso. apply Hne. eapply permissionBytes_inj; eauto. }
      destruct emd, emd'; simpl; try reflexivity; simpl in Hnb; rewrite Hnb; reflexivity.
  Qed.

  Lemma perms_roundtrip : forall key p emd perms,
    writePermissions aenc key p emd = Ok perms -> validatePermissions adec key perms p emd = Ok true.
  Proof.
    intros key p emd perms H. unfold writePermissions in H.
    destruct (permsBlock p emd) as [b|] eqn:Hb; [|discriminate]. inversion H; subst perms.
    assert (Hp : (-2147483648 <= p <= 2147483647)%Z).
    { unfold permsBlock, permissionBytes in Hb.
      destruct ((p <? -2147483648) || (2147483647 <? p))%Z eqn:R; [discriminate | lia]. }
    rewrite (validate_block key p emd b p emd Hb Hp), Z.eqb_refl, eqb_reflx. reflexivity.
  Qed.

  Lemma perms_written_iff : forall key p emd,
    (-2147483648 <= p <= 2147483647)%Z -> exists perms, writePermissions aenc key p emd = Ok perms.
  Proof.
    intros key p emd Hp. unfold writePermissions, permsBlock.
    destruct (permissionBytes_ok p Hp) as [pb Hpb]. rewrite Hpb. eexists; reflexivity.
  Qed.

  Lemma perms_detects : forall key p emd perms q emd',
    writePermissions aenc key p emd = Ok perms -> (-2147483648 <= q <= 2147483647)%Z ->
    (p <> q \/ emd <> emd') -> validatePermissions adec key perms q emd' = Ok false.
  Proof.
    intros key p emd perms q emd' H Hq Hne. unfold writePermissions in H.
    destruct (permsBlock p emd) as [b|] eqn:Hb; [|discriminate]. inversion H; subst perms.
    rewrite (validate_block key p emd b q emd' Hb Hq). f_equal.
    destruct Hne as [Hn|Hn].
    - apply Z.eqb_neq in Hn. rewrite Hn. reflexivity.
    - destruct emd, emd'; try congruence; apply andb_false_r.
  Qed.
End Perms.

Lemma p_reported_written : forall requested, p_reported (p_written requested) = wrapS 16 requested.
Proof.
  intro r. unfold p_reported, p_written, wrapS. simpl (2 ^ (16 - 1))%Z. simpl (2 ^ 16)%Z. lia.
Qed.

Lemma p_written_range : forall requested, (-2147483648 <= p_written requested <= 2147483647)%Z.
Proof. intro r. unfold p_written, wrapS. simpl (2 ^ (16 - 1))%Z. simpl (2 ^ 16)%Z. lia. Qed.

Lemma p_exact : forall requested, (-32768 <= requested <= 32767)%Z -> p_reported (p_written requested) = requested.
Proof.
  intros r Hr. unfold p_reported, p_written, wrapS. simpl (2 ^ (16 - 1))%Z. simpl (2 ^ 16)%Z. lia.
Qed.

(* ------------------------------------------------------------------ the composed statement *)

Definition str_cipher_of (c : cparams) (strE : bytes -> res bytes) : Prop :=
  forall b ct, strE b = Ok ct -> exists iv, len16 iv /\ encryptBytes c iv b = Ok ct.
Definition stm_cipher_of (c : cparams) (stmE : bytes -> res bytes) : Prop :=
  forall b ct, stmE b = Ok ct -> exists iv, len16 iv /\ encryptStream c iv b = Ok ct.

Lemma object_roundtrip : forall c,
  (forall k b, len16 b -> cp_adec c k (cp_aenc c k b) = b) ->
  (forall k b, len16 b -> len16 (cp_aenc c k b)) ->
  forall strE stmE, str_cipher_of c strE -> stm_cipher_of c stmE ->
  forall emd to_os io e, roundtrip_ok emd io ->
    write_iobj true strE stmE to_os io = Ok e ->
    read_emitted (decryptBytes c) (decryptStream c) emd (filters_of io) e = Ok (decoded io).
Proof.
  intros c Hinv Hlen strE stmE Hs Hm emd to_os io e Hok H.
  eapply iobj_roundtrip; [| |exact Hok|exact H].
  - intros b ct Hb. destruct (Hs _ _ Hb) as (iv & Hiv & He). eapply bytes_roundtrip; eauto.
  - intros b ct Hb. destruct (Hm _ _ Hb) as (iv & Hiv & He). eapply stream_bytes_roundtrip; eauto.
Qed.

(* witnesses for the two holes of roundtrip_ok *)
Definition wit_c : cparams :=
  {| cp_md5 := fun _ => repeatN 7 16; cp_aenc := fun _ b => b; cp_adec := fun _ b => b;
     cp_key := [1; 2; 3; 4; 5]; cp_aes := false; cp_r := 2%Z; cp_obj := 12%Z; cp_gen := 0%Z |}.

(* a still-undecoded object-stream member: with a key it is decoded, enciphered and comes back as the
   decoded object *)
Lemma lazy_roundtrip : forall c,
  (forall k b, len16 b -> cp_adec c k (cp_aenc c k b) = b) ->
  (forall k b, len16 b -> len16 (cp_aenc c k b)) ->
  forall strE stmE, str_cipher_of c strE -> stm_cipher_of c stmE ->
  forall emd to_os o e,
    write_iobj true strE stmE to_os (ILazy o) = Ok e ->
    read_emitted (decryptBytes c) (decryptStream c) emd [] e = Ok (IObj o).
Proof.
  intros c Hinv Hlen strE stmE Hs Hm emd to_os o e H.
  apply (object_roundtrip c Hinv Hlen strE stmE Hs Hm emd to_os (ILazy o) e I H).
Qed.

Lemma metadata_emd_false_refuted : exists d raw e raw',
  write_iobj true (encryptBytes wit_c []) (encryptStream wit_c []) false (IStream d [] raw) = Ok e /\
  type_is nMetadata d = true /\
  read_emitted (decryptBytes wit_c) (decryptStream wit_c) false [] e = Ok (IStream d [] raw') /\ raw' <> raw.
Proof.
  exists [(kType, OName nMetadata)], [77; 75]. eexists. eexists.
  split; [vm_compute; reflexivity|]. split; [reflexivity|]. split; [vm_compute; reflexivity|]. discriminate.
Qed.
