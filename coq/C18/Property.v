(* C18 — Every written PDF has an exact, self-consistent file structure.
   Property theorems only; each is closed by an exact lemma and followed by Print Assumptions.

   Model.layout      : the writer's byte layout (header, "n g obj".."endobj" with the separately kept
                       offset counter, sorted cross-reference table with 20-byte entries, trailer /Size,
                       startxref, %%EOF), object bodies opaque.
   Model.check_file  : independent strict, non-repairing checker of a byte string. *)
From Coq Require Import NArith List Bool Sorting.Permutation.
From PV Require Import C18.Model C18.ProofsBase C18.ProofsXref C18.ProofsLayout C18.ProofsXStream C18.ProofsFreeList.
Import ListNotations.
Open Scope N_scope.

(* (1) Exact offsets, for EVERY input (no hypothesis): the offset the writer records for each written
   object is the position of that object's "<nr> <gen> obj" line in the finished file, the counter
   equals the number of bytes emitted, and the number printed after startxref is the position of the
   "xref" keyword. *)
Theorem C18_offsets_exact : forall i : input,
  let '(bytes, off, tbl) := body_of i in
  off = lenN bytes /\
  Forall2 (fun o x => e_nr x = o_nr o /\ e_b x = o_xgen o /\ e_free x = false /\
                      exists rest, dropN (e_a x) (layout i) = obj_header (i_eol i) (e_nr x) (o_gen o) ++ rest)
          (i_objs i) tbl /\
  dropN off (layout i) = xref_section (i_eol i) (xents i) (i_tpre i) (i_size i) off.
Proof. exact offsets_exact. Qed.
Print Assumptions C18_offsets_exact.

(* (2) The strict checker accepts the file written for every well-formed input.
   FULL statement wanted: forall i, check_file (layout i) = true for every input the writer can be
   given.  Proved under [wf]: besides field-width bounds, [wf] asks that the cross-reference CONTENTS
   are sane (each object's table generation = its header generation, object 0 first and free,
   distinct object numbers, /Size = highest number + 1, free
   entries chained from object 0 with generation 65535).  pdfcpu does NOT always establish the last
   two, nor the generation equality (see C18_size_refuted, C18_generation_refuted and the harness classes
   size-too-large / free-list-unlinked / inuse-generation), hence
   the name _partial: what is missing is a proof that xRefTable.Size and the free list handed to the
   writer satisfy [table_ok] — on real documents they sometimes do not. *)
Theorem C18_layout_checks_partial : forall i : input, wf i -> check_file (layout i) = true.
Proof. exact layout_checks. Qed.
Print Assumptions C18_layout_checks_partial.

(* (3) What acceptance by the checker means, for ANY byte string f. *)
Theorem C18_check_file_sound : forall f : list N, check_file f = true ->
  exists x size ents,
    parse_tail_rev (rev f) = Some (x, size) /\
    parse_xref_at f x = Some ents /\
    size = N.succ (last_nr 0 ents) /\
    strictly_increasing ents /\
    chain_ok ents = true /\
    forall y, In y ents -> e_free y = false ->
      exists r, dropN (e_a y) f = dec (e_nr y) ++ [32] ++ dec (e_b y) ++ s_obj ++ r /\ is_eol_start r = true.
Proof. exact check_file_sound. Qed.
Print Assumptions C18_check_file_sound.

(* (4) /Size is the highest object number + 1 in every accepted layout (consequence of 2+3, stated
   for the written file). *)
Theorem C18_size_is_max_plus_one_partial : forall i : input, wf i ->
  i_size i = N.succ (last_nr 0 (xents i)).
Proof. exact size_is_max_plus_one. Qed.
Print Assumptions C18_size_is_max_plus_one_partial.

(* (5) Every cross-reference entry is exactly 20 bytes for all three end-of-line styles, as long as the
   fields fit ("%010d", "%05d"). *)
Theorem C18_xref_entry_width : forall (e : eolk) (x : ent),
  e_a x < 10 ^ 10 -> e_b x < 10 ^ 5 -> length (entry_line e x) = 20%nat.
Proof. intros e x Ha Hb. apply entry_line_length. split; assumption. Qed.
Print Assumptions C18_xref_entry_width.

(* (6) The strict table parser reads back exactly the entries the writer printed (subsection split,
   20-byte entries, object numbers), for every strictly increasing entry list. *)
Theorem C18_xref_table_roundtrip : forall (e : eolk) (ents : list ent) (rest : list N),
  strictly_increasing ents -> Forall bounded ents ->
  parse_sections (concat (map (print_run e) (runs ents)) ++ s_trailer ++ rest)
                 (concat (map (print_run e) (runs ents)) ++ s_trailer ++ rest) = Some (ents, rest).
Proof. exact parse_sections_table. Qed.
Print Assumptions C18_xref_table_roundtrip.

(* (7) Decimal printing/parsing. *)
Theorem C18_decimal_roundtrip : forall n : N, value (dec n) = n /\ dec n <> [] /\ Forall (fun b => is_digit b = true) (dec n).
Proof. intros n. split; [apply dec_value|split; [apply dec_nonempty|apply dec_digits]]. Qed.
Print Assumptions C18_decimal_roundtrip.

(* (8) Cross-reference stream rows: every field written by int64ToBuf decodes (big-endian) to the value
   written, has at least the requested width, and consists of bytes. *)
Theorem C18_int64ToBuf_roundtrip : forall (i : N) (w : nat), i < 2 ^ 64 ->
  be_value (int64ToBuf i w) = i /\ (w <= length (int64ToBuf i w))%nat /\ Forall (fun b => b < 256) (int64ToBuf i w).
Proof. exact int64ToBuf_roundtrip. Qed.
Print Assumptions C18_int64ToBuf_roundtrip.

(* (8b) Cross-reference stream column widths.  writeXRefStream declares /W [1 w 2] with
   w = byte length of max(/Size, offset of the xref stream) (Model.w2_width, transcribed).  If every row's
   type is a byte, its second field is at most that maximum (offsets <= the xref stream's offset;
   next-free and object-stream numbers < /Size) and its third field is below 65536, then the stream
   content is exactly rows x (1+w+2) bytes and the strict decoder (exact widths, exact count, nothing
   left over) returns exactly the rows written. *)
Theorem C18_xref_stream_rows_exact : forall (size offset start : N) (rows : list xrow),
  (if size <? offset then offset else size) < 2 ^ 64 ->
  Forall (fun r => x_typ r < 256 /\ x_a r <= (if size <? offset then offset else size) /\ x_b r < 65536) rows ->
  length (xref_stream_content size offset rows) = (length rows * (1 + w2_width size offset + 2))%nat /\
  decode_index 1 (w2_width size offset) 2 [(start, lenN rows)] (xref_stream_content size offset rows)
    = Some (number start rows).
Proof. exact xref_stream_rows_exact. Qed.
Print Assumptions C18_xref_stream_rows_exact.

(* (8c) The width is a REQUIREMENT: a field value that does not fit the declared width is written wider
   than declared (int64ToBuf never truncates), which misaligns every later row.  So a width derived from
   the offset alone is wrong as soon as an object number exceeds it. *)
Theorem C18_int64ToBuf_overflow : forall (v : N) (w : nat),
  v < 2 ^ 64 -> 256 ^ N.of_nat w <= v -> (w < length (int64ToBuf v w))%nat.
Proof. exact int64ToBuf_overflow. Qed.
Print Assumptions C18_int64ToBuf_overflow.

(* (8d) Free list repair on read (EnsureValidFreeList = validateFreeList + handleDanglingFree, Model.
   ensure_valid_free_list): for EVERY head link h and EVERY list of free entries with ARBITRARY links and
   generations -- any number of damaged links (to in-use or missing objects, to itself, back to an earlier
   entry, beyond /Size), in EVERY order (the order stands for Go's map iteration / anyKey choices) -- the
   result is ONE chain 0 -> c1 -> ... -> cn -> 0 (pathb: each link is the number of the next chain member),
   and the chain members plus the dead entries (generation 65535, link 0) are exactly the free entries.
   With distinct object numbers (map keys) no entry occurs twice. *)
Theorem C18_free_list_chain : forall (h : N) (frees : list ent),
  let '(h', c, d) := ensure_valid_free_list h frees in
  pathb h' c 0 = true /\ Forall (fun x => e_b x = 65535 /\ e_a x = 0) d /\
  Permutation (map e_nr (c ++ d)) (map e_nr frees).
Proof. exact ensure_valid_chain. Qed.
Print Assumptions C18_free_list_chain.

Theorem C18_free_list_chain_nodup : forall (h : N) (frees : list ent), NoDup (map e_nr frees) ->
  let '(_, c, d) := ensure_valid_free_list h frees in NoDup (map e_nr (c ++ d)).
Proof. exact ensure_valid_nodup. Qed.
Print Assumptions C18_free_list_chain_nodup.

(* (9) REFUTED at full strength: the writer copies xRefTable.Size verbatim.  A table whose highest
   numbered object is neither written nor free (what pdfcpu produces when the source's last object
   was its cross-reference stream: objects 0..10 present, Size 12) yields a file that the strict
   checker rejects at the /Size stage, although everything else about the input is well-formed. *)
Definition size_witness : input :=
  mk_input 1 7 LF
    [mk_obj 1 0 0 [60;60;62;62]; mk_obj 3 0 0 [110;117;108;108]; mk_obj 2 0 0 [91;93]]
    [mk_ent 0 4 65535 true; mk_ent 4 0 1 true] 6 [47;82;111;111;116;32;49;32;48;32;82].
Theorem C18_size_refuted : exists i : input,
  i_vmaj i < 10 /\ i_vmin i < 10 /\ forallb e_free (i_frees i) = true /\
  chain_ok (xents i) = true /\ strictly_increasing (xents i) /\
  check_stage (layout i) = 4 /\ check_file (layout i) = false.
Proof. exists size_witness. vm_compute. repeat split; congruence. Qed.
Print Assumptions C18_size_refuted.

(* (10) REFUTED at full strength: the generation printed in the xref entry is the table entry's, the one
   in the object header is the caller's; nothing in the writer makes them equal.  This is what happens
   when writeNullObject materialises a stale reference "4 0 R" to a free entry of generation 2
   (UndeleteObject leaves generation 1): the checker rejects at the entry/object stage. *)
Definition gen_witness : input :=
  mk_input 1 7 LF
    [mk_obj 1 0 0 [60;60;62;62]; mk_obj 3 0 0 [110;117;108;108]; mk_obj 4 0 1 [110;117;108;108]; mk_obj 2 0 0 [91;93]]
    [mk_ent 0 0 65535 true] 5 [47;82;111;111;116;32;49;32;48;32;82].
Theorem C18_generation_refuted : exists i : input,
  i_vmaj i < 10 /\ i_vmin i < 10 /\ forallb e_free (i_frees i) = true /\
  table_ok (i_size i) 0 (xents i) = true /\
  check_stage (layout i) = 5 /\ check_file (layout i) = false.
Proof. exists gen_witness. vm_compute. repeat split; congruence. Qed.
Print Assumptions C18_generation_refuted.

(* (11) The header written for an object must carry its xref entry's generation: for EVERY input, an entry
   that passes the strict check belongs to an object whose header generation equals the entry's. *)
Theorem C18_header_carries_entry_generation : forall i : input,
  let '(_, _, tbl) := body_of i in
  Forall2 (fun o x => entry_locates (layout i) x = true -> o_xgen o = o_gen o) (i_objs i) tbl.
Proof. exact header_carries_entry_generation. Qed.
Print Assumptions C18_header_carries_entry_generation.

(* non-vacuity: [wf] is satisfiable (all three EOL styles, several subsections, a free chain), and the
   checker rejects a file with one byte prepended (header) or inserted into the first object (startxref
   then no longer points at "xref") *)
Definition sample (e : eolk) : input :=
  mk_input 1 7 e
    [mk_obj 1 0 0 [60;60;62;62]; mk_obj 4 0 0 [1;2;3]; mk_obj 3 7 7 []; mk_obj 2 0 0 [5]; mk_obj 9 0 0 [7]]
    [mk_ent 0 6 65535 true; mk_ent 6 0 1 true] 10 [47;82;32;49].
Example C18_nonvacuous :
  table_ok 10 0 (xents (sample LF)) = true /\ table_ok 10 0 (xents (sample CR)) = true /\
  table_ok 10 0 (xents (sample CRLF)) = true /\
  map (map e_nr) (runs (xents (sample LF))) = [[0;1;2;3;4];[6];[9]] /\
  check_file (layout (sample CRLF)) = true /\
  check_file (0 :: layout (sample CRLF)) = false /\
  check_stage (firstn 30 (layout (sample LF)) ++ [32] ++ skipn 30 (layout (sample LF))) = 3.
Proof. vm_compute. repeat split; congruence. Qed.

Example C18_width_nonvacuous :
  w2_width 70001 900 = 3%nat /\ w2_width 8 900 = 2%nat /\ w2_width 8 70000 = 3%nat /\
  length (row_bytes (w2_width 70001 900) (mk_xrow 2 70000 3)) = 6%nat /\
  length (row_bytes 2 (mk_xrow 2 70000 3)) = 6%nat (* one byte more than the 5 that /W [1 2 2] declares *).
Proof. vm_compute. repeat split; congruence. Qed.

(* three damaged links (object 0 -> 3; 3, 4 and 6 point at in-use objects 5, 7, 8), two more free entries *)
Example C18_free_list_three_faults :
  ensure_valid_free_list 3 [mk_ent 3 5 1 true; mk_ent 4 7 1 true; mk_ent 6 8 1 true; mk_ent 10 11 1 true; mk_ent 11 0 1 true]
  = (11, [mk_ent 11 10 1 true; mk_ent 10 6 1 true; mk_ent 6 3 1 true; mk_ent 3 4 1 true; mk_ent 4 0 1 true], []) /\
  True.
Proof. vm_compute. split; reflexivity. Qed.

Example C18_sample_wf : forall e, wf (sample e).
Proof.
  intros e. constructor.
  - reflexivity.
  - reflexivity.
  - reflexivity.
  - reflexivity.
  - apply bounded_b; destruct e; vm_compute; reflexivity.
  - destruct e; vm_compute; reflexivity.
Qed.
