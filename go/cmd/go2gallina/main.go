// go2gallina translates a pure integer subset of Go into Gallina over Z with
// explicit wrap-around (see /verif/coq/Lib/GoInt.v).
//
// Subset: functions whose parameters and results are fixed-width integers,
// bool, or (T, error); bodies made of if/else, switch (no fallthrough),
// := / = / op= on local scalars, return; expressions with + - * / % & | ^ << >>
// comparisons && || !, unary - and !, parenthesis, integer literals, package
// constants declared in the translated files, math.Max*/Min* constants,
// conversions between integer types, and calls to other translated functions.
// Anything else is an error: the translator never guesses.
//
// Semantics assigned: every arithmetic result of a typed operand is wrapped to
// the operand type's width (int and uint have width IW, the first parameter of
// every generated function); / and % are Go's truncated quotient/remainder
// (Z.quot/Z.rem; division by zero, a panic in Go, is 0 in the model);
// && and || are strict boolean operators (all translated expressions are total
// and side-effect free, so short-circuiting is unobservable except for the
// division-by-zero panic just mentioned); untyped constant expressions are
// exact. A (T, error) result becomes `res T` (Ok v | Err): any non-nil error
// is Err.
//
// Extensions (used by C34): parameters of type []int become `list Z`
// (len(x) -> slice_len x, x[i] -> slice_at x i; an index out of range, a panic
// in Go, is 0 in the model; both helpers are emitted into the generated file);
// parameters of any other non-scalar type (e.g. *model.NUp) are dropped and
// every read through them must be listed in -rename
// ("nup.N()=nupN;nup.PageDim.Landscape()=landscape:bool"): the renamed
// expressions become extra parameters (sorted by name) appended to every
// generated function and passed through unchanged at calls; iota constant
// blocks of the translated files are understood, and pkg.Name refers to such a
// constant when pkg is listed in -pkgconst; functions with several non-error
// results return tuples (`a, b := f(..)` and `return f(..)` are supported).
package main

import (
	"flag"
	"fmt"
	"go/ast"
	"go/parser"
	"go/token"
	"os"
	"sort"
	"strconv"
	"strings"
)

type kind int

const (
	kUntyped kind = iota
	kSigned
	kUnsigned
	kBool
	kErr
	kSlice // []int
)

type typ struct {
	k kind
	w string // width expression ("IW", "64", ...)
}

var (
	tUntyped = typ{kUntyped, ""}
	tBool    = typ{kBool, ""}
	tErr     = typ{kErr, ""}
	tSlice   = typ{kSlice, "IW"}
)

// typeOfExpr understands scalar type names and []int.
func typeOfExpr(e ast.Expr) (typ, bool) {
	switch x := e.(type) {
	case *ast.Ident:
		return typeOfName(x.Name)
	case *ast.ArrayType:
		if x.Len == nil {
			if id, ok := x.Elt.(*ast.Ident); ok && id.Name == "int" {
				return tSlice, true
			}
		}
	}
	return typ{}, false
}

func typeOfName(n string) (typ, bool) {
	switch n {
	case "int":
		return typ{kSigned, "IW"}, true
	case "int64":
		return typ{kSigned, "64"}, true
	case "int32", "rune":
		return typ{kSigned, "32"}, true
	case "int16":
		return typ{kSigned, "16"}, true
	case "int8":
		return typ{kSigned, "8"}, true
	case "uint":
		return typ{kUnsigned, "IW"}, true
	case "uint64":
		return typ{kUnsigned, "64"}, true
	case "uint32":
		return typ{kUnsigned, "32"}, true
	case "uint16":
		return typ{kUnsigned, "16"}, true
	case "uint8", "byte":
		return typ{kUnsigned, "8"}, true
	case "bool":
		return tBool, true
	case "error":
		return tErr, true
	}
	return typ{}, false
}

type fnSig struct {
	name    string
	params  []string
	ptypes  []typ
	results []typ // without trailing error
	hasErr  bool
	keep    []bool // per Go parameter position: false = dropped (non-scalar, reads renamed)
}

type tr struct {
	fset   *token.FileSet
	consts map[string]ast.Expr // package-level constants
	sigs   map[string]*fnSig
	rename map[string]string // expression text -> parameter name (struct reads)
	extra  map[string]typ     // types for renamed expressions
	extraParams []string      // sorted names of the extra parameters
	pkgConst map[string]bool  // package qualifiers whose constants are looked up in consts
	usesSlice bool
}

type env struct {
	vars   map[string]typ
	errNil map[string]bool // error variables statically known nil (true) / non-nil (false)
	sig    *fnSig
}

func (e *env) clone() *env {
	n := &env{vars: map[string]typ{}, errNil: map[string]bool{}, sig: e.sig}
	for k, v := range e.vars {
		n.vars[k] = v
	}
	for k, v := range e.errNil {
		n.errNil[k] = v
	}
	return n
}

type terr struct{ msg string }

func (t *tr) fail(n ast.Node, f string, a ...any) {
	pos := ""
	if n != nil {
		pos = t.fset.Position(n.Pos()).String() + ": "
	}
	panic(terr{pos + fmt.Sprintf(f, a...)})
}

func mathConst(name string) (string, bool) {
	m := map[string]string{
		"MaxInt": "(maxS IW)", "MinInt": "(minS IW)",
		"MaxInt64": "(maxS 64)", "MinInt64": "(minS 64)",
		"MaxInt32": "(maxS 32)", "MinInt32": "(minS 32)",
		"MaxInt16": "(maxS 16)", "MinInt16": "(minS 16)",
		"MaxInt8": "(maxS 8)", "MinInt8": "(minS 8)",
		"MaxUint": "(maxU IW)", "MaxUint64": "(maxU 64)", "MaxUint32": "(maxU 32)",
		"MaxUint16": "(maxU 16)", "MaxUint8": "(maxU 8)",
	}
	s, ok := m[name]
	return s, ok
}

func ident(s string) string {
	// Gallina keywords / clashes
	switch s {
	case "in", "end", "at", "as", "fun", "fix", "let", "match", "with", "then", "else", "if", "return", "Type", "Prop", "Set", "exists", "forall", "mod", "N", "Z":
		return s + "_"
	}
	return s
}

func opName(t typ, op string) string {
	p := "s"
	if t.k == kUnsigned {
		p = "u"
	}
	return p + op + "w " + t.w
}

func unify(t *tr, n ast.Node, a, b typ) typ {
	if a.k == kUntyped {
		return b
	}
	if b.k == kUntyped {
		return a
	}
	if a != b {
		t.fail(n, "mismatched operand types %v %v", a, b)
	}
	return a
}

// expr returns the Gallina text and the Go type.
func (t *tr) expr(e ast.Expr, en *env) (string, typ) {
	if s, ok := t.rename[exprText(e)]; ok {
		ty, ok2 := t.extra[s]
		if !ok2 {
			ty = typ{kSigned, "IW"}
		}
		return ident(s), ty
	}
	switch x := e.(type) {
	case *ast.ParenExpr:
		return t.expr(x.X, en)
	case *ast.BasicLit:
		if x.Kind == token.INT || x.Kind == token.CHAR {
			var v int64
			if x.Kind == token.CHAR {
				r, _, _, err := strconv.UnquoteChar(x.Value[1:len(x.Value)-1], '\'')
				if err != nil {
					t.fail(x, "bad char literal")
				}
				v = int64(r)
			} else {
				u, err := strconv.ParseInt(x.Value, 0, 64)
				if err != nil {
					t.fail(x, "bad int literal %s", x.Value)
				}
				v = u
			}
			return fmt.Sprintf("%d", v), tUntyped
		}
		t.fail(x, "unsupported literal %s", x.Value)
	case *ast.Ident:
		if x.Name == "true" || x.Name == "false" {
			return x.Name, tBool
		}
		if ty, ok := en.vars[x.Name]; ok {
			return ident(x.Name), ty
		}
		if c, ok := t.consts[x.Name]; ok {
			return t.expr(c, &env{vars: map[string]typ{}, errNil: map[string]bool{}})
		}
		t.fail(x, "unknown identifier %s", x.Name)
	case *ast.SelectorExpr:
		if p, ok := x.X.(*ast.Ident); ok && p.Name == "math" {
			if s, ok := mathConst(x.Sel.Name); ok {
				return s, tUntyped
			}
		}
		if p, ok := x.X.(*ast.Ident); ok && t.pkgConst[p.Name] {
			if _, isVar := en.vars[p.Name]; !isVar {
				if c, ok := t.consts[x.Sel.Name]; ok {
					return t.expr(c, &env{vars: map[string]typ{}, errNil: map[string]bool{}})
				}
			}
		}
		t.fail(x, "unsupported selector %s", exprText(x))
	case *ast.UnaryExpr:
		s, ty := t.expr(x.X, en)
		switch x.Op {
		case token.SUB:
			if ty.k == kUntyped {
				return "(- " + s + ")", ty
			}
			return "(" + opName(ty, "neg") + " " + s + ")", ty
		case token.NOT:
			return "(negb " + s + ")", tBool
		case token.ADD:
			return s, ty
		}
		t.fail(x, "unsupported unary %s", x.Op)
	case *ast.BinaryExpr:
		return t.binary(x, en)
	case *ast.CallExpr:
		if id, ok := x.Fun.(*ast.Ident); ok {
			if ty, ok := typeOfName(id.Name); ok && len(x.Args) == 1 && (ty.k == kSigned || ty.k == kUnsigned) {
				s, _ := t.expr(x.Args[0], en)
				if ty.k == kSigned {
					return "(wrapS " + ty.w + " " + s + ")", ty
				}
				return "(wrapU " + ty.w + " " + s + ")", ty
			}
			if id.Name == "len" && len(x.Args) == 1 {
				s, ty := t.expr(x.Args[0], en)
				if ty.k != kSlice {
					t.fail(x, "len of a non-slice")
				}
				return "(slice_len " + s + ")", typ{kSigned, "IW"}
			}
			if sg, ok := t.sigs[id.Name]; ok {
				if sg.hasErr || len(sg.results) != 1 {
					t.fail(x, "call of %s in expression position needs a single non-error result", id.Name)
				}
				return t.call(sg, x, en), sg.results[0]
			}
		}
		t.fail(x, "unsupported call %s", exprText(x))
	case *ast.IndexExpr:
		s, ty := t.expr(x.X, en)
		if ty.k != kSlice {
			t.fail(x, "index of a non-slice")
		}
		i, it := t.expr(x.Index, en)
		if it.k != kSigned && it.k != kUntyped {
			t.fail(x, "unsupported index type")
		}
		return "(slice_at " + s + " " + i + ")", typ{kSigned, "IW"}
	}
	t.fail(e, "unsupported expression %T", e)
	return "", typ{}
}

func (t *tr) call(sg *fnSig, x *ast.CallExpr, en *env) string {
	if len(x.Args) != len(sg.keep) {
		t.fail(x, "arity mismatch calling %s", sg.name)
	}
	parts := []string{sg.name, "IW"}
	for i, a := range x.Args {
		if !sg.keep[i] {
			continue
		}
		s, _ := t.expr(a, en)
		parts = append(parts, s)
	}
	for _, e := range t.extraParams {
		parts = append(parts, ident(e))
	}
	return "(" + strings.Join(parts, " ") + ")"
}

func (t *tr) binary(x *ast.BinaryExpr, en *env) (string, typ) {
	// error comparisons against nil are decided statically
	if x.Op == token.EQL || x.Op == token.NEQ {
		if id, ok := x.X.(*ast.Ident); ok {
			if y, ok := x.Y.(*ast.Ident); ok && y.Name == "nil" {
				if isNil, ok := en.errNil[id.Name]; ok {
					v := isNil
					if x.Op == token.NEQ {
						v = !v
					}
					return strconv.FormatBool(v), tBool
				}
			}
		}
	}
	a, ta := t.expr(x.X, en)
	b, tb := t.expr(x.Y, en)
	switch x.Op {
	case token.LAND:
		return "(" + a + " && " + b + ")", tBool
	case token.LOR:
		return "(" + a + " || " + b + ")", tBool
	case token.EQL, token.NEQ, token.LSS, token.LEQ, token.GTR, token.GEQ:
		if ta.k == kBool || tb.k == kBool {
			if x.Op == token.EQL {
				return "(Bool.eqb " + a + " " + b + ")", tBool
			}
			if x.Op == token.NEQ {
				return "(negb (Bool.eqb " + a + " " + b + "))", tBool
			}
			t.fail(x, "ordering on bool")
		}
		unify(t, x, ta, tb)
		switch x.Op {
		case token.EQL:
			return "(" + a + " =? " + b + ")", tBool
		case token.NEQ:
			return "(negb (" + a + " =? " + b + "))", tBool
		case token.LSS:
			return "(" + a + " <? " + b + ")", tBool
		case token.LEQ:
			return "(" + a + " <=? " + b + ")", tBool
		case token.GTR:
			return "(" + a + " >? " + b + ")", tBool
		default:
			return "(" + a + " >=? " + b + ")", tBool
		}
	case token.SHL, token.SHR:
		// result has the type of the left operand
		ty := ta
		nm := "shl"
		if x.Op == token.SHR {
			nm = "shr"
		}
		if ty.k == kUntyped {
			f := "Z.shiftl"
			if x.Op == token.SHR {
				f = "Z.shiftr"
			}
			return "(" + f + " " + a + " " + b + ")", ty
		}
		return "(" + opName(ty, nm) + " " + a + " " + b + ")", ty
	}
	ty := unify(t, x, ta, tb)
	names := map[token.Token][2]string{
		token.ADD: {"add", "Z.add"}, token.SUB: {"sub", "Z.sub"}, token.MUL: {"mul", "Z.mul"},
		token.QUO: {"quo", "Z.quot"}, token.REM: {"rem", "Z.rem"},
		token.AND: {"and", "Z.land"}, token.OR: {"or", "Z.lor"}, token.XOR: {"xor", "Z.lxor"},
	}
	nm, ok := names[x.Op]
	if !ok {
		t.fail(x, "unsupported operator %s", x.Op)
	}
	if ty.k == kUntyped {
		return "(" + nm[1] + " " + a + " " + b + ")", ty
	}
	if ty.k == kBool {
		t.fail(x, "arithmetic on bool")
	}
	return "(" + opName(ty, nm[0]) + " " + a + " " + b + ")", ty
}

func exprText(e ast.Expr) string {
	switch x := e.(type) {
	case *ast.Ident:
		return x.Name
	case *ast.SelectorExpr:
		return exprText(x.X) + "." + x.Sel.Name
	case *ast.CallExpr:
		args := []string{}
		for _, a := range x.Args {
			args = append(args, exprText(a))
		}
		return exprText(x.Fun) + "(" + strings.Join(args, ",") + ")"
	case *ast.ParenExpr:
		return "(" + exprText(x.X) + ")"
	case *ast.BasicLit:
		return x.Value
	case *ast.StarExpr:
		return "*" + exprText(x.X)
	case *ast.IndexExpr:
		return exprText(x.X) + "[" + exprText(x.Index) + "]"
	}
	return fmt.Sprintf("<%T>", e)
}

// coerce an untyped expression to a typed context (no wrap needed: Go rejects
// constants that do not fit at compile time).
func (t *tr) retValue(e ast.Expr, want typ, en *env) string {
	s, _ := t.expr(e, en)
	return s
}

func (t *tr) ret(r *ast.ReturnStmt, en *env) string {
	sg := en.sig
	n := len(sg.results)
	if sg.hasErr {
		if len(r.Results) == 1 {
			// return f(...)
			if c, ok := r.Results[0].(*ast.CallExpr); ok {
				if id, ok := c.Fun.(*ast.Ident); ok {
					if g, ok := t.sigs[id.Name]; ok && g.hasErr && len(g.results) == n {
						return t.call(g, c, en)
					}
				}
			}
			if n == 0 {
				return t.errResult(r.Results[0], "tt", en)
			}
			t.fail(r, "unsupported return form")
		}
		if len(r.Results) != n+1 {
			t.fail(r, "return arity")
		}
		vals := []string{}
		for i := 0; i < n; i++ {
			vals = append(vals, t.retValue(r.Results[i], sg.results[i], en))
		}
		v := strings.Join(vals, ", ")
		if n > 1 {
			v = "(" + v + ")"
		}
		return t.errResult(r.Results[n], v, en)
	}
	if len(r.Results) == 1 && n > 1 {
		if c, ok := r.Results[0].(*ast.CallExpr); ok {
			if id, ok := c.Fun.(*ast.Ident); ok {
				if g, ok := t.sigs[id.Name]; ok && !g.hasErr && len(g.results) == n {
					for i := range g.results {
						if g.results[i] != sg.results[i] {
							t.fail(r, "result type mismatch returning %s", id.Name)
						}
					}
					return t.call(g, c, en)
				}
			}
		}
		t.fail(r, "unsupported return form")
	}
	if len(r.Results) != n {
		t.fail(r, "return arity")
	}
	vals := []string{}
	for i := 0; i < n; i++ {
		vals = append(vals, t.retValue(r.Results[i], sg.results[i], en))
	}
	if n == 1 {
		return vals[0]
	}
	return "(" + strings.Join(vals, ", ") + ")"
}

func (t *tr) errResult(e ast.Expr, val string, en *env) string {
	if id, ok := e.(*ast.Ident); ok {
		if id.Name == "nil" {
			return "(Ok " + val + ")"
		}
		if isNil, ok := en.errNil[id.Name]; ok {
			if isNil {
				return "(Ok " + val + ")"
			}
			return "Err"
		}
		// package-level error value: non-nil
		return "Err"
	}
	// errors.New(...), fmt.Errorf(...), errors.Wrap...: non-nil
	if _, ok := e.(*ast.CallExpr); ok {
		return "Err"
	}
	t.fail(e, "unsupported error result")
	return ""
}

// stmts translates a statement list in tail position.
func (t *tr) stmts(list []ast.Stmt, en *env) string {
	if len(list) == 0 {
		t.fail(nil, "function %s: control reaches end without return", en.sig.name)
	}
	s, rest := list[0], list[1:]
	switch x := s.(type) {
	case *ast.ReturnStmt:
		return t.ret(x, en)
	case *ast.BlockStmt:
		return t.stmts(append(append([]ast.Stmt{}, x.List...), rest...), en)
	case *ast.IfStmt:
		e2 := en
		pre := ""
		if x.Init != nil {
			// only `x, err := f(...)` / `x := e` inits: hoist
			return t.stmts(append([]ast.Stmt{x.Init, &ast.IfStmt{If: x.If, Cond: x.Cond, Body: x.Body, Else: x.Else}}, rest...), en)
		}
		c, ct := t.expr(x.Cond, e2)
		if ct.k != kBool {
			t.fail(x, "non-bool condition")
		}
		thenB := t.stmts(append(append([]ast.Stmt{}, x.Body.List...), rest...), en.clone())
		var elseB string
		if x.Else != nil {
			elseB = t.stmts(append([]ast.Stmt{x.Else}, rest...), en.clone())
		} else {
			elseB = t.stmts(rest, en.clone())
		}
		if c == "true" {
			return pre + thenB
		}
		if c == "false" {
			return pre + elseB
		}
		return pre + "(if " + c + " then " + thenB + " else " + elseB + ")"
	case *ast.SwitchStmt:
		if x.Init != nil {
			t.fail(x, "switch init unsupported")
		}
		var tag string
		var tagT typ
		if x.Tag != nil {
			tag, tagT = t.expr(x.Tag, en)
		}
		var def []ast.Stmt
		hasDef := false
		type cs struct {
			cond string
			body []ast.Stmt
		}
		var cases []cs
		for _, c := range x.Body.List {
			cc := c.(*ast.CaseClause)
			for _, b := range cc.Body {
				if br, ok := b.(*ast.BranchStmt); ok && br.Tok == token.FALLTHROUGH {
					t.fail(br, "fallthrough unsupported")
				}
			}
			if cc.List == nil {
				def, hasDef = cc.Body, true
				continue
			}
			conds := []string{}
			for _, ce := range cc.List {
				v, vt := t.expr(ce, en)
				if x.Tag != nil {
					unify(t, ce, tagT, vt)
					conds = append(conds, "("+tag+" =? "+v+")")
				} else {
					conds = append(conds, v)
				}
			}
			cases = append(cases, cs{strings.Join(conds, " || "), cc.Body})
		}
		var tail string
		if hasDef {
			tail = t.stmts(append(append([]ast.Stmt{}, def...), rest...), en.clone())
		} else {
			tail = t.stmts(rest, en.clone())
		}
		for i := len(cases) - 1; i >= 0; i-- {
			b := t.stmts(append(append([]ast.Stmt{}, cases[i].body...), rest...), en.clone())
			tail = "(if " + cases[i].cond + " then " + b + " else " + tail + ")"
		}
		return tail
	case *ast.DeclStmt:
		gd, ok := x.Decl.(*ast.GenDecl)
		if !ok || gd.Tok != token.VAR {
			t.fail(x, "unsupported declaration")
		}
		out := ""
		closeP := ""
		for _, sp := range gd.Specs {
			vs := sp.(*ast.ValueSpec)
			for i, nm := range vs.Names {
				var ty typ
				val := "0"
				if vs.Type != nil {
					id, ok := vs.Type.(*ast.Ident)
					if !ok {
						t.fail(vs, "unsupported var type")
					}
					ty, ok = typeOfName(id.Name)
					if !ok {
						t.fail(vs, "unsupported var type %s", id.Name)
					}
					if ty.k == kBool {
						val = "false"
					}
				}
				if len(vs.Values) > i {
					v, vt := t.expr(vs.Values[i], en)
					val = v
					if vs.Type == nil {
						ty = vt
						if ty.k == kUntyped {
							ty = typ{kSigned, "IW"}
						}
					}
				}
				en.vars[nm.Name] = ty
				out += "(let " + ident(nm.Name) + " := " + val + " in "
				closeP += ")"
			}
		}
		return out + t.stmts(rest, en) + closeP
	case *ast.AssignStmt:
		return t.assign(x, rest, en)
	case *ast.IncDecStmt:
		id, ok := x.X.(*ast.Ident)
		if !ok {
			t.fail(x, "unsupported inc/dec target")
		}
		ty := en.vars[id.Name]
		op := "add"
		if x.Tok == token.DEC {
			op = "sub"
		}
		return "(let " + ident(id.Name) + " := (" + opName(ty, op) + " " + ident(id.Name) + " 1) in " + t.stmts(rest, en) + ")"
	}
	t.fail(s, "unsupported statement %T", s)
	return ""
}

func (t *tr) assign(x *ast.AssignStmt, rest []ast.Stmt, en *env) string {
	// x, err := f(...)
	if len(x.Rhs) == 1 && len(x.Lhs) >= 1 {
		if c, ok := x.Rhs[0].(*ast.CallExpr); ok {
			if id, ok := c.Fun.(*ast.Ident); ok {
				if g, ok := t.sigs[id.Name]; ok && g.hasErr {
					if len(x.Lhs) != len(g.results)+1 {
						t.fail(x, "assignment arity")
					}
					names := []string{}
					okEnv := en.clone()
					errEnv := en.clone()
					for i, l := range x.Lhs {
						lid, ok := l.(*ast.Ident)
						if !ok {
							t.fail(x, "unsupported assignment target")
						}
						if i < len(g.results) {
							n := lid.Name
							if n == "_" {
								n = "_"
							}
							names = append(names, ident(n))
							if n != "_" {
								okEnv.vars[n] = g.results[i]
								errEnv.vars[n] = g.results[i]
							}
						} else if lid.Name != "_" {
							okEnv.errNil[lid.Name] = true
							errEnv.errNil[lid.Name] = false
						}
					}
					pat := strings.Join(names, ", ")
					if len(names) > 1 {
						pat = "(" + pat + ")"
					}
					if len(names) == 0 {
						pat = "_"
					}
					// in the error branch Go leaves zero values in the result variables
					zero := ""
					zc := ""
					for i, n := range names {
						if n == "_" {
							continue
						}
						z := "0"
						if g.results[i].k == kBool {
							z = "false"
						}
						zero += "(let " + n + " := " + z + " in "
						zc += ")"
					}
					return "(match " + t.call(g, c, en) + " with Ok " + pat + " => " + t.stmts(rest, okEnv) +
						" | Err => " + zero + t.stmts(rest, errEnv) + zc + " end)"
				}
			}
		}
	}
	if len(x.Rhs) == 1 && len(x.Lhs) > 1 {
		if c, ok := x.Rhs[0].(*ast.CallExpr); ok {
			if id, ok := c.Fun.(*ast.Ident); ok {
				if g, ok := t.sigs[id.Name]; ok && !g.hasErr {
					if len(x.Lhs) != len(g.results) {
						t.fail(x, "assignment arity")
					}
					callS := t.call(g, c, en)
					names := []string{}
					for i, l := range x.Lhs {
						lid, ok := l.(*ast.Ident)
						if !ok {
							t.fail(x, "unsupported assignment target")
						}
						if lid.Name == "_" {
							names = append(names, "_")
							continue
						}
						if x.Tok == token.DEFINE {
							en.vars[lid.Name] = g.results[i]
						} else if old, ok := en.vars[lid.Name]; !ok || old != g.results[i] {
							t.fail(x, "assignment to unknown or differently typed variable %s", lid.Name)
						}
						names = append(names, ident(lid.Name))
					}
					return "(let '(" + strings.Join(names, ", ") + ") := " + callS + " in " + t.stmts(rest, en) + ")"
				}
			}
		}
	}
	if len(x.Lhs) != len(x.Rhs) {
		t.fail(x, "unsupported assignment shape")
	}
	out, closeP := "", ""
	// evaluate all RHS first (parallel assignment) when more than one
	if len(x.Lhs) > 1 {
		tmp := []string{}
		tys := []typ{}
		for i, r := range x.Rhs {
			v, vt := t.expr(r, en)
			n := fmt.Sprintf("tmp%d_", i)
			out += "(let " + n + " := " + v + " in "
			closeP += ")"
			tmp = append(tmp, n)
			tys = append(tys, vt)
		}
		for i, l := range x.Lhs {
			lid, ok := l.(*ast.Ident)
			if !ok {
				t.fail(x, "unsupported assignment target")
			}
			if lid.Name == "_" {
				continue
			}
			if x.Tok == token.DEFINE {
				ty := tys[i]
				if ty.k == kUntyped {
					ty = typ{kSigned, "IW"}
				}
				en.vars[lid.Name] = ty
			}
			out += "(let " + ident(lid.Name) + " := " + tmp[i] + " in "
			closeP += ")"
		}
		return out + t.stmts(rest, en) + closeP
	}
	lid, ok := x.Lhs[0].(*ast.Ident)
	if !ok {
		t.fail(x, "unsupported assignment target")
	}
	v, vt := t.expr(x.Rhs[0], en)
	switch x.Tok {
	case token.DEFINE:
		if vt.k == kUntyped {
			vt = typ{kSigned, "IW"}
		}
		en.vars[lid.Name] = vt
	case token.ASSIGN:
		if _, ok := en.vars[lid.Name]; !ok {
			t.fail(x, "assignment to unknown variable %s", lid.Name)
		}
	default:
		ty, ok := en.vars[lid.Name]
		if !ok {
			t.fail(x, "assignment to unknown variable %s", lid.Name)
		}
		ops := map[token.Token]string{token.ADD_ASSIGN: "add", token.SUB_ASSIGN: "sub", token.MUL_ASSIGN: "mul",
			token.QUO_ASSIGN: "quo", token.REM_ASSIGN: "rem", token.AND_ASSIGN: "and", token.OR_ASSIGN: "or",
			token.XOR_ASSIGN: "xor", token.SHL_ASSIGN: "shl", token.SHR_ASSIGN: "shr"}
		op, ok := ops[x.Tok]
		if !ok {
			t.fail(x, "unsupported assignment operator")
		}
		v = "(" + opName(ty, op) + " " + ident(lid.Name) + " " + v + ")"
	}
	if lid.Name == "_" {
		return t.stmts(rest, en)
	}
	return "(let " + ident(lid.Name) + " := " + v + " in " + t.stmts(rest, en) + ")"
}

func (t *tr) signature(fd *ast.FuncDecl, paramSubst map[string]typ) *fnSig {
	sg := &fnSig{name: fd.Name.Name}
	for _, f := range fd.Type.Params.List {
		ty, ok := typeOfExpr(f.Type)
		if ok && (ty.k == kErr) {
			ok = false
		}
		cnt := len(f.Names)
		if cnt == 0 {
			cnt = 1
		}
		if !ok {
			// non-scalar parameter: allowed only if every use is renamed; it is dropped
			for i := 0; i < cnt; i++ {
				sg.keep = append(sg.keep, false)
			}
			continue
		}
		if ty.k == kSlice {
			t.usesSlice = true
		}
		for i := 0; i < cnt; i++ {
			nm := fmt.Sprintf("unused%d_", len(sg.keep))
			if i < len(f.Names) && f.Names[i].Name != "_" {
				nm = f.Names[i].Name
			}
			sg.params = append(sg.params, nm)
			sg.ptypes = append(sg.ptypes, ty)
			sg.keep = append(sg.keep, true)
		}
	}
	if fd.Type.Results != nil {
		for _, f := range fd.Type.Results.List {
			id, ok := f.Type.(*ast.Ident)
			if !ok {
				t.fail(fd, "unsupported result type in %s", fd.Name.Name)
			}
			ty, ok := typeOfName(id.Name)
			if !ok {
				t.fail(fd, "unsupported result type %s in %s", id.Name, fd.Name.Name)
			}
			cnt := len(f.Names)
			if cnt == 0 {
				cnt = 1
			}
			for i := 0; i < cnt; i++ {
				if ty.k == kErr {
					sg.hasErr = true
				} else {
					sg.results = append(sg.results, ty)
				}
			}
		}
	}
	return sg
}

func coqType(ts []typ, hasErr bool) string {
	one := func(t typ) string {
		if t.k == kBool {
			return "bool"
		}
		return "Z"
	}
	s := ""
	switch len(ts) {
	case 0:
		s = "unit"
	case 1:
		s = one(ts[0])
	default:
		ps := []string{}
		for _, x := range ts {
			ps = append(ps, one(x))
		}
		s = "(" + strings.Join(ps, " * ") + ")"
	}
	if hasErr {
		return "res " + s
	}
	return s
}

func main() {
	src := flag.String("src", "", "comma-separated Go source files")
	funcs := flag.String("funcs", "", "comma-separated function names (methods as Recv.Name), in dependency order")
	out := flag.String("out", "", "output .v file")
	renames := flag.String("rename", "", "semicolon-separated exprtext=param[:type] substitutions for struct reads, appended as extra parameters")
	pkgconst := flag.String("pkgconst", "", "comma-separated package qualifiers whose constants (pkg.Name) are looked up among the constants of the translated files")
	flag.Parse()
	t := &tr{fset: token.NewFileSet(), consts: map[string]ast.Expr{}, sigs: map[string]*fnSig{}, rename: map[string]string{}, extra: map[string]typ{}, pkgConst: map[string]bool{}}
	if *pkgconst != "" {
		for _, p := range strings.Split(*pkgconst, ",") {
			t.pkgConst[p] = true
		}
	}
	var extraParams []string
	if *renames != "" {
		for _, r := range strings.Split(*renames, ";") {
			kv := strings.SplitN(r, "=", 2)
			nm := kv[1]
			ty := typ{kSigned, "IW"}
			if i := strings.Index(nm, ":"); i >= 0 {
				tt, ok := typeOfName(nm[i+1:])
				if !ok {
					fmt.Fprintln(os.Stderr, "bad rename type", nm)
					os.Exit(2)
				}
				ty = tt
				nm = nm[:i]
			}
			t.rename[kv[0]] = nm
			t.extra[nm] = ty
			extraParams = append(extraParams, nm)
		}
	}
	decls := map[string]*ast.FuncDecl{}
	var files []string
	for _, f := range strings.Split(*src, ",") {
		files = append(files, f)
		af, err := parser.ParseFile(t.fset, f, nil, 0)
		if err != nil {
			fmt.Fprintln(os.Stderr, "go2gallina:", err)
			os.Exit(2)
		}
		for _, d := range af.Decls {
			switch x := d.(type) {
			case *ast.FuncDecl:
				name := x.Name.Name
				if x.Recv != nil && len(x.Recv.List) == 1 {
					rt := x.Recv.List[0].Type
					if st, ok := rt.(*ast.StarExpr); ok {
						rt = st.X
					}
					if id, ok := rt.(*ast.Ident); ok {
						name = id.Name + "." + name
					}
				}
				decls[name] = x
			case *ast.GenDecl:
				if x.Tok == token.CONST {
					var last ast.Expr
					lastIota := false
					for idx, sp := range x.Specs {
						vs := sp.(*ast.ValueSpec)
						for i, n := range vs.Names {
							isIota := func(e ast.Expr) bool {
								id, ok := e.(*ast.Ident)
								return ok && id.Name == "iota"
							}
							if len(vs.Values) > i && isIota(vs.Values[i]) && len(vs.Names) == 1 {
								last = vs.Values[i]
								lastIota = true
								t.consts[n.Name] = &ast.BasicLit{ValuePos: n.Pos(), Kind: token.INT, Value: strconv.Itoa(idx)}
							} else if len(vs.Values) == 0 && lastIota && len(vs.Names) == 1 {
								t.consts[n.Name] = &ast.BasicLit{ValuePos: n.Pos(), Kind: token.INT, Value: strconv.Itoa(idx)}
							} else if len(vs.Values) > i {
								lastIota = false
								last = vs.Values[i]
								t.consts[n.Name] = vs.Values[i]
							} else if last != nil {
								// implicit repetition (iota patterns) is not supported
								delete(t.consts, n.Name)
							}
						}
					}
				}
			}
		}
	}
	var b strings.Builder
	status := 0
	names := strings.Split(*funcs, ",")
	// signatures first so calls resolve regardless of order
	for _, fn := range names {
		fd, ok := decls[fn]
		if !ok {
			fmt.Fprintf(os.Stderr, "go2gallina: function %s not found\n", fn)
			os.Exit(3)
		}
		func() {
			defer func() {
				if r := recover(); r != nil {
					if te, ok := r.(terr); ok {
						fmt.Fprintln(os.Stderr, "go2gallina:", te.msg)
						status = 3
						return
					}
					panic(r)
				}
			}()
			sg := t.signature(fd, nil)
			sg.name = strings.ReplaceAll(fn, ".", "_")
			t.sigs[fd.Name.Name] = sg
		}()
	}
	if status != 0 {
		os.Exit(status)
	}
	sort.Strings(extraParams)
	t.extraParams = extraParams
	fmt.Fprintf(&b, "(* GENERATED by go2gallina from %s -- do not edit; regenerated on every check run *)\n", strings.Join(files, ", "))
	b.WriteString("From PV Require Import Lib.GoInt.\nOpen Scope Z_scope.\nOpen Scope bool_scope.\n\n")
	if t.usesSlice {
		b.WriteString("(* []int: an index out of range (a Go panic) is 0 in the model *)\n")
		b.WriteString("Definition slice_len (l : list Z) : Z := Z.of_nat (length l).\n")
		b.WriteString("Definition slice_at (l : list Z) (i : Z) : Z := if (i <? 0) then 0 else nth (Z.to_nat i) l 0.\n\n")
	}
	for _, fn := range names {
		fd := decls[fn]
		sg := t.sigs[fd.Name.Name]
		func() {
			defer func() {
				if r := recover(); r != nil {
					if te, ok := r.(terr); ok {
						fmt.Fprintln(os.Stderr, "go2gallina:", te.msg)
						status = 3
						return
					}
					panic(r)
				}
			}()
			en := &env{vars: map[string]typ{}, errNil: map[string]bool{}, sig: sg}
			ps := []string{"(IW : Z)"}
			for i, p := range sg.params {
				en.vars[p] = sg.ptypes[i]
				ct := "Z"
				if sg.ptypes[i].k == kBool {
					ct = "bool"
				}
				if sg.ptypes[i].k == kSlice {
					ct = "list Z"
				}
				ps = append(ps, "("+ident(p)+" : "+ct+")")
			}
			for _, e := range t.extraParams {
				ct := "Z"
				if t.extra[e].k == kBool {
					ct = "bool"
				}
				if _, clash := en.vars[e]; clash {
					t.fail(fd, "extra parameter %s clashes with a parameter of %s", e, sg.name)
				}
				ps = append(ps, "("+ident(e)+" : "+ct+")")
			}
			body := t.stmts(fd.Body.List, en)
			fmt.Fprintf(&b, "Definition %s %s : %s :=\n  %s.\n\n", sg.name, strings.Join(ps, " "), coqType(sg.results, sg.hasErr), body)
		}()
	}
	if status != 0 {
		os.Exit(status)
	}
	if *out == "" {
		fmt.Print(b.String())
		return
	}
	old, err := os.ReadFile(*out)
	if err == nil && string(old) == b.String() {
		return
	}
	if err := os.WriteFile(*out, []byte(b.String()), 0o644); err != nil {
		fmt.Fprintln(os.Stderr, err)
		os.Exit(2)
	}
}
