From Coq Require Import Extraction ExtrOcamlBasic.
From PV Require Import Lib.ExtBase C41.Model.
Extraction "model.ml" ext_base_z ext_base_n ext_base_nat ext_base_res ext_base_list
  k_stream k_sink exit_status k_multi k_seldec k_stdincopy.
