(* Shared driver code, compiled after each property's extracted model.ml.
   Protocol: one request per line, fields separated by TAB:  id fn arg...
   Reply: id TAB result.  Integers are hexadecimal with an optional leading '-';
   byte strings are hex pairs; lists of integers are comma separated. *)
open Model

let hexval c = match c with
  | '0'..'9' -> Char.code c - 48
  | 'a'..'f' -> Char.code c - 87
  | 'A'..'F' -> Char.code c - 55
  | _ -> failwith "bad hex digit"

(* positive option from hex digits *)
let pos_of_hex (s : string) : positive option =
  let acc = ref None in
  String.iter (fun c ->
    let v = hexval c in
    for i = 3 downto 0 do
      let bit = (v lsr i) land 1 = 1 in
      acc := (match !acc with
        | None -> if bit then Some XH else None
        | Some p -> Some (if bit then XI p else XO p))
    done) s;
  !acc

let z_of_hex (s : string) : z =
  let neg, body = if String.length s > 0 && s.[0] = '-' then true, String.sub s 1 (String.length s - 1) else false, s in
  match pos_of_hex body with
  | None -> Z0
  | Some p -> if neg then Zneg p else Zpos p

let n_of_hex (s : string) : n =
  match pos_of_hex s with None -> N0 | Some p -> Npos p

let hex_of_pos (p : positive) : string =
  (* bits LSB first *)
  let rec bits p acc = match p with
    | XH -> true :: acc
    | XO q -> bits q (false :: acc)
    | XI q -> bits q (true :: acc) in
  (* bits returns MSB first because we cons while descending towards MSB *)
  let msb_first = bits p [] in
  let l = List.length msb_first in
  let pad = (4 - l mod 4) mod 4 in
  let all = (List.init pad (fun _ -> false)) @ msb_first in
  let buf = Buffer.create 16 in
  let rec go = function
    | a :: b :: c :: d :: rest ->
      let v = (if a then 8 else 0) + (if b then 4 else 0) + (if c then 2 else 0) + (if d then 1 else 0) in
      Buffer.add_char buf "0123456789abcdef".[v]; go rest
    | [] -> ()
    | _ -> failwith "hex_of_pos" in
  go all; Buffer.contents buf

let hex_of_z (x : z) : string = match x with
  | Z0 -> "0" | Zpos p -> hex_of_pos p | Zneg p -> "-" ^ hex_of_pos p
let hex_of_n (x : n) : string = match x with N0 -> "0" | Npos p -> hex_of_pos p

let rec nat_of_int (i : int) : nat = if i <= 0 then O else S (nat_of_int (i - 1))
let nat_of_int i = (* tail recursive *)
  let rec go i acc = if i <= 0 then acc else go (i - 1) (S acc) in go i O
let int_of_nat (n : nat) : int =
  let rec go n acc = match n with O -> acc | S m -> go m (acc + 1) in go n 0

let n_of_int (i : int) : n = n_of_hex (Printf.sprintf "%x" i)
let z_of_int (i : int) : z = if i < 0 then z_of_hex (Printf.sprintf "-%x" (-i)) else z_of_hex (Printf.sprintf "%x" i)
let rec int_of_pos (p : positive) : int = match p with XH -> 1 | XO q -> 2 * int_of_pos q | XI q -> 2 * int_of_pos q + 1
let int_of_n (x : n) : int = match x with N0 -> 0 | Npos p -> int_of_pos p
let int_of_z (x : z) : int = match x with Z0 -> 0 | Zpos p -> int_of_pos p | Zneg p -> - (int_of_pos p)

let bytes_of_hex (s : string) : n list =
  let l = String.length s / 2 in
  List.init l (fun i -> n_of_int (hexval s.[2*i] * 16 + hexval s.[2*i+1]))
let hex_of_bytes (l : n list) : string =
  let buf = Buffer.create 64 in
  List.iter (fun b -> Buffer.add_string buf (Printf.sprintf "%02x" (int_of_n b land 0xffffff))) l;
  Buffer.contents buf

let zlist_of_string (s : string) : z list =
  if s = "" then [] else List.map z_of_hex (String.split_on_char ',' s)
let string_of_zlist (l : z list) : string = String.concat "," (List.map hex_of_z l)
let nlist_of_string (s : string) : n list =
  if s = "" then [] else List.map n_of_hex (String.split_on_char ',' s)
let string_of_nlist (l : n list) : string = String.concat "," (List.map hex_of_n l)

let bool_of_str s = (s = "1" || s = "true")
let str_of_bool b = if b then "true" else "false"

let res_z (r : z res) : string = match r with Ok v -> "ok:" ^ hex_of_z v | Err -> "err"

let main (dispatch : string -> string list -> string) : unit =
  try
    while true do
      let line = input_line stdin in
      match String.split_on_char '\t' line with
      | id :: fn :: args ->
        let r = (try dispatch fn args with
                 | Stack_overflow -> "EXN:stack_overflow"
                 | e -> "EXN:" ^ Printexc.to_string e) in
        print_string id; print_char '\t'; print_string r; print_char '\n'
      | _ -> ()
    done
  with End_of_file -> ()
