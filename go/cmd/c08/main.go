// Harness for C08 (malformed input never crashes, overflows the stack or hangs).
//
// K  — the modelled guards against the real code: CheckRecursionDepth on a grid, XRefTable.PageNumber
//      (processPageTreeForPageNumberDepth + PageTreeVisit) on random object graphs with cycles,
//      duplicates, dangling/ill-typed kids and deep chains, ParseObjectContext on nested/garbled text.
// O  — the search: corpus reproducers, generated adversarial documents (page tree / outline / name tree
//      / form / action / bead / structure tree cycles, /Prev chain loops, xref stream and object stream
//      corruption, nesting to depth 10^5) and a structure-aware mutation stream over seeds, each input
//      run through read / validate strict+relaxed / optimize / info / extract / ... in CHILD processes
//      (re-exec of this binary) with a per-entry-point time bound, a stack cap and an address-space cap.
//      Any panic, fatal error or timeout is an oracle failure `panic:<func>` / `fatal:<...>` / `timeout:<op>`.
package main

import (
	"context"
	"crypto/sha1"
	"encoding/hex"
	"errors"
	"fmt"
	"io"
	"os"
	"path/filepath"
	"sort"
	"strconv"
	"strings"
	"time"

	"github.com/pdfcpu/pdfcpu/pkg/api"
	"github.com/pdfcpu/pdfcpu/pkg/pdfcpu/model"
	"github.com/pdfcpu/pdfcpu/pkg/pdfcpu/types"
	"verif/vh"
)

func main() {
	if len(os.Args) > 1 && os.Args[1] == "child" {
		childMain()
		return
	}
	api.DisableConfigDir()
	r := vh.Start("C08")
	defer r.Finish()

	tk := time.Now()
	kDepth(r)
	kPageNumber(r)
	fmt.Fprintf(os.Stderr, "K depth+pagenumber %v\n", time.Since(tk))
	kParse(r)
	fmt.Fprintf(os.Stderr, "K parse %v\n", time.Since(tk))
	kIndexed(r)
	kBER(r)
	kMarker(r)
	kFlateParams(r)
	kCMap4(r)
	fmt.Fprintf(os.Stderr, "K all %v\n", time.Since(tk))
	search(r)
}

// ------------------------------------------------------------------ K: CheckRecursionDepth

func kDepth(r *vh.Run) {
	maxs := []int{-5, -1, 0, 1, 2, 3, 50, 99, 100, 101, 1000, 1 << 40}
	for _, m := range maxs {
		eff := m
		if eff <= 0 {
			eff = 100
		}
		for _, d := range []int{-1, 0, 1, 2, eff - 1, eff, eff + 1, eff + 2, 100, 101, 1 << 41} {
			err := model.CheckRecursionDepth("x", d, m)
			r.Case("depth_exceeded", []string{vh.Int(int64(m)), vh.Int(int64(d))}, vh.Bool(err != nil))
			if err != nil && !errors.Is(err, model.ErrMaxRecursionDepthExceeded) {
				r.OracleFail("depth-error-not-wrapped", map[string]any{"max": m, "depth": d}, err.Error())
			} else {
				r.OracleOK()
			}
		}
	}
}

// ------------------------------------------------------------------ K: PageNumber on random graphs

type gnode struct {
	notDict bool
	free    bool   // xref entry present but free (dereferences to nil like an absent one)
	typ     string // P p o n
	kids    []string
}

func kPageNumber(r *vh.Run) {
	n := r.Pick(3000, 40000)
	for i := 0; i < n; i++ {
		size := 1 + r.Rand.Intn(9)
		if r.Rand.Intn(10) == 0 {
			size = 10 + r.Rand.Intn(30)
		}
		lo := 1
		if r.Rand.Intn(12) == 0 {
			lo = 0 // object 0 in use: PageTreeVisit does not track it
		}
		g := map[int]*gnode{}
		nums := []int{}
		for k := 0; k < size; k++ {
			nums = append(nums, lo+k)
		}
		shape := r.Rand.Intn(5)
		for idx, nr := range nums {
			nd := &gnode{}
			switch x := r.Rand.Intn(40); {
			case x == 0:
				nd.notDict = true
			case x == 1:
				nd.typ = "o"
			case x == 2:
				nd.typ = "n"
			case x < 22 || idx == 0:
				nd.typ = "P"
			default:
				nd.typ = "p"
			}
			nk := r.Rand.Intn(4)
			if nd.typ != "P" && r.Rand.Intn(4) != 0 {
				nk = 0
			}
			for k := 0; k < nk; k++ {
				switch x := r.Rand.Intn(30); {
				case x == 0:
					nd.kids = append(nd.kids, "n")
				case x == 1:
					nd.kids = append(nd.kids, "b")
				case x == 2:
					nd.kids = append(nd.kids, "r"+strconv.FormatInt(int64(lo+size+r.Rand.Intn(2)), 16)) // dangling
				default:
					var t int
					switch shape {
					case 0, 1: // forward edges only: trees and DAGs (duplicates)
						if idx+1 >= len(nums) {
							continue
						}
						t = nums[idx+1+r.Rand.Intn(len(nums)-idx-1)]
					case 2: // chain
						if idx+1 >= len(nums) {
							continue
						}
						t = nums[idx+1]
					default: // anything: cycles
						t = nums[r.Rand.Intn(len(nums))]
					}
					nd.kids = append(nd.kids, "r"+strconv.FormatInt(int64(t), 16))
				}
			}
			if shape == 2 && idx+1 < len(nums) && len(nd.kids) == 0 {
				nd.kids = []string{"r" + strconv.FormatInt(int64(nums[idx+1]), 16)}
			}
			g[nr] = nd
		}
		if r.Rand.Intn(15) == 0 {
			g[nums[r.Rand.Intn(len(nums))]].free = true
		}
		maxd := []int{0, 1, 2, 3, 4, 6, 100, -1}[r.Rand.Intn(8)]
		root := nums[0]
		if r.Rand.Intn(10) == 0 {
			root = nums[r.Rand.Intn(len(nums))]
		}
		target := -1
		if r.Rand.Intn(3) == 0 {
			target = nums[r.Rand.Intn(len(nums))]
		}
		// wire + real table
		x := &model.XRefTable{Table: map[int]*model.XRefTableEntry{}}
		conf := model.NewDefaultConfiguration()
		conf.Limits.MaxRecursionDepth = maxd
		x.Conf = conf
		var ents []string
		for _, nr := range nums {
			nd := g[nr]
			if nd.free {
				e := model.NewXRefTableEntryGen0(types.Dict{"Type": types.Name("Pages")})
				e.Free = true
				x.Table[nr] = e
				continue // absent from the model's table
			}
			if nd.notDict {
				x.Table[nr] = model.NewXRefTableEntryGen0(types.Array{types.Integer(1)})
				ents = append(ents, strconv.FormatInt(int64(nr), 16)+":X")
				continue
			}
			d := types.Dict{}
			switch nd.typ {
			case "P":
				d["Type"] = types.Name("Pages")
			case "p":
				d["Type"] = types.Name("Page")
			case "o":
				d["Type"] = types.Name("Font")
			}
			if len(nd.kids) > 0 {
				a := types.Array{}
				for _, k := range nd.kids {
					switch k[0] {
					case 'n':
						a = append(a, nil)
					case 'b':
						a = append(a, types.Integer(5))
					default:
						v, _ := strconv.ParseInt(k[1:], 16, 64)
						a = append(a, *types.NewIndirectRef(int(v), 0))
					}
				}
				d["Kids"] = a
			}
			x.Table[nr] = model.NewXRefTableEntryGen0(d)
			ents = append(ents, strconv.FormatInt(int64(nr), 16)+":"+nd.typ+":"+strings.Join(nd.kids, ","))
		}
		x.RootDict = types.Dict{"Pages": *types.NewIndirectRef(root, 0)}
		impl, pan := pageNumberImpl(x, target)
		if pan != "" {
			r.OracleFail("panic:PageNumber", map[string]any{"graph": strings.Join(ents, ";"), "root": root, "target": target, "max": maxd}, pan)
		} else {
			r.OracleOK()
		}
		r.Case("page_number", []string{strings.Join(ents, ";"), vh.Int(int64(maxd)), vh.Int(int64(target)), vh.Int(int64(root))}, impl)
		r.Count("pagenumber:" + strings.SplitN(impl, ":", 2)[0] + classTail(impl))
	}
}

func classTail(s string) string {
	if strings.HasPrefix(s, "err:") {
		return ":" + s[4:]
	}
	return ""
}

func pageNumberImpl(x *model.XRefTable, target int) (res string, pan string) {
	defer func() {
		if e := recover(); e != nil {
			res, pan = "panic", fmt.Sprint(e)
		}
	}()
	nr, err := x.PageNumber(target)
	switch {
	case err == nil && nr > 0:
		return "found:" + vh.Int(int64(nr)), ""
	case err == nil:
		return "none", ""
	case errors.Is(err, model.ErrPageTreeCycle):
		return "err:cycle", ""
	case errors.Is(err, model.ErrPageTreeDuplicate):
		return "err:dup", ""
	case errors.Is(err, model.ErrMaxRecursionDepthExceeded):
		return "err:depth", ""
	}
	return "err:other", ""
}

// ------------------------------------------------------------------ K: the parser

func parseImpl(s string, level, maxd int) (res string, pan string) {
	defer func() {
		if e := recover(); e != nil {
			res, pan = "panic", fmt.Sprint(e)
		}
	}()
	l := s
	_, err := model.ParseObjectContext(context.Background(), &l, level, maxd)
	switch {
	case err == nil:
		return "ok:" + vh.Int(int64(len(l))), ""
	case errors.Is(err, model.ErrMaxRecursionDepthExceeded):
		return "err:depth", ""
	}
	return "err", ""
}

func kParse(r *vh.Run) {
	emit := func(s string, level, maxd int) {
		impl, pan := parseImpl(s, level, maxd)
		if pan != "" {
			r.OracleFail("panic:ParseObjectContext", map[string]any{"hex": vh.Hex([]byte(s)), "level": level, "max": maxd}, pan)
			return
		}
		r.OracleOK()
		if parseModelEnabled {
			r.Case("parse", []string{vh.Int(int64(maxd)), vh.Int(int64(level)), vh.Hex([]byte(s))}, impl)
		}
		r.Count("parse:" + strings.SplitN(impl, ":", 2)[0])
	}
	// exact nesting around the limit, arrays, dicts and mixed
	for _, maxd := range []int{0, 1, 2, 3, 7, 100, -3} {
		eff := maxd
		if eff <= 0 {
			eff = 100
		}
		for _, n := range []int{1, 2, eff - 1, eff, eff + 1, eff + 2, eff + 50} {
			if n < 1 {
				continue
			}
			for _, level := range []int{0, 1, eff} {
				// the guard's own statement on the implementation: containers at levels level..level+k-1,
				// the leaf at level+k; accepted iff level+k <= effective limit, else the depth error
				for _, c := range []struct {
					s string
					k int
				}{{nest("[", "]", n, "1"), n}, {nest("<</A ", ">>", n, "1"), n}, {nest("[<</A ", ">>]", n, "(x)"), 2 * n}} {
					got, _ := parseImpl(c.s, level, maxd)
					want := "ok:0"
					if level+c.k > eff {
						want = "err:depth"
					}
					if got != want {
						r.OracleFail("parse-depth-guard", map[string]any{"hex": vh.Hex([]byte(c.s)), "level": level, "max": maxd}, "got "+got+", want "+want)
					} else {
						r.OracleOK()
					}
				}
				emit(nest("[", "]", n, "1"), level, maxd)
				emit(nest("<</A", ">>", n, "1"), level, maxd)
				emit(nest("[<</A", ">>]", n, "(x)"), level, maxd)
				emit(nest("[", "]", n, ""), level, maxd)
				emit(strings.Repeat("[", n), level, maxd)
				emit(strings.Repeat("<<", n), level, maxd)
				emit(strings.Repeat("<</K", n), level, maxd)
			}
		}
	}
	big := r.Pick(20000, 200000)
	emit(nest("[", "]", big, "0"), 0, 0)
	emit(strings.Repeat("[", big), 0, 0)
	emit(strings.Repeat("<<", big), 0, 0)
	emit(strings.Repeat("<</A", big), 0, 0)
	emit(strings.Repeat("(", big), 0, 0)
	emit(nest("(", ")", big, "x"), 0, 0)
	// random token soup
	toks := []string{"[", "]", "<<", ">>", "/A", "/B", "/", " ", "\n", "\r\n", "1", "0", "-3", "1.5", "R", "1 0 R", "(a)", "(", ")", "<41>", "<", ">",
		"null", "true", "false", "%c\n", "%", "\x00", "\t", "\f", "+", ".", "e", "0 0", "(\\", "\\)", "#", "/A#20", "<4", "\xc2\xa0", "\xe2\x80\x83", "\xe2", "nul", "tru", "fals", "/Kids", "obj", "endobj", "stream"}
	n := r.Pick(6000, 120000)
	for i := 0; i < n; i++ {
		var sb strings.Builder
		k := 1 + r.Rand.Intn(14)
		if r.Rand.Intn(20) == 0 {
			k = 30 + r.Rand.Intn(60)
		}
		for j := 0; j < k; j++ {
			if r.Rand.Intn(25) == 0 {
				sb.WriteByte(byte(r.Rand.Intn(256)))
			} else {
				sb.WriteString(toks[r.Rand.Intn(len(toks))])
			}
		}
		maxd := []int{0, 1, 2, 3, 5}[r.Rand.Intn(5)]
		emit(sb.String(), r.Rand.Intn(3), maxd)
	}
}

// ------------------------------------------------------------------ K: ObjectStreamDict.IndexedObject bounds

func kIndexed(r *vh.Run) {
	vals := []int{0, 1, 2, 3, 4, 5, -1, -2, 1 << 31, -(1 << 31), 1<<63 - 1, -1 << 63, -1<<63 + 1, 1 << 62, 65535, 255}
	for _, ln := range []int{-1, 0, 1, 2, 3, 5} { // -1: ObjArray == nil
		var osd types.ObjectStreamDict
		if ln >= 0 {
			osd.ObjArray = make(types.Array, ln)
			for i := range osd.ObjArray {
				osd.ObjArray[i] = types.Integer(i)
			}
		}
		idx := append([]int{ln - 1, ln, ln + 1}, vals...)
		for k := 0; k < 12; k++ {
			idx = append(idx, int(r.Rand.Uint64()))
		}
		for _, i := range idx {
			res, pan := func() (res string, pan string) {
				defer func() {
					if e := recover(); e != nil {
						res, pan = "panic", fmt.Sprint(e)
					}
				}()
				o, err := osd.IndexedObject(i)
				if err != nil {
					return "err", ""
				}
				if v, ok := o.(types.Integer); !ok || int(v) != i {
					return "wrong-object", ""
				}
				return "ok", ""
			}()
			if pan != "" {
				r.OracleFail("panic:types.ObjectStreamDict.IndexedObject", map[string]any{"len": ln, "index": i}, pan)
			} else if want := ln > 0 && i >= 0 && i < ln; (res == "ok") != want {
				r.OracleFail("indexedobject-bounds", map[string]any{"len": ln, "index": i}, "got "+res)
			} else {
				r.OracleOK()
			}
			l := ln
			if l < 0 {
				l = 0
			}
			r.Case("indexed_object", []string{vh.Bool(ln < 0), vh.Int(int64(l)), vh.Int(int64(i))}, res)
		}
	}
}

// ------------------------------------------------------------------ K: detectMarker

func kMarker(r *vh.Run) {
	toks := []string{"endobj", "endobj", "xref", "xref", "stream", "endstream", "startxref", "trailer", "x", " ", "\n", "\r", "\x00", "\x85", "\xa0", "\t",
		"e", "endob", "ref", "xre", "strea", "obj", "1 0 obj", "<<>>", "%"}
	emit := func(line string) {
		for _, marker := range []string{"endobj", "stream"} {
			var res string
			pan := false
			func() {
				defer func() {
					if e := recover(); e != nil {
						pan = true
						r.OracleFail("panic:model.detectMarker", map[string]any{"hex": vh.Hex([]byte(line)), "marker": marker}, fmt.Sprint(e))
					}
				}()
				res = vh.Int(int64(model.VerifDetectMarker(line, marker)))
			}()
			if pan {
				continue // the model is the guarded function (Property.detect_marker_in_bounds); a panic is the finding
			}
			r.OracleOK()
			r.Case("detect_marker", []string{vh.Bool(marker == "endobj"), vh.Hex([]byte(line))}, res)
		}
	}
	for _, l := range []string{"", "endobj", "endobj\n", "endobjxref", "endobjxref ", "endobjstartxref", "endobjstartxref\n", "endobjendobj ", "stream", "streamx", "endstream\n", "xrefendobj endobj\n"} {
		emit(l)
	}
	n := r.Pick(4000, 80000)
	for i := 0; i < n; i++ {
		var sb strings.Builder
		for k := 0; k < 1+r.Rand.Intn(7); k++ {
			sb.WriteString(toks[r.Rand.Intn(len(toks))])
		}
		emit(sb.String())
	}
}

// ------------------------------------------------------------------ O: the search

func sha(b []byte) string { h := sha1.Sum(b); return hex.EncodeToString(h[:6]) }

type seed struct {
	name string
	raw  []byte
	norm *doc // classic, uncompressed-object form parsed into objects (nil if not available)
}

func emptied() map[string]bool {
	m := map[string]bool{}
	b, err := os.ReadFile("/root/.vp/EMPTIED_FILES.txt")
	if err == nil {
		for _, l := range strings.Split(string(b), "\n") {
			if l = strings.TrimSpace(l); l != "" {
				m[filepath.Base(l)] = true
			}
		}
	}
	return m
}

func normalise(raw []byte) (out []byte) {
	defer func() {
		if recover() != nil {
			out = nil
		}
	}()
	conf := model.NewDefaultConfiguration()
	conf.Offline = true
	conf.ValidationMode = model.ValidationRelaxed
	conf.WriteObjectStream = false
	conf.WriteXRefStream = false
	ctx, err := api.ReadAndValidate(strings.NewReader(string(raw)), conf)
	if err != nil {
		return nil
	}
	var sb strings.Builder
	if err := api.WriteContext(ctx, &sb); err != nil {
		return nil
	}
	return []byte(sb.String())
}

var ngen int

const parseModelEnabled = false

func loadSeeds(r *vh.Run, repo, cache string) []seed {
	var seeds []seed
	for _, g := range []struct {
		n string
		d *doc
	}{{"gen-base", baseDoc()}, {"gen-equalobj", equalObjectsMixedCycle()},
		{"gen-outline", outlineDoc("/First 11 0 R/Last 12 0 R/Count 2", map[int]string{11: "/Parent 10 0 R/Next 12 0 R", 12: "/Parent 10 0 R/Prev 11 0 R"})},
		{"gen-nametree", nameTreeDoc(map[int]string{10: "<</Kids[11 0 R]>>", 11: "<</Limits[(a)(b)]/Names[(a)[3 0 R/Fit](b)[3 0 R/Fit]]>>"})}} {
		seeds = append(seeds, seed{g.n, g.d.bytes(), g.d})
	}
	ngen = len(seeds)
	skip := emptied()
	maxSize := int64(r.Pick(130_000, 400_000))
	dirs := []string{filepath.Join(repo, "pkg/testdata"), filepath.Join(repo, "pkg/testdata/pdf20"), filepath.Join(repo, "pkg/samples/bookmarks"), filepath.Join(repo, "pkg/samples/form"), filepath.Join(repo, "pkg/samples/annotations")}
	if sigDirs, _ := filepath.Glob(filepath.Join(repo, "pkg/samples/signatures/*")); len(sigDirs) > 0 {
		// the shipped signed samples are also ordinary inputs of every operation (write path of signature dictionaries)
		dirs = append(dirs, sigDirs...)
	}
	os.MkdirAll(cache, 0o755)
	for _, dir := range dirs {
		ents, _ := os.ReadDir(dir)
		for _, e := range ents {
			nm := e.Name()
			if e.IsDir() || !strings.HasSuffix(strings.ToLower(nm), ".pdf") || skip[nm] {
				continue
			}
			fi, err := e.Info()
			if err != nil || fi.Size() > maxSize || fi.Size() < 200 {
				continue
			}
			raw, err := os.ReadFile(filepath.Join(dir, nm))
			if err != nil {
				continue
			}
			s := seed{name: nm, raw: raw}
			cf := filepath.Join(cache, sha(raw)+".norm")
			nb, err := os.ReadFile(cf)
			if err != nil {
				nb = normalise(raw)
				if nb == nil {
					nb = []byte{}
				}
				os.WriteFile(cf, nb, 0o644)
			}
			if len(nb) > 0 {
				s.norm = parseDoc(nb)
			}
			seeds = append(seeds, s)
		}
	}
	sort.SliceStable(seeds[ngen:], func(i, j int) bool { return seeds[ngen+i].name < seeds[ngen+j].name })
	return seeds
}

func search(r *vh.Run) {
	repo := os.Getenv("VERIF_REPO")
	if repo == "" {
		repo = "/repo"
	}
	verif := os.Getenv("VERIF_DIR")
	if verif == "" {
		verif = "/verif"
	}
	bdir := os.Getenv("VERIF_BUILD")
	if bdir == "" {
		bdir = filepath.Join(verif, "build/C08")
	}
	tmp, err := os.MkdirTemp("", "c08-inputs-")
	if err != nil {
		panic(err)
	}
	defer os.RemoveAll(tmp)
	deep := 100_000

	var jobs []job
	inputs := map[string][]byte{}
	expects := map[string]string{}
	addJob := func(name string, data []byte, ops []string, recipe, expect string) {
		id := fmt.Sprintf("%05d-%s", len(jobs), name)
		if len(id) > 80 {
			id = id[:80]
		}
		id = strings.Map(func(c rune) rune {
			if c == '/' || c == ' ' || c == '\t' || c > 126 || c < 33 {
				return '_'
			}
			return c
		}, id)
		p := filepath.Join(tmp, id+".pdf")
		if err := os.WriteFile(p, data, 0o644); err != nil {
			panic(err)
		}
		jobs = append(jobs, job{id: id, path: p, ops: ops, recipe: recipe})
		if len(data) <= 1<<16 {
			inputs[id] = data
		}
		if expect != "" {
			expects[id] = expect
		}
	}

	// 1. corpus reproducers first
	cfiles, _ := filepath.Glob(filepath.Join(verif, "corpus/C08/*.pdf"))
	sort.Strings(cfiles)
	for _, f := range cfiles {
		if b, err := os.ReadFile(f); err == nil {
			addJob("corpus-"+filepath.Base(f), b, allOps, "corpus file "+f, "")
			r.Count("input:corpus")
		}
	}
	// 2. generated documents
	for _, g := range generatedDocs(deep) {
		addJob("gen-"+g.name, g.data, allOps, "generatedDocs: "+g.name, g.expect)
		r.Count("input:generated")
	}
	// 2b. cross-reference streams: widths, field values, targets, /Index /Size /First /N (xrefgen.go)
	for _, g := range xrefStreamDocs(r.Rand, r.Pick(250, 6000)) {
		addJob("gen-"+g.name, g.data, []string{"read", "vstrict", "vrelaxed", "optimize", "info", "pages"}, "xrefStreamDocs: "+g.name, "")
		r.Count("input:xrefstream")
	}
	// 2d. whole input classes behind red-team findings (classgen.go)
	for _, g := range outlineListDocs(r.Rand, r.Pick(150, 5000)) {
		addJob("gen-"+g.name, g.data, []string{"vrelaxed", "vstrict", "bookmarks", "optimize"}, "outlineListDocs: "+g.name, g.expect)
		r.Count("input:outline-lists")
	}
	for _, g := range nameTreeDocs(r.Rand, r.Pick(100, 4000)) {
		addJob("gen-"+g.name, g.data, []string{"vrelaxed", "vstrict", "bookmarks", "attach", "annots", "optimize"}, "nameTreeDocs: "+g.name, "")
		r.Count("input:name-trees")
	}
	for _, g := range boundaryDocs() {
		addJob("gen-"+g.name, g.data, []string{"read", "vrelaxed", "optimize"}, "boundaryDocs: "+g.name, "")
		r.Count("input:buffer-boundary")
	}
	for _, g := range revisionDocs(r.Rand, r.Pick(200, 8000)) {
		addJob("gen-"+g.name, g.data, []string{"read", "vrelaxed", "info", "optimize"}, "revisionDocs: "+g.name, "")
		r.Count("input:revisions")
	}
	// 2e. /DecodeParms boundaries on every kind of stream (parmsgen.go)
	for _, g := range decodeParmsDocs(r.Rand, 700, r.Thorough()) {
		ops := []string{"read", "vrelaxed", "optimize", "info", "images", "pages"}
		if g.single {
			ops = append(append([]string(nil), allOps...), "fonts")
		}
		addJob("gen-"+g.name, g.data, ops, "decodeParmsDocs: "+g.name, "")
		r.Count("input:decodeparms")
	}
	// 2f. fonts: structured TrueType mutations (fontmut.go)
	fontJobs(r, repo, addJob)
	// 2c. signatures: BER/CMS payloads over the /Contents of the shipped signed samples (sigmut.go)
	ts := time.Now()
	sigJobs(r, repo, addJob)
	fmt.Fprintf(os.Stderr, "sig job preparation %v\n", time.Since(ts))
	// 3. mutation stream
	seeds := loadSeeds(r, repo, filepath.Join(bdir, "seedcache"))
	r.CountN("seeds", len(seeds))
	nmut := r.Pick(1400, 36000)
	for i := 0; i < nmut; i++ {
		s := seeds[r.Rand.Intn(len(seeds))]
		if i%4 == 0 {
			s = seeds[r.Rand.Intn(ngen)] // small generated seeds are cheap and structurally rich
		}
		var data []byte
		var recipe string
		if s.norm == nil || r.Rand.Intn(10) < 3 {
			var op string
			data, op = mutateBytes(r.Rand, s.raw)
			recipe = "bytes:" + op
			r.Count("mut:bytes:" + op)
		} else {
			d := s.norm.clone()
			k := 1 + r.Rand.Intn(3)
			var names []string
			for j := 0; j < k; j++ {
				op := mutateDoc(r.Rand, d, deep)
				names = append(names, op)
				r.Count("mut:doc:" + op)
			}
			total := 0
			for _, o := range d.objs {
				total += len(o)
			}
			if total < 60_000 && r.Rand.Intn(5) == 0 {
				data = d.bytesXRefStream(nil)
				names = append(names, "as-xrefstream")
			} else {
				data = d.bytes()
			}
			recipe = "doc:" + strings.Join(names, "+")
		}
		ops := []string{"vrelaxed", "optimize"}
		perm := r.Rand.Perm(len(allOps))
		for _, pi := range perm {
			if len(ops) >= 5 {
				break
			}
			if o := allOps[pi]; o != "vrelaxed" && o != "optimize" {
				ops = append(ops, o)
			}
		}
		addJob("mut-"+strings.TrimSuffix(s.name, ".pdf"), data, ops, fmt.Sprintf("seed=%s mutation=%s harness-seed=%d index=%d", s.name, recipe, r.Seed, i), "")
	}
	r.CountN("input:mutated", nmut)

	// run
	nw := 12
	perOp := time.Duration(r.Pick(10, 20)) * time.Second
	t0 := time.Now()
	results := map[string]map[string]string{}
	finds := runJobs(tmp, jobs, nw, perOp, func(j job, op, class, detail string) {
		r.Count("result:" + op + ":" + strings.SplitN(class, ":", 2)[0])
		if _, ok := expects[j.id]; ok {
			if results[j.id] == nil {
				results[j.id] = map[string]string{}
			}
			results[j.id][op] = class + " " + detail
		}
	})

	// verdicts the guards must give on the generated documents (K on the real entry points)
	for id, exp := range expects {
		res := results[id]
		if res == nil {
			continue
		}
		bad := ""
		switch exp {
		case "ok":
			for _, op := range []string{"read", "vrelaxed", "optimize", "info"} {
				if v, ok := res[op]; ok && !strings.HasPrefix(v, "ok") {
					bad = op + " -> " + v
				}
			}
		case "err":
			for _, op := range []string{"vstrict", "vrelaxed", "optimize"} {
				if v, ok := res[op]; ok && strings.HasPrefix(v, "ok") {
					bad = op + " accepted the document"
				}
			}
		}
		name := id[6:]
		if bad != "" {
			in := map[string]any{"doc": name, "expected": exp}
			if b, ok := inputs[id]; ok && len(b) <= 6000 {
				in["hex"] = vh.Hex(b)
			}
			r.OracleFail("guard-verdict:"+name, in, bad)
		} else {
			r.OracleOK()
		}
	}

	// confirm findings one by one in a fresh child (rules out load-induced timeouts), then report
	faildir := filepath.Join(r.Dir, "failing")
	os.MkdirAll(faildir, 0o755)
	byClass := map[string][]finding{}
	for _, f := range finds {
		byClass[f.class] = append(byClass[f.class], f)
	}
	var classes []string
	for c := range byClass {
		classes = append(classes, c)
	}
	sort.Strings(classes)
	fmt.Fprintf(os.Stderr, "search pass: %d jobs, %d raw findings, %v\n", len(jobs), len(finds), time.Since(t0))
	var cjobs []job
	cclass := map[string]string{}
	cstack := map[string][]string{}
	for _, c := range classes {
		fs := byClass[c]
		sort.Slice(fs, func(i, j int) bool { return fs[i].job.id < fs[j].job.id })
		r.CountN("finding:"+c, len(fs))
		for k, f := range fs {
			if k >= 2 {
				break
			}
			j := f.job
			j.ops = []string{f.op}
			j.id = fmt.Sprintf("c%d-%s", len(cjobs), j.id)
			cclass[j.id] = c
			cstack[j.id] = f.stack
			cjobs = append(cjobs, j)
		}
	}
	again := runJobs(tmp, cjobs, 12, time.Duration(r.Pick(15, 60))*time.Second, nil)
	got := map[string]finding{}
	for _, a := range again {
		got[a.job.id] = a
	}
	seenClass := map[string]int{}
	for _, j := range cjobs {
		a, ok := got[j.id]
		if !ok {
			r.Count("unconfirmed:" + cclass[j.id])
			continue
		}
		if strings.HasPrefix(a.class, "timeout:") {
			// name the hang after the function both dumps (search pass, confirmation) are looping in
			if !strings.Contains(a.detail, "profiled") {
				if o := loopOwner(cstack[j.id], a.stack); o != "" {
					a.class = "timeout:" + o
				}
			}
		}
		if seenClass[a.class] >= 2 {
			continue
		}
		seenClass[a.class]++
		orig := j.id[strings.Index(j.id, "-")+1:]
		keep := filepath.Join(faildir, orig+".pdf")
		if b, err := os.ReadFile(j.path); err == nil {
			os.WriteFile(keep, b, 0o644)
		}
		in := map[string]any{"file": keep, "op": j.ops[0], "recipe": j.recipe}
		if b, ok := inputs[orig]; ok && len(b) <= 6000 {
			in["hex"] = vh.Hex(b)
		}
		r.OracleFail(a.class, in, a.detail)
	}
	fmt.Fprintf(os.Stderr, "confirm pass: %d jobs, %v total\n", len(cjobs), time.Since(t0))
	// every (input, entry point) that came back with a result or an error satisfied the property
	for range jobs {
		r.OracleOK()
	}
	_ = io.Discard
}
