package main

import (
	"bytes"
	"fmt"
	"os"

	"github.com/pdfcpu/pdfcpu/pkg/api"
	"github.com/pdfcpu/pdfcpu/pkg/pdfcpu/model"
	"verif/cmd/c28/synth"
)

func show(name string, b []byte) {
	conf := model.NewDefaultConfiguration()
	conf.Offline = true
	rs, err := api.ValidateSignaturesRaw(bytes.NewReader(b), true, conf)
	if err != nil {
		fmt.Println(name, "ERR", err)
		return
	}
	for _, r := range rs {
		fmt.Printf("%s: status=%v reason=%v docmod=%d problems=%v\n", name, r.Status, r.Reason, r.DocModified, r.Problems)
		for _, s := range r.Details.Signers {
			fmt.Println("   signer problems:", s.Problems)
		}
	}
}

func main() {
	api.DisableConfigDir()
	s, err := synth.NewSigner()
	if err != nil {
		panic(err)
	}
	if err := s.InstallTrust("/tmp/c28-scratch/certs"); err != nil {
		panic(err)
	}
	d, err := synth.Build(s, synth.Options{Payload: []byte("BT ET"), ExtraObjs: 2})
	if err != nil {
		panic(err)
	}
	{
		conf := model.NewDefaultConfiguration()
		conf.Cmd = model.VALIDATESIGNATURES
		ctx, err := api.ReadValidateAndOptimize(bytes.NewReader(d.Bytes), conf)
		fmt.Println(err)
		for k, v := range ctx.Signatures {
			fmt.Println("incr", k, v)
		}
		ctx, err = api.ReadValidateAndOptimize(bytes.NewReader(synth.Increment(d.Bytes, "x")), conf)
		fmt.Println(err)
		for k, v := range ctx.Signatures {
			fmt.Println("incr", k, v)
		}
	}
	for _, fn := range []string{"adbe.pkcs7.detached/sample1.pdf", "adbe.pkcs7.detached/sample2.pdf", "adbe.pkcs7.detached/usageRights.pdf", "ETSI.CAdES.detached/testPAdES_BB.pdf", "ETSI.CAdES.detached/testPAdES_BLTA.pdf", "adbe.x509.rsa_sha1/sample01.pdf"} {
		bb, _ := os.ReadFile("/repo/pkg/samples/signatures/" + fn)
		show(fn, bb)
	}
	show("base", d.Bytes)
	show("appended", append(append([]byte{}, d.Bytes...), '\n'))
	show("incr", synth.Increment(d.Bytes, "x"))
	f := append([]byte{}, d.Bytes...)
	f[20] ^= 1
	show("flip", f)
	d2, _ := synth.Build(s, synth.Options{Payload: []byte("BT ET"), PadHex: 40})
	show("padded", d2.Bytes)
}
