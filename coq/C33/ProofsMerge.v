(* C33 — proofs about merge (append of page trees, divider pages) and zip merge. *)
From Coq Require Import ZArith List Bool Lia ZifyBool ZifyNat FinFun.
From PV Require Import Lib.GoInt C33.Pages C33.Model C33.ProofsSplit.
Import ListNotations.
Open Scope Z_scope.

(* ---------------- append ---------------- *)
Lemma has_inh_false a : has_inh a = false -> a = no_attrs.
Proof.
  destruct a as [r m c s]. unfold has_inh. simpl.
  destruct s, m, c, r; simpl; intros H; try discriminate; reflexivity.
Qed.

Lemma rpages_node_no c ks : rpages (Node no_attrs c ks) = flat_map (resolve no_attrs) ks.
Proof. reflexivity. Qed.

Lemma sumZ_app a b : sumZ (a ++ b) = sumZ a + sumZ b.
Proof. induction a as [|x a IH]; simpl; [reflexivity|]. unfold sumZ in *. simpl. rewrite IH. lia. Qed.

Lemma rpages_divider mb : map view (resolve no_attrs (divider_node mb)) = [divider_view mb].
Proof. reflexivity. Qed.

Lemma wf_node a c l : wf_count (Node a c l) = (c =? sumZ (map count_of l)) && forallb wf_count l.
Proof. reflexivity. Qed.

Lemma append_tree_spec dest src div t : append_tree dest src div = Ok t ->
  is_node t = true /\
  pages_of t = pages_of dest ++
               (if div then match last_dims dest with Some mb => [divider_view mb] | None => [] end else []) ++
               pages_of src /\
  (wf_count dest = true -> wf_count src = true -> wf_count t = true).
Proof.
  destruct dest as [p|a c kids]; [discriminate|].
  unfold append_tree, neutral_root.
  destruct (has_inh a) eqn:Ea.
  - (* the root is wrapped into a neutral root *)
    destruct div.
    + destruct (last_dims (Node a c kids)) as [mb|] eqn:El; [|discriminate].
      intros [= <-]. split; [reflexivity|]. split.
      * unfold pages_of. rewrite rpages_node_no. simpl flat_map. rewrite !app_nil_r, !map_app.
        reflexivity.
      * intros Hd Hs. rewrite wf_node. apply andb_true_iff. split.
        -- apply Z.eqb_eq. rewrite ?map_app, ?sumZ_app. cbn [map count_of divider_node sumZ fold_right]. lia.
        -- rewrite ?forallb_app. cbn [forallb]. rewrite Hd, Hs. reflexivity.
    + intros [= <-]. split; [reflexivity|]. split.
      * unfold pages_of. rewrite rpages_node_no. simpl flat_map. rewrite !app_nil_r, !map_app. reflexivity.
      * intros Hd Hs. rewrite wf_node. apply andb_true_iff. split.
        -- apply Z.eqb_eq. rewrite ?map_app, ?sumZ_app. cbn [map count_of sumZ fold_right]. lia.
        -- rewrite ?forallb_app. cbn [forallb]. rewrite Hd, Hs. reflexivity.
  - apply has_inh_false in Ea. subst a.
    destruct div.
    + destruct (last_dims (Node no_attrs c kids)) as [mb|] eqn:El; [|discriminate].
      intros [= <-]. split; [reflexivity|]. split.
      * unfold pages_of. rewrite !rpages_node_no, !flat_map_app, !map_app. simpl flat_map.
        rewrite !app_nil_r. reflexivity.
      * intros Hd Hs. rewrite wf_node in Hd. apply andb_true_iff in Hd. destruct Hd as [Hc Hk].
        apply Z.eqb_eq in Hc. rewrite wf_node. apply andb_true_iff. split.
        -- apply Z.eqb_eq. rewrite ?map_app, ?sumZ_app. rewrite <- Hc.
           cbn [map count_of divider_node sumZ fold_right]. lia.
        -- rewrite ?forallb_app. cbn [forallb]. rewrite Hk, Hs. reflexivity.
    + intros [= <-]. split; [reflexivity|]. split.
      * unfold pages_of. rewrite !rpages_node_no, !flat_map_app, !map_app. simpl flat_map.
        rewrite !app_nil_r. reflexivity.
      * intros Hd Hs. rewrite wf_node in Hd. apply andb_true_iff in Hd. destruct Hd as [Hc Hk].
        apply Z.eqb_eq in Hc. rewrite wf_node. apply andb_true_iff. split.
        -- apply Z.eqb_eq. rewrite ?map_app, ?sumZ_app. rewrite <- Hc. cbn [map count_of sumZ fold_right]. lia.
        -- rewrite ?forallb_app. cbn [forallb]. rewrite Hk, Hs. reflexivity.
Qed.

Lemma append_tree_nodiv dest src : is_node dest = true -> exists t, append_tree dest src false = Ok t.
Proof.
  destruct dest as [p|a c kids]; [discriminate|]. intros _.
  unfold append_tree, neutral_root. destruct (has_inh a); eexists; reflexivity.
Qed.

Lemma merge_all_spec div : forall srcs dest t, merge_all dest srcs div = Ok t ->
  merge_spec (pages_of dest) (map pages_of srcs) div = Some (pages_of t) /\
  (wf_count dest = true -> Forall (fun s => wf_count s = true) srcs -> wf_count t = true).
Proof.
  induction srcs as [|s r IH]; intros dest t H; simpl in *.
  - inversion H; subst. split; [reflexivity|auto].
  - destruct (append_tree dest s div) as [d|] eqn:Ea; [|discriminate].
    destruct (append_tree_spec _ _ _ _ Ea) as [_ [Hp Hwf]].
    destruct (IH d t H) as [Hs Hw]. split.
    + destruct div.
      * unfold last_dims in Hp. destruct (last_dims_v (pages_of dest)) as [mb|] eqn:El.
        -- rewrite Hp in Hs. exact Hs.
        -- exfalso. unfold append_tree in Ea.
           destruct (neutral_root dest); [discriminate|]. unfold last_dims in Ea. rewrite El in Ea. discriminate.
      * rewrite Hp in Hs. exact Hs.
    + intros Hd Hall. inversion Hall; subst. apply Hw; auto.
Qed.

Lemma merge_all_nodiv_ok : forall srcs dest, is_node dest = true -> exists t, merge_all dest srcs false = Ok t.
Proof.
  induction srcs as [|s r IH]; intros dest Hn; simpl.
  - eexists; reflexivity.
  - destruct (append_tree_nodiv dest s Hn) as [d Hd]. rewrite Hd.
    apply IH. apply (append_tree_spec _ _ _ _ Hd).
Qed.

Lemma merge_spec_nodiv : forall rest acc, merge_spec acc rest false = Some (acc ++ concat rest).
Proof.
  induction rest as [|d r IH]; intros acc; simpl.
  - rewrite app_nil_r. reflexivity.
  - rewrite IH, app_assoc. reflexivity.
Qed.

(* with dividers: exactly one blank page (marker 0) in front of every appended document *)
Lemma merge_spec_div_ids : forall rest acc l, merge_spec acc rest true = Some l ->
  map v_id l = map v_id acc ++ flat_map (fun d => 0 :: map v_id d) rest.
Proof.
  induction rest as [|d r IH]; intros acc l H; simpl in *.
  - inversion H; subst. rewrite app_nil_r. reflexivity.
  - destruct (last_dims_v acc) as [mb|]; [|discriminate].
    rewrite (IH _ _ H). rewrite !map_app. simpl. rewrite <- !app_assoc. reflexivity.
Qed.

(* the divider pages are blank pages without rotation, CropBox or other boxes *)
Definition is_blank (v : vpage) : Prop :=
  v_id v = 0 /\ v_rot v = 0 /\ v_crop v = None /\ v_trim v = None /\ v_bleed v = None /\ v_art v = None.

Lemma merge_spec_div_shape : forall rest acc l, merge_spec acc rest true = Some l ->
  exists divs, Forall2 (fun (_ : list vpage) v => is_blank v) rest divs /\
    l = acc ++ concat (map (fun dv => snd dv :: fst dv) (combine rest divs)).
Proof.
  induction rest as [|d r IH]; intros acc l H; simpl in *.
  - inversion H; subst. exists []. split; [constructor|]. rewrite app_nil_r. reflexivity.
  - destruct (last_dims_v acc) as [mb|]; [|discriminate].
    destruct (IH _ _ H) as [divs [HF Hl]].
    exists (divider_view mb :: divs). split.
    + constructor; [|assumption]. repeat split.
    + rewrite Hl. simpl. rewrite <- !app_assoc. reflexivity.
Qed.

(* ---------------- zip ---------------- *)
Fixpoint weave_list {A} (a b : list A) : list A * list A :=
  match a with
  | [] => ([], b)
  | x :: a' => match b with
               | [] => (a, [])
               | y :: b' => let (o, r) := weave_list a' b' in (x :: y :: o, r)
               end
  end.

Lemma weave_nil_r {A} (a : list A) : weave_list a [] = (a, []).
Proof. destruct a; reflexivity. Qed.

Lemma weave_list_app {A} (a1 a2 b : list A) :
  weave_list (a1 ++ a2) b =
  let (o1, r1) := weave_list a1 b in let (o2, r2) := weave_list a2 r1 in (o1 ++ o2, r2).
Proof.
  revert b. induction a1 as [|x a1 IH]; intros b; simpl.
  - destruct (weave_list a2 b); reflexivity.
  - destruct b as [|y b'].
    + rewrite weave_nil_r. reflexivity.
    + rewrite IH. destruct (weave_list a1 b') as [o1 r1]. destruct (weave_list a2 r1) as [o2 r2]. reflexivity.
Qed.

Lemma weave_snd {A} (a b : list A) : snd (weave_list a b) = skipn (length a) b.
Proof.
  revert b. induction a as [|x a IH]; intros b; simpl; [reflexivity|].
  destruct b as [|y b']; [reflexivity|]. specialize (IH b'). destruct (weave_list a b'). simpl in *. exact IH.
Qed.

Lemma interleave_weave {A} (a b : list A) : interleave a b = fst (weave_list a b) ++ snd (weave_list a b).
Proof.
  revert b. induction a as [|x a IH]; intros b; simpl; [reflexivity|].
  destruct b as [|y b']; simpl; [rewrite app_nil_r; reflexivity|].
  specialize (IH b'). destruct (weave_list a b'). simpl in *. rewrite IH. reflexivity.
Qed.

Lemma nodes_ok_true : forall t, nodes_ok (fun _ => true) t = true.
Proof.
  induction t as [p|a c kids IH] using tree_ind'; [reflexivity|].
  simpl. apply forallb_forall. rewrite Forall_forall in IH. exact IH.
Qed.

Lemma skipn_add {A} n m (l : list A) : skipn m (skipn n l) = skipn (n + m) l.
Proof.
  revert l. induction n as [|n IH]; intros l; [reflexivity|].
  destruct l; simpl; [apply skipn_nil|apply IH].
Qed.

Lemma zip_kids_node zt a c0 kk ks src :
  zip_kids zt (Node a c0 kk :: ks) src =
  let '(k', src') := zt (Node a c0 kk) src in
  let '(r, c, rest) := zip_kids zt ks src' in (k' :: r, count_of k' + c, rest).
Proof. reflexivity. Qed.

Section ZipProof.
  Context {X : Type}.
  Variables (f g : rpage -> X).          (* f observes a page of the result, g a page of the source *)
  Variable Q : attrs -> Prop.            (* what is known of the attributes inherited at a destination node *)
  Variable pb : attrs -> bool.           (* what is assumed of every destination /Pages node *)
  Variable Psrc : rpage -> Prop.         (* what is assumed of every source page *)
  Hypothesis HQ : forall inh a, Q inh -> pb a = true -> Q (inherit inh a).
  Hypothesis Hw : forall inh s, Q inh -> Psrc s ->
    f (weave_page s, inherit inh (pg_attrs (weave_page s))) = g s.

  Definition zip_ok (t : tree) : Prop :=
    is_node t = true -> forall inh src, Q inh -> nodes_ok pb t = true -> Forall Psrc src ->
      map f (resolve inh (fst (zip_tree t src))) =
        fst (weave_list (map f (resolve inh t)) (map g src)) /\
      snd (zip_tree t src) = skipn (length (resolve inh t)) src /\
      wf_count (fst (zip_tree t src)) = true /\
      is_node (fst (zip_tree t src)) = true.

  Lemma Forall_skipn {A} (P : A -> Prop) n l : Forall P l -> Forall P (skipn n l).
  Proof.
    revert l. induction n as [|n IH]; intros l H; simpl; [assumption|].
    destruct l; [constructor|]. inversion H; subst. apply IH. assumption.
  Qed.

  Lemma zip_kids_ok : forall kids, Forall zip_ok kids ->
    forall inh src, Q inh -> forallb (nodes_ok pb) kids = true -> Forall Psrc src ->
      let '(ks', c, rest) := zip_kids zip_tree kids src in
      map f (flat_map (resolve inh) ks') =
        fst (weave_list (map f (flat_map (resolve inh) kids)) (map g src)) /\
      rest = skipn (length (flat_map (resolve inh) kids)) src /\
      c = sumZ (map count_of ks') /\
      forallb wf_count ks' = true.
  Proof.
    induction 1 as [|k ks Hk Hks IH]; intros inh src Hq Hok Hsrc.
    - simpl. repeat split; reflexivity.
    - simpl in Hok. apply andb_true_iff in Hok. destruct Hok as [Hokk Hoks].
      destruct k as [p|a c0 kk].
      + (* a destination page: the next source page, if any, is woven in behind it *)
        destruct src as [|s src'].
        * specialize (IH inh [] Hq Hoks Hsrc). simpl zip_kids.
          destruct (zip_kids zip_tree ks []) as [[r c] rest].
          destruct IH as [I1 [I2 [I3 I4]]]. simpl map in I1. rewrite weave_nil_r in I1. simpl in I1.
          split; [|split; [|split]].
          -- simpl. rewrite ?weave_nil_r. simpl. rewrite I1. reflexivity.
          -- rewrite I2. rewrite !skipn_nil. reflexivity.
          -- rewrite I3. change (sumZ (map count_of (Leaf p :: r))) with (1 + sumZ (map count_of r)). lia.
          -- exact I4.
        * inversion Hsrc as [|? ? Hs Hsrc']; subst.
          specialize (IH inh src' Hq Hoks Hsrc'). simpl zip_kids.
          destruct (zip_kids zip_tree ks src') as [[r c] rest].
          destruct IH as [I1 [I2 [I3 I4]]].
          split; [|split; [|split]].
          -- simpl. rewrite (Hw inh s Hq Hs), I1.
             destruct (weave_list (map f (flat_map (resolve inh) ks)) (map g src')) as [o rr]. reflexivity.
          -- exact I2.
          -- rewrite I3.
             change (sumZ (map count_of (Leaf p :: Leaf (weave_page s) :: r))) with (1 + (1 + sumZ (map count_of r))).
             lia.
          -- exact I4.
      + (* a destination sub tree *)
        destruct (Hk eq_refl inh src Hq Hokk Hsrc) as [K1 [K2 [K3 K4]]].
        rewrite zip_kids_node.
        destruct (zip_tree (Node a c0 kk) src) as [k' src'] eqn:Ez.
        cbn [fst snd] in K1, K2, K3, K4.
        assert (Hsrc' : Forall Psrc src') by (rewrite K2; apply Forall_skipn; assumption).
        specialize (IH inh src' Hq Hoks Hsrc').
        destruct (zip_kids zip_tree ks src') as [[r c] rest].
        destruct IH as [I1 [I2 [I3 I4]]].
        change (flat_map (resolve inh) (Node a c0 kk :: ks)) with
          (resolve inh (Node a c0 kk) ++ flat_map (resolve inh) ks).
        change (flat_map (resolve inh) (k' :: r)) with (resolve inh k' ++ flat_map (resolve inh) r).
        split; [|split; [|split]].
        -- rewrite !map_app, weave_list_app, K1, I1.
           pose proof (weave_snd (map f (resolve inh (Node a c0 kk))) (map g src)) as Hsnd.
           destruct (weave_list (map f (resolve inh (Node a c0 kk))) (map g src)) as [o1 r1].
           cbn [fst snd] in Hsnd.
           rewrite map_length, skipn_map, <- K2 in Hsnd. subst r1.
           destruct (weave_list (map f (flat_map (resolve inh) ks)) (map g src')) as [o2 r2]. reflexivity.
        -- rewrite I2, K2, app_length, skipn_add. reflexivity.
        -- rewrite I3. change (sumZ (map count_of (k' :: r))) with (count_of k' + sumZ (map count_of r)). lia.
        -- change (forallb wf_count (k' :: r)) with (wf_count k' && forallb wf_count r). rewrite K3, I4. reflexivity.
  Qed.

  Lemma zip_tree_ok : forall t, zip_ok t.
  Proof.
    induction t as [p|a c kids IH] using tree_ind'; [intros H; discriminate|].
    intros _ inh src Hq Hok Hsrc. simpl in Hok. apply andb_true_iff in Hok. destruct Hok as [Ha Hk].
    pose proof (zip_kids_ok kids IH (inherit inh a) src (HQ inh a Hq Ha) Hk Hsrc) as H.
    simpl. destruct (zip_kids zip_tree kids src) as [[ks' c'] rest].
    destruct H as [H1 [H2 [H3 H4]]]. simpl. repeat split; try assumption.
    rewrite H4, andb_true_r. apply Z.eqb_eq. exact H3.
  Qed.

  Lemma zip_merge_gen dest src t : Q no_attrs -> nodes_ok pb dest = true -> Forall Psrc (rpages src) ->
    zip_merge dest src = Ok t ->
    map f (rpages t) = interleave (map f (rpages dest)) (map g (rpages src)) /\ wf_count t = true.
  Proof.
    intros Hq Hok Hsrc. unfold zip_merge. destruct dest as [p|a c kids]; [discriminate|].
    unfold rpages in *.
    destruct (zip_tree_ok (Node a c kids) eq_refl no_attrs (resolve no_attrs src) Hq Hok Hsrc) as [Z1 [Z2 [Z3 Z4]]].
    destruct (zip_tree (Node a c kids) (resolve no_attrs src)) as [d1 rest]. cbn [fst snd] in Z1, Z2, Z3, Z4.
    rewrite interleave_weave.
    rewrite weave_snd, map_length, skipn_map, <- Z2, <- Z1.
    assert (Hrest : Forall Psrc rest) by (rewrite Z2; apply Forall_skipn; assumption).
    destruct rest as [|r0 rest'].
    - intros [= <-]. rewrite app_nil_r. split; [reflexivity|assumption].
    - remember (r0 :: rest') as rest eqn:Er in *. clear Er Z2. intros [= <-]. split.
      + cbn [resolve flat_map]. change (inherit no_attrs no_attrs) with no_attrs.
        rewrite app_nil_r, map_app. f_equal.
        cbn [resolve]. change (inherit no_attrs no_attrs) with no_attrs.
        rewrite <- (map_map weave_page Leaf), resolve_leaves, !map_map.
        clear - Hw Hq Hrest. induction Hrest as [|x l Hx Hl IHl]; [reflexivity|].
        simpl. rewrite (Hw no_attrs x Hq Hx), IHl. reflexivity.
      + rewrite wf_node. apply andb_true_iff. split.
        * apply Z.eqb_eq. cbn [map count_of sumZ fold_right]. lia.
        * cbn [forallb]. rewrite Z3. rewrite wf_node.
          rewrite <- (map_map weave_page Leaf), sum_count_leaves. unfold lenZ. rewrite map_length.
          rewrite Z.eqb_refl. cbn [andb]. rewrite andb_true_r.
          apply forallb_forall. intros x Hx. apply in_map_iff in Hx. destruct Hx as [y [<- _]]. reflexivity.
  Qed.
End ZipProof.

(* ---------------- renumbering of source objects ---------------- *)
Lemma new_numbers_eq keys dsize :
  new_numbers keys dsize = map (fun i => dsize + Z.of_nat i) (seq 0 (length keys)).
Proof.
  unfold new_numbers, renumber. generalize (seq 0 (length keys)) (seq_length (length keys) 0).
  intros l Hl. revert l Hl. induction keys as [|k ks IH]; intros [|x l] Hl; simpl in *; try discriminate; [reflexivity|].
  f_equal. apply IH. lia.
Qed.

(* every source object gets a FRESH number: in [dsize, dsize + #source), and no two get the same *)
Lemma renumber_fresh keys dsize :
  Forall (fun n => dsize <= n < dsize + lenZ keys) (new_numbers keys dsize) /\
  NoDup (new_numbers keys dsize) /\ length (new_numbers keys dsize) = length keys.
Proof.
  rewrite new_numbers_eq. split; [|split].
  - apply Forall_forall. intros n Hn. apply in_map_iff in Hn. destruct Hn as [i [<- Hi]].
    apply in_seq in Hi. unfold lenZ. lia.
  - apply Injective_map_NoDup; [|apply seq_NoDup]. intros a b H. lia.
  - rewrite map_length, seq_length. reflexivity.
Qed.

Lemma find_none_fresh {O : Type} (l : list (Z * O)) n :
  Forall (fun kv => fst kv <> n) l -> find (fun kv => fst kv =? n) l = None.
Proof.
  induction 1 as [|kv l H _ IH]; [reflexivity|]. simpl.
  replace (fst kv =? n) with false by lia. exact IH.
Qed.

(* merging never touches an object of the destination, and keeps "every number is below Size" *)
Lemma merge_dest_objects {O : Type} (dest : Z -> option O) (src : list (Z * O)) dsize :
  0 <= dsize -> (forall n, dest n <> None -> 0 <= n < dsize) ->
  (forall n, dest n <> None -> merged_table dest src dsize n = dest n) /\
  (forall n, merged_table dest src dsize n <> None -> 0 <= n < merged_size src dsize).
Proof.
  intros Hd Hinv.
  destruct (renumber_fresh (map fst src) dsize) as [Hr [_ Hlen]]. rewrite map_length in Hlen.
  unfold lenZ in Hr. rewrite map_length in Hr.
  set (nn := new_numbers (map fst src) dsize) in *.
  split.
  - intros n Hn. unfold merged_table. fold nn. rewrite find_none_fresh; [reflexivity|].
    apply Forall_forall. intros [k o] Hin. apply in_combine_l in Hin. simpl.
    rewrite Forall_forall in Hr. specialize (Hr k Hin). specialize (Hinv n Hn). lia.
  - intros n. unfold merged_table, merged_size. fold nn.
    destruct (find (fun kv => fst kv =? n) (combine nn (map snd src))) as [kv|] eqn:Ef.
    + intros _. apply find_some in Ef. destruct Ef as [Hin He]. destruct kv as [k o].
      apply in_combine_l in Hin. rewrite Forall_forall in Hr. specialize (Hr k Hin).
      simpl in He. unfold lenZ. lia.
    + intros Hn. specialize (Hinv n Hn). unfold lenZ. lia.
Qed.
