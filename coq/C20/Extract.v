From Coq Require Import Extraction ExtrOcamlBasic.
From PV Require Import Lib.ExtBase C20.Model C20.ModelScan.
Extraction "model.ml" ext_base_z ext_base_n ext_base_nat ext_base_res ext_base_list
  EqualObjects enoughFuel simb strip substo substg contentStreamDup consolidateCloned formDedupCounts used_names removeEmpty.
