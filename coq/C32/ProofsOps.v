(* C32 — per-operation statements on the observable page list. *)
From Coq Require Import ZArith List Bool Lia ZifyBool ZifyNat.
From PV Require Import Lib.GoInt C33.Pages C33.ProofsSplit C33.ProofsMerge C32.Model C32.Proofs.
Import ListNotations.
Open Scope Z_scope.

Definition wview (w : wpage) : vpage := view (eff w).

(* page k+1 after a per-page operation: specified change if selected, untouched otherwise *)
Lemma upd_op_nth sel pf t k :
  nth_error (pages_of (upd_op sel pf t)) k =
  option_map (fun w => if selb sel (Z.of_nat k + 1)
                       then wview (pf (fst w) (snd (eff w)), snd w) else wview w)
             (nth_error (wpages t) k).
Proof.
  rewrite pages_walk. destruct (upd_op_spec sel pf t) as [H _]. rewrite H.
  rewrite nth_error_map, upd_list_nth. destruct (nth_error (wpages t) k) as [w|]; [|reflexivity].
  cbn [option_map]. replace (0 + Z.of_nat k + 1) with (Z.of_nat k + 1) by lia. destruct (selb sel (Z.of_nat k + 1)); reflexivity.
Qed.

Lemma upd_op_unselected sel pf t k : selb sel (Z.of_nat k + 1) = false ->
  nth_error (pages_of (upd_op sel pf t)) k = nth_error (pages_of t) k.
Proof.
  intros H. rewrite upd_op_nth, H, (pages_walk t), nth_error_map. reflexivity.
Qed.

Lemma upd_op_length sel pf t : length (pages_of (upd_op sel pf t)) = length (pages_of t).
Proof.
  rewrite !pages_walk, !map_length. destruct (upd_op_spec sel pf t) as [H _]. rewrite H.
  pose proof (upd_list_length (selb sel) pf (wpages t) 0) as Hl. unfold lenZ in Hl. lia.
Qed.

(* what the three page functions do to the observable page *)
Definition set_rot (v : vpage) (r : Z) : vpage :=
  mkV (v_id v) r (v_media v) (v_crop v) (v_trim v) (v_bleed v) (v_art v).

Lemma rotate_view delta d i :
  wview (pf_rotate delta d (snd (eff (d, i))), i) = set_rot (wview (d, i)) (compose_rot (v_rot (wview (d, i))) delta).
Proof. reflexivity. Qed.

Lemma orelse_assoc {A} (a b c : option A) : orelse (orelse a b) c = orelse a (orelse b c).
Proof. destruct a; reflexivity. Qed.

Lemma addbox_view b d i :
  wview (pf_addbox b d (snd (eff (d, i))), i) =
  let v := wview (d, i) in
  mkV (v_id v) (v_rot v) (orelse (b_media b) (v_media v)) (orelse (b_crop b) (v_crop v))
      (orelse (b_trim b) (v_trim v)) (orelse (b_bleed b) (v_bleed v)) (orelse (b_art b) (v_art v)).
Proof.
  unfold wview, view, eff, pf_addbox. simpl. rewrite !orelse_assoc. reflexivity.
Qed.

Lemma rmbox_view q d i :
  wview (pf_rmbox q d (snd (eff (d, i))), i) =
  let v := wview (d, i) in
  mkV (v_id v) (v_rot v) (v_media v)
      (if r_crop q then match a_crop (pg_attrs d) with
                        | Some _ => a_crop i               (* own entry deleted: the inherited one shows *)
                        | None => orelse (v_media v) (a_crop i)
                        end
       else v_crop v)
      (if r_trim q then None else v_trim v) (if r_bleed q then None else v_bleed v)
      (if r_art q then None else v_art v).
Proof.
  unfold wview, view, eff, pf_rmbox. simpl. destruct (r_crop q); [|reflexivity].
  destruct (a_crop (pg_attrs d)); reflexivity.
Qed.

(* RemoveBoxes(crop): with no CropBox inherited from the ancestors the crop box is gone or equals the media box *)
Lemma rmbox_crop_no_inherited q d i : r_crop q = true -> a_crop i = None ->
  let v' := wview (pf_rmbox q d (snd (eff (d, i))), i) in v_crop v' = None \/ v_crop v' = v_media v'.
Proof.
  intros Hq Hi. rewrite rmbox_view. simpl. rewrite Hq, Hi.
  destruct (a_crop (pg_attrs d)); [left; reflexivity|].
  destruct (orelse (a_media (pg_attrs d)) (a_media i)); [right|left]; reflexivity.
Qed.

Lemma rmbox_crop_refuted : exists q d i, r_crop q = true /\
  let v' := wview (pf_rmbox q d (snd (eff (d, i))), i) in v_crop v' <> None /\ v_crop v' <> v_media v'.
Proof.
  exists (mkRmReq true false false false),
         (mkPage 1 (mkAttrs None (Some (0, 0, 300, 400)) (Some (5, 5, 100, 100)) true) None None None),
         (mkAttrs None None (Some (10, 10, 200, 300)) false).
  split; [reflexivity|]. vm_compute. split; congruence.
Qed.

(* ---------- remove / trim / collect ---------- *)
Definition op_pages (o : op) (t : tree) : option (list Z) :=
  match o with
  | ORemove sel => Some (filter (fun k => negb (selb sel k)) (all_pages t))
  | OTrim sel => Some (filter (selb sel) (all_pages t))
  | OCollect l => Some l
  | _ => None
  end.

Definition vdflt : vpage := view dflt.

Lemma extract_op_spec o t t' nrs : wf_count t = true -> op_pages o t = Some nrs -> apply_op o t = Ok t' ->
  nrs <> [] /\ in_range (count_of t) nrs = true /\
  ids_of t' = pick_ids (ids_of t) nrs /\
  pages_of t' = map (fun k => xview (nth (Z.to_nat (k - 1)) (rpages t) dflt)) nrs /\
  (Forall xsafe (rpages t) ->
     npages_of t' = map (fun k => norm_view (nth (Z.to_nat (k - 1)) (pages_of t) vdflt)) nrs) /\
  wf_count t' = true.
Proof.
  intros Hwf Hp Ha.
  assert (He : extract_pages t nrs = Ok t').
  { destruct o; simpl in Hp; try discriminate; inversion Hp; subst; exact Ha. }
  destruct (extract_spec t nrs t' Hwf He) as [H1 [H2 [H3 [H4 [H5 _]]]]].
  repeat split; try assumption.
  intros Hs. unfold npages_of. rewrite H3, map_map. apply map_ext_in. intros k Hk.
  pose proof (in_range_Forall _ _ H2) as Hr. rewrite Forall_forall in Hr. specialize (Hr k Hk).
  assert (Hlt : (Z.to_nat (k - 1) < length (rpages t))%nat).
  { pose proof (wf_count_len t Hwf no_attrs) as Hl. unfold lenZ, rpages in *. lia. }
  unfold pages_of, vdflt. rewrite map_nth.
  apply xview_safe.
  - pose proof (resolve_own t no_attrs) as Ho. rewrite Forall_forall in Ho. apply Ho. apply nth_In. exact Hlt.
  - rewrite Forall_forall in Hs. apply Hs. apply nth_In. exact Hlt.
Qed.

(* ---------- insert ---------- *)
Lemma insert_spec sel before dim t t' : apply_op (OInsert sel before dim) t = Ok t' ->
  ins_rel (selb sel) before 0 (wpages t) (wpages t') /\
  ids_of t' = ins_ids (selb sel) before 0 (ids_of t) /\
  wf_count t' = true.
Proof.
  simpl. destruct t as [d|a c kids]; [discriminate|]. intros He.
  assert (Ht' : t' = fst (fst (ins_tree (selb sel) before dim (Node a c kids) no_attrs 0))) by congruence.
  subst t'. clear He.
  destruct (ins_tree_ok (selb sel) before dim (Node a c kids) eq_refl no_attrs 0 no_attrs) as [H1 [_ [H3 _]]].
  split; [exact H1|]. split; [|exact H3].
  rewrite !ids_walk. unfold wpages. apply (ins_rel_ids _ _ _ _ _ H1).
Qed.

(* the original pages are all still there, unchanged and in order: dropping exactly the inserted entries
   (those at the positions the relation marks) gives back the original list *)
Lemma ins_rel_sublist sel before : forall p l l', ins_rel sel before p l l' ->
  exists keep : list bool, length keep = length l' /\
    map snd (filter fst (combine keep l')) = l /\
    Forall (fun kw => fst kw = false -> exists mb, fst (snd kw) = blank_page mb) (combine keep l').
Proof.
  induction 1 as [p|p w l l' Hs _ IH|p d i mb l l' Hs _ IH].
  - exists []. repeat split; constructor.
  - destruct IH as [keep [H1 [H2 H3]]]. exists (true :: keep). simpl. rewrite H1, H2. repeat split.
    constructor; [intros; discriminate|exact H3].
  - destruct IH as [keep [H1 [H2 H3]]]. destruct before.
    + exists (false :: true :: keep). simpl. rewrite H1, H2. repeat split.
      constructor; [intros _; exists mb; reflexivity|]. constructor; [intros; discriminate|exact H3].
    + exists (true :: false :: keep). simpl. rewrite H1, H2. repeat split.
      constructor; [intros; discriminate|]. constructor; [intros _; exists mb; reflexivity|exact H3].
Qed.
