(* C30 — proofs, part 1: Go's net.IP classification + pdfcpu's blocked predicate  =  the RFC spec.
   Byte-level case reasoning: the only enumerations are over ONE byte (256 values) for the four bit-mask
   identities; addresses are never enumerated. *)
From Coq Require Import ZArith NArith List Bool Lia ZifyBool ZifyNat ZifyN Btauto.
From PV Require Import C30.Model C30.Spec.
Import ListNotations.
Open Scope N_scope.
Ltac Zify.zify_post_hook ::= Z.div_mod_to_equations.

Definition bytes (l : list N) : Prop := Forall (fun b => b < 256) l.

Lemma bytesb_bytes l : bytesb l = true <-> bytes l.
Proof.
  unfold bytesb, bytes. rewrite forallb_forall, Forall_forall. unfold byteb.
  split; intros H x Hx; specialize (H x Hx); lia.
Qed.

(* ---- one-byte mask identities, by checking the 256 byte values *)
Fixpoint below (n : nat) : list N := match n with O => [] | S k => N.of_nat k :: below k end.
Lemma below_In n b : b < N.of_nat n -> In b (below n).
Proof.
  induction n as [|k IH]; intros Hb; [lia|].
  cbn [below]. destruct (N.eq_dec b (N.of_nat k)) as [E|E]; [left; auto|right; apply IH; lia].
Qed.
Lemma byte_cases (P : N -> bool) : forallb P (below 256) = true -> forall b, b < 256 -> P b = true.
Proof. intros H b Hb. rewrite forallb_forall in H. apply H. apply below_In. exact Hb. Qed.

Lemma land_240 b : b < 256 -> N.land b 240 = (b / 16) * 16.
Proof. intros Hb. apply N.eqb_eq. revert b Hb. apply byte_cases. vm_compute. reflexivity. Qed.
Lemma land_254 b : b < 256 -> N.land b 254 = (b / 2) * 2.
Proof. intros Hb. apply N.eqb_eq. revert b Hb. apply byte_cases. vm_compute. reflexivity. Qed.
Lemma land_192 b : b < 256 -> N.land b 192 = (b / 64) * 64.
Proof. intros Hb. apply N.eqb_eq. revert b Hb. apply byte_cases. vm_compute. reflexivity. Qed.
Lemma land_15 b : b < 256 -> N.land b 15 = b mod 16.
Proof. intros Hb. apply N.eqb_eq. revert b Hb. apply byte_cases. vm_compute. reflexivity. Qed.

(* ---- list_eqb *)
Lemma list_eqb_eq a b : list_eqb a b = true <-> a = b.
Proof.
  revert b. induction a as [|x xs IH]; intros [|y ys]; cbn [list_eqb]; try (split; [discriminate|discriminate]); [tauto|].
  rewrite andb_true_iff, N.eqb_eq, IH. split; [intros [-> ->]; reflexivity|intros E; injection E; auto].
Qed.
Lemma list_eqb_refl a : list_eqb a a = true.
Proof. apply list_eqb_eq. reflexivity. Qed.
Lemma list_eqb_sym a b : list_eqb a b = list_eqb b a.
Proof.
  apply eq_true_iff_eq. rewrite !list_eqb_eq. split; congruence.
Qed.

(* ---- big-endian value of a byte string *)
Definition P256 (l : list N) : N := 256 ^ N.of_nat (length l).

Lemma fold_acc l : forall acc,
  fold_left (fun a b => a * 256 + b) l acc = acc * P256 l + num l.
Proof.
  unfold P256. induction l as [|x xs IH]; intros acc.
  - cbn. lia.
  - unfold num. cbn [fold_left length]. rewrite (IH (acc * 256 + x)), (IH (0 * 256 + x)).
    rewrite Nat2N.inj_succ, N.pow_succ_r'. ring.
Qed.

Lemma num_cons x xs : num (x :: xs) = x * P256 xs + num xs.
Proof. unfold num at 1. cbn [fold_left]. rewrite fold_acc. ring. Qed.

Lemma num_app l1 l2 : num (l1 ++ l2) = num l1 * P256 l2 + num l2.
Proof. unfold num at 1. rewrite fold_left_app. fold (num l1). apply fold_acc. Qed.

Lemma P256_pos l : 0 < P256 l.
Proof. unfold P256. apply N.neq_0_lt_0. apply N.pow_nonzero. discriminate. Qed.

Lemma P256_cons x xs : P256 (x :: xs) = 256 * P256 xs.
Proof. unfold P256. cbn [length]. rewrite Nat2N.inj_succ, N.pow_succ_r'. reflexivity. Qed.

Lemma num_bound l : bytes l -> num l < P256 l.
Proof.
  induction 1 as [|x xs Hx Hxs IH].
  - cbn. lia.
  - rewrite num_cons, P256_cons. pose proof (P256_pos xs) as Hp. nia.
Qed.

Lemma num_split hi lo : bytes lo ->
  num (hi ++ lo) / P256 lo = num hi /\ num (hi ++ lo) mod P256 lo = num lo.
Proof.
  intros Hlo. pose proof (num_bound lo Hlo) as Hb. rewrite num_app.
  split.
  - symmetry. apply (N.div_unique _ _ _ (num lo)); [exact Hb|ring].
  - symmetry. apply (N.mod_unique _ _ (num hi)); [exact Hb|ring].
Qed.

Lemma num_inj l1 : forall l2, bytes l1 -> bytes l2 -> length l1 = length l2 -> num l1 = num l2 -> l1 = l2.
Proof.
  induction l1 as [|x xs IH]; intros [|y ys] H1 H2 Hl Hn; try discriminate; [reflexivity|].
  inversion H1 as [|? ? Hx Hxs]; subst. inversion H2 as [|? ? Hy Hys]; subst.
  injection Hl as Hl. rewrite !num_cons in Hn.
  assert (HP : P256 xs = P256 ys) by (unfold P256; rewrite Hl; reflexivity).
  rewrite HP in Hn.
  pose proof (num_bound xs Hxs) as B1. pose proof (num_bound ys Hys) as B2. rewrite HP in B1.
  destruct (N.div_mod_unique (P256 ys) x y (num xs) (num ys) B1 B2) as [E1 E2]; [lia|].
  subst y. f_equal. apply IH; auto.
Qed.

Lemma num_eqb l1 l2 : bytes l1 -> bytes l2 -> length l1 = length l2 ->
  (num l1 =? num l2) = list_eqb l1 l2.
Proof.
  intros H1 H2 Hl. apply eq_true_iff_eq. rewrite N.eqb_eq, list_eqb_eq.
  split; [apply num_inj; assumption|intros ->; reflexivity].
Qed.

(* ---- the spec with its constants evaluated *)
Lemma spec_v4_alt v : spec_v4 v =
  ((v / 16777216 =? 127) || (v / 16777216 =? 10) || (v / 1048576 =? 2753) || (v / 65536 =? 49320)
   || (v / 65536 =? 43518) || (v / 268435456 =? 14) || (v =? 0)).
Proof. reflexivity. Qed.

Definition T120 : N := 2 ^ 120.
Definition T112 : N := 2 ^ 112.
Definition T32 : N := 2 ^ 32.

Lemma spec_v6_alt v : spec_v6 v =
  ((v =? 1) || (v =? 0) || (v / T120 / 2 =? 126) || (v / T112 / 64 =? 1018) || (v / T120 =? 255)
   || ((v / T32 =? 65535) && spec_v4 (v mod T32))).
Proof.
  unfold spec_v6, in_cidr.
  rewrite !N.div_div by (unfold T120, T112; discriminate).
  reflexivity.
Qed.

(* ---- 4-byte addresses *)
Lemma num4 a0 a1 a2 a3 : num [a0;a1;a2;a3] = a0 * 16777216 + a1 * 65536 + a2 * 256 + a3.
Proof. unfold num. cbn [fold_left]. ring. Qed.

Lemma blocked4 a0 a1 a2 a3 : a0 < 256 -> a1 < 256 -> a2 < 256 -> a3 < 256 ->
  revocationBlockedIP [a0;a1;a2;a3] = spec_v4 (num [a0;a1;a2;a3]).
Proof.
  intros H0 H1 H2 H3. rewrite spec_v4_alt, num4.
  set (v := a0 * 16777216 + a1 * 65536 + a2 * 256 + a3).
  assert (E24 : v / 16777216 = a0) by (subst v; lia).
  assert (E20 : v / 1048576 = a0 * 16 + a1 / 16) by (subst v; lia).
  assert (E16 : v / 65536 = a0 * 256 + a1) by (subst v; lia).
  assert (E28 : v / 268435456 = a0 / 16) by (subst v; lia).
  assert (E0 : (v =? 0) = (a0 =? 0) && (a1 =? 0) && (a2 =? 0) && (a3 =? 0)) by (subst v; lia).
  rewrite E24, E20, E16, E28, E0. clear E24 E20 E16 E28 E0 v.
  unfold revocationBlockedIP, IsLoopback, IsPrivate, IsLinkLocalUnicast, IsLinkLocalMulticast,
    IsMulticast, IsUnspecified.
  cbn [To4 length Nat.eqb at_ nth].
  rewrite (land_240 a1 H1), (land_240 a0 H0).
  unfold Equal, IPv4zero, IPv6unspecified, IPv4. cbn.
  assert (R1 : (a0 * 16 + a1 / 16 =? 2753) = (a0 =? 172) && (a1 / 16 * 16 =? 16)) by lia.
  assert (R2 : (a0 * 256 + a1 =? 49320) = (a0 =? 192) && (a1 =? 168)) by lia.
  assert (R3 : (a0 * 256 + a1 =? 43518) = (a0 =? 169) && (a1 =? 254)) by lia.
  assert (R4 : (a0 / 16 * 16 =? 224) = (a0 / 16 =? 14)) by (generalize (a0 / 16); clear; intros x; lia).
  rewrite R1, R2, R3, R4. clear R1 R2 R3 R4.
  destruct (a0 =? 224) eqn:E224.
  - assert (R5 : (a0 / 16 =? 14) = true) by lia. rewrite R5. btauto.
  - btauto.
Qed.

(* ---- 16-byte addresses *)
Lemma Equal_same a x : length a = length x -> Equal a x = list_eqb a x.
Proof. intros H. unfold Equal. rewrite H, Nat.eqb_refl. reflexivity. Qed.

Lemma To4_16 a0 a1 a2 a3 a4 a5 a6 a7 a8 a9 a10 a11 a12 a13 a14 a15 :
  To4 [a0;a1;a2;a3;a4;a5;a6;a7;a8;a9;a10;a11;a12;a13;a14;a15] =
  if list_eqb [a0;a1;a2;a3;a4;a5;a6;a7;a8;a9;a10;a11] v4InV6Prefix then Some [a12;a13;a14;a15] else None.
Proof.
  unfold To4, v4InV6Prefix.
  cbn [length Nat.eqb slice skipn firstn Nat.sub isZeros forallb at_ nth list_eqb andb].
  repeat (match goal with |- context [N.eqb ?x ?y] => destruct (N.eqb x y) end;
          cbn [andb]; try reflexivity).
Qed.

Lemma blocked_mapped a b c d : revocationBlockedIP (IPv4 a b c d) = revocationBlockedIP [a;b;c;d].
Proof.
  unfold revocationBlockedIP, IsLoopback, IsPrivate, IsLinkLocalUnicast, IsLinkLocalMulticast,
    IsMulticast, IsUnspecified, Equal, IPv4zero, IPv6unspecified, IPv4, To4, v4InV6Prefix.
  cbn. btauto.
Qed.

Lemma T32_P l : length l = 4%nat -> P256 l = T32.
Proof. intros H. unfold P256. rewrite H. reflexivity. Qed.
Lemma T112_P l : length l = 14%nat -> P256 l = T112.
Proof. intros H. unfold P256. rewrite H. reflexivity. Qed.
Lemma T120_P l : length l = 15%nat -> P256 l = T120.
Proof. intros H. unfold P256. rewrite H. reflexivity. Qed.

Lemma blocked16 a0 a1 a2 a3 a4 a5 a6 a7 a8 a9 a10 a11 a12 a13 a14 a15 :
  bytes [a0;a1;a2;a3;a4;a5;a6;a7;a8;a9;a10;a11;a12;a13;a14;a15] ->
  revocationBlockedIP [a0;a1;a2;a3;a4;a5;a6;a7;a8;a9;a10;a11;a12;a13;a14;a15] = spec_v6 (num [a0;a1;a2;a3;a4;a5;a6;a7;a8;a9;a10;a11;a12;a13;a14;a15]).
Proof.
  intros HB. rewrite spec_v6_alt.
  assert (HB' := HB). unfold bytes in HB'.
  repeat (match type of HB' with Forall _ (_ :: _) => let h := fresh "Hb" in let t := fresh "Ht" in
            inversion HB' as [|? ? h t]; subst; clear HB'; rename t into HB' end).
  clear HB'.
  assert (B4 : bytes [a12;a13;a14;a15]) by (repeat constructor; assumption).
  assert (B14 : bytes [a2;a3;a4;a5;a6;a7;a8;a9;a10;a11;a12;a13;a14;a15]) by (repeat constructor; assumption).
  assert (B15 : bytes [a1;a2;a3;a4;a5;a6;a7;a8;a9;a10;a11;a12;a13;a14;a15]) by (repeat constructor; assumption).
  assert (B12 : bytes [a0;a1;a2;a3;a4;a5;a6;a7;a8;a9;a10;a11]) by (repeat constructor; assumption).
  destruct (num_split [a0;a1;a2;a3;a4;a5;a6;a7;a8;a9;a10;a11] [a12;a13;a14;a15] B4) as [D32 M32].
  rewrite (T32_P [a12;a13;a14;a15] eq_refl) in D32, M32.
  destruct (num_split [a0] [a1;a2;a3;a4;a5;a6;a7;a8;a9;a10;a11;a12;a13;a14;a15] B15) as [D120 _].
  rewrite (T120_P [a1;a2;a3;a4;a5;a6;a7;a8;a9;a10;a11;a12;a13;a14;a15] eq_refl) in D120.
  destruct (num_split [a0;a1] [a2;a3;a4;a5;a6;a7;a8;a9;a10;a11;a12;a13;a14;a15] B14) as [D112 _].
  rewrite (T112_P [a2;a3;a4;a5;a6;a7;a8;a9;a10;a11;a12;a13;a14;a15] eq_refl) in D112.
  cbn [app] in D32, M32, D120, D112.
  rewrite D32, M32, D120, D112. clear D32 M32 D120 D112.
  replace (num [a0]) with a0 by (unfold num; cbn [fold_left]; lia).
  replace (num [a0; a1]) with (a0 * 256 + a1) by (unfold num; cbn [fold_left]; lia).
  change 1 with (num IPv6loopback) at 1. change 0 with (num IPv6unspecified) at 1.
  change 65535 with (num v4InV6Prefix).
  rewrite (num_eqb _ IPv6loopback HB) by (try reflexivity; repeat constructor).
  rewrite (num_eqb _ IPv6unspecified HB) by (try reflexivity; repeat constructor).
  rewrite (num_eqb _ v4InV6Prefix B12) by (try reflexivity; repeat constructor).
  destruct (list_eqb [a0;a1;a2;a3;a4;a5;a6;a7;a8;a9;a10;a11] v4InV6Prefix) eqn:M.
  - apply list_eqb_eq in M. unfold v4InV6Prefix in M. injection M as -> -> -> -> -> -> -> -> -> -> -> ->.
    change [0;0;0;0;0;0;0;0;0;0;255;255;a12;a13;a14;a15] with (IPv4 a12 a13 a14 a15) at 1.
    rewrite blocked_mapped, (blocked4 a12 a13 a14 a15) by assumption.
    cbn. reflexivity.
  - unfold revocationBlockedIP, IsLoopback, IsPrivate, IsLinkLocalUnicast, IsLinkLocalMulticast,
      IsMulticast, IsUnspecified.
    rewrite !To4_16, M.
    assert (Z4 : list_eqb [a0;a1;a2;a3;a4;a5;a6;a7;a8;a9;a10;a11;a12;a13;a14;a15] IPv4zero = false).
    { destruct (list_eqb [a0;a1;a2;a3;a4;a5;a6;a7;a8;a9;a10;a11;a12;a13;a14;a15] IPv4zero) eqn:E; [|reflexivity].
      apply list_eqb_eq in E. unfold IPv4zero, IPv4, v4InV6Prefix in E. cbn [app] in E.
      injection E as -> -> -> -> -> -> -> -> -> -> -> -> -> -> -> ->. cbn in M. discriminate. }
    rewrite !Equal_same by reflexivity. cbn [length Nat.eqb at_ nth andb]. rewrite Z4.
    rewrite (land_254 a0), (land_192 a1), (land_15 a1) by assumption.
    assert (R1 : (a0 / 2 * 2 =? 252) = (a0 / 2 =? 126)) by (generalize (a0 / 2); clear; intros x; lia).
    assert (R2 : ((a0 * 256 + a1) / 64 =? 1018) = (a0 =? 254) && (a1 / 64 * 64 =? 128)).
    { clear - Hb Hb0. lia. }
    rewrite R1, R2. cbn [andb]. btauto.
Qed.

(* ---- every length *)
Lemma blocked_other a : length a <> 4%nat -> length a <> 16%nat -> revocationBlockedIP a = false.
Proof.
  intros N4 N16.
  apply Nat.eqb_neq in N4. apply Nat.eqb_neq in N16.
  assert (T : To4 a = None) by (unfold To4; rewrite N4, N16; reflexivity).
  unfold revocationBlockedIP, IsLoopback, IsPrivate, IsLinkLocalUnicast, IsLinkLocalMulticast,
    IsMulticast, IsUnspecified. rewrite T.
  unfold Equal. change (length IPv6loopback) with 16%nat. change (length IPv4zero) with 16%nat.
  change (length IPv6unspecified) with 16%nat. rewrite N4, N16. reflexivity.
Qed.

Lemma blocked_iff_spec a : bytes a -> revocationBlockedIP a = private_or_local a.
Proof.
  intros HB.
  destruct (Nat.eq_dec (length a) 4) as [L4|N4].
  - destruct a as [|a0 [|a1 [|a2 [|a3 [|a4 r]]]]]; try discriminate L4.
    unfold private_or_local. cbn [length].
    inversion HB as [|? ? H0 HB1]; subst. inversion HB1 as [|? ? H1 HB2]; subst.
    inversion HB2 as [|? ? H2 HB3]; subst. inversion HB3 as [|? ? H3 _]; subst.
    apply blocked4; assumption.
  - destruct (Nat.eq_dec (length a) 16) as [L16|N16].
    + destruct a as [|a0 [|a1 [|a2 [|a3 [|a4 [|a5 [|a6 [|a7 [|a8 [|a9 [|a10 [|a11 [|a12 [|a13 [|a14 [|a15
        [|a16 r]]]]]]]]]]]]]]]]]; try discriminate L16.
      unfold private_or_local. cbn [length]. apply blocked16. exact HB.
    + rewrite (blocked_other a N4 N16). unfold private_or_local.
      destruct (length a) as [|[|[|[|[|[|[|[|[|[|[|[|[|[|[|[|[|n]]]]]]]]]]]]]]]]]; try reflexivity; congruence.
Qed.

Lemma imageBox_is_revocation a : imageBoxBlockedIP a = revocationBlockedIP a.
Proof. reflexivity. Qed.

(* ---- the address the dialer sees *)
Lemma dialTarget_mapped a : length a = 16%nat -> forall v, To4 a = Some v ->
  exists b0 b1 b2 b3, a = IPv4 b0 b1 b2 b3 /\ v = [b0;b1;b2;b3].
Proof.
  intros L16 v.
  destruct a as [|a0 [|a1 [|a2 [|a3 [|a4 [|a5 [|a6 [|a7 [|a8 [|a9 [|a10 [|a11 [|a12 [|a13 [|a14 [|a15
        [|a16 r]]]]]]]]]]]]]]]]]; try discriminate L16.
  rewrite To4_16.
  destruct (list_eqb [a0;a1;a2;a3;a4;a5;a6;a7;a8;a9;a10;a11] v4InV6Prefix) eqn:M; [|discriminate].
  intros E. injection E as <-. apply list_eqb_eq in M. unfold v4InV6Prefix in M.
  injection M as -> -> -> -> -> -> -> -> -> -> -> ->.
  exists a12, a13, a14, a15. split; reflexivity.
Qed.

Lemma To4_cases a : (To4 a = Some a /\ length a = 4%nat)
                    \/ (length a = 16%nat /\ exists v, To4 a = Some v)
                    \/ To4 a = None.
Proof.
  unfold To4. destruct (Nat.eqb (length a) 4) eqn:E4.
  - left. apply Nat.eqb_eq in E4. auto.
  - destruct (Nat.eqb (length a) 16) eqn:E16; cbn [andb].
    + apply Nat.eqb_eq in E16.
      destruct (isZeros (slice a 0 10) && (at_ a 10 =? 255) && (at_ a 11 =? 255)).
      * right. left. split; [exact E16|eexists; reflexivity].
      * right. right. reflexivity.
    + right. right. reflexivity.
Qed.

Lemma blocked_dialTarget a : revocationBlockedIP (dialTarget a) = revocationBlockedIP a.
Proof.
  unfold dialTarget.
  destruct (To4_cases a) as [[E _]|[[L [v E]]|E]]; rewrite E; try reflexivity.
  destruct (dialTarget_mapped a L v E) as (b0 & b1 & b2 & b3 & -> & ->).
  symmetry. apply blocked_mapped.
Qed.

Lemma bytes_dialTarget a : bytes a -> bytes (dialTarget a).
Proof.
  intros HB. unfold dialTarget.
  destruct (To4_cases a) as [[E _]|[[L [v E]]|E]]; rewrite E; try exact HB.
  destruct (dialTarget_mapped a L v E) as (b0 & b1 & b2 & b3 & -> & ->).
  unfold IPv4 in HB. unfold bytes in *. apply Forall_app in HB. tauto.
Qed.

Lemma spec_dialTarget a : bytes a -> private_or_local (dialTarget a) = private_or_local a.
Proof.
  intros HB. rewrite <- !blocked_iff_spec by (try apply bytes_dialTarget; exact HB).
  apply blocked_dialTarget.
Qed.
