(* C11 — unfolding equations of the mutual parser fixpoint (text copied from Model.v; each holds by
   conversion).  Generated once by hand-script; re-checked by Coq on every build. *)
From Coq Require Import NArith ZArith List Bool.
From PV Require Import Lib.GoInt C11.Model.
Import ListNotations.
Open Scope N_scope.

Lemma parse_obj_eq : forall f relaxed maxd level l,
  parse_obj (S f) relaxed maxd level l =
    match l with
    | [] => PErr EOther
    | _ =>
      if (eff_depth maxd <? level)%Z then PErr EDepth else
      match trim l with
      | [] => PErr EOther
      | (c :: t) as l1 =>
        if c =? 91 then                                              
          match t with
          | [] => PErr EOther
          | _ => match trim t with
                 | [] => PErr EOther
                 | l2 => parse_arr f relaxed maxd level l2 []
                 end
          end
        else if c =? 47 then                                         
          match parse_name l1 with
          | (Some n, r) => POk (OName n) r
          | (None, _) => PErr EOther
          end
        else if c =? 60 then                                         
          match t with
          | [] => PErr EOther
          | d :: t2 =>
            if d =? 60 then                                          
              match t2 with
              | _ :: _ :: _ =>
                match trim t2 with
                | [] => PErr EOther
                | l2 => parse_dict f relaxed maxd level l2 []
                end
              | _ => PErr EOther                                     
              end
            else parse_hexlit l1
          end
        else if c =? 40 then parse_strlit l1                         
        else match bool_or_null l1 with
             | Some (v, r) => POk v r
             | None => let '(v, r) := parse_numeric l1 in POk v r
             end
      end
    end.
Proof. reflexivity. Qed.

Lemma parse_arr_eq : forall f relaxed maxd level l acc,
  parse_arr (S f) relaxed maxd level l acc =
    match l with
    | [] => PErr EOther                      
    | c :: t =>
      if c =? 93 then POk (OArr (rev acc)) t else
      match parse_obj f relaxed maxd (level + 1) l with
      | POk o l' =>
        match l' with
        | [] => PErr EOther
        | _ => match trim l' with
               | [] => PErr EOther
               | l'' => parse_arr f relaxed maxd level l'' (o :: acc)
               end
        end
      | e => e
      end
    end.
Proof. reflexivity. Qed.

Lemma parse_dict_eq : forall f relaxed maxd level l d,
  parse_dict (S f) relaxed maxd level l d =
    match l with
    | [] => POk (ODict d) []
    | c :: t =>
      if (c =? 62) && (match t with c' :: _ => c' =? 62 | [] => false end) then POk (ODict d) (tl t) else
      match parse_name l with
      | (None, l1) =>
        if relaxed then                                              
          parse_dict f relaxed maxd level (fst (trim_left_space relaxed (tl l1))) d
        else PErr EOther
      | (Some k, l1) =>
        let '(l2, eol) := trim_left_space relaxed l1 in
        match l2 with
        | [] => PErr EOther
        | _ =>
          let vres := if eol then POk (OStr []) l2 else parse_obj f relaxed maxd (level + 1) l2 in
          match vres with
          | POk v l3 =>
            let d' := if is_null v then d else dict_insert k v d in
            match l3 with
            | _ :: _ :: _ =>
              match trim l3 with
              | [] => PErr EOther
              | l4 => parse_dict f relaxed maxd level l4 d'
              end
            | _ => PErr EOther
            end
          | e => e
          end
        end
      end
    end.
Proof. reflexivity. Qed.
