// Password boundaries: lengths around 32 (R2-R4) and 127 (R5/R6) bytes, ASCII / Latin-1-representable /
// 2-, 3-, 4-byte UTF-8 with a character straddling the cut at every phase, and which credential opens.
package main

import (
	"bytes"
	"fmt"
	"strings"

	"github.com/pdfcpu/pdfcpu/pkg/api"
	"github.com/pdfcpu/pdfcpu/pkg/pdfcpu"
	"github.com/pdfcpu/pdfcpu/pkg/pdfcpu/model"
	"verif/vh"
)

// letters that PRECIS (identifier class, NFKC) passes unchanged, so that they are usable with AES-256 too
var multiByte = []string{"é", "ж", "日", "𠀀"} // 2 (Latin-1 representable), 2, 3, 4 bytes

func asciiOf(n int, seed byte) string {
	b := make([]byte, n)
	for i := range b {
		b[i] = 'A' + (seed+byte(i)*7)%26
	}
	return string(b)
}

// passwords of exact byte lengths and passwords with a multi-byte character straddling byte `cut`
func passwordSet(cut int) []string {
	var out []string
	for _, n := range []int{0, 1, 31, 32, 33, 40, 127, 128} {
		out = append(out, asciiOf(n, byte(n)))
	}
	for _, ch := range multiByte {
		k := len(ch)
		for j := 0; j <= k; j++ { // j bytes of the character lie before the cut (0 and k: on the boundary)
			out = append(out, asciiOf(cut-j, byte(j))+ch+"tail"+ch)
		}
		out = append(out, strings.Repeat(ch, (cut+8)/k+1)) // only multi-byte characters, longer than the cut
		out = append(out, ch, asciiOf(cut-k, 3)+ch)         // short, and ending exactly at the cut
	}
	return out
}

type pwCase struct{ U, O string }

func pwCasesFor(r *vh.Run, cut int, n int) []pwCase {
	ps := passwordSet(cut)
	var cs []pwCase
	for i, p := range ps {
		cs = append(cs,
			pwCase{p, "owner-" + asciiOf(5, byte(i))}, // boundary in the user password, user != owner
			pwCase{"user" + asciiOf(3, byte(i)), p},   // boundary in the owner password
			pwCase{p, p},                              // user == owner
			pwCase{p, ""},                             // empty owner
			pwCase{"", p},                             // empty user
			pwCase{p, ps[(i+7)%len(ps)]})              // both at a boundary
	}
	if n > 0 && n < len(cs) {
		r.Rand.Shuffle(len(cs), func(a, b int) { cs[a], cs[b] = cs[b], cs[a] })
		// always keep a straddling user password that is opened by the owner
		keep := []pwCase{{asciiOf(31, 1) + "é" + "tail", "owner"}, {asciiOf(30, 2) + "日" + "x", "owner2"}, {asciiOf(29, 3) + "𠀀" + "x", ""}}
		if cut == 127 {
			keep = append(keep, pwCase{asciiOf(128, 9), "owner"}, pwCase{asciiOf(127, 9), asciiOf(127, 4)}, pwCase{asciiOf(126, 2) + "é" + "x", "owner3"})
		}
		cs = append(keep, cs[:n]...)
	}
	return cs
}

// ---- K + O on the exported algorithms ----

func newPwCtx(upw, opw string, rev, l, p int, id, o, u []byte, emd bool) *model.Context {
	ctx := &model.Context{Configuration: model.NewDefaultConfiguration(), XRefTable: &model.XRefTable{}}
	ctx.UserPW, ctx.OwnerPW = upw, opw
	ctx.E = &model.Enc{R: rev, L: l, P: p, ID: id, O: o, U: u, Emd: emd}
	return ctx
}

func primsPasswords(r *vh.Run) {
	type rl struct{ r, l int }
	rls := []rl{{2, 40}, {3, 128}, {3, 40}, {3, 64}, {4, 128}}
	cases := pwCasesFor(r, 32, r.Pick(60, 0))
	for ci, c := range cases {
		x := rls[ci%len(rls)]
		if r.Thorough() {
			x = rls[r.Rand.Intn(len(rls))]
		}
		emd := x.r != 4 || ci%3 != 0
		p := int(int16(r.Rand.Uint32()))
		id := rbytes(r, 16)
		hx := func(s string) string { return vh.Hex([]byte(s)) }
		rs, ls, ps := vh.Int(int64(x.r)), vh.Int(int64(x.l)), vh.Int(int64(p))
		in := map[string]any{"upw": hx(c.U), "opw": hx(c.O), "r": x.r, "l": x.l}

		r.Case("pad32", []string{hx(c.U)}, padRef(c.U))
		r.Case("ownerKey", []string{hx(c.O), hx(c.U), rs, ls}, vh.Hex(pdfcpu.VerifC22OwnerKey(c.O, c.U, x.r, x.l)))
		ctx := newPwCtx(c.U, c.O, x.r, x.l, p, id, nil, nil, emd)
		o, err := pdfcpu.VerifC22O(ctx)
		r.Case("computeO", []string{hx(c.O), hx(c.U), rs, ls}, resBytes(o, err))
		if err != nil {
			continue
		}
		ctx.E.O = o
		r.Case("encKey", []string{hx(c.U), vh.Hex(o), ps, vh.Hex(id), rs, vh.Bool(emd), ls}, vh.Hex(pdfcpu.VerifC22EncKey(c.U, ctx.E)))
		u, key, err := pdfcpu.VerifC22U(ctx)
		ures := "err"
		if err == nil {
			ures = "ok:" + vh.Hex(u) + "|" + vh.Hex(key)
		}
		r.Case("computeU", []string{hx(c.U), vh.Hex(o), ps, vh.Hex(id), rs, vh.Bool(emd), ls}, ures)
		if err != nil {
			continue
		}
		val := func(fn string, upw, opw string, owner bool) (bool, []byte) {
			c2 := newPwCtx(upw, opw, x.r, x.l, p, id, o, u, emd)
			var ok bool
			var e error
			if owner {
				ok, e = pdfcpu.VerifC22ValidateOwnerPassword(c2)
			} else {
				ok, e = pdfcpu.VerifC22ValidateUserPassword(c2)
			}
			res := "err"
			if e == nil {
				res = "ok:" + vh.Bool(ok) + "|" + vh.Hex(c2.EncKey)
			}
			if owner {
				r.Case(fn, []string{hx(opw), hx(upw), vh.Hex(o), vh.Hex(u), ps, vh.Hex(id), rs, vh.Bool(emd), ls}, res)
			} else {
				r.Case(fn, []string{hx(upw), vh.Hex(o), vh.Hex(u), ps, vh.Hex(id), rs, vh.Bool(emd), ls}, res)
			}
			return ok && e == nil, c2.EncKey
		}
		// O: each credential alone opens and yields the key the document was encrypted with
		if ok, k := val("validateUser", c.U, "", false); !ok || !bytes.Equal(k, key) {
			r.OracleFail("user-password-does-not-open", in, fmt.Sprintf("validateUserPassword ok=%v key %x want %x", ok, k, key))
		} else {
			r.OracleOK()
		}
		if c.O != "" {
			if ok, k := val("validateOwner", "", c.O, true); !ok || !bytes.Equal(k, key) {
				r.OracleFail("owner-password-does-not-open", in, fmt.Sprintf("validateOwnerPassword (owner password only) ok=%v key %x want %x", ok, k, key))
			} else {
				r.OracleOK()
			}
		}
		// wrong credentials (a prefix, an extension, the 32-byte truncation) through the model as well
		for _, w := range []string{c.U + "x", strings.TrimSuffix(c.U, "l"), string([]byte(c.U)[:min(len(c.U), 32)]), string([]byte(c.U)[:min(len(c.U), 31)])} {
			val("validateUser", w, "", false)
			val("validateOwner", "", w, true)
		}
		r.Count(fmt.Sprintf("class:pw-R%d", x.r))
	}
}

// sig: the part of a password that is significant for the algorithm — R <= 4: pad32 (the first 32 bytes,
// padded; C22_pad32_prefix); R5/R6: the prepared password truncated to 127 bytes (the alphabets used here
// are fixed points of the reader's preparation).  Two passwords with the same sig ARE the same credential.
func sig(a alg, pw string) string {
	if a.Len != 256 {
		return padRef(pw)
	}
	b := []byte(pw)
	if len(b) > 127 {
		b = b[:127]
	}
	return string(b)
}

func sigEq(a alg, x, y string) bool { return sig(a, x) == sig(a, y) }

// stale: after a password change, opening with the old password alone (in its slot).
// - the same credential as the new one (equal significant part): must still open;
// - the same credential as the OTHER password of the document (with an empty owner slot Algorithm 7 tries the
//   user password as owner password; an empty user password opens any slot): either outcome, counted;
// - otherwise it must be refused.
func staleCheck(r *vh.Run, a alg, file []byte, owner bool, old, neu, other string, in map[string]any) {
	var err error
	if owner {
		_, err = readCtx(file, "", old)
	} else {
		_, err = readCtx(file, old, "")
	}
	what := "upw"
	if owner {
		what = "opw"
	}
	switch {
	case sigEq(a, old, neu):
		r.Count("stale-" + what + ":same-credential-as-new")
		if err != nil {
			r.OracleFail("after-change-"+what+":equivalent-old-password-rejected", in, err.Error())
		} else {
			r.OracleOK()
		}
	case sigEq(a, old, other) || (owner && sigEq(a, other, "")):
		r.Count("stale-" + what + ":same-credential-as-other-password")
	case err == nil:
		r.OracleFail("after-change-"+what+":old-password-still-opens", in, "the old password differs from both current passwords in its significant part and was accepted")
	default:
		r.Count("stale-" + what + ":refused")
		r.OracleOK()
	}
}

func padRef(pw string) string {
	pad := []byte{0x28, 0xBF, 0x4E, 0x5E, 0x4E, 0x75, 0x8A, 0x41, 0x64, 0x00, 0x4E, 0x56, 0xFF, 0xFA, 0x01, 0x08,
		0x2E, 0x2E, 0x00, 0xB6, 0xD0, 0x68, 0x3E, 0x80, 0x2F, 0x0C, 0xA9, 0xFE, 0x64, 0x53, 0x69, 0x7A}
	b := append([]byte(pw), pad...)
	return vh.Hex(b[:32])
}

// ---- end to end: every credential combination, and password changes ----

func openAndCompare(r *vh.Run, base *model.Context, file []byte, upw, opw string, class string, in map[string]any) bool {
	c, err := readCtx(file, upw, opw)
	if err != nil {
		r.OracleFail(class, in, err.Error())
		return false
	}
	if diffs, _, _ := compareDocs(base, c); len(diffs) > 0 {
		r.OracleFail(class, in, strings.Join(diffs, " | "))
		return false
	}
	r.OracleOK()
	return true
}

// cls: every failure that involves an AES-256 password longer than 127 bytes has one class (the writer
// hashes the whole password, the reader truncates to 127 bytes: calcOAndUAES256* vs validate*PasswordAES256*)
func cls(class, sfx string) string {
	if sfx != "" {
		return sfx
	}
	return class
}

func e2ePasswords(r *vh.Run) {
	g := buildDoc(r.Rand, "gen-passwords", docOpts{Pages: 1})
	b1, err := plainRewrite(g.Bytes, false)
	if err != nil {
		r.Count("skip:pw-baseline")
		return
	}
	b2, _ := plainRewrite(b1, false)
	c1, e1 := readCtx(b1, "", "")
	c2, e2 := readCtx(b2, "", "")
	if e1 != nil || e2 != nil {
		r.Count("skip:pw-baseline-read")
		return
	}
	hx := func(s string) string { return vh.Hex([]byte(s)) }
	for _, a := range algs {
		cut := 32
		if a.Len == 256 {
			cut = 127
		}
		for ci, c := range pwCasesFor(r, cut, r.Pick(14, 0)) {
			if c.O == "" {
				// api.Encrypt refuses to encrypt without an owner password (a precondition, not a defect)
				r.Count("skip:encrypt-needs-owner-password")
				continue
			}
			in := func(how string) map[string]any {
				return map[string]any{"doc": g.Name, "alg": a.Name, "upw-hex": hx(c.U), "opw-hex": hx(c.O), "upw-bytes": len(c.U), "opw-bytes": len(c.O), "how": how}
			}
			sfx := ""
			if a.Len == 256 && (len(c.U) > 127 || len(c.O) > 127) {
				sfx = "aes256-password-longer-than-127-bytes"
			}
			enc, err := encryptBytesDoc(g.Bytes, confFor(a, c.U, c.O, model.PermissionsAll, false))
			if err != nil {
				r.OracleFail(cls("encrypt-failed", sfx), in("encrypt"), err.Error())
				continue
			}
			r.Count("e2e-pw:" + a.Name)
			// decrypt three ways
			type cred struct{ how, u, o string }
			creds := []cred{{"user-only", c.U, ""}, {"both", c.U, c.O}}
			if c.O != "" {
				creds = append(creds, cred{"owner-only", "", c.O})
			}
			for _, cr := range creds {
				dec, err := decryptBytesDoc(enc, confFor(a, cr.u, cr.o, model.PermissionsAll, false))
				if err != nil {
					r.OracleFail(cls("decrypt-failed:"+cr.how, sfx), in("decrypt with "+cr.how), err.Error())
					continue
				}
				cd, err := readCtx(dec, "", "")
				if err != nil {
					r.OracleFail(cls("decrypted-unreadable:"+cr.how, sfx), in("decrypt with "+cr.how), err.Error())
					continue
				}
				if diffs, _, _ := compareDocs(c2, cd); len(diffs) > 0 {
					r.OracleFail(cls("roundtrip-differs:"+cr.how, sfx), in("decrypt with "+cr.how), strings.Join(diffs, " | "))
				} else {
					r.OracleOK()
				}
				openAndCompare(r, c1, enc, cr.u, cr.o, cls("open-failed:"+cr.how, sfx), in("open with "+cr.how))
			}
			if ci%2 == 1 && !r.Thorough() {
				continue
			}
			// change the user password (owner known), then open with the owner alone and with the new user password
			if c.O != "" && c.O != c.U {
				// mostly a new password that differs within the significant prefix; a few that differ only behind it
				newU := "new" + c.U
				if ci%4 == 0 && len(c.U) >= cut {
					newU = c.U + "x"
				}
				var out bytes.Buffer
				cf := confFor(a, c.U, c.O, model.PermissionsAll, false)
				err := guard(func() error { return api.ChangeUserPassword(bytes.NewReader(enc), &out, c.U, newU, cf) })
				if err != nil {
					r.OracleFail(cls("change-upw-failed", sfx), in("ChangeUserPassword"), err.Error())
				} else {
					sf2 := sfx
					if a.Len == 256 && len(newU) > 127 {
						sf2 = "aes256-password-longer-than-127-bytes"
					}
					openAndCompare(r, c2, out.Bytes(), "", c.O, cls("after-change-upw:open-owner-only", sf2), in("ChangeUserPassword, open with owner only"))
					openAndCompare(r, c2, out.Bytes(), newU, "", cls("after-change-upw:open-new-user", sf2), in("ChangeUserPassword, open with new user password"))
					if c.U != "" {
						staleCheck(r, a, out.Bytes(), false, c.U, newU, c.O, in("ChangeUserPassword, open with OLD user password"))
					}
				}
				// change the owner password (user known), then open with the user alone and with the new owner alone
				newO := "new" + c.O
				if ci%4 == 2 && len(c.O) >= cut {
					newO = c.O + "x"
				}
				out.Reset()
				cf = confFor(a, c.U, c.O, model.PermissionsAll, false)
				err = guard(func() error { return api.ChangeOwnerPassword(bytes.NewReader(enc), &out, c.O, newO, cf) })
				if err != nil {
					r.OracleFail(cls("change-opw-failed", sfx), in("ChangeOwnerPassword"), err.Error())
				} else {
					sf2 := sfx
					if a.Len == 256 && len(newO) > 127 {
						sf2 = "aes256-password-longer-than-127-bytes"
					}
					openAndCompare(r, c2, out.Bytes(), c.U, "", cls("after-change-opw:open-user-only", sf2), in("ChangeOwnerPassword, open with user only"))
					openAndCompare(r, c2, out.Bytes(), "", newO, cls("after-change-opw:open-new-owner-only", sf2), in("ChangeOwnerPassword, open with new owner only"))
					staleCheck(r, a, out.Bytes(), true, c.O, newO, c.U, in("ChangeOwnerPassword, open with OLD owner password"))
				}
			}
		}
	}
}
