package main

// The O part of the C40 harness: partO (parent side: builds this very package with -race, runs
// it as a worker, turns its report and the race-detector log into oracle verdicts) and
// workerMain (child side: the concurrent workload).

import (
	"bytes"
	"crypto/sha256"
	"encoding/hex"
	"encoding/json"
	"flag"
	"fmt"
	"io"
	"math/rand"
	"os"
	"os/exec"
	"path/filepath"
	"regexp"
	"runtime"
	"sort"
	"strconv"
	"strings"
	"sync"
	"time"

	"github.com/pdfcpu/pdfcpu/pkg/api"
	"github.com/pdfcpu/pdfcpu/pkg/font"
	"github.com/pdfcpu/pdfcpu/pkg/pdfcpu"
	"github.com/pdfcpu/pdfcpu/pkg/pdfcpu/color"
	"github.com/pdfcpu/pdfcpu/pkg/pdfcpu/model"
	"github.com/pdfcpu/pdfcpu/pkg/pdfcpu/types"
	"verif/vh"
)

// ---------------------------------------------------------------- parent side

func envOr(k, d string) string {
	if v := os.Getenv(k); v != "" {
		return v
	}
	return d
}

type mismatch struct {
	Op    string `json:"op"`
	Kind  string `json:"kind"`
	Want  string `json:"want"`
	Got   string `json:"got"`
	Procs int    `json:"gomaxprocs"`
	G     int    `json:"goroutines"`
	Round int    `json:"round"`
	Fresh bool   `json:"fresh"`
}

type report struct {
	Checks     int            `json:"checks"`
	Mismatches []mismatch     `json:"mismatches"`
	Unstable   []string       `json:"unstable"`
	Counts     map[string]int `json:"counts"`
	Setup      []string       `json:"setup"`
	Sentinels  []string       `json:"sentinels"` // "<pkg.var> after <phase>"
	Done       bool           `json:"done"`
}

func buildRaceWorker(r *vh.Run) (string, bool) {
	verif := envOr("VERIF_DIR", "/verif")
	repo := envOr("VERIF_REPO", "/repo")
	bdir := envOr("VERIF_BUILD", filepath.Join(verif, "build", "C40"))
	os.MkdirAll(bdir, 0o755)
	args := []string{"build"}
	if rp, err := filepath.EvalSymlinks(repo); err != nil || rp != "/repo" {
		h := sha256.Sum256([]byte(repo))
		mf := filepath.Join(verif, "build", "gomod-"+hex.EncodeToString(h[:])[:10], "go.mod")
		if _, err := os.Stat(mf); err != nil {
			fmt.Fprintln(os.Stderr, "C40: modfile for", repo, "not found:", mf)
			os.Exit(3)
		}
		args = append(args, "-modfile="+mf)
	}
	out := filepath.Join(bdir, "hC40race")
	race := append(append([]string{}, args...), "-race", "-tags", "verif", "-o", out, "./cmd/c40")
	cmd := exec.Command("go", race...)
	cmd.Dir = filepath.Join(verif, "go")
	if b, err := cmd.CombinedOutput(); err != nil {
		fmt.Fprintf(os.Stderr, "C40: go build -race failed (%v): %s\nC40: falling back to the plain binary (determinism comparison only)\n", err, b)
		r.Count("race-detector:UNAVAILABLE")
		self, _ := os.Executable()
		return self, false
	}
	r.Count("race-detector:enabled")
	return out, true
}

var (
	reRaceSplit = regexp.MustCompile(`(?m)^==================\n`)
	reFrameFn   = regexp.MustCompile(`(?m)^  (\S+)\(\)[ \t]*$`)
)

// raceClass derives a narrow stable class from one race report: the global variable if the
// detector names it, else the two innermost pdfcpu functions of the conflicting accesses.
func raceClass(block string) string {
	if m := regexp.MustCompile(`Location is global '([^']+)'`).FindStringSubmatch(block); m != nil {
		return "race:" + shortFn(m[1])
	}
	// stacks are separated by blank lines; the first two are the conflicting accesses
	parts := strings.Split(block, "\n\n")
	var fns []string
	for _, p := range parts {
		if !(strings.Contains(p, "by goroutine") || strings.Contains(p, "by main goroutine")) || len(fns) >= 2 {
			continue
		}
		fn := ""
		for _, m := range reFrameFn.FindAllStringSubmatch(p, -1) {
			if strings.Contains(m[1], "pdfcpu/pkg/") {
				fn = shortFn(m[1])
				break
			}
		}
		if fn == "" {
			if m := reFrameFn.FindStringSubmatch(p); m != nil {
				fn = shortFn(m[1])
			}
		}
		fns = append(fns, fn)
	}
	sort.Strings(fns)
	return "race:" + strings.Join(fns, "|")
}

func shortFn(s string) string {
	if i := strings.LastIndex(s, "/"); i >= 0 {
		s = s[i+1:]
	}
	s = strings.NewReplacer("(*", "", ")", "").Replace(s) // model.(*XRefTable).Free -> model.XRefTable.Free
	// closures: font.LoadUserFonts.func1 -> font.LoadUserFonts
	s = regexp.MustCompile(`\.func\d+(\.\d+)*$`).ReplaceAllString(s, "")
	return s
}

func partO(r *vh.Run, base string) (broken []string) {
	bin, race := buildRaceWorker(r)
	repo := envOr("VERIF_REPO", "/repo")
	pr := prepare(base, repo, r.Thorough(), true)
	rf := sequentialReference(pr)
	if b, err := json.Marshal(rf); err == nil {
		os.WriteFile(filepath.Join(base, "ref.json"), b, 0o644)
	}
	r.CountN("worker:operations-in-pool", len(pr.pool))
	sentinelFail := func(where string, l []string) {
		seen := map[string]bool{}
		for _, x := range l {
			v := strings.SplitN(x, "=", 2)[0]
			v = strings.SplitN(v, " ", 2)[0]
			if seen[v] {
				continue
			}
			seen[v] = true
			r.OracleFail("shared-sentinel-modified:"+v, map[string]any{"seed": r.Seed, "tier": r.Tier, "where": where},
				"package-level variable whose address is stored in per-document structures no longer has its initial value: "+strings.Join(l, "; "))
		}
		if len(l) == 0 {
			r.OracleOK()
		}
	}
	sentinelFail("sequential reference (plain build)", rf.Sentinels)
	for _, o := range pr.pool[pr.poisonStart:] {
		if strings.HasPrefix(rf.Ref[o.name], "ok/") && !strings.Contains(rf.Ref[o.name], "err:") {
			r.Count("poisoner-accepted")
		} else {
			r.Count("poisoner-rejected")
		}
	}
	for _, o := range pr.pool[pr.cryptoStart:pr.sharedStart] {
		// a pipeline whose run-alone result is an error exercises nothing: make that visible
		if strings.Contains(rf.Ref[o.name], "err:") {
			r.Count("crypto-reference-is-error:" + o.name)
		} else {
			r.Count("crypto-reference-ok")
		}
	}
	// One worker PROCESS per GOMAXPROCS value (set through the environment).  Changing GOMAXPROCS inside a
	// race-instrumented process crashed the race runtime itself (SIGSEGV in __tsan::ThreadContext::OnFinished
	// under runtime.GOMAXPROCS -> procresize, no pdfcpu frame involved), so it is never changed at run time.
	seen := map[string]int{}
	totalChecks, totalBad := 0, 0
	var allUnstable []string
	for _, p := range []int{1, 2, 4, 16} {
		var rep report
		var stderr string
		var werr error
		hung := false
		limit := time.Duration(r.Pick(600, 1500)) * time.Second
		raceLog := filepath.Join(r.Dir, fmt.Sprintf("racelog-p%d", p))
		for attempt := 1; attempt <= 2; attempt++ {
			outFile := filepath.Join(r.Dir, fmt.Sprintf("worker-p%d.json", p))
			os.Remove(outFile)
			old, _ := filepath.Glob(raceLog + ".*")
			for _, f := range old {
				os.Remove(f)
			}
			cmd := exec.Command(bin, "--worker", "--seed", strconv.FormatInt(r.Seed, 10), "--tier", r.Tier, "--report", outFile,
				"--repo", repo, "--tmp", base, "--procs", strconv.Itoa(p))
			cmd.Env = append(os.Environ(), "GORACE=log_path="+raceLog+" halt_on_error=0", "GOMAXPROCS="+strconv.Itoa(p))
			var buf bytes.Buffer
			cmd.Stdout = &buf
			cmd.Stderr = &buf
			done := make(chan error, 1)
			if err := cmd.Start(); err != nil {
				panic(err)
			}
			go func() { done <- cmd.Wait() }()
			hung = false
			select {
			case werr = <-done:
			case <-time.After(limit):
				hung = true
				cmd.Process.Kill()
				<-done
			}
			stderr = buf.String()
			os.WriteFile(filepath.Join(r.Dir, fmt.Sprintf("worker-p%d.log", p)), buf.Bytes(), 0o644)
			rep = report{}
			if b, err := os.ReadFile(outFile); err == nil {
				json.Unmarshal(b, &rep)
			}
			if rep.Done || hung || deathIsPdfcpu(stderr) {
				break
			}
			// died for a reason that does not involve pdfcpu (race runtime, resources, harness): try once more
			r.Count("worker-died-without-pdfcpu-frames:retried")
			fmt.Fprintf(os.Stderr, "C40: worker gomaxprocs=%d died (%v) without a pdfcpu frame in the failing goroutine (attempt %d):\n%s\n", p, werr, attempt, headLines(stderr, 60))
		}
		input := map[string]any{"seed": r.Seed, "tier": r.Tier, "worker": bin, "race": race, "gomaxprocs": p}
		switch {
		case hung:
			// every operation of the pool terminates when run alone, so a workload that does not finish is a deadlock/livelock
			r.OracleFail("hang:worker-did-not-finish", input, "the concurrent workload did not finish within "+limit.String()+" (deadlock?); first lines of the worker's output:\n"+headLines(stderr, 200))
		case !rep.Done && deathIsPdfcpu(stderr):
			// fatal error: concurrent map read and map write / all goroutines are asleep / unrecovered panic in a goroutine started by pdfcpu
			class := "crash:worker"
			if m := regexp.MustCompile(`(?m)^(?:fatal error|panic): ([^\n]+)`).FindStringSubmatch(stderr); m != nil {
				msg := regexp.MustCompile(`0x[0-9a-f]+|\d+`).ReplaceAllString(strings.TrimSpace(m[1]), "N")
				if len(msg) > 60 {
					msg = msg[:60]
				}
				class = "crash:" + strings.ReplaceAll(msg, " ", "-")
			}
			r.OracleFail(class, input, fmt.Sprintf("worker exited (%v) before finishing; first lines of its output (fatal message and the failing goroutine):\n%s", werr, headLines(stderr, 200)))
		case !rep.Done:
			// not attributable to pdfcpu: a BROKEN RUN, neither a property violation nor OK
			broken = append(broken, fmt.Sprintf("race worker gomaxprocs=%d died twice (%v) with no pdfcpu frame in the failing goroutine; first lines of its output:\n%s", p, werr, headLines(stderr, 200)))
		}
		for k, v := range rep.Counts {
			r.CountN(k, v)
		}
		for _, s := range rep.Setup {
			r.Count("setup:" + s)
		}
		allUnstable = rep.Unstable
		sentinelFail(fmt.Sprintf("concurrent worker gomaxprocs=%d", p), rep.Sentinels)
		bad := len(rep.Mismatches)
		totalChecks += rep.Checks
		totalBad += bad
		for i := 0; i < rep.Checks-bad; i++ {
			r.OracleOK()
		}
		for _, m := range rep.Mismatches {
			in := map[string]any{"seed": r.Seed, "tier": r.Tier, "op": m.Op, "gomaxprocs": m.Procs, "goroutines": m.G, "round": m.Round, "fresh_state": m.Fresh}
			class := "nondeterministic:" + m.Kind
			if strings.HasPrefix(m.Got, "panic:") {
				class = "panic:" + m.Kind
			}
			r.OracleFail(class, in, "sequential result "+m.Want+" concurrent result "+m.Got)
		}
		// race detector reports
		logs, _ := filepath.Glob(raceLog + ".*")
		n0 := len(seen)
		for _, lf := range logs {
			b, _ := os.ReadFile(lf)
			for _, blk := range reRaceSplit.Split(string(b), -1) {
				if !strings.Contains(blk, "WARNING: DATA RACE") {
					continue
				}
				c := raceClass(blk)
				seen[c]++
				if seen[c] <= 3 {
					if len(blk) > 3500 {
						blk = blk[:3500]
					}
					r.OracleFail(c, input, blk)
				}
			}
		}
		if race && len(seen) == n0 && rep.Done {
			r.OracleOK() // the race detector watched this whole process and reported nothing new
		}
	}
	for _, u := range allUnstable {
		r.Count("sequentially-unstable:" + u)
	}
	r.Sample(map[string]any{"worker_checks": totalChecks, "mismatches": totalBad, "race_classes": seen, "unstable": allUnstable})
	return broken
}

// headLines returns the first n lines of s (the fatal message of a dying Go process comes first).
func headLines(s string, n int) string {
	l := strings.SplitAfterN(s, "\n", n+1)
	if len(l) > n {
		l = l[:n]
	}
	out := strings.Join(l, "")
	if len(out) > 16000 {
		out = out[:16000]
	}
	return out
}

// deathIsPdfcpu decides whether the death of a worker is attributable to pdfcpu: the goroutine that was
// running when the process died (the first goroutine block marked [running] / the block that follows the
// fatal message) has a pdfcpu frame, or the Go runtime detected a deadlock ("all goroutines are asleep")
// or a concurrent map access (thrown from the accessing goroutine).  A crash inside the race runtime, the
// scheduler or the harness's own frames only is not.
func deathIsPdfcpu(out string) bool {
	if strings.Contains(out, "all goroutines are asleep") {
		return true
	}
	i := strings.Index(out, "[running]")
	if i < 0 {
		i = strings.Index(out, "goroutine ")
		if i < 0 {
			return false
		}
	}
	blk := out[i:]
	if j := strings.Index(blk, "\n\n"); j >= 0 {
		blk = blk[:j]
	}
	return strings.Contains(blk, "pdfcpu/pkg/")
}

// ---------------------------------------------------------------- worker side

type wop struct {
	kind string
	name string
	run  func() string
}

var (
	reDate      = regexp.MustCompile(`\(D:[^)]*\)`)
	reSubsetTag = regexp.MustCompile(`^/[A-Z]{6}\+`)
)

// normalise maps an output PDF to a fingerprint that ignores what the property exempts (generated
// file identifiers and timestamps) and what pdfcpu itself does not reproduce between two SEQUENTIAL
// runs (it iterates over Go maps, so object numbers and the order of objects in the file vary): the
// file is read back and the object graph is hashed from the trailer's Root and Info in depth-first
// order with sorted dictionary keys, objects renumbered by first visit.
func normalise(b []byte) string {
	ctx, err := api.ReadContext(bytes.NewReader(b), plainConf())
	if err != nil {
		return "unreadable-" + errText(err)
	}
	h := sha256.New()
	seen := map[int]int{}
	var walk func(o types.Object, depth int)
	dict := func(d types.Dict, depth int) {
		keys := make([]string, 0, len(d))
		for k := range d {
			keys = append(keys, k)
		}
		sort.Strings(keys)
		io.WriteString(h, "<<")
		for _, k := range keys {
			if k == "ID" || k == "CreationDate" || k == "ModDate" || k == "Length" {
				continue
			}
			io.WriteString(h, "/"+k+" ")
			walk(d[k], depth+1)
		}
		io.WriteString(h, ">>")
	}
	walk = func(o types.Object, depth int) {
		if depth > 200 {
			io.WriteString(h, "DEEP")
			return
		}
		switch x := o.(type) {
		case nil:
			io.WriteString(h, "null ")
		case types.IndirectRef:
			n := x.ObjectNumber.Value()
			if id, ok := seen[n]; ok {
				fmt.Fprintf(h, "R%d ", id)
				return
			}
			seen[n] = len(seen)
			fmt.Fprintf(h, "O%d{", seen[n])
			t, err := ctx.Dereference(x)
			if err != nil {
				io.WriteString(h, "ERR")
			} else {
				walk(t, depth+1)
			}
			io.WriteString(h, "}")
		case types.Dict:
			dict(x, depth)
		case types.StreamDict:
			dict(x.Dict, depth)
			if t := x.Dict.Type(); t != nil && *t == "Metadata" {
				io.WriteString(h, "stream-metadata")
			} else {
				fmt.Fprintf(h, "stream%d:", len(x.Raw))
				h.Write(x.Raw)
			}
		case types.ObjectStreamDict:
			io.WriteString(h, "objstm")
		case types.XRefStreamDict:
			io.WriteString(h, "xrefstm")
		case types.Array:
			io.WriteString(h, "[")
			for _, e := range x {
				walk(e, depth+1)
			}
			io.WriteString(h, "]")
		default:
			s := reDate.ReplaceAllString(o.PDFString(), "(D:)")
			s = reSubsetTag.ReplaceAllString(s, "/XXXXXX+") // random font subset tag
			io.WriteString(h, s+" ")
		}
	}
	if ctx.Root != nil {
		walk(*ctx.Root, 0)
	}
	if ctx.Info != nil {
		walk(*ctx.Info, 0)
	}
	return fmt.Sprintf("%dp/%dobj:%s", ctx.PageCount, len(seen), hex.EncodeToString(h.Sum(nil)[:8]))
}

func plainConf() *model.Configuration {
	c := model.NewDefaultConfiguration()
	c.WriteObjectStream = false // keep Info / ID out of compressed streams so that they can be normalised
	c.WriteXRefStream = false
	return c
}

func safe(kind string, f func() string) func() string {
	return func() (res string) {
		defer func() {
			if p := recover(); p != nil {
				res = fmt.Sprintf("panic:%v", p)
			}
		}()
		return f()
	}
}

func errText(err error) string {
	if err == nil {
		return "ok"
	}
	s := err.Error()
	if len(s) > 120 {
		s = s[:120]
	}
	return "err:" + hex.EncodeToString([]byte(s))
}

// sentinels returns the audited "address escapes, pointee only read" package variables that no longer
// hold their initial value (coq/C40/Audit.v audited_escaping).  Called between phases, never concurrently
// with operations.
func sentinels() []string {
	var bad []string
	if v := model.VerifC40Zero(); v != 0 {
		bad = append(bad, fmt.Sprintf("model.zero=%d", v))
	}
	if v := pdfcpu.VerifC40Zero(); v != 0 {
		bad = append(bad, fmt.Sprintf("pdfcpu.zero=%d", v))
	}
	if color.Black != (color.SimpleColor{}) {
		bad = append(bad, "color.Black")
	}
	if color.Red != (color.SimpleColor{R: 1}) {
		bad = append(bad, "color.Red")
	}
	if color.Green != (color.SimpleColor{G: 1}) {
		bad = append(bad, "color.Green")
	}
	return bad
}

// prepared is the workload: the pool of operations over a fixed set-up on disk.
type prepared struct {
	pool        []wop
	cryptoStart int // pool[cryptoStart:sharedStart] are the encryption pipelines (RC4-40, RC4-128, AES-128, AES-256)
	sharedStart int // pool[sharedStart:poisonStart] are the operations on the shared package-level state
	poisonStart int // pool[poisonStart:] read the "poisoner" documents (poison.go); they come last
	xsEnd       int // pool[:xsEnd] are reads of ordinary xref-stream documents (validate, optimize, split)
	notes       []string
}

// prepare builds (create) or re-opens (!create) the set-up under tmp and returns the operation
// pool.  It is sequential and happens-before every goroutine.  The pool is a pure function of the
// files under tmp and repo, so the parent (plain build, computes the sequential reference) and the
// race-instrumented worker obtain the same operations.
func prepare(tmp, repo string, thorough, create bool) prepared {
	var pr prepared
	api.DisableConfigDir()
	fdir := filepath.Join(tmp, "wfonts")
	cbase := filepath.Join(tmp, "w")
	userFont := ""
	if create {
		os.MkdirAll(fdir, 0o755)
		if bb, err := os.ReadFile(filepath.Join(repo, "pkg/testdata/fonts/Roboto-Regular.ttf")); err == nil {
			if err := font.InstallFontFromBytesQuiet(fdir, "Roboto-Regular", bb); err != nil {
				fmt.Fprintln(os.Stderr, "C40: installing the user font failed:", err)
			}
		}
		for i := 1; i <= 4; i++ {
			writeFontGob(fdir, fontName(i), 10*i)
		}
		makeCertEnvs(cbase)
	}
	if _, err := os.Stat(filepath.Join(fdir, "Roboto-Regular.gob")); err == nil {
		userFont = "Roboto-Regular"
		pr.notes = append(pr.notes, "user-font-installed")
	} else {
		pr.notes = append(pr.notes, "user-font-MISSING")
	}
	font.UserFontDir = fdir
	model.TrustedCertDir = filepath.Join(cbase, "certs2")
	font.VerifC40ResetUserFonts()
	pdfcpu.VerifC40ResetCertPool()

	names := []string{"test.pdf", "testRot.pdf", "zineTest.pdf"}
	if thorough {
		names = append(names, "blank-scan.pdf", "bookletTestA6.pdf", "testWithText.pdf", "Walden.pdf")
	}
	var pdfs [][]byte
	var pdfNames []string
	for _, n := range names {
		if b, err := os.ReadFile(filepath.Join(repo, "pkg/testdata", n)); err == nil {
			pdfs = append(pdfs, b)
			pdfNames = append(pdfNames, n)
		}
	}
	if len(pdfs) < 3 {
		fmt.Fprintln(os.Stderr, "C40: not enough input PDFs under", repo)
		os.Exit(4)
	}
	// a form and its fill data (uses the user font); optional
	formFile, jsonFile := filepath.Join(tmp, "form.pdf"), filepath.Join(tmp, "form.json")
	if create && userFont != "" {
		if js, err := os.ReadFile(filepath.Join(repo, "pkg/testdata/json/form/textfield.json")); err == nil {
			var w bytes.Buffer
			if err := api.Create(nil, bytes.NewReader(js), &w, plainConf()); err == nil {
				var j bytes.Buffer
				if err := api.ExportFormJSON(bytes.NewReader(w.Bytes()), &j, "c40.pdf", plainConf()); err == nil {
					os.WriteFile(formFile, w.Bytes(), 0o644)
					os.WriteFile(jsonFile, j.Bytes(), 0o644)
				}
			}
		}
	}
	formPDF, _ := os.ReadFile(formFile)
	formJSON, _ := os.ReadFile(jsonFile)
	if formPDF != nil && formJSON != nil {
		pr.notes = append(pr.notes, "form-available")
	}

	add := func(kind, name string, f func() string) {
		pr.pool = append(pr.pool, wop{kind, kind + ":" + name, safe(kind, f)})
	}
	// ordinary documents with cross-reference STREAMS and object streams (what pdfcpu writes by default):
	// their reads go through the paths that consult the package-level zero values
	for i, b := range pdfs {
		xf := filepath.Join(tmp, "xs-"+pdfNames[i])
		if create {
			var w bytes.Buffer
			if err := api.Optimize(bytes.NewReader(b), &w, model.NewDefaultConfiguration()); err == nil {
				os.WriteFile(xf, w.Bytes(), 0o644)
			}
		}
		xb, err := os.ReadFile(xf)
		if err != nil {
			continue
		}
		n := "xs-" + pdfNames[i]
		add("xs-validate", n, func() string {
			c, err := api.PageCount(bytes.NewReader(xb), plainConf())
			return errText(api.Validate(bytes.NewReader(xb), plainConf())) + fmt.Sprintf("/%d/%s", c, errText(err))
		})
		add("xs-optimize", n, func() string {
			var w bytes.Buffer
			if err := api.Optimize(bytes.NewReader(xb), &w, plainConf()); err != nil {
				return errText(err)
			}
			return normalise(w.Bytes())
		})
		add("xs-split", n, func() string {
			ps, err := api.SplitRaw(bytes.NewReader(xb), 1, plainConf())
			if err != nil {
				return errText(err)
			}
			var parts []string
			for _, p := range ps {
				pb, _ := io.ReadAll(p.Reader)
				parts = append(parts, fmt.Sprintf("%d-%d=%s", p.From, p.Thru, normalise(pb)))
			}
			return strings.Join(parts, ",")
		})
	}
	pr.xsEnd = len(pr.pool)
	for i, b := range pdfs {
		b := append([]byte{}, b...)
		n := pdfNames[i]
		add("validate", n, func() string { return errText(api.Validate(bytes.NewReader(b), plainConf())) })
		add("pagecount", n, func() string {
			c, err := api.PageCount(bytes.NewReader(b), plainConf())
			return fmt.Sprintf("%d/%s", c, errText(err))
		})
		add("optimize", n, func() string {
			var w bytes.Buffer
			if err := api.Optimize(bytes.NewReader(b), &w, plainConf()); err != nil {
				return errText(err)
			}
			return normalise(w.Bytes())
		})
		for _, fn := range []string{"Helvetica", userFont} {
			if fn == "" {
				continue
			}
			fn := fn
			add("stamp", n+"/"+fn, func() string {
				wm, err := api.TextWatermark("C40 "+n, "font:"+fn+", points:24, rot:0, scale:1 abs", true, false, types.POINTS)
				if err != nil {
					return errText(err)
				}
				var w bytes.Buffer
				if err := api.AddWatermarks(bytes.NewReader(b), &w, nil, wm, plainConf()); err != nil {
					return errText(err)
				}
				return normalise(w.Bytes())
			})
		}
		add("encrypt", n, func() string {
			c := plainConf()
			c.UserPW, c.OwnerPW = "u"+n, "o"+n
			var w bytes.Buffer
			if err := api.Encrypt(bytes.NewReader(b), &w, c); err != nil {
				return errText(err)
			}
			c2 := plainConf()
			c2.UserPW, c2.OwnerPW = "u"+n, "o"+n
			var d bytes.Buffer
			if err := api.Decrypt(bytes.NewReader(w.Bytes()), &d, c2); err != nil {
				return "decrypt-" + errText(err)
			}
			return normalise(d.Bytes())
		})
		add("split", n, func() string {
			ps, err := api.SplitRaw(bytes.NewReader(b), 1, plainConf())
			if err != nil {
				return errText(err)
			}
			var parts []string
			for _, p := range ps {
				pb, _ := io.ReadAll(p.Reader)
				parts = append(parts, fmt.Sprintf("%d-%d=%s", p.From, p.Thru, normalise(pb)))
			}
			return strings.Join(parts, ",")
		})
		b2 := append([]byte{}, pdfs[(i+1)%len(pdfs)]...)
		add("merge", n+"+"+pdfNames[(i+1)%len(pdfs)], func() string {
			var w bytes.Buffer
			if err := api.MergeRaw([]io.ReadSeeker{bytes.NewReader(b), bytes.NewReader(b2)}, &w, false, plainConf()); err != nil {
				return errText(err)
			}
			return normalise(w.Bytes())
		})
	}
	if formPDF != nil && formJSON != nil {
		add("fillform", "textfield", func() string {
			var w bytes.Buffer
			if err := api.FillForm(bytes.NewReader(formPDF), bytes.NewReader(formJSON), &w, plainConf()); err != nil {
				return errText(err)
			}
			return normalise(w.Bytes())
		})
	}
	// ---- encryption pipelines for every security handler revision: RC4-40 (R2), RC4-128 (R3), AES-128 (R4)
	// derive a key per object (Algorithm 1, pdfcpu.decryptKey); AES-256 (R5/6) does not.  Each operation
	// encrypts its own copy of its document and then decrypts / validates / optimizes / re-keys it.
	pr.cryptoStart = len(pr.pool)
	type cmode struct {
		name string
		conf func(upw, opw string) *model.Configuration
	}
	plain := func(c *model.Configuration) *model.Configuration {
		c.WriteObjectStream = false
		c.WriteXRefStream = false
		return c
	}
	modes := []cmode{
		{"rc4-40", func(u, o string) *model.Configuration { return plain(model.NewRC4Configuration(u, o, 40)) }},
		{"rc4-128", func(u, o string) *model.Configuration { return plain(model.NewRC4Configuration(u, o, 128)) }},
		{"aes-128", func(u, o string) *model.Configuration { return plain(model.NewAESConfiguration(u, o, 128)) }},
		{"aes-256", func(u, o string) *model.Configuration { return plain(model.NewAESConfiguration(u, o, 256)) }},
	}
	ncrypt := 3
	if thorough {
		ncrypt = len(pdfs)
	}
	for i := 0; i < ncrypt && i < len(pdfs); i++ {
		b := append([]byte{}, pdfs[i]...)
		n := pdfNames[i]
		for _, m := range modes {
			m := m
			upw, opw := "u-"+n+m.name, "o-"+n+m.name
			enc := func() ([]byte, error) {
				var w bytes.Buffer
				err := api.Encrypt(bytes.NewReader(b), &w, m.conf(upw, opw))
				return w.Bytes(), err
			}
			dec := func(e []byte, u string) string {
				var d bytes.Buffer
				if err := api.Decrypt(bytes.NewReader(e), &d, m.conf(u, opw)); err != nil {
					return "decrypt-" + errText(err)
				}
				return normalise(d.Bytes())
			}
			add("crypt-decrypt", m.name+"/"+n, func() string {
				e, err := enc()
				if err != nil {
					return "encrypt-" + errText(err)
				}
				return dec(e, upw)
			})
			add("crypt-validate", m.name+"/"+n, func() string {
				e, err := enc()
				if err != nil {
					return "encrypt-" + errText(err)
				}
				c, err := api.PageCount(bytes.NewReader(e), m.conf(upw, opw))
				return errText(api.Validate(bytes.NewReader(e), m.conf(upw, opw))) + fmt.Sprintf("/%d/%s", c, errText(err))
			})
			add("crypt-optimize", m.name+"/"+n, func() string {
				e, err := enc()
				if err != nil {
					return "encrypt-" + errText(err)
				}
				var w bytes.Buffer
				if err := api.Optimize(bytes.NewReader(e), &w, m.conf(upw, opw)); err != nil {
					return "optimize-" + errText(err)
				}
				return dec(w.Bytes(), upw)
			})
			add("crypt-changeupw", m.name+"/"+n, func() string {
				e, err := enc()
				if err != nil {
					return "encrypt-" + errText(err)
				}
				var w bytes.Buffer
				if err := api.ChangeUserPassword(bytes.NewReader(e), &w, upw, upw+"-new", m.conf(upw, opw)); err != nil {
					return "changeupw-" + errText(err)
				}
				return dec(w.Bytes(), upw+"-new")
			})
		}
	}
	pr.sharedStart = len(pr.pool)
	for _, n := range []string{"f1", "f2", "f3", "f4", "f9", "Helvetica", "Roboto-Regular"} {
		n := n
		add("fontlookup", n, func() string {
			is, err := font.IsUserFont(n)
			sup, err2 := font.SupportedFont(n)
			ttf, ok, err3 := font.UserFont(n)
			w, err4 := font.CharWidth(n, 'A')
			return fmt.Sprintf("%v/%s %v/%s %d/%v/%s %d/%s", is, errText(err), sup, errText(err2), ttf.GlyphCount, ok, errText(err3), w, errText(err4))
		})
	}
	add("fontnames", "all", func() string {
		ss, err := font.UserFontNames()
		sort.Strings(ss)
		vv, err2 := font.UserFontNamesVerbose()
		sort.Strings(vv)
		return strings.Join(ss, ",") + "/" + errText(err) + "/" + strings.Join(vv, ",") + "/" + errText(err2)
	})
	add("fontreload", "reload", func() string { return errText(font.ReloadUserFonts()) })
	add("fontload", "load", func() string { return errText(font.LoadUserFonts()) })
	add("certs", "load+pool", func() string {
		if err := pdfcpu.LoadCertificates(); err != nil {
			return errText(err)
		}
		return strconv.Itoa(pdfcpu.VerifC40UserCertificatePoolSize())
	})
	add("certs", "invalidate", func() string { pdfcpu.InvalidateCertificatePool(); return "ok" })
	add("disableconfigdir", "redundant", func() string {
		// a request handler that (re-)asserts the documented multi-threaded mode before working
		api.DisableConfigDir()
		c := model.NewDefaultConfiguration()
		return fmt.Sprintf("%v/%v/%d/%s", c.WriteObjectStream, c.EncryptUsingAES, c.EncryptKeyLength, c.TimestampFormat)
	})
	pr.poisonStart = len(pr.pool)
	for _, sp := range poisonSpecs() {
		pb := buildPoisoner(sp)
		add("poisoner", sp.name, func() string {
			res := errText(api.Validate(bytes.NewReader(pb), plainConf()))
			var w bytes.Buffer
			if err := api.Optimize(bytes.NewReader(pb), &w, plainConf()); err != nil {
				return res + "/" + errText(err)
			}
			return res + "/" + normalise(w.Bytes())
		})
	}
	return pr
}

type reference struct {
	Ref       map[string]string `json:"ref"`
	Unstable  []string          `json:"unstable"`
	Sentinels []string          `json:"sentinels"`
}

// sequentialReference runs every operation alone, twice: operations whose own output is not
// reproducible sequentially are set aside (listed in the evidence, not compared).
func sequentialReference(pr prepared) reference {
	rf := reference{Ref: map[string]string{}}
	uns := map[string]bool{}
	for pass := 0; pass < 2; pass++ {
		for _, o := range pr.pool {
			res := o.run()
			// the damage can be transient (a later document "repairs" the shared cell): look after every operation
			for _, b := range sentinels() {
				if len(rf.Sentinels) < 20 {
					rf.Sentinels = append(rf.Sentinels, fmt.Sprintf("%s after %s run alone (sequential pass %d)", b, o.name, pass+1))
				}
			}
			if pass == 0 {
				rf.Ref[o.name] = res
			} else if rf.Ref[o.name] != res {
				uns[o.name] = true
			}
		}
		for _, b := range sentinels() {
			rf.Sentinels = append(rf.Sentinels, fmt.Sprintf("%s after sequential pass %d", b, pass+1))
		}
	}
	for n := range uns {
		rf.Unstable = append(rf.Unstable, n)
	}
	sort.Strings(rf.Unstable)
	return rf
}

func workerMain(args []string) {
	fs := flag.NewFlagSet("worker", flag.ExitOnError)
	seed := fs.Int64("seed", 1, "")
	tier := fs.String("tier", "quick", "")
	repOut := fs.String("report", "", "")
	repo := fs.String("repo", "/repo", "")
	tmp := fs.String("tmp", os.TempDir(), "")
	procsFlag := fs.Int("procs", 0, "")
	fs.Parse(args)
	rng := rand.New(rand.NewSource(*seed*7919 + 40 + int64(*procsFlag)*1000003))
	thorough := *tier == "thorough"
	rep := report{Counts: map[string]int{}}
	writeReport := func() {
		b, _ := json.Marshal(rep)
		os.WriteFile(*repOut, b, 0o644)
	}
	checkSentinels := func(after string) {
		for _, b := range sentinels() {
			rep.Sentinels = append(rep.Sentinels, b+" after "+after)
		}
		rep.Counts["sentinel-checks"]++
	}
	t0 := time.Now()
	lap := func(what string) {
		fmt.Fprintf(os.Stderr, "C40 worker: %-22s at %6.1fs\n", what, time.Since(t0).Seconds())
	}

	if os.Getenv("C40_SELFTEST_DIE") != "" {
		// self-test of the death attribution in partO: die without any pdfcpu frame
		panic("C40 self-test: worker dies for a harness reason")
	}
	pr := prepare(*tmp, *repo, thorough, false)
	rep.Setup = pr.notes
	pool := pr.pool
	var rf reference
	if b, err := os.ReadFile(filepath.Join(*tmp, "ref.json")); err != nil || json.Unmarshal(b, &rf) != nil || len(rf.Ref) != len(pool) {
		fmt.Fprintln(os.Stderr, "C40 worker: sequential reference missing or for another pool; computing it here")
		rf = sequentialReference(pr)
	}
	ref := rf.Ref
	unstable := map[string]bool{}
	for _, n := range rf.Unstable {
		unstable[n] = true
	}
	rep.Unstable = rf.Unstable
	writeReport()
	lap("set-up done")

	// ---- concurrent rounds ----
	// GOMAXPROCS comes from the environment of this process and is never changed here (see partO)
	procs := []int{runtime.GOMAXPROCS(0)}
	if *procsFlag > 0 && *procsFlag != procs[0] {
		fmt.Fprintf(os.Stderr, "C40 worker: GOMAXPROCS is %d, expected %d\n", procs[0], *procsFlag)
	}
	gs := []int{2, 4, 8, 16, 32}
	rounds := 3 // per worker process (one process per GOMAXPROCS value)
	opsPer := 3
	budget := 5 * time.Second
	if thorough {
		rounds = 100
		opsPer = 4
		budget = 75 * time.Second
	}
	var mu sync.Mutex
	// ---- stress phase: only the (cheap) operations on the shared package-level state, many of
	// them, from a fresh start-up state, so that first loads, reloads, lookups, pool loads and
	// DisableConfigDir really overlap
	shared := pool[pr.sharedStart:pr.poisonStart]
	iters := 40
	if thorough {
		iters = 400
	}
	for _, p := range procs {
		font.VerifC40ResetUserFonts()
		pdfcpu.VerifC40ResetCertPool()
		g := 8
		seeds := make([]int64, g)
		for i := range seeds {
			seeds[i] = rng.Int63()
		}
		var wg sync.WaitGroup
		start := make(chan struct{})
		for i := 0; i < g; i++ {
			wg.Add(1)
			go func(i int) {
				defer wg.Done()
				lr := rand.New(rand.NewSource(seeds[i]))
				<-start
				for k := 0; k < iters; k++ {
					o := shared[lr.Intn(len(shared))]
					got := o.run()
					mu.Lock()
					rep.Counts["op:"+o.kind]++
					rep.Checks++
					if got != ref[o.name] && len(rep.Mismatches) < 200 {
						rep.Mismatches = append(rep.Mismatches, mismatch{Op: o.name, Kind: o.kind, Want: ref[o.name], Got: got, Procs: p, G: g, Round: -1, Fresh: true})
					}
					mu.Unlock()
				}
			}(i)
		}
		close(start)
		wg.Wait()
		rep.Counts[fmt.Sprintf("stress:gomaxprocs=%d", p)]++
	}
	lap("stress phase")
	checkSentinels("stress phase")
	// ---- crypto phase: 8 goroutines x GOMAXPROCS sweep, only encryption pipelines on independent documents
	crypto := pool[pr.cryptoStart:pr.sharedStart]
	citers := 3
	if thorough {
		citers = 30
	}
	for _, p := range procs {
		if len(crypto) == 0 {
			break
		}
		g := 8
		seeds := make([]int64, g)
		for i := range seeds {
			seeds[i] = rng.Int63()
		}
		var wg sync.WaitGroup
		start := make(chan struct{})
		for i := 0; i < g; i++ {
			wg.Add(1)
			go func(i int) {
				defer wg.Done()
				lr := rand.New(rand.NewSource(seeds[i]))
				<-start
				for k := 0; k < citers; k++ {
					o := crypto[lr.Intn(len(crypto))]
					got := o.run()
					mu.Lock()
					rep.Counts["op:"+o.kind]++
					rep.Counts["crypto-mode:"+strings.SplitN(strings.SplitN(o.name, ":", 2)[1], "/", 2)[0]]++
					if !unstable[o.name] {
						rep.Checks++
						if got != ref[o.name] && len(rep.Mismatches) < 200 {
							rep.Mismatches = append(rep.Mismatches, mismatch{Op: o.name, Kind: o.kind, Want: ref[o.name], Got: got, Procs: p, G: g, Round: -2, Fresh: false})
						}
					}
					mu.Unlock()
				}
			}(i)
		}
		close(start)
		wg.Wait()
		rep.Counts[fmt.Sprintf("crypto-phase:gomaxprocs=%d", p)]++
	}
	lap("crypto phase")
	checkSentinels("crypto phase")
	// ---- poisoner phase: one goroutine reads the poisoner documents over and over while seven others
	// read, optimize and split ordinary cross-reference-stream documents
	poison := pool[pr.poisonStart:]
	victims := pool[:pr.xsEnd]
	piters := 6
	if thorough {
		piters = 60
	}
	for _, p := range procs {
		if len(poison) == 0 || len(victims) == 0 {
			break
		}
		g := 8
		seeds := make([]int64, g)
		for i := range seeds {
			seeds[i] = rng.Int63()
		}
		var wg sync.WaitGroup
		start := make(chan struct{})
		for i := 0; i < g; i++ {
			wg.Add(1)
			go func(i int) {
				defer wg.Done()
				lr := rand.New(rand.NewSource(seeds[i]))
				<-start
				n := piters
				if i == 0 {
					n = len(poison)
				}
				for k := 0; k < n; k++ {
					o := victims[lr.Intn(len(victims))]
					if i == 0 {
						o = poison[(k+int(seeds[0]%7))%len(poison)]
					}
					got := o.run()
					mu.Lock()
					rep.Counts["op:"+o.kind]++
					if !unstable[o.name] {
						rep.Checks++
						if got != ref[o.name] && len(rep.Mismatches) < 200 {
							rep.Mismatches = append(rep.Mismatches, mismatch{Op: o.name, Kind: o.kind, Want: ref[o.name], Got: got, Procs: p, G: g, Round: -3, Fresh: false})
						}
					}
					mu.Unlock()
				}
			}(i)
		}
		close(start)
		wg.Wait()
		rep.Counts[fmt.Sprintf("poisoner-phase:gomaxprocs=%d", p)]++
		checkSentinels(fmt.Sprintf("poisoner phase gomaxprocs=%d", p))
	}
	lap("poisoner phase")
	tc := time.Now()
	for round := 0; round < rounds; round++ {
		if round >= 2 && time.Since(tc) > budget {
			rep.Counts["rounds-cut-by-time-budget"] = rounds - round
			break
		}
		p := procs[round%len(procs)]
		g := gs[rng.Intn(len(gs))]
		if !thorough && g > 16 && round%5 != 0 {
			g = 8
		}
		fresh := rng.Intn(2) == 0
		if fresh {
			// start-up state: the first LoadUserFonts / LoadCertificates race with each other
			font.VerifC40ResetUserFonts()
			pdfcpu.VerifC40ResetCertPool()
		}
		plans := make([][]wop, g)
		delays := make([]time.Duration, g)
		for i := range plans {
			for k := 0; k < opsPer; k++ {
				var o wop
				if rng.Intn(3) == 0 {
					o = pool[pr.sharedStart+rng.Intn(pr.poisonStart-pr.sharedStart)] // fonts, certs, config
				} else {
					o = pool[rng.Intn(len(pool))]
				}
				plans[i] = append(plans[i], o)
			}
			delays[i] = time.Duration(rng.Intn(2000)) * time.Microsecond
		}
		var wg sync.WaitGroup
		start := make(chan struct{})
		for i := range plans {
			wg.Add(1)
			go func(i int) {
				defer wg.Done()
				<-start
				time.Sleep(delays[i])
				for _, o := range plans[i] {
					got := o.run()
					mu.Lock()
					rep.Counts["op:"+o.kind]++
					if !unstable[o.name] {
						rep.Checks++
						if got != ref[o.name] {
							if len(rep.Mismatches) < 200 {
								rep.Mismatches = append(rep.Mismatches, mismatch{Op: o.name, Kind: o.kind, Want: ref[o.name], Got: got, Procs: p, G: g, Round: round, Fresh: fresh})
							}
						}
					}
					mu.Unlock()
				}
			}(i)
		}
		close(start)
		wg.Wait()
		rep.Counts[fmt.Sprintf("round:gomaxprocs=%d", p)]++
		rep.Counts[fmt.Sprintf("round:goroutines=%d", g)]++
		if fresh {
			rep.Counts["round:fresh-state"]++
		}
		checkSentinels(fmt.Sprintf("round %d", round))
	}
	lap("concurrent rounds")
	checkSentinels("the end")
	rep.Done = true
	writeReport()
}
