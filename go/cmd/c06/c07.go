package main

import "verif/vh"

func runC07(r *vh.Run) {}
