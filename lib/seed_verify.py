#!/usr/bin/env python3
"""Verify a seeded change produced by a red-team sub-agent and record it under /verif/seeded/<name>/.

usage: seed_verify.py <property> <name> <outdir-of-agent> [--checks C12,C13]
Steps (all in a scratch worktree /tmp/sv-<name>, removed at the end):
  1. patch applies to /repo HEAD and `go build ./...` succeeds;
  2. the repository's stable baseline tests all still pass with the patch;
  3. (manual, recorded in meta by the caller) the demonstration fails with / passes without the patch;
  4. the listed checks are run with VERIF_REPO pointing at the patched worktree; verdicts recorded.
"""
import json, os, shutil, subprocess, sys, time
V = "/verif"
prop, name, out = sys.argv[1], sys.argv[2], sys.argv[3]
checks = [prop]
if "--checks" in sys.argv:
    checks = sys.argv[sys.argv.index("--checks") + 1].split(",")
wt = "/tmp/sv-" + name
env = dict(os.environ, GOFLAGS="-mod=mod", GOPROXY="off")
def sh(cmd, **kw):
    p = subprocess.run(cmd, shell=True, stdout=subprocess.PIPE, stderr=subprocess.STDOUT, text=True, env=env, **kw)
    return p.returncode, p.stdout
sh("git -C /repo worktree remove --force %s; rm -rf %s" % (wt, wt))
rc, o = sh("git -C /repo worktree add --detach %s HEAD" % wt)
assert rc == 0, o
# uncommitted hook files of /repo (untracked verif_export_*.go) are copied so harnesses build
rc, o = sh("git -C /repo ls-files --others --exclude-standard")
for f in o.split():
    if "verif_export" in f:
        os.makedirs(os.path.dirname(os.path.join(wt, f)), exist_ok=True)
        shutil.copy(os.path.join("/repo", f), os.path.join(wt, f))
res = {"property": prop, "name": name}
rc, o = sh("git -C %s apply %s/patch.diff" % (wt, out))
res["patch_applies"] = rc == 0
if rc != 0:
    print("patch does not apply:", o); sys.exit(1)
rc, o = sh("go build ./...", cwd=wt)
res["builds"] = rc == 0
prev_ver = {}
try:
    prev_ver = json.load(open(os.path.join(V, "seeded", name, "meta.json"))).get("verification", {})
except Exception:
    pass
if "--no-baseline" in sys.argv and "baseline_passes" in prev_ver:
    # re-verification after a check was strengthened: the patch is unchanged, keep the recorded suite result
    res["baseline_passes"] = prev_ver["baseline_passes"]
    res["baseline_summary"] = prev_ver.get("baseline_summary", [])
    print("baseline: (kept from earlier run)", res["baseline_passes"])
else:
    rc, o = sh("python3 %s/lib/baseline_check.py %s" % (V, wt))
    res["baseline_passes"] = rc == 0
    res["baseline_summary"] = o.strip().splitlines()[:6]
    print("baseline:", o.strip().splitlines()[0] if o.strip() else "?")
res["checks"] = {}
for c in checks:
    t = time.time()
    rc, o = sh("VERIF_REPO=%s ./check %s --tier quick" % (wt, c), cwd=V)
    lines = [l for l in o.splitlines() if l.startswith("VIOLATION") or l.startswith("OK ") or l.startswith("FAIL ") or l.startswith("KNOWN") or "broken:" in l]
    lines.sort(key=lambda l: 0 if l.startswith(("VIOLATION", "FAIL", "OK ")) or "broken:" in l else 1)
    res["checks"][c] = {"exit": rc, "lines": [l[:400] for l in lines[:12]], "wall_s": round(time.time() - t, 1)}
    print(c, "exit", rc, *lines[:4], sep="\n   ")
dst = os.path.join(V, "seeded", name)
os.makedirs(dst, exist_ok=True)
same = os.path.realpath(out) == os.path.realpath(dst)
if not same:
    shutil.copy(os.path.join(out, "patch.diff"), os.path.join(dst, "patch.diff"))
if not same and os.path.isdir(os.path.join(out, "demo")):
    shutil.rmtree(os.path.join(dst, "demo"), ignore_errors=True)
    shutil.copytree(os.path.join(out, "demo"), os.path.join(dst, "demo"))
meta = {}
mp = os.path.join(out, "meta.json")
if os.path.exists(mp):
    try:
        meta = json.load(open(mp))
    except Exception as e:
        meta = {"agent_meta_unparseable": str(e)}
prev_path = os.path.join(dst, "meta.json")
if os.path.exists(prev_path):
    try:
        prev = json.load(open(prev_path)).get("verification", {})
        if prev.get("demo_confirmed"):
            res["demo_confirmed"] = prev["demo_confirmed"]
        hist = prev.get("earlier_runs", [])
        if prev.get("checks"):
            hist.append({c: ("detected" if r.get("exit") else "NOT detected") for c, r in prev["checks"].items()})
        if hist:
            res["earlier_runs"] = hist
        for k in ("detected_by", "baseline_note"):
            if prev.get(k):
                res[k] = prev[k]
    except Exception:
        pass
meta["verification"] = res
json.dump(meta, open(prev_path, "w"), indent=1)
print("worktree kept at", wt, "for the demo run; remove with: git -C /repo worktree remove --force", wt)
